(** Proofs about [Attr/Vmcoreinfo.v]: the parsed views of a VMCOREINFO text are
    functions of its key/value list.

    Part A: the text-level functions of the model are the spec's ([lines_of] =
    [text_lines], [split_line] = [line_kv], [classify] = [typed_key], ...).
    Part B: the attribute forest is a finite map from dotted paths to leaves
    (lookup/insert laws; insert fails exactly on a path clash).
    Part C: the row loop keeps "leaf lookups = last binding of the rows so far".
    Part D: the theorems. *)
From Coq Require Import NArith ZArith List Bool Lia.
From KdV Require Import Base.Wrap64 Attr.AttrBase Attr.ListFacts Attr.Hooks Attr.HooksProofs
  Attr.Vmcoreinfo Attr.DerivedSpec Attr.DerivedClaims.
Import ListNotations.
Local Open Scope N_scope.

(** * Part A: strings *)

Lemma bytes_eqb_eq a : forall b, bytes_eqb a b = true <-> a = b.
Proof.
  induction a as [|x a IH]; intros [|y b]; cbn; split; intro H; try discriminate; try reflexivity.
  - apply andb_prop in H as [H1 H2]. apply N.eqb_eq in H1. apply IH in H2. congruence.
  - injection H as -> ->. rewrite N.eqb_refl. cbn. now apply IH.
Qed.

Lemma bytes_eqb_refl a : bytes_eqb a a = true.
Proof. now apply bytes_eqb_eq. Qed.

Lemma bytes_eqb_neq a b : bytes_eqb a b = false <-> a <> b.
Proof.
  split.
  - intros H E. apply bytes_eqb_eq in E. congruence.
  - intro H. destruct (bytes_eqb a b) eqn:E; [|reflexivity]. apply bytes_eqb_eq in E. contradiction.
Qed.

Lemma bytes_eqb_sym a b : bytes_eqb a b = bytes_eqb b a.
Proof.
  destruct (bytes_eqb a b) eqn:E.
  - apply bytes_eqb_eq in E. subst. symmetry. apply bytes_eqb_refl.
  - symmetry. apply bytes_eqb_neq. apply bytes_eqb_neq in E. congruence.
Qed.

(** lines *)
Lemma split_on_rev_nonempty sep s : forall cur, split_on_rev sep s cur <> [].
Proof.
  induction s as [|c t IH]; intro cur; cbn [split_on_rev]; [discriminate|].
  destruct (c =? sep); [discriminate|apply IH].
Qed.

Lemma lines_of_split s : forall cur,
  lines_of s cur =
  let p := split_on_rev NL s cur in
  match last p [] with [] => removelast p | _ => p end.
Proof.
  induction s as [|c t IH]; intro cur; cbn [lines_of split_on_rev].
  - cbn. destruct cur as [|x cur]; [reflexivity|].
    destruct (rev (x :: cur)) eqn:E; [|reflexivity].
    apply (f_equal (@length N)) in E. rewrite rev_length in E. discriminate.
  - destruct (c =? NL).
    + rewrite IH. cbn zeta.
      pose proof (split_on_rev_nonempty NL t []) as Hne.
      destruct (split_on_rev NL t []) as [|y l] eqn:E; [contradiction|].
      change (last (rev cur :: y :: l) []) with (last (y :: l) []).
      destruct (last (y :: l) []); [|reflexivity].
      reflexivity.
    + apply IH.
Qed.

Lemma lines_of_text text : lines_of text [] = text_lines text.
Proof. rewrite lines_of_split. reflexivity. Qed.

(** key / value *)
Lemma split_first_spec sep s :
  split_first sep s =
  if has_byte sep s then Some (take_until sep s, drop_until sep s) else None.
Proof.
  induction s as [|c t IH]; [reflexivity|].
  cbn [split_first has_byte existsb take_until drop_until].
  destruct (c =? sep); [reflexivity|].
  cbn [orb]. rewrite IH. fold (has_byte sep t). destruct (has_byte sep t); reflexivity.
Qed.

Lemma take_until_none sep s : has_byte sep s = false -> take_until sep s = s.
Proof.
  induction s as [|c t IH]; [reflexivity|]. cbn [has_byte existsb take_until].
  destruct (c =? sep); [discriminate|]. cbn [orb]. intro H. f_equal. now apply IH.
Qed.

Lemma drop_until_none sep s : has_byte sep s = false -> drop_until sep s = [].
Proof.
  induction s as [|c t IH]; [reflexivity|]. cbn [has_byte existsb drop_until].
  destruct (c =? sep); [discriminate|]. cbn [orb]. exact IH.
Qed.

Lemma split_line_kv l : split_line l = line_kv l.
Proof.
  unfold split_line, line_kv. rewrite split_first_spec.
  destruct (has_byte EQ l) eqn:E; [reflexivity|].
  now rewrite take_until_none, drop_until_none.
Qed.

(** [split_first c s = Some (a, [])]: [c] occurs exactly once, at the end *)
Lemma split_first_last c s a :
  split_first c s = Some (a, []) <-> s = a ++ [c] /\ has_byte c a = false.
Proof.
  revert a. induction s as [|x t IH]; intro a; cbn [split_first].
  - split; [discriminate|]. intros [H _]. destruct a; discriminate.
  - destruct (x =? c) eqn:Ex.
    + apply N.eqb_eq in Ex. subst x. split.
      * intro H. injection H as <- ->. split; reflexivity.
      * intros [H Hn]. destruct a as [|y a].
        -- cbn in H. injection H as ->. reflexivity.
        -- cbn in H. injection H as <- H. cbn [has_byte existsb] in Hn.
           rewrite N.eqb_refl in Hn. discriminate.
    + split.
      * destruct (split_first c t) as [[a' b']|] eqn:E; [|discriminate].
        intro H. injection H as <- ->.
        destruct (proj1 (IH a') eq_refl) as [-> Hn]. split; [reflexivity|].
        cbn [has_byte existsb]. rewrite Ex. exact Hn.
      * intros [H Hn]. destruct a as [|y a].
        -- cbn in H. injection H as -> ->. rewrite N.eqb_refl in Ex. discriminate.
        -- cbn in H. injection H as <- ->. cbn [has_byte existsb] in Hn.
           rewrite Ex in Hn. cbn [orb] in Hn.
           rewrite (proj2 (IH a) (conj eq_refl Hn)). reflexivity.
Qed.

Lemma has_byte_rev c s : has_byte c (rev s) = has_byte c s.
Proof.
  unfold has_byte. induction s as [|x t IH]; [reflexivity|].
  cbn [rev existsb]. rewrite existsb_app, IH. cbn [existsb]. rewrite orb_false_r. apply orb_comm.
Qed.

Lemma classify_typed_key key : classify key = typed_key key.
Proof.
  unfold classify, typed_key. rewrite split_first_spec.
  destruct (has_byte LPAR key); [|reflexivity].
  set (sym := drop_until LPAR key). set (type := take_until LPAR key).
  destruct (split_first RPAR sym) as [[name rest]|] eqn:E.
  - destruct rest as [|r rest].
    + apply split_first_last in E as [-> Hn].
      rewrite rev_app_distr. cbn [rev app]. rewrite N.eqb_refl, has_byte_rev, Hn.
      cbn [andb negb]. now rewrite rev_involutive.
    + destruct (rev sym) as [|c rn] eqn:Er; [reflexivity|].
      destruct ((c =? RPAR) && negb (has_byte RPAR rn)) eqn:Et; [|reflexivity].
      exfalso. apply andb_prop in Et as [E1 E2]. apply N.eqb_eq in E1. subst c.
      apply negb_true_iff in E2.
      assert (Hs : sym = rev rn ++ [RPAR]).
      { rewrite <- (rev_involutive sym), Er. reflexivity. }
      rewrite <- has_byte_rev in E2.
      pose proof (proj2 (split_first_last RPAR sym (rev rn)) (conj Hs E2)) as H.
      rewrite E in H. discriminate.
  - destruct (rev sym) as [|c rn] eqn:Er; [reflexivity|].
    destruct ((c =? RPAR) && negb (has_byte RPAR rn)) eqn:Et; [|reflexivity].
    exfalso. apply andb_prop in Et as [E1 E2]. apply N.eqb_eq in E1. subst c.
    apply negb_true_iff in E2.
    assert (Hs : sym = rev rn ++ [RPAR]).
    { rewrite <- (rev_involutive sym), Er. reflexivity. }
    rewrite <- has_byte_rev in E2.
    pose proof (proj2 (split_first_last RPAR sym (rev rn)) (conj Hs E2)) as H.
    rewrite E in H. discriminate.
Qed.

Lemma kind_of_name k : kind_of (kind_name k) = Some k.
Proof. destruct k; reflexivity. Qed.

Lemma kind_of_some type k : kind_of type = Some k -> type = kind_name k.
Proof.
  unfold kind_of.
  destruct (bytes_eqb type s_SYMBOL) eqn:E1; [intro H; injection H as <-; now apply bytes_eqb_eq|].
  destruct (bytes_eqb type s_LENGTH) eqn:E2; [intro H; injection H as <-; now apply bytes_eqb_eq|].
  destruct (bytes_eqb type s_NUMBER) eqn:E3; [intro H; injection H as <-; now apply bytes_eqb_eq|].
  destruct (bytes_eqb type s_OFFSET) eqn:E4; [intro H; injection H as <-; now apply bytes_eqb_eq|].
  destruct (bytes_eqb type s_SIZE) eqn:E5; [intro H; injection H as <-; now apply bytes_eqb_eq|].
  discriminate.
Qed.

Lemma kind_of_base type :
  type_base type = match kind_of type with
                   | Some TSYMBOL => Some 16
                   | Some _ => Some 0
                   | None => None
                   end.
Proof.
  unfold type_base, kind_of.
  destruct (bytes_eqb type s_SYMBOL); [reflexivity|].
  destruct (bytes_eqb type s_LENGTH); [reflexivity|].
  destruct (bytes_eqb type s_NUMBER); [reflexivity|].
  destruct (bytes_eqb type s_OFFSET); [reflexivity|].
  destruct (bytes_eqb type s_SIZE); reflexivity.
Qed.

Lemma parse_typed_number_of k value :
  parse_typed k value = number_of (match k with TSYMBOL => 16 | _ => 0 end) value.
Proof.
  unfold parse_typed, number_of.
  destruct (strtoull _ value) as [n rest]. destruct rest; reflexivity.
Qed.

(** paths: a key and its list of components determine each other *)
Lemma join_cons sep x l : l <> [] -> join_with sep (x :: l) = x ++ sep :: join_with sep l.
Proof. destruct l; [congruence|reflexivity]. Qed.

Lemma split_on_rev_join sep s : forall cur,
  join_with sep (split_on_rev sep s cur) = rev cur ++ s.
Proof.
  induction s as [|c t IH]; intro cur; cbn [split_on_rev].
  - cbn. now rewrite app_nil_r.
  - destruct (c =? sep) eqn:E.
    + apply N.eqb_eq in E. subst c.
      rewrite join_cons by apply split_on_rev_nonempty.
      rewrite IH. reflexivity.
    + rewrite IH. cbn [rev]. now rewrite <- app_assoc.
Qed.

Lemma join_split sep s : join_with sep (split_on sep s) = s.
Proof. unfold split_on. now rewrite split_on_rev_join. Qed.

Lemma split_on_inj sep a b : split_on sep a = split_on sep b -> a = b.
Proof. intro H. rewrite <- (join_split sep a), <- (join_split sep b). now f_equal. Qed.

Lemma split_on_nonempty sep s : split_on sep s <> [].
Proof. apply split_on_rev_nonempty. Qed.

(** * Part B: the forest as a finite map *)

Definition get_child (k : bytes) (l : list node) : option node :=
  match find_child k l with Some (_, n, _) => Some n | None => None end.

Lemma get_child_cons k n l :
  get_child k (n :: l) = if bytes_eqb (nkey n) k then Some n else get_child k l.
Proof.
  unfold get_child. cbn [find_child]. destruct (bytes_eqb (nkey n) k); [reflexivity|].
  destruct (find_child k l) as [[[b m] a]|]; reflexivity.
Qed.

Lemma get_child_app k b r :
  get_child k (b ++ r) = match get_child k b with Some n => Some n | None => get_child k r end.
Proof.
  induction b as [|x b IH]; [reflexivity|].
  cbn [app]. rewrite !get_child_cons. destruct (bytes_eqb (nkey x) k); [reflexivity|exact IH].
Qed.

Lemma find_child_some k l b n a :
  find_child k l = Some (b, n, a) ->
  l = b ++ n :: a /\ nkey n = k /\ get_child k b = None.
Proof.
  revert b. induction l as [|x l IH]; intro b; cbn [find_child]; [discriminate|].
  destruct (bytes_eqb (nkey x) k) eqn:E.
  - intro H. injection H as <- <- <-. apply bytes_eqb_eq in E. auto.
  - destruct (find_child k l) as [[[b' m] a']|]; [|discriminate].
    intro H. injection H as <- <- <-.
    destruct (IH b' eq_refl) as (-> & Hk & Hb). repeat split; auto.
    rewrite get_child_cons, E. exact Hb.
Qed.

Lemma get_child_some k l n : get_child k l = Some n -> nkey n = k.
Proof.
  unfold get_child. destruct (find_child k l) as [[[b m] a]|] eqn:E; [|discriminate].
  intro H. injection H as <-. now apply find_child_some in E.
Qed.

Lemma get_child_find k l :
  get_child k l = match find_child k l with Some (_, n, _) => Some n | None => None end.
Proof. reflexivity. Qed.

(** replacing the found child by a node with the same key *)
Lemma get_child_replace k l b n a n' k' :
  find_child k l = Some (b, n, a) -> nkey n' = k ->
  get_child k' (b ++ n' :: a) = if bytes_eqb k k' then Some n' else get_child k' l.
Proof.
  intros Hf Hk'. destruct (find_child_some _ _ _ _ _ Hf) as (-> & Hk & Hb).
  rewrite !get_child_app, !get_child_cons. rewrite Hk', Hk.
  destruct (bytes_eqb k k') eqn:E.
  - apply bytes_eqb_eq in E. subst k'. now rewrite Hb.
  - reflexivity.
Qed.

Lemma lookup_nil_forest p : lookup p [] = None.
Proof. destruct p as [|c [|c' p]]; reflexivity. Qed.

Lemma lookup_unfold c rest l :
  lookup (c :: rest) l =
  match rest with
  | [] => get_child c l
  | _ :: _ => match get_child c l with Some n => lookup rest (nkids n) | None => None end
  end.
Proof.
  destruct rest as [|c' rest]; cbn [lookup]; unfold get_child;
    destruct (find_child c l) as [[[b m] a]|]; reflexivity.
Qed.

Lemma lookup_cons2 c c2 rest l :
  lookup (c :: c2 :: rest) l =
  match get_child c l with Some n => lookup (c2 :: rest) (nkids n) | None => None end.
Proof. now rewrite lookup_unfold. Qed.

Lemma lookup_single c l : lookup [c] l = get_child c l.
Proof. now rewrite lookup_unfold. Qed.

Fixpoint path_eqb (a b : list bytes) : bool :=
  match a, b with
  | [], [] => true
  | x :: a', y :: b' => bytes_eqb x y && path_eqb a' b'
  | _, _ => false
  end.

Lemma path_eqb_eq a : forall b, path_eqb a b = true <-> a = b.
Proof.
  induction a as [|x a IH]; intros [|y b]; cbn; split; intro H; try discriminate; try reflexivity.
  - apply andb_prop in H as [H1 H2]. apply bytes_eqb_eq in H1. apply IH in H2. congruence.
  - injection H as -> ->. rewrite bytes_eqb_refl. cbn. now apply IH.
Qed.

Lemma path_eqb_refl a : path_eqb a a = true.
Proof. now apply path_eqb_eq. Qed.

Lemma path_eqb_neq a b : path_eqb a b = false <-> a <> b.
Proof.
  split.
  - intros H E. apply path_eqb_eq in E. congruence.
  - intro H. destruct (path_eqb a b) eqn:E; [|reflexivity]. apply path_eqb_eq in E. contradiction.
Qed.

Section Insert.
Variable ty : vty.
Variable sv : bytes.
Variable nv : N.

Definition is_leaf (n : node) : Prop :=
  nty n = ty /\ nisset n = true /\ nsv n = sv /\ nnv n = nv.

Lemma vty_eqb_eq a b : vty_eqb a b = true <-> a = b.
Proof. destruct a, b; cbn; split; intro H; try discriminate; reflexivity. Qed.

Lemma insert_cons2 c c2 rest f :
  insert (c :: c2 :: rest) ty sv nv f =
  match find_child c f with
  | Some (b, n, a) =>
      if vty_eqb (nty n) VDir then
        match insert (c2 :: rest) ty sv nv (nkids n) with
        | Some (k', h) => Some (b ++ Node c VDir true [] 0 k' :: a, h)
        | None => None
        end
      else None
  | None =>
      match insert (c2 :: rest) ty sv nv [] with
      | Some (k', h) => Some (Node c VDir true [] 0 k' :: f, h)
      | None => None
      end
  end.
Proof. reflexivity. Qed.

Lemma insert_single c f :
  insert [c] ty sv nv f =
  match find_child c f with
  | Some (b, n, a) =>
      if vty_eqb (nty n) ty
      then Some (b ++ Node c ty true sv nv (nkids n) :: a, negb (same_value ty n sv nv))
      else None
  | None => Some (Node c ty true sv nv [] :: f, true)
  end.
Proof. reflexivity. Qed.

(** (a) the inserted path holds the leaf *)
Lemma lookup_insert_same comps : forall f f' h,
  insert comps ty sv nv f = Some (f', h) ->
  exists n, lookup comps f' = Some n /\ is_leaf n.
Proof.
  induction comps as [|c rest IH]; intros f f' h; [discriminate|].
  destruct rest as [|c2 rest].
  - rewrite insert_single, lookup_single.
    destruct (find_child c f) as [[[b n] a]|] eqn:Ef.
    + destruct (vty_eqb (nty n) ty) eqn:Et; [|discriminate].
      intro H. injection H as <- <-.
      rewrite (get_child_replace c f b n a (Node c ty true sv nv (nkids n)) c Ef eq_refl), bytes_eqb_refl.
      eexists. split; [reflexivity|]. repeat split.
    + intro H. injection H as <- <-. rewrite get_child_cons. cbn [nkey]. rewrite bytes_eqb_refl.
      eexists. split; [reflexivity|]. repeat split.
  - rewrite insert_cons2, lookup_cons2.
    destruct (find_child c f) as [[[b n] a]|] eqn:Ef.
    + destruct (vty_eqb (nty n) VDir); [|discriminate].
      destruct (insert (c2 :: rest) ty sv nv (nkids n)) as [[k' h']|] eqn:Ei; [|discriminate].
      intro H. injection H as <- <-.
      rewrite (get_child_replace c f b n a (Node c VDir true [] 0 k') c Ef eq_refl), bytes_eqb_refl.
      cbn [nkids]. exact (IH _ _ _ Ei).
    + destruct (insert (c2 :: rest) ty sv nv []) as [[k' h']|] eqn:Ei; [|discriminate].
      intro H. injection H as <- <-.
      rewrite get_child_cons. cbn [nkey nkids]. rewrite bytes_eqb_refl.
      exact (IH _ _ _ Ei).
Qed.

End Insert.

Lemma lookup_replace_other c f b n a n' pc prest :
  find_child c f = Some (b, n, a) -> nkey n' = c -> bytes_eqb c pc = false ->
  lookup (pc :: prest) (b ++ n' :: a) = lookup (pc :: prest) f.
Proof.
  intros Ef Hk Hc. rewrite !lookup_unfold.
  rewrite (get_child_replace c f b n a n' pc Ef Hk), Hc. reflexivity.
Qed.

Lemma lookup_new_other n' f pc prest :
  bytes_eqb (nkey n') pc = false ->
  lookup (pc :: prest) (n' :: f) = lookup (pc :: prest) f.
Proof.
  intro Hc. rewrite !lookup_unfold, get_child_cons, Hc. reflexivity.
Qed.

Section Insert2.
Variable ty : vty.
Variable sv : bytes.
Variable nv : N.

(** (b) every proper, non-empty prefix of the inserted path is a set directory *)
Lemma lookup_insert_prefix comps : forall f f' h p,
  insert comps ty sv nv f = Some (f', h) ->
  p <> [] -> strict_prefix p comps = true ->
  exists n, lookup p f' = Some n /\ nty n = VDir /\ nisset n = true.
Proof.
  induction comps as [|c rest IH]; intros f f' h p; [discriminate|].
  destruct p as [|pc prest]; [congruence|]. intros Hi _ Hp.
  cbn [strict_prefix] in Hp. apply andb_prop in Hp as [Hc Hp]. apply bytes_eqb_eq in Hc. subst pc.
  destruct rest as [|c2 rest]; [destruct prest; discriminate|].
  rewrite (insert_cons2 ty sv nv) in Hi.
  destruct (find_child c f) as [[[b n] a]|] eqn:Ef.
  - destruct (vty_eqb (nty n) VDir); [|discriminate].
    destruct (insert (c2 :: rest) ty sv nv (nkids n)) as [[k' h']|] eqn:Ei; [|discriminate].
    injection Hi as <- <-.
    destruct prest as [|p2 prest].
    + rewrite lookup_single.
      rewrite (get_child_replace c f b n a (Node c VDir true [] 0 k') c Ef eq_refl), bytes_eqb_refl.
      eexists. split; [reflexivity|]. split; reflexivity.
    + rewrite lookup_cons2.
      rewrite (get_child_replace c f b n a (Node c VDir true [] 0 k') c Ef eq_refl), bytes_eqb_refl.
      cbn [nkids]. apply (IH _ _ _ _ Ei); [discriminate|exact Hp].
  - destruct (insert (c2 :: rest) ty sv nv []) as [[k' h']|] eqn:Ei; [|discriminate].
    injection Hi as <- <-.
    destruct prest as [|p2 prest].
    + rewrite lookup_single, get_child_cons. cbn [nkey]. rewrite bytes_eqb_refl.
      eexists. split; [reflexivity|]. split; reflexivity.
    + rewrite lookup_cons2, get_child_cons. cbn [nkey nkids]. rewrite bytes_eqb_refl.
      apply (IH _ _ _ _ Ei); [discriminate|exact Hp].
Qed.

(** (c) every other path is untouched *)
Lemma lookup_insert_other comps : forall f f' h p,
  insert comps ty sv nv f = Some (f', h) ->
  p <> [] -> p <> comps -> strict_prefix p comps = false ->
  lookup p f' = lookup p f.
Proof.
  induction comps as [|c rest IH]; intros f f' h p; [discriminate|].
  destruct p as [|pc prest]; [congruence|]. intros Hi _ Hne Hp.
  destruct rest as [|c2 rest].
  - rewrite (insert_single ty sv nv) in Hi.
    destruct (bytes_eqb c pc) eqn:Hc.
    + apply bytes_eqb_eq in Hc. subst pc.
      destruct prest as [|p2 prest]; [congruence|].
      destruct (find_child c f) as [[[b n] a]|] eqn:Ef.
      * destruct (vty_eqb (nty n) ty); [|discriminate]. injection Hi as <- <-.
        rewrite !lookup_cons2.
        rewrite (get_child_replace c f b n a (Node c ty true sv nv (nkids n)) c Ef eq_refl),
          bytes_eqb_refl.
        unfold get_child. rewrite Ef. reflexivity.
      * injection Hi as <- <-. rewrite !lookup_cons2, get_child_cons. cbn [nkey nkids].
        rewrite bytes_eqb_refl. unfold get_child. rewrite Ef. apply lookup_nil_forest.
    + destruct (find_child c f) as [[[b n] a]|] eqn:Ef.
      * destruct (vty_eqb (nty n) ty); [|discriminate]. injection Hi as <- <-.
        now apply (lookup_replace_other c f b n a (Node c ty true sv nv (nkids n)) pc prest Ef eq_refl).
      * injection Hi as <- <-. now apply lookup_new_other.
  - rewrite (insert_cons2 ty sv nv) in Hi.
    destruct (bytes_eqb c pc) eqn:Hc.
    + apply bytes_eqb_eq in Hc. subst pc.
      cbn [strict_prefix] in Hp. rewrite bytes_eqb_refl in Hp. cbn [andb] in Hp.
      destruct prest as [|p2 prest]; [discriminate|].
      assert (Hne' : p2 :: prest <> c2 :: rest) by congruence.
      destruct (find_child c f) as [[[b n] a]|] eqn:Ef.
      * destruct (vty_eqb (nty n) VDir); [|discriminate].
        destruct (insert (c2 :: rest) ty sv nv (nkids n)) as [[k' h']|] eqn:Ei; [|discriminate].
        injection Hi as <- <-. rewrite !lookup_cons2.
        rewrite (get_child_replace c f b n a (Node c VDir true [] 0 k') c Ef eq_refl),
          bytes_eqb_refl.
        unfold get_child. rewrite Ef. cbn [nkids].
        apply (IH _ _ _ _ Ei); [discriminate|exact Hne'|exact Hp].
      * destruct (insert (c2 :: rest) ty sv nv []) as [[k' h']|] eqn:Ei; [|discriminate].
        injection Hi as <- <-. rewrite !lookup_cons2, get_child_cons. cbn [nkey nkids].
        rewrite bytes_eqb_refl. unfold get_child. rewrite Ef.
        rewrite (IH _ _ _ _ Ei); [apply lookup_nil_forest|discriminate|exact Hne'|exact Hp].
    + destruct (find_child c f) as [[[b n] a]|] eqn:Ef.
      * destruct (vty_eqb (nty n) VDir); [|discriminate].
        destruct (insert (c2 :: rest) ty sv nv (nkids n)) as [[k' h']|]; [|discriminate].
        injection Hi as <- <-.
        now apply (lookup_replace_other c f b n a (Node c VDir true [] 0 k') pc prest Ef eq_refl).
      * destruct (insert (c2 :: rest) ty sv nv []) as [[k' h']|]; [|discriminate].
        injection Hi as <- <-. now apply lookup_new_other.
Qed.

(** (d) a failing insert found a non-directory on the way, or a node of another
    type at the path itself *)
Lemma insert_none comps : forall f,
  comps <> [] -> insert comps ty sv nv f = None ->
  (exists p n, p <> [] /\ strict_prefix p comps = true /\ lookup p f = Some n /\ nty n <> VDir) \/
  (exists n, lookup comps f = Some n /\ nty n <> ty).
Proof.
  induction comps as [|c rest IH]; intros f Hne Hi; [congruence|].
  destruct rest as [|c2 rest].
  - rewrite (insert_single ty sv nv) in Hi.
    destruct (find_child c f) as [[[b n] a]|] eqn:Ef; [|discriminate].
    destruct (vty_eqb (nty n) ty) eqn:Et; [discriminate|].
    right. exists n. rewrite lookup_single. unfold get_child. rewrite Ef. split; [reflexivity|].
    intro E. apply vty_eqb_eq in E. congruence.
  - rewrite (insert_cons2 ty sv nv) in Hi.
    destruct (find_child c f) as [[[b n] a]|] eqn:Ef.
    + destruct (vty_eqb (nty n) VDir) eqn:Et.
      * destruct (insert (c2 :: rest) ty sv nv (nkids n)) as [[k' h']|] eqn:Ei; [discriminate|].
        destruct (IH (nkids n) ltac:(discriminate) Ei) as [(p & m & Hp & Hs & Hl & Ht)|(m & Hl & Ht)].
        -- left. exists (c :: p), m. split; [discriminate|]. split.
           ++ cbn [strict_prefix]. now rewrite bytes_eqb_refl.
           ++ split; [|exact Ht]. destruct p as [|p1 p]; [congruence|].
              rewrite lookup_cons2. unfold get_child. rewrite Ef. exact Hl.
        -- right. exists m. split; [|exact Ht].
           rewrite lookup_cons2. unfold get_child. rewrite Ef. exact Hl.
      * left. exists [c], n. split; [discriminate|]. split; [|split].
        -- cbn [strict_prefix]. now rewrite bytes_eqb_refl.
        -- rewrite lookup_single. unfold get_child. now rewrite Ef.
        -- intro E. apply vty_eqb_eq in E. congruence.
    + destruct (insert (c2 :: rest) ty sv nv []) as [[k' h']|] eqn:Ei; [discriminate|].
      destruct (IH [] ltac:(discriminate) Ei) as [(p & m & Hp & Hs & Hl & Ht)|(m & Hl & Ht)];
        rewrite lookup_nil_forest in Hl; discriminate.
Qed.

(** (d') and conversely *)
Lemma insert_blocked_prefix comps : forall f p n,
  p <> [] -> strict_prefix p comps = true -> lookup p f = Some n -> nty n <> VDir ->
  insert comps ty sv nv f = None.
Proof.
  induction comps as [|c rest IH]; intros f p n Hp Hs Hl Ht.
  - destruct p; discriminate.
  - destruct p as [|pc prest]; [congruence|].
    cbn [strict_prefix] in Hs. apply andb_prop in Hs as [Hc Hs]. apply bytes_eqb_eq in Hc. subst pc.
    destruct rest as [|c2 rest]; [destruct prest; discriminate|].
    rewrite (insert_cons2 ty sv nv).
    destruct prest as [|p2 prest].
    + rewrite lookup_single in Hl. unfold get_child in Hl.
      destruct (find_child c f) as [[[b m] a]|]; [|discriminate]. injection Hl as ->.
      destruct (vty_eqb (nty n) VDir) eqn:Et; [|reflexivity].
      apply vty_eqb_eq in Et. contradiction.
    + rewrite lookup_cons2 in Hl. unfold get_child in Hl.
      destruct (find_child c f) as [[[b m] a]|]; [|discriminate].
      destruct (vty_eqb (nty m) VDir); [|reflexivity].
      rewrite (IH (nkids m) (p2 :: prest) n); [reflexivity|discriminate|exact Hs|exact Hl|exact Ht].
Qed.

Lemma insert_blocked_type comps : forall f n,
  lookup comps f = Some n -> nty n <> ty -> insert comps ty sv nv f = None.
Proof.
  induction comps as [|c rest IH]; intros f n Hl Ht; [discriminate|].
  destruct rest as [|c2 rest].
  - rewrite (insert_single ty sv nv). rewrite lookup_single in Hl. unfold get_child in Hl.
    destruct (find_child c f) as [[[b m] a]|]; [|discriminate]. injection Hl as ->.
    destruct (vty_eqb (nty n) ty) eqn:Et; [|reflexivity].
    apply vty_eqb_eq in Et. contradiction.
  - rewrite (insert_cons2 ty sv nv). rewrite lookup_cons2 in Hl. unfold get_child in Hl.
    destruct (find_child c f) as [[[b m] a]|]; [|discriminate].
    destruct (vty_eqb (nty m) VDir); [|reflexivity].
    now rewrite (IH (nkids m) n Hl Ht).
Qed.

(** the hook flag: the post-set hook is skipped iff the leaf already had the value *)
Lemma insert_hook comps : forall f f' h,
  insert comps ty sv nv f = Some (f', h) ->
  h = match lookup comps f with
      | Some n => negb (same_value ty n sv nv)
      | None => true
      end.
Proof.
  induction comps as [|c rest IH]; intros f f' h; [discriminate|].
  destruct rest as [|c2 rest].
  - rewrite (insert_single ty sv nv), lookup_single. unfold get_child.
    destruct (find_child c f) as [[[b n] a]|].
    + destruct (vty_eqb (nty n) ty); [|discriminate]. intro H. now injection H as <- <-.
    + intro H. now injection H as <- <-.
  - rewrite (insert_cons2 ty sv nv), lookup_cons2. unfold get_child.
    destruct (find_child c f) as [[[b n] a]|].
    + destruct (vty_eqb (nty n) VDir); [|discriminate].
      destruct (insert (c2 :: rest) ty sv nv (nkids n)) as [[k' h']|] eqn:Ei; [|discriminate].
      intro H. injection H as <- <-. exact (IH _ _ _ Ei).
    + destruct (insert (c2 :: rest) ty sv nv []) as [[k' h']|] eqn:Ei; [|discriminate].
      intro H. injection H as <- <-. rewrite (IH _ _ _ Ei). now rewrite lookup_nil_forest.
Qed.

End Insert2.

(** * Part C: a forest built by a log of insertions *)

Definition entry := (list bytes * (bytes * N))%type.

Definition lastp (p : list bytes) (log : list entry) : option (bytes * N) :=
  fold_left (fun acc e => if path_eqb (fst e) p then Some (snd e) else acc) log None.

Definition leaf (ty : vty) (p : list bytes) (f : list node) : option (bytes * N) :=
  match lookup p f with
  | Some n => if vty_eqb (nty n) ty && nisset n then Some (nsv n, nnv n) else None
  | None => None
  end.

Lemma lastp_snoc p log e :
  lastp p (log ++ [e]) = if path_eqb (fst e) p then Some (snd e) else lastp p log.
Proof. unfold lastp. rewrite fold_left_app. reflexivity. Qed.

Lemma lastp_app_tail p log l2 :
  lastp p (log ++ l2) =
  fold_left (fun acc e => if path_eqb (fst e) p then Some (snd e) else acc) l2 (lastp p log).
Proof. unfold lastp. now rewrite fold_left_app. Qed.

Lemma lastp_none p log : ~ In p (map fst log) -> lastp p log = None.
Proof.
  induction log as [|e log IH] using rev_ind; intro H; [reflexivity|].
  rewrite lastp_snoc. rewrite map_app, in_app_iff in H. cbn in H.
  destruct (path_eqb (fst e) p) eqn:E.
  - apply path_eqb_eq in E. exfalso. apply H. right. left. exact E.
  - apply IH. tauto.
Qed.

Lemma lastp_some_in p log x : lastp p log = Some x -> In p (map fst log).
Proof.
  induction log as [|e log IH] using rev_ind; [discriminate|].
  rewrite lastp_snoc, map_app, in_app_iff. cbn.
  destruct (path_eqb (fst e) p) eqn:E.
  - apply path_eqb_eq in E. intros _. right. left. exact E.
  - intro H. left. now apply IH.
Qed.

Lemma strict_prefix_irrefl a : strict_prefix a a = false.
Proof. induction a as [|x a IH]; [reflexivity|]. cbn. now rewrite bytes_eqb_refl. Qed.

Lemma strict_prefix_neq a b : strict_prefix a b = true -> a <> b.
Proof. intros H E. subst. rewrite strict_prefix_irrefl in H. discriminate. Qed.

Lemma strict_prefix_trans a : forall b c,
  strict_prefix a b = true -> strict_prefix b c = true -> strict_prefix a c = true.
Proof.
  induction a as [|x a IH]; intros [|y b] [|z c]; cbn; try discriminate; try reflexivity.
  intros H1 H2. apply andb_prop in H1 as [E1 H1]. apply andb_prop in H2 as [E2 H2].
  apply bytes_eqb_eq in E1, E2. subst. rewrite bytes_eqb_refl. cbn. eapply IH; eauto.
Qed.

Lemma paths_clash_sym a b : paths_clash a b = paths_clash b a.
Proof. unfold paths_clash. apply orb_comm. Qed.

Lemma paths_clash_refl a : paths_clash a a = false.
Proof. unfold paths_clash. now rewrite strict_prefix_irrefl. Qed.

(** the forest holds exactly the paths of the log: leaves at the paths,
    directories at their proper prefixes, everything set *)
Record wf (ty : vty) (f : list node) (paths : list (list bytes)) : Prop := {
  wf_nodes : forall p n, lookup p f = Some n ->
             nisset n = true /\
             ((nty n = VDir /\ exists q, In q paths /\ strict_prefix p q = true) \/
              (nty n = ty /\ In p paths));
  wf_leaves : forall q, In q paths -> q <> [] /\ exists n, lookup q f = Some n /\ nty n = ty;
  wf_dirs : forall q p, In q paths -> p <> [] -> strict_prefix p q = true ->
            exists n, lookup p f = Some n /\ nty n = VDir
}.

Definition leaf_ok (ty : vty) (f : list node) (log : list entry) : Prop :=
  forall p, p <> [] -> leaf ty p f = lastp p log.

Lemma wf_empty ty : wf ty [] [].
Proof.
  split.
  - intros p n H. rewrite lookup_nil_forest in H. discriminate.
  - intros q [].
  - intros q p [].
Qed.

Lemma leaf_ok_empty ty : leaf_ok ty [] [].
Proof. intros p _. unfold leaf. now rewrite lookup_nil_forest. Qed.

Definition value_eqb (ty : vty) (a b : bytes * N) : bool :=
  match ty with
  | VStr => bytes_eqb (fst a) (fst b)
  | VNum | VAddr => snd a =? snd b
  | VDir => true
  end.

Lemma existsb_clash_false comps paths :
  existsb (paths_clash comps) paths = false ->
  forall q, In q paths -> strict_prefix q comps = false /\ strict_prefix comps q = false.
Proof.
  intros H q Hq.
  assert (Hc : paths_clash comps q = false).
  { destruct (paths_clash comps q) eqn:E; [|reflexivity].
    assert (existsb (paths_clash comps) paths = true) by (apply existsb_exists; eauto). congruence. }
  unfold paths_clash in Hc. apply orb_false_iff in Hc. tauto.
Qed.

(** one insertion *)
Lemma insert_step ty sv nv comps f log :
  ty <> VDir -> comps <> [] ->
  wf ty f (map fst log) -> leaf_ok ty f log ->
  if existsb (paths_clash comps) (map fst log)
  then insert comps ty sv nv f = None
  else exists f' h,
         insert comps ty sv nv f = Some (f', h) /\
         wf ty f' (map fst (log ++ [(comps, (sv, nv))])) /\
         leaf_ok ty f' (log ++ [(comps, (sv, nv))]) /\
         h = match lastp comps log with
             | Some x => negb (value_eqb ty x (sv, nv))
             | None => true
             end.
Proof.
  intros Hty Hne Hwf Hleaf.
  destruct (existsb (paths_clash comps) (map fst log)) eqn:Hclash.
  - (* a clash blocks the insertion *)
    apply existsb_exists in Hclash as (q & Hq & Hc). unfold paths_clash in Hc.
    apply orb_true_iff in Hc as [Hc|Hc].
    + (* comps is a proper prefix of an existing path: a directory sits at comps *)
      destruct (wf_dirs _ _ _ Hwf q comps Hq Hne Hc) as (n & Hl & Hn).
      apply (insert_blocked_type ty sv nv comps f n Hl). congruence.
    + (* an existing leaf is a proper prefix of comps *)
      destruct (wf_leaves _ _ _ Hwf q Hq) as (Hqne & n & Hl & Hn).
      apply (insert_blocked_prefix ty sv nv comps f q n Hqne Hc Hl). congruence.
  - pose proof (existsb_clash_false _ _ Hclash) as Hno.
    destruct (insert comps ty sv nv f) as [[f' h]|] eqn:Hi.
    2:{ exfalso. destruct (insert_none ty sv nv comps f Hne Hi)
          as [(p & n & Hp & Hs & Hl & Ht)|(n & Hl & Ht)].
        - destruct (wf_nodes _ _ _ Hwf p n Hl) as [_ [[Hd _]|[_ Hin]]]; [contradiction|].
          destruct (Hno p Hin) as [H1 _]. congruence.
        - destruct (wf_nodes _ _ _ Hwf comps n Hl) as [_ [[_ (q & Hq & Hs)]|[Hd _]]]; [|contradiction].
          destruct (Hno q Hq) as [_ H2]. congruence. }
    exists f', h. split; [reflexivity|].
    destruct (lookup_insert_same ty sv nv comps f f' h Hi) as (nl & Hnl & Hl1 & Hl2 & Hl3 & Hl4).
    assert (Hother : forall p, p <> [] -> p <> comps -> strict_prefix p comps = false ->
                     lookup p f' = lookup p f)
      by (intros; eapply lookup_insert_other; eauto).
    assert (Hpre : forall p, p <> [] -> strict_prefix p comps = true ->
                   exists n, lookup p f' = Some n /\ nty n = VDir /\ nisset n = true)
      by (intros; eapply lookup_insert_prefix; eauto).
    rewrite map_app. cbn [map fst].
    split; [|split].
    + (* wf *)
      split.
      * intros p n Hl.
        destruct (path_eqb p comps) eqn:Ep.
        -- apply path_eqb_eq in Ep. subst p. rewrite Hnl in Hl. injection Hl as <-.
           split; [exact Hl2|]. right. split; [exact Hl1|]. apply in_app_iff. right. now left.
        -- apply path_eqb_neq in Ep.
           assert (Hpne : p <> []) by (intro; subst p; destruct f'; discriminate).
           destruct (strict_prefix p comps) eqn:Es.
           ++ destruct (Hpre p Hpne Es) as (m & Hm & Hd & Hs). rewrite Hm in Hl. injection Hl as <-.
              split; [exact Hs|]. left. split; [exact Hd|]. exists comps. split; [|exact Es].
              apply in_app_iff. right. now left.
           ++ rewrite (Hother p Hpne Ep Es) in Hl.
              destruct (wf_nodes _ _ _ Hwf p n Hl) as [Hs [[Hd (q & Hq & Hsq)]|[Ht Hin]]].
              ** split; [exact Hs|]. left. split; [exact Hd|]. exists q. split; [|exact Hsq].
                 apply in_app_iff. now left.
              ** split; [exact Hs|]. right. split; [exact Ht|]. apply in_app_iff. now left.
      * intros q Hq. apply in_app_iff in Hq as [Hq|[<-|[]]].
        -- destruct (wf_leaves _ _ _ Hwf q Hq) as (Hqne & n & Hl & Hn). split; [exact Hqne|].
           destruct (path_eqb q comps) eqn:Ep.
           ++ apply path_eqb_eq in Ep. subst q. exists nl. auto.
           ++ apply path_eqb_neq in Ep. destruct (Hno q Hq) as [H1 _].
              rewrite (Hother q Hqne Ep H1). eauto.
        -- split; [exact Hne|]. exists nl. auto.
      * intros q p Hq Hp Hs. apply in_app_iff in Hq as [Hq|[<-|[]]].
        -- destruct (path_eqb p comps) eqn:Ep.
           ++ apply path_eqb_eq in Ep. subst p. destruct (Hno q Hq) as [_ H2]. congruence.
           ++ apply path_eqb_neq in Ep.
              destruct (strict_prefix p comps) eqn:Es.
              ** destruct (Hpre p Hp Es) as (m & Hm & Hd & _). eauto.
              ** rewrite (Hother p Hp Ep Es). eapply wf_dirs; eauto.
        -- destruct (Hpre p Hp Hs) as (m & Hm & Hd & _). eauto.
    + (* leaves *)
      intros p Hp. rewrite lastp_snoc. cbn [fst snd]. unfold leaf.
      destruct (path_eqb comps p) eqn:Ep.
      * apply path_eqb_eq in Ep. subst p. rewrite Hnl, Hl1, Hl2, Hl3, Hl4.
        assert (Hv : vty_eqb ty ty = true) by now apply vty_eqb_eq.
        now rewrite Hv.
      * apply path_eqb_neq in Ep.
        destruct (strict_prefix p comps) eqn:Es.
        -- destruct (Hpre p Hp Es) as (m & Hm & Hd & Hs). rewrite Hm, Hd.
           assert (Hv : vty_eqb VDir ty = false).
           { destruct (vty_eqb VDir ty) eqn:E; [|reflexivity]. apply vty_eqb_eq in E. congruence. }
           rewrite Hv. cbn [andb]. symmetry. apply lastp_none.
           intro Hin. destruct (Hno p Hin) as [H1 _]. congruence.
        -- rewrite (Hother p Hp (fun E => Ep (eq_sym E)) Es). apply (Hleaf p Hp).
    + (* the hook flag *)
      rewrite (insert_hook ty sv nv comps f f' h Hi).
      pose proof (Hleaf comps Hne) as Hlf. unfold leaf in Hlf.
      destruct (lookup comps f) as [n|] eqn:Hl.
      * destruct (wf_nodes _ _ _ Hwf comps n Hl) as [Hs [[Hd (q & Hq & Hsq)]|[Ht Hin]]].
        -- destruct (Hno q Hq) as [_ H2]. congruence.
        -- rewrite Ht, Hs in Hlf.
           assert (Hv : vty_eqb ty ty = true) by now apply vty_eqb_eq.
           rewrite Hv in Hlf. cbn [andb] in Hlf. rewrite <- Hlf.
           unfold same_value, value_eqb. rewrite Hs. cbn [andb fst snd].
           destruct ty; reflexivity.
      * now rewrite <- Hlf.
Qed.

(** * Part C2: the rows of a text *)

Notation kv := (bytes * bytes)%type (only parsing).

Definition lentry (r : kv) : entry := (split_on DOT (fst r), (snd r, 0)).
Definition llog (done : list kv) : list entry := map lentry done.

Definition tyk (k : tkind) : vty := match k with TSYMBOL => VAddr | _ => VNum end.

Definition tentry (k : tkind) (r : kv) : option entry :=
  match typed_binding r with
  | Some (t, name, n) =>
      if bytes_eqb t (kind_name k) then Some (split_on DOT name, ([], n)) else None
  | None => None
  end.
Definition tlog (k : tkind) (done : list kv) : list entry := filter_map (tentry k) done.

Lemma filter_map_app {A B} (f : A -> option B) l1 l2 :
  filter_map f (l1 ++ l2) = filter_map f l1 ++ filter_map f l2.
Proof.
  induction l1 as [|x l1 IH]; [reflexivity|]. cbn [app filter_map].
  destruct (f x); cbn [app]; now rewrite IH.
Qed.

Lemma tlog_snoc k done r :
  tlog k (done ++ [r]) = tlog k done ++ match tentry k r with Some e => [e] | None => [] end.
Proof. unfold tlog. rewrite filter_map_app. cbn. destruct (tentry k r); reflexivity. Qed.

Lemma llog_snoc done r : llog (done ++ [r]) = llog done ++ [lentry r].
Proof. unfold llog. now rewrite map_app. Qed.

Lemma last_value_snoc {A} k (kvs : list (bytes * A)) r :
  last_value k (kvs ++ [r]) = if bytes_eqb (fst r) k then Some (snd r) else last_value k kvs.
Proof. unfold last_value. now rewrite fold_left_app. Qed.

Lemma path_eqb_split a b : path_eqb (split_on DOT a) (split_on DOT b) = bytes_eqb a b.
Proof.
  destruct (bytes_eqb a b) eqn:E.
  - apply bytes_eqb_eq in E. subst. apply path_eqb_refl.
  - apply path_eqb_neq. intro H. apply split_on_inj in H. apply bytes_eqb_neq in E. contradiction.
Qed.

(** the lines log and the key/value list *)
Lemma lastp_llog key done :
  lastp (split_on DOT key) (llog done) =
  match last_value key done with Some x => Some (x, 0) | None => None end.
Proof.
  induction done as [|r done IH] using rev_ind; [reflexivity|].
  rewrite llog_snoc, lastp_snoc, last_value_snoc. unfold lentry at 1 2. cbn [fst snd].
  rewrite path_eqb_split. destruct (bytes_eqb (fst r) key); [reflexivity|exact IH].
Qed.

(** shape of a typed key *)
Lemma take_drop_until c s :
  has_byte c s = true -> s = take_until c s ++ c :: drop_until c s.
Proof.
  induction s as [|x t IH]; [discriminate|].
  cbn [has_byte existsb take_until drop_until]. destruct (x =? c) eqn:E.
  - apply N.eqb_eq in E. subst. reflexivity.
  - cbn [orb]. intro H. cbn [app]. f_equal. now apply IH.
Qed.

Lemma typed_key_shape key t name :
  typed_key key = Some (t, name) -> key = t ++ LPAR :: name ++ [RPAR].
Proof.
  unfold typed_key. destruct (has_byte LPAR key) eqn:Hb; [|discriminate].
  destruct (rev (drop_until LPAR key)) as [|c rn] eqn:Er; [discriminate|].
  destruct ((c =? RPAR) && negb (has_byte RPAR rn)) eqn:Et; [|discriminate].
  intro H. injection H as <- <-. apply andb_prop in Et as [Ec _]. apply N.eqb_eq in Ec. subst c.
  rewrite (take_drop_until LPAR key Hb) at 1. f_equal. f_equal.
  rewrite <- (rev_involutive (drop_until LPAR key)), Er. reflexivity.
Qed.

Lemma typed_binding_key r t name n :
  typed_binding r = Some (t, name, n) -> fst r = t ++ LPAR :: name ++ [RPAR].
Proof.
  unfold typed_binding. destruct (typed_key (fst r)) as [[t' name']|] eqn:E; [|discriminate].
  destruct (type_base t'); [|discriminate]. destruct (number_of _ _); [|discriminate].
  intro H. injection H as <- <- <-. now apply typed_key_shape.
Qed.

Lemma tentry_path k r e : tentry k r = Some e ->
  exists name n, typed_binding r = Some (kind_name k, name, n) /\
                 e = (split_on DOT name, ([], n)).
Proof.
  unfold tentry. destruct (typed_binding r) as [[[t name] n]|] eqn:E; [|discriminate].
  destruct (bytes_eqb t (kind_name k)) eqn:Et; [|discriminate].
  apply bytes_eqb_eq in Et. subst t. intro H. injection H as <-. eauto.
Qed.

(** two rows with the same typed path (same kind) have the same key *)
Lemma tentry_same_path k r1 r2 e1 e2 :
  tentry k r1 = Some e1 -> tentry k r2 = Some e2 -> fst e1 = fst e2 -> fst r1 = fst r2.
Proof.
  intros H1 H2 Hp.
  destruct (tentry_path _ _ _ H1) as (n1 & v1 & B1 & ->).
  destruct (tentry_path _ _ _ H2) as (n2 & v2 & B2 & ->).
  cbn [fst] in Hp. apply split_on_inj in Hp. subst n2.
  rewrite (typed_binding_key _ _ _ _ B1), (typed_binding_key _ _ _ _ B2). reflexivity.
Qed.

(** if the last row with key [fst r] is [r] itself, its typed entry is the last
    one at its path *)
Lemma lastp_tlog_last k done r e :
  last_value (fst r) done = Some (snd r) -> tentry k r = Some e ->
  lastp (fst e) (tlog k done) = Some (snd e).
Proof.
  intros Hl He. induction done as [|r' done IH] using rev_ind; [discriminate|].
  rewrite last_value_snoc in Hl. rewrite tlog_snoc, lastp_app_tail.
  destruct (bytes_eqb (fst r') (fst r)) eqn:Ek.
  - apply bytes_eqb_eq in Ek. injection Hl as Hv.
    assert (Er : r' = r) by (destruct r, r'; cbn in *; congruence). subst r'.
    rewrite He. cbn [fold_left]. now rewrite path_eqb_refl.
  - destruct (tentry k r') as [e'|] eqn:He'.
    + cbn [fold_left]. destruct (path_eqb (fst e') (fst e)) eqn:Ep.
      * apply path_eqb_eq in Ep. pose proof (tentry_same_path k r' r e' e He' He Ep) as Hk.
        apply bytes_eqb_neq in Ek. contradiction.
      * now apply IH.
    + cbn [fold_left]. now apply IH.
Qed.

(** strtoull never returns more than ULLONG_MAX *)
Lemma digits_lt b s : forall acc ovf any, acc < W ->
  fst (fst (fst (digits b s acc ovf any))) < W.
Proof.
  induction s as [|c t IH]; intros acc ovf any Ha; cbn [digits]; [exact Ha|].
  destruct (digit_val c) as [d|]; [|exact Ha].
  destruct (d <? b); [|exact Ha].
  destruct (ovf || (W <=? acc * b + d)) eqn:E.
  - now apply IH.
  - apply orb_false_iff in E as [_ E]. apply N.leb_gt in E. now apply IH.
Qed.

Lemma strtoull_lt base s : fst (strtoull base s) < W.
Proof.
  unfold strtoull.
  destruct (match skip_space s with
            | c :: t => if c =? 45 then (true, t) else if c =? 43 then (false, t) else (false, skip_space s)
            | [] => (false, skip_space s) end) as [neg s2].
  destruct (match s2 with
            | c :: x :: t =>
                if (c =? 48) && is_x x && ((base =? 16) || (base =? 0)) then (16, t, Some (x :: t))
                else if (c =? 48) && (base =? 0) then (8, s2, None)
                else (if base =? 0 then 10 else base, s2, None)
            | [c] => if (c =? 48) && (base =? 0) then (8, s2, None)
                     else (if base =? 0 then 10 else base, s2, None)
            | [] => (if base =? 0 then 10 else base, s2, None)
            end) as [[b s3] atx].
  pose proof (digits_lt b s3 0 false false W_pos) as Hd.
  destruct (digits b s3 0 false false) as [[[v ovf] any] rest]. cbn [fst] in Hd.
  destruct any.
  - cbn [fst]. destruct ovf; [rewrite MAXA_val, W_val; lia|].
    destruct neg; [apply wsub_lt|exact Hd].
  - destruct atx; cbn [fst]; exact W_pos.
Qed.

(** what a row needs in order to be accepted, given the rows before it *)
Definition row_ok (linux : bool) (done : list kv) (r : kv) : bool :=
  negb (leading_dot (fst r))
  && negb (existsb (paths_clash (split_on DOT (fst r))) (map fst (llog done)))
  && match typed_binding r with
     | Some (t, name, _) =>
         match kind_of t with
         | Some k => negb (existsb (paths_clash (split_on DOT name)) (map fst (tlog k done)))
         | None => true
         end
     | None => true
     end
  && (negb linux || pagesize_ok r).

Fixpoint rows_ok (linux : bool) (done rows : list kv) : bool :=
  match rows with
  | [] => true
  | r :: t => row_ok linux done r && rows_ok linux (done ++ [r]) t
  end.

Lemma rows_ok_app linux a : forall d b,
  rows_ok linux d (a ++ b) = rows_ok linux d a && rows_ok linux (d ++ a) b.
Proof.
  induction a as [|r a IH]; intros d b; cbn [app rows_ok].
  - now rewrite app_nil_r.
  - rewrite IH, <- app_assoc. cbn [app]. now rewrite andb_assoc.
Qed.

Definition all_ok (linux : bool) (done : list kv) : Prop := rows_ok linux [] done = true.

Lemma all_ok_snoc linux done r :
  all_ok linux (done ++ [r]) <-> all_ok linux done /\ row_ok linux done r = true.
Proof.
  unfold all_ok. rewrite rows_ok_app. cbn [app rows_ok]. rewrite andb_true_r, andb_true_iff. tauto.
Qed.

Definition pairwise_noclash (l : list (list bytes)) : Prop :=
  forall a b, In a l -> In b l -> paths_clash a b = false.

Lemma existsb_false_forall {A} (f : A -> bool) l :
  existsb f l = false <-> forall x, In x l -> f x = false.
Proof.
  split.
  - intros H x Hx. destruct (f x) eqn:E; [|reflexivity].
    assert (existsb f l = true) by (apply existsb_exists; eauto). congruence.
  - intro H. destruct (existsb f l) eqn:E; [|reflexivity].
    apply existsb_exists in E as (x & Hx & Hf). rewrite (H x Hx) in Hf. discriminate.
Qed.

Lemma tentry_kind k r t name n :
  typed_binding r = Some (t, name, n) -> kind_of t = Some k ->
  tentry k r = Some (split_on DOT name, ([], n)).
Proof.
  intros Hb Hk. unfold tentry. rewrite Hb. apply kind_of_some in Hk. subst t.
  now rewrite bytes_eqb_refl.
Qed.

Lemma typed_binding_kind r t name n :
  typed_binding r = Some (t, name, n) -> exists k, kind_of t = Some k.
Proof.
  unfold typed_binding. destruct (typed_key (fst r)) as [[t' name']|]; [|discriminate].
  rewrite kind_of_base. destruct (kind_of t') as [k|] eqn:E; [|discriminate].
  intro H. exists k.
  assert (Ht : t' = t).
  { destruct k; cbn in H;
      match type of H with context [number_of ?b ?v] => destruct (number_of b v) end;
      congruence. }
  now subst.
Qed.

Lemma kind_name_inj k1 k2 : kind_name k1 = kind_name k2 -> k1 = k2.
Proof. destruct k1, k2; cbn; intro H; try reflexivity; discriminate. Qed.

Lemma all_ok_typed_noclash linux k done :
  all_ok linux done -> pairwise_noclash (map fst (tlog k done)).
Proof.
  induction done as [|r done IH] using rev_ind; intro H.
  - intros a b [].
  - apply all_ok_snoc in H as [Hd Hr]. specialize (IH Hd).
    rewrite tlog_snoc, map_app.
    destruct (tentry k r) as [e|] eqn:He; [|cbn [map]; now rewrite app_nil_r].
    cbn [map]. destruct (tentry_path _ _ _ He) as (name & n & Hb & ->). cbn [fst].
    unfold row_ok in Hr. rewrite Hb, kind_of_name in Hr.
    apply andb_prop in Hr as [Hr _]. apply andb_prop in Hr as [_ Hr].
    apply negb_true_iff in Hr. rewrite existsb_false_forall in Hr.
    intros a b Ha Hb'. apply in_app_iff in Ha, Hb'.
    destruct Ha as [Ha|[<-|[]]], Hb' as [Hb'|[<-|[]]].
    + now apply IH.
    + rewrite paths_clash_sym. now apply Hr.
    + now apply Hr.
    + apply paths_clash_refl.
Qed.

Lemma all_ok_pagesize linux done r :
  all_ok linux done -> In r done -> negb linux || pagesize_ok r = true.
Proof.
  induction done as [|r' done IH] using rev_ind; intros H Hin; [contradiction|].
  apply all_ok_snoc in H as [Hd Hr]. apply in_app_iff in Hin as [Hin|[<-|[]]].
  - now apply IH.
  - unfold row_ok in Hr. now apply andb_prop in Hr as [_ Hr].
Qed.

Lemma last_value_in {A} k (kvs : list (bytes * A)) x : last_value k kvs = Some x -> In (k, x) kvs.
Proof.
  induction kvs as [|r kvs IH] using rev_ind; [discriminate|].
  rewrite last_value_snoc. destruct (bytes_eqb (fst r) k) eqn:E.
  - apply bytes_eqb_eq in E. intro H. injection H as <-. apply in_app_iff. right. left.
    destruct r; cbn in *; congruence.
  - intro H. apply in_app_iff. left. now apply IH.
Qed.

Lemma tentry_in_tlog k done r e : In r done -> tentry k r = Some e -> In e (tlog k done).
Proof.
  induction done as [|r' done IH]; intros Hin He; [contradiction|].
  unfold tlog. cbn [filter_map]. destruct Hin as [->|Hin].
  - rewrite He. now left.
  - destruct (tentry k r'); [right|]; now apply IH.
Qed.

Lemma wf_equiv ty f l1 l2 : (forall q, In q l1 <-> In q l2) -> wf ty f l1 -> wf ty f l2.
Proof.
  intros He [W1 W2 W3]. split.
  - intros p n Hl. destruct (W1 p n Hl) as [Hs [[Hd (q & Hq & Hsq)]|[Ht Hin]]].
    + split; [exact Hs|]. left. split; [exact Hd|]. exists q. split; [now apply He|exact Hsq].
    + split; [exact Hs|]. right. split; [exact Ht|now apply He].
  - intros q Hq. apply W2. now apply He.
  - intros q p Hq. apply W3. now apply He.
Qed.

(** * Part C3: one row *)

Record linv (done : list kv) (v : vmci) : Prop := {
  li_wf : wf VStr (lines v) (map fst (llog done));
  li_leaf : leaf_ok VStr (lines v) (llog done);
  li_isset : done <> [] -> lines_isset v = true
}.

Record tinv (done : list kv) (v : vmci) : Prop := {
  ti_wf : forall k, wf (tyk k) (typed k v) (map fst (tlog k done));
  ti_leaf : forall k, leaf_ok (tyk k) (typed k v) (tlog k done);
  ti_isset : forall k, tlog k done <> [] -> typed_isset k v = true
}.

Definition tkind_eqb (a b : tkind) : bool :=
  match a, b with
  | TLENGTH, TLENGTH | TNUMBER, TNUMBER | TOFFSET, TOFFSET | TSIZE, TSIZE | TSYMBOL, TSYMBOL => true
  | _, _ => false
  end.

Lemma tkind_eqb_eq a b : tkind_eqb a b = true <-> a = b.
Proof. destruct a, b; cbn; split; intro H; try discriminate; reflexivity. Qed.

Lemma typed_set_typed k k' l v :
  typed k' (set_typed k l v) = if tkind_eqb k k' then l else typed k' v.
Proof. destruct k, k'; reflexivity. Qed.

Lemma typed_isset_set_typed k k' l v :
  typed_isset k' (set_typed k l v) = if tkind_eqb k k' then true else typed_isset k' v.
Proof. destruct k, k'; reflexivity. Qed.

Lemma tentry_other_kind k k' r t name n :
  typed_binding r = Some (t, name, n) -> kind_of t = Some k -> k' <> k -> tentry k' r = None.
Proof.
  intros Hb Hk Hne. unfold tentry. rewrite Hb. apply kind_of_some in Hk. subst t.
  destruct (bytes_eqb (kind_name k) (kind_name k')) eqn:E; [|reflexivity].
  apply bytes_eqb_eq, kind_name_inj in E. congruence.
Qed.

Lemma tentry_none_binding k r : typed_binding r = None -> tentry k r = None.
Proof. intro H. unfold tentry. now rewrite H. Qed.

Lemma tinv_no_entry done r v :
  (forall k, tentry k r = None) -> tinv done v -> tinv (done ++ [r]) v.
Proof.
  intros Hn [T1 T2 T3]. split; intro k; rewrite tlog_snoc, (Hn k), app_nil_r; auto.
Qed.

Definition typed_ok (done : list kv) (r : kv) : bool :=
  match typed_binding r with
  | Some (t, name, _) =>
      match kind_of t with
      | Some k => negb (existsb (paths_clash (split_on DOT name)) (map fst (tlog k done)))
      | None => true
      end
  | None => true
  end.

(** the typed part of lines_post_hook *)
Definition typed_tail (key value : bytes) (v : vmci) (g1 : genv) : outcome * (vmci * genv) :=
  match classify key with
  | None => (St KDUMP_OK, (v, g1))
  | Some (type, name) =>
      match kind_of type with
      | None => (St KDUMP_OK, (v, g1))
      | Some k =>
          match parse_typed k value with
          | None => (St KDUMP_OK, (v, g1))
          | Some n =>
              let ty := match k with TSYMBOL => VAddr | _ => VNum end in
              match insert (split_on DOT name) ty [] n (typed k v) with
              | None => (St ERR_SYSTEM, (v, g1))
              | Some (l', hook) =>
                  let v' := set_typed k l' v in
                  let g2 :=
                    match k with
                    | TNUMBER =>
                        if hook && bytes_eqb name s_phys_base
                        then {| g_page := g_page g1; g_ver := g_ver g1; g_physbase := Some n |}
                        else g1
                    | _ => g1
                    end in
                  (St KDUMP_OK, (v', g2))
              end
          end
      end
  end.

Lemma typed_binding_unfold r :
  typed_binding r =
  match classify (fst r) with
  | Some (type, name) =>
      match kind_of type with
      | Some k => match parse_typed k (snd r) with
                  | Some n => Some (type, name, n)
                  | None => None
                  end
      | None => None
      end
  | None => None
  end.
Proof.
  unfold typed_binding. rewrite classify_typed_key.
  destruct (typed_key (fst r)) as [[type name]|]; [|reflexivity].
  rewrite kind_of_base. destruct (kind_of type) as [k|]; [|reflexivity].
  rewrite parse_typed_number_of. destruct k; reflexivity.
Qed.

Lemma tyk_not_dir k : tyk k <> VDir.
Proof. destruct k; discriminate. Qed.

Lemma typed_tail_step done r v g1 :
  tinv done v ->
  let '(o, (v', g')) := typed_tail (fst r) (snd r) v g1 in
  if typed_ok done r
  then o = St KDUMP_OK /\ tinv (done ++ [r]) v' /\
       lines v' = lines v /\ lines_isset v' = lines_isset v /\
       raw_isset v' = raw_isset v /\ raw_data v' = raw_data v /\ g_page g' = g_page g1
  else o = St ERR_SYSTEM.
Proof.
  intro Ht. unfold typed_tail, typed_ok. rewrite (typed_binding_unfold r).
  destruct (classify (fst r)) as [[type name]|] eqn:Ec.
  2:{ split; [reflexivity|]. split; [|repeat split]. apply tinv_no_entry; [|exact Ht].
      intro k. apply tentry_none_binding. rewrite typed_binding_unfold, Ec. reflexivity. }
  destruct (kind_of type) as [k|] eqn:Ek.
  2:{ split; [reflexivity|]. split; [|repeat split]. apply tinv_no_entry; [|exact Ht].
      intro k. apply tentry_none_binding. rewrite typed_binding_unfold, Ec, Ek. reflexivity. }
  destruct (parse_typed k (snd r)) as [n|] eqn:Ep.
  2:{ split; [reflexivity|]. split; [|repeat split]. apply tinv_no_entry; [|exact Ht].
      intro k'. apply tentry_none_binding. rewrite typed_binding_unfold, Ec, Ek, Ep. reflexivity. }
  assert (Hb : typed_binding r = Some (type, name, n))
    by (rewrite typed_binding_unfold, Ec, Ek, Ep; reflexivity).
  rewrite Ek.
  destruct Ht as [T1 T2 T3].
  assert (Hne : split_on DOT name <> []) by apply split_on_nonempty.
  pose proof (insert_step (tyk k) [] n (split_on DOT name) (typed k v) (tlog k done)
                (tyk_not_dir k) Hne (T1 k) (T2 k)) as Hs.
  change (match k with TSYMBOL => VAddr | _ => VNum end) with (tyk k).
  destruct (existsb (paths_clash (split_on DOT name)) (map fst (tlog k done))) eqn:Hc; cbn [negb].
  - rewrite Hs. reflexivity.
  - destruct Hs as (f' & h & Hi & Hwf & Hlf & _). rewrite Hi.
    split; [reflexivity|]. split.
    + split; intro k'; rewrite tlog_snoc; rewrite ?typed_set_typed.
      * destruct (tkind_eqb k k') eqn:E.
        -- apply tkind_eqb_eq in E. subst k'. rewrite (tentry_kind k r _ _ _ Hb Ek). exact Hwf.
        -- rewrite (tentry_other_kind k k' r _ _ _ Hb Ek), app_nil_r; [apply T1|].
           intro E'. subst k'. destruct k; discriminate.
      * destruct (tkind_eqb k k') eqn:E.
        -- apply tkind_eqb_eq in E. subst k'. rewrite (tentry_kind k r _ _ _ Hb Ek). exact Hlf.
        -- rewrite (tentry_other_kind k k' r _ _ _ Hb Ek), app_nil_r; [apply T2|].
           intro E'. subst k'. destruct k; discriminate.
      * rewrite typed_isset_set_typed. destruct (tkind_eqb k k') eqn:E; [reflexivity|].
        rewrite (tentry_other_kind k k' r _ _ _ Hb Ek), app_nil_r; [apply T3|].
        intro E'. subst k'. destruct k; discriminate.
    + destruct k; repeat split; try reflexivity.
      destruct (h && bytes_eqb name s_phys_base); reflexivity.
Qed.

Lemma lines_post_hook_eq linux key value v g :
  lines_post_hook linux key value (v, g) =
  let '(r1, g1, stop) :=
    if linux && bytes_eqb key s_PAGESIZE then
      let '(n, rest) := strtoull 10 value in
      match rest with
      | [] =>
          let '(r, p') := pstep (PSetDefault KSize n) (g_page g) in
          (r, {| g_page := p'; g_ver := g_ver g; g_physbase := g_physbase g |}, false)
      | _ => (St KDUMP_OK, g, true)
      end
    else if linux && bytes_eqb key s_OSRELEASE then
      (St KDUMP_OK,
       {| g_page := g_page g; g_ver := set_release value (g_ver g);
          g_physbase := g_physbase g |}, false)
    else (St KDUMP_OK, g, false) in
  if negb (is_ok r1) then (r1, (v, g1))
  else if stop then (St KDUMP_OK, (v, g1))
  else typed_tail key value v g1.
Proof. reflexivity. Qed.

Lemma classify_pagesize : classify s_PAGESIZE = None.
Proof. reflexivity. Qed.
Lemma classify_osrelease : classify s_OSRELEASE = None.
Proof. reflexivity. Qed.

Lemma typed_binding_no_class r : classify (fst r) = None -> typed_binding r = None.
Proof. intro H. now rewrite typed_binding_unfold, H. Qed.

Lemma post_hook_step linux done r v g :
  tinv done v -> pinv (g_page g) ->
  let '(o, (v', g')) := lines_post_hook linux (fst r) (snd r) (v, g) in
  if typed_ok done r && (negb linux || pagesize_ok r)
  then o = St KDUMP_OK /\ tinv (done ++ [r]) v' /\
       lines v' = lines v /\ lines_isset v' = lines_isset v /\
       raw_isset v' = raw_isset v /\ raw_data v' = raw_data v /\ pinv (g_page g')
  else exists st, o = St st /\ st <> KDUMP_OK.
Proof.
  intros Ht Hp. rewrite lines_post_hook_eq.
  destruct (linux && bytes_eqb (fst r) s_PAGESIZE) eqn:Eps.
  - apply andb_prop in Eps as [-> Ek]. apply bytes_eqb_eq in Ek.
    assert (Hb : typed_binding r = None) by (apply typed_binding_no_class; rewrite Ek; reflexivity).
    assert (Hto : typed_ok done r = true) by (unfold typed_ok; now rewrite Hb).
    assert (Hti : tinv (done ++ [r]) v)
      by (apply tinv_no_entry; [intro k; now apply tentry_none_binding|exact Ht]).
    rewrite Hto. cbn [andb negb orb]. unfold pagesize_ok. rewrite Ek, bytes_eqb_refl.
    unfold number_of. pose proof (strtoull_lt 10 (snd r)) as Hlt.
    destruct (strtoull 10 (snd r)) as [n rest]. cbn [fst] in Hlt.
    destruct rest as [|c rest].
    + pose proof (pstep_ok (PSetDefault KSize n) (g_page g) Hlt Hp) as Hs.
      destruct (pstep (PSetDefault KSize n) (g_page g)) as [ro p'].
      destruct Hs as [[Hv Hn] Hp'].
      destruct (valid_sizeb n) eqn:Evs.
      * apply valid_sizeb_spec in Evs. destruct (Hv Evs) as [-> _]. cbn [is_ok negb].
        unfold typed_tail. rewrite classify_pagesize.
        split; [reflexivity|]. split; [exact Hti|]. do 4 (split; [reflexivity|]). exact Hp'.
      * assert (Hnv : ~ valid_size n) by (intro Hx; apply valid_sizeb_spec in Hx; congruence).
        destruct (Hn Hnv) as [-> _]. cbn [is_ok negb]. exists ERR_CORRUPT. split; [reflexivity|discriminate].
    + cbn [is_ok negb]. split; [reflexivity|]. split; [exact Hti|].
      do 4 (split; [reflexivity|]). exact Hp.
  - destruct (linux && bytes_eqb (fst r) s_OSRELEASE) eqn:Eor.
    + apply andb_prop in Eor as [-> Ek]. apply bytes_eqb_eq in Ek.
      assert (Hb : typed_binding r = None) by (apply typed_binding_no_class; rewrite Ek; reflexivity).
      assert (Hto : typed_ok done r = true) by (unfold typed_ok; now rewrite Hb).
      assert (Hti : tinv (done ++ [r]) v)
        by (apply tinv_no_entry; [intro k; now apply tentry_none_binding|exact Ht]).
      rewrite Hto. cbn [andb negb orb is_ok]. unfold pagesize_ok. rewrite Ek.
      change (bytes_eqb s_OSRELEASE s_PAGESIZE) with false. cbn iota.
      unfold typed_tail. rewrite classify_osrelease.
      split; [reflexivity|]. split; [exact Hti|]. do 4 (split; [reflexivity|]). exact Hp.
    + cbn [is_ok negb].
      assert (Hpg : negb linux || pagesize_ok r = true).
      { destruct linux; [|reflexivity]. cbn [andb negb orb] in *. unfold pagesize_ok. now rewrite Eps. }
      rewrite Hpg, andb_true_r.
      pose proof (typed_tail_step done r v g Ht) as Hs.
      destruct (typed_tail (fst r) (snd r) v g) as [o [v' g']].
      destruct (typed_ok done r).
      * destruct Hs as (-> & H1 & H2 & H3 & H4 & H5 & H6).
        split; [reflexivity|]. split; [exact H1|]. do 4 (split; [assumption|]). now rewrite H6.
      * subst o. exists ERR_SYSTEM. split; [reflexivity|discriminate].
Qed.

Lemma starts_with_dot_leading k : starts_with_dot k = leading_dot k.
Proof. destruct k; reflexivity. Qed.

Lemma typed_set_lines k l v : typed k (set_lines l v) = typed k v.
Proof. destruct k; reflexivity. Qed.
Lemma typed_isset_set_lines k l v : typed_isset k (set_lines l v) = typed_isset k v.
Proof. destruct k; reflexivity. Qed.

Lemma tinv_set_lines done l v : tinv done v -> tinv done (set_lines l v).
Proof.
  intros [T1 T2 T3]. split; intro k.
  - rewrite typed_set_lines. apply T1.
  - rewrite typed_set_lines. apply T2.
  - rewrite typed_isset_set_lines. apply T3.
Qed.

(** a row that repeats the current binding of its key changes nothing in the
    typed views *)
Lemma tinv_repeat linux done r v :
  all_ok linux done -> last_value (fst r) done = Some (snd r) ->
  tinv done v -> tinv (done ++ [r]) v /\ typed_ok done r = true.
Proof.
  intros Hall Hlast [T1 T2 T3].
  assert (Hin : In r done).
  { apply last_value_in in Hlast. destruct r; exact Hlast. }
  split.
  - split; intro k; rewrite tlog_snoc; destruct (tentry k r) as [e|] eqn:He;
      rewrite ?app_nil_r; auto.
    + pose proof (tentry_in_tlog k done r e Hin He) as Hine.
      apply (wf_equiv _ _ (map fst (tlog k done))); [|apply T1].
      intro q. rewrite map_app, in_app_iff. cbn [map]. split; [tauto|].
      intros [H|[<-|[]]]; [exact H|]. apply in_map. exact Hine.
    + intros p Hp. rewrite lastp_snoc.
      destruct (path_eqb (fst e) p) eqn:Ep; [|now apply T2].
      apply path_eqb_eq in Ep. subst p. rewrite (T2 k (fst e) Hp).
      apply (lastp_tlog_last k done r e Hlast He).
    + intros _. apply T3. intro Hn.
      pose proof (tentry_in_tlog k done r e Hin He) as Hine. rewrite Hn in Hine. contradiction.
  - unfold typed_ok. destruct (typed_binding r) as [[[t name] n]|] eqn:Hb; [|reflexivity].
    destruct (kind_of t) as [k|] eqn:Hk; [|reflexivity].
    pose proof (tentry_kind k r t name n Hb Hk) as He.
    pose proof (tentry_in_tlog k done r _ Hin He) as Hine.
    apply negb_true_iff, existsb_false_forall. intros q Hq.
    apply (all_ok_typed_noclash linux k done Hall); [|exact Hq].
    apply (in_map fst) in Hine. exact Hine.
Qed.

Lemma row_step linux done r v g :
  all_ok linux done -> linv done v -> tinv done v -> pinv (g_page g) ->
  let '(o, (v', g')) := add_parsed_row linux (fst r) (snd r) (v, g) in
  if row_ok linux done r
  then o = St KDUMP_OK /\ linv (done ++ [r]) v' /\ tinv (done ++ [r]) v' /\
       raw_isset v' = raw_isset v /\ raw_data v' = raw_data v /\ pinv (g_page g')
  else exists st, o = St st /\ st <> KDUMP_OK.
Proof.
  intros Hall [L1 L2 L3] Ht Hp. unfold add_parsed_row, row_ok.
  rewrite starts_with_dot_leading.
  destruct (leading_dot (fst r)); cbn [negb andb].
  { exists ERR_CORRUPT. split; [reflexivity|discriminate]. }
  assert (Hne : split_on DOT (fst r) <> []) by apply split_on_nonempty.
  pose proof (insert_step VStr (snd r) 0 (split_on DOT (fst r)) (lines v) (llog done)
                ltac:(discriminate) Hne L1 L2) as Hs.
  destruct (existsb (paths_clash (split_on DOT (fst r))) (map fst (llog done))); cbn [negb andb].
  { rewrite Hs. exists ERR_SYSTEM. split; [reflexivity|discriminate]. }
  destruct Hs as (l' & h & Hi & Hwf & Hlf & Hh). rewrite Hi.
  fold (lentry r) in Hwf, Hlf. rewrite <- llog_snoc in Hwf, Hlf.
  assert (Hlin : linv (done ++ [r]) (set_lines l' v)).
  { split; [exact Hwf|exact Hlf|reflexivity]. }
  fold (typed_ok done r).
  destruct h.
  - pose proof (post_hook_step linux done r (set_lines l' v) g (tinv_set_lines _ _ _ Ht) Hp) as Hps.
    destruct (lines_post_hook linux (fst r) (snd r) (set_lines l' v, g)) as [o [v' g']].
    destruct (typed_ok done r && (negb linux || pagesize_ok r)); [|exact Hps].
    destruct Hps as (-> & T' & E1 & E2 & E3 & E4 & P').
    split; [reflexivity|]. split.
    + destruct Hlin as [A B C]. split; [now rewrite E1|now rewrite E1|now rewrite E2].
    + split; [exact T'|]. split; [exact E3|]. split; [exact E4|exact P'].
  - (* the line already had this value: no hook *)
    rewrite lastp_llog in Hh.
    destruct (last_value (fst r) done) as [x|] eqn:Hl; [|discriminate].
    cbn [value_eqb fst] in Hh. symmetry in Hh. apply negb_false_iff, bytes_eqb_eq in Hh. subst x.
    destruct (tinv_repeat linux done r v Hall Hl Ht) as [T' Hto].
    rewrite Hto. cbn [andb].
    assert (Hin : In r done) by (apply last_value_in in Hl; destruct r; exact Hl).
    rewrite (all_ok_pagesize linux done r Hall Hin).
    split; [reflexivity|]. split; [exact Hlin|]. split; [now apply tinv_set_lines|].
    split; [reflexivity|]. split; [reflexivity|exact Hp].
Qed.

(** * Part C4: the loop *)

Lemma is_ok_St o : is_ok o = true -> o = St KDUMP_OK.
Proof. destruct o as [[]| | |]; cbn; intro H; try discriminate; reflexivity. Qed.

Lemma parse_rows_spec linux ls : forall done v g,
  all_ok linux done -> linv done v -> tinv done v -> pinv (g_page g) ->
  let '(o, (v', g')) := parse_rows linux ls (St KDUMP_OK) (v, g) in
  if rows_ok linux done (map line_kv ls)
  then o = St KDUMP_OK /\ linv (done ++ map line_kv ls) v' /\ tinv (done ++ map line_kv ls) v' /\
       raw_isset v' = raw_isset v /\ raw_data v' = raw_data v /\ pinv (g_page g')
  else exists st, o = St st /\ st <> KDUMP_OK.
Proof.
  induction ls as [|l t IH]; intros done v g Hall Hl Ht Hp.
  - cbn [parse_rows map rows_ok]. rewrite app_nil_r. repeat (split; [first [reflexivity|assumption]|]). exact Hp.
  - cbn [parse_rows map rows_ok]. rewrite split_line_kv.
    pose proof (row_step linux done (line_kv l) v g Hall Hl Ht Hp) as Hr.
    destruct (line_kv l) as [k val] eqn:Ekv. cbn [fst snd] in Hr.
    destruct (add_parsed_row linux k val (v, g)) as [o [v1 g1]].
    destruct (row_ok linux done (k, val)) eqn:Erow; cbn [andb].
    + destruct Hr as (-> & L1 & T1 & R1 & R2 & P1). cbn [is_ok].
      assert (Hall1 : all_ok linux (done ++ [(k, val)])) by (apply all_ok_snoc; auto).
      pose proof (IH (done ++ [(k, val)]) v1 g1 Hall1 L1 T1 P1) as H2.
      destruct (parse_rows linux t (St KDUMP_OK) (v1, g1)) as [o2 [v2 g2]].
      rewrite <- app_assoc in H2. cbn [app] in H2.
      destruct (rows_ok linux (done ++ [(k, val)]) (map line_kv t)); [|exact H2].
      destruct H2 as (-> & L2 & T2 & R3 & R4 & P2).
      split; [reflexivity|]. split; [exact L2|]. split; [exact T2|].
      split; [congruence|]. split; [congruence|exact P2].
    + destruct Hr as (st & -> & Hst). cbn [is_ok].
      destruct st; try (exists ERR_SYSTEM; split; [reflexivity|discriminate]); try contradiction;
        cbn [is_ok]; eexists; split; try reflexivity; discriminate.
Qed.

(** the executable "representable" is "every row is acceptable in its turn" *)
Definition tpath (b : bytes * bytes * N) : list bytes := let '(t, n, _) := b in t :: split_on DOT n.

Definition rep_kvs (linux : bool) (kvs : list kv) : bool :=
  negb (existsb (fun kv => leading_dot (fst kv)) kvs)
  && clash_free (map (fun kv => split_on DOT (fst kv)) kvs)
  && clash_free (map tpath (filter_map typed_binding kvs))
  && (negb linux || forallb pagesize_ok kvs).

Lemma representable_rep linux text : representable linux text = rep_kvs linux (text_kvs text).
Proof. reflexivity. Qed.

Lemma clash_free_snoc l x :
  clash_free (l ++ [x]) = clash_free l && negb (existsb (paths_clash x) l).
Proof.
  induction l as [|a l IH]; [reflexivity|].
  cbn [app clash_free existsb]. rewrite IH, existsb_app. cbn [existsb].
  rewrite orb_false_r, (paths_clash_sym x a).
  destruct (existsb (paths_clash a) l), (paths_clash a x), (clash_free l),
           (existsb (paths_clash x) l); reflexivity.
Qed.

Lemma paths_clash_cons x a y b :
  paths_clash (x :: a) (y :: b) = bytes_eqb x y && paths_clash a b.
Proof.
  unfold paths_clash. cbn [strict_prefix]. rewrite (bytes_eqb_sym y x).
  destruct (bytes_eqb x y); reflexivity.
Qed.

Lemma existsb_tpath_tlog k a kvs :
  existsb (paths_clash (kind_name k :: a)) (map tpath (filter_map typed_binding kvs)) =
  existsb (paths_clash a) (map fst (tlog k kvs)).
Proof.
  induction kvs as [|r kvs IH]; [reflexivity|].
  unfold tlog. cbn [filter_map]. unfold tentry at 1.
  destruct (typed_binding r) as [[[t name] n]|] eqn:Hb; [|exact IH].
  cbn [map existsb tpath]. rewrite paths_clash_cons, (bytes_eqb_sym (kind_name k) t).
  destruct (bytes_eqb t (kind_name k)); cbn [andb orb map existsb fst].
  - f_equal. exact IH.
  - exact IH.
Qed.

Lemma all_ok_rep linux kvs : all_ok linux kvs <-> rep_kvs linux kvs = true.
Proof.
  induction kvs as [|r kvs IH] using rev_ind.
  - unfold all_ok, rep_kvs. cbn. destruct linux; cbn; tauto.
  - rewrite all_ok_snoc, IH. unfold rep_kvs, row_ok.
    rewrite existsb_app, map_app, filter_map_app, map_app, forallb_app.
    cbn [existsb map filter_map forallb]. rewrite orb_false_r, andb_true_r.
    rewrite clash_free_snoc.
    assert (Hl : map fst (llog kvs) = map (fun kv => split_on DOT (fst kv)) kvs).
    { unfold llog. rewrite map_map. reflexivity. }
    rewrite Hl.
    assert (Ht : clash_free (map tpath (filter_map typed_binding kvs) ++
                             map tpath match typed_binding r with Some y => [y] | None => [] end)
                 = clash_free (map tpath (filter_map typed_binding kvs))
                   && match typed_binding r with
                      | Some (t, name, _) =>
                          match kind_of t with
                          | Some k => negb (existsb (paths_clash (split_on DOT name)) (map fst (tlog k kvs)))
                          | None => true
                          end
                      | None => true
                      end).
    { destruct (typed_binding r) as [[[t name] n]|] eqn:Hb.
      - cbn [map tpath]. rewrite clash_free_snoc.
        destruct (typed_binding_kind r t name n Hb) as (k & Hk). rewrite Hk.
        apply kind_of_some in Hk. subst t. now rewrite existsb_tpath_tlog.
      - cbn [map]. now rewrite app_nil_r, andb_true_r. }
    match goal with |- context [clash_free (map tpath _ ++ map tpath ?x)] =>
      replace x with (match typed_binding r with Some y => [y] | None => [] end)
        by (destruct (typed_binding r); reflexivity) end.
    rewrite Ht.
    destruct (existsb (fun kv => leading_dot (fst kv)) kvs), (leading_dot (fst r)),
             (clash_free (map (fun kv => split_on DOT (fst kv)) kvs)),
             (existsb (paths_clash (split_on DOT (fst r))) (map (fun kv => split_on DOT (fst kv)) kvs)),
             (clash_free (map tpath (filter_map typed_binding kvs))),
             linux, (forallb pagesize_ok kvs), (pagesize_ok r);
      cbn [negb andb orb];
      destruct (match typed_binding r with
                | Some (t, name, _) =>
                    match kind_of t with
                    | Some k => negb (existsb (paths_clash (split_on DOT name)) (map fst (tlog k kvs)))
                    | None => true
                    end
                | None => true
                end); cbn [andb]; intuition congruence.
Qed.

(** * Part D: the theorems *)

Definition tv (type name : bytes) (kvs : list kv) : option N :=
  fold_left (fun acc b => let '(t, n, v) := b in
                          if bytes_eqb t type && bytes_eqb n name then Some v else acc)
            (filter_map typed_binding kvs) None.

Lemma typed_value_tv type name text : typed_value type name text = tv type name (text_kvs text).
Proof. reflexivity. Qed.

Lemma lastp_tlog_tv k name kvs :
  lastp (split_on DOT name) (tlog k kvs) =
  match tv (kind_name k) name kvs with Some n => Some ([], n) | None => None end.
Proof.
  induction kvs as [|r kvs IH] using rev_ind; [reflexivity|].
  unfold tv. rewrite tlog_snoc, filter_map_app, fold_left_app, lastp_app_tail.
  fold (tv (kind_name k) name kvs). cbn [filter_map]. unfold tentry.
  destruct (typed_binding r) as [[[t n0] v0]|]; cbn [fold_left]; [|exact IH].
  destruct (bytes_eqb t (kind_name k)); cbn [andb fold_left fst snd]; [|exact IH].
  rewrite path_eqb_split. destruct (bytes_eqb n0 name); [reflexivity|exact IH].
Qed.

Lemma strip_dot_id k : leading_dot k = false -> strip_dot k = k.
Proof. destruct k as [|c k]; [reflexivity|]. cbn. now intros ->. Qed.

Lemma tlog_nil_tv k name kvs : tlog k kvs = [] -> tv (kind_name k) name kvs = None.
Proof.
  intro H. pose proof (lastp_tlog_tv k name kvs) as E. rewrite H in E. cbn in E.
  destruct (tv (kind_name k) name kvs); [discriminate|reflexivity].
Qed.

(** the views of a directory agree with a key/value list *)
Record views_agree (kvs : list kv) (v : vmci) : Prop := {
  va_line : forall key, leading_dot key = false ->
            get_line key v = match last_value key kvs with
                             | Some x => (KDUMP_OK, x)
                             | None => (ERR_NODATA, [])
                             end;
  va_symbol : forall name, leading_dot name = false ->
              get_symbol name v = match tv s_SYMBOL name kvs with
                                  | Some n => (KDUMP_OK, n)
                                  | None => (ERR_NODATA, 0)
                                  end;
  va_typed : forall k name, get_typed k name v = tv (kind_name k) name kvs
}.

Lemma views_from_inv kvs v : linv kvs v -> tinv kvs v -> views_agree kvs v.
Proof.
  intros [L1 L2 L3] [T1 T2 T3]. split.
  - intros key Hd. unfold get_line. rewrite (strip_dot_id key Hd).
    destruct (lines_isset v) eqn:Hs; cbn [negb].
    + pose proof (L2 (split_on DOT key) (split_on_nonempty DOT key)) as Hl.
      rewrite lastp_llog in Hl. unfold leaf in Hl.
      destruct (lookup (split_on DOT key) (lines v)) as [n|].
      * destruct (vty_eqb (nty n) VStr && nisset n).
        -- destruct (last_value key kvs); [|discriminate]. now injection Hl as ->.
        -- destruct (last_value key kvs); [discriminate|reflexivity].
      * destruct (last_value key kvs); [discriminate|reflexivity].
    + destruct kvs as [|r kvs]; [reflexivity|].
      exfalso. assert (E : false = true) by (apply L3; discriminate). discriminate.
  - intros name Hd. unfold get_symbol. rewrite (strip_dot_id name Hd).
    destruct (symbol_isset v) eqn:Hs; cbn [negb].
    + pose proof (T2 TSYMBOL (split_on DOT name) (split_on_nonempty DOT name)) as Hl.
      rewrite lastp_tlog_tv in Hl. unfold leaf in Hl. cbn [typed tyk kind_name] in Hl.
      destruct (lookup (split_on DOT name) (t_symbol v)) as [n|].
      * destruct (vty_eqb (nty n) VAddr && nisset n).
        -- destruct (tv s_SYMBOL name kvs); [|discriminate]. now injection Hl as _ ->.
        -- destruct (tv s_SYMBOL name kvs); [discriminate|reflexivity].
      * destruct (tv s_SYMBOL name kvs); [discriminate|reflexivity].
    + change s_SYMBOL with (kind_name TSYMBOL).
      rewrite (tlog_nil_tv TSYMBOL name kvs); [reflexivity|].
      destruct (tlog TSYMBOL kvs) eqn:E; [reflexivity|].
      specialize (T3 TSYMBOL). rewrite E in T3. cbn [typed_isset] in T3.
      exfalso. rewrite Hs in T3. assert (E2 : false = true) by (apply T3; discriminate). discriminate.
  - intros k name. unfold get_typed.
    pose proof (T2 k (split_on DOT name) (split_on_nonempty DOT name)) as Hl.
    rewrite lastp_tlog_tv in Hl. unfold leaf in Hl.
    destruct (lookup (split_on DOT name) (typed k v)) as [n|] eqn:Hn.
    + destruct (wf_nodes _ _ _ (T1 k) _ _ Hn) as [Hs [[Hd _]|[Ht _]]].
      * rewrite Hd, Hs in *. cbn [vty_eqb negb andb].
        assert (E : vty_eqb VDir (tyk k) = false) by (destruct k; reflexivity).
        rewrite E in Hl. cbn [andb] in Hl.
        destruct (tv (kind_name k) name kvs); [discriminate|reflexivity].
      * rewrite Ht, Hs in *.
        assert (E : vty_eqb (tyk k) (tyk k) = true) by (destruct k; reflexivity).
        assert (E2 : vty_eqb (tyk k) VDir = false) by (destruct k; reflexivity).
        rewrite E in Hl. rewrite E2. cbn [andb negb] in *.
        destruct (tv (kind_name k) name kvs); [|discriminate]. now injection Hl as _ ->.
    + destruct (tv (kind_name k) name kvs); [discriminate|reflexivity].
Qed.

Lemma linv_dealloc v : linv [] (dealloc v).
Proof. split; [apply wf_empty|apply leaf_ok_empty|congruence]. Qed.

Lemma tinv_dealloc v : tinv [] (dealloc v).
Proof.
  split; intro k.
  - destruct k; apply wf_empty.
  - destruct k; apply leaf_ok_empty.
  - cbn. congruence.
Qed.

(** setting the raw text: accepted iff representable; then the parsed views
    are the views of the text's key/value list and the raw view is the text *)
Theorem set_raw_spec linux text v g :
  pinv (g_page g) ->
  let '(o, (v', g')) := set_raw linux text (v, g) in
  if representable linux text
  then o = St KDUMP_OK /\ views_agree (text_kvs text) v' /\
       get_raw v' = (KDUMP_OK, text) /\ pinv (g_page g')
  else exists st, o = St st /\ st <> KDUMP_OK.
Proof.
  intro Hp. unfold set_raw, set_raw_from. rewrite lines_of_text.
  pose proof (parse_rows_spec linux (text_lines text) [] (dealloc (with_raw true text v)) g
                eq_refl (linv_dealloc _) (tinv_dealloc _) Hp) as H.
  destruct (parse_rows linux (text_lines text) (St KDUMP_OK) (dealloc (with_raw true text v), g))
    as [o [v' g']].
  cbn [app] in H. fold (text_kvs text) in H.
  rewrite representable_rep.
  destruct (rows_ok linux [] (text_kvs text)) eqn:Er.
  - assert (Hrep : rep_kvs linux (text_kvs text) = true) by (apply all_ok_rep; exact Er).
    rewrite Hrep. destruct H as (-> & L & T & R1 & R2 & P).
    split; [reflexivity|]. split; [now apply views_from_inv|]. split; [|exact P].
    unfold get_raw. rewrite R1, R2. reflexivity.
  - assert (Hrep : rep_kvs linux (text_kvs text) = false).
    { destruct (rep_kvs linux (text_kvs text)) eqn:E; [|reflexivity].
      apply all_ok_rep in E. unfold all_ok in E. congruence. }
    rewrite Hrep. exact H.
Qed.

(** the outcome of setting any text is a status: the status variable is never
    returned unassigned, no undefined shift is reached *)
Corollary set_raw_status linux text v g :
  pinv (g_page g) -> exists st, fst (set_raw linux text (v, g)) = St st.
Proof.
  intro Hp. pose proof (set_raw_spec linux text v g Hp) as H.
  destruct (set_raw linux text (v, g)) as [o [v' g']]. cbn [fst].
  destruct (representable linux text).
  - destruct H as [-> _]. eauto.
  - destruct H as (st & -> & _). eauto.
Qed.

(** an empty text is accepted (DESIGN item 11); the pinned tree returned the
    unassigned variable *)
Lemma set_raw_empty linux v g : fst (set_raw linux [] (v, g)) = St KDUMP_OK.
Proof. reflexivity. Qed.

Lemma set_raw_unrepaired_undef linux v g : fst (set_raw_from Undef linux [] (v, g)) = Undef.
Proof. reflexivity. Qed.

(** the same, spelled out with the spec's functions of the text *)
Theorem set_raw_views linux text v g :
  pinv (g_page g) ->
  let '(o, (v', g')) := set_raw linux text (v, g) in
  if representable linux text
  then o = St KDUMP_OK /\
       (forall key, leading_dot key = false ->
          get_line key v' = match last_value key (text_kvs text) with
                            | Some x => (KDUMP_OK, x)
                            | None => (ERR_NODATA, [])
                            end) /\
       (forall name, leading_dot name = false ->
          get_symbol name v' = match typed_value s_SYMBOL name text with
                               | Some n => (KDUMP_OK, n)
                               | None => (ERR_NODATA, 0)
                               end) /\
       (forall k name, get_typed k name v' = typed_value (kind_name k) name text) /\
       get_raw v' = (KDUMP_OK, text) /\ pinv (g_page g')
  else exists st, o = St st /\ st <> KDUMP_OK.
Proof.
  intro Hp. pose proof (set_raw_spec linux text v g Hp) as H.
  destruct (set_raw linux text (v, g)) as [o [v' g']].
  destruct (representable linux text); [|exact H].
  destruct H as (Ho & [V1 V2 V3] & Hr & Hp').
  split; [exact Ho|]. split; [exact V1|]. split; [exact V2|]. split; [exact V3|].
  split; [exact Hr|exact Hp'].
Qed.
