(** Values on top of the chain of dictionaries ([Attr/AttrChain.v]).

    An attribute is identified by the dictionary whose hash table holds it and
    its path; its value (numbers and addresses; [None] = no value) belongs to
    that attribute, so two levels see the same value exactly when their lookups
    end at the same attribute.  Directories carry no value here (their [isset]
    flag is the tree model's subject, [Attr/AttrTree.v]). *)
From Coq Require Import NArith List Bool Arith.
From KdV Require Import Base.Wrap64 Attr.AttrBase Attr.AttrChain.
Import ListNotations.

Record vstate := { cs : cstate; vals : nat -> cpath -> option N }.

Definition cpath_eqb (p q : cpath) : bool := if cpath_eq_dec p q then true else false.

(** the attribute that level i resolves path p to *)
Definition vowner (s : vstate) (i : nat) (p : cpath) : option nat := first_owner (cs s) (chain (cs s) i) p.

(** kdump_get_attr through level i *)
Definition vget (s : vstate) (i : nat) (p : cpath) : option N :=
  match vowner s i p with Some k => vals s k p | None => None end.

Definition upd (f : nat -> cpath -> option N) (k : nat) (p : cpath) (v : option N) : nat -> cpath -> option N :=
  fun k' p' => if Nat.eqb k' k && cpath_eqb p' p then v else f k' p'.

(** kdump_set_attr through level i ([None]: a NIL set, i.e. clear): the value of
    the attribute the lookup ends at *)
Definition vset (s : vstate) (i : nat) (p : cpath) (v : option N) : vstate :=
  match vowner s i p with
  | Some k => {| cs := cs s; vals := upd (vals s) k p v |}
  | None => s
  end.

(** kdump_clone(level i, KDUMP_CLONE_XLAT): clone_attr copies the value that the
    original shows for each private path *)
Definition vclone_xlat (s : vstate) (i : nat) (priv : list cpath) : vstate :=
  let n := length (dicts (cs s)) in
  {| cs := clone_xlat_ref (cs s) i priv;
     vals := fun k p => if Nat.eqb k n
                        then (if in_dec cpath_eq_dec p priv then vget s i p else None)
                        else vals s k p |}.

Definition vclone_shared (s : vstate) (k : nat) : vstate := {| cs := clone_shared (cs s) k; vals := vals s |}.
Definition vrelease (fuel : nat) (s : vstate) (k : nat) : vstate := {| cs := release fuel (cs s) k; vals := vals s |}.

(** a new attribute has no value: creation clears whatever an earlier attribute
    at the same place had left *)
Definition vcreate_path (s : vstate) (i : nat) (todo : list bytes) : vstate :=
  let s' := create_path (cs s) i [] todo in
  {| cs := s';
     vals := fun k p => if in_dec cpath_eq_dec p (table (cs s) k) then vals s k p
                        else None |}.
Definition vremove_below (s : vstate) (i : nat) (p : cpath) (strict : bool) : vstate :=
  {| cs := remove_below (cs s) i p strict; vals := vals s |}.

(** decidable: fallback pointers lead to older dictionaries (evaluated by the check on every replayed state) *)
Definition dwfb (c : cstate) : bool :=
  forallb (fun k => match dict_at c k with
                    | Some d => match d_fallback d with Some j => Nat.ltb j k | None => true end
                    | None => true
                    end) (seq 0 (length (dicts c))).
