(** Small list facts missing from the 8.16 standard library (used by the
    attribute proofs only). *)
From Coq Require Import List Arith Lia.
Import ListNotations.

Lemma In_firstn {A} (x : A) n : forall l, In x (firstn n l) -> In x l.
Proof.
  induction n as [|n IH]; intros [|a l] H; cbn in *; try contradiction.
  destruct H as [->|H]; [now left|right; now apply IH].
Qed.

Lemma In_skipn {A} (x : A) n : forall l, In x (skipn n l) -> In x l.
Proof.
  induction n as [|n IH]; intros [|a l] H; cbn in *; try contradiction; auto.
Qed.

Lemma Forall_firstn {A} (P : A -> Prop) n l : Forall P l -> Forall P (firstn n l).
Proof.
  intro H. apply Forall_forall. intros x Hx. apply In_firstn in Hx.
  revert x Hx. now apply Forall_forall.
Qed.

Lemma Forall_skipn {A} (P : A -> Prop) n l : Forall P l -> Forall P (skipn n l).
Proof.
  intro H. apply Forall_forall. intros x Hx. apply In_skipn in Hx.
  revert x Hx. now apply Forall_forall.
Qed.

Lemma nth_error_firstn_lt {A} n : forall (l : list A) j,
  nth_error (firstn n l) j = if j <? n then nth_error l j else None.
Proof.
  induction n as [|n IH]; intros l j.
  - cbn. now destruct j.
  - destruct l as [|a l]; cbn [firstn].
    + destruct j as [|j]; cbn [nth_error]; [reflexivity|]. now destruct (S j <? S n).
    + destruct j as [|j]; [reflexivity|]. cbn [nth_error]. rewrite IH.
      change (S j <? S n) with (j <? n). reflexivity.
Qed.

Lemma nth_error_skipn_add {A} n : forall (l : list A) j,
  nth_error (skipn n l) j = nth_error l (n + j).
Proof.
  induction n as [|n IH]; intros l j; [reflexivity|].
  destruct l as [|a l]; cbn [skipn]; [now destruct j|].
  cbn [plus nth_error]. apply IH.
Qed.

Lemma nth_error_ext_eq {A} : forall (a b : list A),
  (forall j, nth_error a j = nth_error b j) -> a = b.
Proof.
  induction a as [|x a IH]; intros [|y b] H.
  - reflexivity.
  - specialize (H 0). discriminate.
  - specialize (H 0). discriminate.
  - pose proof (H 0) as H0. cbn in H0. injection H0 as ->.
    f_equal. apply IH. intro j. exact (H (S j)).
Qed.
