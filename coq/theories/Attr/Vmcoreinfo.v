(** Model of VMCOREINFO parsing (src/kdumpfile/vmcoreinfo.c
    [vmcoreinfo_raw_post_hook], [dealloc_vmcoreinfo], [add_parsed_row],
    [lines_post_hook], [get_raw_locked], [get_line_locked],
    [kdump_vmcoreinfo_symbol]; src/kdumpfile/attr.c [create_attr_path],
    [lookup_dir_attr], [set_attr], [instantiate_path]; with fixes 10, 11, 14,
    50, 51, 53, 56 applied).

    The attribute directory [<os>.vmcoreinfo] has the global children [raw]
    (blob), [lines] and [LENGTH] [NUMBER] [OFFSET] [SIZE] [SYMBOL]
    (directories).  Everything below those six directories is created from the
    text.  A subtree is a list of [node]s in sibling-list order (a new
    attribute is linked at the head).  The hash table is abstracted: looking up
    a dotted path is resolving its components from the directory downwards
    (what [lookup_dir_attr] + [keycmp] compute for every hash function).

    Texts and keys are byte strings without NUL (C strings). *)
From Coq Require Import NArith ZArith List Bool.
From KdV Require Import Base.Wrap64 Attr.AttrBase Attr.Hooks.
Import ListNotations.
Local Open Scope N_scope.

Inductive vty := VDir | VStr | VNum | VAddr.
Definition vty_eqb (a b : vty) : bool :=
  match a, b with
  | VDir, VDir | VStr, VStr | VNum, VNum | VAddr, VAddr => true
  | _, _ => false
  end.

(** an attribute below one of the six directories: template key and type,
    [flags.isset], string value, numeric value, children *)
Inductive node := Node (key : bytes) (ty : vty) (isset : bool) (sv : bytes) (nv : N)
                       (kids : list node).

Definition nkey (n : node) := let 'Node k _ _ _ _ _ := n in k.
Definition nty (n : node) := let 'Node _ t _ _ _ _ := n in t.
Definition nisset (n : node) := let 'Node _ _ i _ _ _ := n in i.
Definition nsv (n : node) := let 'Node _ _ _ s _ _ := n in s.
Definition nnv (n : node) := let 'Node _ _ _ _ v _ := n in v.
Definition nkids (n : node) := let 'Node _ _ _ _ _ k := n in k.

(** first sibling with a given key: (siblings before it, the node, siblings after) *)
Fixpoint find_child (k : bytes) (l : list node) : option (list node * node * list node) :=
  match l with
  | [] => None
  | n :: t =>
      if bytes_eqb (nkey n) k then Some ([], n, t)
      else match find_child k t with
           | Some (b, m, a) => Some (n :: b, m, a)
           | None => None
           end
  end.

(** lookup_dir_attr below a directory: resolve the components *)
Fixpoint lookup (comps : list bytes) (l : list node) : option node :=
  match comps with
  | [] => None
  | [c] => match find_child c l with Some (_, n, _) => Some n | None => None end
  | c :: rest =>
      match find_child c l with
      | Some (_, n, _) => lookup rest (nkids n)
      | None => None
      end
  end.

(** [create_attr_path] followed by a [set_attr] of the leaf
    ([set_attr_sized_string] / [set_attr_number] / [set_attr_address], ATTR_DEFAULT):
    - the longest existing prefix of the path is found;
    - fix 14: if components remain and that attribute is not a directory, or
      nothing remains and its type differs from the wanted one, fail (NULL);
    - missing directories and the leaf are created at the head of their
      sibling lists;
    - [set_attr]: [instantiate_path] marks all ancestors set; the value is
      stored; the post-set hook is skipped iff the leaf already had the value.
    Result: the new sibling list and "run the post-set hook". *)
Definition same_value (ty : vty) (n : node) (sv : bytes) (nv : N) : bool :=
  nisset n &&
  match ty with
  | VStr => bytes_eqb (nsv n) sv
  | VNum | VAddr => nnv n =? nv
  | VDir => true
  end.

Fixpoint insert (comps : list bytes) (ty : vty) (sv : bytes) (nv : N) (l : list node)
  : option (list node * bool) :=
  match comps with
  | [] => None
  | [c] =>
      match find_child c l with
      | Some (b, n, a) =>
          if vty_eqb (nty n) ty
          then Some (b ++ Node c ty true sv nv (nkids n) :: a, negb (same_value ty n sv nv))
          else None                                        (* EISDIR / EEXIST *)
      | None => Some (Node c ty true sv nv [] :: l, true)
      end
  | c :: rest =>
      match find_child c l with
      | Some (b, n, a) =>
          if vty_eqb (nty n) VDir then
            match insert rest ty sv nv (nkids n) with
            | Some (k', h) => Some (b ++ Node c VDir true [] 0 k' :: a, h)
            | None => None
            end
          else None                                        (* ENOTDIR *)
      | None =>
          match insert rest ty sv nv [] with
          | Some (k', h) => Some (Node c VDir true [] 0 k' :: l, h)
          | None => None
          end
      end
  end.

(** the five typed directories *)
Inductive tkind := TLENGTH | TNUMBER | TOFFSET | TSIZE | TSYMBOL.

(** one [<os>.vmcoreinfo] directory *)
Record vmci := {
  raw_isset : bool; raw_data : bytes;
  lines_isset : bool; lines : list node;
  length_isset : bool; t_length : list node;
  number_isset : bool; t_number : list node;
  offset_isset : bool; t_offset : list node;
  size_isset : bool; t_size : list node;
  symbol_isset : bool; t_symbol : list node
}.

Definition vmci0 : vmci :=
  {| raw_isset := false; raw_data := [];
     lines_isset := false; lines := [];
     length_isset := false; t_length := [];
     number_isset := false; t_number := [];
     offset_isset := false; t_offset := [];
     size_isset := false; t_size := [];
     symbol_isset := false; t_symbol := [] |}.

Definition typed (k : tkind) (v : vmci) : list node :=
  match k with
  | TLENGTH => t_length v | TNUMBER => t_number v | TOFFSET => t_offset v
  | TSIZE => t_size v | TSYMBOL => t_symbol v
  end.

Definition typed_isset (k : tkind) (v : vmci) : bool :=
  match k with
  | TLENGTH => length_isset v | TNUMBER => number_isset v | TOFFSET => offset_isset v
  | TSIZE => size_isset v | TSYMBOL => symbol_isset v
  end.

Definition set_lines (l : list node) (v : vmci) : vmci :=
  {| raw_isset := raw_isset v; raw_data := raw_data v;
     lines_isset := true; lines := l;
     length_isset := length_isset v; t_length := t_length v;
     number_isset := number_isset v; t_number := t_number v;
     offset_isset := offset_isset v; t_offset := t_offset v;
     size_isset := size_isset v; t_size := t_size v;
     symbol_isset := symbol_isset v; t_symbol := t_symbol v |}.

Definition set_typed (k : tkind) (l : list node) (v : vmci) : vmci :=
  {| raw_isset := raw_isset v; raw_data := raw_data v;
     lines_isset := lines_isset v; lines := lines v;
     length_isset := match k with TLENGTH => true | _ => length_isset v end;
     t_length := match k with TLENGTH => l | _ => t_length v end;
     number_isset := match k with TNUMBER => true | _ => number_isset v end;
     t_number := match k with TNUMBER => l | _ => t_number v end;
     offset_isset := match k with TOFFSET => true | _ => offset_isset v end;
     t_offset := match k with TOFFSET => l | _ => t_offset v end;
     size_isset := match k with TSIZE => true | _ => size_isset v end;
     t_size := match k with TSIZE => l | _ => t_size v end;
     symbol_isset := match k with TSYMBOL => true | _ => symbol_isset v end;
     t_symbol := match k with TSYMBOL => l | _ => t_symbol v end |}.

(** dealloc_vmcoreinfo: the children of every directory child are freed; the
    directories keep their [isset] flag *)
Definition dealloc (v : vmci) : vmci :=
  {| raw_isset := raw_isset v; raw_data := raw_data v;
     lines_isset := lines_isset v; lines := [];
     length_isset := length_isset v; t_length := [];
     number_isset := number_isset v; t_number := [];
     offset_isset := offset_isset v; t_offset := [];
     size_isset := size_isset v; t_size := [];
     symbol_isset := symbol_isset v; t_symbol := [] |}.

Definition with_raw (isset : bool) (d : bytes) (v : vmci) : vmci :=
  {| raw_isset := isset; raw_data := d;
     lines_isset := lines_isset v; lines := lines v;
     length_isset := length_isset v; t_length := t_length v;
     number_isset := number_isset v; t_number := t_number v;
     offset_isset := offset_isset v; t_offset := t_offset v;
     size_isset := size_isset v; t_size := t_size v;
     symbol_isset := symbol_isset v; t_symbol := t_symbol v |}.

(** what the hooks of a Linux VMCOREINFO touch outside the directory *)
Record genv := {
  g_page : pstate;            (* arch.page_size / arch.page_shift *)
  g_ver : vstate;             (* linux.uts.release / linux.version_code *)
  g_physbase : option N       (* linux.phys_base (set by NUMBER(phys_base)) *)
}.
Definition genv0 : genv := {| g_page := pstate0; g_ver := vstate0; g_physbase := None |}.

(** key classification of lines_post_hook: "TYPE(sym)" with ')' last *)
Fixpoint split_first (sep : N) (s : bytes) : option (bytes * bytes) :=
  match s with
  | [] => None
  | c :: t =>
      if c =? sep then Some ([], t)
      else match split_first sep t with
           | Some (a, b) => Some (c :: a, b)
           | None => None
           end
  end.

Definition classify (key : bytes) : option (bytes * bytes) :=
  match split_first LPAR key with
  | None => None                               (* no '(' *)
  | Some (type, sym) =>
      match split_first RPAR sym with
      | Some (name, []) => Some (type, name)   (* first ')' is the last character *)
      | _ => None
      end
  end.

Definition kind_of (type : bytes) : option tkind :=
  if bytes_eqb type s_SYMBOL then Some TSYMBOL
  else if bytes_eqb type s_LENGTH then Some TLENGTH
  else if bytes_eqb type s_NUMBER then Some TNUMBER
  else if bytes_eqb type s_OFFSET then Some TOFFSET
  else if bytes_eqb type s_SIZE then Some TSIZE
  else None.

(** the value of a typed line: SYMBOL is parsed in base 16, the others in
    base 0; anything left after the number makes the line "invalid format" *)
Definition parse_typed (k : tkind) (value : bytes) : option N :=
  let '(n, rest) := strtoull (match k with TSYMBOL => 16 | _ => 0 end) value in
  match rest with [] => Some n | _ => None end.

(** lines_post_hook for the attribute [lines.<key>] holding [value] *)
Definition lines_post_hook (linux : bool) (key value : bytes) (st : vmci * genv)
  : outcome * (vmci * genv) :=
  let '(v, g) := st in
  (* PAGESIZE / OSRELEASE side effects, Linux only *)
  let '(r1, g1, stop) :=
    if linux && bytes_eqb key s_PAGESIZE then
      let '(n, rest) := strtoull 10 value in
      match rest with
      | [] =>
          let '(r, p') := pstep (PSetDefault KSize n) (g_page g) in
          (r, {| g_page := p'; g_ver := g_ver g; g_physbase := g_physbase g |}, false)
      | _ => (St KDUMP_OK, g, true)            (* invalid format -> ignore: return *)
      end
    else if linux && bytes_eqb key s_OSRELEASE then
      (St KDUMP_OK,
       {| g_page := g_page g; g_ver := set_release value (g_ver g);
          g_physbase := g_physbase g |}, false)
    else (St KDUMP_OK, g, false) in
  if negb (is_ok r1) then (r1, (v, g1))
  else if stop then (St KDUMP_OK, (v, g1))
  else
    match classify key with
    | None => (St KDUMP_OK, (v, g1))
    | Some (type, name) =>
        match kind_of type with
        | None => (St KDUMP_OK, (v, g1))
        | Some k =>
            match parse_typed k value with
            | None => (St KDUMP_OK, (v, g1))   (* invalid format -> ignore *)
            | Some n =>
                let ty := match k with TSYMBOL => VAddr | _ => VNum end in
                match insert (split_on DOT name) ty [] n (typed k v) with
                | None => (St ERR_SYSTEM, (v, g1))
                | Some (l', hook) =>
                    let v' := set_typed k l' v in
                    (* NUMBER(phys_base): phys_base_post_hook -> set_phys_base *)
                    let g2 :=
                      match k with
                      | TNUMBER =>
                          if hook && bytes_eqb name s_phys_base
                          then {| g_page := g_page g1; g_ver := g_ver g1;
                                  g_physbase := Some n |}
                          else g1
                      | _ => g1
                      end in
                    (St KDUMP_OK, (v', g2))
                end
            end
        end
    end.

Definition starts_with_dot (k : bytes) : bool :=
  match k with c :: _ => c =? DOT | [] => false end.

(** add_parsed_row *)
Definition add_parsed_row (linux : bool) (key value : bytes) (st : vmci * genv)
  : outcome * (vmci * genv) :=
  let '(v, g) := st in
  if starts_with_dot key then (St ERR_CORRUPT, st)       (* fix 51: leading dot *)
  else
    match insert (split_on DOT key) VStr value 0 (lines v) with
    | None => (St ERR_SYSTEM, st)
    | Some (l', hook) =>
        let st' := (set_lines l' v, g) in
        if hook then lines_post_hook linux key value st' else (St KDUMP_OK, st')
    end.

(** the line loop of vmcoreinfo_raw_post_hook: lines are separated by '\n', a
    text that ends in '\n' has no further (empty) line *)
Fixpoint lines_of (s : bytes) (cur : bytes) : list bytes :=
  match s with
  | [] => match cur with [] => [] | _ => [rev cur] end
  | c :: t => if c =? NL then rev cur :: lines_of t [] else lines_of t (c :: cur)
  end.

(* val = memchr(p, '=', endl - p): key before the first '=', value after;
   without '=' the whole line is the key and the value is empty *)
Definition split_line (l : bytes) : bytes * bytes :=
  match split_first EQ l with
  | Some (k, v) => (k, v)
  | None => (l, [])
  end.

(** [res] is the C variable: [init] is its content before the loop ([Undef] in
    the pinned tree, [St KDUMP_OK] with fix 11); the loop stops at the first
    row that fails *)
Fixpoint parse_rows (linux : bool) (rows : list bytes) (res : outcome) (st : vmci * genv)
  : outcome * (vmci * genv) :=
  match rows with
  | [] => (res, st)
  | l :: t =>
      let '(k, v) := split_line l in
      let '(r, st') := add_parsed_row linux k v st in
      if is_ok r then parse_rows linux t r st' else (r, st')
  end.

(** kdump_set_attr("<os>.vmcoreinfo.raw", {KDUMP_BLOB, blob}): the blob is
    stored, then vmcoreinfo_raw_post_hook runs (a fresh blob pointer never
    equals the old one, so the hooks are never skipped) *)
Definition set_raw_from (init : outcome) (linux : bool) (text : bytes) (st : vmci * genv)
  : outcome * (vmci * genv) :=
  let '(v, g) := st in
  parse_rows linux (lines_of text []) init (dealloc (with_raw true text v), g).

Definition set_raw := set_raw_from (St KDUMP_OK).

(** kdump_set_attr("<os>.vmcoreinfo.raw", {KDUMP_NIL}): pre_clear hook *)
Definition clear_raw (st : vmci * genv) : vmci * genv :=
  let '(v, g) := st in (dealloc (with_raw false (raw_data v) v), g).

(** lookup_dir_attr strips one leading dot of the key ("do not fall back") *)
Definition strip_dot (k : bytes) : bytes :=
  match k with c :: t => if c =? DOT then t else k | [] => k end.

(** kdump_vmcoreinfo_raw *)
Definition get_raw (v : vmci) : status * bytes :=
  if raw_isset v then (KDUMP_OK, raw_data v) else (ERR_NODATA, []).

(** kdump_vmcoreinfo_line *)
Definition get_line (key : bytes) (v : vmci) : status * bytes :=
  if negb (lines_isset v) then (ERR_NODATA, [])
  else match lookup (split_on DOT (strip_dot key)) (lines v) with
       | Some n =>
           if vty_eqb (nty n) VStr && nisset n then (KDUMP_OK, nsv n) else (ERR_NODATA, [])
       | None => (ERR_NODATA, [])
       end.

(** kdump_vmcoreinfo_symbol *)
Definition get_symbol (name : bytes) (v : vmci) : status * N :=
  if negb (symbol_isset v) then (ERR_NODATA, 0)
  else match lookup (split_on DOT (strip_dot name)) (t_symbol v) with
       | Some n =>
           if vty_eqb (nty n) VAddr && nisset n then (KDUMP_OK, nnv n) else (ERR_NODATA, 0)
       | None => (ERR_NODATA, 0)
       end.

(** kdump_get_attr("<os>.vmcoreinfo.<TYPE>.<name>") for a numeric kind *)
Definition get_typed (k : tkind) (name : bytes) (v : vmci) : option N :=
  match lookup (split_on DOT name) (typed k v) with
  | Some n => if nisset n && negb (vty_eqb (nty n) VDir) then Some (nnv n) else None
  | None => None
  end.

(** ** A context: one Linux and one Xen VMCOREINFO directory + the globals *)
Record ctx := { c_linux : vmci; c_xen : vmci; c_env : genv }.
Definition ctx0 : ctx := {| c_linux := vmci0; c_xen := vmci0; c_env := genv0 |}.

Inductive cop :=
| CPage (o : pop)                   (* page size / shift set and clear *)
| CSetRelease (s : bytes)           (* kdump_set_string_attr("linux.uts.release") *)
| CClearRelease
| CGetVersion                       (* kdump_get_number_attr("linux.version_code") *)
| CSetRaw (linux : bool) (text : bytes)
| CClearRaw (linux : bool)
| CGetRaw (linux : bool)            (* kdump_vmcoreinfo_raw with ostype linux / xen *)
| CGetLine (linux : bool) (key : bytes)
| CGetSymbol (linux : bool) (name : bytes).

Inductive cout :=
| COutcome (o : outcome)
| CNum (st : status) (v : N)
| CBytes (st : status) (b : bytes).

Definition cstep (o : cop) (c : ctx) : cout * ctx :=
  match o with
  | CPage p =>
      let '(r, p') := pstep p (g_page (c_env c)) in
      (COutcome r, {| c_linux := c_linux c; c_xen := c_xen c;
                      c_env := {| g_page := p'; g_ver := g_ver (c_env c);
                                  g_physbase := g_physbase (c_env c) |} |})
  | CSetRelease s =>
      (COutcome (St KDUMP_OK),
       {| c_linux := c_linux c; c_xen := c_xen c;
          c_env := {| g_page := g_page (c_env c); g_ver := set_release s (g_ver (c_env c));
                      g_physbase := g_physbase (c_env c) |} |})
  | CClearRelease =>
      (COutcome (St KDUMP_OK),
       {| c_linux := c_linux c; c_xen := c_xen c;
          c_env := {| g_page := g_page (c_env c); g_ver := clear_release (g_ver (c_env c));
                      g_physbase := g_physbase (c_env c) |} |})
  | CGetVersion =>
      let '(st, n, v') := get_version_code (g_ver (c_env c)) in
      (CNum st n, {| c_linux := c_linux c; c_xen := c_xen c;
                     c_env := {| g_page := g_page (c_env c); g_ver := v';
                                 g_physbase := g_physbase (c_env c) |} |})
  | CSetRaw true text =>
      let '(r, (v', g')) := set_raw true text (c_linux c, c_env c) in
      (COutcome r, {| c_linux := v'; c_xen := c_xen c; c_env := g' |})
  | CSetRaw false text =>
      let '(r, (v', g')) := set_raw false text (c_xen c, c_env c) in
      (COutcome r, {| c_linux := c_linux c; c_xen := v'; c_env := g' |})
  | CClearRaw true =>
      let '(v', g') := clear_raw (c_linux c, c_env c) in
      (COutcome (St KDUMP_OK), {| c_linux := v'; c_xen := c_xen c; c_env := g' |})
  | CClearRaw false =>
      let '(v', g') := clear_raw (c_xen c, c_env c) in
      (COutcome (St KDUMP_OK), {| c_linux := c_linux c; c_xen := v'; c_env := g' |})
  | CGetRaw l => let '(st, b) := get_raw (if l then c_linux c else c_xen c) in (CBytes st b, c)
  | CGetLine l k =>
      let '(st, b) := get_line k (if l then c_linux c else c_xen c) in (CBytes st b, c)
  | CGetSymbol l k =>
      let '(st, n) := get_symbol k (if l then c_linux c else c_xen c) in (CNum st n, c)
  end.

Fixpoint crun (ops : list cop) (c : ctx) : list (cout * ctx) :=
  match ops with
  | [] => []
  | o :: t => let '(r, c') := cstep o c in (r, c') :: crun t c'
  end.
