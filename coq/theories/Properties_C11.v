(** C11 - placeholder until the proofs land. *)
From KdV Require Import Flat.FlatModel Flat.FlatSpec Flat.SplitModel Flat.SplitSpec.
