(** C11 - flattened and split packaging do not change what a dump contains.
    Statements only; every proof is [exact <lemma>].

    Vocabulary.  [recs] is the list of records of a flattened stream in stream
    order, [encode recs ++ trailer] the stream itself; [rearrange recs] is the
    file the stream stands for (FlatSpec.v).  [rd] / [gc] are the file cache
    ([fcache_pread] / [fcache_get_chunk]) as functions of position and length;
    [reads_stream rd s] says that reads inside [s] succeed with the bytes of
    [s] - nothing is assumed about reads past the end.  [oracle] is the
    allocator's answer list, [fuel] the iteration budget of the header scan.
    [stream_ok]: records are non-empty, positions fit a signed 64-bit offset,
    the stream is shorter than 2^63 bytes and has at most 2^31 records. *)
From Coq Require Import NArith ZArith List Bool Permutation Lia.
From KdV Require Import Base.Wrap64 Base.ByteSeq Map.MapModel
     Flat.FlatModel Flat.FlatSpec Flat.FlatProofs
     Flat.SplitModel Flat.SplitSpec Flat.SplitProofs
     Flat.DiskSetModel Flat.DiskSetSpec Flat.DiskSetProofs.
Import ListNotations.
Local Open Scope N_scope.

(** [flatmap_init] accepts every well-formed stream - any record order,
    sizes, overlaps, holes, any trailer after the end marker - when the
    allocator does not fail, and with a failing allocator the only other
    outcome is [KDUMP_ERR_SYSTEM]; the resulting map does not depend on the
    allocator *)
Theorem C11_init_accepts : forall recs trailer rd fuel,
  stream_ok recs trailer ->
  reads_stream rd (encode recs ++ trailer) -> (length recs < fuel)%nat ->
  exists fm, forall oracle, open_ok (flatmap_init_file rd fuel oracle) fm oracle.
Proof. exact init_succeeds. Qed.
Print Assumptions C11_init_accepts.

(** every read through the map returns the slice of the rearranged file:
    later records win, never-written positions read as zero *)
Theorem C11_pread_is_rearranged : forall recs trailer rd fuel oracle fm pos len,
  stream_ok recs trailer ->
  reads_stream rd (encode recs ++ trailer) -> (length recs < fuel)%nat ->
  flatmap_init_file rd fuel oracle = OpenFlat (InitDone ST_OK fm) ->
  pos + len <= OFF_LIMIT ->
  flatmap_pread rd (Some fm) (Z.of_N pos) len = POk (slice (rearrange recs) pos len).
Proof. exact pread_is_rearranged. Qed.
Print Assumptions C11_pread_is_rearranged.

(** [flatmap_get_chunk] (repaired code) delivers the same bytes as
    [flatmap_pread], owning at most one buffer *)
Theorem C11_chunk_eq_pread : forall recs trailer rd gc fuel oracle fm pos len,
  stream_ok recs trailer ->
  reads_stream rd (encode recs ++ trailer) -> (length recs < fuel)%nat ->
  (forall p n, gc p n = rd p n) ->
  flatmap_init_file rd fuel oracle = OpenFlat (InitDone ST_OK fm) ->
  pos + len <= OFF_LIMIT ->
  exists n, n <= 1 /\
    flatmap_get_chunk rd gc (Some fm) (Z.of_N pos) len true
    = (flatmap_pread rd (Some fm) (Z.of_N pos) len, n) /\
    flatmap_pread rd (Some fm) (Z.of_N pos) len = POk (slice (rearrange recs) pos len).
Proof. exact chunk_eq_pread. Qed.
Print Assumptions C11_chunk_eq_pread.

(** neither function indexes outside the offset array, dereferences past the
    range array or overflows a file offset - also when the file cache fails
    reads at will ([rd'], [gc'] arbitrary) and the chunk buffer cannot be
    allocated *)
Theorem C11_chunk_no_oob : forall recs trailer rd fuel oracle fm rd' gc' pos len ok why,
  stream_ok recs trailer ->
  reads_stream rd (encode recs ++ trailer) -> (length recs < fuel)%nat ->
  flatmap_init_file rd fuel oracle = OpenFlat (InitDone ST_OK fm) ->
  pos + len <= OFF_LIMIT ->
  fst (flatmap_get_chunk rd' gc' (Some fm) (Z.of_N pos) len ok) <> PUB why /\
  flatmap_pread rd' (Some fm) (Z.of_N pos) len <> PUB why.
Proof. exact chunk_no_ub. Qed.
Print Assumptions C11_chunk_no_oob.

(** a failed [flatmap_get_chunk] owns no buffer (repaired code), for every
    map, file cache and request *)
Theorem C11_chunk_balance : forall rd gc fm pos len ok,
  match flatmap_get_chunk rd gc fm pos len ok with
  | (POk _, n) => n <= 1
  | (_, n) => n = 0
  end.
Proof. exact chunk_balance. Qed.
Print Assumptions C11_chunk_balance.

(** records that carry the bytes of a plain file - in any order and
    granularity, repeated, overlapping, all-zero stretches left out -
    rearrange to that file (zero past its end) ... *)
Theorem C11_rearrange_segmentation : forall b recs,
  segmentation_of b recs -> forall x, rearrange recs x = plain_file b x.
Proof. exact rearrange_segmentation. Qed.
Print Assumptions C11_rearrange_segmentation.

(** ... so reading the flattened file through the dispatch function equals
    reading the plain file through the same function *)
Theorem C11_plain_equiv : forall b recs trailer rd fuel oracle fm pos len,
  segmentation_of b recs ->
  stream_ok recs trailer ->
  reads_stream rd (encode recs ++ trailer) -> (length recs < fuel)%nat ->
  flatmap_init_file rd fuel oracle = OpenFlat (InitDone ST_OK fm) ->
  pos + len <= OFF_LIMIT - 4096 ->
  flatmap_pread rd (Some fm) (Z.of_N pos) len
  = flatmap_pread (file_rd {| pf_bytes := b; pf_fail := None; pf_failst := 0 |}) None (Z.of_N pos) len.
Proof. exact plain_equiv. Qed.
Print Assumptions C11_plain_equiv.

(** the hypotheses on the file cache are satisfiable: the file used by the
    correspondence run is one *)
Theorem C11_file_is_cache : forall b,
  N.of_nat (length b) <= OFF_LIMIT - 4096 ->
  reads_stream (file_rd {| pf_bytes := b; pf_fail := None; pf_failst := 0 |}) b.
Proof. exact file_rd_reads_stream. Qed.
Print Assumptions C11_file_is_cache.

(** split sets: for non-empty pairwise-disjoint windows the file that serves
    a page frame is the one whose window contains it ... *)
Theorem C11_split_owner : forall files pfn m,
  wf_set files -> (owner files pfn = Some m <-> In m files /\ in_window m pfn).
Proof. exact owner_spec. Qed.
Print Assumptions C11_split_owner.

(** ... hence passing the files in any order yields the same PFN -> file
    function *)
Theorem C11_split_any_order : forall files files' pfn,
  wf_set files -> Permutation files files' -> owner files pfn = owner files' pfn.
Proof. exact split_any_order. Qed.
Print Assumptions C11_split_any_order.

(** [flatmap_file_init] on *any* file (malformed, truncated, hostile): the
    header scan ends within [init_fuel] = length/17 + 2 iterations, reaches no
    undefined behaviour, and returns OK, SYSTEM (allocation), CORRUPT or the
    status of a failed read *)
Theorem C11_init_bounded : forall f oracle,
  Forall (fun x => x < 256) (pf_bytes f) ->
  let flen := N.of_nat (length (pf_bytes f)) in
  flen + 4096 <= 17 * (METH_LIMIT - 2) ->
  file_init (file_rd f) (init_fuel flen) oracle = InitNoMap \/
  exists st fm, file_init (file_rd f) (init_fuel flen) oracle = InitDone st fm /\
                init_status (file_rd f) st.
Proof. exact init_bounded. Qed.
Print Assumptions C11_init_bounded.

(** a segment header with a negative offset (other than the end marker), a
    non-positive size or a size that does not fit the file offset is rejected
    with KDUMP_ERR_CORRUPT (repaired code) *)
Theorem C11_init_malformed_corrupt : forall rd fuel oracle m offs cap segidx flatpos hdr,
  rd flatpos 16 = RdOk hdr ->
  let pos := s64 (be64 (firstn 8 hdr)) in
  let size := s64 (be64 (skipn 8 hdr)) in
  (pos <> -1)%Z ->
  (pos < 0 \/ size <= 0 \/ OFF_MAX - flatpos - HDR_SIZE < size)%Z ->
  init_loop rd (S fuel) oracle m offs cap segidx flatpos
  = InitDone ST_CORRUPT {| fm_map := m; fm_offs := offs |}.
Proof. exact init_loop_malformed. Qed.
Print Assumptions C11_init_malformed_corrupt.

(** * SADUMP disk sets (sadump.c): the extent array and the extent walk.

    [_partial]: these theorems cover how [open_common] files the page-data
    extent of each disk under its disk number and how [sadump_read_page] walks
    the extents; they do not cover the parsing of the SADUMP headers or the
    computation of a page's position in the set's page data from the bitmap
    (both are exercised end to end by engine flat-e2e only). *)

(** a position in the page data of the set (the concatenation of the disks'
    data areas in disk order) is resolved to the disk that holds that byte,
    at the file position of that byte - for every list of data areas, every
    position *)
Theorem C11_diskset_walk_is_concat_partial : forall ds f0 pos,
  Forall sdisk_ok ds ->
  (0 <= pos < Z.of_nat (length (set_data ds)))%Z -> (pos <= OFF_MAX)%Z ->
  exists k d fp,
    nth_error ds k = Some d /\
    walk (extents_of ds f0) pos = WAt (f0 + N.of_nat k) fp /\ (0 <= fp)%Z /\
    nth (Z.to_nat fp) (s_file d) 0 = nth (Z.to_nat pos) (set_data ds) 0.
Proof. exact walk_concat. Qed.
Print Assumptions C11_diskset_walk_is_concat_partial.

(** past the data of the last disk the answer is KDUMP_ERR_NODATA *)
Theorem C11_diskset_walk_past_end_partial : forall ds f0 pos,
  ds <> [] -> Forall sdisk_ok ds ->
  (Z.of_nat (length (set_data ds)) <= pos <= OFF_MAX)%Z ->
  walk (extents_of ds f0) pos = WNoData.
Proof. exact walk_past_end. Qed.
Print Assumptions C11_diskset_walk_past_end_partial.

(** a page never straddles two disks: with data areas made of whole pages,
    all bytes of the page at a page-aligned position come from the same file,
    contiguously (so the single [fcache_pread] of a page is right) *)
Theorem C11_diskset_page_partial : forall P exts pos f fp i,
  (0 < P)%Z -> Forall (ext_ok P) exts -> (0 <= pos)%Z -> (P | pos)%Z -> (0 <= i < P)%Z ->
  (pos + i <= OFF_MAX)%Z ->
  walk exts pos = WAt f fp -> walk exts (pos + i) = WAt f (fp + i)%Z.
Proof. exact walk_page. Qed.
Print Assumptions C11_diskset_page_partial.

(** the extent array [open_common] builds from the headers of the disks is the
    one the two theorems above speak about *)
Theorem C11_diskset_assemble_partial : forall ds,
  complete_set (headers_of ds 0) /\ assemble (headers_of ds 0) = Some (extents_of ds 0).
Proof. exact assemble_in_order. Qed.
Print Assumptions C11_diskset_assemble_partial.

(** the files of a complete disk set (disk numbers 1..n, each once) may be
    passed in any order: every position resolves to the same disk number and
    the same position in that disk's file *)
Theorem C11_diskset_any_order_partial : forall files files' pos,
  complete_set files -> Permutation files files' -> (0 <= pos)%Z ->
  locate files pos = locate files' pos.
Proof. exact locate_any_order. Qed.
Print Assumptions C11_diskset_any_order_partial.

(** [sadump_probe] accepts a consistent disk set - same block size, system id,
    disk-set id and time stamp everywhere, disk #1's volume table listing
    every disk's volume id, disk numbers 1..n - in EVERY order of the files,
    and files the extents exactly as the theorems above assume ([assemble]).
    The model covers the checks of [open_common] / [process_vol_id] /
    [init_disk_set] on header *fields*; reading the fields from the file bytes
    is exercised end to end only (engine flat-e2e compares the status of
    [kdump_open_fdset] with [probe_set] for every set and order it builds). *)
Theorem C11_diskset_accepted_any_order : forall hs hs',
  consistent_set hs -> Permutation hs hs' ->
  exists exts, probe_set false hs' = inl exts /\ assemble (List.map disk_of hs') = Some exts.
Proof. exact consistent_accepted_any_order. Qed.
Print Assumptions C11_diskset_accepted_any_order.

(** the off-by-one variant of [init_disk_set] (seeded change C11-c2:
    [check_vol_id(.., i)] instead of [i + 1]) refutes that statement: a
    consistent three-disk set with distinct volume ids is accepted in disk
    order and refused with KDUMP_ERR_CORRUPT when disk #1 comes last *)
Definition ex_hdr (num vol : N) (tab : list N) : hdr :=
  {| h_num := num; h_pos := 4096; h_len := 8192; h_bs := 4096; h_sys := 7; h_set := 8; h_time := 9;
     h_vol := vol; h_disks := (if (num =? 1)%N then 3 else 0)%N; h_table := tab |}.
Definition ex_set : list hdr := [ex_hdr 1 11 [11; 22; 33]; ex_hdr 2 22 []; ex_hdr 3 33 []]%N.
Definition ex_set_231 : list hdr := [ex_hdr 2 22 []; ex_hdr 3 33 []; ex_hdr 1 11 [11; 22; 33]]%N.

Example C11_diskset_offbyone_refuted :
  consistent_set ex_set /\ Permutation ex_set ex_set_231 /\
  (exists exts, probe_set true ex_set = inl exts) /\
  probe_set true ex_set_231 = inr ST_CORRUPT /\
  (exists exts, probe_set false ex_set_231 = inl exts).
Proof.
  split.
  { split.
    - split.
      + cbn. repeat constructor; cbn [In]; intuition discriminate.
      + intros d [<-|[<-|[<-|[]]]]; cbn; split; discriminate.
    - exists 4096%N, 7%N, 8%N, 9%N, [11; 22; 33]%N. split; [reflexivity|].
      intros h [<-|[<-|[<-|[]]]]; cbn; repeat split; try reflexivity; try discriminate. }
  split.
  { unfold ex_set, ex_set_231.
    apply (Permutation_cons_app [ex_hdr 2 22 []; ex_hdr 3 33 []] [] (ex_hdr 1 11 [11; 22; 33])%N).
    rewrite app_nil_r. apply Permutation_refl. }
  split; [eexists; vm_compute; reflexivity|].
  split; [vm_compute; reflexivity|].
  eexists; vm_compute; reflexivity.
Qed.

(** Round trip for a whole disk set (model level, composing the theorems
    above): take disks [ds] whose data areas lie in their files, headers [hs]
    that describe them consistently, and pass the files in ANY order [hs'].
    Then [sadump_probe] accepts the set, and for every position of the set's
    page data (the concatenation of the data areas in disk order) the extent
    walk of [sadump_read_page] lands in the file - identified through its
    index in the order passed - of the disk that holds that byte, at the file
    position of that byte. *)
Theorem C11_diskset_roundtrip : forall ds hs hs' pos,
  Forall sdisk_ok ds ->
  List.map disk_of hs = headers_of ds 0 ->
  consistent_set hs -> Permutation hs hs' ->
  (0 <= pos < Z.of_nat (length (set_data ds)))%Z -> (pos <= OFF_MAX)%Z ->
  exists exts f fp k d h,
    probe_set false hs' = inl exts /\
    walk exts pos = WAt f fp /\
    nth_error hs' (N.to_nat f) = Some h /\ h_num h = N.of_nat (S k) /\
    nth_error ds k = Some d /\ (0 <= fp)%Z /\
    nth (Z.to_nat fp) (s_file d) 0 = nth (Z.to_nat pos) (set_data ds) 0.
Proof. exact diskset_roundtrip. Qed.
Print Assumptions C11_diskset_roundtrip.

(** its hypotheses are satisfiable: two disks, data areas [1;2] and [3] *)
Example C11_diskset_roundtrip_nonvacuous :
  let ds := [ {| s_file := [9; 9; 1; 2]; s_pos := 2; s_area := [1; 2] |};
              {| s_file := [7; 3; 8]; s_pos := 1; s_area := [3] |} ] in
  let mk num pos len vol tab :=
    {| h_num := num; h_pos := pos; h_len := len; h_bs := 4096; h_sys := 7; h_set := 8; h_time := 9;
       h_vol := vol; h_disks := (if (num =? 1)%N then 2 else 0)%N; h_table := tab |} in
  let hs := [mk 1%N 2%Z 2%Z 11%N [11; 22]%N; mk 2%N 1%Z 1%Z 22%N []] in
  Forall sdisk_ok ds /\ List.map disk_of hs = headers_of ds 0 /\ consistent_set hs /\
  set_data ds = [1; 2; 3].
Proof.
  split.
  { repeat constructor; cbn; try (unfold OFF_MAX; lia);
      intros j Hj; cbn in Hj; destruct j as [|[|j]]; cbn; try reflexivity; lia. }
  split; [reflexivity|]. split; [|reflexivity].
  split.
  - split.
    + cbn. repeat constructor; cbn [In]; intuition discriminate.
    + intros d [<-|[<-|[]]]; cbn; split; discriminate.
  - exists 4096%N, 7%N, 8%N, 9%N, [11; 22]%N. split; [reflexivity|].
    intros h [<-|[<-|[]]]; cbn; repeat split; try reflexivity; try discriminate.
Qed.

(** non-vacuity: three disks (the middle one without data), passed as 3,1,2:
    position 2 is the first byte of disk 3 - the case [pos >= data_len] vs
    [pos > data_len] decides *)
Example C11_diskset_nonvacuous :
  let files := [ {| d_num := 3; d_pos := 4096; d_len := 3 |};
                 {| d_num := 1; d_pos := 12288; d_len := 2 |};
                 {| d_num := 2; d_pos := 4096; d_len := 0 |} ] in
  complete_set files /\
  List.map (locate files) [0; 1; 2; 4; 5]%Z
  = [Some (1%N, 12288%Z); Some (1%N, 12289%Z); Some (3%N, 4096%Z); Some (3%N, 4098%Z); None].
Proof.
  cbv zeta. split; [|vm_compute; reflexivity].
  split.
  - cbn [List.map d_num]. repeat constructor; cbn [In]; intuition discriminate.
  - intros d [<-|[<-|[<-|[]]]]; cbn [d_num length]; split; discriminate.
Qed.

(** * Non-vacuity and the pinned tree's defect *)

(** three records: a stale one, one that overwrites part of it, one far away;
    bytes 0..1 and 10..99 are holes *)
Definition ex_recs : list rec :=
  [ {| r_pos := 2; r_data := [1; 2; 3; 4; 5; 6] |};
    {| r_pos := 4; r_data := [77; 88] |};
    {| r_pos := 100; r_data := [9] |} ].
Definition ex_file : pfile :=
  {| pf_bytes := encode ex_recs; pf_fail := None; pf_failst := 0 |}.
Definition ex_open : open_res :=
  flatmap_init_file (file_rd ex_file) (init_fuel (N.of_nat (length (pf_bytes ex_file)))) [].

Example C11_nonvacuous :
  N.of_nat (length (encode ex_recs ++ [])) <= OFF_LIMIT - 4096 /\
  N.of_nat (length ex_recs) <= METH_LIMIT /\
  wf_set [ {| start_pfn := 0; end_pfn := 5; fidx := 1 |}; {| start_pfn := 5; end_pfn := 9; fidx := 0 |} ] /\
  match ex_open with
  | OpenFlat (InitDone st fm) =>
      st = ST_OK /\
      flatmap_pread (file_rd ex_file) (Some fm) 0 12 = POk [0; 0; 1; 2; 77; 88; 5; 6; 0; 0; 0; 0] /\
      flatmap_get_chunk (file_rd ex_file) (file_rd ex_file) (Some fm) 3 4 true = (POk [2; 77; 88; 5], 1) /\
      flatmap_get_chunk (file_rd ex_file) (file_rd ex_file) (Some fm) 4 2 true = (POk [77; 88], 0)
  | _ => False
  end.
Proof.
  split; [vm_compute; discriminate|]. split; [vm_compute; discriminate|].
  split; [apply wf_setb_sound; vm_compute; reflexivity|].
  vm_compute. repeat split.
Qed.

(** The function as it stands in the pinned tree (DESIGN section 10, item 6):
    a chunk request inside a hole indexes [offs[-1]]; with no records the
    range pointer is dereferenced past the (empty) array; the buffer stays
    allocated when the fallback read fails. *)
Example C11_chunk_pinned_refuted :
  (match ex_open with
   | OpenFlat (InitDone _ fm) =>
       fst (get_chunk_flat_pinned (file_rd ex_file) (file_rd ex_file) fm 20 4 true) = PUB UB_OOB_OFFS
   | _ => False
   end) /\
  fst (get_chunk_flat_pinned (file_rd ex_file) (file_rd ex_file) {| fm_map := []; fm_offs := [] |} 0 8 true)
  = PUB UB_OOB_RANGE /\
  (match ex_open with
   | OpenFlat (InitDone _ fm) =>
       let failing := {| pf_bytes := encode ex_recs; pf_fail := Some (4134, 4136)%Z; pf_failst := 1 |} in
       get_chunk_flat_pinned (file_rd failing) (file_rd failing) fm 3 4 true = (PErr ST_SYSTEM, 1) /\
       get_chunk_flat (file_rd failing) (file_rd failing) fm 3 4 true = (PErr ST_SYSTEM, 0)
   | _ => False
   end).
Proof. vm_compute. repeat split. Qed.
