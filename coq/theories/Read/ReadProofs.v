(** Proofs about the model of read.c (C12). *)
From Coq Require Import NArith ZArith List Bool Arith Lia.
From KdV Require Import Base.Wrap64 Read.ReadModel Read.ReadSpec.
Import ListNotations.
Local Open Scope N_scope.

(** * [addr & -page_size] for a power of two *)

Lemma shiftl_ones_sub sh : sh <= 64 ->
  N.shiftl (N.ones (64 - sh)) sh = 2 ^ 64 - 2 ^ sh.
Proof.
  intro H. rewrite N.shiftl_mul_pow2, N.ones_equiv, N.pred_sub, N.mul_sub_distr_r.
  rewrite <- N.pow_add_r. replace (64 - sh + sh) with 64 by lia. now rewrite N.mul_1_l.
Qed.

Lemma land_neg_pow2 a sh : sh <= 64 -> a < 2 ^ 64 ->
  N.land a (2 ^ 64 - 2 ^ sh) = a - a mod 2 ^ sh.
Proof.
  intros Hsh Ha.
  rewrite <- shiftl_ones_sub by assumption.
  transitivity (N.ldiff a (N.ones sh)).
  - apply N.bits_inj. intro i. rewrite N.land_spec, N.ldiff_spec.
    destruct (N.ltb_spec i sh) as [Hlt|Hge].
    + rewrite N.shiftl_spec_low by assumption. rewrite N.ones_spec_low by assumption.
      now rewrite !andb_false_r.
    + rewrite N.shiftl_spec_high' by assumption.
      rewrite (N.ones_spec_high sh i) by assumption. rewrite andb_true_r.
      destruct (N.ltb_spec (i - sh) (64 - sh)) as [Hin|Hout].
      * rewrite N.ones_spec_low by assumption. now rewrite andb_true_r.
      * rewrite N.ones_spec_high by assumption. rewrite andb_false_r.
        symmetry.
        destruct (N.eq_dec a 0) as [->|Hnz]; [apply N.bits_0|].
        apply N.bits_above_log2. apply N.log2_lt_pow2; [lia|].
        apply N.lt_le_trans with (2 ^ 64); [assumption|].
        apply N.pow_le_mono_r; lia.
  - rewrite N.ldiff_ones_r, N.shiftl_mul_pow2, N.shiftr_div_pow2.
    pose proof (N.div_mod a (2 ^ sh)) as Hdm.
    assert (2 ^ sh <> 0) by (apply N.pow_nonzero; discriminate).
    specialize (Hdm H).
    remember (2 ^ sh) as p. remember (a / p) as q. remember (a mod p) as r.
    clear - Hdm. rewrite Hdm. rewrite N.add_sub. apply N.mul_comm.
Qed.

(** * Buffers *)

Definition splice (buf : list N) (pos : nat) (bs : list N) : list N :=
  firstn pos buf ++ bs ++ skipn (pos + length bs) buf.

Lemma wr_splice buf pos bs : (pos + length bs <= length buf)%nat ->
  wr buf pos bs = Some (splice buf pos bs).
Proof.
  intro H. unfold wr. destruct (Nat.leb_spec (pos + length bs) (length buf)); [reflexivity|lia].
Qed.

Lemma splice_nil buf pos : splice buf pos [] = buf.
Proof. unfold splice. simpl. rewrite Nat.add_0_r. apply firstn_skipn. Qed.

Lemma splice_length buf pos bs : (pos + length bs <= length buf)%nat ->
  length (splice buf pos bs) = length buf.
Proof.
  intro H. unfold splice. rewrite !app_length, firstn_length, skipn_length. lia.
Qed.

Lemma skipn_skipn' {A} m : forall n (l : list A), skipn n (skipn m l) = skipn (m + n) l.
Proof.
  induction m as [|m IH]; intros n l; [reflexivity|].
  destruct l; simpl; [now rewrite skipn_nil|apply IH].
Qed.

Lemma splice_splice buf pos b1 b2 :
  (pos + length b1 + length b2 <= length buf)%nat ->
  splice (splice buf pos b1) (pos + length b1) b2 = splice buf pos (b1 ++ b2).
Proof.
  intro H. unfold splice.
  assert (Hl : length (firstn pos buf) = pos) by (rewrite firstn_length; lia).
  rewrite (app_assoc (firstn pos buf) b1).
  rewrite firstn_app.
  rewrite firstn_all2 by (rewrite app_length; lia).
  replace (pos + length b1 - length (firstn pos buf ++ b1))%nat with 0%nat
    by (rewrite app_length; lia).
  cbn [firstn]. rewrite app_nil_r.
  rewrite skipn_app.
  rewrite (skipn_all2 (firstn pos buf ++ b1)) by (rewrite app_length; lia).
  replace (pos + length b1 + length b2 - length (firstn pos buf ++ b1))%nat with (length b2)
    by (rewrite app_length; lia).
  rewrite skipn_skipn'. cbn [app].
  rewrite <- !app_assoc. rewrite app_length.
  now rewrite Nat.add_assoc.
Qed.

Definition page_events (pages : list N) : list ev :=
  flat_map (fun pa => [EvGet pa; EvPut pa]) pages.

Lemma open_pages_app e1 : forall e2 held,
  open_pages (e1 ++ e2) held = open_pages e2 (open_pages e1 held).
Proof.
  induction e1 as [|e e1 IH]; intros e2 held; [reflexivity|].
  destruct e; simpl; apply IH.
Qed.

Lemma open_pages_page_events pages : open_pages (page_events pages) [] = [].
Proof.
  induction pages as [|pa pages IH]; [reflexivity|].
  simpl. destruct (N.eq_dec pa pa); [exact IH|contradiction].
Qed.

Lemma outstanding_app e1 : forall e2 live,
  outstanding (e1 ++ e2) live = outstanding e2 (outstanding e1 live).
Proof.
  induction e1 as [|e e1 IH]; intros e2 live; [reflexivity|].
  destruct e; simpl; apply IH.
Qed.

Definition ids (str : option (nat * list N)) : list nat :=
  match str with Some (id, _) => [id] | None => [] end.

Lemma remove_self id : remove Nat.eq_dec id [id] = [].
Proof. simpl. destruct (Nat.eq_dec id id); [reflexivity|contradiction]. Qed.

Lemma memchr0_some chunk : forall i, memchr0 chunk = Some i ->
  nth_error chunk i = Some 0 /\
  forall j b, nth_error (firstn i chunk) j = Some b -> b <> 0.
Proof.
  induction chunk as [|c chunk IH]; intros i H; simpl in H; [discriminate|].
  destruct (N.eqb_spec c 0) as [->|Hc].
  - inversion H; subst. split; [reflexivity|]. intros j b Hj. destruct j; discriminate.
  - destruct (memchr0 chunk) as [i'|] eqn:E; [|discriminate]. inversion H; subst.
    destruct (IH i' eq_refl) as [H1 H2]. split; [exact H1|].
    intros [|j] b Hj; simpl in Hj.
    + inversion Hj; subst; assumption.
    + eapply H2; eassumption.
Qed.

Lemma memchr0_none chunk : memchr0 chunk = None ->
  forall j b, nth_error chunk j = Some b -> b <> 0.
Proof.
  induction chunk as [|c chunk IH]; intros H j b Hj; [destruct j; discriminate|].
  simpl in H. destruct (N.eqb_spec c 0) as [->|Hc]; [discriminate|].
  destruct (memchr0 chunk) eqn:E; [discriminate|].
  destruct j; simpl in Hj; [inversion Hj; subst; assumption|]. eapply IH; eauto.
Qed.

Lemma memchr0_lt chunk : forall i, memchr0 chunk = Some i -> (i < length chunk)%nat.
Proof.
  intros i H. destruct (memchr0_some chunk i H) as [Hn _].
  apply nth_error_Some. congruence.
Qed.

Lemma nth_error_skipn {A} n : forall (l : list A) j, nth_error (skipn n l) j = nth_error l (n + j).
Proof.
  induction n as [|n IH]; intros l j; [reflexivity|].
  destruct l; simpl; [destruct j; reflexivity|apply IH].
Qed.

Lemma nth_error_firstn_lt {A} (l : list A) : forall n j,
  (j < n)%nat -> nth_error (firstn n l) j = nth_error l j.
Proof.
  induction l as [|x l IH]; intros n j H; [destruct n, j; reflexivity|].
  destruct n; [lia|]. destruct j; [reflexivity|]. simpl. apply IH. lia.
Qed.

Lemma nth_error_ext' {A} (l1 : list A) : forall l2,
  (forall i, nth_error l1 i = nth_error l2 i) -> l1 = l2.
Proof.
  induction l1 as [|x l1 IH]; intros [|y l2] H.
  - reflexivity.
  - specialize (H 0%nat). discriminate.
  - specialize (H 0%nat). discriminate.
  - pose proof (H 0%nat) as H0. simpl in H0. inversion H0; subst. f_equal.
    apply IH. intro i. exact (H (S i)).
Qed.

Lemma leb_add1 n : (n <=? n + 1)%nat = true.
Proof. apply Nat.leb_le. lia. Qed.
Lemma ltb_add1 n : (n <? n + 1)%nat = true.
Proof. apply Nat.ltb_lt. lia. Qed.

Section Proofs.
Variable page_size : N.
Variable get_page : N -> gp.
Variable sh : N.
Hypothesis Hsh : sh < 64.
Hypothesis Hps : page_size = 2 ^ sh.
Hypothesis Hpages : forall a d, get_page a = PageOk d -> length d = N.to_nat page_size.
Hypothesis Hfail : forall a st, get_page a = PageErr st -> st <> KDUMP_OK.

Notation page_align := (page_align page_size).
Notation page_of := (page_of page_size).
Notation mem := (mem page_size get_page).
Notation fail_status := (fail_status page_size get_page).
Notation prefix_len := (prefix_len page_size get_page).
Notation prefix_bytes := (prefix_bytes page_size get_page).
Notation prefix_pw := (prefix_pw page_size get_page).

Lemma ps_pos : 0 < page_size.
Proof. rewrite Hps. apply N.neq_0_lt_0. apply N.pow_nonzero. discriminate. Qed.

Lemma ps_lt_W : page_size < W.
Proof. rewrite Hps, W_val. change 18446744073709551616 with (2 ^ 64). apply N.pow_lt_mono_r; lia. Qed.

Lemma page_align_of a : a < W -> page_align a = page_of a.
Proof.
  intro Ha. unfold ReadModel.page_align, ReadSpec.page_of.
  assert (Hw : wsub 0 page_size = 2 ^ 64 - 2 ^ sh).
  { unfold wsub, w. pose proof ps_pos. pose proof ps_lt_W.
    rewrite (N.mod_small page_size) by assumption.
    rewrite N.mod_small by lia. rewrite W_val, Hps. reflexivity. }
  rewrite Hw, Hps. apply land_neg_pow2; [lia|]. now rewrite W_val in Ha.
Qed.

(** an address as (page, offset) *)
Lemma split_addr a : exists pa off, a = pa + off /\ pa mod page_size = 0 /\ off < page_size /\
  pa = page_of a /\ off = a mod page_size.
Proof.
  pose proof ps_pos as Hp.
  exists (page_of a), (a mod page_size). unfold ReadSpec.page_of.
  pose proof (N.mod_upper_bound a page_size ltac:(lia)) as Hub.
  pose proof (N.mod_le a page_size ltac:(lia)) as Hle.
  repeat split; auto; try lia.
  assert (E : a - a mod page_size = (a / page_size) * page_size).
  { pose proof (N.div_mod a page_size ltac:(lia)) as H. rewrite N.mul_comm in H.
    remember (a / page_size * page_size) as X. remember (a mod page_size) as R. lia. }
  rewrite E. apply N.mod_mul. lia.
Qed.

Lemma mod_page pa off : pa mod page_size = 0 -> off < page_size ->
  (pa + off) mod page_size = off /\ page_of (pa + off) = pa.
Proof.
  intros Hpa Hoff. pose proof ps_pos as Hp.
  assert (Hm : (pa + off) mod page_size = off).
  { apply N.mod_divide in Hpa; [|lia]. destruct Hpa as [q ->].
    rewrite N.add_comm, N.mod_add by lia. now apply N.mod_small. }
  split; [exact Hm|]. unfold ReadSpec.page_of. rewrite Hm. lia.
Qed.

(** * Byte-at-a-time specification versus page-at-a-time computation *)

Lemma skipn_nth {A} (d : list A) : forall off b,
  nth_error d off = Some b -> skipn off d = b :: skipn (S off) d.
Proof.
  induction d as [|x d IH]; intros [|off] b H; simpl in *; try discriminate.
  - now inversion H.
  - now apply IH.
Qed.

Lemma mem_in_page pa off d :
  pa mod page_size = 0 -> off < page_size -> get_page pa = PageOk d ->
  mem (pa + off) = nth_error d (N.to_nat off).
Proof.
  intros Hpa Hoff Hg. unfold ReadSpec.mem.
  destruct (mod_page pa off Hpa Hoff) as [-> ->]. now rewrite Hg.
Qed.

Lemma mem_fail pa off st :
  pa mod page_size = 0 -> off < page_size -> get_page pa = PageErr st ->
  mem (pa + off) = None /\ fail_status (pa + off) = Some st.
Proof.
  intros Hpa Hoff Hg. unfold ReadSpec.mem, ReadSpec.fail_status.
  destruct (mod_page pa off Hpa Hoff) as [_ ->]. now rewrite Hg.
Qed.

Lemma prefix_len_bytes a n : prefix_len a n = length (prefix_bytes a n).
Proof.
  revert a. induction n as [|n IH]; intro a; simpl; [reflexivity|].
  destruct (mem a); simpl; [now rewrite IH|reflexivity].
Qed.

Lemma prefix_len_le n : forall a, (prefix_len a n <= n)%nat.
Proof.
  induction n as [|n IH]; intro a; simpl; [lia|].
  destruct (mem a); [|lia]. specialize (IH (a + 1)). lia.
Qed.

Lemma prefix_bytes_in_page pa d :
  pa mod page_size = 0 -> get_page pa = PageOk d ->
  forall m off k, off + N.of_nat m <= page_size ->
  prefix_bytes (pa + off) (m + k) =
  firstn m (skipn (N.to_nat off) d) ++ prefix_bytes (pa + off + N.of_nat m) k.
Proof.
  intros Hpa Hg. induction m as [|m IH]; intros off k Hle.
  - simpl. now rewrite N.add_0_r.
  - assert (Hoff : off < page_size) by lia.
    pose proof (Hpages _ _ Hg) as Hl.
    destruct (nth_error d (N.to_nat off)) as [b|] eqn:Hn.
    2:{ apply nth_error_None in Hn. lia. }
    cbn [Nat.add ReadSpec.prefix_bytes]. rewrite (mem_in_page pa off d Hpa Hoff Hg), Hn.
    rewrite (skipn_nth _ _ _ Hn). cbn [firstn app]. f_equal.
    replace (pa + off + 1) with (pa + (off + 1)) by lia.
    rewrite IH by lia.
    replace (N.to_nat (off + 1)) with (S (N.to_nat off)) by lia.
    f_equal. f_equal. lia.
Qed.

Lemma prefix_bytes_fail pa off st n :
  pa mod page_size = 0 -> off < page_size -> get_page pa = PageErr st ->
  prefix_bytes (pa + off) n = [].
Proof.
  intros Hpa Hoff Hg. destruct n; simpl; [reflexivity|].
  now rewrite (proj1 (mem_fail pa off st Hpa Hoff Hg)).
Qed.

(** what stops the prefix: nothing, or the status of the first page that fails *)
Definition stop_of (a : N) (n : nat) : option Z :=
  let k := prefix_len a n in
  if (k =? n)%nat then None else fail_status (a + N.of_nat k).

Lemma prefix_pw_spec fuel : forall a n,
  (N.to_nat n <= fuel)%nat ->
  prefix_pw fuel a n = (prefix_bytes a (N.to_nat n), stop_of a (N.to_nat n)).
Proof.
  induction fuel as [|fuel IH]; intros a n Hf.
  - assert (n = 0) by lia. subst n. reflexivity.
  - cbn [ReadSpec.prefix_pw]. destruct (N.eqb_spec n 0) as [->|Hn]; [reflexivity|].
    destruct (split_addr a) as (pa & off & Ha & Hpa & Hoff & Hpo & Hom).
    rewrite <- Hpo, <- Hom.
    destruct (get_page pa) as [d|st] eqn:Hg.
    + set (m := N.min n (page_size - off)).
      assert (Hm1 : 1 <= m) by (unfold m; lia).
      assert (Hm2 : m <= n) by (unfold m; lia).
      assert (Hm3 : off + m <= page_size) by (unfold m; lia).
      rewrite IH by lia.
      assert (En : N.to_nat n = (N.to_nat m + N.to_nat (n - m))%nat) by lia.
      assert (Hpb : prefix_bytes a (N.to_nat n) =
                    firstn (N.to_nat m) (skipn (N.to_nat off) d)
                    ++ prefix_bytes (a + m) (N.to_nat (n - m))).
      { rewrite En, Ha. rewrite (prefix_bytes_in_page pa d Hpa Hg) by lia.
        now rewrite N2Nat.id. }
      f_equal; [symmetry; exact Hpb|].
      unfold stop_of. rewrite !prefix_len_bytes, Hpb, app_length.
      assert (Hfl : length (firstn (N.to_nat m) (skipn (N.to_nat off) d)) = N.to_nat m).
      { rewrite firstn_length, skipn_length, (Hpages _ _ Hg). lia. }
      rewrite Hfl.
      set (k' := length (prefix_bytes (a + m) (N.to_nat (n - m)))).
      destruct (Nat.eqb_spec k' (N.to_nat (n - m))) as [Hk|Hk];
        destruct (Nat.eqb_spec (N.to_nat m + k') (N.to_nat n)) as [Hk2|Hk2]; try lia; try reflexivity.
      f_equal. lia.
    + rewrite Ha, (prefix_bytes_fail pa off st _ Hpa Hoff Hg).
      f_equal. unfold stop_of. rewrite prefix_len_bytes, (prefix_bytes_fail pa off st _ Hpa Hoff Hg).
      cbn [length N.of_nat]. destruct (Nat.eqb_spec 0 (N.to_nat n)) as [H0|_]; [lia|].
      rewrite N.add_0_r. symmetry. apply (mem_fail pa off st Hpa Hoff Hg).
Qed.

(** * The loop of [read_locked] computes [prefix_pw] *)

Notation read_loop := (read_loop page_size get_page).

Lemma read_loop_pw fuel : forall a remain buf pos evs,
  a + remain <= W -> (pos + N.to_nat remain <= length buf)%nat ->
  (N.to_nat remain <= fuel)%nat ->
  exists pages,
    read_loop fuel a remain buf pos evs =
    inl (match snd (prefix_pw fuel a remain) with None => KDUMP_OK | Some st => st end,
         remain - N.of_nat (length (fst (prefix_pw fuel a remain))),
         splice buf pos (fst (prefix_pw fuel a remain)),
         evs ++ page_events pages).
Proof.
  induction fuel as [|fuel IH]; intros a remain buf pos evs Hw Hbuf Hf.
  - assert (remain = 0) by lia. subst remain. exists []. simpl.
    now rewrite splice_nil, app_nil_r.
  - cbn [ReadModel.read_loop ReadSpec.prefix_pw].
    destruct (N.eqb_spec remain 0) as [->|Hn].
    { exists []. simpl. now rewrite splice_nil, app_nil_r. }
    assert (Ha : a < W) by lia.
    rewrite (page_align_of a Ha).
    destruct (split_addr a) as (pa & off & Hapo & Hpa & Hoff & Hpo & Hom).
    rewrite <- Hpo, <- Hom.
    destruct (get_page pa) as [d|st] eqn:Hg.
    2:{ exists []. simpl. rewrite splice_nil, app_nil_r, N.sub_0_r. reflexivity. }
    pose proof ps_pos as Hpp.
    destruct (N.eqb_spec page_size 0) as [Hz|_]; [lia|].
    set (m := N.min remain (page_size - off)).
    assert (Em : (if remain <? page_size - off then remain else page_size - off) = m).
    { unfold m. destruct (N.ltb_spec remain (page_size - off)); lia. }
    rewrite Em.
    assert (Hm1 : 1 <= m) by (unfold m; lia).
    assert (Hm2 : m <= remain) by (unfold m; lia).
    assert (Hm3 : off + m <= page_size) by (unfold m; lia).
    pose proof (Hpages _ _ Hg) as Hdl.
    unfold rd. destruct (Nat.leb_spec (N.to_nat off + N.to_nat m) (length d)) as [_|Hbad]; [|lia].
    set (b1 := firstn (N.to_nat m) (skipn (N.to_nat off) d)).
    assert (Hb1 : length b1 = N.to_nat m).
    { unfold b1. rewrite firstn_length, skipn_length. lia. }
    rewrite wr_splice by lia.
    destruct (prefix_pw fuel (a + m) (remain - m)) as [rest stop] eqn:Epw.
    cbn [fst snd].
    destruct (N.eqb_spec (remain - m) 0) as [Hz|Hnz].
    + (* the request ends inside this page; the incremented address is not used again *)
      assert (Erest : rest = [] /\ stop = None).
      { rewrite Hz in Epw. destruct fuel; simpl in Epw; inversion Epw; auto. }
      destruct Erest as [-> ->].
      exists [pa]. rewrite Hz.
      replace (ReadModel.read_loop page_size get_page fuel (wadd a m) 0
                 (splice buf pos b1) (pos + N.to_nat m) (evs ++ [EvGet pa; EvPut pa]))
        with (@inl (Z * N * list N * list ev) rout
                (KDUMP_OK, 0, splice buf pos b1, evs ++ [EvGet pa; EvPut pa]))
        by (destruct fuel; reflexivity).
      rewrite app_nil_r. cbn [page_events flat_map app].
      replace (remain - N.of_nat (length b1)) with 0 by (rewrite Hb1; lia). reflexivity.
    + assert (Hlt : a + m < W) by lia.
      rewrite (wadd_small a m Hlt).
      destruct (IH (a + m) (remain - m) (splice buf pos b1) (pos + N.to_nat m)%nat
                   (evs ++ [EvGet pa; EvPut pa])) as (pages & Hrl).
      * lia.
      * rewrite splice_length by lia. lia.
      * lia.
      * exists (pa :: pages). rewrite Hrl, Epw. cbn [fst snd].
        assert (Hrl' : (length rest <= N.to_nat (remain - m))%nat).
        { pose proof (prefix_pw_spec fuel (a + m) (remain - m) ltac:(lia)) as Hs.
          rewrite Epw in Hs. inversion Hs as [[Hr Hst]].
          rewrite <- prefix_len_bytes. apply prefix_len_le. }
        f_equal. f_equal; [f_equal|].
        -- f_equal. rewrite app_length, Hb1. lia.
        -- rewrite <- Hb1. apply splice_splice. lia.
        -- rewrite <- app_assoc. reflexivity.
Qed.

(** * [read_locked] *)

Notation read_locked := (read_locked page_size get_page true).

Definition status_of (stop : option Z) : Z :=
  match stop with None => KDUMP_OK | Some st => st end.

Lemma read_exact a n buf :
  a + n <= W -> length buf = N.to_nat n ->
  exists r, read_locked (S (N.to_nat n)) a n buf = RDone r /\
    rr_plength r = N.of_nat (prefix_len a (N.to_nat n)) /\
    rr_buffer r = prefix_bytes a (N.to_nat n) ++ skipn (prefix_len a (N.to_nat n)) buf /\
    rr_status r = status_of (stop_of a (N.to_nat n)) /\
    open_pages (rr_events r) [] = [].
Proof.
  intros Hw Hl. unfold ReadModel.read_locked. cbn [negb].
  pose proof ps_pos as Hpp.
  destruct (N.eqb_spec page_size 0) as [Hz|_]; [lia|]. rewrite andb_false_r.
  destruct (read_loop_pw (S (N.to_nat n)) a n buf 0 []) as (pages & ->); try lia.
  rewrite prefix_pw_spec by lia. cbn [fst snd].
  eexists; split; [reflexivity|]. cbn [rr_plength rr_buffer rr_status rr_events].
  pose proof (prefix_len_le (N.to_nat n) a) as Hle.
  rewrite <- prefix_len_bytes.
  split; [lia|]. split; [|split].
  - unfold splice. cbn [firstn app Nat.add]. now rewrite <- prefix_len_bytes.
  - reflexivity.
  - cbn [app]. apply open_pages_page_events.
Qed.

(** ** Facts about the specification itself *)

Lemma mem_none_fail a : mem a = None -> exists st, fail_status a = Some st.
Proof.
  destruct (split_addr a) as (pa & off & Ha & Hpa & Hoff & Hpo & Hom).
  unfold ReadSpec.mem, ReadSpec.fail_status. rewrite <- Hpo, <- Hom.
  destruct (get_page pa) as [d|st] eqn:Hg; [|eauto].
  intro Hn. apply nth_error_None in Hn. pose proof (Hpages _ _ Hg). lia.
Qed.

Lemma prefix_bytes_nth n : forall a i,
  (i < prefix_len a n)%nat ->
  nth_error (prefix_bytes a n) i = mem (a + N.of_nat i) /\ mem (a + N.of_nat i) <> None.
Proof.
  induction n as [|n IH]; intros a i Hi; simpl in *; [lia|].
  destruct (mem a) as [b|] eqn:Hm; [|simpl in Hi; lia].
  destruct i as [|i].
  - simpl. rewrite N.add_0_r, Hm. split; [reflexivity|discriminate].
  - simpl in Hi. destruct (IH (a + 1) i ltac:(lia)) as [H1 H2].
    replace (a + N.of_nat (S i)) with (a + 1 + N.of_nat i) by lia. simpl. auto.
Qed.

Lemma prefix_len_stop n : forall a,
  (prefix_len a n < n)%nat -> mem (a + N.of_nat (prefix_len a n)) = None.
Proof.
  induction n as [|n IH]; intros a Hlt; simpl in *; [lia|].
  destruct (mem a) as [b|] eqn:Hm.
  - replace (a + N.of_nat (S (prefix_len (a + 1) n))) with (a + 1 + N.of_nat (prefix_len (a + 1) n)) by lia.
    apply IH. lia.
  - simpl. now rewrite N.add_0_r.
Qed.

(** the readable prefix ends at a page boundary (or is empty) *)
Lemma prefix_boundary a n :
  let k := prefix_len a n in
  (k < n)%nat -> (0 < k)%nat -> (a + N.of_nat k) mod page_size = 0.
Proof.
  cbn zeta. intros Hlt Hpos.
  pose proof (prefix_len_stop n a Hlt) as Hnone.
  destruct (prefix_bytes_nth n a (prefix_len a n - 1) ltac:(lia)) as [_ Hsome].
  set (k := prefix_len a n) in *.
  destruct (split_addr (a + N.of_nat k)) as (pa & off & Ha & Hpa & Hoff & Hpo & Hom).
  rewrite <- Hom. destruct (N.eq_dec off 0) as [|Hnz]; [assumption|exfalso].
  assert (Hprev : a + N.of_nat (k - 1) = pa + (off - 1)) by lia.
  rewrite Hprev in Hsome. rewrite Ha in Hnone.
  destruct (get_page pa) as [d|st] eqn:Hg.
  - rewrite (mem_in_page pa off d Hpa Hoff Hg) in Hnone.
    apply nth_error_None in Hnone. pose proof (Hpages _ _ Hg). lia.
  - apply Hsome. apply (mem_fail pa (off - 1) st Hpa ltac:(lia) Hg).
Qed.

Lemma stop_none a n : stop_of a n = None -> prefix_len a n = n.
Proof.
  unfold stop_of. destruct (Nat.eqb_spec (prefix_len a n) n) as [H|H]; [auto|].
  pose proof (prefix_len_le n a). intro Hf.
  destruct (mem_none_fail _ (prefix_len_stop n a ltac:(lia))) as (st & Hst). congruence.
Qed.

Lemma stop_some a n st : stop_of a n = Some st ->
  (prefix_len a n < n)%nat /\ fail_status (a + N.of_nat (prefix_len a n)) = Some st.
Proof.
  unfold stop_of. destruct (Nat.eqb_spec (prefix_len a n) n) as [H|H]; [discriminate|].
  pose proof (prefix_len_le n a). intro Hf. split; [lia|assumption].
Qed.

(** * [read_string_locked] *)

Notation is_cstring := (is_cstring page_size get_page).
Notation string_blocked := (string_blocked page_size get_page).
Notation cstring_pw := (cstring_pw page_size get_page).

(** the bytes of a page from an offset on are the memory from that address on *)
Lemma chunk_mem pa off d j :
  pa mod page_size = 0 -> off < page_size -> get_page pa = PageOk d ->
  off + N.of_nat j < page_size ->
  mem (pa + off + N.of_nat j) = nth_error (skipn (N.to_nat off) d) j.
Proof.
  intros Hpa Hoff Hg Hj. rewrite nth_error_skipn.
  replace (pa + off + N.of_nat j) with (pa + (off + N.of_nat j)) by lia.
  rewrite (mem_in_page pa _ d Hpa Hj Hg). f_equal. lia.
Qed.

Lemma chunk_length pa off d :
  get_page pa = PageOk d -> off < page_size ->
  length (skipn (N.to_nat off) d) = N.to_nat (page_size - off).
Proof. intros Hg Hoff. rewrite skipn_length, (Hpages _ _ Hg). lia. Qed.

Lemma cstring_pw_sound fuel : forall a,
  (forall s, cstring_pw fuel a = inl s -> is_cstring a s) /\
  (forall st, cstring_pw fuel a = inr (Some st) -> exists k, string_blocked a k st).
Proof.
  induction fuel as [|fuel IH]; intro a; [split; intros ? H; discriminate|].
  cbn [ReadSpec.cstring_pw].
  destruct (split_addr a) as (pa & off & Ha & Hpa & Hoff & Hpo & Hom).
  rewrite <- Hpo, <- Hom.
  destruct (get_page pa) as [d|st0] eqn:Hg.
  2:{ split; intros x H; inversion H as [Hx]. rewrite <- Hx. exists 0%nat.
      destruct (mem_fail pa off st0 Hpa Hoff Hg) as [Hm Hf].
      unfold ReadSpec.string_blocked. cbn [N.of_nat]. rewrite N.add_0_r, Ha.
      split; [intros i Hi; lia|]. now split. }
  set (chunk := skipn (N.to_nat off) d).
  pose proof (chunk_length pa off d Hg Hoff) as Hcl. fold chunk in Hcl.
  assert (Hcm : forall j, (j < length chunk)%nat -> mem (a + N.of_nat j) = nth_error chunk j).
  { intros j Hj. rewrite Ha. apply chunk_mem; auto. lia. }
  destruct (memchr0 chunk) as [i|] eqn:Emc.
  - split; [|intros st H; discriminate].
    intros s H. inversion H as [Hs]. clear H Hs s.
    pose proof (memchr0_lt _ _ Emc) as Hi.
    destruct (memchr0_some _ _ Emc) as [Hnul Hnz].
    assert (Hfl : length (firstn i chunk) = i) by (rewrite firstn_length; lia).
    split.
    + intros j b Hj. split; [|eapply Hnz; eassumption].
      assert (Hjl : (j < i)%nat) by (rewrite <- Hfl; apply nth_error_Some; congruence).
      rewrite Hcm by lia. rewrite <- Hj. symmetry. now apply nth_error_firstn_lt.
    + rewrite Hfl, Hcm by lia. exact Hnul.
  - pose proof (memchr0_none _ Emc) as Hnz.
    set (a' := a + (page_size - off)).
    destruct (IH a') as [IH1 IH2].
    assert (Ea' : forall j, a' + N.of_nat j = a + N.of_nat (length chunk + j)) by (intro j; unfold a'; lia).
    destruct (cstring_pw fuel a') as [s'|e] eqn:Erec.
    + split; [|intros st H; discriminate].
      intros s H. inversion H as [Hs]. clear H Hs s.
      destruct (IH1 s' eq_refl) as [Hb Hn]. split.
      * intros j b Hj. destruct (Nat.lt_ge_cases j (length chunk)) as [Hlt|Hge].
        -- rewrite nth_error_app1 in Hj by assumption. rewrite Hcm by assumption.
           split; [exact Hj|eapply Hnz; eassumption].
        -- rewrite nth_error_app2 in Hj by assumption.
           destruct (Hb _ _ Hj) as [Hm Hbz]. rewrite Ea' in Hm.
           replace (length chunk + (j - length chunk))%nat with j in Hm by lia. auto.
      * rewrite app_length, <- Ea'. exact Hn.
    + split; [intros s H; discriminate|].
      intros st H. inversion H as [He]. rewrite He in *. clear H.
      destruct (IH2 st eq_refl) as (k & Hk1 & Hk2 & Hk3).
      exists (length chunk + k)%nat. unfold ReadSpec.string_blocked.
      rewrite <- Ea'. split; [|split; assumption].
      intros j Hj. destruct (Nat.lt_ge_cases j (length chunk)) as [Hlt|Hge].
      * rewrite Hcm by assumption.
        destruct (nth_error chunk j) as [b|] eqn:Hn; [|apply nth_error_None in Hn; lia].
        exists b. split; [reflexivity|eapply Hnz; eassumption].
      * destruct (Hk1 (j - length chunk)%nat ltac:(lia)) as (b & Hb1 & Hb2).
        rewrite Ea' in Hb1. replace (length chunk + (j - length chunk))%nat with j in Hb1 by lia.
        eauto.
Qed.

Notation string_loop r := (ReadModel.string_loop page_size get_page r false).

Ltac caps H := cbn [negb orb andb] in H; rewrite ?leb_add1, ?ltb_add1 in H; cbn [negb] in H.

Lemma in_tl {A} (x : A) l : In x (tl l) -> In x l.
Proof. destruct l; simpl; auto. Qed.

(** the loop of [read_string_locked] computes [cstring_pw], unless a realloc fails *)
Lemma string_loop_pw repaired fuel : forall addr str cap oracle next evs r,
  addr + N.of_nat fuel * page_size <= W ->
  string_loop repaired fuel addr str cap oracle next evs = SDone r ->
  let acc := match str with Some (_, s) => s | None => [] end in
  (sr_status r = KDUMP_OK ->
     exists id s, sr_string r = Some (id, acc ++ s) /\ cstring_pw fuel addr = inl s) /\
  (sr_status r <> KDUMP_OK ->
     sr_string r = None /\
     (cstring_pw fuel addr = inr (Some (sr_status r)) \/
      (sr_status r = KDUMP_ERR_SYSTEM /\ In false oracle))).
Proof.
  induction fuel as [|fuel IH]; intros addr str cap oracle next evs r Hw Hrun; [discriminate|].
  cbn zeta. cbn [ReadModel.string_loop ReadSpec.cstring_pw] in *.
  pose proof ps_pos as Hpp.
  rewrite Nat2N.inj_succ, N.mul_succ_l in Hw.
  assert (Ha : addr < W) by lia.
  rewrite (page_align_of addr Ha) in Hrun.
  destruct (split_addr addr) as (pa & off & Hapo & Hpa & Hoff & Hpo & Hom).
  rewrite <- Hpo, <- Hom in *.
  destruct (get_page pa) as [d|st] eqn:Hg.
  2:{ inversion Hrun as [Hr]. cbn [sr_status sr_string].
      split; [intro H0; exfalso; exact (Hfail _ _ Hg H0)|]. intros _. split; [reflexivity|now left]. }
  destruct (N.eqb_spec page_size 0) as [Hz|_]; [lia|].
  pose proof (chunk_length pa off d Hg Hoff) as Hcl.
  assert (Hrd : rd d (N.to_nat off) (N.to_nat (page_size - off)) = Some (skipn (N.to_nat off) d)).
  { unfold rd. pose proof (Hpages _ _ Hg).
    destruct (Nat.leb_spec (N.to_nat off + N.to_nat (page_size - off)) (length d)); [|lia].
    now rewrite firstn_all2 by lia. }
  rewrite Hrd in Hrun.
  set (chunk := skipn (N.to_nat off) d) in *.
  cbn [negb orb] in Hrun.
  destruct (match oracle with b :: _ => b | [] => true end) eqn:Eok; cbn [negb] in Hrun.
  2:{ inversion Hrun as [Hr]. cbn [sr_status sr_string].
      split; [discriminate|]. intros _. split; [reflexivity|]. right. split; [reflexivity|].
      destruct oracle as [|b o]; [discriminate|]. subst b. now left. }
  caps Hrun.
  destruct (memchr0 chunk) as [i|] eqn:Emc.
  - caps Hrun. inversion Hrun as [Hr]. cbn [sr_status sr_string]. split; [|intro H; contradiction].
    intros _. eexists _, _. split; reflexivity.
  - destruct fuel as [|fuel']; [discriminate|].
    pose proof Hw as Hw2. rewrite Nat2N.inj_succ, N.mul_succ_l in Hw2.
    assert (Hlt : addr + (page_size - off) < W) by lia.
    rewrite (wadd_small _ _ Hlt) in Hrun.
    assert (Hw3 : addr + (page_size - off) + N.of_nat (S fuel') * page_size <= W) by lia.
    destruct (IH _ _ _ _ _ _ _ Hw3 Hrun) as [IH1 IH2]. cbn zeta in IH1, IH2.
    split.
    + intro H0. destruct (IH1 H0) as (id & s & Hs & Hc).
      exists id, (chunk ++ s). rewrite Hs, Hc. split; [|reflexivity].
      now rewrite <- app_assoc.
    + intro Hn. destruct (IH2 Hn) as [Hnone [Hc | [Hsys Hin]]].
      * split; [exact Hnone|]. left. now rewrite Hc.
      * split; [exact Hnone|]. right. split; [exact Hsys|]. now apply in_tl.
Qed.

(** every exit gives back what it allocated (repaired code), except the
    string it returns *)
Lemma string_no_leak fuel : forall addr str cap oracle next evs r,
  string_loop true fuel addr str cap oracle next evs = SDone r ->
  outstanding evs [] = ids str ->
  outstanding (sr_events r) [] = ids (sr_string r).
Proof.
  induction fuel as [|fuel IH]; intros addr str cap oracle next evs r Hrun Hev; [discriminate|].
  cbn [ReadModel.string_loop] in Hrun.
  destruct (get_page _) as [d|st].
  2:{ inversion Hrun as [Hr]. cbn [sr_events sr_string ids].
      destruct str as [[id s]|]; [|exact Hev].
      rewrite outstanding_app, Hev. simpl. apply remove_self. }
  destruct (page_size =? 0); [discriminate|].
  destruct (rd d _ _) as [chunk|]; [|discriminate].
  cbn [negb orb] in Hrun.
  destruct (match oracle with b :: _ => b | [] => true end); cbn [negb] in Hrun.
  2:{ inversion Hrun as [Hr]. cbn [sr_events sr_string ids].
      destruct str as [[id s]|]; rewrite !outstanding_app, Hev; simpl; [apply remove_self|reflexivity]. }
  assert (Hev3 : outstanding
            ((match str with
              | Some (id, _) => (evs ++ [EvGet (page_align addr)]) ++ [EvFree id; EvAlloc next]
              | None => (evs ++ [EvGet (page_align addr)]) ++ [EvAlloc next]
              end) ++ [EvPut (page_align addr)]) [] = [next]).
  { destruct str as [[id s]|]; rewrite !outstanding_app, Hev; simpl;
      [destruct (Nat.eq_dec id id); [reflexivity|contradiction]|reflexivity]. }
  caps Hrun.
  destruct (memchr0 chunk).
  - caps Hrun. inversion Hrun as [Hr]. cbn [sr_events sr_string ids]. exact Hev3.
  - eapply IH; [exact Hrun|]. exact Hev3.
Qed.

(** every page reference taken is given back before returning *)
Lemma string_pages_balanced repaired fuel : forall addr str cap oracle next evs r,
  string_loop repaired fuel addr str cap oracle next evs = SDone r ->
  open_pages evs [] = [] -> open_pages (sr_events r) [] = [].
Proof.
  induction fuel as [|fuel IH]; intros addr str cap oracle next evs r Hrun Hev; [discriminate|].
  cbn [ReadModel.string_loop] in Hrun.
  destruct (get_page _) as [d|st].
  2:{ inversion Hrun as [Hr]. cbn [sr_events].
      destruct str as [[id s]|]; [|exact Hev]. destruct repaired; [|exact Hev].
      now rewrite open_pages_app, Hev. }
  destruct (page_size =? 0); [discriminate|].
  destruct (rd d _ _) as [chunk|]; [|discriminate].
  set (pa := page_align addr) in *.
  assert (Hself : remove N.eq_dec pa [pa] = []).
  { simpl. destruct (N.eq_dec pa pa); [reflexivity|contradiction]. }
  cbn [negb orb] in Hrun.
  destruct (match oracle with b :: _ => b | [] => true end); cbn [negb] in Hrun.
  2:{ inversion Hrun as [Hr]. cbn [sr_events].
      destruct str as [[id s]|]; rewrite !open_pages_app, Hev; simpl; exact Hself. }
  assert (Hev3 : open_pages
            ((match str with
              | Some (id, _) => (evs ++ [EvGet pa]) ++ [EvFree id; EvAlloc next]
              | None => (evs ++ [EvGet pa]) ++ [EvAlloc next]
              end) ++ [EvPut pa]) [] = []).
  { destruct str as [[id s]|]; rewrite !open_pages_app, Hev; simpl; exact Hself. }
  caps Hrun.
  destruct (memchr0 chunk).
  - caps Hrun. inversion Hrun as [Hr]. cbn [sr_events]. exact Hev3.
  - eapply IH; [exact Hrun|]. exact Hev3.
Qed.

(** ** Completeness: a readable C string is found *)

Lemma cstring_pw_complete fuel : forall a s,
  is_cstring a s -> (length s < fuel)%nat -> cstring_pw fuel a = inl s.
Proof.
  induction fuel as [|fuel IH]; intros a s [Hb Hn] Hf; [lia|].
  cbn [ReadSpec.cstring_pw].
  destruct (split_addr a) as (pa & off & Ha & Hpa & Hoff & Hpo & Hom).
  rewrite <- Hpo, <- Hom.
  assert (Hma : mem a <> None).
  { destruct s as [|b s'].
    - simpl in Hn. rewrite N.add_0_r in Hn. congruence.
    - destruct (Hb 0%nat b eq_refl) as [Hm _]. simpl in Hm. rewrite N.add_0_r in Hm. congruence. }
  destruct (get_page pa) as [d|st] eqn:Hg.
  2:{ exfalso. apply Hma. rewrite Ha. apply (mem_fail pa off st Hpa Hoff Hg). }
  set (chunk := skipn (N.to_nat off) d).
  pose proof (chunk_length pa off d Hg Hoff) as Hcl. fold chunk in Hcl.
  assert (Hcm : forall j, (j < length chunk)%nat -> mem (a + N.of_nat j) = nth_error chunk j).
  { intros j Hj. rewrite Ha. apply chunk_mem; auto. lia. }
  destruct (memchr0 chunk) as [i|] eqn:Emc.
  - pose proof (memchr0_lt _ _ Emc) as Hi.
    destruct (memchr0_some _ _ Emc) as [Hnul Hnz].
    assert (Hil : i = length s).
    { destruct (Nat.lt_total i (length s)) as [Hlt|[Heq|Hgt]]; [exfalso|exact Heq|exfalso].
      - destruct (nth_error s i) as [b|] eqn:Hsi; [|apply nth_error_None in Hsi; lia].
        destruct (Hb i b Hsi) as [Hm Hbz]. rewrite Hcm in Hm by lia. congruence.
      - rewrite Hcm in Hn by lia.
        apply (Hnz (length s) 0); [|reflexivity].
        rewrite <- Hn. now apply nth_error_firstn_lt. }
    f_equal. apply nth_error_ext'. intro j.
    destruct (Nat.lt_ge_cases j i) as [Hlt|Hge].
    + destruct (nth_error s j) as [b|] eqn:Hsj; [|apply nth_error_None in Hsj; lia].
      destruct (Hb j b Hsj) as [Hm _]. rewrite Hcm in Hm by lia. rewrite <- Hm.
      now apply nth_error_firstn_lt.
    + transitivity (@None N).
      * apply nth_error_None. rewrite firstn_length. lia.
      * symmetry. apply nth_error_None. lia.
  - pose proof (memchr0_none _ Emc) as Hnz.
    assert (Hlen : (length chunk <= length s)%nat).
    { destruct (Nat.le_gt_cases (length chunk) (length s)) as [H|H]; [exact H|exfalso].
      rewrite Hcm in Hn by lia. exact (Hnz _ _ Hn eq_refl). }
    assert (Hsplit : s = chunk ++ skipn (length chunk) s).
    { rewrite <- (firstn_skipn (length chunk) s) at 1. f_equal.
      apply nth_error_ext'. intro j.
      destruct (Nat.lt_ge_cases j (length chunk)) as [Hlt|Hge].
      - destruct (nth_error s j) as [b|] eqn:Hsj; [|apply nth_error_None in Hsj; lia].
        destruct (Hb j b Hsj) as [Hm _]. rewrite Hcm in Hm by lia. rewrite Hm, <- Hsj.
        now apply nth_error_firstn_lt.
      - transitivity (@None N).
        + apply nth_error_None. rewrite firstn_length. lia.
        + symmetry. apply nth_error_None. lia. }
    set (s' := skipn (length chunk) s) in *.
    set (a' := a + (page_size - off)).
    assert (Ea' : forall j, a' + N.of_nat j = a + N.of_nat (length chunk + j)) by (intro j; unfold a'; lia).
    assert (Hls : length s = (length chunk + length s')%nat) by (rewrite Hsplit at 1; apply app_length).
    rewrite (IH a' s').
    + now rewrite <- Hsplit.
    + split.
      * intros j b Hj. rewrite Ea'. apply Hb. rewrite Hsplit.
        rewrite nth_error_app2 by lia. now replace (length chunk + j - length chunk)%nat with j by lia.
      * rewrite Ea', <- Hls. exact Hn.
    + lia.
Qed.

Lemma string_loop_complete repaired fuel : forall addr str cap oracle next evs s,
  addr + N.of_nat fuel * page_size <= W ->
  cstring_pw fuel addr = inl s -> ~ In false oracle ->
  exists r, string_loop repaired fuel addr str cap oracle next evs = SDone r /\
    sr_status r = KDUMP_OK /\
    exists id, sr_string r = Some (id, (match str with Some (_, o) => o | None => [] end) ++ s).
Proof.
  induction fuel as [|fuel IH]; intros addr str cap oracle next evs s Hw Hc Hor; [discriminate|].
  cbn [ReadModel.string_loop ReadSpec.cstring_pw] in *.
  pose proof ps_pos as Hpp.
  pose proof Hw as Hw2. rewrite Nat2N.inj_succ, N.mul_succ_l in Hw2.
  assert (Ha : addr < W) by lia.
  rewrite (page_align_of addr Ha).
  destruct (split_addr addr) as (pa & off & Hapo & Hpa & Hoff & Hpo & Hom).
  rewrite <- Hpo, <- Hom in *.
  destruct (get_page pa) as [d|st] eqn:Hg; [|discriminate].
  destruct (N.eqb_spec page_size 0) as [Hz|_]; [lia|].
  assert (Hrd : rd d (N.to_nat off) (N.to_nat (page_size - off)) = Some (skipn (N.to_nat off) d)).
  { unfold rd. pose proof (Hpages _ _ Hg).
    destruct (Nat.leb_spec (N.to_nat off + N.to_nat (page_size - off)) (length d)); [|lia].
    now rewrite firstn_all2 by (rewrite skipn_length; lia). }
  rewrite Hrd. set (chunk := skipn (N.to_nat off) d) in *.
  assert (Eok : match oracle with b :: _ => b | [] => true end = true).
  { destruct oracle as [|[|] o]; auto. exfalso. apply Hor. now left. }
  cbn [negb orb]. rewrite Eok. cbn [negb andb]. rewrite ?leb_add1, ?ltb_add1. cbn [negb].
  destruct (memchr0 chunk) as [i|] eqn:Emc.
  - inversion Hc as [Hs]. eexists. split; [reflexivity|]. cbn [sr_status sr_string].
    split; [reflexivity|]. eexists. reflexivity.
  - destruct (cstring_pw fuel (addr + (page_size - off))) as [s'|e] eqn:Erec; [|discriminate].
    inversion Hc as [Hs].
    destruct fuel as [|fuel']; [discriminate|].
    pose proof Hw2 as Hw4. rewrite Nat2N.inj_succ, N.mul_succ_l in Hw4.
    assert (Hlt : addr + (page_size - off) < W) by lia.
    rewrite (wadd_small _ _ Hlt).
    assert (Hw3 : addr + (page_size - off) + N.of_nat (S fuel') * page_size <= W) by lia.
    assert (Hor' : ~ In false (tl oracle)) by (intro Hi; apply Hor; now apply in_tl).
    destruct (IH (addr + (page_size - off))
                 (Some (next, (match str with Some (_, o) => o | None => [] end) ++ chunk))
                 (length (match str with Some (_, o) => o | None => [] end) + length chunk + 1)%nat
                 (tl oracle) (S next)
                 ((match str with
                   | Some (id, _) => (evs ++ [EvGet pa]) ++ [EvFree id; EvAlloc next]
                   | None => (evs ++ [EvGet pa]) ++ [EvAlloc next]
                   end) ++ [EvPut pa]) s' Hw3 Erec Hor') as (r & Hr & Hst & id & Hstr).
    exists r. split; [exact Hr|]. split; [exact Hst|]. exists id.
    rewrite Hstr. now rewrite <- app_assoc.
Qed.

(** * The statements used by Properties_C12.v *)

Lemma fail_status_nonzero a st : fail_status a = Some st -> st <> KDUMP_OK.
Proof.
  unfold ReadSpec.fail_status. destruct (get_page _) eqn:Hg; [discriminate|].
  intro H; inversion H as [Hst]. rewrite <- Hst. eapply Hfail; eauto.
Qed.

Lemma read_success a n buf :
  a + n <= W -> length buf = N.to_nat n ->
  forall r, read_locked (S (N.to_nat n)) a n buf = RDone r -> rr_status r = KDUMP_OK ->
  rr_plength r = n /\ rr_buffer r = prefix_bytes a (N.to_nat n) /\
  length (rr_buffer r) = N.to_nat n /\
  forall i, (i < N.to_nat n)%nat ->
    nth_error (rr_buffer r) i = mem (a + N.of_nat i) /\ mem (a + N.of_nat i) <> None.
Proof.
  intros Hw Hl r Hr Hst.
  destruct (read_exact a n buf Hw Hl) as (r' & Hr' & Hpl & Hbuf & Hs & _).
  rewrite Hr in Hr'. inversion Hr' as [Hrr]. rewrite <- Hrr in *. clear Hr' Hrr r'.
  rewrite Hst in Hs.
  assert (Hk : prefix_len a (N.to_nat n) = N.to_nat n).
  { apply stop_none. destruct (stop_of a (N.to_nat n)) as [st|] eqn:Es; [|reflexivity].
    exfalso. simpl in Hs. destruct (stop_some _ _ _ Es) as [_ Hf].
    apply (fail_status_nonzero _ _ Hf). now symmetry. }
  rewrite Hk in *.
  assert (Hb : rr_buffer r = prefix_bytes a (N.to_nat n)).
  { rewrite Hbuf, skipn_all2 by lia. apply app_nil_r. }
  split; [lia|]. split; [exact Hb|]. split.
  - rewrite Hb, <- prefix_len_bytes. exact Hk.
  - intros i Hi. rewrite Hb. apply prefix_bytes_nth. lia.
Qed.

Lemma read_failure a n buf :
  a + n <= W -> length buf = N.to_nat n ->
  forall r, read_locked (S (N.to_nat n)) a n buf = RDone r -> rr_status r <> KDUMP_OK ->
  let k := prefix_len a (N.to_nat n) in
  (k < N.to_nat n)%nat /\
  rr_plength r = N.of_nat k /\
  rr_buffer r = prefix_bytes a (N.to_nat n) ++ skipn k buf /\
  (forall i, (i < k)%nat ->
     nth_error (rr_buffer r) i = mem (a + N.of_nat i) /\ mem (a + N.of_nat i) <> None) /\
  (forall i, (k <= i)%nat -> nth_error (rr_buffer r) i = nth_error buf i) /\
  mem (a + N.of_nat k) = None /\
  fail_status (a + N.of_nat k) = Some (rr_status r) /\
  (k = 0%nat \/ (a + N.of_nat k) mod page_size = 0).
Proof.
  intros Hw Hl r Hr Hst. cbn zeta.
  destruct (read_exact a n buf Hw Hl) as (r' & Hr' & Hpl & Hbuf & Hs & _).
  rewrite Hr in Hr'. inversion Hr' as [Hrr]. rewrite <- Hrr in *. clear Hr' Hrr r'.
  destruct (stop_of a (N.to_nat n)) as [st|] eqn:Es; [|simpl in Hs; contradiction].
  destruct (stop_some _ _ _ Es) as [Hlt Hf]. simpl in Hs. rewrite <- Hs in Hf.
  set (k := prefix_len a (N.to_nat n)) in *.
  assert (Hpl' : length (prefix_bytes a (N.to_nat n)) = k) by (symmetry; apply prefix_len_bytes).
  split; [exact Hlt|]. split; [exact Hpl|]. split; [exact Hbuf|]. split; [|split; [|split; [|split]]].
  - intros i Hi. rewrite Hbuf, nth_error_app1 by lia. now apply prefix_bytes_nth.
  - intros i Hi. rewrite Hbuf, nth_error_app2 by lia. rewrite nth_error_skipn. f_equal. lia.
  - now apply prefix_len_stop.
  - exact Hf.
  - destruct k eqn:Ek; [now left|right]. rewrite <- Ek. apply prefix_boundary; lia.
Qed.

Lemma prefix_len_full n : forall a,
  (forall i, (i < n)%nat -> mem (a + N.of_nat i) <> None) -> prefix_len a n = n.
Proof.
  induction n as [|n IH]; intros a H; [reflexivity|]. simpl.
  destruct (mem a) as [b|] eqn:Hm.
  - f_equal. apply IH. intros i Hi. specialize (H (S i) ltac:(lia)).
    now replace (a + 1 + N.of_nat i) with (a + N.of_nat (S i)) by lia.
  - exfalso. specialize (H 0%nat ltac:(lia)). simpl in H. rewrite N.add_0_r in H. contradiction.
Qed.

(** a read whose last byte is 0xffffffffffffffff: the incremented address
    wraps to 0 after the last copy, and is not used again *)
Lemma read_top a n buf :
  a + n = W -> length buf = N.to_nat n ->
  (forall i, (i < N.to_nat n)%nat -> mem (a + N.of_nat i) <> None) ->
  exists r, read_locked (S (N.to_nat n)) a n buf = RDone r /\
    rr_status r = KDUMP_OK /\ rr_plength r = n /\
    rr_buffer r = prefix_bytes a (N.to_nat n) /\
    forall i, (i < N.to_nat n)%nat -> nth_error (rr_buffer r) i = mem (a + N.of_nat i).
Proof.
  intros Hw Hl Hall.
  destruct (read_exact a n buf ltac:(lia) Hl) as (r & Hr & Hpl & Hbuf & Hs & _).
  pose proof (prefix_len_full _ _ Hall) as Hk. rewrite Hk in *.
  exists r. split; [exact Hr|]. split; [|split; [lia|split]].
  - rewrite Hs. unfold stop_of. rewrite Hk, Nat.eqb_refl. reflexivity.
  - rewrite Hbuf, skipn_all2 by lia. apply app_nil_r.
  - intros i Hi. rewrite Hbuf, skipn_all2, app_nil_r by lia.
    apply prefix_bytes_nth. lia.
Qed.

Lemma read_zero a buf :
  read_locked 1 a 0 buf =
  RDone {| rr_status := KDUMP_OK; rr_plength := 0; rr_buffer := buf; rr_events := [] |}.
Proof. reflexivity. Qed.

Notation read_string_locked r := (ReadModel.read_string_locked page_size get_page r false true).

Lemma string_exact repaired fuel a oracle r :
  a + N.of_nat fuel * page_size <= W ->
  read_string_locked repaired fuel a oracle = SDone r ->
  (sr_status r = KDUMP_OK -> exists id s, sr_string r = Some (id, s) /\ is_cstring a s) /\
  (sr_status r <> KDUMP_OK ->
     sr_string r = None /\
     ((exists k, string_blocked a k (sr_status r)) \/
      (sr_status r = KDUMP_ERR_SYSTEM /\ In false oracle))).
Proof.
  intros Hw Hr. unfold ReadModel.read_string_locked in Hr. cbn [negb] in Hr.
  pose proof ps_pos as Hpp.
  destruct (N.eqb_spec page_size 0) as [Hz|_]; [lia|].
  destruct (string_loop_pw _ _ _ _ _ _ _ _ _ Hw Hr) as [H1 H2]. cbn zeta in H1, H2. split.
  - intro H0. destruct (H1 H0) as (id & s & Hs & Hc). exists id, s. split; [exact Hs|].
    now apply (proj1 (cstring_pw_sound fuel a)).
  - intro Hn. destruct (H2 Hn) as [Hnone [Hc|Hoom]]; (split; [exact Hnone|]).
    + left. now apply (proj2 (cstring_pw_sound fuel a)).
    + now right.
Qed.

Lemma string_found repaired fuel a oracle s :
  a + N.of_nat fuel * page_size <= W -> (length s < fuel)%nat ->
  is_cstring a s -> ~ In false oracle ->
  exists r id, read_string_locked repaired fuel a oracle = SDone r /\
    sr_status r = KDUMP_OK /\ sr_string r = Some (id, s).
Proof.
  intros Hw Hf Hs Hor.
  pose proof (cstring_pw_complete fuel a s Hs Hf) as Hc.
  destruct (string_loop_complete repaired fuel a None 0%nat oracle 0%nat [] s Hw Hc Hor)
    as (r & Hr & Hst & id & Hstr).
  exists r, id. unfold ReadModel.read_string_locked. cbn [negb].
  pose proof ps_pos as Hpp.
  destruct (N.eqb_spec page_size 0) as [Hz|_]; [lia|]. auto.
Qed.

Lemma string_no_leak_top fuel a oracle r :
  read_string_locked true fuel a oracle = SDone r ->
  outstanding (sr_events r) [] = ids (sr_string r).
Proof.
  unfold ReadModel.read_string_locked. cbn [negb]. destruct (page_size =? 0).
  - intro Hr. inversion Hr. reflexivity.
  - intro Hr. now apply (string_no_leak _ _ _ _ _ _ _ _ Hr).
Qed.

Lemma string_balanced_top repaired fuel a oracle r :
  read_string_locked repaired fuel a oracle = SDone r ->
  open_pages (sr_events r) [] = [].
Proof.
  unfold ReadModel.read_string_locked. cbn [negb]. destruct (page_size =? 0).
  - intro Hr. inversion Hr. reflexivity.
  - intro Hr. now apply (string_pages_balanced _ _ _ _ _ _ _ _ _ Hr).
Qed.

(** ** Allocation bookkeeping: the terminator and every copy stay inside the
    block last granted by realloc *)
Lemma string_no_overrun repaired fuel : forall addr str cap oracle next evs,
  string_loop repaired fuel addr str cap oracle next evs <> SOverrun.
Proof.
  induction fuel as [|fuel IH]; intros addr str cap oracle next evs; [discriminate|].
  cbn [ReadModel.string_loop].
  destruct (get_page _) as [d|st]; [|discriminate].
  destruct (page_size =? 0); [discriminate|].
  destruct (rd d _ _) as [chunk|]; [|discriminate].
  cbn [negb orb].
  destruct (match oracle with b :: _ => b | [] => true end); cbn [negb]; [|discriminate].
  cbn [andb]. rewrite leb_add1. cbn [negb].
  destruct (memchr0 chunk).
  - rewrite ltb_add1. discriminate.
  - apply IH.
Qed.

Lemma string_buffer_fits repaired fuel a oracle :
  read_string_locked repaired fuel a oracle <> SOverrun.
Proof.
  unfold ReadModel.read_string_locked. cbn [negb]. destruct (page_size =? 0); [discriminate|].
  apply string_no_overrun.
Qed.

(** ** An address space outside the enumeration *)
Lemma read_invalid_as fuel a n buf :
  ReadModel.read_locked page_size get_page false fuel a n buf =
  RDone {| rr_status := KDUMP_ERR_INVALID; rr_plength := 0; rr_buffer := buf; rr_events := [] |}.
Proof. reflexivity. Qed.

Lemma string_invalid_as repaired lazy fuel a oracle :
  ReadModel.read_string_locked page_size get_page repaired lazy false fuel a oracle =
  SDone {| sr_status := KDUMP_ERR_INVALID; sr_string := None; sr_events := [] |}.
Proof. reflexivity. Qed.

End Proofs.
