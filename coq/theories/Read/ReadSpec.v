(** Specification of reading (C12), written from the documentation of
    [kdump_read] / [kdump_read_string]: memory is a partial function from
    addresses to bytes; a read delivers the longest readable prefix of the
    requested range; a string is the bytes up to the first NUL. *)
From Coq Require Import NArith ZArith List Bool.
From KdV Require Import Base.Wrap64 Read.ReadModel.
Import ListNotations.
Local Open Scope N_scope.

Section Spec.
Variable page_size : N.
Variable get_page : N -> gp.

(** the page that holds an address *)
Definition page_of (a : N) : N := a - a mod page_size.

(** the byte at an address, if its page can be provided *)
Definition mem (a : N) : option N :=
  match get_page (page_of a) with
  | PageOk d => nth_error d (N.to_nat (a mod page_size))
  | PageErr _ => None
  end.

(** why the byte at an address cannot be provided *)
Definition fail_status (a : N) : option Z :=
  match get_page (page_of a) with
  | PageOk _ => None
  | PageErr st => Some st
  end.

(** number of leading bytes of [a, a+n) that can be provided *)
Fixpoint prefix_len (a : N) (n : nat) : nat :=
  match n with
  | O => O
  | S n' => match mem a with
            | None => O
            | Some _ => S (prefix_len (a + 1) n')
            end
  end.

(** the bytes of [a, a+n) that can be provided, in order *)
Fixpoint prefix_bytes (a : N) (n : nat) : list N :=
  match n with
  | O => []
  | S n' => match mem a with
            | None => []
            | Some b => b :: prefix_bytes (a + 1) n'
            end
  end.

(** [s] is the C string at [a]: every byte is there and non-zero, then a NUL *)
Definition is_cstring (a : N) (s : list N) : Prop :=
  (forall i b, nth_error s i = Some b -> mem (a + N.of_nat i) = Some b /\ b <> 0) /\
  mem (a + N.of_nat (length s)) = Some 0.

(** no C string at [a]: after [k] non-zero bytes comes a byte that cannot be
    provided, for reason [st] *)
Definition string_blocked (a : N) (k : nat) (st : Z) : Prop :=
  (forall i, (i < k)%nat -> exists b, mem (a + N.of_nat i) = Some b /\ b <> 0) /\
  mem (a + N.of_nat k) = None /\ fail_status (a + N.of_nat k) = Some st.

(** ** The same, computed a page at a time

    [prefix_pw] and [cstring_pw] are what the check uses to judge the
    implementation (the byte-at-a-time definitions above cost a list walk
    per byte); ReadProofs shows they agree with the definitions above
    ([prefix_pw_spec], [cstring_pw_sound]). [fuel] counts pages. *)
Fixpoint prefix_pw (fuel : nat) (a n : N) : list N * option Z :=
  if n =? 0 then ([], None)
  else match fuel with
       | O => ([], None)
       | S fuel' =>
           match get_page (page_of a) with
           | PageErr st => ([], Some st)
           | PageOk d =>
               let off := a mod page_size in
               let m := N.min n (page_size - off) in
               let '(rest, stop) := prefix_pw fuel' (a + m) (n - m) in
               (firstn (N.to_nat m) (skipn (N.to_nat off) d) ++ rest, stop)
           end
       end.

Fixpoint cstring_pw (fuel : nat) (a : N) : list N + option Z :=
  match fuel with
  | O => inr None
  | S fuel' =>
      match get_page (page_of a) with
      | PageErr st => inr (Some st)
      | PageOk d =>
          let off := a mod page_size in
          let chunk := skipn (N.to_nat off) d in
          match memchr0 chunk with
          | Some i => inl (firstn i chunk)
          | None =>
              match cstring_pw fuel' (a + (page_size - off)) with
              | inl s => inl (chunk ++ s)
              | inr e => inr e
              end
          end
      end
  end.

End Spec.
