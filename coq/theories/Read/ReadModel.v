(** Model of src/kdumpfile/read.c: [read_locked] and [read_string_locked].

    The page source ([get_page_maybe_xlat] = the format's [get_page] behind the
    cache, possibly behind address translation) is a section variable
    [get_page : N -> gp] from page-aligned addresses to [PageOk bytes] or
    [PageErr status]; a successful [get_page] takes a reference that
    [put_page] gives back (events [EvGet] / [EvPut]).  Addresses are 64-bit
    ([wadd]); [page_align] is the C expression [addr & -page_size];
    both functions refuse to work with an unknown page size (0) up front (the
    check added by "fix: read: fail cleanly when the page size is not known");
    [addr % page_size] with [page_size = 0] inside the loops stays the
    outcome [DivZero] (unreachable behind that check).
    Copies out of the page and into the caller's buffer are bounds-checked
    ([OOB]).  [realloc] answers come from an oracle list; every successful
    [realloc] hands out a fresh token ([EvAlloc]) and retires the old one
    ([EvFree]); [free] is [EvFree].

    [repaired = false] is the pinned [read_string_locked], which returns on a
    failing page without freeing the partial string (DESIGN item 12);
    [repaired = true] is the code after fixes/12-read-string-leak.patch. *)
From Coq Require Import NArith ZArith List Bool Arith.
From KdV Require Import Base.Wrap64.
Import ListNotations.
Local Open Scope N_scope.

Inductive gp := PageOk (data : list N) | PageErr (status : Z).

Inductive ev :=
| EvGet (page : N) | EvPut (page : N)
| EvAlloc (id : nat) | EvFree (id : nat).

Definition KDUMP_OK : Z := 0%Z.
Definition KDUMP_ERR_SYSTEM : Z := 1%Z.

(** bounds-checked block read / write (offsets are list positions) *)
Definition rd (m : list N) (off len : nat) : option (list N) :=
  if (off + len <=? length m)%nat then Some (firstn len (skipn off m)) else None.

Definition wr (m : list N) (off : nat) (bs : list N) : option (list N) :=
  if (off + length bs <=? length m)%nat
  then Some (firstn off m ++ bs ++ skipn (off + length bs) m) else None.

(** memchr(p, 0, len): index of the first NUL *)
Fixpoint memchr0 (l : list N) : option nat :=
  match l with
  | [] => None
  | b :: l' => if b =? 0 then Some O
               else match memchr0 l' with Some i => Some (S i) | None => None end
  end.

Section Read.
Variable page_size : N.
Variable get_page : N -> gp.

(** addr & (-(kdump_addr_t)page_size) *)
Definition page_align (addr : N) : N := N.land addr (wsub 0 page_size).

Record rres := {
  rr_status : Z;          (* return value *)
  rr_plength : N;         (* *plength at return *)
  rr_buffer : list N;     (* the caller's buffer at return *)
  rr_events : list ev
}.

Inductive rout := RDone (r : rres) | ROutOfFuel | ROob | RDivZero.

(** the [while (remain)] loop; [pos] = buffer - (initial buffer) *)
Fixpoint read_loop (fuel : nat) (addr remain : N) (buf : list N) (pos : nat)
         (evs : list ev) : Z * N * list N * list ev + rout :=
  if remain =? 0 then inl (KDUMP_OK, remain, buf, evs)
  else
    match fuel with
    | O => inr ROutOfFuel
    | S fuel' =>
        let pa := page_align addr in
        match get_page pa with
        | PageErr st => inl (st, remain, buf, evs)           (* break *)
        | PageOk data =>
            if page_size =? 0 then inr RDivZero
            else
              let off := addr mod page_size in
              let partlen := page_size - off in
              let partlen := if remain <? partlen then remain else partlen in
              (* memcpy(buffer, pio.chunk.data + off, partlen); put_page(&pio); *)
              match rd data (N.to_nat off) (N.to_nat partlen) with
              | None => inr ROob
              | Some bytes =>
                  match wr buf pos bytes with
                  | None => inr ROob
                  | Some buf' =>
                      read_loop fuel' (wadd addr partlen) (remain - partlen) buf'
                                (pos + N.to_nat partlen)%nat
                                (evs ++ [EvGet pa; EvPut pa])
                  end
              end
        end
    end.

(** [read_locked(ctx, as, addr, buffer, plength)] with [*plength = plength] *)
Definition KDUMP_ERR_NODATA : Z := 3%Z.

Definition KDUMP_ERR_INVALID : Z := 5%Z.

(** [as_valid]: the caller's address space is one of KDUMP_KPHYSADDR,
    KDUMP_MACHPHYSADDR, KDUMP_KVADDR ([check_addrspace], added by
    fixes/72-read-invalid-addrspace.patch; before it an out-of-range value was
    used as a shift count) *)
Definition read_locked (as_valid : bool) (fuel : nat) (addr plength : N) (buffer : list N) : rout :=
  (* ret = check_addrspace(ctx, as); if (ret != KDUMP_OK) { *plength = 0; return ret; } *)
  if negb as_valid then
    RDone {| rr_status := KDUMP_ERR_INVALID; rr_plength := 0; rr_buffer := buffer; rr_events := [] |}
  else
  (* if ( *plength && !get_page_size(ctx)) { *plength = 0; return set_error(KDUMP_ERR_NODATA); } *)
  if negb (plength =? 0) && (page_size =? 0) then
    RDone {| rr_status := KDUMP_ERR_NODATA; rr_plength := 0; rr_buffer := buffer; rr_events := [] |}
  else
  match read_loop fuel addr plength buffer 0 [] with
  | inr o => o
  | inl (ret, remain, buf, evs) =>
      (* *plength -= remain; return ret; *)
      RDone {| rr_status := ret; rr_plength := plength - remain;
               rr_buffer := buf; rr_events := evs |}
  end.

(** ** read_string_locked *)

Record sres := {
  sr_status : Z;
  sr_string : option (nat * list N);   (* *pstr: token and bytes (without the NUL) *)
  sr_events : list ev
}.

Inductive sout := SDone (r : sres) | SOutOfFuel | SOob | SDivZero | SOverrun.

Variable repaired : bool.


(** the variant of the realloc step seeded as C12-c1 ("grow the buffer only if
    there is something to append; room for the NUL is added with the last
    part"); [false] = the code of the tree *)
Variable lazy_nul : bool.

(** [str] = (token, bytes so far) or NULL; [cap] = size of the block [str]
    points to (what the last realloc granted); [oracle] = answers of the next
    reallocs; [next] = next fresh token.  A [memcpy] or the final
    [str[length] = 0] outside the block is the outcome [SOverrun]. *)
Fixpoint string_loop (fuel : nat) (addr : N) (str : option (nat * list N)) (cap : nat)
         (oracle : list bool) (next : nat) (evs : list ev) : sout :=
  match fuel with
  | O => SOutOfFuel
  | S fuel' =>
      let pa := page_align addr in
      match get_page pa with
      | PageErr st =>
          (* pinned: return ret;     repaired: free(str); return ret; *)
          let evs' := match str with
                      | Some (id, _) => if repaired then evs ++ [EvFree id] else evs
                      | None => evs
                      end in
          SDone {| sr_status := st; sr_string := None; sr_events := evs' |}
      | PageOk data =>
          if page_size =? 0 then SDivZero
          else
            let off := addr mod page_size in
            let partlen := page_size - off in
            match rd data (N.to_nat off) (N.to_nat partlen) with
            | None => SOob
            | Some chunk =>
                (* endp = memchr(data + off, 0, partlen); if (endp) partlen = endp - (data + off); *)
                let endp := memchr0 chunk in
                let piece := match endp with Some i => firstn i chunk | None => chunk end in
                let evs1 := evs ++ [EvGet pa] in
                let old := match str with Some (_, s) => s | None => [] end in
                (* newlength = length + partlen; *)
                let newlength := (length old + length piece)%nat in
                let grow := negb lazy_nul || (length old <? newlength)%nat
                            || (match str with None => true | Some _ => false end) in
                if grow then
                  (* newstr = realloc(str, newlength + 1); *)
                  let ok := match oracle with b :: _ => b | [] => true end in
                  if negb ok then
                    (* put_page(&pio); if (str) free(str); return set_error(KDUMP_ERR_SYSTEM) *)
                    let evs2 := evs1 ++ [EvPut pa] in
                    let evs3 := match str with Some (id, _) => evs2 ++ [EvFree id] | None => evs2 end in
                    SDone {| sr_status := KDUMP_ERR_SYSTEM; sr_string := None; sr_events := evs3 |}
                  else
                    let newcap := if lazy_nul && (match endp with None => true | Some _ => false end)
                                  then newlength else (newlength + 1)%nat in
                    let evs2 := match str with
                                | Some (id, _) => evs1 ++ [EvFree id; EvAlloc next]
                                | None => evs1 ++ [EvAlloc next]
                                end in
                    (* memcpy(newstr + length, data + off, partlen); put_page(&pio); *)
                    if negb (newlength <=? newcap)%nat then SOverrun
                    else
                      let str' := (next, old ++ piece) in
                      let evs3 := evs2 ++ [EvPut pa] in
                      match endp with
                      | Some _ =>
                          (* str[length] = 0; *pstr = str; return KDUMP_OK; *)
                          if (newlength <? newcap)%nat
                          then SDone {| sr_status := KDUMP_OK; sr_string := Some str'; sr_events := evs3 |}
                          else SOverrun
                      | None =>
                          string_loop fuel' (wadd addr partlen) (Some str') newcap
                                      (tl oracle) (S next) evs3
                      end
                else
                  (* (variant only) nothing to append and a buffer exists: no realloc *)
                  let evs3 := evs1 ++ [EvPut pa] in
                  match endp with
                  | Some _ =>
                      if (newlength <? cap)%nat
                      then SDone {| sr_status := KDUMP_OK; sr_string := str; sr_events := evs3 |}
                      else SOverrun
                  | None =>
                      string_loop fuel' (wadd addr partlen) str cap oracle next evs3
                  end
            end
      end
  end.

Definition read_string_locked (as_valid : bool) (fuel : nat) (addr : N) (oracle : list bool) : sout :=
  (* ret = check_addrspace(ctx, as); if (ret != KDUMP_OK) return ret; *)
  if negb as_valid then
    SDone {| sr_status := KDUMP_ERR_INVALID; sr_string := None; sr_events := [] |}
  else
  (* if (!get_page_size(ctx)) return set_error(KDUMP_ERR_NODATA, "Page size is not known"); *)
  if page_size =? 0 then
    SDone {| sr_status := KDUMP_ERR_NODATA; sr_string := None; sr_events := [] |}
  else string_loop fuel addr None 0%nat oracle 0%nat [].

End Read.

(** tokens handed out and not given back *)
Fixpoint outstanding (evs : list ev) (live : list nat) : list nat :=
  match evs with
  | [] => live
  | EvAlloc id :: r => outstanding r (id :: live)
  | EvFree id :: r => outstanding r (remove Nat.eq_dec id live)
  | _ :: r => outstanding r live
  end.

(** page references taken and not given back *)
Fixpoint open_pages (evs : list ev) (held : list N) : list N :=
  match evs with
  | [] => held
  | EvGet a :: r => open_pages r (a :: held)
  | EvPut a :: r => open_pages r (remove N.eq_dec a held)
  | _ :: r => open_pages r held
  end.
