(** C02 — address translation equals the architecture's page-table walk.
    Statements only; every proof is [exact <lemma>].

    Model: Xlat/Step.v (step.c, addrxlat-priv.h read_pte*, the per-format
    next-step functions, with fixes/01 and fixes/02 applied).
    Spec:  Xlat/ArchSpec.v (architecture manuals / method definitions).

    [readmem] is the read callback: a total function from (address space,
    address) to a raw cell or a failure status; [Herr] says a failing callback
    does not return ADDRXLAT_OK.  [observe] keeps what a caller sees: the status
    and, on success, the resulting full address.

    PTE_PPC64_LINUX_RPN30 is a Linux software layout, not an architecture: its
    theorem is [_partial] (memories in which no huge-page directory names a page
    size below the base page size). *)
From Coq Require Import NArith ZArith List Bool.
From KdV Require Import Base.Wrap64 Xlat.Step Xlat.ArchSpec Xlat.WalkProofs
  Xlat.FmtX86 Xlat.FmtA64 Xlat.FmtRiscvPfn Xlat.FmtS390Arm Xlat.FmtPpc64 Xlat.MethProofs Xlat.C02Main.
Import ListNotations.
Local Open Scope N_scope.

(** * One walk = launch + single steps

    for every method kind, every memory, every step state and every fuel (the
    same fuel on both sides, so also "both run out of fuel or neither").  For a
    custom method the next-step callback must not report success with
    [remain = 0] ([custom_ok]; [addrxlat_walk]'s [while (--remain)] would wrap
    around); the built-in kinds satisfy this unconditionally. *)
Theorem C02_walk_eq_launch_steps : forall readmem m fuel s,
  custom_ok m ->
  addrxlat_walk readmem m fuel s = launch_steps readmem m fuel s (s_base s).
Proof. exact walk_eq_launch_steps_all. Qed.
Print Assumptions C02_walk_eq_launch_steps.

(** * The generic theorem: step machine = generic architectural walk,
    given that the format's next-step function simulates the decoder on one
    entry ([sim]); by induction on the remaining levels *)
Theorem C02_step_machine_refines_generic_walk :
  forall readmem af tgt mask pf va,
  sim readmem af tgt mask pf va ->
  (forall a x, readmem a x <> RdErr OK) ->
  forall ras root fuel,
  check_of (pte_format pf) = Some (af_check af) ->
  pte_size (pte_format pf) = Some (af_ptesz af) ->
  (length (fieldsz pf) <= pf_max_fields (pte_format pf))%nat ->
  wf_form (af_check af) (fieldsz pf) -> va < 2^64 ->
  (length (fieldsz pf) <= fuel)%nat ->
  observe (addrxlat_walk readmem {| m_kind := KPgt ras root mask pf; m_target := tgt |} fuel (init_step va))
  = arch_walk readmem af tgt mask (fieldsz pf) va ras root.
Proof. exact pgt_refines_arch. Qed.
Print Assumptions C02_step_machine_refines_generic_walk.

(** * Per format: for all memory contents, roots (address and address space),
    PTE masks and input addresses, the model walk equals the architectural
    walk: same status (OK / not-present / invalid / the callback's failure) and
    same physical address.  Fuel = number of fields suffices. *)

Theorem C02_x86_64_refines_arch : forall readmem tgt mask pf va ras root fuel,
  pte_format pf = PTE_X86_64 -> x86_64_form (fieldsz pf) ->      (* 4-level or 5-level *)
  (forall a x, readmem a x <> RdErr OK) -> va < 2^64 ->
  (length (fieldsz pf) <= fuel)%nat ->
  observe (addrxlat_walk readmem {| m_kind := KPgt ras root mask pf; m_target := tgt |} fuel (init_step va))
  = arch_walk readmem af_x86_64 tgt mask (fieldsz pf) va ras root.
Proof. exact x86_64_refines_arch. Qed.
Print Assumptions C02_x86_64_refines_arch.

Theorem C02_ia32_refines_arch : forall readmem tgt mask pf va ras root fuel,
  pte_format pf = PTE_IA32 -> fieldsz pf = [12;10;10] ->
  (forall a x, readmem a x <> RdErr OK) -> va < 2^64 ->
  (length (fieldsz pf) <= fuel)%nat ->
  observe (addrxlat_walk readmem {| m_kind := KPgt ras root mask pf; m_target := tgt |} fuel (init_step va))
  = arch_walk readmem af_ia32 tgt mask (fieldsz pf) va ras root.
Proof. exact ia32_refines_arch. Qed.
Print Assumptions C02_ia32_refines_arch.

Theorem C02_ia32_pae_refines_arch : forall readmem tgt mask pf va ras root fuel,
  pte_format pf = PTE_IA32_PAE -> fieldsz pf = [12;9;9;2] ->
  (forall a x, readmem a x <> RdErr OK) -> va < 2^64 ->
  (length (fieldsz pf) <= fuel)%nat ->
  observe (addrxlat_walk readmem {| m_kind := KPgt ras root mask pf; m_target := tgt |} fuel (init_step va))
  = arch_walk readmem af_ia32_pae tgt mask (fieldsz pf) va ras root.
Proof. exact ia32_pae_refines_arch. Qed.
Print Assumptions C02_ia32_pae_refines_arch.

(** AArch64, [v] in {plain, LPA, LPA2}; 4K/16K/64K granules ([a64_form]) *)
Theorem C02_aarch64_refines_arch : forall v readmem tgt mask pf va ras root fuel,
  pte_format pf = a64_fmt v -> a64_form v (fieldsz pf) ->
  (forall a x, readmem a x <> RdErr OK) -> va < 2^64 ->
  (length (fieldsz pf) <= fuel)%nat ->
  observe (addrxlat_walk readmem {| m_kind := KPgt ras root mask pf; m_target := tgt |} fuel (init_step va))
  = arch_walk readmem (af_aarch64 v) tgt mask (fieldsz pf) va ras root.
Proof. exact aarch64_refines_arch. Qed.
Print Assumptions C02_aarch64_refines_arch.

Theorem C02_arm_refines_arch : forall readmem tgt mask pf va ras root fuel,
  pte_format pf = PTE_ARM -> fieldsz pf = [12;8;12] ->
  (forall a x, readmem a x <> RdErr OK) -> va < 2^64 ->
  (length (fieldsz pf) <= fuel)%nat ->
  observe (addrxlat_walk readmem {| m_kind := KPgt ras root mask pf; m_target := tgt |} fuel (init_step va))
  = arch_walk readmem af_arm tgt mask (fieldsz pf) va ras root.
Proof. exact arm_refines_arch. Qed.
Print Assumptions C02_arm_refines_arch.

(** RISC-V Sv39 / Sv48 / Sv57 *)
Theorem C02_riscv64_refines_arch : forall readmem tgt mask pf va ras root fuel,
  pte_format pf = PTE_RISCV64 -> riscv64_form (fieldsz pf) ->
  (forall a x, readmem a x <> RdErr OK) -> va < 2^64 ->
  (length (fieldsz pf) <= fuel)%nat ->
  observe (addrxlat_walk readmem {| m_kind := KPgt ras root mask pf; m_target := tgt |} fuel (init_step va))
  = arch_walk readmem af_riscv64 tgt mask (fieldsz pf) va ras root.
Proof. exact riscv64_refines_arch. Qed.
Print Assumptions C02_riscv64_refines_arch.

(** s390x with 2 to 5 table levels (the repaired [pgt_s390x]) *)
Theorem C02_s390x_refines_arch : forall readmem tgt mask pf va ras root fuel,
  pte_format pf = PTE_S390X -> s390x_form (fieldsz pf) ->
  (forall a x, readmem a x <> RdErr OK) -> va < 2^64 ->
  (length (fieldsz pf) <= fuel)%nat ->
  observe (addrxlat_walk readmem {| m_kind := KPgt ras root mask pf; m_target := tgt |} fuel (init_step va))
  = arch_walk readmem af_s390x tgt mask (fieldsz pf) va ras root.
Proof. exact s390x_refines_arch. Qed.
Print Assumptions C02_s390x_refines_arch.

(** plain PFN tables: any paging form with 1..8 fields, each below 64 bits,
    at most 64 bits in total *)
Theorem C02_pfn32_refines_arch : forall readmem tgt mask pf va ras root fuel,
  pte_format pf = PTE_PFN32 -> wf_form Unsigned (fieldsz pf) ->
  (forall a x, readmem a x <> RdErr OK) -> va < 2^64 ->
  (length (fieldsz pf) <= fuel)%nat ->
  observe (addrxlat_walk readmem {| m_kind := KPgt ras root mask pf; m_target := tgt |} fuel (init_step va))
  = arch_walk readmem af_pfn32 tgt mask (fieldsz pf) va ras root.
Proof. exact pfn32_refines_arch. Qed.
Print Assumptions C02_pfn32_refines_arch.

Theorem C02_pfn64_refines_arch : forall readmem tgt mask pf va ras root fuel,
  pte_format pf = PTE_PFN64 -> wf_form Unsigned (fieldsz pf) ->
  (forall a x, readmem a x <> RdErr OK) -> va < 2^64 ->
  (length (fieldsz pf) <= fuel)%nat ->
  observe (addrxlat_walk readmem {| m_kind := KPgt ras root mask pf; m_target := tgt |} fuel (init_step va))
  = arch_walk readmem af_pfn64 tgt mask (fieldsz pf) va ras root.
Proof. exact pfn64_refines_arch. Qed.
Print Assumptions C02_pfn64_refines_arch.

(** Linux ppc64, 64K base pages (RPN shift 30): huge PTEs, huge-page directories
    and table pointers as laid out by the kernel headers.  [_partial]: the
    statement is restricted to memories in which every cell shaped like a
    huge-page directory entry names a page size >= the base page size
    ([ppc64_mem_ok]; Linux never creates others, and for them the library's
    index/offset split and the layout's disagree on what they would mean). *)
Theorem C02_ppc64_refines_linux_partial : forall readmem tgt mask pf va ras root fuel,
  pte_format pf = PTE_PPC64_LINUX_RPN30 -> fieldsz pf = [16;12;12;4] ->
  ppc64_mem_ok readmem mask 16 ->
  (forall a x, readmem a x <> RdErr OK) -> va < 2^64 ->
  (length (fieldsz pf) <= fuel)%nat ->
  observe (addrxlat_walk readmem {| m_kind := KPgt ras root mask pf; m_target := tgt |} fuel (init_step va))
  = arch_walk readmem af_ppc64_rpn30 tgt mask (fieldsz pf) va ras root.
Proof. exact ppc64_refines_linux. Qed.
Print Assumptions C02_ppc64_refines_linux_partial.

(** all of the architectural formats above in one statement *)
Theorem C02_pgt_refines_arch : forall readmem tgt mask pf va ras root fuel af,
  arch_of (pte_format pf) = Some af -> arch_form (pte_format pf) (fieldsz pf) ->
  (forall a x, readmem a x <> RdErr OK) -> va < 2^64 ->
  (length (fieldsz pf) <= fuel)%nat ->
  observe (addrxlat_walk readmem {| m_kind := KPgt ras root mask pf; m_target := tgt |} fuel (init_step va))
  = arch_walk readmem af tgt mask (fieldsz pf) va ras root.
Proof. exact pgt_all_refine_arch. Qed.
Print Assumptions C02_pgt_refines_arch.

(** * The other methods compute their definitions *)

Theorem C02_linear : forall readmem tgt off addr fuel,
  addr < 2^64 -> (1 <= fuel)%nat ->
  observe (addrxlat_walk readmem {| m_kind := KLinear off; m_target := tgt |} fuel (init_step addr))
  = spec_linear tgt off addr.
Proof. exact linear_correct. Qed.
Print Assumptions C02_linear.

(** first matching element, offset preserved; the objects lie inside the
    address space ([orig + endoff] does not wrap) *)
Theorem C02_lookup : forall readmem tgt endoff tbl addr fuel,
  addr < 2^64 -> (1 <= fuel)%nat ->
  Forall (fun e => fst e + endoff < 2^64) tbl ->
  observe (addrxlat_walk readmem {| m_kind := KLookup endoff tbl; m_target := tgt |} fuel (init_step addr))
  = spec_lookup tgt endoff tbl addr.
Proof. exact lookup_correct. Qed.
Print Assumptions C02_lookup.

Theorem C02_memarr : forall readmem tgt bas base shift elemsz valsz addr fuel,
  (forall a x, readmem a x <> RdErr OK) ->
  addr < 2^64 -> shift < 64 -> (2 <= fuel)%nat ->
  observe (addrxlat_walk readmem {| m_kind := KMemarr bas base shift elemsz valsz; m_target := tgt |}
                         fuel (init_step addr))
  = spec_memarr readmem tgt bas base shift elemsz valsz addr.
Proof. exact memarr_correct. Qed.
Print Assumptions C02_memarr.

(** * No negative / oversized shift, no index outside [idx[]], no fuel
    exhaustion is reachable on a page-table walk of any of the formats above
    (the s390x shift by -1 of the pinned tree is gone with fixes/02) *)
Theorem C02_no_badshift : forall readmem tgt mask pf va ras root fuel af,
  arch_of (pte_format pf) = Some af -> arch_form (pte_format pf) (fieldsz pf) ->
  (forall a x, readmem a x <> RdErr OK) ->
  (forall a x e, readmem a x = RdErr e -> model_only e = false) ->
  va < 2^64 -> (length (fieldsz pf) <= fuel)%nat ->
  model_only (fst (addrxlat_walk readmem {| m_kind := KPgt ras root mask pf; m_target := tgt |}
                                 fuel (init_step va))) = false.
Proof. exact pgt_no_ub. Qed.
Print Assumptions C02_no_badshift.

(** * The hypotheses are satisfiable: concrete tables *)

(** a 4-level x86-64 table with a 2M page and a 4K page *)
Definition ex_mem (a : aspace) (x : N) : rdres :=
  match a with
  | MACHPHYSADDR =>
    if x =? 0x1000 + 8*1 then RdOk (0x2000 + 3) else
    if x =? 0x2000 + 8*2 then RdOk (0x3000 + 3) else
    if x =? 0x3000 + 8*3 then RdOk (0x40000000 + 0x83 + 0x1ff000) else
    if x =? 0x3000 + 8*4 then RdOk (0x5000 + 3) else
    if x =? 0x5000 + 8*5 then RdOk (0xabc000 + 1) else RdErr NODATA
  | _ => RdErr NODATA
  end.
Definition ex_meth : meth :=
  {| m_kind := KPgt MACHPHYSADDR 0x1000 0 {| pte_format := PTE_X86_64; fieldsz := [12;9;9;9;9] |};
     m_target := MACHPHYSADDR |}.
Definition ex_va1 := 1 * 2^39 + 2 * 2^30 + 3 * 2^21 + 0x12345.
Definition ex_va2 := 1 * 2^39 + 2 * 2^30 + 4 * 2^21 + 5 * 2^12 + 0x678.

Example C02_nonvacuous_x86_64 :
  observe (addrxlat_walk ex_mem ex_meth 5 (init_step ex_va1)) = (OK, Some (MACHPHYSADDR, 0x40012345)) /\
  observe (addrxlat_walk ex_mem ex_meth 5 (init_step ex_va2)) = (OK, Some (MACHPHYSADDR, 0xabc678)) /\
  spec_meth ex_mem ex_meth ex_va1 = Some (OK, Some (MACHPHYSADDR, 0x40012345)) /\
  spec_meth ex_mem ex_meth (ex_va2 + 2^63) = Some (INVALID, None) /\
  launch_steps ex_mem ex_meth 5 (init_step ex_va2) ex_va2 = addrxlat_walk ex_mem ex_meth 5 (init_step ex_va2).
Proof. vm_compute. repeat split. Qed.

(** AArch64 LPA, 64K granule: output-address bit 47 of the last-level entry is
    kept (the pinned tree returned 0x12345); s390x: an index above the table
    length TL is "not present", one inside [TF, TL] translates *)
Definition ex_mem2 (a : aspace) (x : N) : rdres :=
  match a with
  | MACHPHYSADDR =>
    if x =? 0x0 then RdOk 0x10003 else
    if x =? 0x10000 then RdOk 0x20003 else
    if x =? 0x20008 then RdOk 0x800000010003 else RdErr NODATA
  | KPHYSADDR =>
    if x =? 0x0 then RdOk 0x1007 else            (* region-third entry: TT=1, TF=0, TL=3 *)
    if x =? 0x1000 + 8 * 0x600 then RdOk 0x2000 else
    if x =? 0x2000 then RdOk 0x5000 else
    if x =? 0x8 then RdOk 0x1005 else            (* TL=1: segment indices >= 0x400 are outside *)
    RdErr NODATA
  | _ => RdErr NODATA
  end.
(** Linux ppc64: a 16M huge page found through a huge-page directory at the PMD level *)
Definition ex_mem3 (a : aspace) (x : N) : rdres :=
  match a with
  | KPHYSADDR => if x =? 0x100 + 8 * 1 then RdOk (0xc000000000010000) else RdErr NODATA
  | KVADDR =>
    if x =? 0xc000000000010000 + 8 * 2 then RdOk (0x4000000000020000 + 8 * 4) else  (* hugepd, 16M *)
    if x =? 0xc000000000020000 + 8 * 3 then RdOk (0x5000 * 2^30 + 1) else RdErr NODATA
  | _ => RdErr NODATA
  end.
Example C02_nonvacuous_ppc64 :
  ppc64_mem_ok ex_mem3 0 16 /\
  observe (addrxlat_walk ex_mem3
     {| m_kind := KPgt KPHYSADDR 0x100 0 {| pte_format := PTE_PPC64_LINUX_RPN30; fieldsz := [16;12;12;4] |};
        m_target := MACHPHYSADDR |} 4 (init_step (1 * 2^40 + 2 * 2^28 + 3 * 2^24 + 0x123456)))
  = (OK, Some (MACHPHYSADDR, 0x50000000 + 0x123456)).
Proof.
  split; [|vm_compute; reflexivity].
  intros a x v H. unfold ex_mem3 in H.
  destruct a; try discriminate;
  repeat match type of H with
  | (if ?c then _ else _) = _ => destruct c; [injection H as <-; vm_compute; intros; (left; reflexivity) || (right; discriminate)|]
  end; discriminate.
Qed.

Example C02_nonvacuous_lpa_s390x :
  observe (addrxlat_walk ex_mem2
     {| m_kind := KPgt MACHPHYSADDR 0 0 {| pte_format := PTE_AARCH64_LPA; fieldsz := [16;13;13;10] |};
        m_target := MACHPHYSADDR |} 4 (init_step 0x12345)) = (OK, Some (MACHPHYSADDR, 0x800000012345)) /\
  observe (addrxlat_walk ex_mem2
     {| m_kind := KPgt KPHYSADDR 0 0 {| pte_format := PTE_S390X; fieldsz := [12;8;11;11] |};
        m_target := KPHYSADDR |} 4 (init_step (0x600 * 2^20 + 0x123))) = (OK, Some (KPHYSADDR, 0x5123)) /\
  observe (addrxlat_walk ex_mem2
     {| m_kind := KPgt KPHYSADDR 0 0 {| pte_format := PTE_S390X; fieldsz := [12;8;11;11] |};
        m_target := KPHYSADDR |} 4 (init_step (2^31 + 0x600 * 2^20))) = (NOTPRESENT, None).
Proof. vm_compute. repeat split. Qed.

(** * Paging forms with more fields than the PTE format has levels are rejected
    up front (the fix "reject paging forms with more fields than the PTE format
    has levels"): the per-format theorems above are about the architectures'
    own forms, which all fit *)
Theorem C02_too_many_fields_rejected : forall readmem ras root mask pf tgt fuel va,
  (pf_max_fields (pte_format pf) < length (fieldsz pf))%nat ->
  observe (addrxlat_walk readmem {| m_kind := KPgt ras root mask pf; m_target := tgt |} fuel (init_step va))
  = (NOTIMPL, None).
Proof. exact too_many_fields_rejected. Qed.
Print Assumptions C02_too_many_fields_rejected.
