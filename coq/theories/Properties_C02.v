(** C02 — address translation equals the architecture's page-table walk.
    Statements only; every proof is [exact <lemma>]. *)
From Coq Require Import NArith ZArith List Bool.
From KdV Require Import Base.Wrap64 Xlat.Step Xlat.ArchSpec.
Import ListNotations.
Local Open Scope N_scope.

(** a concrete 4-level x86-64 table with a 2M page and a 4K page *)
Definition ex_mem (a : aspace) (x : N) : rdres :=
  match a with
  | MACHPHYSADDR =>
    if x =? 0x1000 + 8*1 then RdOk (0x2000 + 3) else
    if x =? 0x2000 + 8*2 then RdOk (0x3000 + 3) else
    if x =? 0x3000 + 8*3 then RdOk (0x40000000 + 0x83 + 0x1ff000) else
    if x =? 0x3000 + 8*4 then RdOk (0x5000 + 3) else
    if x =? 0x5000 + 8*5 then RdOk (0xabc000 + 1) else RdErr NODATA
  | _ => RdErr NODATA
  end.
Definition ex_meth : meth :=
  {| m_kind := KPgt MACHPHYSADDR 0x1000 0 {| pte_format := PTE_X86_64; fieldsz := [12;9;9;9;9] |};
     m_target := MACHPHYSADDR |}.
Definition ex_va1 := 1 * 2^39 + 2 * 2^30 + 3 * 2^21 + 0x12345.
Definition ex_va2 := 1 * 2^39 + 2 * 2^30 + 4 * 2^21 + 5 * 2^12 + 0x678.

Example C02_nonvacuous_x86_64 :
  observe (addrxlat_walk ex_mem ex_meth 8 (init_step ex_va1)) = (OK, Some (MACHPHYSADDR, 0x40012345)) /\
  observe (addrxlat_walk ex_mem ex_meth 8 (init_step ex_va2)) = (OK, Some (MACHPHYSADDR, 0xabc678)) /\
  spec_meth ex_mem ex_meth ex_va1 = Some (OK, Some (MACHPHYSADDR, 0x40012345)) /\
  spec_meth ex_mem ex_meth (ex_va2 + 2^63) = Some (INVALID, None).
Proof. vm_compute. repeat split. Qed.
