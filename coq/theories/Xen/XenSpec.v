(** What property C19 means, written from the xc_core format description
    (xen/tools/libxc xc_core.h: ".xen_pages holds the pages in the order of
    the entries of .xen_p2m / .xen_pfn"), not from the C code.

    A domain dump is a list of entries; the page stored for a frame is the
    one at the position of that frame in the list. *)
From Coq Require Import NArith List Bool.
From KdV Require Import Base.Wrap64.
Import ListNotations.
Local Open Scope N_scope.

(* position of (the first occurrence of) frame [p] in the page list *)
Fixpoint find_index (p : N) (l : list N) : option nat :=
  match l with
  | [] => None
  | x :: t => if x =? p then Some O
              else match find_index p t with Some i => Some (S i) | None => None end
  end.

(* the C code reports "not listed" as ~0 *)
Definition enc (o : option nat) : N :=
  match o with Some i => N.of_nat i | None => MAXA end.

(* the page a read of frame [f] returns: by guest frame (column 1) or by
   machine frame (column 2) *)
Definition page_by_pfn (es : list (N * N)) (p : N) : option nat := find_index p (map fst es).
Definition page_by_mfn (es : list (N * N)) (g : N) : option nat := find_index g (map snd es).

(* guest-physical -> machine-physical of a listed address and back *)
Definition p2m_spec (es : list (N * N)) (sh : N) (a : N) : option N :=
  match page_by_pfn es (a / 2^sh) with
  | Some i => match nth_error es i with
              | Some (_, g) => Some (g * 2^sh + a mod 2^sh)
              | None => None
              end
  | None => None
  end.
Definition m2p_spec (es : list (N * N)) (sh : N) (a : N) : option N :=
  match page_by_mfn es (a / 2^sh) with
  | Some i => match nth_error es i with
              | Some (p, _) => Some (p * 2^sh + a mod 2^sh)
              | None => None
              end
  | None => None
  end.
