(** Model of the xc_core (Xen domain dump) layer of src/kdumpfile/elfdump.c
    on top of the frame index: [make_xen_pfn_map_auto], [make_xen_pfn_map_nonauto],
    the index choice of [xc_get_page], and the custom translation steps
    [xc_p2m_first_step] / [xc_m2p_first_step] (followed by [addrxlat_step]
    with [remain = 1], [elemsz = 1]: the result is [base.addr + idx[0]]).

    The section [.xen_p2m] is the list of [(pfn, gmfn)] entries in file order
    ([.xen_pfn]: the list of frames); [.xen_pages] holds one page per entry in
    the same order, so "which page" is the index returned here.  Reading the
    entry [idx] back from the file is [nth_error] (a read beyond the section
    is the outcome [ReadErr]). *)
From Coq Require Import NArith ZArith List Bool.
From KdV Require Import Base.Wrap64 Xen.Pfn2IdxModel.
Import ListNotations.
Local Open Scope N_scope.

Record xc := {
  nonauto : bool;                 (* xen.xlat == KDUMP_XEN_NONAUTO *)
  pfnmap : pmap;                  (* edp->xen_pfnmap *)
  mfnmap : pmap;                  (* edp->xen_mfnmap (unused when auto-translated) *)
  entries : list (N * N);         (* the file's .xen_p2m; (pfn, pfn) rows for .xen_pfn *)
  shift : N                       (* page_shift *)
}.

Inductive xres := XBuilt (x : xc) | XFailed.

(* make_xen_pfn_map_auto: every frame of .xen_pfn is added to xen_pfnmap *)
Definition make_auto (junk : N) (sh : N) (l : list (N * bool)) (okend : bool) : xres :=
  match build junk l okend with
  | Built m => XBuilt {| nonauto := false; pfnmap := m;
                         mfnmap := {| ranges := []; singles := [] |};
                         entries := List.map (fun e => (fst e, fst e)) l; shift := sh |}
  | Failed _ => XFailed
  end.

(* make_xen_pfn_map_nonauto: the loop adds p2m.pfn to xen_pfnmap, then
   p2m.gmfn to xen_mfnmap, entry by entry; each of the two calls gets its own
   allocation answer *)
Fixpoint add_all2 (pm : pmap) (pc : prange) (mm : pmap) (mc : prange)
         (l : list (N * N * bool * bool)) : option (pmap * prange * pmap * prange) :=
  match l with
  | [] => Some (pm, pc, mm, mc)
  | (p, g, okp, okm) :: t =>
      match add true pm pc p okp with
      | None => None
      | Some (pm', pc') =>
          match add true mm mc g okm with
          | None => None
          | Some (mm', mc') => add_all2 pm' pc' mm' mc' t
          end
      end
  end.

Definition make_nonauto (junkp junkm : N) (sh : N) (l : list (N * N * bool * bool))
           (okendp okendm : bool) : xres :=
  let '(pm0, pc0) := map_start junkp in
  let '(mm0, mc0) := map_start junkm in
  match add_all2 pm0 pc0 mm0 mc0 l with
  | None => XFailed
  | Some (pm, pc, mm, mc) =>
      match map_end pm pc okendp with
      | None => XFailed
      | Some pm' =>
          match map_end mm mc okendm with
          | None => XFailed
          | Some mm' =>
              XBuilt {| nonauto := true; pfnmap := pm'; mfnmap := mm';
                        entries := List.map (fun e => (fst (fst (fst e)), snd (fst (fst e)))) l;
                        shift := sh |}
          end
      end
  end.

(* xc_get_page: the index of the page in .xen_pages, IDX_NONE = "Page not found";
   [mach] = (pio->addr.as == ADDRXLAT_MACHPHYSADDR), [pfn] = addr >> page_shift *)
Definition get_page_idx (x : xc) (mach : bool) (pfn : N) : N :=
  if (nonauto x && mach)%bool then search (mfnmap x) pfn else search (pfnmap x) pfn.

Definition page_of (x : xc) (mach : bool) (addr : N) : N :=
  get_page_idx x mach (N.shiftr addr (shift x)).

Inductive sres := Xlat (addr : N) | NoData | ReadErr.

(* xc_p2m_first_step + addrxlat_step *)
Definition p2m_step (x : xc) (addr : N) : sres :=
  let idx := search (pfnmap x) (N.shiftr addr (shift x)) in
  if idx =? IDX_NONE then NoData
  else match nth_error (entries x) (N.to_nat idx) with
       | None => ReadErr
       | Some (_, gmfn) =>
           Xlat (wadd (wshl gmfn (shift x)) (N.land addr (N.ones (shift x))))
       end.

(* xc_m2p_first_step + addrxlat_step *)
Definition m2p_step (x : xc) (addr : N) : sres :=
  let idx := search (mfnmap x) (N.shiftr addr (shift x)) in
  if idx =? IDX_NONE then NoData
  else match nth_error (entries x) (N.to_nat idx) with
       | None => ReadErr
       | Some (pfn, _) =>
           Xlat (wadd (wshl pfn (shift x)) (N.land addr (N.ones (shift x))))
       end.

(** a history of reads and conversions on an opened dump.  The C functions keep no state
    between calls (xc_get_page and the two first_step functions read the index and the
    file, nothing else), so the model of a history is the list of the single answers. *)
Inductive xop := OpRead (mach : bool) (addr : N) | OpConv (mach : bool) (addr : N).
Inductive xout := OutPage (idx : N) | OutConv (r : sres).

Definition do_op (x : xc) (o : xop) : xout :=
  match o with
  | OpRead mach addr => OutPage (page_of x mach addr)
  | OpConv mach addr => OutConv (if mach then m2p_step x addr else p2m_step x addr)
  end.

Definition run_history (x : xc) (ops : list xop) : list xout := List.map (do_op x) ops.
