(** Model of the run-length frame index of Xen domain dumps,
    src/kdumpfile/elfdump.c: [pfn2idx_map_start], [pfn2idx_map_addrange],
    [pfn2idx_map_add], [pfn2idx_map_end], [pfn2idx_map_search].

    [struct pfn2idx_range] is [prange] ([pfn] and [idx] are [uint_fast64_t] =
    [N] with every [+ -] reduced mod 2^64 through [Base.Wrap64]; [len] is
    [int_fast64_t], kept as an unbounded [Z] — [XenProofs.len_bounded] shows
    |len| never exceeds the number of frames added, so it cannot overflow for
    any list shorter than 2^63).  The two arrays [ranges] / [singles] are
    lists; [nranges % PFN2IDX_ALLOC_INC == 0] decides whether [realloc] is
    called, and the answer of that call is the [ok] argument of the step
    (one answer per [pfn2idx_map_add] / [pfn2idx_map_end] call: each performs
    at most one allocation).  [pfn2idx_map_start] leaves [cur->pfn]
    uninitialised: the model starts from an arbitrary value [junk] and the
    theorems hold for every [junk] (the C code never reads it while
    [len == 0] thanks to the short-circuit [&&]).

    [guard] selects between the code of the pinned tree ([false]:
    [pfn == range->pfn + 1] and [pfn == range->pfn - 1] computed mod 2^64, so
    that frame 0 "continues" a run ending at 2^64-1 and vice versa) and the
    repaired code of fixes/19-pfn2idx-run-wraps.patch ([true]: a run never
    wraps around the end of the frame-number space).  The extracted engine
    and the theorems use [guard = true]; [Properties_C19] also proves that
    the unrepaired code loses a listed frame.

    [qsort] is a concrete insertion sort; the theorems only use that the
    result is a sorted permutation. *)
From Coq Require Import NArith ZArith List Bool.
From KdV Require Import Base.Wrap64.
Import ListNotations.
Local Open Scope N_scope.

Record prange := { r_pfn : N; r_idx : N; r_len : Z }.
Record psingle := { s_pfn : N; s_idx : N }.
Record pmap := { ranges : list prange; singles : list psingle }.

Definition ALLOC_INC : N := 16.
Definition IDX_NONE : N := MAXA.          (* ~(uint_fast64_t)0 *)

(* an int_fast64_t converted to uint_fast64_t *)
Definition zw (z : Z) : N := Z.to_N (z mod Z.of_N W).

(* pfn2idx_map_start *)
Definition map_start (junk : N) : pmap * prange :=
  ({| ranges := []; singles := [] |}, {| r_pfn := junk; r_idx := 0; r_len := 0 |}).

(* map->nranges % PFN2IDX_ALLOC_INC == 0 *)
Definition needs_alloc (n : nat) : bool := (N.of_nat n) mod ALLOC_INC =? 0.

(* pfn2idx_map_addrange: None = KDUMP_ERR_SYSTEM (nothing stored) *)
Definition addrange (m : pmap) (cur : prange) (ok : bool) : option pmap :=
  if ((1 <? r_len cur)%Z || (r_len cur <? -1)%Z)%bool then
    if (needs_alloc (length (ranges m)) && negb ok)%bool then None
    else Some {| ranges := ranges m ++
                   [ {| r_pfn := r_pfn cur; r_idx := wsub (r_idx cur) 1; r_len := r_len cur |} ];
                 singles := singles m |}
  else if negb (r_len cur =? 0)%Z then
    if (needs_alloc (length (singles m)) && negb ok)%bool then None
    else Some {| ranges := ranges m;
                 singles := singles m ++
                   [ {| s_pfn := r_pfn cur; s_idx := wsub (r_idx cur) 1 |} ] |}
  else Some m.

(* pfn2idx_map_add *)
Definition add (guard : bool) (m : pmap) (cur : prange) (pfn : N) (ok : bool)
  : option (pmap * prange) :=
  let next (len' : Z) := {| r_pfn := pfn; r_idx := wadd (r_idx cur) 1; r_len := len' |} in
  let up := (negb guard || (r_pfn cur <? pfn))%bool in
  let down := (negb guard || (pfn <? r_pfn cur))%bool in
  if ((0 <? r_len cur)%Z && (pfn =? wadd (r_pfn cur) 1) && up)%bool then
    Some (m, next (r_len cur + 1)%Z)
  else if ((r_len cur <? 0)%Z && (pfn =? wsub (r_pfn cur) 1) && down)%bool then
    Some (m, next (r_len cur - 1)%Z)
  else if ((r_len cur =? 1)%Z && (pfn =? wsub (r_pfn cur) 1) && down)%bool then
    Some (m, next (-2)%Z)
  else match addrange m cur ok with
       | None => None
       | Some m' => Some (m', next 1%Z)
       end.

(* qsort(..., pfn2idx_range_cmp) / qsort(..., pfn2idx_single_cmp) *)
Fixpoint insert_r (r : prange) (l : list prange) : list prange :=
  match l with
  | [] => [r]
  | x :: t => if r_pfn r <=? r_pfn x then r :: l else x :: insert_r r t
  end.
Definition sort_ranges (l : list prange) : list prange := fold_right insert_r [] l.

Fixpoint insert_s (s : psingle) (l : list psingle) : list psingle :=
  match l with
  | [] => [s]
  | x :: t => if s_pfn s <=? s_pfn x then s :: l else x :: insert_s s t
  end.
Definition sort_singles (l : list psingle) : list psingle := fold_right insert_s [] l.

(* pfn2idx_map_end *)
Definition map_end (m : pmap) (cur : prange) (ok : bool) : option pmap :=
  match addrange m cur ok with
  | None => None
  | Some m' => Some {| ranges := sort_ranges (ranges m'); singles := sort_singles (singles m') |}
  end.

(* the loop of make_xen_pfn_map_auto over the entries of .xen_pfn: each frame
   comes with the answer its (possible) allocation gets *)
Inductive bres := Built (m : pmap) | Failed (consumed : N).

Fixpoint add_all (guard : bool) (m : pmap) (cur : prange) (l : list (N * bool))
  : pmap * prange * bool :=
  match l with
  | [] => (m, cur, true)
  | (pfn, ok) :: t =>
      match add guard m cur pfn ok with
      | None => (m, cur, false)
      | Some (m', cur') => add_all guard m' cur' t
      end
  end.

Definition build_gen (guard : bool) (junk : N) (l : list (N * bool)) (okend : bool) : bres :=
  let '(m0, c0) := map_start junk in
  let '(m, cur, fine) := add_all guard m0 c0 l in
  if fine then
    match map_end m cur okend with
    | Some m' => Built m'
    | None => Failed (r_idx cur)
    end
  else Failed (r_idx cur).

Definition build := build_gen true.

(* pfn2idx_map_search: first loop (ranges, with the early exits) *)
Fixpoint search_ranges (rs : list prange) (pfn : N) : option N :=
  match rs with
  | [] => None
  | r :: rs' =>
      if (0 <=? r_len r)%Z then
        if pfn <? wadd (wsub (r_pfn r) (zw (r_len r))) 1 then None          (* break *)
        else if pfn <=? r_pfn r then Some (wsub (wadd (r_idx r) pfn) (r_pfn r))
        else search_ranges rs' pfn
      else
        if pfn <? r_pfn r then None                                         (* break *)
        else if pfn <=? wsub (wsub (r_pfn r) (zw (r_len r))) 1
             then Some (wsub (wadd (r_idx r) (r_pfn r)) pfn)
        else search_ranges rs' pfn
  end.

(* second loop: for (i = 0; i < nsingles && pfn >= singles[i].pfn; ++i) *)
Fixpoint search_singles (ss : list psingle) (pfn : N) : option N :=
  match ss with
  | [] => None
  | s :: ss' =>
      if pfn <? s_pfn s then None
      else if s_pfn s =? pfn then Some (s_idx s)
      else search_singles ss' pfn
  end.

Definition search (m : pmap) (pfn : N) : N :=
  match search_ranges (ranges m) pfn with
  | Some i => i
  | None => match search_singles (singles m) pfn with
            | Some i => i
            | None => IDX_NONE
            end
  end.
