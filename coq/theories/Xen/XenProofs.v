(** Proofs for C19: the run-length frame index of elfdump.c answers every
    search with the position of the frame in the page list. *)
From Coq Require Import NArith ZArith List Bool Lia Sorting.Sorted Sorting.Permutation.
From Coq Require Import ZifyBool ZifyNat ZifyN.
From KdV Require Import Base.Wrap64 Xen.Pfn2IdxModel Xen.XcCoreModel Xen.XenSpec.
Import ListNotations.
Local Open Scope N_scope.

Ltac Zify.zify_post_hook ::= Z.div_mod_to_equations.

(** 2^63: the bound that keeps [int_fast64_t len] from overflowing *)
Definition H63 : N := 9223372036854775808.

Ltac wsolve := unfold wadd, wsub, w, zw, H63, MAXA in *; rewrite ?W_val in *; lia.

(** * The pairs (frame, index) an entry stands for *)

Definition absN (z : Z) : N := Z.abs_N z.

(* last element first: (pfn, idx), (pfn-1, idx-1), ... *)
Fixpoint exp_asc (pfn idx : N) (k : nat) : list (N * N) :=
  match k with O => [] | S k' => (pfn, idx) :: exp_asc (pfn - 1) (idx - 1) k' end.
(* (pfn, idx), (pfn+1, idx-1), ... *)
Fixpoint exp_desc (pfn idx : N) (k : nat) : list (N * N) :=
  match k with O => [] | S k' => (pfn, idx) :: exp_desc (pfn + 1) (idx - 1) k' end.

Definition expand (r : prange) : list (N * N) :=
  if (0 <=? r_len r)%Z then exp_asc (r_pfn r) (r_idx r) (Z.abs_nat (r_len r))
  else exp_desc (r_pfn r) (r_idx r) (Z.abs_nat (r_len r)).

Definition spair (s : psingle) : N * N := (s_pfn s, s_idx s).

Definition pairs_of (m : pmap) : list (N * N) :=
  flat_map expand (ranges m) ++ map spair (singles m).

Lemma in_exp_asc k : forall pfn idx p i,
  N.of_nat k <= pfn + 1 -> N.of_nat k <= idx + 1 ->
  (In (p, i) (exp_asc pfn idx k) <->
   pfn + 1 <= p + N.of_nat k /\ p <= pfn /\ i + pfn = idx + p).
Proof.
  induction k as [|k IH]; intros pfn idx p i Hp Hi; cbn [exp_asc In].
  - split; [tauto|lia].
  - rewrite IH by lia. split.
    + intros [E|H]; [inversion E; subst; lia|lia].
    + intros H. destruct (N.eq_dec p pfn) as [->|Hne].
      * left. f_equal. lia.
      * right. lia.
Qed.

Lemma in_exp_desc k : forall pfn idx p i,
  N.of_nat k <= idx + 1 ->
  (In (p, i) (exp_desc pfn idx k) <->
   pfn <= p /\ p < pfn + N.of_nat k /\ i + p = idx + pfn).
Proof.
  induction k as [|k IH]; intros pfn idx p i Hi; cbn [exp_desc In].
  - split; [tauto|lia].
  - rewrite IH by lia. split.
    + intros [E|H]; [inversion E; subst; lia|lia].
    + intros H. destruct (N.eq_dec p pfn) as [->|Hne].
      * left. f_equal. lia.
      * right. lia.
Qed.

(** interval and index function of an entry *)
Definition lo (r : prange) : N :=
  if (0 <=? r_len r)%Z then r_pfn r + 1 - absN (r_len r) else r_pfn r.
Definition hi (r : prange) : N :=
  if (0 <=? r_len r)%Z then r_pfn r else r_pfn r + absN (r_len r) - 1.
Definition idx_at (r : prange) (p : N) : N :=
  if (0 <=? r_len r)%Z then r_idx r + p - r_pfn r else r_idx r + r_pfn r - p.

(** well-formed stored range: no arithmetic in it wraps *)
Definition wf_r (r : prange) : Prop :=
  1 <= absN (r_len r) /\ absN (r_len r) < H63 /\
  r_pfn r < W /\ r_idx r < H63 /\ absN (r_len r) <= r_idx r + 1 /\
  ((0 <= r_len r)%Z -> absN (r_len r) <= r_pfn r + 1) /\
  ((r_len r < 0)%Z -> r_pfn r + absN (r_len r) <= W).

Lemma in_expand r p i : wf_r r ->
  (In (p, i) (expand r) <-> lo r <= p /\ p <= hi r /\ i = idx_at r p).
Proof.
  intros (H1 & H2 & H3 & H4 & H5 & H6 & H7).
  unfold expand, lo, hi, idx_at, absN in *.
  destruct (Z.leb_spec 0 (r_len r)) as [Hs|Hs].
  - rewrite in_exp_asc by lia. lia.
  - rewrite in_exp_desc by lia. lia.
Qed.

Lemma in_fst_expand r p : wf_r r ->
  (In p (map fst (expand r)) <-> lo r <= p /\ p <= hi r).
Proof.
  intros Hwf. rewrite in_map_iff. split.
  - intros [[p' i] [E Hin]]. cbn in E. subst p'.
    apply (in_expand r p i Hwf) in Hin. tauto.
  - intros H. exists (p, idx_at r p). split; [reflexivity|].
    apply in_expand; tauto.
Qed.

Lemma lo_le_hi r : wf_r r -> lo r <= r_pfn r /\ r_pfn r <= hi r /\ hi r < W.
Proof.
  intros (H1 & H2 & H3 & H4 & H5 & H6 & H7). unfold lo, hi, absN in *.
  destruct (Z.leb_spec 0 (r_len r)); lia.
Qed.

(** * The search loops on sorted, disjoint entries *)

Definition covers (p : N) (r : prange) : bool := (lo r <=? p) && (p <=? hi r).

Lemma search_ranges_break rs p :
  Forall (fun r => p < lo r) rs -> find (covers p) rs = None.
Proof.
  induction 1 as [|r rs Hr _ IH]; cbn [find]; [reflexivity|].
  unfold covers at 1. destruct (N.leb_spec (lo r) p); [lia|]. exact IH.
Qed.

Lemma lo_hi_asc r : (0 <= r_len r)%Z ->
  lo r = r_pfn r + 1 - absN (r_len r) /\ hi r = r_pfn r /\
  forall p, idx_at r p = r_idx r + p - r_pfn r.
Proof.
  intros H. unfold lo, hi, idx_at.
  destruct (Z.leb_spec 0 (r_len r)); [auto|lia].
Qed.

Lemma lo_hi_desc r : (r_len r < 0)%Z ->
  lo r = r_pfn r /\ hi r = r_pfn r + absN (r_len r) - 1 /\
  forall p, idx_at r p = r_idx r + r_pfn r - p.
Proof.
  intros H. unfold lo, hi, idx_at.
  destruct (Z.leb_spec 0 (r_len r)); [lia|auto].
Qed.

Lemma search_ranges_spec rs : forall p,
  Forall wf_r rs -> StronglySorted (fun a b => hi a < lo b) rs -> p < W ->
  search_ranges rs p = option_map (fun r => idx_at r p) (find (covers p) rs).
Proof.
  induction rs as [|r rs IH]; intros p Hwf Hs Hp; [reflexivity|].
  inversion Hwf as [|? ? Hr Hwf']; subst. inversion Hs as [|? ? Hs' Hall]; subst.
  pose proof (lo_le_hi r Hr) as Hlh.
  destruct Hr as (H1 & H2 & H3 & H4 & H5 & H6 & H7).
  cbn [search_ranges find]. unfold covers at 1. unfold absN in *.
  destruct (Z.leb_spec 0 (r_len r)) as [Hsg|Hsg].
  - destruct (lo_hi_asc r Hsg) as (Elo & Ehi & Eidx). unfold absN in *.
    rewrite Elo, Ehi in *.
    replace (wadd (wsub (r_pfn r) (zw (r_len r))) 1) with (r_pfn r + 1 - Z.abs_N (r_len r)) by wsolve.
    destruct (N.ltb_spec p (r_pfn r + 1 - Z.abs_N (r_len r))) as [Hlt|Hge].
    + destruct (N.leb_spec (r_pfn r + 1 - Z.abs_N (r_len r)) p); [lia|]. cbn [andb].
      rewrite search_ranges_break; [reflexivity|].
      eapply Forall_impl; [|exact Hall]. cbn. intros a Ha. lia.
    + destruct (N.leb_spec (r_pfn r + 1 - Z.abs_N (r_len r)) p); [|lia]. cbn [andb].
      destruct (N.leb_spec p (r_pfn r)).
      * cbn [option_map]. f_equal. rewrite Eidx. wsolve.
      * apply IH; assumption.
  - destruct (lo_hi_desc r Hsg) as (Elo & Ehi & Eidx). unfold absN in *.
    rewrite Elo, Ehi in *.
    destruct (N.ltb_spec p (r_pfn r)) as [Hlt|Hge].
    + destruct (N.leb_spec (r_pfn r) p); [lia|]. cbn [andb].
      rewrite search_ranges_break; [reflexivity|].
      eapply Forall_impl; [|exact Hall]. cbn. intros a Ha. lia.
    + destruct (N.leb_spec (r_pfn r) p); [|lia]. cbn [andb].
      replace (wsub (wsub (r_pfn r) (zw (r_len r))) 1) with (r_pfn r + Z.abs_N (r_len r) - 1) by wsolve.
      destruct (N.leb_spec p (r_pfn r + Z.abs_N (r_len r) - 1)).
      * cbn [option_map]. f_equal. rewrite Eidx. wsolve.
      * apply IH; assumption.
Qed.

Lemma search_singles_spec ss : forall p,
  StronglySorted (fun a b => s_pfn a <= s_pfn b) ss ->
  search_singles ss p = option_map s_idx (find (fun s => s_pfn s =? p) ss).
Proof.
  induction ss as [|s ss IH]; intros p Hs; [reflexivity|].
  inversion Hs as [|? ? Hs' Hall]; subst. cbn [search_singles find].
  destruct (N.ltb_spec p (s_pfn s)) as [Hlt|Hge].
  - destruct (N.eqb_spec (s_pfn s) p); [lia|].
    assert (Hn : find (fun s0 => s_pfn s0 =? p) ss = None).
    { clear IH Hs Hs'. induction Hall as [|a l Ha _ IHl]; cbn [find]; [reflexivity|].
      destruct (N.eqb_spec (s_pfn a) p); [lia|]. exact IHl. }
    now rewrite Hn.
  - destruct (N.eqb_spec (s_pfn s) p); [reflexivity|]. apply IH; assumption.
Qed.

(** * Sorting: the theorems use only "sorted permutation" *)

Definition le_pfn (a b : prange) : Prop := r_pfn a <= r_pfn b.
Definition le_spfn (a b : psingle) : Prop := s_pfn a <= s_pfn b.

Lemma insert_r_perm r l : Permutation (insert_r r l) (r :: l).
Proof.
  induction l as [|x t IH]; cbn [insert_r]; [reflexivity|].
  destruct (r_pfn r <=? r_pfn x); [reflexivity|].
  rewrite IH. apply perm_swap.
Qed.

Lemma sort_ranges_perm l : Permutation (sort_ranges l) l.
Proof.
  induction l as [|x t IH]; cbn [sort_ranges fold_right]; [reflexivity|].
  fold (sort_ranges t). rewrite insert_r_perm. now constructor.
Qed.

Lemma insert_r_sorted r l :
  StronglySorted le_pfn l -> StronglySorted le_pfn (insert_r r l).
Proof.
  induction l as [|x t IH]; intros Hs; cbn [insert_r].
  - constructor; constructor.
  - inversion Hs as [|? ? Hs' Hall]; subst.
    destruct (N.leb_spec (r_pfn r) (r_pfn x)) as [Hle|Hgt].
    + constructor; [exact Hs|]. constructor; [exact Hle|].
      eapply Forall_impl; [|exact Hall]. unfold le_pfn. intros a Ha. lia.
    + constructor; [apply IH; exact Hs'|].
      eapply Permutation_Forall; [symmetry; apply insert_r_perm|].
      constructor; [unfold le_pfn; lia|exact Hall].
Qed.

Lemma sort_ranges_sorted l : StronglySorted le_pfn (sort_ranges l).
Proof.
  induction l as [|x t IH]; cbn [sort_ranges fold_right]; [constructor|].
  apply insert_r_sorted. exact IH.
Qed.

Lemma insert_s_perm s l : Permutation (insert_s s l) (s :: l).
Proof.
  induction l as [|x t IH]; cbn [insert_s]; [reflexivity|].
  destruct (s_pfn s <=? s_pfn x); [reflexivity|].
  rewrite IH. apply perm_swap.
Qed.

Lemma sort_singles_perm l : Permutation (sort_singles l) l.
Proof.
  induction l as [|x t IH]; cbn [sort_singles fold_right]; [reflexivity|].
  fold (sort_singles t). rewrite insert_s_perm. now constructor.
Qed.

Lemma insert_s_sorted s l :
  StronglySorted le_spfn l -> StronglySorted le_spfn (insert_s s l).
Proof.
  induction l as [|x t IH]; intros Hs; cbn [insert_s].
  - constructor; constructor.
  - inversion Hs as [|? ? Hs' Hall]; subst.
    destruct (N.leb_spec (s_pfn s) (s_pfn x)) as [Hle|Hgt].
    + constructor; [exact Hs|]. constructor; [exact Hle|].
      eapply Forall_impl; [|exact Hall]. unfold le_spfn. intros a Ha. lia.
    + constructor; [apply IH; exact Hs'|].
      eapply Permutation_Forall; [symmetry; apply insert_s_perm|].
      constructor; [unfold le_spfn; lia|exact Hall].
Qed.

Lemma sort_singles_sorted l : StronglySorted le_spfn (sort_singles l).
Proof.
  induction l as [|x t IH]; cbn [sort_singles fold_right]; [constructor|].
  apply insert_s_sorted. exact IH.
Qed.

(** * Duplicate-free frames make the entries' intervals disjoint *)

Lemma NoDup_app_inv {A} (a b : list A) :
  NoDup (a ++ b) -> NoDup a /\ NoDup b /\ forall x, In x a -> ~ In x b.
Proof.
  induction a as [|x a IH]; cbn [app]; intros H.
  - split; [constructor|]. split; [exact H|]. intros x [].
  - inversion H as [|? ? Hx Hnd]; subst. destruct (IH Hnd) as (Ha & Hb & Hd).
    split; [constructor; [|exact Ha]|split; [exact Hb|]].
    + intro Hin. apply Hx. apply in_or_app. now left.
    + intros y [<-|Hy]; [|now apply Hd].
      intro Hin. apply Hx. apply in_or_app. now right.
Qed.

Lemma NoDup_fst_inj {A B} (l : list (A * B)) p i j :
  NoDup (map fst l) -> In (p, i) l -> In (p, j) l -> i = j.
Proof.
  induction l as [|[q k] l IH]; cbn [map fst In]; intros Hnd Hi Hj; [tauto|].
  inversion Hnd as [|? ? Hq Hnd']; subst.
  destruct Hi as [Ei|Hi]; destruct Hj as [Ej|Hj].
  - congruence.
  - inversion Ei; subst. exfalso. apply Hq. apply in_map_iff. now exists (p, j).
  - inversion Ej; subst. exfalso. apply Hq. apply in_map_iff. now exists (p, i).
  - now apply IH.
Qed.

Lemma disjoint_sorted rs :
  Forall wf_r rs -> StronglySorted le_pfn rs ->
  NoDup (map fst (flat_map expand rs)) ->
  StronglySorted (fun a b => hi a < lo b) rs.
Proof.
  induction rs as [|r rs IH]; intros Hwf Hs Hnd; [constructor|].
  inversion Hwf as [|? ? Hr Hwf']; subst. inversion Hs as [|? ? Hs' Hall]; subst.
  cbn [flat_map] in Hnd. rewrite map_app in Hnd.
  destruct (NoDup_app_inv _ _ Hnd) as (_ & Hnd' & Hdis).
  constructor; [now apply IH|].
  rewrite Forall_forall in *. intros b Hb.
  pose proof (Hall b Hb) as Hle. unfold le_pfn in Hle.
  pose proof (Hwf' b Hb) as Hwb.
  pose proof (lo_le_hi r Hr) as Hr3. pose proof (lo_le_hi b Hwb) as Hb3.
  assert (Hd : forall p, lo r <= p /\ p <= hi r -> ~ (lo b <= p /\ p <= hi b)).
  { intros p Hp Hq. apply (Hdis p).
    - now apply in_fst_expand.
    - apply in_map_iff. apply (in_fst_expand b p Hwb) in Hq.
      apply in_map_iff in Hq. destruct Hq as [x [Ex Hx]]. exists x. split; [exact Ex|].
      apply in_flat_map. now exists b. }
  destruct (N.lt_ge_cases (hi r) (lo b)) as [Hlt|Hge]; [exact Hlt|exfalso].
  destruct (N.le_gt_cases (lo r) (lo b)) as [H1|H1].
  - apply (Hd (lo b)); lia.
  - apply (Hd (lo r)); lia.
Qed.

(** * Search answers from the pair list *)

Lemma search_of_pairs m p :
  Forall wf_r (ranges m) ->
  StronglySorted le_pfn (ranges m) -> StronglySorted le_spfn (singles m) ->
  NoDup (map fst (pairs_of m)) -> p < W ->
  (forall i, In (p, i) (pairs_of m) -> search m p = i) /\
  (~ In p (map fst (pairs_of m)) -> search m p = IDX_NONE).
Proof.
  intros Hwf Hsr Hss Hnd Hp.
  assert (Hnd' : NoDup (map fst (flat_map expand (ranges m)))).
  { unfold pairs_of in Hnd. rewrite map_app in Hnd. now destruct (NoDup_app_inv _ _ Hnd). }
  unfold search.
  rewrite search_ranges_spec by (auto using disjoint_sorted).
  rewrite search_singles_spec by assumption.
  destruct (find (covers p) (ranges m)) as [r|] eqn:Ef.
  - apply find_some in Ef. destruct Ef as [Hin Hc]. cbn [option_map].
    assert (Hpi : In (p, idx_at r p) (pairs_of m)).
    { unfold pairs_of. apply in_or_app. left. apply in_flat_map. exists r. split; [exact Hin|].
      rewrite Forall_forall in Hwf. apply in_expand; [now apply Hwf|].
      unfold covers in Hc. lia. }
    split.
    + intros i Hi. exact (NoDup_fst_inj (pairs_of m) p _ _ Hnd Hpi Hi).
    + intros Hno. exfalso. apply Hno. apply in_map_iff. now exists (p, idx_at r p).
  - cbn [option_map].
    destruct (find (fun s => s_pfn s =? p) (singles m)) as [s|] eqn:Es.
    + apply find_some in Es. destruct Es as [Hin Hc]. cbn [option_map].
      apply N.eqb_eq in Hc.
      assert (Hpi : In (p, s_idx s) (pairs_of m)).
      { unfold pairs_of. apply in_or_app. right. apply in_map_iff. exists s.
        split; [unfold spair; now rewrite Hc|exact Hin]. }
      split.
      * intros i Hi. exact (NoDup_fst_inj (pairs_of m) p _ _ Hnd Hpi Hi).
      * intros Hno. exfalso. apply Hno. apply in_map_iff. now exists (p, s_idx s).
    + cbn [option_map].
      assert (Hnone : forall i, ~ In (p, i) (pairs_of m)).
      { intros i Hi. unfold pairs_of in Hi. apply in_app_or in Hi. destruct Hi as [Hi|Hi].
        - apply in_flat_map in Hi. destruct Hi as [r [Hr Hi]].
          rewrite Forall_forall in Hwf. apply (in_expand r p i (Hwf r Hr)) in Hi.
          pose proof (find_none _ _ Ef r Hr) as Hc. unfold covers in Hc. lia.
        - apply in_map_iff in Hi. destruct Hi as [s [Es' Hs]].
          pose proof (find_none _ _ Es s Hs) as Hc. unfold spair in Es'. inversion Es'; subst.
          rewrite N.eqb_refl in Hc. discriminate. }
      split; [intros i Hi; exfalso; exact (Hnone i Hi)|reflexivity].
Qed.

(** * The page list, numbered *)

Fixpoint pairs_from (i : N) (l : list N) : list (N * N) :=
  match l with [] => [] | p :: t => (p, i) :: pairs_from (i + 1) t end.

Lemma pairs_from_fst l : forall i, map fst (pairs_from i l) = l.
Proof. induction l as [|p t IH]; intros i; cbn [pairs_from map fst]; [reflexivity|now rewrite IH]. Qed.

Lemma pairs_from_app l1 : forall i l2,
  pairs_from i (l1 ++ l2) = pairs_from i l1 ++ pairs_from (i + N.of_nat (length l1)) l2.
Proof.
  induction l1 as [|p t IH]; intros i l2; cbn [pairs_from app length].
  - f_equal. lia.
  - rewrite IH. cbn [app]. do 3 f_equal. lia.
Qed.

Lemma in_pairs_from l : forall i p j,
  In (p, j) (pairs_from i l) <-> exists k, nth_error l k = Some p /\ j = i + N.of_nat k.
Proof.
  induction l as [|q t IH]; intros i p j; cbn [pairs_from In].
  - split; [tauto|]. intros [[|k] [H _]]; discriminate.
  - rewrite IH. split.
    + intros [E|[k [Hk Ej]]].
      * inversion E; subst. exists O. split; [reflexivity|lia].
      * exists (S k). split; [exact Hk|lia].
    + intros [[|k] [Hk Ej]].
      * left. cbn in Hk. inversion Hk; subst. f_equal. lia.
      * right. exists k. split; [exact Hk|lia].
Qed.

Lemma find_index_none p l : find_index p l = None <-> ~ In p l.
Proof.
  induction l as [|x t IH]; cbn [find_index In]; [tauto|].
  destruct (N.eqb_spec x p).
  - split; [discriminate|]. intros H. exfalso. apply H. now left.
  - destruct (find_index p t) as [i|].
    + split; [discriminate|]. intros H. assert (Hn : ~ In p t) by tauto.
      apply IH in Hn. discriminate.
    + destruct IH as [IH1 _]. specialize (IH1 eq_refl). split; [tauto|reflexivity].
Qed.

Lemma find_index_nodup p l k :
  NoDup l -> nth_error l k = Some p -> find_index p l = Some k.
Proof.
  revert k. induction l as [|x t IH]; intros k Hnd Hk; [destruct k; discriminate|].
  inversion Hnd as [|? ? Hx Hnd']; subst. cbn [find_index].
  destruct k as [|k]; cbn [nth_error] in Hk.
  - inversion Hk; subst. now rewrite N.eqb_refl.
  - destruct (N.eqb_spec x p) as [->|Hne].
    + exfalso. apply Hx. eapply nth_error_In; eauto.
    + now rewrite (IH k Hnd' Hk).
Qed.

Lemma find_index_some p l k : find_index p l = Some k -> nth_error l k = Some p.
Proof.
  revert k. induction l as [|x t IH]; intros k; cbn [find_index]; [discriminate|].
  destruct (N.eqb_spec x p) as [->|Hne].
  - intros E. inversion E. reflexivity.
  - destruct (find_index p t) as [i|]; [|discriminate]. intros E. inversion E; subst.
    cbn [nth_error]. now apply IH.
Qed.

(** any sorted index whose pairs are the numbered page list answers with the position *)
Lemma search_is_position_gen m l p :
  Forall wf_r (ranges m) ->
  StronglySorted le_pfn (ranges m) -> StronglySorted le_spfn (singles m) ->
  Permutation (pairs_of m) (pairs_from 0 l) ->
  NoDup l -> p < W ->
  search m p = enc (find_index p l).
Proof.
  intros Hwf Hsr Hss Hperm Hnd Hp.
  assert (Hndm : NoDup (map fst (pairs_of m))).
  { eapply Permutation_NoDup; [apply Permutation_map; symmetry; exact Hperm|].
    now rewrite pairs_from_fst. }
  destruct (search_of_pairs m p Hwf Hsr Hss Hndm Hp) as [Hyes Hno].
  destruct (find_index p l) as [k|] eqn:Ef; cbn [enc].
  - apply Hyes. eapply Permutation_in; [symmetry; exact Hperm|].
    apply in_pairs_from. exists k. split; [now apply find_index_some|lia].
  - apply Hno. intro Hin. apply find_index_none in Ef. apply Ef.
    rewrite <- (pairs_from_fst l 0).
    eapply Permutation_in; [apply Permutation_map; exact Hperm|exact Hin].
Qed.

(** * Invariant of the construction loop *)

Definition cur_pairs (cur : prange) : list (N * N) :=
  if (r_len cur =? 0)%Z then []
  else expand {| r_pfn := r_pfn cur; r_idx := r_idx cur - 1; r_len := r_len cur |}.

Definition wf_cur (cur : prange) : Prop :=
  r_idx cur < H63 /\ absN (r_len cur) <= r_idx cur /\ r_len cur <> (-1)%Z /\
  (r_len cur <> 0%Z ->
     r_pfn cur < W /\
     ((0 < r_len cur)%Z -> absN (r_len cur) <= r_pfn cur + 1) /\
     ((r_len cur < 0)%Z -> r_pfn cur + absN (r_len cur) <= W)).

Record inv (m : pmap) (cur : prange) (D : list (N * N)) : Prop := {
  inv_perm : Permutation (cur_pairs cur ++ pairs_of m) D;
  inv_wf : Forall wf_r (ranges m);
  inv_cur : wf_cur cur }.

Lemma inv_start junk : inv (fst (map_start junk)) (snd (map_start junk)) [].
Proof.
  split; cbn.
  - constructor.
  - constructor.
  - unfold wf_cur, H63, absN. cbn. repeat split; try lia.
Qed.

Lemma addrange_inv m cur D ok m' :
  inv m cur D -> addrange m cur ok = Some m' ->
  Permutation (pairs_of m') D /\ Forall wf_r (ranges m').
Proof.
  intros [Hperm Hwf (Hi & Hn & Hm1 & Hc)] Ha. unfold addrange in Ha.
  unfold cur_pairs in Hperm. unfold absN in *.
  destruct ((1 <? r_len cur)%Z || (r_len cur <? -1)%Z)%bool eqn:Ebig.
  - destruct (needs_alloc (length (ranges m)) && negb ok)%bool; [discriminate|].
    inversion Ha; subst m'; clear Ha. cbn [ranges singles pairs_of].
    assert (Hne : r_len cur <> 0%Z) by lia.
    destruct (Hc Hne) as (Hp & Hup & Hdn).
    replace (wsub (r_idx cur) 1) with (r_idx cur - 1) by wsolve.
    destruct (Z.eqb_spec (r_len cur) 0) as [|_]; [lia|].
    split.
    + unfold pairs_of. cbn [ranges singles]. rewrite flat_map_app. cbn [flat_map].
      rewrite app_nil_r. eapply perm_trans; [|exact Hperm].
      unfold pairs_of. rewrite <- app_assoc. apply Permutation_app_swap_app.
    + apply Forall_app. split; [exact Hwf|]. constructor; [|constructor].
      unfold wf_r, absN, H63 in *. cbn [r_len r_pfn r_idx]. repeat split; lia.
  - destruct (Z.eqb_spec (r_len cur) 0) as [Hz|Hnz]; cbn [negb] in Ha.
    + inversion Ha; subst m'. split; [exact Hperm|exact Hwf].
    + destruct (needs_alloc (length (singles m)) && negb ok)%bool; [discriminate|].
      inversion Ha; subst m'; clear Ha.
      assert (H1 : r_len cur = 1%Z) by lia.
      destruct (Hc Hnz) as (Hp & Hup & Hdn).
      replace (wsub (r_idx cur) 1) with (r_idx cur - 1) by wsolve.
      split; [|exact Hwf].
      unfold pairs_of in *. cbn [ranges singles]. rewrite map_app. cbn [map].
      eapply perm_trans; [|exact Hperm].
      unfold expand. cbn [r_len r_pfn r_idx]. rewrite H1. cbn [Z.leb Z.compare Z.abs_nat Pos.to_nat Pos.iter_op exp_asc].
      rewrite app_assoc. unfold spair at 2. cbn [s_pfn s_idx].
      symmetry. apply Permutation_cons_append.
Qed.

Lemma add_inv m cur D p ok m' cur' :
  inv m cur D -> p < W -> r_idx cur + 1 < H63 ->
  add true m cur p ok = Some (m', cur') ->
  inv m' cur' (D ++ [(p, r_idx cur)]) /\ r_idx cur' = r_idx cur + 1.
Proof.
  intros Hinv Hp Hidx Ha.
  pose proof Hinv as [Hperm Hwf (Hi & Hn & Hm1 & Hc)].
  unfold add in Ha. cbn [negb orb] in Ha. unfold absN in *.
  assert (Eidx : wadd (r_idx cur) 1 = r_idx cur + 1) by wsolve.
  rewrite Eidx in Ha.
  destruct ((0 <? r_len cur)%Z && (p =? wadd (r_pfn cur) 1) && (r_pfn cur <? p))%bool eqn:E1.
  { (* ascending run continues *)
    inversion Ha; subst m' cur'; clear Ha. cbn [r_idx]. split; [|reflexivity].
    assert (Hpos : (0 < r_len cur)%Z) by lia.
    destruct (Hc ltac:(lia)) as (Hpf & Hup & Hdn).
    assert (Ep : p = r_pfn cur + 1) by wsolve.
    split; [|exact Hwf|].
    - unfold cur_pairs in *. cbn [r_len r_pfn r_idx].
      destruct (Z.eqb_spec (r_len cur + 1) 0); [lia|].
      destruct (Z.eqb_spec (r_len cur) 0); [lia|].
      unfold expand in *. cbn [r_len r_pfn r_idx] in *.
      destruct (Z.leb_spec 0 (r_len cur + 1)); [|lia].
      destruct (Z.leb_spec 0 (r_len cur)); [|lia].
      replace (Z.abs_nat (r_len cur + 1)) with (S (Z.abs_nat (r_len cur))) by lia.
      cbn [exp_asc app].
      replace (r_idx cur + 1 - 1) with (r_idx cur) by lia.
      replace (p - 1) with (r_pfn cur) by lia.
      eapply perm_trans; [|apply Permutation_cons_append]. now constructor.
    - unfold wf_cur, absN, H63 in *. cbn [r_len r_pfn r_idx]. repeat split; lia. }
  destruct ((r_len cur <? 0)%Z && (p =? wsub (r_pfn cur) 1) && (p <? r_pfn cur))%bool eqn:E2.
  { (* descending run continues *)
    inversion Ha; subst m' cur'; clear Ha. cbn [r_idx]. split; [|reflexivity].
    assert (Hneg : (r_len cur < 0)%Z) by lia.
    destruct (Hc ltac:(lia)) as (Hpf & Hup & Hdn).
    assert (Ep : r_pfn cur = p + 1) by wsolve.
    split; [|exact Hwf|].
    - unfold cur_pairs in *. cbn [r_len r_pfn r_idx].
      destruct (Z.eqb_spec (r_len cur - 1) 0); [lia|].
      destruct (Z.eqb_spec (r_len cur) 0); [lia|].
      unfold expand in *. cbn [r_len r_pfn r_idx] in *.
      destruct (Z.leb_spec 0 (r_len cur - 1)); [lia|].
      destruct (Z.leb_spec 0 (r_len cur)); [lia|].
      replace (Z.abs_nat (r_len cur - 1)) with (S (Z.abs_nat (r_len cur))) by lia.
      cbn [exp_desc app].
      replace (r_idx cur + 1 - 1) with (r_idx cur) by lia.
      rewrite <- Ep.
      eapply perm_trans; [|apply Permutation_cons_append]. now constructor.
    - unfold wf_cur, absN, H63 in *. cbn [r_len r_pfn r_idx]. repeat split; lia. }
  destruct ((r_len cur =? 1)%Z && (p =? wsub (r_pfn cur) 1) && (p <? r_pfn cur))%bool eqn:E3.
  { (* a single frame followed by its predecessor: the run turns descending *)
    inversion Ha; subst m' cur'; clear Ha. cbn [r_idx]. split; [|reflexivity].
    assert (H1 : r_len cur = 1%Z) by lia.
    destruct (Hc ltac:(lia)) as (Hpf & Hup & Hdn).
    assert (Ep : r_pfn cur = p + 1) by wsolve.
    split; [|exact Hwf|].
    - unfold cur_pairs in *. cbn [r_len r_pfn r_idx]. rewrite H1 in Hperm.
      cbn [Z.eqb] in *. unfold expand in *. cbn [r_len r_pfn r_idx] in *.
      cbn [Z.leb Z.compare Z.abs_nat] in *.
      change (Pos.to_nat 2) with 2%nat. change (Pos.to_nat 1) with 1%nat in Hperm.
      cbn [exp_asc exp_desc app] in *.
      replace (r_idx cur + 1 - 1) with (r_idx cur) by lia.
      rewrite <- Ep.
      eapply perm_trans; [|apply Permutation_cons_append]. now constructor.
    - unfold wf_cur, absN, H63 in *. cbn [r_len r_pfn r_idx]. repeat split; lia. }
  (* the current run is flushed, a new one starts *)
  destruct (addrange m cur ok) as [m''|] eqn:Ear; [|discriminate].
  inversion Ha; subst m' cur'; clear Ha. cbn [r_idx]. split; [|reflexivity].
  destruct (addrange_inv m cur D ok m'' Hinv Ear) as [Hperm' Hwf'].
  split; [|exact Hwf'|].
  - unfold cur_pairs. cbn [r_len r_pfn r_idx Z.eqb]. unfold expand.
    cbn [r_len r_pfn r_idx Z.leb Z.compare Z.abs_nat Pos.to_nat Pos.iter_op exp_asc app].
    replace (r_idx cur + 1 - 1) with (r_idx cur) by lia.
    eapply perm_trans; [|apply Permutation_cons_append]. now constructor.
  - unfold wf_cur, absN, H63 in *. cbn [r_len r_pfn r_idx]. repeat split; lia.
Qed.

Lemma add_true_some g m cur p : add g m cur p true <> None.
Proof.
  unfold add, addrange. rewrite !andb_false_r.
  repeat match goal with |- context [if ?c then _ else _] => destruct c end; discriminate.
Qed.

Lemma add_all_inv l : forall m cur D,
  inv m cur D -> Forall (fun e => fst e < W) l ->
  r_idx cur + N.of_nat (length l) < H63 ->
  forall m' cur' fine, add_all true m cur l = (m', cur', fine) ->
  (fine = true ->
     inv m' cur' (D ++ pairs_from (r_idx cur) (map fst l)) /\
     r_idx cur' = r_idx cur + N.of_nat (length l)) /\
  (fine = false -> Exists (fun e => snd e = false) l).
Proof.
  induction l as [|[p ok] t IH]; intros m cur D Hinv Hall Hlen m' cur' fine Hrun;
    cbn [add_all] in Hrun.
  - inversion Hrun; subst. split; [|discriminate]. intros _. cbn [map pairs_from length].
    rewrite app_nil_r. split; [exact Hinv|lia].
  - inversion Hall as [|? ? Hp Hall']; subst. cbn [fst] in Hp. cbn [length] in Hlen.
    destruct (add true m cur p ok) as [[m1 c1]|] eqn:Ea.
    + destruct (add_inv m cur D p ok m1 c1 Hinv Hp ltac:(lia) Ea) as [Hinv1 Hidx1].
      destruct (IH m1 c1 _ Hinv1 Hall' ltac:(lia) m' cur' fine Hrun) as [Hy Hn].
      split.
      * intros Hf. destruct (Hy Hf) as [Hinv' Hidx']. split; [|cbn [length]; lia].
        cbn [map fst pairs_from]. rewrite Hidx1 in Hinv'.
        rewrite <- app_assoc in Hinv'. exact Hinv'.
      * intros Hf. right. now apply Hn.
    + inversion Hrun; subst. split; [discriminate|]. intros _. left. cbn [snd].
      destruct ok; [|reflexivity]. exfalso. eapply add_true_some; exact Ea.
Qed.

Lemma map_end_inv m cur D ok m' :
  inv m cur D -> map_end m cur ok = Some m' ->
  Permutation (pairs_of m') D /\ Forall wf_r (ranges m') /\
  StronglySorted le_pfn (ranges m') /\ StronglySorted le_spfn (singles m').
Proof.
  intros Hinv He. unfold map_end in He.
  destruct (addrange m cur ok) as [m1|] eqn:Ea; [|discriminate].
  inversion He; subst m'; clear He. cbn [ranges singles].
  destruct (addrange_inv m cur D ok m1 Hinv Ea) as [Hperm Hwf].
  split; [|split; [|split]].
  - eapply perm_trans; [|exact Hperm]. unfold pairs_of. cbn [ranges singles].
    apply Permutation_app.
    + apply Permutation_flat_map. apply sort_ranges_perm.
    + apply Permutation_map. apply sort_singles_perm.
  - eapply Permutation_Forall; [symmetry; apply sort_ranges_perm|exact Hwf].
  - apply sort_ranges_sorted.
  - apply sort_singles_sorted.
Qed.

Lemma map_end_true_some m cur : map_end m cur true <> None.
Proof.
  unfold map_end, addrange. rewrite !andb_false_r.
  repeat match goal with |- context [if ?c then _ else _] => destruct c end; discriminate.
Qed.

(** * Main theorem about the index *)

Theorem build_search_is_position junk l okend :
  NoDup (map fst l) -> Forall (fun e => fst e < W) l -> N.of_nat (length l) < H63 ->
  match build junk l okend with
  | Built m => forall p, p < W -> search m p = enc (find_index p (map fst l))
  | Failed _ => okend = false \/ Exists (fun e => snd e = false) l
  end.
Proof.
  intros Hnd Hall Hlen. unfold build, build_gen.
  pose proof (inv_start junk) as H0.
  destruct (map_start junk) as [m0 c0] eqn:Es. cbn [fst snd] in H0.
  assert (Hi0 : r_idx c0 = 0) by (unfold map_start in Es; inversion Es; reflexivity).
  destruct (add_all true m0 c0 l) as [[m cur] fine] eqn:Er.
  destruct (add_all_inv l m0 c0 [] H0 Hall ltac:(lia) m cur fine Er) as [Hy Hn].
  destruct fine.
  - destruct (Hy eq_refl) as [Hinv Hidx]. cbn [app] in Hinv. rewrite Hi0 in Hinv.
    destruct (map_end m cur okend) as [m'|] eqn:Ee.
    + destruct (map_end_inv m cur _ okend m' Hinv Ee) as (Hperm & Hwf & Hsr & Hss).
      intros p Hp. now apply search_is_position_gen.
    + left. destruct okend; [|reflexivity]. exfalso. eapply map_end_true_some; exact Ee.
  - right. now apply Hn.
Qed.

Definition all_ok (l : list N) : list (N * bool) := map (fun p => (p, true)) l.

Lemma all_ok_fst l : map fst (all_ok l) = l.
Proof. unfold all_ok. rewrite map_map. cbn. apply map_id. Qed.

Theorem search_is_position junk l :
  NoDup l -> Forall (fun p => p < W) l -> N.of_nat (length l) < H63 ->
  exists m, build junk (all_ok l) true = Built m /\
            forall p, p < W -> search m p = enc (find_index p l).
Proof.
  intros Hnd Hall Hlen.
  pose proof (build_search_is_position junk (all_ok l) true) as H.
  rewrite all_ok_fst in H.
  assert (Hl : length (all_ok l) = length l) by (unfold all_ok; apply map_length).
  rewrite Hl in H. specialize (H Hnd).
  assert (Hall' : Forall (fun e : N * bool => fst e < W) (all_ok l)).
  { unfold all_ok. rewrite Forall_map. exact Hall. }
  specialize (H Hall' Hlen).
  destruct (build junk (all_ok l) true) as [m|c].
  - exists m. split; [reflexivity|exact H].
  - exfalso. destruct H as [H|H]; [discriminate|].
    apply Exists_exists in H. destruct H as [e [Hin He]].
    unfold all_ok in Hin. apply in_map_iff in Hin. destruct Hin as [p [E _]]. subst e. discriminate.
Qed.

(** |len| never exceeds the number of frames added: the [int_fast64_t] cannot
    overflow for any list shorter than 2^63 *)
Lemma len_bounded l : forall junk m cur fine,
  Forall (fun e => fst e < W) l -> N.of_nat (length l) < H63 ->
  add_all true (fst (map_start junk)) (snd (map_start junk)) l = (m, cur, fine) ->
  fine = true -> absN (r_len cur) <= N.of_nat (length l).
Proof.
  intros junk m cur fine Hall Hlen Hrun Hf.
  destruct (add_all_inv l _ _ [] (inv_start junk) Hall ltac:(cbn; lia) m cur fine Hrun) as [Hy _].
  destruct (Hy Hf) as [[_ _ (Hi & Hn & _)] Hidx]. cbn in Hidx. lia.
Qed.

(** * The xc_core layer *)

Definition col_p (l : list (N * N * bool * bool)) : list (N * bool) :=
  map (fun e => (fst (fst (fst e)), snd (fst e))) l.
Definition col_m (l : list (N * N * bool * bool)) : list (N * bool) :=
  map (fun e => (snd (fst (fst e)), snd e)) l.

(* the interleaved loop of make_xen_pfn_map_nonauto succeeds exactly when the
   two column-wise loops do, with the same results *)
Lemma add_all2_split l : forall pm pc mm mc pm' pc' mm' mc',
  add_all2 pm pc mm mc l = Some (pm', pc', mm', mc') ->
  add_all true pm pc (col_p l) = (pm', pc', true) /\
  add_all true mm mc (col_m l) = (mm', mc', true).
Proof.
  induction l as [|[[[p g] okp] okm] t IH]; intros pm pc mm mc pm' pc' mm' mc' H;
    cbn [add_all2 col_p col_m map add_all fst snd] in *.
  - inversion H; subst. split; reflexivity.
  - destruct (add true pm pc p okp) as [[pm1 pc1]|]; [|discriminate].
    destruct (add true mm mc g okm) as [[mm1 mc1]|]; [|discriminate].
    apply IH in H. exact H.
Qed.

Lemma add_all2_ok l : forall pm pc mm mc,
  Forall (fun e => snd (fst e) = true /\ snd e = true) l ->
  add_all2 pm pc mm mc l <> None.
Proof.
  induction l as [|[[[p g] okp] okm] t IH]; intros pm pc mm mc Hall; cbn [add_all2];
    [discriminate|].
  inversion Hall as [|? ? [H1 H2] Hall']; subst. cbn [fst snd] in H1, H2. subst okp okm.
  destruct (add true pm pc p true) as [[pm1 pc1]|] eqn:E1; [|exfalso; eapply add_true_some; exact E1].
  destruct (add true mm mc g true) as [[mm1 mc1]|] eqn:E2; [|exfalso; eapply add_true_some; exact E2].
  now apply IH.
Qed.

Definition all_ok2 (es : list (N * N)) : list (N * N * bool * bool) :=
  map (fun e => (fst e, snd e, true, true)) es.

Lemma col_p_all_ok2 es : col_p (all_ok2 es) = all_ok (map fst es).
Proof. unfold col_p, all_ok2, all_ok. rewrite !map_map. reflexivity. Qed.
Lemma col_m_all_ok2 es : col_m (all_ok2 es) = all_ok (map snd es).
Proof. unfold col_m, all_ok2, all_ok. rewrite !map_map. reflexivity. Qed.

Lemma entries_all_ok2 es :
  map (fun e : N * N * bool * bool => (fst (fst (fst e)), snd (fst (fst e)))) (all_ok2 es) = es.
Proof.
  unfold all_ok2. rewrite map_map. cbn [fst snd].
  induction es as [|[p g] t IH]; cbn [map fst snd]; [reflexivity|now rewrite IH].
Qed.

(* the index built by the non-auto loop is the pair of column-wise indices *)
Lemma make_nonauto_built junkp junkm sh es :
  NoDup (map fst es) -> NoDup (map snd es) ->
  Forall (fun e => fst e < W /\ snd e < W) es -> N.of_nat (length es) < H63 ->
  exists x, make_nonauto junkp junkm sh (all_ok2 es) true true = XBuilt x /\
    nonauto x = true /\ entries x = es /\ shift x = sh /\
    (forall p, p < W -> search (pfnmap x) p = enc (find_index p (map fst es))) /\
    (forall g, g < W -> search (mfnmap x) g = enc (find_index g (map snd es))).
Proof.
  intros Hndp Hndm Hall Hlen.
  assert (Hallp : Forall (fun p => p < W) (map fst es)).
  { rewrite Forall_map. eapply Forall_impl; [|exact Hall]. cbn. tauto. }
  assert (Hallm : Forall (fun p => p < W) (map snd es)).
  { rewrite Forall_map. eapply Forall_impl; [|exact Hall]. cbn. tauto. }
  destruct (search_is_position junkp (map fst es) Hndp Hallp ltac:(now rewrite map_length))
    as [pm [Hbp Hsp]].
  destruct (search_is_position junkm (map snd es) Hndm Hallm ltac:(now rewrite map_length))
    as [mm [Hbm Hsm]].
  unfold make_nonauto. unfold build, build_gen in Hbp, Hbm.
  destruct (map_start junkp) as [pm0 pc0]. destruct (map_start junkm) as [mm0 mc0].
  destruct (add_all2 pm0 pc0 mm0 mc0 (all_ok2 es)) as [[[[pm1 pc1] mm1] mc1]|] eqn:E2.
  - apply add_all2_split in E2. rewrite col_p_all_ok2, col_m_all_ok2 in E2.
    destruct E2 as [Ep Em]. rewrite Ep in Hbp. rewrite Em in Hbm.
    destruct (map_end pm1 pc1 true) as [pm'|]; [|discriminate].
    destruct (map_end mm1 mc1 true) as [mm'|]; [|discriminate].
    inversion Hbp; subst pm'. inversion Hbm; subst mm'.
    eexists. split; [reflexivity|]. cbn [nonauto entries shift pfnmap mfnmap].
    rewrite entries_all_ok2. repeat split; assumption.
  - exfalso. eapply add_all2_ok; [|exact E2].
    unfold all_ok2. rewrite Forall_map. apply Forall_forall. intros e _. cbn. tauto.
Qed.

Lemma find_index_map_fst (es : list (N * N)) k p g :
  NoDup (map fst es) -> nth_error es k = Some (p, g) -> find_index p (map fst es) = Some k.
Proof.
  intros Hnd Hk. apply find_index_nodup; [exact Hnd|].
  rewrite nth_error_map, Hk. reflexivity.
Qed.
Lemma find_index_map_snd (es : list (N * N)) k p g :
  NoDup (map snd es) -> nth_error es k = Some (p, g) -> find_index g (map snd es) = Some k.
Proof.
  intros Hnd Hk. apply find_index_nodup; [exact Hnd|].
  rewrite nth_error_map, Hk. reflexivity.
Qed.

Lemma shiftr_lt a sh : a < W -> N.shiftr a sh < W.
Proof.
  intros Ha. rewrite N.shiftr_div_pow2.
  assert (H2 : 2 ^ sh <> 0) by (apply N.pow_nonzero; discriminate).
  eapply N.le_lt_trans; [|exact Ha].
  apply N.div_le_upper_bound; [exact H2|]. nia.
Qed.

Section XcViews.
  Variables (junkp junkm sh : N) (es : list (N * N)).
  Hypothesis Hndp : NoDup (map fst es).
  Hypothesis Hndm : NoDup (map snd es).
  Hypothesis Hall : Forall (fun e => fst e < W /\ snd e < W) es.
  Hypothesis Hlen : N.of_nat (length es) < H63.

  (** every listed page is found by its guest frame and equally by its
      machine frame: both give the position of the pair, i.e. the same page *)
  Lemma both_views_same_page :
    exists x, make_nonauto junkp junkm sh (all_ok2 es) true true = XBuilt x /\
      forall k p g ap am,
        nth_error es k = Some (p, g) -> ap < W -> am < W ->
        N.shiftr ap sh = p -> N.shiftr am sh = g ->
        page_of x false ap = N.of_nat k /\ page_of x true am = N.of_nat k /\
        N.of_nat k <> IDX_NONE.
  Proof.
    destruct (make_nonauto_built junkp junkm sh es Hndp Hndm Hall Hlen)
      as (x & Hb & Hna & Hes & Hsh & Hsp & Hsm).
    exists x. split; [exact Hb|].
    intros k p g ap am Hk Hap Ham Ep Em.
    assert (Hkl : (k < length es)%nat) by (apply nth_error_Some; congruence).
    unfold page_of, get_page_idx. rewrite Hna, Hsh. cbn [andb].
    rewrite Ep, Em.
    rewrite Hsp by (rewrite <- Ep; now apply shiftr_lt).
    rewrite Hsm by (rewrite <- Em; now apply shiftr_lt).
    rewrite (find_index_map_fst es k p g Hndp Hk), (find_index_map_snd es k p g Hndm Hk).
    cbn [enc]. repeat split. unfold IDX_NONE. wsolve.
  Qed.

  (** frames the dump does not list are missing in both views, and the
      translation steps report "no data" for them *)
  Lemma unlisted_missing_both :
    exists x, make_nonauto junkp junkm sh (all_ok2 es) true true = XBuilt x /\
      (forall a, a < W -> ~ In (N.shiftr a sh) (map fst es) ->
         page_of x false a = IDX_NONE /\ p2m_step x a = NoData) /\
      (forall a, a < W -> ~ In (N.shiftr a sh) (map snd es) ->
         page_of x true a = IDX_NONE /\ m2p_step x a = NoData).
  Proof.
    destruct (make_nonauto_built junkp junkm sh es Hndp Hndm Hall Hlen)
      as (x & Hb & Hna & Hes & Hsh & Hsp & Hsm).
    exists x. split; [exact Hb|].
    split; intros a Ha Hno; unfold page_of, get_page_idx, p2m_step, m2p_step;
      rewrite Hna, Hsh; cbn [andb].
    - rewrite Hsp by now apply shiftr_lt.
      apply find_index_none in Hno. rewrite Hno. cbn [enc]. split; reflexivity.
    - rewrite Hsm by now apply shiftr_lt.
      apply find_index_none in Hno. rewrite Hno. cbn [enc]. split; reflexivity.
  Qed.

  (** guest-physical -> machine-physical -> guest-physical is the identity on
      every listed address (page offset included), provided the machine frame
      has an address at all *)
  Lemma p2m_m2p_roundtrip :
    sh <= 64 ->
    exists x, make_nonauto junkp junkm sh (all_ok2 es) true true = XBuilt x /\
      forall k p g a,
        nth_error es k = Some (p, g) -> a < W -> N.shiftr a sh = p -> g < 2 ^ (64 - sh) ->
        exists a', p2m_step x a = Xlat a' /\ a' = g * 2 ^ sh + a mod 2 ^ sh /\
                   m2p_step x a' = Xlat a.
  Proof.
    intros Hsh64.
    destruct (make_nonauto_built junkp junkm sh es Hndp Hndm Hall Hlen)
      as (x & Hb & Hna & Hes & Hsh & Hsp & Hsm).
    exists x. split; [exact Hb|].
    intros k p g a Hk Ha Ep Hg.
    assert (Hkl : (k < length es)%nat) by (apply nth_error_Some; congruence).
    assert (H2 : 2 ^ sh <> 0) by (apply N.pow_nonzero; discriminate).
    assert (HW : 2 ^ (64 - sh) * 2 ^ sh = W).
    { rewrite <- N.pow_add_r. replace (64 - sh + sh) with 64 by lia. now rewrite W_val. }
    assert (Hoff : a mod 2 ^ sh < 2 ^ sh) by now apply N.mod_lt.
    assert (Hgw : g * 2 ^ sh + 2 ^ sh <= W) by nia.
    assert (Hgl : g < W).
    { assert (1 <= 2 ^ sh) by (apply N.neq_0_lt_0 in H2; lia). nia. }
    set (a' := g * 2 ^ sh + a mod 2 ^ sh).
    assert (Ha' : a' < W) by (unfold a'; lia).
    assert (Ea' : N.shiftr a' sh = g).
    { rewrite N.shiftr_div_pow2. unfold a'. rewrite N.div_add_l by exact H2.
      rewrite N.div_small by exact Hoff. lia. }
    assert (Ema' : a' mod 2 ^ sh = a mod 2 ^ sh).
    { unfold a'. rewrite N.add_comm, N.mod_add by exact H2. now apply N.mod_small. }
    assert (Hpa : p * 2 ^ sh + a mod 2 ^ sh = a).
    { rewrite <- Ep, N.shiftr_div_pow2. rewrite N.mul_comm. symmetry. now apply N.div_mod. }
    exists a'. unfold p2m_step, m2p_step. rewrite Hsh, Hes.
    rewrite Ep, Ea'.
    rewrite Hsp by (rewrite <- Ep; now apply shiftr_lt).
    rewrite Hsm by exact Hgl.
    rewrite (find_index_map_fst es k p g Hndp Hk), (find_index_map_snd es k p g Hndm Hk).
    cbn [enc]. rewrite Nnat.Nat2N.id, Hk.
    assert (Hne : (N.of_nat k =? IDX_NONE) = false).
    { apply N.eqb_neq. unfold IDX_NONE. wsolve. }
    rewrite Hne. rewrite !N.land_ones, Ema'.
    unfold wshl. rewrite !N.shiftl_mul_pow2.
    split; [|split; [reflexivity|]]; f_equal.
    - unfold a'. unfold wadd, w. rewrite (N.mod_small (g * 2 ^ sh)) by lia.
      apply N.mod_small. lia.
    - unfold wadd, w. rewrite (N.mod_small (p * 2 ^ sh)) by lia.
      rewrite Hpa. now apply N.mod_small.
  Qed.
End XcViews.

(** auto-translated dumps have one column: either address space selects by
    the guest frame *)
Lemma auto_views junk sh l :
  NoDup l -> Forall (fun p => p < W) l -> N.of_nat (length l) < H63 ->
  exists x, make_auto junk sh (all_ok l) true = XBuilt x /\
    forall mach a, a < W ->
      page_of x mach a = enc (find_index (N.shiftr a sh) l).
Proof.
  intros Hnd Hall Hlen.
  destruct (search_is_position junk l Hnd Hall Hlen) as [m [Hb Hs]].
  unfold make_auto. rewrite Hb. eexists. split; [reflexivity|].
  intros mach a Ha. unfold page_of, get_page_idx. cbn [nonauto pfnmap shift andb].
  apply Hs. now apply shiftr_lt.
Qed.

(** * Independence of the order produced by [qsort] *)

Lemma build_facts junk l okend m :
  Forall (fun e => fst e < W) l -> N.of_nat (length l) < H63 ->
  build junk l okend = Built m ->
  Forall wf_r (ranges m) /\ Permutation (pairs_of m) (pairs_from 0 (map fst l)).
Proof.
  intros Hall Hlen. unfold build, build_gen.
  pose proof (inv_start junk) as H0.
  destruct (map_start junk) as [m0 c0] eqn:Es. cbn [fst snd] in H0.
  assert (Hi0 : r_idx c0 = 0) by (unfold map_start in Es; inversion Es; reflexivity).
  destruct (add_all true m0 c0 l) as [[m1 cur] fine] eqn:Er.
  destruct (add_all_inv l m0 c0 [] H0 Hall ltac:(lia) m1 cur fine Er) as [Hy _].
  destruct fine; [|discriminate].
  destruct (Hy eq_refl) as [Hinv _]. cbn [app] in Hinv. rewrite Hi0 in Hinv.
  destruct (map_end m1 cur okend) as [m'|] eqn:Ee; [|discriminate].
  intros E. inversion E; subst m'.
  destruct (map_end_inv m1 cur _ okend m Hinv Ee) as (Hperm & Hwf & _ & _).
  split; assumption.
Qed.

Theorem search_any_sorted_permutation junk l okend m m' :
  NoDup (map fst l) -> Forall (fun e => fst e < W) l -> N.of_nat (length l) < H63 ->
  build junk l okend = Built m ->
  Permutation (ranges m') (ranges m) -> Permutation (singles m') (singles m) ->
  StronglySorted le_pfn (ranges m') -> StronglySorted le_spfn (singles m') ->
  forall p, p < W -> search m' p = enc (find_index p (map fst l)).
Proof.
  intros Hnd Hall Hlen Hb Hpr Hps Hsr Hss p Hp.
  destruct (build_facts junk l okend m Hall Hlen Hb) as [Hwf Hperm].
  apply search_is_position_gen; try assumption.
  - eapply Permutation_Forall; [symmetry; exact Hpr|exact Hwf].
  - eapply perm_trans; [|exact Hperm]. unfold pairs_of. apply Permutation_app.
    + now apply Permutation_flat_map.
    + now apply Permutation_map.
Qed.

(** the answer to an operation does not depend on what was asked before or after it *)
Theorem steps_history_independent x pre op post :
  nth_error (run_history x (pre ++ op :: post)) (length pre) = Some (do_op x op) /\
  run_history x (pre ++ op :: post) = run_history x pre ++ do_op x op :: run_history x post.
Proof.
  unfold run_history. rewrite map_app. cbn [map]. split; [|reflexivity].
  rewrite nth_error_app2 by (rewrite map_length; lia). rewrite map_length, Nat.sub_diag. reflexivity.
Qed.
