(** 64-bit wrap-around arithmetic on [N], shared by every model.

    C's [uint64_t] operations are written out: [wadd], [wsub], [wmul], [wshl]
    reduce modulo 2^64 exactly where the C code can wrap. *)
From Coq Require Import NArith ZArith List Lia Bool.
Import ListNotations.
Local Open Scope N_scope.

Definition W : N := 2^64.
Definition MAXA : N := W - 1.
Definition w (x : N) : N := x mod W.
Definition wadd (a b : N) : N := w (a + b).
Definition wsub (a b : N) : N := w (a + W - b mod W).
Definition wmul (a b : N) : N := w (a * b).
Definition wshl (a k : N) : N := w (N.shiftl a k).
Definition wnot (a : N) : N := MAXA - (a mod W).

Lemma W_pos : 0 < W. Proof. reflexivity. Qed.
Lemma W_nz : W <> 0. Proof. discriminate. Qed.
Lemma W_val : W = 18446744073709551616. Proof. reflexivity. Qed.
Lemma MAXA_val : MAXA = 18446744073709551615. Proof. reflexivity. Qed.

Lemma w_small x : x < W -> w x = x.
Proof. intro H. unfold w. now apply N.mod_small. Qed.

Lemma w_lt x : w x < W.
Proof. unfold w. apply N.mod_lt. exact W_nz. Qed.

Lemma wadd_small a b : a + b < W -> wadd a b = a + b.
Proof. intro H. unfold wadd. now apply w_small. Qed.

Lemma wadd_lt a b : wadd a b < W.
Proof. apply w_lt. Qed.

Lemma wadd_W a b : a + b = W -> wadd a b = 0.
Proof. intro H. unfold wadd, w. rewrite H. apply N.mod_same. exact W_nz. Qed.

Lemma wsub_le a b : b <= a -> a < W -> wsub a b = a - b.
Proof.
  intros Hle Ha. unfold wsub, w.
  rewrite (N.mod_small b) by lia.
  replace (a + W - b) with ((a - b) + 1 * W) by lia.
  rewrite N.mod_add by exact W_nz.
  apply N.mod_small. lia.
Qed.

Lemma wsub_lt a b : wsub a b < W.
Proof. apply w_lt. Qed.

Global Opaque W.
