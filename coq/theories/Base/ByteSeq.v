(** Bytes and byte strings as used by the file-level models (C11).
    A byte is an [N] (theorems state [< 256] where it matters). *)
From Coq Require Import NArith List.
Definition byte := N.
Definition bytes := list byte.
