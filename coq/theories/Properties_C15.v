(** C15 - every path gives back what it took: memory, pins and descriptors.

    Statements only.  Token accounting in the models that own resources
    (Res/ResModel.v, Res/OomModel.v): a reference on a cache entry is a
    Pin/Unpin event, an allocation an Alloc/Free event; [St s L K P F] says that
    the trace emitted so far leaves exactly the blocks L alive, the locks K held
    and the references P held.

    PARTIAL BY NATURE: whole-library leak freedom is a runtime fact.  These
    theorems cover the modelled owners (file-cache chunks, fcache_get, the
    addrxlat read cache with kdump's page callbacks, diskdump's private data,
    set_attr's value, the context constructors/destructor); everything else is
    monitored by the correspondence check (engine "res": cache reference sums
    after every call, allocation table after the last free, descriptor state).
    [C15_read_refs_balanced] (= C12, errreadcb) and [C15_flat_chunk_balanced]
    (flat) live with the agents that own those models. *)
From Coq Require Import List Bool Arith.
From KdV Require Import Res.Tokens Res.TokensProofs Res.OomModel Res.OomSpec Res.OomProofs.
From KdV Require Import Res.ResModel Res.ResProofs.
From KdV Require Import Res.SysLayout Res.SysLayoutProofs Res.OpenPaths Res.OpenPathsProofs.
From KdV Require Import Res.Reopen Res.ReopenProofs.
Import ListNotations.

(** fcache_get (mmap path, read path, policy fallback; repaired): a successful
    call holds exactly one reference, on the entry it returns; a failed call -
    busy cache, failed mmap, failed pread, block beyond EOF - holds nothing *)
Theorem C15_fcache_get_failure_holds_nothing : forall pol env s L K P F,
  St s L K P F ->
  wp (fcache_get true pol env)
     (fun r s' => match r with GOk e => St s' L K (e :: P) F | _ => St s' L K P F end) s.
Proof. exact fcache_get_post. Qed.
Print Assumptions C15_fcache_get_failure_holds_nothing.

(** fcache_get_chunk for every geometry (embedded, array, copied-out), every
    pattern of (dis)contiguous pages, every failing fcache_get and every failing
    allocation: after a failure nothing is held; after success exactly the
    chunk's entries are referenced and its array / buffer allocated ... *)
Theorem C15_chunk_get_balanced : forall pol big pages s L K P F,
  (big = false -> length pages <= 2) ->
  St s L K P F ->
  wp (fcache_get_chunk true true pol big pages) (chunk_post L K P) s.
Proof. exact chunk_get_put_balanced. Qed.
Print Assumptions C15_chunk_get_balanced.

(** ... and fcache_put_chunk gives all of it back *)
Theorem C15_chunk_put_releases : forall g s L K P F,
  St s (gblocks g ++ L) K (gpins g ++ P) F ->
  wp (fcache_put_chunk g) (fun _ s' => St s' L K P F) s.
Proof. exact put_chunk_releases. Qed.
Print Assumptions C15_chunk_put_releases.

(** together, on complete runs under every allocation schedule: the trace of
    get_chunk (+ put_chunk when it succeeded) is clean, and no array access
    outside the descriptor's embedded entries is reachable *)
Theorem C15_chunk_get_put_balanced : forall pol big pages sch,
  (big = false -> length pages <= 2) ->
  let '(r, tr, _) := run (r <- fcache_get_chunk true true pol big pages ;;
                          match r with COk g => fcache_put_chunk g ;;; ret r | _ => ret r end) sch in
  clean tr /\ r <> COob.
Proof. exact chunk_roundtrip. Qed.
Print Assumptions C15_chunk_get_put_balanced.

(** the pinned error path of fcache_get_chunk (before fixes/41) frees the entry
    array twice and loses the copy-out buffer: the trace has no valid summary *)
Theorem C15_chunk_pinned_refuted :
  exists pages,
    let '(r, s) := fcache_get_chunk false true PAlways true pages (init [] 0 []) in
    r = CErr /\ summary s = None.
Proof. exact chunk_pinned_witness. Qed.
Print Assumptions C15_chunk_pinned_refuted.

(** the pinned mmap path (before fixes/47) keeps its reference when mmap fails *)
Theorem C15_fcache_mmap_pinned_refuted :
  exists env, let '(r, s) := fcache_get_mmap false env (init [] 0 []) in
              is_ok r = false /\ exists x, summary s = Some x /\ pins x <> [].
Proof. exact fcache_get_mmap_pinned_witness. Qed.
Print Assumptions C15_fcache_mmap_pinned_refuted.

(** the addrxlat read cache with kdump's get_page / put_page: along every
    history of lookups (hits, misses, evictions, failing page reads, failing
    allocations) every page obtained from the page cache is put exactly once -
    no reference survives any single lookup - and cleanup_cache frees every
    buffer *)
Theorem C15_readcache_pages_returned : forall nslots ops s L K P F,
  0 < nslots -> St s L K P F ->
  wp (slots <- readcache_ops nslots [] ops ;; cleanup_cache slots)
     (fun _ s' => exists F', St s' L K P F') s.
Proof. exact readcache_pages_returned. Qed.
Print Assumptions C15_readcache_pages_returned.

Theorem C15_readcache_run_clean : forall nslots ops sch,
  0 < nslots ->
  let '(_, tr, _) := run (slots <- readcache_ops nslots [] ops ;; cleanup_cache slots) sch in clean tr.
Proof. exact readcache_run. Qed.
Print Assumptions C15_readcache_run_clean.

(** per-format cleanup (diskdump; sadump has the same shape): whatever was
    recorded in the private structure - one region array per file, the
    memory.pagemap regions once revalidated - is freed by the repaired cleanup *)
Theorem C15_format_cleanup_frees_all : forall ops sch,
  let '(_, tr, _) := run (dd_session true ops) sch in clean tr.
Proof. exact dd_session_run. Qed.
Print Assumptions C15_format_cleanup_frees_all.

Theorem C15_format_cleanup_pinned_refuted :
  exists ops, let '(_, tr, _) := run (dd_session false ops) [] in ~ balanced tr.
Proof. exact format_cleanup_pinned_witness. Qed.
Print Assumptions C15_format_cleanup_pinned_refuted.

(** set_attr: the new value has exactly one owner afterwards whatever the hooks
    answer and whether or not the new / the old value is dynamically allocated
    (a dynamic string, bitmap or blob is a token, a static or embedded value is
    [None]): the attribute owns it when pre_set accepted it (also if post_set
    then fails); a REJECTED new value is discarded according to ITS OWN flags,
    the old value is kept; the old value is discarded exactly when replaced *)
Theorem C15_set_attr_owns_value : forall old newv pre_ok post_ok s L K P F,
  St s (optl newv ++ optl old ++ L) K P F ->
  wp (set_attr false old newv pre_ok post_ok)
     (fun r s' => St s' (optl (snd r) ++ L) K P F /\
                  (pre_ok = true -> snd r = newv) /\ (pre_ok = false -> snd r = old) /\
                  (fst r = true -> pre_ok = true /\ post_ok = true)) s.
Proof. exact set_attr_owns_value. Qed.
Print Assumptions C15_set_attr_owns_value.

(** a discard_new_value that looks at the attribute's (old value's) flags loses
    a rejected dynamic string on an attribute that had no dynamic value *)
Theorem C15_set_attr_by_old_flags_refuted :
  let '(r, tr, _) := run (n <- alloc S_value ;;
                          match n with
                          | Some v => x <- set_attr true None (Some v) false true ;; free_opt (snd x) ;;; ret (fst x)
                          | None => ret false
                          end) [] in
  r = false /\ ~ balanced tr.
Proof. exact set_attr_by_old_flags_witness. Qed.
Print Assumptions C15_set_attr_by_old_flags_refuted.

(** diskdump_read_page: for raw and compressed pages, every compression method
    (built in or not), every decompressor verdict (ok, error, well-formed stream
    of the wrong size), every chunk geometry and every failure while getting the
    chunk: whichever exit is taken, no file-cache reference and no buffer is
    kept *)
Theorem C15_diskdump_page_exits_balanced :
  forall pol big pages compressed m compiled r s L K P F,
  (big = false -> length pages <= 2) ->
  St s L K P F ->
  wp (diskdump_read_page false pol big pages compressed m compiled r)
     (fun _ s' => exists F', St s' L K P F') s.
Proof. exact diskdump_page_exits_balanced. Qed.
Print Assumptions C15_diskdump_page_exits_balanced.

Theorem C15_diskdump_page_run_clean : forall pol big pages compressed m compiled r sch,
  (big = false -> length pages <= 2) ->
  let '(_, tr, _) := run (diskdump_read_page false pol big pages compressed m compiled r) sch in clean tr.
Proof. exact diskdump_page_run. Qed.
Print Assumptions C15_diskdump_page_run_clean.

(** an exit that returns before the common fcache_put_chunk (the zstd "wrong
    uncompressed size" check) keeps the chunk's entries referenced *)
Theorem C15_diskdump_page_early_return_refuted :
  exists pages,
    let '(r, s) := diskdump_read_page true PNever false pages true MZstd true DecWrongSize (init [] 0 []) in
    r = false /\ exists x, summary s = Some x /\ pins x <> [].
Proof. exact diskdump_page_early_return_witness. Qed.
Print Assumptions C15_diskdump_page_early_return_refuted.

(** flatmap_file_init (flatmap.c): for every sequence of segment headers (good
    ones, the END marker, a bad or unreadable header anywhere, the file ending
    without END), every pattern of growing reallocs and every allocation
    schedule: when the function returns - success or any error exit - the
    translation map and the offset array are reachable from the file map, so
    flatmap_file_cleanup releases them *)
Theorem C15_flatmap_init_owned : forall inc segs s T0 L K P F,
  PSt s T0 L K P F ->
  wp (flatmap_file_init false inc segs)
     (fun r s' => snd r = [] /\ exists F', PSt s' (ftoks (snd (fst r)) ++ T0) L K P F' /\
                  (fst (fst r) = true -> F' = F)) s.
Proof. exact flatmap_init_owned. Qed.
Print Assumptions C15_flatmap_init_owned.

Theorem C15_flatmap_session_clean : forall inc segs sch,
  let '(_, tr, _) := run (flat_session false inc segs) sch in clean tr.
Proof. exact flat_session_clean. Qed.
Print Assumptions C15_flatmap_session_clean.

(** storing the array into the file map only on the success exit loses it on the
    error exits behind the first good segment *)
Theorem C15_flatmap_late_assign_refuted :
  exists segs, let '(ok, tr, _) := run (flat_session true 32 segs) [] in ok = false /\ ~ balanced tr.
Proof. exact flat_late_witness. Qed.
Print Assumptions C15_flatmap_late_assign_refuted.

(** walk_elf_notes (elfdump.c): whatever the note callback answers for each
    PT_NOTE segment, and whatever fails while its chunk is obtained, no
    file-cache reference and no buffer is kept *)
Theorem C15_elf_notes_chunk_balanced : forall segs s L K P F,
  Forall (fun sg => ns_big sg = false -> length (ns_pages sg) <= 2) segs ->
  St s L K P F ->
  wp (walk_elf_notes false segs) (fun _ s' => exists F', St s' L K P F') s.
Proof. exact walk_elf_notes_balanced. Qed.
Print Assumptions C15_elf_notes_chunk_balanced.

Theorem C15_elf_notes_put_late_refuted :
  exists segs, let '(r, s) := walk_elf_notes true segs (init [] 0 []) in
               r = false /\ exists x, summary s = Some x /\ pins x <> [].
Proof. exact walk_notes_put_late_witness. Qed.
Print Assumptions C15_elf_notes_put_late_refuted.

(** contexts: what kdump_new / kdump_clone took (memory, reference counts on
    the shared state, dictionary and translation, the lock) is given back by
    kdump_free, under every allocation schedule - including the schedules where
    the constructor failed half-way *)
Theorem C15_new_free_balanced : forall nr opts, roundtrip_clean (kdump_new nr opts) kdump_free.
Proof. exact kdump_new_roundtrip. Qed.
Print Assumptions C15_new_free_balanced.

Theorem C15_clone_free_balanced : forall slots dc xc specs,
  roundtrip_clean (kdump_clone slots dc xc specs) kdump_free.
Proof. exact kdump_clone_roundtrip. Qed.
Print Assumptions C15_clone_free_balanced.

(** opening another file on a context that already has one open (fixes/100):
    the repaired open_dump gives back everything the first format held - its
    private data, maps, per-context buffers, the file cache and the flattened
    map - before it probes the second file.  Any sequence of opens (each probe
    accepting, declining or failing, any number of blocks per format, any
    allocation schedule) followed by kdump_free leaves nothing ... *)
Theorem C15_reopen_releases_first_format : forall opens sch,
  let '(_, tr, _) := run (session true opens) sch in clean tr.
Proof. exact session_clean. Qed.
Print Assumptions C15_reopen_releases_first_format.

(** ... whereas open_dump as pinned (no teardown of the open format) loses the
    first format's blocks at the second open *)
Theorem C15_reopen_pinned_refuted :
  exists opens, let '(_, tr, _) := run (session false opens) [] in ~ balanced tr.
Proof. exact open_pinned_witness. Qed.
Print Assumptions C15_reopen_pinned_refuted.

(** non-vacuity: a discontiguous three-page chunk read with the array geometry
    succeeds as a copy and is given back; with a failing third page it fails and
    holds nothing; a read-cache history with an eviction and a failing page *)
Example C15_nonvacuous :
  run_chunk true true PAlways true [(page_ok 1, true); (page_ok 2, false); (page_ok 3, false)] [] = ((3, (0, 1)), (0, 0)) /\
  run_chunk true true PAlways true [(page_ok 1, true); (page_ok 2, true); (page_ok 3, true)] [] = ((2, (3, 1)), (0, 0)) /\
  run_chunk true true PAlways true [(page_ok 1, true); (page_ok 2, false); (page_bad, false)] [] = ((0, (0, 0)), (0, 0)) /\
  (let '(_, tr, _) := run (slots <- readcache_ops 2 [] [(1, PageOk 10); (2, PageOk 11); (3, PageFail); (4, PageOk 12); (1, PageOk 13)] ;;
                           cleanup_cache slots) [] in cleanb tr = true /\ 10 <= length tr).
Proof. vm_compute. repeat split; auto; repeat constructor. Qed.
