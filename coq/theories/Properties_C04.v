(** C04 — caching and lazy indexing are invisible: results do not depend on
    history.  Statements only; every proof is [exact <lemma>].

    The property is a composition of stateful layers between the file and the
    caller; each is shown to be "a cache of a pure function": for EVERY history
    of operations the answer to an observed call equals the answer of the
    cache-less computation.

    - file cache ([Hist/FcacheChunk.v], fcache.c with the repairs for defects
      #8, #41, #47, #72): [fcache_get] / [fcache_pread] / [fcache_get_chunk] over
      both sub-caches (abstract keyed stores with an arbitrary eviction
      oracle — every replacement behaviour), all four mmap policies incl.
      TRY_ONCE's latch, I/O, mmap and malloc failure oracles, buffer adjacency
      oracle; mmap = same bytes as the file, zero beyond EOF within the page
      that contains EOF, SIGBUS after it;
    - addrxlat's 4-slot read cache ([Hist/ReadCache.v], ctx.c), over a pure
      [get_page];
    - the ELF last-hit segment shortcut ([Hist/ElfShortcut.v], elfdump.c as
      repaired for defects #7 and #32);
    - the page cache, over ANY cache that satisfies the hit-returns-inserted
      interface ([Hist/PageCacheAbs.v]); the faithful list-level model of
      cache.c and the proof that it satisfies the interface are property C06's.

    - the LKCD lazily built index at block level: the split of a block at the
      32-bit offset limit ([Hist/LkcdSplit.v]); the scan/lookup over the whole
      index is C01's model and is tied end to end here (engine hist). *)
From Coq Require Import NArith List Bool.
From KdV Require Import Base.Wrap64.
From KdV Require Import Hist.FcacheChunk Hist.FcacheProofs.
From KdV Require Import Hist.ReadCache Hist.ReadCacheProofs.
From KdV Require Import Hist.ElfShortcut Hist.ElfShortcutProofs Hist.PageCacheAbs.
From KdV Require Import Hist.LkcdSplit Hist.LkcdSplitProofs.
Import ListNotations.
Local Open Scope N_scope.

(** * File cache

    [fsz f] / [fdata f] are size and contents of file [f] of the file set
    ([nfiles <= pgsz], as fcache_new() guarantees); every operation names its file;
    the cache keys are the C expression [blkpos | fidx].  Within the file's pages an
    observed get / pread / get_chunk made after ANY history (any files, gets, puts,
    preads, chunks, policy changes, with any replacement, adjacency and failure
    oracles) returns exactly the slice of ITS file, zero-padded past EOF — or an
    excused error (BUSY only when a sub-cache is full of references, ERR_SYSTEM only
    for a failure of the call's own oracle bits or a cached MAP_FAILED entry) — and
    never NODATA, whatever the mmap policy in force and whatever was cached.
    [C04_fcache_beyond_eof]: arbitrary positions; NODATA only beyond the file's pages
    under ALWAYS / TRY_ONCE; never SIGBUS / out of bounds / out of fuel.
    [C04_fcache_never_busy_when_balanced], [C04_fcache_refs_balanced]: reference
    accounting, whatever fails on the way. *)
Theorem C04_fcache_policy_irrelevant :
  forall (pgshift order nfiles : N) (fsz : N -> N) (fdata : N -> N -> N),
    nfiles <= pgsz pgshift ->
    forall (m : machine) (o : FcacheChunk.op),
    reachable pgshift order nfiles fsz fdata m ->
    op_valid nfiles o ->
    (forall f : N, f < nfiles -> pageceil pgshift (fsz f) <= TWO63) ->
    in_file pgshift fsz o ->
    outcome_ok pgshift fsz fdata (m_st m) o (fst (step pgshift order fsz fdata true true m o)) /\
    fst (step pgshift order fsz fdata true true m o) <> OutErr ERR_NODATA.
Proof. exact fcache_policy_irrelevant. Qed.
Print Assumptions C04_fcache_policy_irrelevant.

Theorem C04_fcache_beyond_eof :
  forall (pgshift order nfiles : N) (fsz : N -> N) (fdata : N -> N -> N),
    nfiles <= pgsz pgshift ->
    forall (m : machine) (o : FcacheChunk.op),
    reachable pgshift order nfiles fsz fdata m ->
    op_valid nfiles o ->
    outcome_ok pgshift fsz fdata (m_st m) o (fst (step pgshift order fsz fdata true true m o)).
Proof. exact fcache_beyond_eof. Qed.
Print Assumptions C04_fcache_beyond_eof.

(** the keys [blkpos | fidx] of the two sub-caches determine file and block *)
Theorem C04_fcache_key_injective :
  forall (pgshift order a1 f1 a2 f2 : N),
    f1 < pgsz pgshift -> f2 < pgsz pgshift ->
    (N.lor (align_down a1 (pgsz pgshift)) f1 = N.lor (align_down a2 (pgsz pgshift)) f2 ->
     f1 = f2 /\ align_down a1 (pgsz pgshift) = align_down a2 (pgsz pgshift)) /\
    (N.lor (align_down a1 (mmapsz pgshift order)) f1 = N.lor (align_down a2 (mmapsz pgshift order)) f2 ->
     f1 = f2 /\ align_down a1 (mmapsz pgshift order) = align_down a2 (mmapsz pgshift order)).
Proof.
  intros. split; [now apply fcache_key_injective_P | now apply fcache_key_injective_M].
Qed.
Print Assumptions C04_fcache_key_injective.

(** without the file index in the key of the read-fallback cache a read of
    file 1 returns file 0's bytes *)
Example C04_fcache_fb_key_without_fidx_refuted :
  let fsz := fun _ : N => 16 in
  let h := [OpPolicy NEVER; OpPread 0 0 4 no_oracle] in
  let obs := OpPread 1 0 4 no_oracle in
  let answer := fun key : bool =>
    fst (step 4 0 fsz ex_files true key
              (snd (FcacheChunk.run 4 0 fsz ex_files true key (init_machine 2 2) h)) obs) in
  answer false = OutData (slice 16 (ex_files 0) 0 4) GEmpty /\
  answer true = OutData (slice 16 (ex_files 1) 0 4) GEmpty /\
  slice 16 (ex_files 0) 0 4 <> slice 16 (ex_files 1) 0 4.
Proof. exact fcache_fb_key_without_fidx_refuted. Qed.

Example C04_fcache_try_once_latch_visible_beyond_eof :
  let obs := OpPread 0 16 1 no_oracle in
  let after := fun h : list FcacheChunk.op =>
    snd (FcacheChunk.run 4 0 (fun _ => 16) (fun _ => ex_file) true true (init_machine 2 2) h) in
  let m1 := after [OpPolicy TRY_ONCE; OpPread 0 0 1 no_oracle] in
  let m2 := after [OpPolicy TRY_ONCE; OpPread 0 16 1 no_oracle] in
  fst (step 4 0 (fun _ => 16) (fun _ => ex_file) true true m1 obs) = OutErr ERR_NODATA /\
  fst (step 4 0 (fun _ => 16) (fun _ => ex_file) true true m2 obs) = OutData [0] GEmpty.
Proof. exact fcache_try_once_latch_visible_beyond_eof. Qed.

Theorem C04_fcache_never_busy_when_balanced :
  forall (pgshift order nfiles : N) (fsz : N -> N) (fdata : N -> N -> N),
    nfiles <= pgsz pgshift ->
    forall (m : machine) (o : FcacheChunk.op),
    reachable pgshift order nfiles fsz fdata m ->
    op_valid nfiles o ->
    (forall w : which, nr w (m_st m) = 0) ->
    (forall w : which, own_need pgshift o <= capw w (m_st m)) ->
    fst (step pgshift order fsz fdata true true m o) <> OutErr ERR_BUSY.
Proof. exact fcache_never_busy_strong. Qed.
Print Assumptions C04_fcache_never_busy_when_balanced.

Theorem C04_fcache_refs_balanced :
  forall (pgshift order nfiles : N) (fsz : N -> N) (fdata : N -> N -> N),
    nfiles <= pgsz pgshift ->
    forall (m : machine) (o : FcacheChunk.op) (r : FcacheChunk.outcome) (m' : machine),
    reachable pgshift order nfiles fsz fdata m ->
    op_valid nfiles o ->
    match o with OpPread _ _ _ _ | OpChunk _ _ _ _ => True | _ => False end ->
    step pgshift order fsz fdata true true m o = (r, m') ->
    (forall (w : which) (k : N), rc w k (m_st m') = rc w k (m_st m)) /\
    st_live (m_st m') = st_live (m_st m) /\ m_fces m' = m_fces m /\ m_chunks m' = m_chunks m.
Proof. exact fcache_refs_balanced_strong. Qed.
Print Assumptions C04_fcache_refs_balanced.

Theorem C04_fcache_unrepaired_sigbus :
  exists (filesz pos len : N) (pol : policy),
    pos < filesz /\ (pol = ALWAYS \/ pol = TRY) /\
    fst (step 4 2 (fun _ => filesz) (fun _ => ex_file) false true
           {| m_st := set_policy (init_state 2 2) pol; m_fces := nil; m_chunks := nil |}
           (OpPread 0 pos len no_oracle)) = OutSigbus.
Proof. exact fcache_unrepaired_sigbus. Qed.
Print Assumptions C04_fcache_unrepaired_sigbus.


(** * addrxlat read cache *)

(** For every history of top-level (non-re-entrant) get_cache_buf / read /
    bury_cache_buffer calls with any addresses and spaces, failing and succeeding
    [get_page]: every answer along the history, and any read made afterwards,
    equals the cache-less read [direct]; the slots hold [get_page] of their own
    address and the MRU ring is a permutation of the four slots ([inv]). *)
Theorem C04_readcache_transparent :
  forall get_page : N -> N -> option (N * N * list byte),
    (forall (a_as a b s : N) (d : list byte),
       get_page a_as a = Some (b, s, d) ->
       b <= a < b + s /\ N.of_nat (length d) = s /\ b + s <= W) ->
    (forall (a_as a b s : N) (d : list byte) (a' : N),
       get_page a_as a = Some (b, s, d) -> b <= a' < b + s -> get_page a_as a' = Some (b, s, d)) ->
    forall ops : list ReadCache.op,
      forallb flat_op ops = true ->
      Forall op_in_range ops ->
      let c := final get_page init_cache ops in
      inv get_page c /\
      Forall2 (fun (o : ReadCache.op) (oc : ReadCache.outcome * cache) =>
                 out_ok get_page o (fst oc) (snd oc))
              ops (fst (ReadCache.run get_page init_cache ops)) /\
      (forall a_as a n : N,
         a < W -> snd (ReadCache.read get_page c a_as a n) = direct get_page a_as a n).
Proof. exact readcache_transparent. Qed.
Print Assumptions C04_readcache_transparent.

(** The hit test compares full 64-bit addresses and the address space: a slot
    answers only for addresses inside its own region [addr, addr+size) of the same
    space, for ALL 64-bit addresses (so in particular not for addresses 2^16, 2^31,
    2^32, 2^63 … away, which a narrowing cast of the offset would accept). *)
Theorem C04_readcache_hit_exact :
  forall (s : slot) (a_as a : N),
    addr s + size s <= W -> a < W ->
    (hit_test s a_as a = true <-> a_as = as_ s /\ addr s <= a < addr s + size s).
Proof. exact readcache_hit_exact. Qed.
Print Assumptions C04_readcache_hit_exact.

(** hence find_slot (get_cache_buf's hit, bury_cache_buffer's match) returns the
    first slot that owns the address, nothing iff no slot owns it, and bury moves
    exactly that slot *)
Theorem C04_readcache_find_slot_exact :
  forall (c : cache) (a_as a : N),
    nowrap c -> a < W ->
    (forall i, find_slot c a_as a = Some i ->
       owns (get_slot c i) a_as a /\
       forall j, ix_to_N j < ix_to_N i -> ~ owns (get_slot c j) a_as a) /\
    (find_slot c a_as a = None <-> forall i, ~ owns (get_slot c i) a_as a) /\
    ((forall i, ~ owns (get_slot c i) a_as a) -> bury c a_as a = c) /\
    (forall i, find_slot c a_as a = Some i ->
       bury c a_as a = {| slots := slots c; rg := bury_ring (rg c) i |}).
Proof. exact readcache_find_slot_exact. Qed.
Print Assumptions C04_readcache_find_slot_exact.

(** the truncated variants (offset computed in k < 64 bits, e.g. a helper
    returning [unsigned]) are refuted: a slot falsely answers 2^k away, and for
    k = 16, 31, 32, 63 two reads on the synthetic callback return the first
    region's bytes for the second address *)
Theorem C04_readcache_hit_truncated_refuted :
  (forall k : N, k < 64 ->
     let s := {| as_ := 0; addr := 0; size := 1; ptr := None |} in
     2 ^ k < W /\ ~ (addr s <= 2 ^ k < addr s + size s) /\
     hit_test_w k s 0 (2 ^ k) = true /\ hit_test s 0 (2 ^ k) = false) /\
  Forall trunc_witness [16; 31; 32; 63].
Proof. exact readcache_hit_truncated_refuted. Qed.
Print Assumptions C04_readcache_hit_truncated_refuted.

(** A failed fill is not cached: when [get_page] fails, the chosen (LRU) slot is
    left empty — it answers for no address of any space, whatever the callback wrote
    into the buffer descriptor before failing — so the next request for that page
    calls [get_page] again; the other slots and the MRU order are unchanged. *)
Theorem C04_readcache_failed_fill_not_cached :
  forall (get_page : N -> N -> option (N * N * list byte)) (c : cache) (a_as a : N)
         (c' : cache) (ev : list event) (r : gres),
    find_slot c a_as a = None -> get_page a_as a = None ->
    get_cache_buf get_page c a_as a = (c', ev, r) ->
    let v := prev (rg c) (mru (rg c)) in
    r = GFail /\ size (get_slot c' v) = 0 /\
    (forall b_as b, hit_test (get_slot c' v) b_as b = false) /\
    (forall b_as b, find_slot c' b_as b <> Some v) /\
    (forall j, j <> v -> get_slot c' j = get_slot c j) /\ rg c' = rg c.
Proof. exact readcache_failed_fill_not_cached. Qed.
Print Assumptions C04_readcache_failed_fill_not_cached.

(** LRU order: the victim of a miss is the least recently touched slot; a
    successful call moves its slot to the front; bury moves it to the back and
    makes it the next victim (ring read from [mru] along [next]). *)
Theorem C04_readcache_lru_order :
  forall get_page : N -> N -> option (N * N * list byte),
    (forall (a_as a b s : N) (d : list byte),
       get_page a_as a = Some (b, s, d) ->
       b <= a < b + s /\ N.of_nat (length d) = s /\ b + s <= W) ->
    (forall (a_as a b s : N) (d : list byte) (a' : N),
       get_page a_as a = Some (b, s, d) -> b <= a' < b + s -> get_page a_as a' = Some (b, s, d)) ->
    forall (c : cache) (a_as a : N),
      inv get_page c -> a < W ->
      let l := ring_list (rg c) in
      (forall (c' : cache) (ev : list event) (r : gres),
         get_cache_buf get_page c a_as a = (c', ev, r) ->
         match r with
         | GOk s => ring_list (rg c') = to_front s l /\ (find_slot c a_as a = None -> s = lru l)
         | _ => ring_list (rg c') = l
         end) /\
      ring_list (rg (bury c a_as a)) =
        match find_slot c a_as a with Some s => to_back s l | None => l end /\
      (forall s : ix, find_slot c a_as a = Some s -> lru (ring_list (rg (bury c a_as a))) = s) /\
      slots (bury c a_as a) = slots c.
Proof. exact readcache_lru_order. Qed.
Print Assumptions C04_readcache_lru_order.

(** The read-recursion guard: a nested call claimed by the slot whose own
    [get_page] is running returns "Infinite read recursion" and changes nothing. *)
Theorem C04_readcache_recursion_guard :
  forall (get_page : N -> N -> option (N * N * list byte))
         (run_inner : cache -> list ReadCache.op -> cache * list event)
         (c : cache) (a_as a : N) (inner : list ReadCache.op) (v : ix),
    ptr (get_slot c v) = None ->
    hit_test (get_slot c v) a_as a = true ->
    (forall j : ix, ix_to_N j < ix_to_N v -> hit_test (get_slot c j) a_as a = false) ->
    get_cache_buf_re get_page run_inner c a_as a inner = (c, nil, GRecursion).
Proof. exact readcache_recursion_guard. Qed.
Print Assumptions C04_readcache_recursion_guard.

(** Re-entrant histories, PARTIAL: one nesting level whose nested calls all hit
    a slot.  Missing: nested misses — they re-select the slot in progress; the
    full statement is refuted below (the model follows the code, it is not
    repaired: libkdumpfile's own callback never re-enters). *)
Theorem C04_readcache_transparent_reentrant_partial :
  forall get_page : N -> N -> option (N * N * list byte),
    (forall (a_as a b s : N) (d : list byte),
       get_page a_as a = Some (b, s, d) ->
       b <= a < b + s /\ N.of_nat (length d) = s /\ b + s <= W) ->
    (forall (a_as a b s : N) (d : list byte) (a' : N),
       get_page a_as a = Some (b, s, d) -> b <= a' < b + s -> get_page a_as a' = Some (b, s, d)) ->
    forall (c : cache) (a_as a n : N) (inner : list ReadCache.op) (c' : cache)
           (ev : list event) (out : ReadCache.outcome),
      inv get_page c -> a < W ->
      Forall op_in_range inner ->
      all_hit get_page (fst (fst (miss_begin c a_as a))) inner = true ->
      run_op get_page c (ORead a_as a n inner) = (c', ev, out) ->
      inv get_page c' /\ out = OutR (direct get_page a_as a n).
Proof. exact readcache_transparent_reentrant_partial. Qed.
Print Assumptions C04_readcache_transparent_reentrant_partial.

Theorem C04_readcache_reentrant_refuted :
  exists (ops : list ReadCache.op) (a_as a n : N),
    Forall op_in_range ops /\ a < W /\
    snd (ReadCache.read synth_get_page (final synth_get_page init_cache ops) a_as a n)
      <> direct synth_get_page a_as a n.
Proof. exact readcache_reentrant_refuted. Qed.
Print Assumptions C04_readcache_reentrant_refuted.

(** * ELF last-hit shortcut *)

(** For segment arrays sorted by start, pairwise disjoint in [start,
    start+memsz), [filesz <= memsz], no wrap: each of the four lookups
    ([find_closest_{mem,file}_{load,vload}]) returns the same segment whatever
    the value of the shortcut (NULL or a valid pointer into its own array), and
    every history of lookups answers like the shortcut-less code. *)
Theorem C04_elf_shortcut_irrelevant :
  forall e : elf, elf_ok e ->
    (forall (st : shortcut) (f : fn) (a dist : N),
       st_ok e st -> a < W ->
       fst (ElfShortcut.lookup true e st f a dist) = lookup_plain e f a dist /\
       st_ok e (snd (ElfShortcut.lookup true e st f a dist))) /\
    (forall (ops : list (fn * N * N)) (st : shortcut),
       st_ok e st ->
       Forall (fun q : fn * N * N => snd (fst q) < W) ops ->
       ElfShortcut.run true e st ops =
       map (fun q : fn * N * N => lookup_plain e (fst (fst q)) (snd (fst q)) (snd q)) ops).
Proof. exact elf_shortcut_irrelevant. Qed.
Print Assumptions C04_elf_shortcut_irrelevant.

(** what the scan computes: the containing segment, else the first non-empty
    segment starting strictly less than [dist] above, else none *)
Theorem C04_elf_closest_spec :
  forall (e : elf) (a dist : N), elf_ok e -> a < W ->
    scan phys memsz (load_sorted e) 0 a dist = closest_spec phys memsz (load_sorted e) 0 a dist /\
    scan phys filesz (load_sorted e) 0 a dist = closest_spec phys filesz (load_sorted e) 0 a dist /\
    scan virt memsz (load_vsorted e) 0 a dist = closest_spec virt memsz (load_vsorted e) 0 a dist /\
    scan virt filesz (load_vsorted e) 0 a dist = closest_spec virt filesz (load_vsorted e) 0 a dist.
Proof. exact elf_closest_spec. Qed.
Print Assumptions C04_elf_closest_spec.

(** the pinned source (defect #7: the virtual lookups store into [last_load])
    does depend on history *)
Theorem C04_elf_shortcut_unrepaired_refuted :
  exists (e : elf) (ops : list (fn * N * N)),
    elf_ok e /\
    Forall (fun q : fn * N * N => snd (fst q) < W) ops /\
    ElfShortcut.run false e no_shortcut ops <>
      map (fun q : fn * N * N => lookup_plain e (fst (fst q)) (snd (fst q)) (snd q)) ops /\
    ElfShortcut.run true e no_shortcut ops =
      map (fun q : fn * N * N => lookup_plain e (fst (fst q)) (snd (fst q)) (snd q)) ops.
Proof. exact elf_shortcut_unrepaired_refuted. Qed.
Print Assumptions C04_elf_shortcut_unrepaired_refuted.

(** * LKCD incremental index: split of a block at the 32-bit offset limit

    Block level ([Hist/LkcdSplit.v]: [split_pfn_block] / [alloc_tail_pfn_block] /
    [realloc_pfn_offs] / [lookup_pfn_block] + [idx_is_gap] + the offset computation of
    [get_page_desc]); variants: [pinned] (the snapshot), [repaired] (fixes 82 + 83),
    [repaired84] (+ fix 84: the tail is cut into runs), [seeded] (the off-by-one copy).
    For the code as it is now (fix 84): splitting any well-formed block at any split
    point the scan can produce leaves the lookup of EVERY other page unchanged, the
    scanned page unindexed, the chain sorted and every block well formed — whatever
    the order in which the pages entered the block. *)
Theorem C04_lkcd_split_preserves_lookup :
  forall (v : variant) (o : oracle) (pre : list block) (b : block) (post : list block)
         (idx : N) (ch : list block),
    cut_runs v = true -> keep_gaps v = true ->
    wf_block b -> 1 <= idx -> idx3 b + idx < PFN_IDX3_SIZE ->
    follows b idx post -> chain_sorted post ->
    split_pfn_block v o b idx = SplitOk ch ->
    (forall j : N, j <> idx3 b + idx ->
       chain_lookup (pre ++ ch ++ post) j = chain_lookup (pre ++ b :: post) j) /\
    chain_lookup (ch ++ post) (idx3 b + idx) = LkNone /\
    chain_sorted (ch ++ post) /\ Forall wf_block ch.
Proof. exact lkcd_split84_preserves_lookup. Qed.
Print Assumptions C04_lkcd_split_preserves_lookup.

(** without fix 84 the same holds only when the tail's pages are in file order *)
Theorem C04_lkcd_split_preserves_lookup_ordered_tail :
  forall (v : variant) (o : oracle) (pre : list block) (b : block) (post : list block)
         (idx : N) (ch : list block),
    copy_literal v = true -> cut_runs v = false -> keep_gaps v = true ->
    wf_block b -> 1 <= idx -> idx3 b + idx < PFN_IDX3_SIZE ->
    follows b idx post -> tail_ordered b idx ->
    split_pfn_block v o b idx = SplitOk ch ->
    forall j : N, j <> idx3 b + idx ->
      chain_lookup (pre ++ ch ++ post) j = chain_lookup (pre ++ b :: post) j.
Proof. exact lkcd_split_preserves_lookup. Qed.
Print Assumptions C04_lkcd_split_preserves_lookup_ordered_tail.

(** the pinned snapshot: a gap of the tail turns into a bogus offset (fix 83) *)
Theorem C04_lkcd_split_preserves_lookup_refuted :
  exists (b : block) (idx : N) (ch : list block) (j : N),
    wf_block b /\ 1 <= idx /\ idx3 b + idx < PFN_IDX3_SIZE /\ tail_ordered b idx /\
    split_pfn_block pinned no_failure b idx = SplitOk ch /\
    j <> idx3 b + idx /\ chain_lookup [b] j = LkNone /\ chain_lookup ch j = LkOff 4294971392.
Proof. exact lkcd_split_preserves_lookup_refuted. Qed.
Print Assumptions C04_lkcd_split_preserves_lookup_refuted.

(** fixes 82 + 83 without 84: a tail page that lies before the tail's first page
    in the file looks up 2^32 too high *)
Theorem C04_lkcd_split_unordered_tail_refuted :
  exists (b : block) (idx : N) (ch : list block) (j : N),
    wf_block b /\ 1 <= idx /\ idx3 b + idx < PFN_IDX3_SIZE /\
    split_pfn_block repaired no_failure b idx = SplitOk ch /\
    j <> idx3 b + idx /\
    chain_lookup [b] j = LkOff 4144 /\ chain_lookup ch j = LkOff 4294971440.
Proof. exact lkcd_split_unordered_tail_refuted. Qed.
Print Assumptions C04_lkcd_split_unordered_tail_refuted.

(** the seeded off-by-one in the tail copy (offs[nextidx + idx]) shifts every
    tail page after the first by one slot *)
Theorem C04_lkcd_split_seeded_change_refuted :
  exists ch : list block,
    wf_block demo_block /\ tail_ordered demo_block 2 /\
    split_pfn_block seeded no_failure demo_block 2 = SplitOk ch /\
    map (chain_lookup [demo_block]) [4; 5; 6] = [LkOff 66560; LkOff 66816; LkOff 67072] /\
    map (chain_lookup ch) [4; 5; 6] = [LkNone; LkOff 66560; LkOff 66816].
Proof. exact lkcd_split_seeded_change_refuted. Qed.
Print Assumptions C04_lkcd_split_seeded_change_refuted.

(** * Page cache, over the hit-returns-inserted interface *)

(** For ANY cache [C] with operations get/insert/discard/put, an invariant and
    a ghost [committed] satisfying: a Hit for [k] returns the committed value of
    [k]; insert commits the value for its key and alters no other committed
    value; every operation may forget committed keys but never alter one — the
    read path of read.c ([cache_get_page] with a pure [fill], then put) answers
    [fill k] or BUSY for every history of reads, and every committed value equals
    [fill] of its key.  (To be instantiated with C06's model of cache.c.) *)
Theorem C04_pagecache_transparent :
  forall (C H K D : Type) (init : C) (get : C -> K -> C * got H D) (insert : C -> H -> D -> C)
         (discard put : C -> H -> C) (Inv : C -> Prop) (committed : C -> K -> option D)
         (pending : C -> H -> K -> Prop) (held : C -> H -> Prop),
    Inv init ->
    (forall k : K, committed init k = None) ->
    (forall (c : C) (k : K) (c' : C) (g : got H D),
       Inv c -> get c k = (c', g) ->
       Inv c' /\ shrinks C K D committed c c' /\
       match g with
       | Hit h d => committed c k = Some d /\ held c' h
       | Miss h => pending c' h k
       | Busy => True
       end) ->
    (forall (c : C) (h : H) (k : K) (d : D),
       Inv c -> pending c h k ->
       Inv (insert c h d) /\ held (insert c h d) h /\
       committed (insert c h d) k = Some d /\
       (forall k' : K, k' <> k ->
          committed (insert c h d) k' = committed c k' \/ committed (insert c h d) k' = None)) ->
    (forall (c : C) (h : H) (k : K),
       Inv c -> pending c h k -> Inv (discard c h) /\ shrinks C K D committed c (discard c h)) ->
    (forall (c : C) (h : H), Inv c -> held c h -> Inv (put c h) /\ shrinks C K D committed c (put c h)) ->
    forall fill : K -> option D,
      (forall a b : K, {a = b} + {a <> b}) ->
      forall ks : list K,
        Forall2 (fun (k : K) (r : PageCacheAbs.rd D) => r = PageCacheAbs.RBusy \/ r = pure_answer K D fill k) ks
                (fst (PageCacheAbs.run C H K D get insert discard put fill init ks)) /\
        Good C K D Inv committed fill (snd (PageCacheAbs.run C H K D get insert discard put fill init ks)).
Proof. exact pagecache_transparent. Qed.
Print Assumptions C04_pagecache_transparent.

(** the interface is satisfiable: a bounded association list with an
    arbitrary eviction policy *)
Theorem C04_pagecache_instance :
  forall (cap : nat) (keep : list (N * N) -> N -> bool) (fill : N -> option N) (ks : list N),
    Forall2 (fun (k : N) (r : PageCacheAbs.rd N) => r = PageCacheAbs.RBusy \/ r = pure_answer N N fill k) ks
      (fst (PageCacheAbs.run ac N N N (a_get cap keep) a_insert
              (fun (c : ac) (_ : N) => c) (fun (c : ac) (_ : N) => c) fill nil ks)).
Proof. exact instance_transparent. Qed.
Print Assumptions C04_pagecache_instance.

(** * Non-vacuity: concrete non-trivial states satisfying the hypotheses *)
Example C04_nonvacuous :
  (* a two-file file-cache history with held references, then a chunk of file 1 crossing EOF *)
  (let fsz := fun f : N => if f =? 0 then 50 else 40 in
   let h := [OpGet 0 3 no_oracle; OpPolicy NEVER; OpPread 1 10 30 no_oracle;
             OpPread 0 10 30 no_oracle;
             OpChunkHold 0 0 40 {| o_ev := nil; o_mf := nil; o_rf := nil;
                                   o_adj := [true; true]; o_al := nil |};
             OpPut 0] in
   let m := snd (FcacheChunk.run 4 1 fsz ex_files true true (init_machine 6 6) h) in
   reachable 4 1 2 fsz ex_files m /\
   op_valid 2 (OpChunk 1 5 40 no_oracle) /\
   in_file 4 fsz (OpChunk 1 5 40 no_oracle) /\
   fst (step 4 1 fsz ex_files true true m (OpChunk 1 5 40 no_oracle)) =
     OutData (slice 40 (ex_files 1) 5 40) Copied /\
   nref (st_fb (m_st m)) = 3) /\
  (* the abstract page cache instance on a history with a failing fill and an eviction *)
  fst (PageCacheAbs.run ac N N N (a_get 2 (fun (_ : list (N * N)) (_ : N) => false)) a_insert
         (fun (c : ac) (_ : N) => c) (fun (c : ac) (_ : N) => c)
         (fun k : N => if k =? 3 then None else Some (k * 16)) nil [1; 2; 1; 3; 4; 1]) =
    [PageCacheAbs.ROk 16; PageCacheAbs.ROk 32; PageCacheAbs.ROk 16; PageCacheAbs.RErr; PageCacheAbs.ROk 64; PageCacheAbs.ROk 16].
Proof. split; [exact fcache_nonvacuous | exact instance_run]. Qed.

(* ===== begin: C04 over C06's model of cache.c (added by the cache agent; append-only block) ===== *)
From KdV Require Cache.CacheList Cache.CacheRing Cache.CacheAsPageCache.

(** [C04_pagecache_transparent] instantiated with the faithful list-level model
    of cache.c ([Cache/CacheList.v], repaired reclaim_data; instance in
    [Cache/CacheAsPageCache.v]: state = cache state x contents of the data
    buffers, [pc_get] = cache_get_entry + cache_entry_valid, [pc_insert] =
    write the buffer then cache_insert, [pc_discard] = cache_discard, [pc_put]
    = cache_put_entry; the relational form of the interface,
    [PageCacheAbs.pagecache_never_busy], is used).  For every capacity >= 1,
    every pure [fill] and every sequence of keys read by the single-threaded
    reader of read.c (get; on a miss fill and insert, or discard when the fill
    fails; use; put) each read returns [fill k] -- never BUSY, since no
    reference is outstanding between two reads -- independent of everything
    read before. *)
Theorem C04_pagecache_transparent_C06 :
  forall (D : Type) (fill : N -> option D) (cap : nat) (ks : list N), (0 < cap)%nat ->
    Forall2 (fun (k : N) (r : PageCacheAbs.rd D) => r = pure_answer N D fill k) ks
      (fst (PageCacheAbs.run (CacheAsPageCache.pc D) nat N D
              (CacheAsPageCache.pc_get D) (CacheAsPageCache.pc_insert D)
              (CacheAsPageCache.pc_discard D) (CacheAsPageCache.pc_put D) fill
              (CacheAsPageCache.pc_init D cap) ks)).
Proof. exact CacheAsPageCache.pagecache_transparent_C06. Qed.
Print Assumptions C04_pagecache_transparent_C06.

(** the same for the pointer-level model of cache.c ([Cache/CacheRing.v]:
    next/prev arrays, split, counters, in-flight head), through the ring
    refinement of C06 *)
Theorem C04_pagecache_transparent_C06_ring :
  forall (D : Type) (fill : N -> option D) (cap : nat) (ks : list N), (0 < cap)%nat ->
    Forall2 (fun (k : N) (r : PageCacheAbs.rd D) => r = pure_answer N D fill k) ks
      (fst (PageCacheAbs.run (CacheAsPageCache.rpc D) nat N D
              (CacheAsPageCache.rpc_get D) (CacheAsPageCache.rpc_insert D)
              (CacheAsPageCache.rpc_discard D) (CacheAsPageCache.rpc_put D) fill
              (CacheAsPageCache.rpc_init D cap) ks)).
Proof. exact CacheAsPageCache.pagecache_transparent_C06_ring. Qed.
Print Assumptions C04_pagecache_transparent_C06_ring.

(** non-vacuity: capacity 2, keys 1 2 1 3 4 1 2 with key 3 unreadable, on both models *)
Example C04_pagecache_C06_run :
  let fill := fun k : N => if (k =? 3)%N then None else Some (k * 16)%N in
  fst (PageCacheAbs.run (CacheAsPageCache.pc N) nat N N
         (CacheAsPageCache.pc_get N) (CacheAsPageCache.pc_insert N)
         (CacheAsPageCache.pc_discard N) (CacheAsPageCache.pc_put N) fill
         (CacheAsPageCache.pc_init N 2) [1; 2; 1; 3; 4; 1; 2]%N) =
    [PageCacheAbs.ROk 16; PageCacheAbs.ROk 32; PageCacheAbs.ROk 16; PageCacheAbs.RErr;
     PageCacheAbs.ROk 64; PageCacheAbs.ROk 16; PageCacheAbs.ROk 32]%N /\
  fst (PageCacheAbs.run (CacheAsPageCache.rpc N) nat N N
         (CacheAsPageCache.rpc_get N) (CacheAsPageCache.rpc_insert N)
         (CacheAsPageCache.rpc_discard N) (CacheAsPageCache.rpc_put N) fill
         (CacheAsPageCache.rpc_init N 2) [1; 2; 1; 3; 4; 1; 2]%N) =
    [PageCacheAbs.ROk 16; PageCacheAbs.ROk 32; PageCacheAbs.ROk 16; PageCacheAbs.RErr;
     PageCacheAbs.ROk 64; PageCacheAbs.ROk 16; PageCacheAbs.ROk 32]%N.
Proof. split; vm_compute; reflexivity. Qed.
(* ===== end: C04 over C06's model of cache.c ===== *)
