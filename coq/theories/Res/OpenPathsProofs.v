(** Proofs for Res/OpenPaths.v *)
From Coq Require Import List Bool Arith PeanoNat Lia Permutation.
From KdV Require Import Res.Tokens Res.TokensProofs Res.ResModel Res.ResProofs.
From KdV Require Import Res.SysLayout Res.SysLayoutProofs Res.OpenPaths.
Import ListNotations.

Definition ftoks (f : fmapr) : list nat := mtoks (fm_map f) ++ SysLayout.optl (fm_offs f).

Lemma ftoks_mk m offs s T0 L K P F :
  PSt s (mtoks (Some m) ++ SysLayout.optl offs ++ T0) L K P F ->
  PSt s (ftoks {| fm_map := Some m; fm_offs := offs |} ++ T0) L K P F.
Proof. unfold ftoks. cbn [fm_map fm_offs]. rewrite <- app_assoc. exact (fun H => H). Qed.

(* Head: the local variable and fmap->offs agree whenever the array exists *)
Lemma flat_loop_ok inc segs : forall segidx m offs s T0 L K P F,
  PSt s (mtoks (Some m) ++ SysLayout.optl offs ++ T0) L K P F ->
  wp (flat_loop false inc segs segidx m offs offs)
     (fun r s' => snd r = [] /\ exists F', PSt s' (ftoks (snd (fst r)) ++ T0) L K P F' /\
                  (fst (fst r) = true -> F' = F)) s.
Proof.
  induction segs as [| h rest IH]; intros segidx m offs s T0 L K P F HS; cbn [flat_loop]; cbv zeta.
  - apply wp_ret. cbn [fst snd]. split; [reflexivity|]. exists F.
    split; [apply ftoks_mk; exact HS|discriminate].
  - destruct h as [grow| | |].
    + apply wp_bind.
      assert (Hr : forall (Q : bool * option nat -> st -> Prop),
        (forall o' s', PSt s' (mtoks (Some m) ++ SysLayout.optl o' ++ T0) L K P F -> Q (true, o') s') ->
        (forall s', PSt s' (mtoks (Some m) ++ SysLayout.optl offs ++ T0) L K P true -> Q (false, None) s') ->
        wp (if Nat.eqb (Nat.modulo segidx inc) 0
            then a <- realloc S_format_private offs ;;
                 ret (match a with Some n => (true, Some n) | None => (false, None) end)
            else ret (true, offs)) Q s).
      { intros Q Hok Hf. destruct (Nat.eqb (Nat.modulo segidx inc) 0).
        - apply wp_bind. eapply (wp_prealloc _ offs s (mtoks (Some m) ++ T0)).
          + eapply PSt_conv; [|exact HS]. apply Permutation_app_swap_app.
          + intros id s' HS'. apply wp_ret. apply Hok. simpl.
            eapply PSt_conv; [|exact HS']. apply (Permutation_app_swap_app [id]).
          + intros s' HS'. apply wp_ret. apply Hf.
            eapply PSt_conv; [|exact HS']. apply Permutation_app_swap_app.
        - apply wp_ret. apply Hok. exact HS. }
      apply Hr.
      * intros o' s1 HS1. cbn [fst snd]. apply wp_bind.
        eapply map_set_ok; [exact HS1 | |].
        -- intros m' s2 HS2. eapply IH. exact HS2.
        -- intros s2 HS2. apply wp_ret. cbn [fst snd]. split; [reflexivity|].
           exists true. split; [apply ftoks_mk; exact HS2|discriminate].
      * intros s1 HS1. cbn [fst snd]. apply wp_ret. cbn [fst snd].
        split; [reflexivity|]. exists true. split; [apply ftoks_mk; exact HS1|discriminate].
    + apply wp_ret. cbn [fst snd]. split; [reflexivity|]. exists F.
      split; [apply ftoks_mk; exact HS|reflexivity].
    + apply wp_ret. cbn [fst snd]. split; [reflexivity|]. exists F.
      split; [apply ftoks_mk; exact HS|discriminate].
    + apply wp_ret. cbn [fst snd]. split; [reflexivity|]. exists F.
      split; [apply ftoks_mk; exact HS|discriminate].
Qed.

Theorem flatmap_init_owned inc segs s T0 L K P F :
  PSt s T0 L K P F ->
  wp (flatmap_file_init false inc segs)
     (fun r s' => snd r = [] /\ exists F', PSt s' (ftoks (snd (fst r)) ++ T0) L K P F' /\
                  (fst (fst r) = true -> F' = F)) s.
Proof.
  intros HS. unfold flatmap_file_init. apply wp_bind. eapply wp_palloc; [exact HS | |].
  - intros id s1 HS1. eapply (flat_loop_ok inc segs 0 _ None). simpl. exact HS1.
  - intros s1 HS1. apply wp_ret. cbn [fst snd ftoks fm_map fm_offs mtoks]. split; [reflexivity|].
    exists true. split; [exact HS1|discriminate].
Qed.

Lemma flatmap_cleanup_ok f s T0 L K P F (Q : unit -> st -> Prop) :
  PSt s (ftoks f ++ T0) L K P F -> (forall s', PSt s' T0 L K P F -> Q tt s') ->
  wp (flatmap_file_cleanup f) Q s.
Proof.
  intros HS HQ. unfold flatmap_file_cleanup, ftoks in *. rewrite <- app_assoc in HS. apply wp_bind.
  assert (H1 : forall (Q1 : unit -> st -> Prop),
    (forall s', PSt s' (SysLayout.optl (fm_offs f) ++ T0) L K P F -> Q1 tt s') ->
    wp (match fm_map f with Some m => map_free m | None => ret tt end) Q1 s).
  { intros Q1 HQ1. destruct (fm_map f) as [m|]; [eapply map_free_ok; eauto|apply wp_ret; auto]. }
  apply H1. intros s1 HS1. destruct (fm_offs f) as [o|]; simpl in HS1.
  - eapply wp_pfree; eauto.
  - apply wp_ret. auto.
Qed.

Theorem flat_session_clean inc segs sch :
  let '(_, tr, _) := run (flat_session false inc segs) sch in clean tr.
Proof.
  unfold run.
  assert (W : wp (flat_session false inc segs) (fun _ s' => exists F', St s' [] [] [] F') (init sch 0 [])).
  { unfold flat_session. apply wp_bind.
    eapply wp_conseq; [apply (flatmap_init_owned inc segs _ [] [] [] [] false)|].
    - exists []. split; [constructor|simpl; apply St_init].
    - intros r s' (_ & F' & HS & _). apply wp_bind. eapply flatmap_cleanup_ok; [exact HS|].
      intros s2 (Lc & HP & HS2). apply wp_ret. apply Permutation_sym, Permutation_nil in HP. subst.
      simpl in HS2. eauto. }
  unfold wp in W. destruct (flat_session false inc segs (init sch 0 [])) as [ok s']. cbn [fst snd] in *.
  destruct W as (F' & W). eapply St_clean; eauto.
Qed.

(* storing the array into fmap->offs only on the success exit loses it on every
   error exit behind the first good segment *)
Lemma flat_late_witness :
  exists segs, let '(ok, tr, _) := run (flat_session true 32 segs) [] in ok = false /\ ~ balanced tr.
Proof.
  exists [SegOk true; SegBad]. vm_compute. split; [reflexivity|].
  intros (x & E & Hl). inversion E; subst. discriminate.
Qed.

(** ** walk_elf_notes: the chunk of every note segment is put, accepted or not *)
Theorem walk_elf_notes_balanced segs : forall s L K P F,
  Forall (fun sg => ns_big sg = false -> length (ns_pages sg) <= 2) segs ->
  St s L K P F ->
  wp (walk_elf_notes false segs) (fun _ s' => exists F', St s' L K P F') s.
Proof.
  induction segs as [| sg rest IH]; intros s L K P F Hg HS; cbn [walk_elf_notes].
  - apply wp_ret. eauto.
  - inversion Hg as [| ? ? Hb Hrest]; subst. apply wp_bind.
    eapply wp_conseq; [exact (chunk_get_put_balanced _ _ _ _ _ _ _ _ Hb HS)|].
    intros [g| |] s' HQ; simpl in HQ.
    + destruct HQ as [F' HS']. apply wp_bind.
      eapply wp_conseq; [exact (put_chunk_releases g _ _ _ _ _ HS')|].
      intros [] s2 HS2. destruct (ns_ok sg); [eapply IH; eauto|apply wp_ret; eauto].
    + apply wp_ret. exact HQ.
    + contradiction.
Qed.

Lemma walk_elf_notes_run segs sch :
  Forall (fun sg => ns_big sg = false -> length (ns_pages sg) <= 2) segs ->
  let '(_, tr, _) := run (walk_elf_notes false segs) sch in clean tr.
Proof.
  intros Hg. unfold run.
  pose proof (walk_elf_notes_balanced segs _ _ _ _ _ Hg (St_init sch)) as W. unfold wp in W.
  destruct (walk_elf_notes false segs (init sch 0 [])) as [b s']. cbn [fst snd] in *.
  destruct W as [F' W]. eapply St_clean; eauto.
Qed.

(* a put below the status check keeps the chunk of a rejected note segment *)
Lemma walk_notes_put_late_witness :
  exists segs, let '(r, s) := walk_elf_notes true segs (init [] 0 []) in
               r = false /\ exists x, summary s = Some x /\ pins x <> [].
Proof.
  exists [{| ns_pol := PNever; ns_big := false;
             ns_pages := [({| g_eof := false; g_mlook := Busy; g_mmap_ok := true;
                              g_rlook := Entry 5 false; g_pread_ok := true |}, true)];
             ns_ok := false |}].
  vm_compute. split; [reflexivity|]. eexists. split; [reflexivity|discriminate].
Qed.
