(** Proofs for Res/Reopen.v *)
From Coq Require Import List Bool Arith PeanoNat Lia Permutation.
From KdV Require Import Res.Tokens Res.TokensProofs Res.ResProofs Res.SysLayoutProofs Res.Reopen.
Import ListNotations.

Lemma wp_pfree_all xs : forall s T0 L K P F (Q : unit -> st -> Prop),
  PSt s (xs ++ T0) L K P F -> (forall s', PSt s' T0 L K P F -> Q tt s') -> wp (free_all xs) Q s.
Proof.
  induction xs as [| x xs IH]; intros s T0 L K P F Q HS HQ; simpl.
  - apply wp_ret. auto.
  - apply wp_bind. eapply wp_pfree; [exact HS|]. intros s1 HS1. eapply IH; eauto.
Qed.

Lemma alloc_group_ok site n : forall acc s T0 L K P F (Q : option (list nat) -> st -> Prop),
  PSt s (acc ++ T0) L K P F ->
  (forall toks s', PSt s' (toks ++ T0) L K P F -> Q (Some toks) s') ->
  (forall s', PSt s' T0 L K P true -> Q None s') ->
  wp (alloc_group site n acc) Q s.
Proof.
  induction n as [| n IH]; intros acc s T0 L K P F Q HS Hok Hf; cbn [alloc_group].
  - apply wp_ret. auto.
  - apply wp_bind. eapply wp_palloc; [exact HS | |].
    + intros id s1 HS1. eapply (IH (id :: acc)); eauto.
    + intros s1 HS1. apply wp_bind. eapply wp_pfree_all; [exact HS1|]. intros s2 HS2. apply wp_ret. auto.
Qed.

(** what every exit of open_dump guarantees: all blocks alive are owned by the
    new state; success leaves the failure flag alone *)
Definition open_post (T0 L K P : list nat) (F : bool) (r : bool * ost) (s' : st) : Prop :=
  exists F', PSt s' (stoks (snd r) ++ T0) L K P F' /\ (fst r = true -> F' = F).

Lemma probe_loop_ok probes : forall fc fl s T0 L K P F,
  PSt s (fc ++ fl ++ T0) L K P F ->
  wp (probe_loop fc fl probes) (open_post T0 L K P F) s.
Proof.
  induction probes as [| [n v] rest IH]; intros fc fl s T0 L K P F HS; cbn [probe_loop].
  - apply wp_ret. exists F. unfold stoks; cbn [snd fst o_fmt o_fcache o_flat app].
    rewrite <- app_assoc. split; [exact HS|discriminate].
  - apply wp_bind. eapply (alloc_group_ok _ n []); [simpl; exact HS | |].
    + intros toks s1 HS1. destruct v.
      * apply wp_ret. exists F. unfold stoks; cbn [snd fst o_fmt o_fcache o_flat].
        rewrite <- !app_assoc. split; [exact HS1|reflexivity].
      * apply wp_bind. eapply wp_pfree_all; [exact HS1|]. intros s2 HS2. eapply IH. exact HS2.
      * apply wp_bind. eapply wp_pfree_all; [exact HS1|]. intros s2 HS2. apply wp_ret.
        exists F. unfold stoks; cbn [snd fst o_fmt o_fcache o_flat app]. rewrite <- app_assoc.
        split; [exact HS2|discriminate].
    + intros s1 HS1. apply wp_ret. exists true. unfold stoks; cbn [snd fst o_fmt o_fcache o_flat app].
      rewrite <- app_assoc. split; [exact HS1|discriminate].
Qed.

(** the repaired open: whatever was open before is released, whatever happens *)
Theorem open_dump_releases_first st0 nfc probes s T0 L K P F :
  PSt s (stoks st0 ++ T0) L K P F ->
  wp (open_dump true st0 nfc probes) (open_post T0 L K P F) s.
Proof.
  intros HS. unfold open_dump, stoks in *. rewrite <- !app_assoc in HS.
  apply wp_bind. eapply wp_pfree_all; [exact HS|]. intros s1 HS1.
  apply wp_bind.
  eapply (wp_pfree_all (o_flat st0) s1 (o_fcache st0 ++ T0)).
  { eapply PSt_conv; [|exact HS1]. apply Permutation_app_swap_app. }
  intros s2 HS2. apply wp_bind. eapply wp_pfree_all; [exact HS2|]. intros s3 HS3.
  apply wp_bind. eapply (alloc_group_ok _ nfc []); [simpl; exact HS3 | |].
  - intros fct s4 HS4. apply wp_bind. eapply (alloc_group_ok _ 1 [] s4 (fct ++ T0)); [simpl; exact HS4 | |].
    + intros flt s5 HS5. eapply probe_loop_ok.
      eapply PSt_conv; [|exact HS5]. apply Permutation_app_swap_app.
    + intros s5 HS5. apply wp_ret. exists true. unfold stoks; cbn [snd fst o_fmt o_fcache o_flat app].
      rewrite app_nil_r. split; [exact HS5|discriminate].
  - intros s4 HS4. apply wp_ret. exists true. unfold stoks; cbn [snd fst o_fmt o_fcache o_flat app].
    split; [exact HS4|discriminate].
Qed.

Lemma close_dump_ok st0 s T0 L K P F (Q : unit -> st -> Prop) :
  PSt s (stoks st0 ++ T0) L K P F -> (forall s', PSt s' T0 L K P F -> Q tt s') -> wp (close_dump st0) Q s.
Proof.
  intros HS HQ. unfold close_dump, stoks in *. rewrite <- !app_assoc in HS.
  apply wp_bind. eapply wp_pfree_all; [exact HS|]. intros s1 HS1. apply wp_bind.
  eapply (wp_pfree_all (o_flat st0) s1 (o_fcache st0 ++ T0)).
  { eapply PSt_conv; [|exact HS1]. apply Permutation_app_swap_app. }
  intros s2 HS2. eapply wp_pfree_all; eauto.
Qed.

Lemma open_many_ok opens : forall st0 s T0 L K P F (Q : ost -> st -> Prop),
  PSt s (stoks st0 ++ T0) L K P F ->
  (forall st1 s' F', PSt s' (stoks st1 ++ T0) L K P F' -> Q st1 s') ->
  wp (open_many true st0 opens) Q s.
Proof.
  induction opens as [| [nfc probes] rest IH]; intros st0 s T0 L K P F Q HS HQ; cbn [open_many].
  - apply wp_ret. eauto.
  - apply wp_bind. eapply wp_conseq; [exact (open_dump_releases_first st0 nfc probes _ _ _ _ _ _ HS)|].
    intros r s' (F' & HS' & _). eapply IH; eauto.
Qed.

(** any sequence of opens (of any formats, accepted, declined or failing, under
    any allocation schedule) followed by kdump_free leaves nothing *)
Theorem session_clean opens sch :
  let '(_, tr, _) := run (session true opens) sch in clean tr.
Proof.
  unfold run.
  assert (W : wp (session true opens) (fun _ s' => exists F', St s' [] [] [] F') (init sch 0 [])).
  { unfold session. apply wp_bind. eapply (open_many_ok opens closed _ [] [] [] [] false).
    - exists []. split; [constructor|simpl; apply St_init].
    - intros st1 s' F' HS. eapply close_dump_ok; [exact HS|].
      intros s2 (Lc & HP & HS2). apply Permutation_sym, Permutation_nil in HP. subst. simpl in HS2. eauto. }
  unfold wp in W. destruct (session true opens (init sch 0 [])) as [u s']. cbn [fst snd] in *.
  destruct W as [F' W]. eapply St_clean; eauto.
Qed.

(** one failing open on complete runs: error exactly when an allocation failed or
    no probe accepted; everything alive is owned by the resulting state *)
Theorem open_dump_run st0 nfc probes sch :
  stoks st0 = [] ->
  let '(r, tr, fl) := run (open_dump true st0 nfc probes) sch in
  (fl = true -> fst r = false) /\
  exists x, replay tr = Some x /\ Permutation (live x) (stoks (snd r)) /\ locks x = [] /\ pins x = [].
Proof.
  intros H0. unfold run.
  assert (W : wp (open_dump true st0 nfc probes) (open_post [] [] [] [] false) (init sch 0 [])).
  { apply open_dump_releases_first. rewrite H0. exists []. split; [constructor|simpl; apply St_init]. }
  unfold wp in W. destruct (open_dump true st0 nfc probes (init sch 0 [])) as [r s']. cbn [fst snd] in *.
  destruct W as (F' & (Lc & HP & HS) & Hok). split.
  - intros Hf. rewrite (st_failed _ _ _ _ _ HS) in Hf. destruct (fst r); [|reflexivity].
    rewrite (Hok eq_refl) in Hf. discriminate.
  - eexists. split; [exact (st_sum _ _ _ _ _ HS)|]. cbn [live locks pins].
    rewrite !app_nil_r in *. auto.
Qed.

(** without the teardown the first format's blocks are lost by the second open *)
Lemma open_pinned_witness :
  exists opens, let '(_, tr, _) := run (session false opens) [] in ~ balanced tr.
Proof.
  exists [(1, [(2, VOk)]); (1, [(1, VOk)])]. vm_compute.
  intros (x & E & Hl). inversion E; subst. discriminate.
Qed.
