(** What C18 ("running out of memory is an error, not an accident") demands of
    a modelled call, in terms of the summary of its trace.

    A call is a program [m : M (option A)]; [own a] are the blocks a
    successful result owns (what the matching destructor frees), [pinsof a]
    the references it holds on objects that existed before.  Started in any
    state (blocks [L] alive, locks [K] held, references [P] held),

    - if it returns [Some a]: no allocator call was failed since the start
      (the failure flag is what it was), exactly [own a] was added to the
      live blocks, exactly [pinsof a] to the references, locks as before;
    - if it returns [None]: live blocks, locks and references are exactly
      what they were - nothing leaked, nothing freed twice, no lock left
      held - whatever the schedule was.

    [unwinds_strict] adds: [None] is returned only because an allocator
    call was failed. *)
From Coq Require Import List Bool Arith.
From KdV Require Import Res.Tokens Res.TokensProofs.
Import ListNotations.

Definition unwinds {A} (m : M (option A)) (own pinsof : A -> list nat) : Prop :=
  forall s L K P F, St s L K P F ->
    wp m (fun r s' =>
            match r with
            | Some a => St s' (own a ++ L) K (pinsof a ++ P) F
            | None => exists F', St s' L K P F'
            end) s.

Definition unwinds_strict {A} (m : M (option A)) (own pinsof : A -> list nat) : Prop :=
  forall s L K P F, St s L K P F ->
    wp m (fun r s' =>
            match r with
            | Some a => St s' (own a ++ L) K (pinsof a ++ P) F
            | None => St s' L K P true
            end) s.

(** a destructor gives back exactly what the object owns *)
Definition releases {A} (d : A -> M unit) (own pinsof : A -> list nat) : Prop :=
  forall a s L K P F, St s (own a ++ L) K (pinsof a ++ P) F ->
    wp (d a) (fun _ s' => St s' L K P F) s.

(** the statement on complete runs, for every schedule - in particular for
    [fail_nth n], every n *)
Definition run_ok {A} (m : M (option A)) : Prop :=
  forall sch,
    let '(r, tr, fl) := run m sch in
    (r = None -> balanced tr /\ no_lock_held tr /\ no_pin_held tr) /\
    (fl = true -> r = None) /\
    (exists s, replay tr = Some s).

Definition run_ok_strict {A} (m : M (option A)) : Prop :=
  forall sch,
    let '(r, tr, fl) := run m sch in
    (r = None <-> fl = true) /\
    (r = None -> balanced tr /\ no_lock_held tr /\ no_pin_held tr) /\
    (exists s, replay tr = Some s).

(** ownership described by a relation (the order in which a constructor's
    blocks sit in the live list is an artefact of the model) *)
Definition unwinds_rel {A} (m : M (option A)) (shape : A -> list nat -> list nat -> Prop) : Prop :=
  forall s L K P F, St s L K P F ->
    wp m (fun r s' =>
            match r with
            | Some a => exists Ln Pn, shape a Ln Pn /\ St s' (Ln ++ L) K (Pn ++ P) F
            | None => exists F', St s' L K P F'
            end) s.

Definition unwinds_strict_rel {A} (m : M (option A)) (shape : A -> list nat -> list nat -> Prop) : Prop :=
  forall s L K P F, St s L K P F ->
    wp m (fun r s' =>
            match r with
            | Some a => exists Ln Pn, shape a Ln Pn /\ St s' (Ln ++ L) K (Pn ++ P) F
            | None => St s' L K P true
            end) s.

Definition releases_rel {A} (d : A -> M unit) (shape : A -> list nat -> list nat -> Prop) : Prop :=
  forall a Ln Pn s L K P F, shape a Ln Pn -> St s (Ln ++ L) K (Pn ++ P) F ->
    wp (d a) (fun _ s' => St s' L K P F) s.

(** constructor followed by its destructor: nothing is left, whatever the schedule *)
Definition roundtrip_clean {A} (m : M (option A)) (d : A -> M unit) : Prop :=
  forall sch,
    let '(_, tr, _) := run (r <- m ;; match r with Some a => d a ;;; ret true | None => ret false end) sch in
    clean tr.
