(** What C15 demands of one observed fcache_get_chunk / fcache_put_chunk round
    (the numbers the correspondence driver reports), as an executable check:
    [cls] 0 = get_chunk failed, 1/2/3 = embedded / array / copied, 4 = empty,
    9 = an access outside the descriptor; (pins, blocks) = cache references
    and allocated blocks held after get_chunk, (pins2, blocks2) = after
    put_chunk.  After a failure nothing may be held; after put_chunk nothing
    may be held; a successful chunk holds what its geometry says. *)
From Coq Require Import Bool Arith PeanoNat.

Definition chunk_obs_ok (cls pins blocks pins2 blocks2 : nat) : bool :=
  (pins2 =? 0) && (blocks2 =? 0) && negb (cls =? 9) &&
  match cls with
  | 0 => (pins =? 0) && (blocks =? 0)
  | 1 => (blocks =? 0) && (1 <=? pins) && (pins <=? 2)
  | 2 => (blocks =? 1) && (3 <=? pins)
  | 3 => (blocks =? 1) && (pins =? 0)
  | 4 => (blocks =? 0) && (pins =? 0)
  | _ => false
  end.
