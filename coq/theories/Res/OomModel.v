(** Event-program models of the constructor / unwind paths of libkdumpfile,
    transcribed from the C sources (with the repairs of fixes/21, 22, 24, 25, 40
    applied; the pinned variants that the repairs replace are kept next to
    them as [*_pinned] so that the defects stay expressible).

    Every allocator call of the C function is one [alloc] / [realloc] at the
    site named after the C function that contains the call; every [free],
    lock operation and reference-count change on an object that existed
    before the call is one event.  Loops are structural recursion over the
    thing iterated (number of global attributes, option templates, path
    components, per-context slots, the attribute tree being cloned).

    Identities: lock 0 is [shared->lock], lock 1 is [shared->cache_lock];
    pinned objects: 0 = the original's [struct kdump_shared] (refcnt),
    1 = the original's attribute dictionary, 2 = the original's [kdump_xlat]. *)
From Coq Require Import List Bool Arith PeanoNat.
From KdV Require Import Res.Tokens.
Import ListNotations.

Definition LK_shared := 0.
Definition LK_cache := 1.
Definition O_shared := 0.
Definition O_dict := 1.
Definition O_xlat := 2.

(** ** addrxlat context, kdump_ctx_t  (vtop.c init_addrxlat, context.c alloc_ctx) *)
Record ctxr := { c_ctx : nat; c_ax : nat; c_cb : nat }.

(* addrxlat_ctx_new(); addrxlat_ctx_add_cb(); on failure addrxlat_ctx_decref() *)
Definition init_addrxlat : M (option (nat * nat)) :=
  a <- alloc S_addrxlat_ctx_new ;;
  match a with
  | None => ret None
  | Some ax =>
      c <- alloc S_addrxlat_ctx_add_cb ;;
      match c with
      | None => free ax ;;; ret None
      | Some cb => ret (Some (ax, cb))
      end
  end.

(* addrxlat_ctx_decref on the only reference: callbacks, then the context *)
Definition addrxlat_ctx_decref (c : ctxr) : M unit := free (c_cb c) ;;; free (c_ax c).

Definition alloc_ctx : M (option ctxr) :=
  c <- alloc S_alloc_ctx ;;
  match c with
  | None => ret None
  | Some ctx =>
      r <- init_addrxlat ;;
      match r with
      | None => (* err: err_cleanup (static buffer), free(ctx) *) free ctx ;;; ret None
      | Some (ax, cb) => ret (Some {| c_ctx := ctx; c_ax := ax; c_cb := cb |})
      end
  end.

(** ** translation definition (vtop.c) *)
Record xlatr := { x_xlat : nat; x_sys : nat }.

Definition xlat_new : M (option xlatr) :=
  x <- alloc S_xlat_new ;;
  match x with
  | None => ret None
  | Some xl =>
      y <- alloc S_addrxlat_sys_new ;;
      match y with
      | None => (* err: *) free xl ;;; ret None
      | Some sys => ret (Some {| x_xlat := xl; x_sys := sys |})
      end
  end.

(* repaired: if (!xlat) return NULL; set caps; dirty = true *)
Definition xlat_clone : M (option xlatr) := xlat_new.

(* xlat_decref on the only reference = xlat_free: addrxlat_sys_decref, free *)
Definition xlat_free (x : xlatr) : M unit := free (x_sys x) ;;; free (x_xlat x).

(** ** attribute dictionary (attr.c) *)
(* a dictionary owns its own block and every block linked below its root:
   attribute structures, dynamic templates, dynamic string values *)
Record dictr := { d_id : nat; d_toks : list nat }.

(* for (i = 0; i < NR_GLOBAL_ATTRS; ++i) { attr = new_attr(..); if (!attr) {dealloc root; free(dict); return NULL;} } *)
Fixpoint new_global_attrs (n : nat) (did : nat) (acc : list nat) : M (option (list nat)) :=
  match n with
  | 0 => ret (Some acc)
  | S k =>
      a <- alloc S_alloc_attr ;;
      match a with
      | None => free_all acc ;;; free did ;;; ret None
      | Some id => new_global_attrs k did (id :: acc)
      end
  end.

(* attr_dict_new(shared): the reference taken on shared is the caller's
   business (the shared object is created by the same call in kdump_new) *)
Definition attr_dict_new (nr : nat) : M (option dictr) :=
  d <- alloc S_attr_dict_new ;;
  match d with
  | None => ret None
  | Some did =>
      r <- new_global_attrs nr did [] ;;
      match r with
      | None => ret None
      | Some toks => ret (Some {| d_id := did; d_toks := toks |})
      end
  end.

(* pinned: a failed new_attr returns NULL at once *)
Fixpoint new_global_attrs_pinned (n : nat) (acc : list nat) : M (option (list nat)) :=
  match n with
  | 0 => ret (Some acc)
  | S k =>
      a <- alloc S_alloc_attr ;;
      match a with
      | None => ret None
      | Some id => new_global_attrs_pinned k (id :: acc)
      end
  end.
Definition attr_dict_new_pinned (nr : nat) : M (option dictr) :=
  d <- alloc S_attr_dict_new ;;
  match d with
  | None => ret None
  | Some did =>
      r <- new_global_attrs_pinned nr [] ;;
      match r with
      | None => ret None
      | Some toks => ret (Some {| d_id := did; d_toks := toks |})
      end
  end.

(* attr_dict_clone(orig): dictionary, root directory; references on the
   fallback dictionary and on shared *)
Definition attr_dict_clone : M (option dictr) :=
  d <- alloc S_attr_dict_clone ;;
  match d with
  | None => ret None
  | Some did =>
      r <- alloc S_alloc_attr ;;
      match r with
      | None => free did ;;; ret None
      | Some root =>
          pin O_dict ;;; pin O_shared ;;;
          ret (Some {| d_id := did; d_toks := [root] |})
      end
  end.

(* attr_dict_free of a dictionary created by attr_dict_new in kdump_new:
   dealloc_attr(root); shared_decref_locked (the caller accounts for it); free(dict) *)
Definition attr_dict_free_new (d : dictr) : M unit := free_all (d_toks d) ;;; free (d_id d).

(* attr_dict_free of a cloned dictionary: dealloc root; attr_dict_decref(fallback);
   shared_decref_locked; free(dict) *)
Definition attr_dict_free_clone (d : dictr) : M unit :=
  free_all (d_toks d) ;;; unpin O_dict ;;; unpin O_shared ;;; free (d_id d).

(** create_addrxlat_dir (vtop.c): for every option template new_attr(); a
    directory option gets two children.  A failure returns at once: what was
    created stays linked in the dictionary.  [opts]: is the option a directory *)
Fixpoint create_addrxlat_dir (opts : list bool) (acc : list nat) : M (bool * list nat) :=
  match opts with
  | [] => ret (true, acc)
  | isdir :: rest =>
      a <- alloc S_alloc_attr ;;
      match a with
      | None => ret (false, acc)
      | Some id =>
          if isdir then
            b <- alloc S_alloc_attr ;;
            match b with
            | None => ret (false, id :: acc)
            | Some id2 =>
                c <- alloc S_alloc_attr ;;
                match c with
                | None => ret (false, id2 :: id :: acc)
                | Some id3 => create_addrxlat_dir rest (id3 :: id2 :: id :: acc)
                end
            end
          else create_addrxlat_dir rest (id :: acc)
      end
  end.

(* create_addrxlat_attrs: addrxlat.default then addrxlat.force *)
Definition create_addrxlat_attrs (opts : list bool) (d : dictr) : M (bool * dictr) :=
  r1 <- create_addrxlat_dir opts (d_toks d) ;;
  if fst r1 then
    r2 <- create_addrxlat_dir opts (snd r1) ;;
    ret (fst r2, {| d_id := d_id d; d_toks := snd r2 |})
  else ret (false, {| d_id := d_id d; d_toks := snd r1 |}).

(** create_attr_path (attr.c): [missing] trailing path components do not
    exist yet; for each: alloc_attr_template then new_attr; a failure returns
    NULL, what was created before stays linked (unset directories).
    Returns the new blocks, all owned by the dictionary. *)
Fixpoint create_attr_path (missing : nat) (acc : list nat) : M (bool * list nat) :=
  match missing with
  | 0 => ret (true, acc)
  | S k =>
      t <- alloc S_alloc_attr_template ;;
      match t with
      | None => ret (false, acc)
      | Some tm =>
          a <- alloc S_alloc_attr ;;
          match a with
          | None => free tm ;;; ret (false, acc)
          | Some at_ => create_attr_path k (at_ :: tm :: acc)
          end
      end
  end.

(** ** cloning attributes (attr.c clone_attr, clone_subtree, clone_attr_path) *)
Inductive akind := KDir | KStr | KVal | KOther.
Inductive atree := ANode (k : akind) (isset : bool) (kids : list atree).

(* clone_attr: new_attr; if the original is set copy_data (strdup for strings;
   bitmaps and blobs are "not yet implemented": failure without allocation).
   Repaired: when copy_data fails the new attribute is unlinked and freed. *)
Definition clone_attr (k : akind) (isset : bool) (acc : list nat) : M (bool * list nat) :=
  a <- alloc S_alloc_attr ;;
  match a with
  | None => ret (false, acc)
  | Some id =>
      if isset then
        match k with
        | KDir | KVal => ret (true, id :: acc)
        | KStr =>
            s <- alloc S_copy_data ;;
            match s with
            | None => free id ;;; ret (false, acc)
            | Some str => ret (true, str :: id :: acc)
            end
        | KOther => free id ;;; ret (false, acc)
        end
      else ret (true, id :: acc)
  end.

(* clone_attr followed, for directories, by clone_subtree *)
Fixpoint clone_node (t : atree) (acc : list nat) {struct t} : M (bool * list nat) :=
  match t with
  | ANode k isset kids =>
      r <- clone_attr k isset acc ;;
      if fst r then
        match k with
        | KDir =>
            (fix go (l : list atree) (acc : list nat) {struct l} : M (bool * list nat) :=
               match l with
               | [] => ret (true, acc)
               | c :: l' =>
                   r1 <- clone_node c acc ;;
                   if fst r1 then go l' (snd r1) else ret r1
               end) kids (snd r)
        | _ => ret r
        end
      else ret r
  end.

Fixpoint clone_kids (l : list atree) (acc : list nat) : M (bool * list nat) :=
  match l with
  | [] => ret (true, acc)
  | c :: l' =>
      r1 <- clone_node c acc ;;
      if fst r1 then clone_kids l' (snd r1) else ret r1
  end.

(* the missing path components above the attribute: directories *)
Fixpoint clone_chain (n : nat) (acc : list nat) : M (bool * list nat) :=
  match n with
  | 0 => ret (true, acc)
  | S k =>
      r <- clone_attr KDir true acc ;;
      if fst r then clone_chain k (snd r) else ret r
  end.

(** clone_attr_path(dict, orig).  [above]: number of missing directories
    above the attribute; [self_missing]: the attribute itself does not exist
    in the clone yet.  Returns [Some new] (blocks now owned by the
    dictionary) or [None] after the rollback; with nothing to roll back
    ([attr == base]) a failed clone_subtree leaves what it created linked
    ([inl] = kept). *)
Definition clone_attr_path (above : nat) (self_missing : bool) (t : atree)
  : M (option (list nat) * list nat) :=
  match t with
  | ANode k isset kids =>
      r0 <- (if self_missing then clone_chain above [] else ret (true, [])) ;;
      if fst r0 then
        r1 <- (if self_missing then clone_attr k isset (snd r0) else ret (true, snd r0)) ;;
        if fst r1 then
          r2 <- (match k with KDir => clone_kids kids (snd r1) | _ => ret (true, snd r1) end) ;;
          if fst r2 then ret (Some (snd r2), [])
          else if self_missing then free_all (snd r2) ;;; ret (None, [])
               else ret (None, snd r2)
        else free_all (snd r1) ;;; ret (None, [])
      else free_all (snd r0) ;;; ret (None, [])
  end.

(* clone_xlat_attrs: addrxlat.default, addrxlat.force, ostype on a fresh clone
   (only the root exists, so every attribute is missing) *)
Fixpoint clone_xlat_attrs (specs : list (nat * atree)) (acc : list nat) : M (bool * list nat) :=
  match specs with
  | [] => ret (true, acc)
  | (above, t) :: rest =>
      r <- clone_attr_path above true t ;;
      match fst r with
      | Some new => clone_xlat_attrs rest (new ++ acc)
      | None => ret (false, acc)
      end
  end.

(** ** kdump_new (context.c) *)
Record kctx := {
  k_ctx : ctxr;
  k_shared : option nat;        (* Some: created by this call (kdump_new) *)
  k_dict : option dictr;        (* Some: own dictionary *)
  k_xlat : option xlatr;        (* Some: own translation *)
  k_slots : list nat }.         (* per-context data *)

(* shared_decref on the last reference: wrlock; shared_free: unlock, ..., free *)
Definition shared_decref_last (sh : nat) : M unit :=
  lock Wr LK_shared ;;; unlock LK_shared ;;; free sh.

Definition kdump_new (nr : nat) (opts : list bool) : M (option kctx) :=
  c <- alloc_ctx ;;
  match c with
  | None => ret None
  | Some ctx =>
      s <- alloc S_alloc_shared ;;
      match s with
      | None => (* err: *) addrxlat_ctx_decref ctx ;;; free (c_ctx ctx) ;;; ret None
      | Some sh =>
          d <- attr_dict_new nr ;;
          match d with
          | None => (* err_shared: *)
              shared_decref_last sh ;;; addrxlat_ctx_decref ctx ;;; free (c_ctx ctx) ;;; ret None
          | Some dict =>
              r <- create_addrxlat_attrs opts dict ;;
              let dict' := snd r in
              if fst r then
                x <- xlat_new ;;
                match x with
                | None => (* err_dict: *)
                    attr_dict_free_new dict' ;;; shared_decref_last sh ;;;
                    addrxlat_ctx_decref ctx ;;; free (c_ctx ctx) ;;; ret None
                | Some xl =>
                    ret (Some {| k_ctx := ctx; k_shared := Some sh; k_dict := Some dict';
                                 k_xlat := Some xl; k_slots := [] |})
                end
              else
                attr_dict_free_new dict' ;;; shared_decref_last sh ;;;
                addrxlat_ctx_decref ctx ;;; free (c_ctx ctx) ;;; ret None
          end
      end
  end.

(* pinned: attr_dict_new leaks on failure *)
Definition kdump_new_pinned (nr : nat) (opts : list bool) : M (option kctx) :=
  c <- alloc_ctx ;;
  match c with
  | None => ret None
  | Some ctx =>
      s <- alloc S_alloc_shared ;;
      match s with
      | None => addrxlat_ctx_decref ctx ;;; free (c_ctx ctx) ;;; ret None
      | Some sh =>
          d <- attr_dict_new_pinned nr ;;
          match d with
          | None => shared_decref_last sh ;;; addrxlat_ctx_decref ctx ;;; free (c_ctx ctx) ;;; ret None
          | Some dict =>
              r <- create_addrxlat_attrs opts dict ;;
              let dict' := snd r in
              if fst r then
                x <- xlat_new ;;
                match x with
                | None =>
                    attr_dict_free_new dict' ;;; shared_decref_last sh ;;;
                    addrxlat_ctx_decref ctx ;;; free (c_ctx ctx) ;;; ret None
                | Some xl =>
                    ret (Some {| k_ctx := ctx; k_shared := Some sh; k_dict := Some dict';
                                 k_xlat := Some xl; k_slots := [] |})
                end
              else
                attr_dict_free_new dict' ;;; shared_decref_last sh ;;;
                addrxlat_ctx_decref ctx ;;; free (c_ctx ctx) ;;; ret None
          end
      end
  end.

(** ** kdump_clone (context.c) *)
(* for (slot..) if (sz) { data[slot] = malloc(sz); if (!..) { free earlier; ... return NULL } } *)
Fixpoint clone_slots (n : nat) (acc : list nat) : M (option (list nat)) :=
  match n with
  | 0 => ret (Some acc)
  | S k =>
      a <- alloc S_kdump_clone ;;
      match a with
      | None => free_all acc ;;; ret None
      | Some id => clone_slots k (id :: acc)
      end
  end.

(* [dictclone] = (flags != 0); [xlatclone] = (flags & KDUMP_CLONE_XLAT) != 0 *)
Definition kdump_clone_gen (unlock_on_slot_failure free_on_error : bool)
           (slots : nat) (dictclone xlatclone : bool) (specs : list (nat * atree))
  : M (option kctx) :=
  c <- alloc_ctx ;;
  match c with
  | None => ret None
  | Some ctx =>
      lock Rd LK_shared ;;;
      sl <- clone_slots slots [] ;;
      match sl with
      | None =>
          (if unlock_on_slot_failure then unlock LK_shared else ret tt) ;;;   (* fixes/21 *)
          addrxlat_ctx_decref ctx ;;; free (c_ctx ctx) ;;; ret None
      | Some data =>
          unlock LK_shared ;;;
          lock Wr LK_shared ;;;
          pin O_shared ;;;
          let err_shared : M (option kctx) :=
            (if free_on_error then free_all data else ret tt) ;;;              (* fixes/40 *)
            unpin O_shared ;;;
            unlock LK_shared ;;;
            (if free_on_error then addrxlat_ctx_decref ctx else ret tt) ;;;    (* fixes/40 *)
            free (c_ctx ctx) ;;; ret None in
          d <- (if dictclone then
                  r <- attr_dict_clone ;;
                  match r with None => ret None | Some dd => ret (Some (Some dd)) end
                else pin O_dict ;;; ret (Some None)) ;;
          match d with
          | None => err_shared
          | Some dict =>
              let err_dict : M (option kctx) :=
                match dict with
                | Some dd => attr_dict_free_clone dd
                | None => unpin O_dict
                end ;;; err_shared in
              if xlatclone then
                x <- xlat_clone ;;
                match x with
                | None => err_dict
                | Some xl =>
                    match dict with
                    | Some dd =>
                        r <- clone_xlat_attrs specs (d_toks dd) ;;
                        let dd' := {| d_id := d_id dd; d_toks := snd r |} in
                        if fst r then
                          unlock LK_shared ;;;
                          ret (Some {| k_ctx := ctx; k_shared := None; k_dict := Some dd';
                                       k_xlat := Some xl; k_slots := data |})
                        else (* err_xlat: *)
                          xlat_free xl ;;; attr_dict_free_clone dd' ;;; err_shared
                    | None =>
                        (* flags & XLAT implies flags != 0: unreachable in C; the
                           attributes would be cloned into the shared dictionary *)
                        unlock LK_shared ;;;
                        ret (Some {| k_ctx := ctx; k_shared := None; k_dict := None;
                                     k_xlat := Some xl; k_slots := data |})
                    end
                end
              else
                pin O_xlat ;;;
                unlock LK_shared ;;;
                ret (Some {| k_ctx := ctx; k_shared := None; k_dict := dict;
                             k_xlat := None; k_slots := data |})
          end
      end
  end.

Definition kdump_clone := kdump_clone_gen true true.
Definition kdump_clone_pinned := kdump_clone_gen false false.

(** kdump_free of a context that does not hold the last reference to shared
    (a clone), resp. of the context made by kdump_new (last reference) *)
Definition kdump_free (k : kctx) : M unit :=
  lock Wr LK_shared ;;;
  free_all (k_slots k) ;;;
  addrxlat_ctx_decref (k_ctx k) ;;;
  match k_xlat k with Some xl => xlat_free xl | None => unpin O_xlat end ;;;
  match k_dict k, k_shared k with
  | Some dd, None => attr_dict_free_clone dd
  | Some dd, Some _ => attr_dict_free_new dd
  | None, _ => unpin O_dict
  end ;;;
  match k_shared k with
  | Some sh => (* last reference: shared_free unlocks, then frees *) unlock LK_shared ;;; free sh
  | None => unpin O_shared ;;; unlock LK_shared
  end ;;;
  free (c_ctx (k_ctx k)).

(** ** file cache, page cache (fcache.c, cache.c) *)
Record cacher := { ca_id : nat; ca_data : option nat }.

(* cache_alloc(n, size): the cache with its entries; the data area iff size != 0 *)
Definition cache_alloc (has_data : bool) : M (option cacher) :=
  c <- alloc S_cache_alloc ;;
  match c with
  | None => ret None
  | Some id =>
      if has_data then
        d <- alloc S_cache_alloc ;;
        match d with
        | None => free id ;;; ret None
        | Some dat => ret (Some {| ca_id := id; ca_data := Some dat |})
        end
      else ret (Some {| ca_id := id; ca_data := None |})
  end.

Definition cache_free (c : cacher) : M unit :=
  match ca_data c with Some d => free d | None => ret tt end ;;; free (ca_id c).

Record fcacher := { fc_id : nat; fc_cache : cacher; fc_fbcache : cacher }.

(* fcache_new: the mmap cache has no data area, the fallback cache has *)
Definition fcache_new : M (option fcacher) :=
  f <- alloc S_fcache_new ;;
  match f with
  | None => ret None
  | Some fc =>
      c1 <- cache_alloc false ;;
      match c1 with
      | None => (* err: *) free fc ;;; ret None
      | Some ca =>
          c2 <- cache_alloc true ;;
          match c2 with
          | None => (* err_cache: *) cache_free ca ;;; free fc ;;; ret None
          | Some fb => ret (Some {| fc_id := fc; fc_cache := ca; fc_fbcache := fb |})
          end
      end
  end.

Definition fcache_free (f : fcacher) : M unit :=
  cache_free (fc_fbcache f) ;;; cache_free (fc_cache f) ;;; free (fc_id f).

(** ** PFN regions (pfn.c add_pfn_region) *)
Record pfnmap := { pm_regions : option nat; pm_n : nat; pm_list : list nat }.

(* if (nregions % INC == 0) { new = realloc(regions, ..); if (!new) return NULL; regions = new; }
   regions[nregions++] = *rgn; *)
Definition add_pfn_region (inc : nat) (m : pfnmap) (rgn : nat) : M (option pfnmap) :=
  if Nat.eqb (Nat.modulo (pm_n m) inc) 0 then
    r <- realloc S_add_pfn_region (pm_regions m) ;;
    match r with
    | None => ret None
    | Some id => ret (Some {| pm_regions := Some id; pm_n := S (pm_n m); pm_list := pm_list m ++ [rgn] |})
    end
  else ret (Some {| pm_regions := pm_regions m; pm_n := S (pm_n m); pm_list := pm_list m ++ [rgn] |}).

(* a history of additions; a failed addition leaves the map as it was and the
   caller goes on (the tie retries, too) *)
Fixpoint add_regions (inc : nat) (m : pfnmap) (rgns : list nat) : M pfnmap :=
  match rgns with
  | [] => ret m
  | r :: rest =>
      x <- add_pfn_region inc m r ;;
      match x with
      | Some m' => add_regions inc m' rest
      | None => add_regions inc m rest
      end
  end.

Definition free_regions (m : pfnmap) : M unit :=
  match pm_regions m with Some id => free id | None => ret tt end.

(** ** what the correspondence check runs *)
Inductive scenario :=
| ScNew (nr : nat) (opts : list bool)
| ScClone (pinned : bool) (slots : nat) (dictclone xlatclone : bool) (specs : list (nat * atree))
| ScXlat (clone : bool)
| ScDictNew (nr : nat)
| ScDictClone
| ScCreatePath (missing : nat)
| ScClonePath (above : nat) (t : atree)
| ScFcacheNew
| ScCacheAlloc (has_data : bool)
| ScPfnRegions (inc cnt : nat).

(* the target call alone (what the C driver brackets with its failure window) *)
Definition is_some {A} (m : M (option A)) : M bool :=
  r <- m ;; ret (match r with Some _ => true | None => false end).

Definition run_target (sc : scenario) (sch : list bool) : bool * list event * bool :=
  match sc with
  | ScNew nr opts => run (is_some (kdump_new nr opts)) sch
  | ScClone pinned slots dc xc specs =>
      run (is_some ((if pinned then kdump_clone_pinned else kdump_clone) slots dc xc specs)) sch
  | ScXlat _ => run (is_some xlat_new) sch
  | ScDictNew nr => run (is_some (attr_dict_new nr)) sch
  | ScDictClone => run (is_some attr_dict_clone) sch
  | ScCreatePath missing => run (r <- create_attr_path missing [] ;; ret (fst r)) sch
  | ScClonePath above t =>
      run (r <- clone_attr_path above true t ;;
           ret (match fst r with Some _ => true | None => false end)) sch
  | ScFcacheNew => run (is_some fcache_new) sch
  | ScCacheAlloc d => run (is_some (cache_alloc d)) sch
  | ScPfnRegions inc cnt =>
      run (m <- add_regions inc {| pm_regions := None; pm_n := 0; pm_list := [] |} (seq 0 cnt) ;;
           ret (Nat.eqb (pm_n m) cnt)) sch
  end.

(* run the target under the schedule, then free what a successful call returned
   (the C driver does the same); result: did the call succeed, its trace *)
Definition some_then {A} (m : M (option A)) (cleanup : A -> M unit) : M bool :=
  r <- m ;; match r with Some a => cleanup a ;;; ret true | None => ret false end.

Definition run_scenario (sc : scenario) (sch : list bool) : bool * list event * bool :=
  match sc with
  | ScNew nr opts => run (some_then (kdump_new nr opts) kdump_free) sch
  | ScClone pinned slots dc xc specs =>
      run (some_then ((if pinned then kdump_clone_pinned else kdump_clone) slots dc xc specs) kdump_free) sch
  | ScXlat _ => run (some_then xlat_new xlat_free) sch
  | ScDictNew nr => run (some_then (attr_dict_new nr) attr_dict_free_new) sch
  | ScDictClone => run (some_then attr_dict_clone attr_dict_free_clone) sch
  | ScCreatePath missing =>
      run (r <- create_attr_path missing [] ;; free_all (snd r) ;;; ret (fst r)) sch
  | ScClonePath above t =>
      run (r <- clone_attr_path above true t ;;
           match fst r with Some new => free_all new ;;; ret true | None => free_all (snd r) ;;; ret false end) sch
  | ScFcacheNew => run (some_then fcache_new fcache_free) sch
  | ScCacheAlloc d => run (some_then (cache_alloc d) cache_free) sch
  | ScPfnRegions inc cnt =>
      run (m <- add_regions inc {| pm_regions := None; pm_n := 0; pm_list := [] |} (seq 0 cnt) ;;
           free_regions m ;;; ret (Nat.eqb (pm_n m) cnt)) sch
  end.
