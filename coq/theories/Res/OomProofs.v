(** Proofs for the event-program models of OomModel.v *)
From Coq Require Import List Bool Arith PeanoNat Lia.
From KdV Require Import Res.Tokens Res.TokensProofs Res.OomModel Res.OomSpec.
Import ListNotations.

(** from the wp statements to complete runs *)
Lemma unwinds_run_ok A (m : M (option A)) own pinsof : unwinds m own pinsof -> run_ok m.
Proof.
  intros H sch. unfold run. specialize (H _ _ _ _ _ (St_init sch)). unfold wp in H.
  destruct (m (init sch 0 [])) as [r s']; simpl in *.
  destruct r as [a|].
  - repeat split; try discriminate.
    + intros E. rewrite (st_failed _ _ _ _ _ H) in E. discriminate.
    + eexists. exact (st_sum _ _ _ _ _ H).
  - destruct H as [F' H]. repeat split; intros.
    + eapply St_balanced; eauto.
    + eapply St_no_lock; eauto.
    + eapply St_no_pin; eauto.
    + eexists. exact (st_sum _ _ _ _ _ H).
Qed.

Lemma unwinds_strict_run_ok A (m : M (option A)) own pinsof :
  unwinds_strict m own pinsof -> run_ok_strict m.
Proof.
  intros H sch. unfold run. specialize (H _ _ _ _ _ (St_init sch)). unfold wp in H.
  destruct (m (init sch 0 [])) as [r s']; simpl in *.
  destruct r as [a|].
  - repeat split; try discriminate.
    + intros E. rewrite (st_failed _ _ _ _ _ H) in E. discriminate.
    + eexists. exact (st_sum _ _ _ _ _ H).
  - repeat split; intros.
    + exact (st_failed _ _ _ _ _ H).
    + eapply St_balanced; eauto.
    + eapply St_no_lock; eauto.
    + eapply St_no_pin; eauto.
    + eexists. exact (st_sum _ _ _ _ _ H).
Qed.

Lemma strict_unwinds A (m : M (option A)) own pinsof :
  unwinds_strict m own pinsof -> unwinds m own pinsof.
Proof.
  intros H s L K P F HS. eapply wp_conseq; [exact (H _ _ _ _ _ HS)|].
  intros [a|] s' HQ; [exact HQ|eauto].
Qed.

(** ** init_addrxlat, alloc_ctx *)
Definition own_ctx (c : ctxr) := [c_cb c; c_ax c; c_ctx c].

Lemma init_addrxlat_ok s L K P F (Q : option (nat * nat) -> st -> Prop) :
  St s L K P F ->
  (forall ax cb s', St s' (cb :: ax :: L) K P F -> Q (Some (ax, cb)) s') ->
  (forall s', St s' L K P true -> Q None s') ->
  wp init_addrxlat Q s.
Proof.
  intros HS Hok Hf. unfold init_addrxlat. wp_go; auto.
Qed.

Lemma alloc_ctx_strict : unwinds_strict alloc_ctx own_ctx (fun _ => []).
Proof.
  intros s L K P F HS. unfold alloc_ctx. wp_go.
  - eapply init_addrxlat_ok; [eassumption| |].
    + intros ax cb s' HS'. wp_go. exact HS'.
    + intros s' HS'. wp_go. assumption.
  - assumption.
Qed.

Lemma use_strict A (m : M (option A)) own pinsof :
  unwinds_strict m own pinsof ->
  forall s L K P F (Q : option A -> st -> Prop), St s L K P F ->
    (forall a s', St s' (own a ++ L) K (pinsof a ++ P) F -> Q (Some a) s') ->
    (forall s', St s' L K P true -> Q None s') ->
    wp m Q s.
Proof.
  intros H s L K P F Q HS Hok Hf. eapply wp_conseq; [exact (H _ _ _ _ _ HS)|].
  intros [a|] s' HQ; auto.
Qed.

Lemma use_unwinds A (m : M (option A)) own pinsof :
  unwinds m own pinsof ->
  forall s L K P F (Q : option A -> st -> Prop), St s L K P F ->
    (forall a s', St s' (own a ++ L) K (pinsof a ++ P) F -> Q (Some a) s') ->
    (forall s' F', St s' L K P F' -> Q None s') ->
    wp m Q s.
Proof.
  intros H s L K P F Q HS Hok Hf. eapply wp_conseq; [exact (H _ _ _ _ _ HS)|].
  intros [a|] s' HQ; auto. destruct HQ as [F' HQ]. eauto.
Qed.

Lemma use_releases A (d : A -> M unit) own pinsof :
  releases d own pinsof ->
  forall a s L K P F (Q : unit -> st -> Prop), St s (own a ++ L) K (pinsof a ++ P) F ->
    (forall s', St s' L K P F -> Q tt s') -> wp (d a) Q s.
Proof.
  intros H a s L K P F Q HS HQ. eapply wp_conseq; [exact (H _ _ _ _ _ _ HS)|].
  intros [] s' HQ'. auto.
Qed.

(** ** xlat_new / xlat_clone *)
Definition own_xlat (x : xlatr) := [x_sys x; x_xlat x].

Lemma xlat_new_strict : unwinds_strict xlat_new own_xlat (fun _ => []).
Proof. intros s L K P F HS. unfold xlat_new. wp_go; assumption. Qed.

Lemma xlat_clone_strict : unwinds_strict xlat_clone own_xlat (fun _ => []).
Proof. exact xlat_new_strict. Qed.

Lemma xlat_free_releases : releases xlat_free own_xlat (fun _ => []).
Proof. intros x s L K P F HS. unfold xlat_free, own_xlat in *. simpl in HS. wp_go. assumption. Qed.

(** ** attr_dict_new *)
Definition own_dict (d : dictr) := d_toks d ++ [d_id d].

Lemma new_global_attrs_ok n : forall did acc s L K P F (Q : option (list nat) -> st -> Prop),
  St s (acc ++ did :: L) K P F ->
  (forall toks s', St s' (toks ++ did :: L) K P F -> Q (Some toks) s') ->
  (forall s', St s' L K P true -> Q None s') ->
  wp (new_global_attrs n did acc) Q s.
Proof.
  induction n as [| n IH]; intros did acc s L K P F Q HS Hok Hf; simpl.
  - apply wp_ret. auto.
  - wp_go.
    + eapply (IH did (id :: acc)); [eassumption | auto | auto].
    + auto.
Qed.

Lemma attr_dict_new_strict nr : unwinds_strict (attr_dict_new nr) own_dict (fun _ => []).
Proof.
  intros s L K P F HS. unfold attr_dict_new. wp_go.
  - eapply (new_global_attrs_ok nr id []); [simpl; eassumption| |].
    + intros toks s' HS'. wp_go. unfold own_dict; simpl. rewrite <- app_assoc. exact HS'.
    + intros s' HS'. wp_go. assumption.
  - assumption.
Qed.

Lemma attr_dict_free_new_releases : releases attr_dict_free_new own_dict (fun _ => []).
Proof.
  intros d s L K P F HS. unfold attr_dict_free_new, own_dict in *. rewrite <- app_assoc in HS. simpl in HS.
  wp_go. assumption.
Qed.

(** ** attr_dict_clone *)
Lemma attr_dict_clone_strict :
  unwinds_strict attr_dict_clone own_dict (fun _ => [O_shared; O_dict]).
Proof.
  intros s L K P F HS. unfold attr_dict_clone. wp_go; try assumption.
Qed.

Lemma attr_dict_free_clone_releases :
  releases attr_dict_free_clone own_dict (fun _ => [O_shared; O_dict]).
Proof.
  intros d s L K P F HS. unfold attr_dict_free_clone, own_dict in *. rewrite <- app_assoc in HS. simpl in HS.
  wp_go. assumption.
Qed.

(** ** create_addrxlat_dir / create_addrxlat_attrs: whatever was created is in
    the returned list (owned by the dictionary); failure only by a failed allocation *)
Lemma create_addrxlat_dir_ok opts : forall acc s L K P F (Q : bool * list nat -> st -> Prop),
  St s L K P F ->
  (forall new s', St s' (new ++ L) K P F -> Q (true, new ++ acc) s') ->
  (forall new s', St s' (new ++ L) K P true -> Q (false, new ++ acc) s') ->
  wp (create_addrxlat_dir opts acc) Q s.
Proof.
  induction opts as [| isdir opts IH]; intros acc s L K P F Q HS Hok Hf; simpl.
  - apply wp_ret. apply (Hok []). exact HS.
  - wp_go.
    + destruct isdir.
      * wp_go.
        -- eapply IH; [eassumption | |].
           ++ intros new s' HS'. specialize (Hok (new ++ [id1; id0; id]) s').
              rewrite <- !app_assoc in Hok. simpl in Hok. apply Hok. exact HS'.
           ++ intros new s' HS'. specialize (Hf (new ++ [id1; id0; id]) s').
              rewrite <- !app_assoc in Hf. simpl in Hf. apply Hf. exact HS'.
        -- apply (Hf [id0; id]). assumption.
        -- apply (Hf [id]). assumption.
      * eapply IH; [eassumption | |].
        -- intros new s' HS'. specialize (Hok (new ++ [id]) s').
           rewrite <- !app_assoc in Hok. simpl in Hok. apply Hok. exact HS'.
        -- intros new s' HS'. specialize (Hf (new ++ [id]) s').
           rewrite <- !app_assoc in Hf. simpl in Hf. apply Hf. exact HS'.
    + apply (Hf []). assumption.
Qed.

Lemma create_addrxlat_attrs_ok opts d s L K P F (Q : bool * dictr -> st -> Prop) :
  St s L K P F ->
  (forall new s', St s' (new ++ L) K P F ->
                  Q (true, {| d_id := d_id d; d_toks := new ++ d_toks d |}) s') ->
  (forall new s', St s' (new ++ L) K P true ->
                  Q (false, {| d_id := d_id d; d_toks := new ++ d_toks d |}) s') ->
  wp (create_addrxlat_attrs opts d) Q s.
Proof.
  intros HS Hok Hf. unfold create_addrxlat_attrs. apply wp_bind.
  eapply create_addrxlat_dir_ok; [eassumption | |].
  - intros new s' HS'. cbn [fst snd]. apply wp_bind.
    eapply create_addrxlat_dir_ok; [eassumption | |].
    + intros new2 s2 HS2. apply wp_ret. cbn [fst snd]. rewrite app_assoc. apply Hok.
      rewrite <- app_assoc. exact HS2.
    + intros new2 s2 HS2. apply wp_ret. cbn [fst snd]. rewrite app_assoc. apply Hf.
      rewrite <- app_assoc. exact HS2.
  - intros new s' HS'. cbn [fst snd]. apply wp_ret. apply Hf. exact HS'.
Qed.

(** ** create_attr_path *)
Lemma create_attr_path_ok missing : forall acc s L K P F (Q : bool * list nat -> st -> Prop),
  St s L K P F ->
  (forall new s', St s' (new ++ L) K P F -> Q (true, new ++ acc) s') ->
  (forall new s', St s' (new ++ L) K P true -> Q (false, new ++ acc) s') ->
  wp (create_attr_path missing acc) Q s.
Proof.
  induction missing as [| n IH]; intros acc s L K P F Q HS Hok Hf; simpl.
  - apply wp_ret. apply (Hok []). exact HS.
  - wp_go.
    + eapply IH; [eassumption | |].
      * intros new s' HS'. specialize (Hok (new ++ [id0; id]) s').
        rewrite <- !app_assoc in Hok. simpl in Hok. apply Hok. exact HS'.
      * intros new s' HS'. specialize (Hf (new ++ [id0; id]) s').
        rewrite <- !app_assoc in Hf. simpl in Hf. apply Hf. exact HS'.
    + apply (Hf []). assumption.
    + apply (Hf []). assumption.
Qed.

(** ** clone_attr, clone_node, clone_kids, clone_chain *)
Lemma clone_attr_ok k isset acc s L K P F (Q : bool * list nat -> st -> Prop) :
  St s L K P F ->
  (forall new s', St s' (new ++ L) K P F -> Q (true, new ++ acc) s') ->
  (forall s' F', St s' L K P F' -> Q (false, acc) s') ->
  wp (clone_attr k isset acc) Q s.
Proof.
  intros HS Hok Hf. unfold clone_attr. wp_go.
  - destruct isset.
    + destruct k; wp_go.
      * apply (Hok [id]). assumption.
      * apply (Hok [id0; id]). assumption.
      * eapply Hf. eassumption.
      * apply (Hok [id]). assumption.
      * eapply Hf. eassumption.
    + wp_go. apply (Hok [id]). assumption.
  - eapply Hf. eassumption.
Qed.

Section atree_ind.
  Variable Pt : atree -> Prop.
  Hypothesis Hnode : forall k b kids, Forall Pt kids -> Pt (ANode k b kids).
  Fixpoint atree_ind' (t : atree) : Pt t :=
    match t with
    | ANode k b kids =>
        Hnode k b kids
          ((fix go (l : list atree) : Forall Pt l :=
              match l with
              | [] => Forall_nil Pt
              | c :: l' => Forall_cons c (atree_ind' c) (go l')
              end) kids)
    end.
End atree_ind.

Lemma clone_node_unfold k isset kids acc s :
  clone_node (ANode k isset kids) acc s =
  (r <- clone_attr k isset acc ;;
   if fst r then match k with KDir => clone_kids kids (snd r) | _ => ret r end else ret r) s.
Proof.
  cbn [clone_node]. unfold bind. destruct (clone_attr k isset acc s) as [r s1].
  destruct (fst r); [|reflexivity]. destruct k; reflexivity.
Qed.

Definition clone_post (acc : list nat) (L K P : list nat) (F : bool)
           (Q : bool * list nat -> st -> Prop) : Prop :=
  (forall new s', St s' (new ++ L) K P F -> Q (true, new ++ acc) s') /\
  (forall new s' F', St s' (new ++ L) K P F' -> Q (false, new ++ acc) s').

Lemma clone_kids_ok_gen kids :
  Forall (fun t => forall acc s L K P F Q, St s L K P F -> clone_post acc L K P F Q ->
                                           wp (clone_node t acc) Q s) kids ->
  forall acc s L K P F Q, St s L K P F -> clone_post acc L K P F Q -> wp (clone_kids kids acc) Q s.
Proof.
  induction 1 as [| c kids Hc _ IH]; intros acc s L K P F Q HS [Hok Hf]; cbn [clone_kids].
  - apply wp_ret. apply (Hok []). exact HS.
  - apply wp_bind. eapply Hc; [eassumption|]. split.
    + intros new s' HS'. cbn [fst snd]. eapply IH; [eassumption|]. split.
      * intros new2 s2 HS2. rewrite app_assoc. apply Hok. rewrite <- app_assoc. exact HS2.
      * intros new2 s2 F2 HS2. rewrite app_assoc. eapply Hf. rewrite <- app_assoc. exact HS2.
    + intros new s' F' HS'. cbn [fst snd]. apply wp_ret. eapply Hf. exact HS'.
Qed.

Lemma clone_node_ok t : forall acc s L K P F Q,
  St s L K P F -> clone_post acc L K P F Q -> wp (clone_node t acc) Q s.
Proof.
  induction t as [k isset kids IHk] using atree_ind'. intros acc s L K P F Q HS [Hok Hf].
  eapply wp_eq; [apply clone_node_unfold|]. apply wp_bind.
  eapply clone_attr_ok; [eassumption | |].
  - intros new s' HS'. cbn [fst snd].
    destruct k; try (apply wp_ret; apply Hok; exact HS').
    eapply clone_kids_ok_gen; [exact IHk | eassumption |]. split.
    + intros new2 s2 HS2. rewrite app_assoc. apply Hok. rewrite <- app_assoc. exact HS2.
    + intros new2 s2 F2 HS2. rewrite app_assoc. eapply Hf. rewrite <- app_assoc. exact HS2.
  - intros s' F' HS'. cbn [fst snd]. apply wp_ret. apply (Hf [] s' F'). exact HS'.
Qed.

Lemma clone_kids_ok kids acc s L K P F Q :
  St s L K P F -> clone_post acc L K P F Q -> wp (clone_kids kids acc) Q s.
Proof.
  apply clone_kids_ok_gen. apply Forall_forall. intros t _. apply clone_node_ok.
Qed.

Lemma clone_chain_ok n : forall acc s L K P F Q,
  St s L K P F -> clone_post acc L K P F Q -> wp (clone_chain n acc) Q s.
Proof.
  induction n as [| n IH]; intros acc s L K P F Q HS [Hok Hf]; cbn [clone_chain].
  - apply wp_ret. apply (Hok []). exact HS.
  - apply wp_bind. eapply clone_attr_ok; [eassumption | |].
    + intros new s' HS'. cbn [fst snd]. eapply IH; [eassumption|]. split.
      * intros new2 s2 HS2. rewrite app_assoc. apply Hok. rewrite <- app_assoc. exact HS2.
      * intros new2 s2 F2 HS2. rewrite app_assoc. eapply Hf. rewrite <- app_assoc. exact HS2.
    + intros s' F' HS'. cbn [fst snd]. apply wp_ret. apply (Hf [] s' F'). exact HS'.
Qed.

Ltac app_exact H :=
  first [ exact H
        | repeat (first [ rewrite <- app_assoc in H | progress cbn [app] in H ]);
          repeat (first [ rewrite <- app_assoc | progress cbn [app] ]);
          exact H ].

(** ** clone_attr_path: on failure everything the call created is freed again
    (when something above or at the attribute was created); otherwise the
    partial subtree stays, owned by the dictionary *)
Lemma clone_attr_path_ok above self t s L K P F (Q : option (list nat) * list nat -> st -> Prop) :
  St s L K P F ->
  (forall new s', St s' (new ++ L) K P F -> Q (Some new, []) s') ->
  (forall s' F', St s' L K P F' -> self = true -> Q (None, []) s') ->
  (forall kept s' F', St s' (kept ++ L) K P F' -> self = false -> Q (None, kept) s') ->
  wp (clone_attr_path above self t) Q s.
Proof.
  intros HS Hok Hroll Hkept. destruct t as [k isset kids]. unfold clone_attr_path.
  destruct self.
  - apply wp_bind. eapply clone_chain_ok; [eassumption|]. split.
    + intros new0 s0 HS0. cbn [fst snd]. apply wp_bind.
      eapply clone_attr_ok; [eassumption | |].
      * intros new1 s1 HS1. cbn [fst snd]. apply wp_bind.
        assert (Hfin : forall new2 s2 (b : bool) F2, St s2 (new2 ++ L) K P F2 -> (b = true -> F2 = F) ->
                 wp (if fst (b, new2) then ret (Some (snd (b, new2)), [])
                     else free_all (snd (b, new2));;; ret (None, [])) Q s2).
        { intros new2 s2 b F2 HS2 Hb. destruct b; cbn [fst snd].
          - apply wp_ret. apply Hok. rewrite (Hb eq_refl) in HS2. exact HS2.
          - apply wp_bind. eapply wp_free_all; [eassumption | apply RemoveAll_prefix |].
            intros s3 HS3. apply wp_ret. eapply Hroll; eauto. }
        rewrite app_nil_r in *.
        destruct k.
        -- eapply clone_kids_ok; [eassumption|]. split.
           ++ intros new2 s2 HS2.
              apply (Hfin (new2 ++ new1 ++ new0) s2 true F); [app_exact HS2 | auto].
           ++ intros new2 s2 F2 HS2.
              apply (Hfin (new2 ++ new1 ++ new0) s2 false F2); [app_exact HS2 | discriminate].
        -- apply wp_ret. apply (Hfin (new1 ++ new0) s1 true F); [app_exact HS1 | auto].
        -- apply wp_ret. apply (Hfin (new1 ++ new0) s1 true F); [app_exact HS1 | auto].
        -- apply wp_ret. apply (Hfin (new1 ++ new0) s1 true F); [app_exact HS1 | auto].
      * intros s1 F1 HS1. cbn [fst snd]. apply wp_bind. rewrite app_nil_r in *.
        eapply wp_free_all; [eassumption | apply RemoveAll_prefix |].
        intros s3 HS3. apply wp_ret. eapply Hroll; eauto.
    + intros new0 s0 F0 HS0. cbn [fst snd]. apply wp_bind. rewrite app_nil_r in *.
      eapply wp_free_all; [eassumption | apply RemoveAll_prefix |].
      intros s3 HS3. apply wp_ret. eapply Hroll; eauto.
  - apply wp_bind. apply wp_ret. cbn [fst snd]. apply wp_bind. apply wp_ret. cbn [fst snd].
    apply wp_bind. destruct k.
    + eapply clone_kids_ok; [eassumption|]. split.
      * intros new2 s2 HS2. rewrite app_nil_r. cbn [fst snd]. apply wp_ret. apply Hok. exact HS2.
      * intros new2 s2 F2 HS2. rewrite app_nil_r. cbn [fst snd]. apply wp_ret. eapply Hkept; eauto.
    + apply wp_ret. cbn [fst snd]. apply wp_ret. apply (Hok []). exact HS.
    + apply wp_ret. cbn [fst snd]. apply wp_ret. apply (Hok []). exact HS.
    + apply wp_ret. cbn [fst snd]. apply wp_ret. apply (Hok []). exact HS.
Qed.

(** ** clone_xlat_attrs (every attribute is missing in a fresh clone) *)
Lemma clone_xlat_attrs_ok specs : forall acc s L K P F (Q : bool * list nat -> st -> Prop),
  St s L K P F -> clone_post acc L K P F Q -> wp (clone_xlat_attrs specs acc) Q s.
Proof.
  induction specs as [| [above t] specs IH]; intros acc s L K P F Q HS [Hok Hf]; cbn [clone_xlat_attrs].
  - apply wp_ret. apply (Hok []). exact HS.
  - apply wp_bind. eapply clone_attr_path_ok; [eassumption | | |].
    + intros new s' HS'. cbn [fst snd]. eapply IH; [eassumption|]. split.
      * intros new2 s2 HS2. rewrite app_assoc. apply Hok. app_exact HS2.
      * intros new2 s2 F2 HS2. rewrite app_assoc. eapply Hf. app_exact HS2.
    + intros s' F' HS' _. cbn [fst snd]. apply wp_ret. apply (Hf [] s' F'). exact HS'.
    + intros kept s' F' _ Hc. discriminate.
Qed.

(** ** per-context slots *)
Lemma clone_slots_ok n : forall acc s L K P F (Q : option (list nat) -> st -> Prop),
  St s (acc ++ L) K P F ->
  (forall data s', St s' (data ++ L) K P F -> Q (Some data) s') ->
  (forall s', St s' L K P true -> Q None s') ->
  wp (clone_slots n acc) Q s.
Proof.
  induction n as [| n IH]; intros acc s L K P F Q HS Hok Hf; simpl.
  - apply wp_ret. auto.
  - wp_go.
    + eapply (IH (id :: acc)); [eassumption | auto | auto].
    + auto.
Qed.

(** ** kdump_new *)
Inductive new_shape : kctx -> list nat -> list nat -> Prop :=
| new_shape_intro c sh dd xl :
    new_shape {| k_ctx := c; k_shared := Some sh; k_dict := Some dd; k_xlat := Some xl; k_slots := [] |}
              (own_xlat xl ++ d_toks dd ++ [d_id dd; sh; c_cb c; c_ax c; c_ctx c]) [].

Lemma shared_decref_last_ok sh s L K P F (Q : unit -> st -> Prop) :
  St s (sh :: L) K P F -> (forall s', St s' L K P F -> Q tt s') -> wp (shared_decref_last sh) Q s.
Proof. intros HS HQ. unfold shared_decref_last, LK_shared. wp_go. auto. Qed.

Lemma addrxlat_ctx_decref_ok c s L K P F (Q : unit -> st -> Prop) :
  St s (c_cb c :: c_ax c :: L) K P F -> (forall s', St s' L K P F -> Q tt s') ->
  wp (addrxlat_ctx_decref c) Q s.
Proof. intros HS HQ. unfold addrxlat_ctx_decref. wp_go. auto. Qed.

Lemma kdump_new_strict nr opts : unwinds_strict_rel (kdump_new nr opts) new_shape.
Proof.
  intros s L K P F HS. unfold kdump_new. apply wp_bind.
  eapply (use_strict _ _ _ _ alloc_ctx_strict); [eassumption | |].
  2: { intros s' HS'. apply wp_ret. exact HS'. }
  intros ctx s0 HS0. unfold own_ctx in HS0. simpl in HS0. wp_go.
  2: { eapply addrxlat_ctx_decref_ok; [eassumption|]. intros s2 HS2. wp_go. assumption. }
  eapply (use_strict _ _ _ _ (attr_dict_new_strict nr)); [eassumption | |].
  2: { intros s2 HS2. apply wp_bind. eapply shared_decref_last_ok; [eassumption|].
       intros s3 HS3. apply wp_bind. eapply addrxlat_ctx_decref_ok; [eassumption|].
       intros s4 HS4. wp_go. assumption. }
  intros dict s2 HS2. unfold own_dict in HS2. apply wp_bind.
  assert (Herr : forall new s' , St s' (new ++ (d_toks dict ++ [d_id dict]) ++ id :: c_cb ctx :: c_ax ctx :: c_ctx ctx :: L) K P true ->
            wp (attr_dict_free_new {| d_id := d_id dict; d_toks := new ++ d_toks dict |};;;
                shared_decref_last id;;; addrxlat_ctx_decref ctx;;; free (c_ctx ctx);;; ret None)
               (fun (r : option kctx) (s' : st) =>
                  match r with
                  | Some a => exists Ln Pn, new_shape a Ln Pn /\ St s' (Ln ++ L) K (Pn ++ P) F
                  | None => St s' L K P true
                  end) s').
  { intros new s' HS'. apply wp_bind.
    eapply (use_releases _ _ _ _ attr_dict_free_new_releases
              {| d_id := d_id dict; d_toks := new ++ d_toks dict |}).
    - unfold own_dict. cbn [d_id d_toks]. simpl. app_exact HS'.
    - intros s3 HS3. apply wp_bind. eapply shared_decref_last_ok; [eassumption|].
      intros s4 HS4. apply wp_bind. eapply addrxlat_ctx_decref_ok; [eassumption|].
      intros s5 HS5. wp_go. assumption. }
  eapply create_addrxlat_attrs_ok; [eassumption | |].
  - intros new s3 HS3. cbn [fst snd]. apply wp_bind.
    eapply (use_strict _ _ _ _ xlat_new_strict); [eassumption | |].
    + intros xl s4 HS4. apply wp_ret. eexists _, []. split; [apply new_shape_intro|].
      cbn [d_id d_toks]. unfold own_xlat in *. app_exact HS4.
    + intros s4 HS4. apply Herr. exact HS4.
  - intros new s3 HS3. cbn [fst snd]. apply Herr. exact HS3.
Qed.

Lemma unwinds_rel_run_ok A (m : M (option A)) shape : unwinds_rel m shape -> run_ok m.
Proof.
  intros H sch. unfold run. specialize (H _ _ _ _ _ (St_init sch)). unfold wp in H.
  destruct (m (init sch 0 [])) as [r s']; simpl in *.
  destruct r as [a|].
  - destruct H as (Ln & Pn & _ & H). repeat split; try discriminate.
    + intros E. rewrite (st_failed _ _ _ _ _ H) in E. discriminate.
    + eexists. exact (st_sum _ _ _ _ _ H).
  - destruct H as [F' H]. repeat split; intros.
    + eapply St_balanced; eauto.
    + eapply St_no_lock; eauto.
    + eapply St_no_pin; eauto.
    + eexists. exact (st_sum _ _ _ _ _ H).
Qed.

Lemma roundtrip_rel A (m : M (option A)) d shape :
  unwinds_rel m shape -> releases_rel d shape -> roundtrip_clean m d.
Proof.
  intros Hm Hd sch. unfold run.
  assert (W : wp (r <- m ;; match r with Some a => d a ;;; ret true | None => ret false end)
                 (fun _ s' => exists F', St s' [] [] [] F') (init sch 0 [])).
  { apply wp_bind. eapply wp_conseq; [exact (Hm _ _ _ _ _ (St_init sch))|].
    intros [a|] s' HQ.
    - destruct HQ as (Ln & Pn & Hsh & HS). apply wp_bind.
      eapply wp_conseq; [exact (Hd _ _ _ _ _ _ _ _ Hsh HS)|].
      intros [] s2 HS2. apply wp_ret. eauto.
    - destruct HQ as [F' HS]. apply wp_ret. eauto. }
  unfold wp in W.
  destruct ((r <- m ;; match r with Some a => d a ;;; ret true | None => ret false end) (init sch 0 [])) as [b s'].
  simpl in *. destruct W as [F' W]. eapply St_clean; eauto.
Qed.

Lemma strict_rel A (m : M (option A)) own pinsof :
  unwinds_strict m own pinsof -> unwinds_rel m (fun a Ln Pn => Ln = own a /\ Pn = pinsof a).
Proof.
  intros H s L K P F HS. eapply wp_conseq; [exact (H _ _ _ _ _ HS)|].
  intros [a|] s' HQ; [|eauto]. exists (own a), (pinsof a). auto.
Qed.

Lemma releases_rel_of A (d : A -> M unit) own pinsof :
  releases d own pinsof -> releases_rel d (fun a Ln Pn => Ln = own a /\ Pn = pinsof a).
Proof. intros H a Ln Pn s L K P F [-> ->] HS. exact (H _ _ _ _ _ _ HS). Qed.

(** kdump_free gives back what kdump_new made *)
Lemma kdump_free_new_releases : releases_rel kdump_free new_shape.
Proof.
  intros k Ln Pn s L K P F Hsh HS. destruct Hsh.
  unfold kdump_free, own_xlat, LK_shared, addrxlat_ctx_decref, xlat_free, attr_dict_free_new in *.
  cbn [k_ctx k_shared k_dict k_xlat k_slots] in *.
  repeat (first [ rewrite <- app_assoc in HS | progress cbn [app] in HS ]).
  wp_go. assumption.
Qed.

Lemma strict_rel_rel A (m : M (option A)) shape : unwinds_strict_rel m shape -> unwinds_rel m shape.
Proof.
  intros H s L K P F HS. eapply wp_conseq; [exact (H _ _ _ _ _ HS)|].
  intros [a|] s' HQ; [exact HQ|eauto].
Qed.

Lemma unwinds_strict_rel_run_ok A (m : M (option A)) shape :
  unwinds_strict_rel m shape -> run_ok_strict m.
Proof.
  intros H sch. unfold run. specialize (H _ _ _ _ _ (St_init sch)). unfold wp in H.
  destruct (m (init sch 0 [])) as [r s']; simpl in *.
  destruct r as [a|].
  - destruct H as (Ln & Pn & _ & H). repeat split; try discriminate.
    + intros E. rewrite (st_failed _ _ _ _ _ H) in E. discriminate.
    + eexists. exact (st_sum _ _ _ _ _ H).
  - repeat split; intros.
    + exact (st_failed _ _ _ _ _ H).
    + eapply St_balanced; eauto.
    + eapply St_no_lock; eauto.
    + eapply St_no_pin; eauto.
    + eexists. exact (st_sum _ _ _ _ _ H).
Qed.

(** ** kdump_clone (repaired): every failure point restores the state exactly *)
Definition ctx3 (c : ctxr) := [c_cb c; c_ax c; c_ctx c].

Inductive clone_shape : kctx -> list nat -> list nat -> Prop :=
| shape_shared c data :
    clone_shape {| k_ctx := c; k_shared := None; k_dict := None; k_xlat := None; k_slots := data |}
                (data ++ ctx3 c) [O_xlat; O_dict; O_shared]
| shape_dict c data did toks :
    clone_shape {| k_ctx := c; k_shared := None; k_dict := Some {| d_id := did; d_toks := toks |};
                   k_xlat := None; k_slots := data |}
                (toks ++ did :: data ++ ctx3 c) [O_xlat; O_shared; O_dict; O_shared]
| shape_xlat c data did toks new xl :
    clone_shape {| k_ctx := c; k_shared := None; k_dict := Some {| d_id := did; d_toks := new ++ toks |};
                   k_xlat := Some xl; k_slots := data |}
                (new ++ x_sys xl :: x_xlat xl :: toks ++ did :: data ++ ctx3 c) [O_shared; O_dict; O_shared]
| shape_xlat_nodict c data xl :
    clone_shape {| k_ctx := c; k_shared := None; k_dict := None; k_xlat := Some xl; k_slots := data |}
                (x_sys xl :: x_xlat xl :: data ++ ctx3 c) [O_dict; O_shared].

Lemma kdump_clone_unwinds slots dc xc specs :
  unwinds_rel (kdump_clone slots dc xc specs) clone_shape.
Proof.
  intros s L K P F HS. unfold kdump_clone, kdump_clone_gen, addrxlat_ctx_decref. apply wp_bind.
  eapply (use_strict _ _ _ _ alloc_ctx_strict); [eassumption | |].
  2: { intros sa HSa. apply wp_ret. eauto. }
  intros ctx sa HSa. unfold own_ctx in HSa. simpl in HSa. unfold LK_shared.
  clear HS. rename HSa into HS.
  wp_go. eapply (clone_slots_ok slots []); [simpl; eassumption | |].
  2: { intros sb HSb. cbn beta iota. clear HS. rename HSb into HS.
       wp_go. eauto. }
  intros data sb HSb. cbn beta iota. unfold O_shared, O_dict, O_xlat. clear HS. rename HSb into HS.
  wp_go.
  (* the common error exit *)
  assert (Herr : forall s' F', St s' (data ++ c_cb ctx :: c_ax ctx :: c_ctx ctx :: L) (0 :: K) (0 :: P) F' ->
     wp (free_all data;;; unpin 0;;; unlock 0;;; (free (c_cb ctx);;; free (c_ax ctx));;; free (c_ctx ctx);;; ret None)
        (fun (r : option kctx) (s' : st) =>
           match r with
           | Some a => exists Ln Pn, clone_shape a Ln Pn /\ St s' (Ln ++ L) K (Pn ++ P) F
           | None => exists F', St s' L K P F'
           end) s').
  { intros s' F' HS'. clear HS. rename HS' into HS. wp_go. eauto. }
  destruct dc.
  - (* own dictionary *)
    apply wp_bind. eapply (use_strict _ _ _ _ attr_dict_clone_strict); [eassumption | |].
    2: { intros sc HSc. apply wp_ret. cbn beta iota. eapply Herr. eassumption. }
    intros [did toks] sc HSc. apply wp_ret. cbn beta iota.
    unfold own_dict, O_shared, O_dict in HSc. cbn [d_id d_toks] in *.
    repeat rewrite <- app_assoc in HSc. simpl in HSc. clear HS. rename HSc into HS.
    destruct xc.
    + apply wp_bind. eapply (use_strict _ _ _ _ xlat_clone_strict); [eassumption | |].
      2: { intros sd HSd. cbn beta iota. apply wp_bind. simpl in HSd.
           unfold attr_dict_free_clone, O_shared, O_dict. cbn [d_id d_toks].
           clear HS. rename HSd into HS. wp_go. eauto. }
      intros xl sd HSd. cbn beta iota. unfold own_xlat in HSd. simpl in HSd. apply wp_bind.
      clear HS. rename HSd into HS.
      eapply clone_xlat_attrs_ok; [eassumption|]. split.
      * intros new se HSe. cbn [fst snd d_id d_toks]. clear HS. rename HSe into HS. wp_go.
        exists (new ++ x_sys xl :: x_xlat xl :: toks ++ did :: data ++ ctx3 ctx), [0; 1; 0].
        split; [apply shape_xlat|]. unfold ctx3. app_exact HS.
      * intros new se Fe HSe. cbn [fst snd d_id d_toks]. apply wp_bind.
        unfold xlat_free. clear HS. rename HSe into HS. wp_go.
        unfold attr_dict_free_clone, O_shared, O_dict. cbn [d_id d_toks].
        wp_go. eauto.
    + wp_go.
      exists (toks ++ did :: data ++ ctx3 ctx), [2; 0; 1; 0].
      split; [apply shape_dict|]. unfold ctx3. app_exact HS.
  - (* shared dictionary *)
    wp_go. destruct xc.
    + apply wp_bind. eapply (use_strict _ _ _ _ xlat_clone_strict); [eassumption | |].
      2: { intros sd HSd. cbn beta iota. clear HS. rename HSd into HS. wp_go. eauto. }
      intros xl sd HSd. cbn beta iota. unfold own_xlat in HSd. simpl in HSd.
      clear HS. rename HSd into HS. wp_go.
      exists (x_sys xl :: x_xlat xl :: data ++ ctx3 ctx), [1; 0].
      split; [apply shape_xlat_nodict|]. unfold ctx3. app_exact HS.
    + wp_go. exists (data ++ ctx3 ctx), [2; 1; 0].
      split; [apply shape_shared|]. unfold ctx3. app_exact HS.
Qed.

Lemma kdump_free_clone_releases : releases_rel kdump_free clone_shape.
Proof.
  intros k Ln Pn s L K P F Hsh HS.
  destruct Hsh; unfold kdump_free, ctx3, O_shared, O_dict, O_xlat, LK_shared, addrxlat_ctx_decref,
    xlat_free, attr_dict_free_clone in *;
    cbn [k_ctx k_shared k_dict k_xlat k_slots d_id d_toks] in *;
    repeat (first [ rewrite <- app_assoc in HS | progress cbn [app] in HS ]);
    wp_go; assumption.
Qed.

(** ** caches *)
Definition own_cache (c : cacher) :=
  match ca_data c with Some d => [d; ca_id c] | None => [ca_id c] end.

Lemma cache_alloc_strict d : unwinds_strict (cache_alloc d) own_cache (fun _ => []).
Proof.
  intros s L K P F HS. unfold cache_alloc. wp_go; try assumption.
  destruct d; wp_go; assumption.
Qed.

Lemma cache_free_releases : releases cache_free own_cache (fun _ => []).
Proof.
  intros [id [d|]] s L K P F HS; unfold cache_free, own_cache in *; simpl in *; wp_go; assumption.
Qed.

Definition own_fcache (f : fcacher) := own_cache (fc_fbcache f) ++ own_cache (fc_cache f) ++ [fc_id f].

Lemma fcache_new_strict : unwinds_strict fcache_new own_fcache (fun _ => []).
Proof.
  intros s L K P F HS. unfold fcache_new. wp_go; [|assumption].
  eapply (use_strict _ _ _ _ (cache_alloc_strict false)); [eassumption | |].
  2: { intros sa HSa. clear HS. rename HSa into HS. wp_go. assumption. }
  intros ca sa HSa. cbn beta iota. apply wp_bind.
  eapply (use_strict _ _ _ _ (cache_alloc_strict true)); [eassumption | |].
  - intros fb sb HSb. apply wp_ret. unfold own_fcache. cbn [fc_id fc_cache fc_fbcache].
    app_exact HSb.
  - intros sb HSb. cbn beta iota. apply wp_bind.
    eapply (use_releases _ _ _ _ cache_free_releases ca); [simpl; eassumption|].
    intros sc HSc. clear HS. rename HSc into HS. wp_go. assumption.
Qed.

Lemma fcache_free_releases : releases fcache_free own_fcache (fun _ => []).
Proof.
  intros f s L K P F HS. unfold fcache_free, own_fcache in *. apply wp_bind.
  eapply (use_releases _ _ _ _ cache_free_releases (fc_fbcache f)); [simpl; app_exact HS|].
  intros sa HSa. apply wp_bind.
  eapply (use_releases _ _ _ _ cache_free_releases (fc_cache f)); [simpl; app_exact HSa|].
  intros sb HSb. clear HS. rename HSb into HS. wp_go. assumption.
Qed.

(** ** PFN regions *)
Definition own_pfnmap (m : pfnmap) := match pm_regions m with Some id => [id] | None => [] end.

(* a failed add leaves the map exactly as it was; a successful one appends *)
Lemma add_pfn_region_ok inc m rgn s L K P F (Q : option pfnmap -> st -> Prop) :
  St s (own_pfnmap m ++ L) K P F ->
  (forall m' s', St s' (own_pfnmap m' ++ L) K P F -> pm_list m' = pm_list m ++ [rgn] ->
                 pm_n m' = S (pm_n m) -> Q (Some m') s') ->
  (forall s', St s' (own_pfnmap m ++ L) K P true -> Q None s') ->
  wp (add_pfn_region inc m rgn) Q s.
Proof.
  intros HS Hok Hf. unfold add_pfn_region.
  destruct (Nat.eqb (Nat.modulo (pm_n m) inc) 0).
  - destruct m as [[old|] n l]; unfold own_pfnmap in *; cbn [pm_regions pm_n pm_list] in *; simpl in HS.
    + wp_go.
      * apply Hok; auto.
      * apply Hf. assumption.
    + wp_go.
      * apply Hok; auto.
      * apply Hf. assumption.
  - apply wp_ret. apply Hok; auto.
Qed.

(* along any history of additions with any schedule: the regions recorded are
   exactly the additions that succeeded, in order; one block is owned *)
Fixpoint successes (inc : nat) (n : nat) (rgns : list nat) (sch : list bool) : list nat :=
  match rgns with
  | [] => []
  | r :: rest =>
      if Nat.eqb (Nat.modulo n inc) 0 then
        match sch with
        | false :: sch' => successes inc n rest sch'
        | _ => r :: successes inc (S n) rest (tl sch)
        end
      else r :: successes inc (S n) rest sch
  end.

Lemma add_regions_ok inc rgns : forall m s L K P F (Q : pfnmap -> st -> Prop),
  St s (own_pfnmap m ++ L) K P F ->
  (forall m' s' F', St s' (own_pfnmap m' ++ L) K P F' -> Q m' s') ->
  wp (add_regions inc m rgns) Q s.
Proof.
  induction rgns as [| r rest IH]; intros m s L K P F Q HS HQ; cbn [add_regions].
  - apply wp_ret. eauto.
  - apply wp_bind. eapply add_pfn_region_ok; [eassumption | |].
    + intros m' s' HS' _ _. cbn beta iota. eapply IH; eauto.
    + intros s' HS'. cbn beta iota. eapply IH; eauto.
Qed.

Lemma add_regions_list inc rgns : forall m s,
  pm_list (fst (add_regions inc m rgns s)) = pm_list m ++ successes inc (pm_n m) rgns (sched s) /\
  pm_n (fst (add_regions inc m rgns s)) = pm_n m + length (successes inc (pm_n m) rgns (sched s)).
Proof.
  induction rgns as [| r rest IH]; intros m s; cbn [add_regions successes].
  - unfold ret. simpl. rewrite app_nil_r. split; [reflexivity|lia].
  - unfold bind, add_pfn_region.
    destruct (Nat.eqb (Nat.modulo (pm_n m) inc) 0).
    + unfold bind, realloc, ret. destruct (sched s) as [| [|] sch'] eqn:Es; cbn [fst snd];
        rewrite (proj1 (IH _ _)), (proj2 (IH _ _)); cbn [pm_list pm_n sched tl];
        rewrite ?Es; cbn [tl length]; rewrite <- ?app_assoc; cbn [app]; split; try reflexivity; lia.
    + unfold ret. cbn [fst snd].
      rewrite (proj1 (IH _ _)), (proj2 (IH _ _)); cbn [pm_list pm_n sched tl].
      cbn [length]; rewrite <- ?app_assoc; cbn [app]; split; try reflexivity; lia.
Qed.

(** ** statements on complete runs under "fail the n-th allocation" *)
Lemma run_ok_strict_nth A (m : M (option A)) :
  run_ok_strict m ->
  forall n r tr fl, run m (fail_nth n) = (r, tr, fl) ->
    (r = None <-> fl = true) /\
    (r = None -> balanced tr /\ no_lock_held tr /\ no_pin_held tr).
Proof.
  intros H n r tr fl E. specialize (H (fail_nth n)). rewrite E in H. tauto.
Qed.

Lemma run_ok_nth A (m : M (option A)) :
  run_ok m ->
  forall n r tr fl, run m (fail_nth n) = (r, tr, fl) ->
    (fl = true -> r = None) /\
    (r = None -> balanced tr /\ no_lock_held tr /\ no_pin_held tr).
Proof.
  intros H n r tr fl E. specialize (H (fail_nth n)). rewrite E in H. tauto.
Qed.

Lemma kdump_new_run_ok nr opts : run_ok_strict (kdump_new nr opts).
Proof. eapply unwinds_strict_rel_run_ok. apply kdump_new_strict. Qed.

Lemma kdump_clone_run_ok slots dc xc specs : run_ok (kdump_clone slots dc xc specs).
Proof. eapply unwinds_rel_run_ok. apply kdump_clone_unwinds. Qed.

Lemma kdump_new_roundtrip nr opts : roundtrip_clean (kdump_new nr opts) kdump_free.
Proof.
  eapply roundtrip_rel; [apply strict_rel_rel; apply kdump_new_strict | apply kdump_free_new_releases].
Qed.

Lemma kdump_clone_roundtrip slots dc xc specs :
  roundtrip_clean (kdump_clone slots dc xc specs) kdump_free.
Proof.
  eapply roundtrip_rel; [apply kdump_clone_unwinds | apply kdump_free_clone_releases].
Qed.

(** ** run-level statements for the attribute paths *)
Lemma create_attr_path_run missing sch :
  let '(r, tr, fl) := run (create_attr_path missing []) sch in
  (fst r = false <-> fl = true) /\
  exists x, replay tr = Some x /\ live x = snd r /\ locks x = [] /\ pins x = [].
Proof.
  unfold run.
  assert (W : wp (create_attr_path missing [])
                 (fun r s' => St s' (snd r) [] [] (negb (fst r))) (init sch 0 [])).
  { eapply create_attr_path_ok; [apply St_init | |].
    - intros new s' HS. cbn [fst snd negb]. rewrite !app_nil_r in *. exact HS.
    - intros new s' HS. cbn [fst snd negb]. rewrite !app_nil_r in *. exact HS. }
  unfold wp in W. destruct (create_attr_path missing [] (init sch 0 [])) as [r s']. cbn [fst snd] in *.
  split.
  - rewrite (st_failed _ _ _ _ _ W). destruct (fst r); simpl; split; congruence.
  - eexists. split; [exact (st_sum _ _ _ _ _ W)|]. auto.
Qed.

Lemma clone_attr_path_run above t sch :
  let '(r, tr, fl) := run (clone_attr_path above true t) sch in
  (fl = true -> fst r = None) /\
  match fst r with
  | None => clean tr /\ snd r = []
  | Some new => exists x, replay tr = Some x /\ live x = new /\ locks x = [] /\ pins x = []
  end.
Proof.
  unfold run.
  assert (W : wp (clone_attr_path above true t)
                 (fun r s' => match fst r with
                              | None => (exists F', St s' [] [] [] F') /\ snd r = []
                              | Some new => St s' new [] [] false
                              end) (init sch 0 [])).
  { eapply clone_attr_path_ok; [apply St_init | | |].
    - intros new s' HS. cbn [fst snd]. rewrite app_nil_r in HS. exact HS.
    - intros s' F' HS _. cbn [fst snd]. eauto.
    - intros kept s' F' _ Hc. discriminate. }
  unfold wp in W. destruct (clone_attr_path above true t (init sch 0 [])) as [r s']. cbn [fst snd] in *.
  destruct (fst r) as [new|].
  - split.
    + rewrite (st_failed _ _ _ _ _ W). discriminate.
    + eexists. split; [exact (st_sum _ _ _ _ _ W)|]. auto.
  - destruct W as [[F' W] E]. split; [reflexivity|]. split; [eapply St_clean; eauto|exact E].
Qed.

(** ** PFN regions: the history statement *)
Definition empty_map : pfnmap := {| pm_regions := None; pm_n := 0; pm_list := [] |}.

Lemma add_regions_run inc rgns sch :
  let '(m, tr, fl) := run (add_regions inc empty_map rgns) sch in
  pm_list m = successes inc 0 rgns sch /\
  pm_n m = length (pm_list m) /\
  exists x, replay tr = Some x /\ live x = own_pfnmap m /\ locks x = [] /\ pins x = [].
Proof.
  unfold run.
  pose proof (add_regions_list inc rgns empty_map (init sch 0 [])) as [I1 I2].
  assert (W : wp (add_regions inc empty_map rgns)
                 (fun m s' => exists F', St s' (own_pfnmap m) [] [] F') (init sch 0 [])).
  { eapply add_regions_ok with (L := []); [simpl; apply St_init|].
    intros m' s' F' HS. rewrite app_nil_r in HS. eauto. }
  unfold wp in W. destruct (add_regions inc empty_map rgns (init sch 0 [])) as [m s']. cbn [fst snd] in *.
  cbn [empty_map pm_list pm_n app init sched] in I1, I2. destruct W as [F' W].
  repeat split.
  - exact I1.
  - rewrite I2, I1. reflexivity.
  - eexists. split; [exact (st_sum _ _ _ _ _ W)|]. auto.
Qed.

Lemma add_regions_roundtrip inc rgns sch :
  let '(_, tr, _) := run (m <- add_regions inc empty_map rgns ;; free_regions m) sch in clean tr.
Proof.
  unfold run.
  assert (W : wp (m <- add_regions inc empty_map rgns ;; free_regions m)
                 (fun _ s' => exists F', St s' [] [] [] F') (init sch 0 [])).
  { apply wp_bind. eapply add_regions_ok with (L := []); [simpl; apply St_init|].
    intros m' s' F' HS. unfold free_regions, own_pfnmap in *. destruct (pm_regions m'); simpl in HS.
    - wp_go. eauto.
    - apply wp_ret. eauto. }
  unfold wp in W.
  destruct ((m <- add_regions inc empty_map rgns ;; free_regions m) (init sch 0 [])) as [u s'].
  cbn [fst snd] in *. destruct W as [F' W]. eapply St_clean; eauto.
Qed.

(** ** witnesses on the pinned code *)
Lemma not_no_lock_held tr x : replay tr = Some x -> locks x <> [] -> ~ no_lock_held tr.
Proof. intros E Hl (y & Ey & Hy). rewrite E in Ey. injection Ey as <-. auto. Qed.

Lemma not_balanced tr x : replay tr = Some x -> live x <> [] -> ~ balanced tr.
Proof. intros E Hl (y & Ey & Hy). rewrite E in Ey. injection Ey as <-. auto. Qed.

Lemma clone_pinned_lock_witness :
  exists slots n r tr fl,
    run (kdump_clone_pinned slots false false []) (fail_nth n) = (r, tr, fl) /\
    r = None /\ ~ no_lock_held tr.
Proof.
  exists 1, 4. eexists _, _, _. split; [vm_compute; reflexivity|]. split; [reflexivity|].
  eapply not_no_lock_held; [vm_compute; reflexivity|]. discriminate.
Qed.

Lemma clone_pinned_leak_witness :
  exists n r tr fl,
    run (kdump_clone_pinned 0 true false []) (fail_nth n) = (r, tr, fl) /\
    r = None /\ ~ balanced tr.
Proof.
  exists 4. eexists _, _, _. split; [vm_compute; reflexivity|]. split; [reflexivity|].
  eapply not_balanced; [vm_compute; reflexivity|]. discriminate.
Qed.

Lemma new_pinned_leak_witness :
  exists nr n r tr fl,
    run (kdump_new_pinned nr []) (fail_nth n) = (r, tr, fl) /\ r = None /\ ~ balanced tr.
Proof.
  exists 3, 7. eexists _, _, _. split; [vm_compute; reflexivity|]. split; [reflexivity|].
  eapply not_balanced; [vm_compute; reflexivity|]. discriminate.
Qed.
