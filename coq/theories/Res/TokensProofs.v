(** Reasoning rules for event programs: a weakest-precondition calculus over
    the summary of the trace emitted so far. *)
From Coq Require Import List Bool Arith PeanoNat Lia.
From KdV Require Import Res.Tokens.
Import ListNotations.

(** ** removal *)
Inductive Remove (x : nat) : list nat -> list nat -> Prop :=
| Remove_here l : Remove x (x :: l) l
| Remove_there y l l' : Remove x l l' -> Remove x (y :: l) (y :: l').

Inductive RemoveAll : list nat -> list nat -> list nat -> Prop :=
| RemoveAll_nil l : RemoveAll [] l l
| RemoveAll_cons x xs l l' l'' : Remove x l l' -> RemoveAll xs l' l'' -> RemoveAll (x :: xs) l l''.

Lemma Remove_In x l l' : Remove x l l' -> In x l.
Proof. induction 1; simpl; auto. Qed.

Lemma Remove_incl x l l' : Remove x l l' -> forall y, In y l' -> In y l.
Proof. induction 1; simpl; intuition. Qed.

Lemma Remove_NoDup x l l' : Remove x l l' -> NoDup l -> NoDup l' /\ ~ In x l'.
Proof.
  induction 1 as [l | y l l' HR IH]; intros ND; inversion ND as [| ? ? Hn ND']; subst.
  - split; assumption.
  - destruct (IH ND') as [ND'' Hx]. split.
    + constructor; [|assumption]. intro Hi. apply Hn. eapply Remove_incl; eauto.
    + simpl. intros [E | Hi]; [subst|auto]. apply Hn. eapply Remove_In; eauto.
Qed.

Lemma Remove_Forall (Pr : nat -> Prop) x l l' : Remove x l l' -> Forall Pr l -> Forall Pr l'.
Proof. induction 1; intros HF; inversion HF; subst; auto. Qed.

Lemma remove_one_Remove x l l' : NoDup l -> Remove x l l' -> remove_one x l = Some l'.
Proof.
  intros ND HR. induction HR as [l | y l l' HR IH]; simpl.
  - now rewrite Nat.eqb_refl.
  - inversion ND as [| ? ? Hn ND']; subst.
    destruct (Nat.eqb_spec x y) as [E | NE].
    + subst. exfalso. apply Hn. eapply Remove_In; eauto.
    + now rewrite (IH ND').
Qed.

Lemma remove_one_Some_Remove x l l' : remove_one x l = Some l' -> Remove x l l'.
Proof.
  revert l'. induction l as [| y l IH]; simpl; intros l' H; [discriminate|].
  destruct (Nat.eqb_spec x y) as [E | NE].
  - inversion H; subst. constructor.
  - destruct (remove_one x l) eqn:E1; [|discriminate]. inversion H; subst. constructor. now apply IH.
Qed.

Lemma RemoveAll_app xs ys l l' l'' :
  RemoveAll xs l l' -> RemoveAll ys l' l'' -> RemoveAll (xs ++ ys) l l''.
Proof. induction 1; simpl; intros; [assumption|]. econstructor; eauto. Qed.

(** all of a prefix *)
Lemma RemoveAll_prefix xs l : RemoveAll xs (xs ++ l) l.
Proof. induction xs; simpl; [constructor|]. econstructor; [constructor|assumption]. Qed.

Lemma Remove_app_r x l l' pre : Remove x l l' -> Remove x (pre ++ l) (pre ++ l').
Proof. induction pre; simpl; intros; [assumption|]. constructor; auto. Qed.

Lemma RemoveAll_rev_prefix xs l : RemoveAll (rev xs) (xs ++ l) l.
Proof.
  revert l. induction xs as [| x xs IH]; intros l; simpl; [constructor|].
  apply RemoveAll_app with (l' := x :: l).
  - clear IH. revert x l. induction xs as [| y ys IH2]; intros x l; simpl; [constructor|].
    specialize (IH2 x l).
    (* rev (y::ys) = rev ys ++ [y] ; list is x :: y :: ys ++ l *)
    apply RemoveAll_app with (l' := x :: y :: l).
    + clear IH2.
      assert (G : forall zs pre, RemoveAll (rev zs) (pre ++ zs ++ l) (pre ++ l)).
      { induction zs as [| z zs IHz]; intros pre; simpl; [constructor|].
        apply RemoveAll_app with (l' := pre ++ z :: l).
        - specialize (IHz (pre ++ [z])). rewrite <- !app_assoc in IHz. simpl in IHz. exact IHz.
        - econstructor; [|constructor]. apply Remove_app_r. constructor. }
      exact (G ys [x; y]).
    + econstructor; [|constructor]. constructor. constructor.
  - econstructor; [constructor|constructor].
Qed.

Lemma RemoveAll_cons_r y xs l l' : RemoveAll xs l l' -> RemoveAll xs (y :: l) (y :: l').
Proof. induction 1; [constructor|]. econstructor; [apply Remove_there; eassumption|assumption]. Qed.

Lemma RemoveAll_app_r pre xs l l' : RemoveAll xs l l' -> RemoveAll xs (pre ++ l) (pre ++ l').
Proof. induction pre; simpl; intros; [assumption|]. apply RemoveAll_cons_r. auto. Qed.

Lemma remove_one_head x l : remove_one x (x :: l) = Some l.
Proof. simpl. now rewrite Nat.eqb_refl. Qed.

(* removing the element that sits second gives the same list whether or not it
   equals the first one *)
Lemma remove_one_second x e l : remove_one x (e :: x :: l) = Some (e :: l).
Proof.
  simpl. destruct (Nat.eqb_spec x e) as [->|NE]; [reflexivity|]. now rewrite Nat.eqb_refl.
Qed.

(** ** replay *)
Lemma replay_from_app s tr1 tr2 :
  replay_from s (tr1 ++ tr2) =
  match replay_from s tr1 with Some s' => replay_from s' tr2 | None => None end.
Proof.
  revert s. induction tr1 as [| e tr1 IH]; intros s; simpl; [reflexivity|].
  destruct (step s e); [apply IH|reflexivity].
Qed.

Lemma summary_emit e s :
  summary (snd (emit e s)) = match summary s with Some x => step x e | None => None end.
Proof.
  unfold summary, trace, replay, emit; simpl. rewrite replay_from_app.
  destruct (replay_from empty (rev (rtrace s))); simpl; [|reflexivity].
  destruct (step s0 e); reflexivity.
Qed.

(** ** wp *)
Definition wp {A} (m : M A) (Q : A -> st -> Prop) (s : st) : Prop :=
  Q (fst (m s)) (snd (m s)).

Lemma wp_ret A (a : A) (Q : A -> st -> Prop) s : Q a s -> wp (ret a) Q s.
Proof. exact (fun H => H). Qed.

Lemma wp_bind A B (m : M A) (f : A -> M B) (Q : B -> st -> Prop) s :
  wp m (fun a s' => wp (f a) Q s') s -> wp (bind m f) Q s.
Proof. unfold wp, bind. destruct (m s) as [a s']; simpl. exact (fun H => H). Qed.

Lemma wp_eq A (m m' : M A) (Q : A -> st -> Prop) s : m s = m' s -> wp m' Q s -> wp m Q s.
Proof. unfold wp. intros ->. exact (fun H => H). Qed.

Lemma wp_conseq A (m : M A) (Q Q' : A -> st -> Prop) s :
  wp m Q s -> (forall a s', Q a s' -> Q' a s') -> wp m Q' s.
Proof. unfold wp. auto. Qed.

(** the state predicate: summary of the trace so far is (L, K, P), identities
    in L are below the next fresh one and pairwise distinct, failure flag F *)
Record St (s : st) (L K P : list nat) (F : bool) : Prop := {
  st_sum : summary s = Some {| live := L; locks := K; pins := P |};
  st_fresh : Forall (fun i => i < next s) L;
  st_nodup : NoDup L;
  st_failed : failed s = F }.

Lemma memb_false x l : ~ In x l -> memb x l = false.
Proof.
  unfold memb. induction l as [| y l IH]; simpl; intros H; [reflexivity|].
  destruct (Nat.eqb_spec x y); [subst; exfalso; auto|]. apply IH. auto.
Qed.

Lemma fresh_not_in n l : Forall (fun i => i < n) l -> ~ In n l.
Proof. intros HF Hi. rewrite Forall_forall in HF. specialize (HF _ Hi). lia. Qed.

Lemma wp_alloc site s L K P F (Q : option nat -> st -> Prop) :
  St s L K P F ->
  (forall id s', St s' (id :: L) K P F -> ~ In id L -> Q (Some id) s') ->
  (forall s', St s' L K P true -> Q None s') ->
  wp (alloc site) Q s.
Proof.
  intros [Hs Hf Hn Hfl] Hok Hfail. unfold wp, alloc.
  assert (Hni : ~ In (next s) L) by now apply fresh_not_in.
  assert (OK : Q (fst (Some (next s), {| sched := tl (sched s); next := S (next s);
                 rtrace := Alloc site (next s) :: rtrace s; failed := failed s |}))
                 (snd (Some (next s), {| sched := tl (sched s); next := S (next s);
                 rtrace := Alloc site (next s) :: rtrace s; failed := failed s |}))).
  { simpl. apply Hok; [|assumption]. constructor; simpl.
    - change (summary (snd (emit (Alloc site (next s)) s)) = _) in |- * || idtac.
      unfold summary, trace in *. simpl. unfold replay in *. rewrite replay_from_app, Hs. simpl.
      now rewrite (memb_false _ _ Hni).
    - constructor; [lia|]. eapply Forall_impl; [|exact Hf]. simpl; intros; lia.
    - constructor; assumption.
    - assumption. }
  destruct (sched s) as [| [|] rest]; try exact OK.
  simpl. apply Hfail. constructor; simpl; try assumption; try reflexivity.
  unfold summary, trace in *. simpl. unfold replay in *. now rewrite replay_from_app, Hs.
Qed.

Lemma wp_realloc site old s L L' K P F (Q : option nat -> st -> Prop) :
  St s L K P F ->
  match old with Some o => Remove o L L' | None => L' = L end ->
  (forall id s', St s' (id :: L') K P F -> ~ In id L -> Q (Some id) s') ->
  (forall s', St s' L K P true -> Q None s') ->
  wp (realloc site old) Q s.
Proof.
  intros [Hs Hf Hn Hfl] HR Hok Hfail. unfold wp, realloc.
  assert (Hni : ~ In (next s) L) by now apply fresh_not_in.
  assert (HL' : NoDup L' /\ Forall (fun i => i < next s) L' /\ ~ In (next s) L' /\
                replay_from empty (rev (match old with Some o => Free o :: rtrace s | None => rtrace s end))
                = Some {| live := L'; locks := K; pins := P |}).
  { destruct old as [o|].
    - destruct (Remove_NoDup _ _ _ HR Hn) as [Hn' _]. repeat split.
      + exact Hn'.
      + eapply Remove_Forall; eauto.
      + intro Hi. apply Hni. eapply Remove_incl; eauto.
      + simpl. unfold summary, trace, replay in Hs. rewrite replay_from_app, Hs. simpl.
        now rewrite (remove_one_Remove _ _ _ Hn HR).
    - subst L'. repeat split; assumption. }
  destruct HL' as (Hn' & Hf' & Hni' & Hrep).
  assert (OK : Q (Some (next s))
                 {| sched := tl (sched s); next := S (next s);
                    rtrace := Alloc site (next s) ::
                      match old with Some o => Free o :: rtrace s | None => rtrace s end;
                    failed := failed s |}).
  { apply Hok; [|assumption]. constructor; simpl.
    - unfold summary, trace, replay. simpl. rewrite replay_from_app, Hrep. simpl.
      now rewrite (memb_false _ _ Hni').
    - constructor; [lia|]. eapply Forall_impl; [|exact Hf']. simpl; intros; lia.
    - constructor; assumption.
    - assumption. }
  destruct (sched s) as [| [|] rest]; simpl; try exact OK.
  apply Hfail. constructor; simpl; try assumption; try reflexivity.
  unfold summary, trace in *. simpl. unfold replay in *. now rewrite replay_from_app, Hs.
Qed.

Lemma St_emit s L K P F e L' K' P' :
  St s L K P F ->
  step {| live := L; locks := K; pins := P |} e = Some {| live := L'; locks := K'; pins := P' |} ->
  Forall (fun i => i < next s) L' -> NoDup L' ->
  St (snd (emit e s)) L' K' P' F.
Proof.
  intros [Hs Hf Hn Hfl] He Hf' Hn'. constructor.
  - now rewrite summary_emit, Hs.
  - exact Hf'.
  - exact Hn'.
  - exact Hfl.
Qed.

Lemma wp_free id s L L' K P F (Q : unit -> st -> Prop) :
  St s L K P F -> Remove id L L' ->
  (forall s', St s' L' K P F -> Q tt s') -> wp (free id) Q s.
Proof.
  intros HS HR HQ. unfold wp, free. apply HQ.
  destruct (Remove_NoDup _ _ _ HR (st_nodup _ _ _ _ _ HS)) as [Hn' _].
  apply (St_emit _ _ _ _ _ _ _ _ _ HS).
  - simpl. now rewrite (remove_one_Remove _ _ _ (st_nodup _ _ _ _ _ HS) HR).
  - eapply Remove_Forall; [exact HR|]. exact (st_fresh _ _ _ _ _ HS).
  - exact Hn'.
Qed.

Lemma wp_free_all ids : forall s L L' K P F (Q : unit -> st -> Prop),
  St s L K P F -> RemoveAll ids L L' ->
  (forall s', St s' L' K P F -> Q tt s') -> wp (free_all ids) Q s.
Proof.
  induction ids as [| i ids IH]; intros s L L' K P F Q HS HR HQ; simpl.
  - inversion HR; subst. apply wp_ret. auto.
  - inversion HR as [| ? ? ? L1 ? HR1 HR2]; subst.
    apply wp_bind. apply (wp_free _ _ _ _ _ _ _ _ HS HR1). intros s' HS'.
    exact (IH _ _ _ _ _ _ _ HS' HR2 HQ).
Qed.

Lemma wp_lock k l s L K P F (Q : unit -> st -> Prop) :
  St s L K P F -> (forall s', St s' L (l :: K) P F -> Q tt s') -> wp (lock k l) Q s.
Proof.
  intros HS HQ. unfold wp, lock. apply HQ. apply (St_emit _ _ _ _ _ _ _ _ _ HS).
  - reflexivity.
  - exact (st_fresh _ _ _ _ _ HS).
  - exact (st_nodup _ _ _ _ _ HS).
Qed.

Lemma wp_unlock l s L K K' P F (Q : unit -> st -> Prop) :
  St s L K P F -> remove_one l K = Some K' ->
  (forall s', St s' L K' P F -> Q tt s') -> wp (unlock l) Q s.
Proof.
  intros HS HR HQ. unfold wp, unlock. apply HQ. apply (St_emit _ _ _ _ _ _ _ _ _ HS).
  - simpl. now rewrite HR.
  - exact (st_fresh _ _ _ _ _ HS).
  - exact (st_nodup _ _ _ _ _ HS).
Qed.

Lemma wp_pin o s L K P F (Q : unit -> st -> Prop) :
  St s L K P F -> (forall s', St s' L K (o :: P) F -> Q tt s') -> wp (pin o) Q s.
Proof.
  intros HS HQ. unfold wp, pin. apply HQ. apply (St_emit _ _ _ _ _ _ _ _ _ HS).
  - reflexivity.
  - exact (st_fresh _ _ _ _ _ HS).
  - exact (st_nodup _ _ _ _ _ HS).
Qed.

Lemma wp_unpin o s L K P P' F (Q : unit -> st -> Prop) :
  St s L K P F -> remove_one o P = Some P' ->
  (forall s', St s' L K P' F -> Q tt s') -> wp (unpin o) Q s.
Proof.
  intros HS HR HQ. unfold wp, unpin. apply HQ. apply (St_emit _ _ _ _ _ _ _ _ _ HS).
  - simpl. now rewrite HR.
  - exact (st_fresh _ _ _ _ _ HS).
  - exact (st_nodup _ _ _ _ _ HS).
Qed.

(** initial state *)
Lemma St_init sch : St (init sch 0 []) [] [] [] false.
Proof. constructor; simpl; auto; constructor. Qed.

(** from a final [St] to the trace predicates *)
Lemma St_balanced s K P F : St s [] K P F -> balanced (trace s).
Proof. intros [Hs _ _ _]. eexists; split; [exact Hs|reflexivity]. Qed.
Lemma St_no_lock s L P F : St s L [] P F -> no_lock_held (trace s).
Proof. intros [Hs _ _ _]. eexists; split; [exact Hs|reflexivity]. Qed.
Lemma St_no_pin s L K F : St s L K [] F -> no_pin_held (trace s).
Proof. intros [Hs _ _ _]. eexists; split; [exact Hs|reflexivity]. Qed.
Lemma St_clean s F : St s [] [] [] F -> clean (trace s).
Proof. intros [Hs _ _ _]. exact Hs. Qed.

(** ** tactics *)
Ltac solve_remove :=
  solve [ repeat first [ apply Remove_here | apply Remove_there | apply Remove_app_r ] ].
Ltac solve_remove_all :=
  solve [ apply RemoveAll_prefix
        | rewrite app_assoc; apply RemoveAll_prefix
        | repeat first [ apply RemoveAll_prefix | apply RemoveAll_app_r | apply RemoveAll_cons_r ]
        | repeat first [ apply RemoveAll_nil | eapply RemoveAll_cons; [solve_remove|] ] ].

Ltac wp_step :=
  lazymatch goal with
  | |- wp (bind _ _) _ _ => apply wp_bind
  | |- wp (ret _) _ _ => apply wp_ret
  | H : St ?s _ _ _ _ |- wp (alloc _) _ ?s =>
      eapply (wp_alloc _ _ _ _ _ _ _ H); clear H;
      [ let id := fresh "id" in let s' := fresh "s" in let HS := fresh "HS" in
        let Hn := fresh "Hnew" in intros id s' HS Hn
      | let s' := fresh "s" in let HS := fresh "HS" in intros s' HS ]
  | H : St ?s _ _ _ _ |- wp (realloc _ (Some _)) _ ?s =>
      eapply (wp_realloc _ _ _ _ _ _ _ _ _ H); clear H;
      [ solve_remove
      | let id := fresh "id" in let s' := fresh "s" in let HS := fresh "HS" in
        let Hn := fresh "Hnew" in intros id s' HS Hn
      | let s' := fresh "s" in let HS := fresh "HS" in intros s' HS ]
  | H : St ?s _ _ _ _ |- wp (realloc _ None) _ ?s =>
      eapply (wp_realloc _ _ _ _ _ _ _ _ _ H); clear H;
      [ reflexivity
      | let id := fresh "id" in let s' := fresh "s" in let HS := fresh "HS" in
        let Hn := fresh "Hnew" in intros id s' HS Hn
      | let s' := fresh "s" in let HS := fresh "HS" in intros s' HS ]
  | H : St ?s _ _ _ _ |- wp (free _) _ ?s =>
      eapply (wp_free _ _ _ _ _ _ _ _ H); clear H;
      [ solve_remove | let s' := fresh "s" in let HS := fresh "HS" in intros s' HS ]
  | H : St ?s _ _ _ _ |- wp (free_all _) _ ?s =>
      eapply (wp_free_all _ _ _ _ _ _ _ _ H); clear H;
      [ solve_remove_all | let s' := fresh "s" in let HS := fresh "HS" in intros s' HS ]
  | H : St ?s _ _ _ _ |- wp (lock _ _) _ ?s =>
      eapply (wp_lock _ _ _ _ _ _ _ _ H); clear H;
      let s' := fresh "s" in let HS := fresh "HS" in intros s' HS
  | H : St ?s _ _ _ _ |- wp (unlock _) _ ?s =>
      eapply (wp_unlock _ _ _ _ _ _ _ _ H); clear H;
      [ first [ reflexivity | apply remove_one_head | apply remove_one_second ] | let s' := fresh "s" in let HS := fresh "HS" in intros s' HS ]
  | H : St ?s _ _ _ _ |- wp (pin _) _ ?s =>
      eapply (wp_pin _ _ _ _ _ _ _ H); clear H;
      let s' := fresh "s" in let HS := fresh "HS" in intros s' HS
  | H : St ?s _ _ _ _ |- wp (unpin _) _ ?s =>
      eapply (wp_unpin _ _ _ _ _ _ _ _ H); clear H;
      [ first [ reflexivity | apply remove_one_head | apply remove_one_second ] | let s' := fresh "s" in let HS := fresh "HS" in intros s' HS ]
  end; cbn beta iota.

Ltac wp_go := repeat wp_step.
