(** Models of the resource owners of C15 ("every path gives back what it
    took"), as event programs (Res/Tokens.v):

    - fcache_get (fcache.c): mmap path, read path, policy fallback
    - fcache_get_chunk / fcache_put_chunk: embedded / array / copied-out
      geometries with every failure point
    - the addrxlat read cache with kdump's get_page / put_page callbacks
      (addrxlat/ctx.c get_cache_buf, cleanup_cache; vtop.c addrxlat_get_page)
    - diskdump's private data and its cleanup
    - set_attr's ownership of the new value (attr.c)

    References on cache entries are Pin/Unpin events on the entry's identity,
    allocations are Alloc/Free.  What the environment decides (is the entry
    cached, does mmap/pread succeed, are two pages contiguous in memory, does
    the format's read_page succeed) is an input of the model. *)
From Coq Require Import List Bool Arith PeanoNat.
From KdV Require Import Res.Tokens.
Import ListNotations.

(** ** fcache_get *)
Inductive policy := PNever | PAlways | PTry.
Inductive lookup := Busy | Entry (e : nat) (valid : bool).
(* per call: what cache_get_entry answers in the mmap cache, whether the
   mapping (new, or the remembered one of a valid entry) is good, the same for
   the fallback cache and pread; [g_eof]: the block lies beyond the end of file *)
Record getenv := { g_eof : bool; g_mlook : lookup; g_mmap_ok : bool;
                   g_rlook : lookup; g_pread_ok : bool }.
Inductive gstatus := GOk (e : nat) | GBusy | GSys | GNodata.

(* fcache_get_mmap; [fix47]: the reference is dropped when the mapping failed *)
Definition fcache_get_mmap (fix47 : bool) (env : getenv) : M gstatus :=
  if g_eof env then ret GNodata else
  match g_mlook env with
  | Busy => ret GBusy
  | Entry e _ =>
      pin e ;;;                                     (* cache_get_entry *)
      (* !valid: mmap + cache_insert; valid: the remembered pointer *)
      if g_mmap_ok env then ret (GOk e)
      else (if fix47 then unpin e else ret tt) ;;; ret GSys
  end.

Definition fcache_get_read (env : getenv) : M gstatus :=
  match g_rlook env with
  | Busy => ret GBusy
  | Entry e valid =>
      pin e ;;;
      if valid then ret (GOk e)
      else if g_pread_ok env then (* cache_insert *) ret (GOk e)
           else (* cache_discard drops the reference *) unpin e ;;; ret GSys
  end.

Definition is_ok (s : gstatus) : bool := match s with GOk _ => true | _ => false end.

Definition fcache_get (fix47 : bool) (pol : policy) (env : getenv) : M gstatus :=
  match pol with
  | PNever => fcache_get_read env
  | _ =>
      st <- fcache_get_mmap fix47 env ;;
      if is_ok st || (match pol with PAlways => true | _ => false end) then ret st
      else fcache_get_read env
  end.

(** ** fcache_get_chunk / fcache_put_chunk *)
Inductive geom :=
| Embedded (es : list nat)              (* nent <= MAX_EMBED_FCES entries in the descriptor *)
| Array (fces : nat) (es : list nat)    (* nent > MAX_EMBED_FCES: malloc'ed array *)
| Copied (data : nat)                   (* nent = 0: malloc'ed copy of the data *)
| Empty.                                (* len = 0 *)
Inductive cres := COk (g : geom) | CErr | COob.

Fixpoint unpin_all (es : list nat) : M unit :=
  match es with
  | [] => ret tt
  | e :: r => unpin e ;;; unpin_all r
  end.

Definition free_opt (o : option nat) : M unit := match o with Some x => free x | None => ret tt end.

(* the while (remain) loop.  [held]: entries stored in the array so far, most
   recent first; [fces]: the malloc'ed array if any; [fdang]: the array was
   freed but the pointer is still around (pinned code frees it again);
   [data]: the copy-out buffer once the chunk turned out discontiguous.
   [big]: the precomputed nent exceeds MAX_EMBED_FCES (= 2). *)
Fixpoint chunk_loop (fix41 fix47 : bool) (pol : policy) (big : bool)
         (pages : list (getenv * bool)) (fces fdang : option nat) (held : list nat)
         (data : option nat) : M cres :=
  match pages with
  | [] =>
      match data with
      | Some d => ret (COk (Copied d))
      | None =>
          if 2 <? length held then
            match fces with Some f => ret (COk (Array f held)) | None => ret COob end
          else free_opt fces ;;; ret (COk (Embedded held))
      end
  | (env, contig) :: rest =>
      st <- fcache_get fix47 pol env ;;
      match st with
      | GOk e =>
          match data with
          | Some d =>                       (* memcpy; fcache_put(curfce) *)
              unpin e ;;; chunk_loop fix41 fix47 pol big rest fces fdang held data
          | None =>
              if match held with [] => true | _ => contig end then
                (* ++curfce *)
                if negb big && (2 <=? length held) then ret COob
                else chunk_loop fix41 fix47 pol big rest fces fdang (e :: held) None
              else
                d <- alloc S_fcache_get_chunk ;;
                match d with
                | None =>                   (* put_fces(curfce - nent, nent + 1); free(fces) *)
                    unpin_all (e :: held) ;;; free_opt fces ;;; ret CErr
                | Some dd =>                (* copy_data; put_fces(prev); free(fces); memcpy; put *)
                    unpin_all held ;;; free_opt fces ;;; unpin e ;;;
                    chunk_loop fix41 fix47 pol big rest None fces [] (Some dd)
                end
          end
      | _ =>
          match data with
          | Some d =>
              if fix41 then free d ;;; ret CErr
              else (* pinned: put_fces on stale slots (not modelled), free(fces) again, data lost *)
                free_opt fdang ;;; ret CErr
          | None => unpin_all held ;;; free_opt fces ;;; ret CErr
          end
      end
  end.

Definition fcache_get_chunk (fix41 fix47 : bool) (pol : policy) (big : bool)
           (pages : list (getenv * bool)) : M cres :=
  match pages with
  | [] => ret (COk Empty)
  | _ =>
      if big then
        f <- alloc S_fcache_get_chunk ;;
        match f with
        | None => ret CErr
        | Some fc => chunk_loop fix41 fix47 pol big pages (Some fc) None [] None
        end
      else chunk_loop fix41 fix47 pol big pages None None [] None
  end.

Definition fcache_put_chunk (g : geom) : M unit :=
  match g with
  | Array f es => unpin_all es ;;; free f
  | Embedded es => unpin_all es
  | Copied d => free d
  | Empty => ret tt
  end.

(** ** addrxlat read cache with kdump's callbacks
    (after fixes/81: the translation context gets a private copy of the page and
    the page-cache reference is dropped before get_page returns) *)
Record slot := { sl_addr : nat; sl_buf : nat }.      (* address key, the copy's block *)

(* one get_page request: the page-cache entry the format returns, or failure *)
Inductive pageres := PageOk (e : nat) | PageFail.

(* addrxlat_get_page *)
Definition addrxlat_get_page (pr : pageres) : M (option nat) :=
  d <- alloc S_addrxlat_get_page ;;
  match d with
  | None => ret None
  | Some buf =>
      match pr with
      | PageFail => free buf ;;; ret None
      | PageOk e => pin e ;;; (* memcpy *) unpin e ;;; ret (Some buf)
      end
  end.

(* get_cache_buf: [slots] in MRU order; a hit moves the slot to the front; a
   miss evicts the last slot when all [nslots] are in use *)
Fixpoint find_slot (a : nat) (l : list slot) : option (slot * list slot) :=
  match l with
  | [] => None
  | s :: r => if Nat.eqb (sl_addr s) a then Some (s, r)
              else match find_slot a r with
                   | Some (x, r') => Some (x, s :: r')
                   | None => None
                   end
  end.

Definition get_cache_buf (nslots : nat) (slots : list slot) (a : nat) (pr : pageres)
  : M (bool * list slot) :=
  match find_slot a slots with
  | Some (s, r) => ret (true, s :: r)
  | None =>
      let keep := if length slots <? nslots then slots else removelast slots in
      (* free up the LRU slot if necessary: put_page frees the copy *)
      (if length slots <? nslots then ret tt
       else match last slots {| sl_addr := 0; sl_buf := 0 |} with s => free (sl_buf s) end) ;;;
      r <- addrxlat_get_page pr ;;
      match r with
      | Some buf => ret (true, {| sl_addr := a; sl_buf := buf |} :: keep)
      | None => (* slot->buffer.size = 0 *) ret (false, keep)
      end
  end.

Fixpoint readcache_ops (nslots : nat) (slots : list slot) (ops : list (nat * pageres)) : M (list slot) :=
  match ops with
  | [] => ret slots
  | (a, pr) :: rest =>
      r <- get_cache_buf nslots slots a pr ;;
      readcache_ops nslots (snd r) rest
  end.

(* cleanup_cache: put_page on every used slot *)
Definition cleanup_cache (slots : list slot) : M unit := free_all (map sl_buf slots).

(** ** diskdump private data (diskdump.c init_private, open_common,
    mem_pagemap_revalidate, diskdump_cleanup) *)
Record ddpriv := { dd_id : nat; dd_pdmap : list nat; dd_mempagemap : option nat }.

Inductive ddop := DdReadBitmap | DdRevalidatePagemap.

Definition dd_op (p : ddpriv) (o : ddop) : M (bool * ddpriv) :=
  match o with
  | DdReadBitmap =>                        (* one more file's page map regions *)
      r <- alloc S_format_private ;;
      match r with
      | None => ret (false, p)
      | Some id => ret (true, {| dd_id := dd_id p; dd_pdmap := id :: dd_pdmap p; dd_mempagemap := dd_mempagemap p |})
      end
  | DdRevalidatePagemap =>
      match dd_mempagemap p with
      | Some _ => ret (true, p)
      | None =>
          r <- alloc S_format_private ;;
          match r with
          | None => ret (false, p)
          | Some id => ret (true, {| dd_id := dd_id p; dd_pdmap := dd_pdmap p; dd_mempagemap := Some id |})
          end
      end
  end.

Fixpoint dd_ops (p : ddpriv) (ops : list ddop) : M ddpriv :=
  match ops with
  | [] => ret p
  | o :: rest => r <- dd_op p o ;; dd_ops (snd r) rest
  end.

(* [fix19]: mem_pagemap.regions is freed, too *)
Definition diskdump_cleanup (fix19 : bool) (p : ddpriv) : M unit :=
  free_all (dd_pdmap p) ;;;
  (if fix19 then free_opt (dd_mempagemap p) else ret tt) ;;;
  free (dd_id p).

Definition dd_session (fix19 : bool) (ops : list ddop) : M bool :=
  r <- alloc S_format_private ;;
  match r with
  | None => ret false
  | Some id =>
      p <- dd_ops {| dd_id := id; dd_pdmap := []; dd_mempagemap := None |} ops ;;
      diskdump_cleanup fix19 p ;;; ret true
  end.

(** ** set_attr: the attribute takes over the new value - also when it fails *)
(* a dynamically allocated / reference-counted value (dynamic string, bitmap,
   blob) is one token; a static or embedded value (number, address, static
   string) is [None].  Whether a value must be released is a property of THAT
   value ([flags.dynstr] of the flags passed for the new value, resp. of the
   attribute's own flags for the old one).  [pre_ok]/[post_ok]: results of the
   hooks.  [by_old_flags] is the broken variant in which discard_new_value
   looks at the attribute's flags, i.e. at the OLD value's. *)
Definition set_attr (by_old_flags : bool) (old newv : option nat) (pre_ok post_ok : bool)
  : M (bool * option nat) :=
  if pre_ok then
    free_opt old ;;;                       (* discard_value(attr) *)
    ret (post_ok, newv)                    (* attr->val = *pval; post_set may fail: value stays *)
  else
    (* discard_new_value(attr, flags, pval) *)
    (if by_old_flags then match old with Some _ => free_opt newv | None => ret tt end
     else free_opt newv) ;;;
    ret (false, old).

(** ** diskdump_read_page (diskdump.c): every exit gives the chunk back *)
Inductive cmeth := MZlib | MLzo | MSnappy | MZstd.
Inductive decres := DecOk | DecErr | DecWrongSize.

(* flatmap_pread / fcache_pread of an uncompressed page: entry by entry, each
   put right after the copy *)
Fixpoint pread_pages (pol : policy) (pages : list getenv) : M bool :=
  match pages with
  | [] => ret true
  | env :: rest =>
      st <- fcache_get true pol env ;;
      match st with
      | GOk e => (* memcpy *) unpin e ;;; pread_pages pol rest
      | _ => ret false
      end
  end.

(* the decompression dispatch once the chunk [g] with the compressed data is
   held.  [compiled]: support for the method is built in; [r]: what the
   decompressor reports.  zlib is always built in.  [early_return]: the broken
   variant whose zstd "wrong uncompressed size" exit returns before the common
   fcache_put_chunk. *)
Definition read_page_tail (early_return : bool) (g : geom) (m : cmeth) (compiled : bool) (r : decres)
  : M bool :=
  let ok := match r with DecOk => true | _ => false end in
  match m with
  | MZlib => fcache_put_chunk g ;;; ret ok
  | _ =>
      if compiled then
        match m, r with
        | MZstd, DecWrongSize =>
            if early_return then ret false else fcache_put_chunk g ;;; ret false
        | _, _ => fcache_put_chunk g ;;; ret ok
        end
      else (* "Unsupported compression method" *) fcache_put_chunk g ;;; ret false
  end.

Definition diskdump_read_page (early_return : bool) (pol : policy) (big : bool)
           (pages : list (getenv * bool)) (compressed : bool) (m : cmeth) (compiled : bool)
           (r : decres) : M bool :=
  if compressed then
    c <- fcache_get_chunk true true pol big pages ;;
    match c with
    | COk g => read_page_tail early_return g m compiled r
    | _ => ret false
    end
  else pread_pages pol (map fst pages).

(** ** what the correspondence check runs *)
Definition run_chunk (fix41 fix47 : bool) (pol : policy) (big : bool)
           (pages : list (getenv * bool)) (sch : list bool)
  : (nat * (nat * nat)) * (nat * nat) :=
  (* (status class, (pins after get, blocks after get)), (pins after put, blocks after put) *)
  let '(r, s1) := fcache_get_chunk fix41 fix47 pol big pages (init sch 0 []) in
  let sum1 := summary s1 in
  let cnt s := match s with Some x => (length (pins x), length (live x)) | None => (999, 999) end in
  match r with
  | COk g =>
      let '(_, s2) := fcache_put_chunk g s1 in
      ((match g with Embedded _ => 1 | Array _ _ => 2 | Copied _ => 3 | Empty => 4 end, cnt sum1), cnt (summary s2))
  | CErr => ((0, cnt sum1), cnt sum1)
  | COob => ((9, cnt sum1), cnt sum1)
  end.
