(** Event-program model of libaddrxlat's [sys_set_layout] (src/addrxlat/sys.c)
    with its nested [act_direct] -> [sys_set_layout] on the reverse direct
    map, for C18.  (The functional behaviour - which ranges end up where - is
    the walk agent's Sys/LayoutModel.v; here only allocation, ownership and
    unwinding are modelled.)

    A translation map is its object (calloc in internal_map_new) and its range
    array (realloc in addrxlat_map_set when the update grows the array).  A
    layout call touches two maps of the system: [cur] = sys->map[idx] and
    [dir] = sys->map[ADDRXLAT_SYS_MAP_KPHYS_DIRECT] (used by a region whose
    action is SYS_ACT_DIRECT).  Whether a given addrxlat_map_set must grow the
    array is an input (it is decided by the map contents, C10's subject). *)
From Coq Require Import List Bool Arith.
From KdV Require Import Res.Tokens.
Import ListNotations.

Record mapr := { mp_obj : nat; mp_ranges : option nat }.

Definition optl (o : option nat) : list nat := match o with Some x => [x] | None => [] end.
Definition mtoks (m : option mapr) : list nat :=
  match m with Some m => optl (mp_ranges m) ++ [mp_obj m] | None => [] end.

(* internal_map_set: realloc iff the array must grow; nothing changes on failure *)
Definition map_set (m : mapr) (grow : bool) : M (option mapr) :=
  if grow then
    r <- realloc S_add_pfn_region (mp_ranges m) ;;   (* site label is irrelevant here *)
    match r with
    | None => ret None
    | Some id => ret (Some {| mp_obj := mp_obj m; mp_ranges := Some id |})
    end
  else ret (Some m).

(* internal_map_decref on the only reference *)
Definition map_free (m : mapr) : M unit :=
  match mp_ranges m with Some r => free r | None => ret tt end ;;; free (mp_obj m).

(** [Head]: the code as it is - a new map is installed in the system at once,
    so whatever happens later it is owned by the system.
    [Late]: a variant that installs a new map only at the end, drops it when
    internal_map_set fails, but forgets it when a nested SYS_ACT_DIRECT fails. *)
Inductive variant := Head | Late.

(* the regions of a layout without nested actions: one grow flag each *)
Fixpoint set_regions_flat (m : mapr) (rs : list bool) : M (bool * mapr) :=
  match rs with
  | [] => ret (true, m)
  | g :: rest =>
      r <- map_set m g ;;
      match r with
      | None => ret (false, m)
      | Some m' => set_regions_flat m' rest
      end
  end.

(* sys_set_layout for a layout without SYS_ACT_DIRECT regions: returns the
   status and what sys->map[idx] is afterwards *)
Definition set_layout_flat (v : variant) (cur : option mapr) (rs : list bool)
  : M (bool * option mapr) :=
  match cur with
  | Some m => r <- set_regions_flat m rs ;; ret (fst r, Some (snd r))
  | None =>
      a <- alloc S_addrxlat_sys_new ;;
      match a with
      | None => ret (false, None)
      | Some o =>
          r <- set_regions_flat {| mp_obj := o; mp_ranges := None |} rs ;;
          match v with
          | Head => ret (fst r, Some (snd r))
          | Late => if fst r then ret (true, Some (snd r))
                    else map_free (snd r) ;;; ret (false, None)
          end
      end
  end.

(* a region: [Some nested] = SYS_ACT_DIRECT with the reverse map's layout
   (its grow flags), [None] = any other action; and the region's own grow flag *)
Definition region := (option (list bool) * bool)%type.

(* the loop over the regions: [isnew] = the map was created by this call (only
   the Late variant cares).  Returns status, the map, the direct map, and the
   blocks that are owned by nobody any more (leaked). *)
Fixpoint set_regions (v : variant) (isnew : bool) (m : mapr) (dir : option mapr) (rs : list region)
  : M (bool * option mapr * option mapr * list nat) :=
  match rs with
  | [] => ret (true, Some m, dir, [])
  | (a, g) :: rest =>
      d <- (match a with
            | Some nested => set_layout_flat v dir nested
            | None => ret (true, dir)
            end) ;;
      if fst d then
        r <- map_set m g ;;
        match r with
        | Some m' => set_regions v isnew m' (snd d) rest
        | None =>
            match v, isnew with
            | Late, true => map_free m ;;; ret (false, None, snd d, [])
            | _, _ => ret (false, Some m, snd d, [])
            end
        end
      else
        match v, isnew with
        | Late, true => (* the early return forgets the map that is not installed yet *)
            ret (false, None, snd d, mtoks (Some m))
        | _, _ => ret (false, Some m, snd d, [])
        end
  end.

Definition sys_set_layout (v : variant) (cur dir : option mapr) (rs : list region)
  : M (bool * option mapr * option mapr * list nat) :=
  match cur with
  | Some m => set_regions v false m dir rs
  | None =>
      a <- alloc S_addrxlat_sys_new ;;
      match a with
      | None => ret (false, None, dir, [])
      | Some o => set_regions v true {| mp_obj := o; mp_ranges := None |} dir rs
      end
  end.

(* sys_cleanup of the two maps *)
Definition sys_cleanup (cur dir : option mapr) : M unit :=
  match cur with Some m => map_free m | None => ret tt end ;;;
  match dir with Some m => map_free m | None => ret tt end.

Definition layout_session (v : variant) (rs : list region) : M bool :=
  r <- sys_set_layout v None None rs ;;
  let '(ok, cur, dir, _) := r in
  sys_cleanup cur dir ;;; ret ok.
