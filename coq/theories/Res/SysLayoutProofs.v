(** Unwinding of [sys_set_layout] (model Res/SysLayout.v): whatever allocation
    fails, every block the call allocated is owned by the translation system
    afterwards and is released by sys_cleanup. *)
From Coq Require Import List Bool Arith PeanoNat Lia Permutation.
From KdV Require Import Res.Tokens Res.TokensProofs Res.ResProofs Res.SysLayout.
Import ListNotations.

(** state predicate up to the order of the blocks under consideration *)
Definition PSt (s : st) (T L K P : list nat) (F : bool) : Prop :=
  exists Lc, Permutation Lc T /\ St s (Lc ++ L) K P F.

Lemma PSt_conv s T T' L K P F : Permutation T T' -> PSt s T L K P F -> PSt s T' L K P F.
Proof. intros HP (Lc & H1 & H2). exists Lc. split; [rewrite H1; exact HP|exact H2]. Qed.

Lemma wp_palloc site s T L K P F (Q : option nat -> st -> Prop) :
  PSt s T L K P F ->
  (forall id s', PSt s' (id :: T) L K P F -> Q (Some id) s') ->
  (forall s', PSt s' T L K P true -> Q None s') ->
  wp (alloc site) Q s.
Proof.
  intros (Lc & HP & HS) Hok Hf. eapply wp_alloc; [exact HS | |].
  - intros id s' HS' _. apply Hok. exists (id :: Lc). split; [constructor; exact HP|exact HS'].
  - intros s' HS'. apply Hf. exists Lc. auto.
Qed.

Lemma wp_pfree x s T0 L K P F (Q : unit -> st -> Prop) :
  PSt s (x :: T0) L K P F -> (forall s', PSt s' T0 L K P F -> Q tt s') -> wp (free x) Q s.
Proof.
  intros (Lc & HP & HS) HQ.
  assert (Hin : In x Lc) by (eapply Permutation_in; [apply Permutation_sym; exact HP|left; reflexivity]).
  destruct (In_Remove _ _ Hin) as [Lc' HR].
  eapply wp_free; [exact HS | apply Remove_app_l; exact HR |].
  intros s' HS'. apply HQ. exists Lc'. split; [|exact HS'].
  apply Remove_perm in HR. rewrite HR in HP. eapply Permutation_cons_inv. exact HP.
Qed.

Lemma wp_prealloc site old s T0 L K P F (Q : option nat -> st -> Prop) :
  PSt s (SysLayout.optl old ++ T0) L K P F ->
  (forall id s', PSt s' (id :: T0) L K P F -> Q (Some id) s') ->
  (forall s', PSt s' (SysLayout.optl old ++ T0) L K P true -> Q None s') ->
  wp (realloc site old) Q s.
Proof.
  intros (Lc & HP & HS) Hok Hf. destruct old as [o|]; simpl in *.
  - assert (Hin : In o Lc) by (eapply Permutation_in; [apply Permutation_sym; exact HP|left; reflexivity]).
    destruct (In_Remove _ _ Hin) as [Lc' HR].
    eapply (wp_realloc site (Some o)); [exact HS | apply Remove_app_l; exact HR | |].
    + intros id s' HS' _. apply Hok. exists (id :: Lc'). split; [|exact HS'].
      constructor. apply Remove_perm in HR. rewrite HR in HP. eapply Permutation_cons_inv. exact HP.
    + intros s' HS'. apply Hf. exists Lc. auto.
  - eapply (wp_realloc site None); [exact HS | reflexivity | |].
    + intros id s' HS' _. apply Hok. exists (id :: Lc). split; [constructor; exact HP|exact HS'].
    + intros s' HS'. apply Hf. exists Lc. auto.
Qed.

(** ** addrxlat_map_set, map_free *)
Lemma map_set_ok m g s T0 L K P F (Q : option mapr -> st -> Prop) :
  PSt s (mtoks (Some m) ++ T0) L K P F ->
  (forall m' s', PSt s' (mtoks (Some m') ++ T0) L K P F -> Q (Some m') s') ->
  (forall s', PSt s' (mtoks (Some m) ++ T0) L K P true -> Q None s') ->
  wp (map_set m g) Q s.
Proof.
  intros HS Hok Hf. unfold map_set. destruct g.
  - apply wp_bind. unfold mtoks in *. rewrite <- app_assoc in HS.
    eapply wp_prealloc; [exact HS | |].
    + intros id s' HS'. apply wp_ret. apply Hok. unfold mtoks. cbn [mp_ranges mp_obj SysLayout.optl app].
      exact HS'.
    + intros s' HS'. apply wp_ret. apply Hf. rewrite <- app_assoc. exact HS'.
  - apply wp_ret. apply Hok. exact HS.
Qed.

Lemma map_free_ok m s T0 L K P F (Q : unit -> st -> Prop) :
  PSt s (mtoks (Some m) ++ T0) L K P F -> (forall s', PSt s' T0 L K P F -> Q tt s') -> wp (map_free m) Q s.
Proof.
  intros HS HQ. unfold map_free, mtoks in *. destruct (mp_ranges m) as [r|]; simpl in HS.
  - apply wp_bind. eapply wp_pfree; [exact HS|]. intros s1 HS1. eapply wp_pfree; eauto.
  - apply wp_bind. apply wp_ret. eapply wp_pfree; eauto.
Qed.

(** ** layouts without nested actions *)
Lemma set_regions_flat_ok rs : forall m s T0 L K P F (Q : bool * mapr -> st -> Prop),
  PSt s (mtoks (Some m) ++ T0) L K P F ->
  (forall m' s', PSt s' (mtoks (Some m') ++ T0) L K P F -> Q (true, m') s') ->
  (forall m' s', PSt s' (mtoks (Some m') ++ T0) L K P true -> Q (false, m') s') ->
  wp (set_regions_flat m rs) Q s.
Proof.
  induction rs as [| g rest IH]; intros m s T0 L K P F Q HS Hok Hf; cbn [set_regions_flat].
  - apply wp_ret. auto.
  - apply wp_bind. eapply map_set_ok; [exact HS | |].
    + intros m' s' HS'. eapply IH; eauto.
    + intros s' HS'. apply wp_ret. auto.
Qed.

Lemma set_layout_flat_ok cur rs s T0 L K P F (Q : bool * option mapr -> st -> Prop) :
  PSt s (mtoks cur ++ T0) L K P F ->
  (forall cur' s', PSt s' (mtoks cur' ++ T0) L K P F -> Q (true, cur') s') ->
  (forall cur' s', PSt s' (mtoks cur' ++ T0) L K P true -> Q (false, cur') s') ->
  wp (set_layout_flat Head cur rs) Q s.
Proof.
  intros HS Hok Hf. unfold set_layout_flat. destruct cur as [m|].
  - apply wp_bind. eapply set_regions_flat_ok; [exact HS | |].
    + intros m' s' HS'. apply wp_ret. cbn [fst snd]. auto.
    + intros m' s' HS'. apply wp_ret. cbn [fst snd]. auto.
  - apply wp_bind. simpl in HS. eapply wp_palloc; [exact HS | |].
    + intros id s1 HS1. apply wp_bind.
      eapply (set_regions_flat_ok rs {| mp_obj := id; mp_ranges := None |}); [exact HS1 | |].
      * intros m' s' HS'. apply wp_ret. cbn [fst snd]. auto.
      * intros m' s' HS'. apply wp_ret. cbn [fst snd]. auto.
    + intros s1 HS1. apply wp_ret. apply (Hf None). exact HS1.
Qed.

(** ** the full layout *)
Definition layout_post (T0 L K P : list nat) (F : bool)
           (r : bool * option mapr * option mapr * list nat) (s' : st) : Prop :=
  let '(ok, cur', dir', leaked) := r in
  leaked = [] /\ PSt s' (mtoks cur' ++ mtoks dir' ++ T0) L K P (if ok then F else true).

Lemma set_regions_ok rs : forall isnew m dir s T0 L K P F,
  PSt s (mtoks (Some m) ++ mtoks dir ++ T0) L K P F ->
  wp (set_regions Head isnew m dir rs) (layout_post T0 L K P F) s.
Proof.
  induction rs as [| [a g] rest IH]; intros isnew m dir s T0 L K P F HS; cbn [set_regions].
  - apply wp_ret. simpl. auto.
  - apply wp_bind.
    assert (Hd : forall (Q : bool * option mapr -> st -> Prop),
      (forall dir' s', PSt s' (mtoks (Some m) ++ mtoks dir' ++ T0) L K P F -> Q (true, dir') s') ->
      (forall dir' s', PSt s' (mtoks (Some m) ++ mtoks dir' ++ T0) L K P true -> Q (false, dir') s') ->
      wp (match a with Some nested => set_layout_flat Head dir nested | None => ret (true, dir) end) Q s).
    { intros Q Hok Hf. destruct a as [nested|].
      - eapply (set_layout_flat_ok dir nested s (mtoks (Some m) ++ T0)).
        + eapply PSt_conv; [|exact HS]. apply Permutation_app_swap_app.
        + intros d' s' HS'. apply Hok. eapply PSt_conv; [|exact HS']. apply Permutation_app_swap_app.
        + intros d' s' HS'. apply Hf. eapply PSt_conv; [|exact HS']. apply Permutation_app_swap_app.
      - apply wp_ret. apply Hok. exact HS. }
    apply Hd.
    + intros dir' s1 HS1. cbn [fst snd]. apply wp_bind.
      eapply map_set_ok; [exact HS1 | |].
      * intros m' s2 HS2. eapply IH. exact HS2.
      * intros s2 HS2. destruct isnew; apply wp_ret; simpl; auto.
    + intros dir' s1 HS1. cbn [fst snd]. destruct isnew; apply wp_ret; simpl; auto.
Qed.

Theorem sys_set_layout_owned cur dir rs s T0 L K P F :
  PSt s (mtoks cur ++ mtoks dir ++ T0) L K P F ->
  wp (sys_set_layout Head cur dir rs) (layout_post T0 L K P F) s.
Proof.
  intros HS. unfold sys_set_layout. destruct cur as [m|].
  - apply set_regions_ok. exact HS.
  - apply wp_bind. simpl in HS. eapply wp_palloc; [exact HS | |].
    + intros id s1 HS1. apply set_regions_ok. exact HS1.
    + intros s1 HS1. apply wp_ret. simpl. auto.
Qed.

Lemma sys_cleanup_ok cur dir s T0 L K P F (Q : unit -> st -> Prop) :
  PSt s (mtoks cur ++ mtoks dir ++ T0) L K P F ->
  (forall s', PSt s' T0 L K P F -> Q tt s') -> wp (sys_cleanup cur dir) Q s.
Proof.
  intros HS HQ. unfold sys_cleanup. apply wp_bind.
  assert (H1 : forall (Q1 : unit -> st -> Prop),
    (forall s', PSt s' (mtoks dir ++ T0) L K P F -> Q1 tt s') ->
    wp (match cur with Some m => map_free m | None => ret tt end) Q1 s).
  { intros Q1 HQ1. destruct cur as [m|]; [eapply map_free_ok; eauto|apply wp_ret; auto]. }
  apply H1. intros s1 HS1. destruct dir as [m|]; [eapply map_free_ok; eauto|apply wp_ret; auto].
Qed.

(** on complete runs: a layout set-up on an empty system followed by
    sys_cleanup leaves nothing, whatever fails; failure exactly when an
    allocation failed *)
Theorem layout_session_clean rs sch :
  let '(ok, tr, fl) := run (layout_session Head rs) sch in
  clean tr /\ (ok = false <-> fl = true).
Proof.
  unfold run.
  assert (W : wp (layout_session Head rs)
                 (fun ok s' => exists F', St s' [] [] [] F' /\ (ok = false <-> F' = true)) (init sch 0 [])).
  { unfold layout_session. apply wp_bind.
    eapply wp_conseq; [apply (sys_set_layout_owned None None rs _ [] [] [] [] false)|].
    - exists []. split; [constructor|simpl; apply St_init].
    - intros [[[ok cur] dir] leaked] s' [_ HS]. apply wp_bind.
      eapply sys_cleanup_ok; [exact HS|]. intros s2 (Lc & HP & HS2). apply wp_ret.
      apply Permutation_sym, Permutation_nil in HP. subst. simpl in HS2.
      exists (if ok then false else true). split; [exact HS2|]. destruct ok; split; congruence. }
  unfold wp in W. destruct (layout_session Head rs (init sch 0 [])) as [ok s']. cbn [fst snd] in *.
  destruct W as (F' & W & Hok). split; [eapply St_clean; eauto|].
  rewrite (st_failed _ _ _ _ _ W). exact Hok.
Qed.

(** the variant that installs the new map late forgets it when the nested
    direct-map set-up fails *)
Lemma layout_late_witness :
  exists rs n, let '(ok, tr, _) := run (layout_session Late rs) (fail_nth n) in
               ok = false /\ ~ balanced tr.
Proof.
  exists [(Some [true], true)], 3. vm_compute. split; [reflexivity|].
  intros (x & E & Hl). inversion E; subst. discriminate.
Qed.
