(** The interface's one atomicity promise under allocation failure
    (addrxlat_map_set), restated from the C10 theory for C18. *)
From Coq Require Import NArith ZArith List Bool.
From KdV Require Import Base.Wrap64 Map.MapModel Map.MapSpec Map.MapProofs.
Import ListNotations.

Lemma map_set_atomic m a e mm :
  tiles m -> (a + e < W)%N ->
  (snd (step m (OpSet a e mm false)) = OutSet 4 /\ fst (step m (OpSet a e mm false)) = m) \/
  (snd (step m (OpSet a e mm false)) = OutSet 0 /\
   forall y, denote (fst (step m (OpSet a e mm false))) y = set_spec (denote m) a e mm y).
Proof.
  intros Ht Hr. destruct (step_refines m (OpSet a e mm false) Ht Hr) as [_ Hp].
  destruct (step m (OpSet a e mm false)) as [m' x]. cbn [fst snd] in *.
  unfold step_post in Hp. destruct x as [st| |]; try contradiction.
  destruct st as [|p]; [right; auto|].
  destruct p as [p|p|]; try contradiction.
  destruct p as [p|p|]; try contradiction.
  destruct p as [p|p|]; try contradiction.
  left. destruct Hp as [_ ->]. auto.
Qed.

