(** Two open-time owners for C15, as event programs:

    - flatmap_file_init / flatmap_file_cleanup (flatmap.c): the translation map
      and the array of segment offsets of one flattened file;
    - walk_elf_notes (elfdump.c): the file-cache chunk of every PT_NOTE segment
      around the note callback.                                            *)
From Coq Require Import List Bool Arith.
From KdV Require Import Res.Tokens Res.ResModel Res.SysLayout.
Import ListNotations.

(** ** flatmap_file_init *)
(* what the next segment header is: a good segment (and whether registering it
   makes addrxlat_map_set grow its array), the END marker, a bad header
   (negative offset, bad size), an unreadable one *)
Inductive seghdr := SegOk (grow : bool) | SegEnd | SegBad | SegUnreadable.

Record fmapr := { fm_map : option mapr; fm_offs : option nat }.

(* the for (;;) loop.  [local]: the function's flatoffs variable; [inc] = ALLOC_INC;
   [late]: the variant that stores flatoffs into fmap->offs only on the success exit.
   Returns status, the file map, and blocks no longer reachable from it. *)
Fixpoint flat_loop (late : bool) (inc : nat) (segs : list seghdr) (segidx : nat)
         (m : mapr) (offs local : option nat) : M (bool * fmapr * list nat) :=
  let out ok o lk := ret (ok, {| fm_map := Some m; fm_offs := o |}, lk) in
  let lost := if late then SysLayout.optl local else [] in
  match segs with
  | [] => out false offs lost                     (* ran off the file: unreadable header *)
  | SegUnreadable :: _ | SegBad :: _ => out false offs lost
  | SegEnd :: _ => out true (if late then local else offs) []
  | SegOk grow :: rest =>
      r <- (if Nat.eqb (Nat.modulo segidx inc) 0 then
              (* flatoffs = realloc(flatoffs, ..): on failure the variable becomes NULL,
                 the old array stays allocated *)
              a <- realloc S_format_private local ;;
              ret (match a with Some n => (true, Some n) | None => (false, None) end)
            else ret (true, local)) ;;
      if fst r then
        let local' := snd r in
        let offs' := if late then offs else local' in
        ms <- map_set m grow ;;
        match ms with
        | None => ret (false, {| fm_map := Some m; fm_offs := offs' |}, if late then SysLayout.optl local' else [])
        | Some m' => flat_loop late inc rest (S segidx) m' offs' local'
        end
      else
        (* the failed realloc: the old array is still referenced by fmap->offs (Head);
           in the late variant only the overwritten local knew it *)
        ret (false, {| fm_map := Some m; fm_offs := offs |}, if late then SysLayout.optl local else [])
  end.

Definition flatmap_file_init (late : bool) (inc : nat) (segs : list seghdr) : M (bool * fmapr * list nat) :=
  a <- alloc S_format_private ;;
  match a with
  | None => ret (false, {| fm_map := None; fm_offs := None |}, [])
  | Some o => flat_loop late inc segs 0 {| mp_obj := o; mp_ranges := None |} None None
  end.

Definition flatmap_file_cleanup (f : fmapr) : M unit :=
  match fm_map f with Some m => map_free m | None => ret tt end ;;;
  match fm_offs f with Some o => free o | None => ret tt end.

Definition flat_session (late : bool) (inc : nat) (segs : list seghdr) : M bool :=
  r <- flatmap_file_init late inc segs ;;
  flatmap_file_cleanup (snd (fst r)) ;;; ret (fst (fst r)).

(** ** walk_elf_notes *)
(* one PT_NOTE segment: how its chunk is obtained and whether the callback
   accepts the notes *)
Record noteseg := { ns_pol : policy; ns_big : bool; ns_pages : list (getenv * bool); ns_ok : bool }.

(* [put_late]: the variant whose fcache_put_chunk sits below the status check *)
Fixpoint walk_elf_notes (put_late : bool) (segs : list noteseg) : M bool :=
  match segs with
  | [] => ret true
  | sg :: rest =>
      c <- fcache_get_chunk true true (ns_pol sg) (ns_big sg) (ns_pages sg) ;;
      match c with
      | COk g =>
          if put_late then
            if ns_ok sg then fcache_put_chunk g ;;; walk_elf_notes put_late rest else ret false
          else
            fcache_put_chunk g ;;;
            if ns_ok sg then walk_elf_notes put_late rest else ret false
      | _ => ret false
      end
  end.
