(** Proofs for the resource-owner models of ResModel.v (C15) *)
From Coq Require Import List Bool Arith PeanoNat Lia.
From KdV Require Import Res.Tokens Res.TokensProofs Res.ResModel.
Import ListNotations.

(** ** fcache_get (repaired): success = exactly one reference on the returned
    entry; any failure = nothing held *)
Lemma fcache_get_mmap_ok env s L K P F (Q : gstatus -> st -> Prop) :
  St s L K P F ->
  (forall e s', St s' L K (e :: P) F -> Q (GOk e) s') ->
  (forall g s', is_ok g = false -> St s' L K P F -> Q g s') ->
  wp (fcache_get_mmap true env) Q s.
Proof.
  intros HS Hok Hf. unfold fcache_get_mmap. destruct (g_eof env).
  - apply wp_ret. apply Hf; auto.
  - destruct (g_mlook env) as [|e v].
    + apply wp_ret. apply Hf; auto.
    + destruct (g_mmap_ok env); wp_go.
      * apply Hok. assumption.
      * apply Hf; auto.
Qed.

Lemma fcache_get_read_ok env s L K P F (Q : gstatus -> st -> Prop) :
  St s L K P F ->
  (forall e s', St s' L K (e :: P) F -> Q (GOk e) s') ->
  (forall g s', is_ok g = false -> St s' L K P F -> Q g s') ->
  wp (fcache_get_read env) Q s.
Proof.
  intros HS Hok Hf. unfold fcache_get_read. destruct (g_rlook env) as [|e v].
  - apply wp_ret. apply Hf; auto.
  - destruct v; [|destruct (g_pread_ok env)]; wp_go.
    + apply Hok. assumption.
    + apply Hok. assumption.
    + apply Hf; auto.
Qed.

Lemma fcache_get_ok pol env s L K P F (Q : gstatus -> st -> Prop) :
  St s L K P F ->
  (forall e s', St s' L K (e :: P) F -> Q (GOk e) s') ->
  (forall g s', is_ok g = false -> St s' L K P F -> Q g s') ->
  wp (fcache_get true pol env) Q s.
Proof.
  intros HS Hok Hf. unfold fcache_get. destruct pol; cbn beta iota.
  - eapply fcache_get_read_ok; eassumption.
  - apply wp_bind; eapply fcache_get_mmap_ok; [eassumption | |].
    + intros e s' HS'; cbn [is_ok orb]; apply wp_ret; apply Hok; assumption.
    + intros g s' Hg HS'. rewrite Hg. cbn [orb]. apply wp_ret. apply Hf; assumption.
  - apply wp_bind; eapply fcache_get_mmap_ok; [eassumption | |].
    + intros e s' HS'; cbn [is_ok orb]; apply wp_ret; apply Hok; assumption.
    + intros g s' Hg HS'. rewrite Hg. cbn [orb]. eapply fcache_get_read_ok; eassumption.
Qed.

(** the pinned mmap path keeps the reference when the mapping failed *)
Lemma fcache_get_mmap_pinned_witness :
  exists env, let '(r, s) := fcache_get_mmap false env (init [] 0 []) in
              is_ok r = false /\ exists x, summary s = Some x /\ pins x <> [].
Proof.
  exists {| g_eof := false; g_mlook := Entry 7 false; g_mmap_ok := false;
            g_rlook := Busy; g_pread_ok := true |}.
  vm_compute. split; [reflexivity|]. eexists. split; [reflexivity|discriminate].
Qed.

(** ** unpin_all *)
Lemma unpin_all_ok es : forall s L K P F (Q : unit -> st -> Prop),
  St s L K (es ++ P) F -> (forall s', St s' L K P F -> Q tt s') -> wp (unpin_all es) Q s.
Proof.
  induction es as [| e es IH]; intros s L K P F Q HS HQ; simpl.
  - apply wp_ret. auto.
  - simpl in HS. wp_go. eapply IH; eauto.
Qed.

Lemma unpin_all_under x es : forall s L K P F (Q : unit -> st -> Prop),
  St s L K (x :: es ++ P) F -> (forall s', St s' L K (x :: P) F -> Q tt s') -> wp (unpin_all es) Q s.
Proof.
  induction es as [| e es IH]; intros s L K P F Q HS HQ; simpl.
  - apply wp_ret. auto.
  - simpl in HS. wp_go. eapply IH; eauto.
Qed.

(** ** fcache_get_chunk / fcache_put_chunk *)
Definition gblocks (g : geom) : list nat :=
  match g with Array f _ => [f] | Copied d => [d] | _ => [] end.
Definition gpins (g : geom) : list nat :=
  match g with Array _ es | Embedded es => es | _ => [] end.
Definition optl (o : option nat) : list nat := match o with Some x => [x] | None => [] end.

Definition chunk_post (L K P : list nat) (r : cres) (s' : st) : Prop :=
  match r with
  | COk g => exists F', St s' (gblocks g ++ L) K (gpins g ++ P) F'
  | CErr => exists F', St s' L K P F'
  | COob => False
  end.

Lemma free_opt_ok o s L K P F (Q : unit -> st -> Prop) :
  St s (optl o ++ L) K P F -> (forall s', St s' L K P F -> Q tt s') -> wp (free_opt o) Q s.
Proof.
  intros HS HQ. destruct o; simpl in *.
  - wp_go. auto.
  - apply wp_ret. auto.
Qed.

Lemma free_opt_under x o s L K P F (Q : unit -> st -> Prop) :
  St s (x :: optl o ++ L) K P F -> (forall s', St s' (x :: L) K P F -> Q tt s') -> wp (free_opt o) Q s.
Proof.
  intros HS HQ. destruct o; simpl in *.
  - wp_go. auto.
  - apply wp_ret. auto.
Qed.

(* once the data has been copied out: only the buffer is owned *)
Lemma chunk_loop_copied pol big pages : forall d fd s L K P F,
  St s (d :: L) K P F ->
  wp (chunk_loop true true pol big pages None fd [] (Some d)) (chunk_post L K P) s.
Proof.
  induction pages as [| [env contig] rest IH]; intros d fd s L K P F HS; cbn [chunk_loop].
  - apply wp_ret. simpl. eauto.
  - apply wp_bind. eapply fcache_get_ok; [eassumption | |].
    + intros e s' HS'. cbn beta iota. clear HS. rename HS' into HS. wp_go. eapply IH; eauto.
    + intros g s' Hg HS'. destruct g; try discriminate; cbn beta iota;
        clear HS; rename HS' into HS; wp_go; simpl; eauto.
Qed.

Lemma chunk_loop_array pol big pages : forall fces held s L K P F,
  (big = false -> length held + length pages <= 2) ->
  (big = true -> fces <> None) ->
  St s (optl fces ++ L) K (held ++ P) F ->
  wp (chunk_loop true true pol big pages fces None held None) (chunk_post L K P) s.
Proof.
  induction pages as [| [env contig] rest IH]; intros fces held s L K P F Hb Hf HS; cbn [chunk_loop].
  - destruct (2 <? length held) eqn:E.
    + destruct fces as [f|].
      * apply wp_ret. simpl in *. eauto.
      * destruct big; [now elim (Hf eq_refl)|]. specialize (Hb eq_refl). simpl in Hb.
        apply Nat.ltb_lt in E. lia.
    + apply wp_bind. eapply free_opt_ok; [eassumption|]. intros s' HS'. apply wp_ret. simpl. eauto.
  - apply wp_bind. eapply fcache_get_ok; [eassumption | |].
    + intros e s' HS'. cbn beta iota.
      destruct (match held with [] => true | _ :: _ => contig end).
      * destruct (negb big && (2 <=? length held)) eqn:E.
        -- apply andb_true_iff in E. destruct E as [E1 E2]. destruct big; [discriminate|].
           specialize (Hb eq_refl). apply Nat.leb_le in E2. simpl in Hb. lia.
        -- eapply (IH fces (e :: held)); [| exact Hf | exact HS'].
           intros Hbig. specialize (Hb Hbig). simpl in *. lia.
      * clear HS. rename HS' into HS. wp_go.
        -- (* the copy-out buffer was allocated *)
           eapply (unpin_all_under e held); [eassumption|]. intros s2 HS2. apply wp_bind.
           eapply (free_opt_under id fces); [eassumption|]. intros s3 HS3.
           clear HS. rename HS3 into HS. wp_go. eapply chunk_loop_copied. eassumption.
        -- (* the allocation failed: every entry is put, the array freed *)
           eapply (unpin_all_ok (e :: held)); [simpl; eassumption|]. intros s2 HS2. apply wp_bind.
           eapply free_opt_ok; [eassumption|]. intros s3 HS3. apply wp_ret. simpl. eauto.
    + intros g s' Hg HS'. destruct g; try discriminate; cbn beta iota;
        (apply wp_bind; eapply (unpin_all_ok held); [eassumption|]; intros s2 HS2; apply wp_bind;
         eapply free_opt_ok; [eassumption|]; intros s3 HS3; apply wp_ret; simpl; eauto).
Qed.

Theorem chunk_get_put_balanced pol big pages s L K P F :
  (big = false -> length pages <= 2) ->
  St s L K P F ->
  wp (fcache_get_chunk true true pol big pages) (chunk_post L K P) s.
Proof.
  intros Hb HS. unfold fcache_get_chunk. destruct pages as [| pg pages].
  - apply wp_ret. simpl. eauto.
  - destruct big.
    + wp_go.
      * eapply (chunk_loop_array pol true (pg :: pages) (Some id) []).
        -- discriminate.
        -- intros _ Hc. discriminate.
        -- simpl. eassumption.
      * simpl. eauto.
    + eapply (chunk_loop_array pol false (pg :: pages) None []).
      * intros _. simpl in *. auto.
      * discriminate.
      * simpl. eassumption.
Qed.

Lemma put_chunk_releases g s L K P F :
  St s (gblocks g ++ L) K (gpins g ++ P) F ->
  wp (fcache_put_chunk g) (fun _ s' => St s' L K P F) s.
Proof.
  intros HS. destruct g as [es|f es|d|]; simpl in *.
  - eapply unpin_all_ok; eauto.
  - apply wp_bind. eapply unpin_all_ok; [eassumption|]. intros s' HS'. clear HS. rename HS' into HS.
    wp_go. assumption.
  - wp_go. assumption.
  - apply wp_ret. assumption.
Qed.

(** the pinned error path of fcache_get_chunk: a discontiguous three-page chunk
    whose third fcache_get fails frees the entry array twice and loses the
    data buffer *)
Definition page_ok (e : nat) : getenv :=
  {| g_eof := false; g_mlook := Entry e false; g_mmap_ok := true; g_rlook := Busy; g_pread_ok := true |}.
Definition page_bad : getenv :=
  {| g_eof := false; g_mlook := Busy; g_mmap_ok := true; g_rlook := Busy; g_pread_ok := true |}.

Lemma chunk_pinned_witness :
  exists pages,
    let '(r, s) := fcache_get_chunk false true PAlways true pages (init [] 0 []) in
    r = CErr /\ summary s = None.
Proof.
  exists [(page_ok 1, true); (page_ok 2, false); (page_bad, false)].
  vm_compute. split; reflexivity.
Qed.

(** ** the addrxlat read cache *)
From Coq Require Import Permutation.

Lemma In_Remove x l : In x l -> exists l', Remove x l l'.
Proof.
  induction l as [| y l IH]; simpl; intros H; [contradiction|].
  destruct H as [->|H]; [eexists; constructor|].
  destruct (IH H) as [l' Hl]. eexists. constructor. exact Hl.
Qed.

Lemma Remove_app_l x l l' r : Remove x l l' -> Remove x (l ++ r) (l' ++ r).
Proof. induction 1; simpl; constructor; auto. Qed.

Lemma Remove_perm x l l' : Remove x l l' -> Permutation l (x :: l').
Proof.
  induction 1; [reflexivity|]. rewrite IHRemove. apply perm_swap.
Qed.

Lemma perm_RemoveAll xs : forall Lc L, Permutation Lc xs -> RemoveAll xs (Lc ++ L) L.
Proof.
  induction xs as [| x xs IH]; intros Lc L HP.
  - apply Permutation_sym, Permutation_nil in HP. subst. constructor.
  - assert (Hin : In x Lc) by (eapply Permutation_in; [apply Permutation_sym; exact HP|left; reflexivity]).
    destruct (In_Remove _ _ Hin) as [Lc' HR].
    econstructor; [apply Remove_app_l; exact HR|]. apply IH.
    apply Remove_perm in HR. rewrite HR in HP. eapply Permutation_cons_inv. exact HP.
Qed.

Lemma find_slot_perm a l x r : find_slot a l = Some (x, r) -> Permutation l (x :: r).
Proof.
  revert x r. induction l as [| s l IH]; simpl; intros x r H; [discriminate|].
  destruct (Nat.eqb (sl_addr s) a).
  - inversion H; subst. reflexivity.
  - destruct (find_slot a l) as [[y r']|]; [|discriminate]. inversion H; subst.
    rewrite (IH _ _ eq_refl). apply perm_swap.
Qed.

Lemma find_slot_length a l x r : find_slot a l = Some (x, r) -> length l = S (length r).
Proof.
  revert x r. induction l as [| s l IH]; simpl; intros x r H; [discriminate|].
  destruct (Nat.eqb (sl_addr s) a).
  - inversion H; subst. reflexivity.
  - destruct (find_slot a l) as [[y r']|]; [|discriminate]. inversion H; subst.
    simpl. f_equal. eapply IH. reflexivity.
Qed.

Definition rc_inv (slots : list slot) (L K P : list nat) (s : st) : Prop :=
  exists Lc F, Permutation Lc (map sl_buf slots) /\ St s (Lc ++ L) K P F.

Lemma addrxlat_get_page_ok pr s L K P F (Q : option nat -> st -> Prop) :
  St s L K P F ->
  (forall buf s', St s' (buf :: L) K P F -> Q (Some buf) s') ->
  (forall s' F', St s' L K P F' -> Q None s') ->
  wp (addrxlat_get_page pr) Q s.
Proof.
  intros HS Hok Hf. unfold addrxlat_get_page. wp_go.
  - destruct pr; wp_go.
    + apply Hok. assumption.
    + eapply Hf. eassumption.
  - eapply Hf. eassumption.
Qed.

Lemma removelast_last_perm (l : list slot) d : l <> [] -> Permutation l (last l d :: removelast l).
Proof.
  intros H. rewrite (app_removelast_last d H) at 1. apply Permutation_sym, Permutation_cons_append.
Qed.

Lemma get_cache_buf_ok nslots slots a pr s L K P (Q : bool * list slot -> st -> Prop) :
  0 < nslots -> length slots <= nslots ->
  rc_inv slots L K P s ->
  (forall r s', rc_inv (snd r) L K P s' -> length (snd r) <= nslots -> Q r s') ->
  wp (get_cache_buf nslots slots a pr) Q s.
Proof.
  intros Hn Hl (Lc & F & HP & HS) HQ. unfold get_cache_buf.
  destruct (find_slot a slots) as [[x r]|] eqn:Ef.
  - apply wp_ret. apply HQ; cbn [snd].
    + exists Lc, F. split; [|exact HS]. rewrite HP. apply Permutation_map. eapply find_slot_perm; eauto.
    + apply find_slot_length in Ef. simpl. lia.
  - destruct (length slots <? nslots) eqn:El.
    + apply Nat.ltb_lt in El. apply wp_bind. apply wp_ret. apply wp_bind.
      eapply addrxlat_get_page_ok; [eassumption | |].
      * intros buf s' HS'. apply wp_ret. apply HQ; cbn [snd]; [|simpl; lia].
        exists (buf :: Lc), F. split; [simpl; constructor; exact HP|exact HS'].
      * intros s' F' HS'. apply wp_ret. apply HQ; cbn [snd]; [|lia]. exists Lc, F'. auto.
    + apply Nat.ltb_ge in El.
      assert (Hne : slots <> []) by (destruct slots; simpl in *; [lia|discriminate]).
      set (d := {| sl_addr := 0; sl_buf := 0 |}).
      pose proof (removelast_last_perm slots d Hne) as Hperm.
      assert (HP' : Permutation Lc (sl_buf (last slots d) :: map sl_buf (removelast slots))).
      { rewrite HP. change (sl_buf (last slots d) :: map sl_buf (removelast slots))
          with (map sl_buf (last slots d :: removelast slots)). apply Permutation_map. exact Hperm. }
      assert (Hin : In (sl_buf (last slots d)) Lc)
        by (eapply Permutation_in; [apply Permutation_sym; exact HP'|left; reflexivity]).
      destruct (In_Remove _ _ Hin) as [Lc' HR].
      assert (HPc : Permutation Lc' (map sl_buf (removelast slots))).
      { apply Remove_perm in HR. rewrite HR in HP'. eapply Permutation_cons_inv. exact HP'. }
      assert (Hlen : length (removelast slots) < nslots).
      { rewrite (app_removelast_last d Hne) in Hl. rewrite app_length in Hl. simpl in Hl. lia. }
      apply wp_bind. eapply wp_free; [eassumption | apply Remove_app_l; exact HR |].
      intros s1 HS1. apply wp_bind.
      eapply addrxlat_get_page_ok; [eassumption | |].
      * intros buf s' HS'. apply wp_ret. apply HQ; cbn [snd]; [|simpl; lia].
        exists (buf :: Lc'), F. split; [simpl; constructor; exact HPc|exact HS'].
      * intros s' F' HS'. apply wp_ret. apply HQ; cbn [snd]; [|lia]. exists Lc', F'. auto.
Qed.

Lemma readcache_ops_ok nslots ops : forall slots s L K P (Q : list slot -> st -> Prop),
  0 < nslots -> length slots <= nslots ->
  rc_inv slots L K P s ->
  (forall slots' s', rc_inv slots' L K P s' -> Q slots' s') ->
  wp (readcache_ops nslots slots ops) Q s.
Proof.
  induction ops as [| [a pr] rest IH]; intros slots s L K P Q Hn Hl Hinv HQ; cbn [readcache_ops].
  - apply wp_ret. auto.
  - apply wp_bind. eapply get_cache_buf_ok; eauto.
Qed.

Theorem readcache_pages_returned nslots ops s L K P F :
  0 < nslots -> St s L K P F ->
  wp (slots <- readcache_ops nslots [] ops ;; cleanup_cache slots)
     (fun _ s' => exists F', St s' L K P F') s.
Proof.
  intros Hn HS. apply wp_bind. eapply readcache_ops_ok; [exact Hn | simpl; lia | |].
  - exists [], F. split; [constructor|exact HS].
  - intros slots' s' (Lc & F' & HP & HS'). unfold cleanup_cache.
    eapply wp_free_all; [eassumption | apply perm_RemoveAll; exact HP |]. eauto.
Qed.

(** ** diskdump private data *)
Definition dd_toks (p : ddpriv) : list nat := dd_pdmap p ++ optl (dd_mempagemap p) ++ [dd_id p].

Lemma dd_op_ok p o s L K P F (Q : bool * ddpriv -> st -> Prop) :
  (exists Lc, Permutation Lc (dd_toks p) /\ St s (Lc ++ L) K P F) ->
  (forall r s' F', (exists Lc, Permutation Lc (dd_toks (snd r)) /\ St s' (Lc ++ L) K P F') -> Q r s') ->
  wp (dd_op p o) Q s.
Proof.
  intros (Lc & HP & HS) HQ. destruct o; unfold dd_op.
  - wp_go.
    + eapply HQ. exists (id :: Lc). split; [|eassumption]. unfold dd_toks in *. cbn [dd_pdmap dd_mempagemap dd_id snd].
      simpl. constructor. exact HP.
    + eapply HQ. exists Lc. split; [exact HP|eassumption].
  - destruct (dd_mempagemap p) as [m|] eqn:Em.
    + apply wp_ret. eapply HQ. exists Lc. eauto.
    + wp_go.
      * eapply HQ. exists (id :: Lc). split; [|eassumption]. unfold dd_toks in *.
        cbn [dd_pdmap dd_mempagemap dd_id snd]. rewrite Em in HP. simpl in *.
        rewrite HP. apply Permutation_middle.
      * eapply HQ. exists Lc. split; [exact HP|eassumption].
Qed.

Lemma dd_ops_ok ops : forall p s L K P F (Q : ddpriv -> st -> Prop),
  (exists Lc, Permutation Lc (dd_toks p) /\ St s (Lc ++ L) K P F) ->
  (forall p' s' F', (exists Lc, Permutation Lc (dd_toks p') /\ St s' (Lc ++ L) K P F') -> Q p' s') ->
  wp (dd_ops p ops) Q s.
Proof.
  induction ops as [| o rest IH]; intros p s L K P F Q Hinv HQ; cbn [dd_ops].
  - apply wp_ret. eapply HQ. eassumption.
  - apply wp_bind. eapply dd_op_ok; [eassumption|]. intros r s' F' Hinv'. eapply IH; eauto.
Qed.

Lemma perm_RemoveAll_part xs : forall Lc rest L,
  Permutation Lc (xs ++ rest) ->
  exists Lc', RemoveAll xs (Lc ++ L) (Lc' ++ L) /\ Permutation Lc' rest.
Proof.
  induction xs as [| x xs IH]; intros Lc rest L HP.
  - exists Lc. split; [constructor|exact HP].
  - assert (Hin : In x Lc) by (eapply Permutation_in; [apply Permutation_sym; exact HP|left; reflexivity]).
    destruct (In_Remove _ _ Hin) as [Lc1 HR].
    assert (HP1 : Permutation Lc1 (xs ++ rest)).
    { apply Remove_perm in HR. rewrite HR in HP. simpl in HP. eapply Permutation_cons_inv. exact HP. }
    destruct (IH Lc1 rest L HP1) as (Lc' & HRA & HP').
    exists Lc'. split; [|exact HP']. econstructor; [apply Remove_app_l; exact HR|exact HRA].
Qed.

Lemma free_opt_eq o s : free_opt o s = free_all (optl o) s.
Proof. destruct o; simpl; [|reflexivity]. unfold bind, free, emit, ret. reflexivity. Qed.

Lemma free_eq x s : free x s = free_all [x] s.
Proof. simpl. unfold bind, free, emit, ret. reflexivity. Qed.

Theorem format_cleanup_frees_all ops s L K P F :
  St s L K P F ->
  wp (dd_session true ops) (fun _ s' => exists F', St s' L K P F') s.
Proof.
  intros HS. unfold dd_session. wp_go; [|eauto].
  eapply dd_ops_ok.
  - exists [id]. split; [reflexivity|simpl; eassumption].
  - intros p' s' F' (Lc & HP & HS'). unfold diskdump_cleanup, dd_toks in *.
    destruct (perm_RemoveAll_part _ _ _ L HP) as (Lc1 & HR1 & HP1).
    apply wp_bind. apply wp_bind.
    eapply wp_free_all; [eassumption | exact HR1 |]. intros s1 HS1.
    destruct (perm_RemoveAll_part _ _ _ L HP1) as (Lc2 & HR2 & HP2).
    apply wp_bind. eapply wp_eq; [apply free_opt_eq|].
    eapply wp_free_all; [eassumption | exact HR2 |]. intros s2 HS2.
    eapply wp_eq; [apply free_eq|].
    eapply wp_free_all; [eassumption | apply perm_RemoveAll; exact HP2 |].
    intros s3 HS3. apply wp_ret. eauto.
Qed.

(* the pinned cleanup forgets mem_pagemap.regions *)
Lemma format_cleanup_pinned_witness :
  exists ops, let '(_, tr, _) := run (dd_session false ops) [] in ~ balanced tr.
Proof.
  exists [DdRevalidatePagemap]. vm_compute. intros (x & E & Hl). inversion E; subst. discriminate.
Qed.

(** ** set_attr: exactly one owner for the new value, whatever the hooks do,
    whether or not the new and the old value are dynamically allocated *)
Theorem set_attr_owns_value old newv pre_ok post_ok s L K P F :
  St s (optl newv ++ optl old ++ L) K P F ->
  wp (set_attr false old newv pre_ok post_ok)
     (fun r s' => St s' (optl (snd r) ++ L) K P F /\
                  (pre_ok = true -> snd r = newv) /\ (pre_ok = false -> snd r = old) /\
                  (fst r = true -> pre_ok = true /\ post_ok = true)) s.
Proof.
  intros HS. unfold set_attr. destruct pre_ok.
  - apply wp_bind. destruct old as [o|]; destruct newv as [n|]; simpl in *.
    + wp_go. cbn [fst snd optl app]. split; [assumption|]. split; [reflexivity|]. split; [discriminate|].
      intros ->. auto.
    + wp_go. cbn [fst snd optl app]. split; [assumption|]. split; [reflexivity|]. split; [discriminate|].
      intros ->. auto.
    + apply wp_ret. apply wp_ret. cbn [fst snd optl app]. split; [assumption|]. split; [reflexivity|].
      split; [discriminate|]. intros ->. auto.
    + apply wp_ret. apply wp_ret. cbn [fst snd optl app]. split; [assumption|]. split; [reflexivity|].
      split; [discriminate|]. intros ->. auto.
  - apply wp_bind. destruct newv as [n|]; simpl in *.
    + wp_go. cbn [fst snd]. split; [assumption|]. split; [discriminate|]. split; [reflexivity|]. discriminate.
    + apply wp_ret. apply wp_ret. cbn [fst snd]. split; [assumption|]. split; [discriminate|].
      split; [reflexivity|]. discriminate.
Qed.

(* looking at the old value's flags loses a rejected dynamic value when the
   attribute had no dynamic value before *)
Lemma set_attr_by_old_flags_witness :
  let '(r, tr, _) := run (n <- alloc S_value ;;
                          match n with
                          | Some v => x <- set_attr true None (Some v) false true ;; free_opt (snd x) ;;; ret (fst x)
                          | None => ret false
                          end) [] in
  r = false /\ ~ balanced tr.
Proof.
  vm_compute. split; [reflexivity|]. intros (x & E & Hl). inversion E; subst. discriminate.
Qed.

(** ** diskdump_read_page: every exit gives the chunk back *)
Lemma pread_pages_ok pol pages : forall s L K P F (Q : bool -> st -> Prop),
  St s L K P F -> (forall b s', St s' L K P F -> Q b s') -> wp (pread_pages pol pages) Q s.
Proof.
  induction pages as [| env rest IH]; intros s L K P F Q HS HQ; cbn [pread_pages].
  - apply wp_ret. auto.
  - apply wp_bind. eapply fcache_get_ok; [eassumption | |].
    + intros e s' HS'. cbn beta iota. clear HS. rename HS' into HS. wp_go. eapply IH; eauto.
    + intros g s' Hg HS'. destruct g; try discriminate; cbn beta iota; apply wp_ret; auto.
Qed.

Lemma read_page_tail_ok g m compiled r s L K P F :
  St s (gblocks g ++ L) K (gpins g ++ P) F ->
  wp (read_page_tail false g m compiled r) (fun _ s' => St s' L K P F) s.
Proof.
  intros HS. unfold read_page_tail.
  assert (Hput : forall b : bool, wp (fcache_put_chunk g ;;; ret b) (fun (_ : bool) s' => St s' L K P F) s).
  { intros b. apply wp_bind. eapply wp_conseq; [exact (put_chunk_releases g _ _ _ _ _ HS)|].
    intros [] s' HS'. apply wp_ret. exact HS'. }
  destruct m; [apply Hput| | |]; destruct compiled; try apply Hput; destruct r; apply Hput.
Qed.

Theorem diskdump_page_exits_balanced pol big pages compressed m compiled r s L K P F :
  (big = false -> length pages <= 2) ->
  St s L K P F ->
  wp (diskdump_read_page false pol big pages compressed m compiled r)
     (fun _ s' => exists F', St s' L K P F') s.
Proof.
  intros Hb HS. unfold diskdump_read_page. destruct compressed.
  - apply wp_bind. eapply wp_conseq; [exact (chunk_get_put_balanced pol big pages _ _ _ _ _ Hb HS)|].
    intros [g| |] s' HQ; simpl in HQ.
    + destruct HQ as [F' HS']. eapply wp_conseq; [exact (read_page_tail_ok g m compiled r _ _ _ _ _ HS')|].
      intros b s2 HS2. exists F'. exact HS2.
    + apply wp_ret. exact HQ.
    + contradiction.
  - eapply pread_pages_ok; [eassumption|]. eauto.
Qed.

(* the variant with the early return keeps the chunk of a well-formed zstd
   stream of the wrong size *)
Lemma diskdump_page_early_return_witness :
  exists pages,
    let '(r, s) := diskdump_read_page true PNever false pages true MZstd true DecWrongSize (init [] 0 []) in
    r = false /\ exists x, summary s = Some x /\ pins x <> [].
Proof.
  exists [({| g_eof := false; g_mlook := Busy; g_mmap_ok := true; g_rlook := Entry 3 false; g_pread_ok := true |}, true)].
  vm_compute. split; [reflexivity|]. eexists. split; [reflexivity|discriminate].
Qed.

(** ** statements on complete runs *)
Lemma fcache_get_post pol env s L K P F :
  St s L K P F ->
  wp (fcache_get true pol env)
     (fun r s' => match r with GOk e => St s' L K (e :: P) F | _ => St s' L K P F end) s.
Proof.
  intros HS. eapply fcache_get_ok; [eassumption | |].
  - intros e s' HS'. exact HS'.
  - intros g s' Hg HS'. destruct g; try discriminate; exact HS'.
Qed.

Lemma chunk_roundtrip pol big pages sch :
  (big = false -> length pages <= 2) ->
  let '(r, tr, _) := run (r <- fcache_get_chunk true true pol big pages ;;
                          match r with COk g => fcache_put_chunk g ;;; ret r | _ => ret r end) sch in
  clean tr /\ r <> COob.
Proof.
  intros Hb. unfold run.
  assert (W : wp (r <- fcache_get_chunk true true pol big pages ;;
                  match r with COk g => fcache_put_chunk g ;;; ret r | _ => ret r end)
                 (fun r s' => (exists F', St s' [] [] [] F') /\ r <> COob) (init sch 0 [])).
  { apply wp_bind. eapply wp_conseq; [exact (chunk_get_put_balanced pol big pages _ _ _ _ _ Hb (St_init sch))|].
    intros [g| |] s' HQ; simpl in HQ.
    - destruct HQ as [F' HS]. apply wp_bind. eapply wp_conseq; [exact (put_chunk_releases g _ _ _ _ _ HS)|].
      intros [] s2 HS2. apply wp_ret. split; [eauto|discriminate].
    - apply wp_ret. split; [exact HQ|discriminate].
    - contradiction. }
  unfold wp in W.
  destruct ((r <- fcache_get_chunk true true pol big pages ;;
             match r with COk g => fcache_put_chunk g ;;; ret r | _ => ret r end) (init sch 0 [])) as [r s'].
  cbn [fst snd] in *. destruct W as [[F' W] Hr]. split; [eapply St_clean; eauto|exact Hr].
Qed.

Lemma readcache_run nslots ops sch :
  0 < nslots ->
  let '(_, tr, _) := run (slots <- readcache_ops nslots [] ops ;; cleanup_cache slots) sch in clean tr.
Proof.
  intros Hn. unfold run.
  pose proof (readcache_pages_returned nslots ops _ _ _ _ _ Hn (St_init sch)) as W. unfold wp in W.
  destruct ((slots <- readcache_ops nslots [] ops ;; cleanup_cache slots) (init sch 0 [])) as [u s'].
  cbn [fst snd] in *. destruct W as [F' W]. eapply St_clean; eauto.
Qed.

Lemma dd_session_run ops sch :
  let '(_, tr, _) := run (dd_session true ops) sch in clean tr.
Proof.
  unfold run. pose proof (format_cleanup_frees_all ops _ _ _ _ _ (St_init sch)) as W. unfold wp in W.
  destruct (dd_session true ops (init sch 0 [])) as [u s']. cbn [fst snd] in *.
  destruct W as [F' W]. eapply St_clean; eauto.
Qed.

Lemma diskdump_page_run pol big pages compressed m compiled r sch :
  (big = false -> length pages <= 2) ->
  let '(_, tr, _) := run (diskdump_read_page false pol big pages compressed m compiled r) sch in clean tr.
Proof.
  intros Hb. unfold run.
  pose proof (diskdump_page_exits_balanced pol big pages compressed m compiled r _ _ _ _ _ Hb (St_init sch)) as W.
  unfold wp in W.
  destruct (diskdump_read_page false pol big pages compressed m compiled r (init sch 0 [])) as [u s'].
  cbn [fst snd] in *. destruct W as [F' W]. eapply St_clean; eauto.
Qed.
