(** Event-program model of open_dump (open.c) as repaired by
    fixes/100-reopen-releases-first-format, for C15 / C18.

    A context's shared state owns: the blocks of the current file format
    (private data, PFN maps, per-context buffers of every context, the page
    cache), the file cache and the flattened-dump map.  open_dump
      - tears the current format down if there is one ([teardown]; the pinned
        code skipped this step),
      - frees the old flattened map and file cache, allocates new ones,
      - probes the formats in turn: a probe allocates its blocks (all or
        nothing: a format's probe cleans up after itself) and accepts,
        declines (NOPROBE) or fails; after anything but acceptance the format
        is reset.                                                            *)
From Coq Require Import List Bool Arith.
From KdV Require Import Res.Tokens.
Import ListNotations.

Inductive verdict := VOk | VNoProbe | VFail.

Record ost := { o_fmt : list nat; o_fcache : list nat; o_flat : list nat }.
Definition stoks (s : ost) : list nat := o_fmt s ++ o_fcache s ++ o_flat s.
Definition closed : ost := {| o_fmt := []; o_fcache := []; o_flat := [] |}.

(* n allocations, all or nothing *)
Fixpoint alloc_group (site : site) (n : nat) (acc : list nat) : M (option (list nat)) :=
  match n with
  | 0 => ret (Some acc)
  | S k =>
      a <- alloc site ;;
      match a with
      | None => free_all acc ;;; ret None
      | Some id => alloc_group site k (id :: acc)
      end
  end.

(* the loop over the format probes; [fc], [fl]: the new file cache and flatmap *)
Fixpoint probe_loop (fc fl : list nat) (probes : list (nat * verdict)) : M (bool * ost) :=
  match probes with
  | [] => (* "Unknown file format" *) ret (false, {| o_fmt := []; o_fcache := fc; o_flat := fl |})
  | (n, v) :: rest =>
      p <- alloc_group S_format_private n [] ;;
      match p with
      | None => ret (false, {| o_fmt := []; o_fcache := fc; o_flat := fl |})
      | Some toks =>
          match v with
          | VOk => ret (true, {| o_fmt := toks; o_fcache := fc; o_flat := fl |})
          | VNoProbe => free_all toks ;;; probe_loop fc fl rest          (* reset_format *)
          | VFail => free_all toks ;;; ret (false, {| o_fmt := []; o_fcache := fc; o_flat := fl |})
          end
      end
  end.

Definition open_dump (teardown : bool) (s : ost) (nfc : nat) (probes : list (nat * verdict))
  : M (bool * ost) :=
  (* reset_format of the dump that is open *)
  (if teardown then free_all (o_fmt s) else ret tt) ;;;
  let fmt0 := if teardown then [] else o_fmt s in
  (* flatmap_free, fcache_decref *)
  free_all (o_flat s) ;;; free_all (o_fcache s) ;;;
  fc <- alloc_group S_fcache_new nfc [] ;;
  match fc with
  | None => ret (false, {| o_fmt := fmt0; o_fcache := []; o_flat := [] |})
  | Some fct =>
      fl <- alloc_group S_format_private 1 [] ;;       (* flatmap_alloc *)
      match fl with
      | None => ret (false, {| o_fmt := fmt0; o_fcache := fct; o_flat := [] |})
      | Some flt =>
          if teardown then probe_loop fct flt probes
          else
            (* pinned: shared->ops / fmtdata are simply overwritten by the probes *)
            r <- probe_loop fct flt probes ;; ret r
      end
  end.

(* kdump_free of the last context: shared_free *)
Definition close_dump (s : ost) : M unit :=
  free_all (o_fmt s) ;;; free_all (o_flat s) ;;; free_all (o_fcache s).

(* any number of opens on one context, then free *)
Fixpoint open_many (teardown : bool) (s : ost) (opens : list (nat * list (nat * verdict))) : M ost :=
  match opens with
  | [] => ret s
  | (nfc, probes) :: rest =>
      r <- open_dump teardown s nfc probes ;;
      open_many teardown (snd r) rest
  end.

Definition session (teardown : bool) (opens : list (nat * list (nat * verdict))) : M unit :=
  s <- open_many teardown closed opens ;; close_dump s.
