(** Event programs: the small framework in which the resource behaviour of
    constructor / unwind paths is modelled (C15, C18).

    A program is a Gallina function in the monad [M]: it consumes the
    allocation-failure schedule (one [bool] per allocator call, [true] =
    the call succeeds; an exhausted schedule means "succeeds") and appends
    events to a trace:

      Alloc site id   a successful malloc/calloc/realloc/strdup at [site];
                      [id] is fresh (the identity of the block)
      AllocFail site  the allocator call that was failed
      Free id         free() of block [id]
      Lock k l / Unlock l     lock events ([k]: Rd, Wr, Mtx)
      Pin o / Unpin o  a reference taken / dropped on a pre-existing
                      reference-counted object or cache entry [o]

    [replay] folds a trace into a summary (blocks alive, locks held,
    references held) and is undefined ([None]) for a trace that frees a block
    that is not alive (double / invalid free), unlocks a lock that is not
    held or drops a reference that is not held.  The properties are stated
    on summaries:
      [balanced]      every block allocated was freed, nothing invalid
      [no_lock_held]  every lock taken was released
      [no_pin_held]   every reference taken was dropped                  *)
From Coq Require Import List Bool Arith PeanoNat.
Import ListNotations.

(** Allocation call sites of the modelled C functions (the C side reports the
    same names: file-local function that contains the allocator call). *)
Inductive site :=
| S_alloc_ctx            (* context.c alloc_ctx: calloc(kdump_ctx_t + ERRBUF) *)
| S_addrxlat_ctx_new     (* addrxlat/ctx.c addrxlat_ctx_new *)
| S_addrxlat_ctx_add_cb  (* addrxlat/ctx.c addrxlat_ctx_add_cb *)
| S_alloc_shared         (* context.c alloc_shared *)
| S_attr_dict_new        (* attr.c attr_dict_new: calloc(struct attr_dict) *)
| S_attr_dict_clone      (* attr.c attr_dict_clone *)
| S_alloc_attr           (* attr.c alloc_attr *)
| S_alloc_attr_template  (* attr.c alloc_attr_template *)
| S_copy_data            (* attr.c copy_data: strdup *)
| S_xlat_new             (* vtop.c xlat_new *)
| S_addrxlat_sys_new     (* addrxlat/sys.c addrxlat_sys_new *)
| S_kdump_clone          (* context.c kdump_clone: per-context data *)
| S_fcache_new           (* fcache.c fcache_new *)
| S_cache_alloc          (* cache.c cache_alloc: both mallocs *)
| S_add_pfn_region       (* pfn.c add_pfn_region: realloc *)
| S_fcache_get_chunk     (* fcache.c fcache_get_chunk: fces array and data buffer *)
| S_addrxlat_get_page    (* vtop.c addrxlat_get_page: struct page_io *)
| S_format_private       (* <format>.c init_private & friends *)
| S_value.               (* a dynamically allocated attribute value *)

Inductive lkind := Rd | Wr | Mtx.

Inductive event :=
| Alloc (s : site) (id : nat)
| AllocFail (s : site)
| Free (id : nat)
| Lock (k : lkind) (l : nat)
| Unlock (l : nat)
| Pin (o : nat)
| Unpin (o : nat).

(** ** Summaries *)
Record summ := { live : list nat; locks : list nat; pins : list nat }.
Definition empty : summ := {| live := []; locks := []; pins := [] |}.

Fixpoint remove_one (x : nat) (l : list nat) : option (list nat) :=
  match l with
  | [] => None
  | y :: l' => if Nat.eqb x y then Some l'
               else match remove_one x l' with
                    | Some r => Some (y :: r)
                    | None => None
                    end
  end.

Definition memb (x : nat) (l : list nat) : bool := existsb (Nat.eqb x) l.

Definition step (s : summ) (e : event) : option summ :=
  match e with
  | Alloc _ id =>
      if memb id (live s) then None       (* the allocator never returns a live block *)
      else Some {| live := id :: live s; locks := locks s; pins := pins s |}
  | AllocFail _ => Some s
  | Free id =>
      match remove_one id (live s) with
      | Some l => Some {| live := l; locks := locks s; pins := pins s |}
      | None => None                       (* double or invalid free *)
      end
  | Lock _ l => Some {| live := live s; locks := l :: locks s; pins := pins s |}
  | Unlock l =>
      match remove_one l (locks s) with
      | Some r => Some {| live := live s; locks := r; pins := pins s |}
      | None => None
      end
  | Pin o => Some {| live := live s; locks := locks s; pins := o :: pins s |}
  | Unpin o =>
      match remove_one o (pins s) with
      | Some r => Some {| live := live s; locks := locks s; pins := r |}
      | None => None
      end
  end.

Fixpoint replay_from (s : summ) (tr : list event) : option summ :=
  match tr with
  | [] => Some s
  | e :: tr' => match step s e with
                | Some s' => replay_from s' tr'
                | None => None
                end
  end.

Definition replay (tr : list event) : option summ := replay_from empty tr.

(** the predicates of the properties, on a complete trace *)
Definition balanced (tr : list event) : Prop :=
  exists s, replay tr = Some s /\ live s = [].
Definition no_lock_held (tr : list event) : Prop :=
  exists s, replay tr = Some s /\ locks s = [].
Definition no_pin_held (tr : list event) : Prop :=
  exists s, replay tr = Some s /\ pins s = [].
Definition clean (tr : list event) : Prop := replay tr = Some empty.

(** executable versions (used by the correspondence check) *)
Definition cleanb (tr : list event) : bool :=
  match replay tr with
  | Some s => match live s, locks s, pins s with [], [], [] => true | _, _, _ => false end
  | None => false
  end.

(** ** The monad *)
Record st := { sched : list bool; next : nat; rtrace : list event; failed : bool }.
Definition M (A : Type) := st -> A * st.

Definition ret {A} (a : A) : M A := fun s => (a, s).
Definition bind {A B} (m : M A) (f : A -> M B) : M B :=
  fun s => let (a, s') := m s in f a s'.
Notation "x <- m ;; f" := (bind m (fun x => f)) (at level 61, m at next level, right associativity).
Notation "m ;;; f" := (bind m (fun _ => f)) (at level 61, right associativity).

Definition emit (e : event) : M unit :=
  fun s => (tt, {| sched := sched s; next := next s; rtrace := e :: rtrace s; failed := failed s |}).

(** malloc / calloc / strdup / realloc(NULL, ..) at [site] *)
Definition alloc (site : site) : M (option nat) :=
  fun s =>
    match sched s with
    | false :: rest =>
        (None, {| sched := rest; next := next s; rtrace := AllocFail site :: rtrace s; failed := true |})
    | _ =>
        (Some (next s), {| sched := tl (sched s); next := S (next s);
                           rtrace := Alloc site (next s) :: rtrace s; failed := failed s |})
    end.

(** realloc(old, ..) at [site]: on failure the old block stays; on success the
    old block (if any) is released and a fresh one returned (the tie's
    allocator wrapper reports a successful realloc as Free old, Alloc new) *)
Definition realloc (site : site) (old : option nat) : M (option nat) :=
  fun s =>
    match sched s with
    | false :: rest =>
        (None, {| sched := rest; next := next s; rtrace := AllocFail site :: rtrace s; failed := true |})
    | _ =>
        (Some (next s),
         {| sched := tl (sched s); next := S (next s);
            rtrace := Alloc site (next s) ::
                      match old with Some o => Free o :: rtrace s | None => rtrace s end;
            failed := failed s |})
    end.

Definition free (id : nat) : M unit := emit (Free id).
Definition lock (k : lkind) (l : nat) : M unit := emit (Lock k l).
Definition unlock (l : nat) : M unit := emit (Unlock l).
Definition pin (o : nat) : M unit := emit (Pin o).
Definition unpin (o : nat) : M unit := emit (Unpin o).

Fixpoint free_all (ids : list nat) : M unit :=
  match ids with
  | [] => ret tt
  | i :: r => free i ;;; free_all r
  end.

Definition trace (s : st) : list event := rev (rtrace s).
Definition summary (s : st) : option summ := replay (trace s).

(** initial state: fresh identities start above everything in [pre] *)
Definition init (sch : list bool) (first_id : nat) (pre : list event) : st :=
  {| sched := sch; next := first_id; rtrace := rev pre; failed := false |}.

Definition run {A} (m : M A) (sch : list bool) : A * list event * bool :=
  let (a, s) := m (init sch 0 []) in (a, trace s, failed s).

(** the schedule "fail exactly the n-th allocator call" (n = 0: none) *)
Definition fail_nth (n : nat) : list bool :=
  match n with
  | 0 => []
  | S k => repeat true k ++ [false]
  end.

(** outcome of a modelled call as the property sees it *)
Inductive outcome := Error | Success.
Definition result_is_error {A} (r : option A) : Prop := r = None.
