(** * File cache (fcache.c): proofs about the model in [FcacheChunk.v].

    The cache serves a set of [nfiles <= pgsz] files; the keys of both
    sub-caches are [blkpos | fidx] and [fcache_key_injective_P/_M] (file and
    block can be read back from the key) is what keeps the files apart: the
    invariant [wf] says that every cached page / mapping belongs to the file
    and block its key names ([fcache_fb_key_without_fidx_refuted]: without the
    file index in the key a read of file 1 returns file 0's bytes).

    Main results (all for every history over the files of the set, every
    replacement / adjacency / failure oracle, every policy; [clamp_eof = true],
    [fb_key_has_fidx = true], i.e. the source as it is):
    - [fcache_beyond_eof]: an observed get / pread / get_chunk answers the file's
      slice (zeros after EOF) or an excused error ([outcome_ok]); never a crash;
    - [fcache_policy_irrelevant]: within the file's pages it never answers NODATA;
    - [fcache_never_busy_when_balanced], [fcache_balanced_history]: BUSY needs a
      sub-cache whose slots are all referenced;
    - [fcache_refs_balanced], [fcache_failed_get_chunk_balanced]: references and
      allocations are returned, also when an mmap fails (the [_strong] forms
      drop the "no mmap failed" hypothesis of the first statements;
      [fcache_mmap_failure_releases_ref], [fcache_mmap_failure_is_sticky]);
    - [fcache_no_crash]: fuel [len + 1] suffices, no entry is written outside
      the arrays, no SIGBUS;
    - [fcache_unrepaired_sigbus]: the unrepaired code ([clamp_eof = false]) does
      crash; [fcache_try_once_latch_visible_beyond_eof]: the one way history
      shows, beyond the file's pages. *)
From Coq Require Import Arith NArith List Bool Lia Permutation.
From KdV Require Import Hist.FcacheChunk.
Import ListNotations.
Local Open Scope N_scope.

(** ** Arithmetic of pages and mapping blocks *)

Lemma align_down_pow2 a n : align_down a (2 ^ n) = 2 ^ n * (a / 2 ^ n).
Proof.
  unfold align_down. rewrite N.sub_1_r, <- N.ones_equiv, N.ldiff_ones_r.
  rewrite N.shiftl_mul_pow2, N.shiftr_div_pow2. apply N.mul_comm.
Qed.

Lemma low_bits_pow2 a n : low_bits a (2 ^ n) = a mod 2 ^ n.
Proof.
  unfold low_bits. rewrite N.sub_1_r, <- N.ones_equiv. apply N.land_ones.
Qed.

Section Arith.
  Variable P : N.
  Hypothesis HP : 0 < P.

  Let HP0 : P <> 0. Proof. lia. Qed.

  Lemma fl_le a : P * (a / P) <= a.
  Proof. apply N.mul_div_le; exact HP0. Qed.

  Lemma fl_gt a : a < P * (a / P) + P.
  Proof.
    pose proof (N.mul_succ_div_gt a P HP0) as H.
    rewrite N.mul_succ_r in H. exact H.
  Qed.

  Lemma fl_mod a : P * (a / P) + a mod P = a.
  Proof. symmetry. apply N.div_mod; exact HP0. Qed.

  Lemma mod_lt a : a mod P < P.
  Proof. apply N.mod_lt; exact HP0. Qed.

  Lemma mul_lt_cancel a b : P * a < P * b -> a < b.
  Proof. intro H. apply N.mul_lt_mono_pos_l in H; [exact H|exact HP]. Qed.

  Lemma mul_le_cancel a b : P * a <= P * b -> a <= b.
  Proof. intro H. apply N.mul_le_mono_pos_l in H; [exact H|exact HP]. Qed.

  (** the smallest multiple of [P] that is >= x *)
  Definition ceilq (x : N) : N := (x + P - 1) / P.

  Lemma ceil_ge x : x <= P * ceilq x.
  Proof.
    unfold ceilq. pose proof (fl_gt (x + P - 1)). lia.
  Qed.

  Lemma ceil_lt x : P * ceilq x < x + P.
  Proof.
    unfold ceilq. pose proof (fl_le (x + P - 1)). lia.
  Qed.

  (** a page that starts below [x] ends at or below the ceiling *)
  Lemma page_below_ceil m x : P * m < x -> P * (m + 1) <= P * ceilq x.
  Proof.
    intro H. apply N.mul_le_mono_l.
    assert (m < ceilq x); [|lia].
    apply mul_lt_cancel. pose proof (ceil_ge x). lia.
  Qed.

  (** a page that starts at or after [x] starts at or after the ceiling *)
  Lemma page_above_ceil m x : x <= P * m -> P * ceilq x <= P * m.
  Proof.
    intro H. apply N.mul_le_mono_l.
    assert (ceilq x < m + 1); [|lia].
    apply mul_lt_cancel. pose proof (ceil_lt x). lia.
  Qed.

  (** subtracting a multiple of [P] commutes with the ceiling *)
  Lemma ceil_sub x b : P * b <= x -> P * ceilq (x - P * b) = P * ceilq x - P * b.
  Proof.
    intro H. unfold ceilq.
    assert (E : x + P - 1 = (x - P * b + P - 1) + b * P) by lia.
    rewrite E. rewrite N.div_add by exact HP0.
    rewrite N.mul_add_distr_l, N.add_sub. reflexivity.
  Qed.
End Arith.

(** ** Lists of offsets, slices *)

Lemma offs_from_length p n : length (offs_from p n) = n.
Proof. revert p. induction n as [|n IH]; intro p; cbn [offs_from length]; [reflexivity|]. now rewrite IH. Qed.

Lemma offs_from_app p a b :
  offs_from p (a + b) = offs_from p a ++ offs_from (p + N.of_nat a) b.
Proof.
  revert p. induction a as [|a IH]; intro p.
  - cbn [Nat.add offs_from app N.of_nat]. now rewrite N.add_0_r.
  - cbn [Nat.add offs_from app]. rewrite IH. do 3 f_equal. lia.
Qed.

Lemma offs_from_bounds p n x : In x (offs_from p n) -> p <= x < p + N.of_nat n.
Proof.
  revert p. induction n as [|n IH]; intros p H; cbn [offs_from In] in H; [contradiction|].
  destruct H as [H|H]; [lia|]. apply IH in H. lia.
Qed.

Lemma offs_length p l : length (offs p l) = N.to_nat l.
Proof. apply offs_from_length. Qed.

Lemma offs_app p a b : offs p (a + b) = offs p a ++ offs (p + a) b.
Proof.
  unfold offs. rewrite N2Nat.inj_add, offs_from_app. now rewrite N2Nat.id.
Qed.

Lemma offs_bounds p l x : In x (offs p l) -> p <= x < p + l.
Proof. unfold offs. intro H. apply offs_from_bounds in H. lia. Qed.

Lemma firstn_offs p l n : l <= n -> firstn (N.to_nat l) (offs p n) = offs p l.
Proof.
  intro H. replace n with (l + (n - l)) by lia. rewrite offs_app.
  rewrite firstn_app, offs_length, Nat.sub_diag. cbn [firstn].
  rewrite app_nil_r. apply firstn_all2. rewrite offs_length. lia.
Qed.

Lemma skipn_offs p o n : o <= n -> skipn (N.to_nat o) (offs p n) = offs (p + o) (n - o).
Proof.
  intro H. replace n with (o + (n - o)) at 1 by lia. rewrite offs_app.
  rewrite skipn_app, offs_length, Nat.sub_diag. cbn [skipn].
  rewrite skipn_all2 by (rewrite offs_length; lia). reflexivity.
Qed.

Lemma collect_Byte l : collect (map Byte l) = Some l.
Proof. induction l as [|b l IH]; cbn [map collect]; [reflexivity|]. now rewrite IH. Qed.

Lemma collect_app a b x y :
  collect a = Some x -> collect b = Some y -> collect (a ++ b) = Some (x ++ y).
Proof.
  revert x. induction a as [|[c|] a IH]; intros x Ha Hb; cbn [collect app] in *.
  - injection Ha as <-. exact Hb.
  - destruct (collect a) as [r|]; [|discriminate]. injection Ha as <-.
    now rewrite (IH r eq_refl Hb).
  - discriminate.
Qed.

Lemma NoDup_snoc {A} (l : list A) (x : A) : NoDup l -> ~ In x l -> NoDup (l ++ [x]).
Proof.
  induction l as [|a l IH]; cbn [app In]; intros Hn Hx.
  - constructor; [tauto|constructor].
  - inversion Hn as [|? ? Ha Hl]; subst. constructor.
    + rewrite in_app_iff. cbn [In]. intros [F|[F|[]]]; [tauto|subst; tauto].
    + apply IH; tauto.
Qed.

Ltac splits := repeat match goal with |- _ /\ _ => split end.

Ltac sproj :=
  cbn [st_mm st_fb st_policy st_live st_orc set_mm set_fb set_policy set_live set_orc
       s_ents s_cap store_insert store_put fc_which fc_key fc_len fc_view fc_full] in *.

(** ** The keyed store *)

Section StoreFacts.
  Context {C : Type}.
  Implicit Types (es : list (entry C)) (e : entry C) (s : store C).

  Definition keys es : list N := map e_key es.

  (** reference count of key [k] in a list of entries *)
  Definition rcl (k : N) es : N :=
    match lookup k es with Some e => e_ref e | None => 0 end.

  Definition nrefl es : N := N.of_nat (length (filter referenced es)).

  Lemma refcount_rcl k s : refcount k s = rcl k (s_ents s).
  Proof. reflexivity. Qed.

  Lemma nref_nrefl s : nref s = nrefl (s_ents s).
  Proof. reflexivity. Qed.

  Lemma unreferenced_0 e : referenced e = false -> e_ref e = 0.
  Proof. unfold referenced. intro H. apply N.ltb_ge in H. lia. Qed.

  Lemma lookup_some k es e : lookup k es = Some e -> In e es /\ e_key e = k.
  Proof.
    induction es as [|a es IH]; cbn [lookup]; [discriminate|].
    destruct (N.eqb_spec (e_key a) k) as [E|E]; intro H.
    - injection H as <-. split; [now left|exact E].
    - destruct (IH H). split; [now right|assumption].
  Qed.

  Lemma lookup_none k es : lookup k es = None -> ~ In k (keys es).
  Proof.
    induction es as [|a es IH]; cbn [lookup keys map In]; [tauto|].
    destruct (N.eqb_spec (e_key a) k) as [E|E]; [discriminate|].
    intros H [F|F]; [contradiction|]. now apply IH.
  Qed.

  Lemma lookup_none_conv k es : ~ In k (keys es) -> lookup k es = None.
  Proof.
    induction es as [|a es IH]; cbn [lookup keys map In]; [reflexivity|].
    intro H. destruct (N.eqb_spec (e_key a) k) as [E|E]; [tauto|]. apply IH. tauto.
  Qed.

  Lemma lookup_nodup es e : NoDup (keys es) -> In e es -> lookup (e_key e) es = Some e.
  Proof.
    induction es as [|a es IH]; cbn [keys map In lookup]; [contradiction|].
    intros Hn [<-|Hi].
    - now rewrite N.eqb_refl.
    - inversion Hn as [|? ? Hna Hnd]; subst.
      destruct (N.eqb_spec (e_key a) (e_key e)) as [E|E].
      + exfalso. apply Hna. rewrite E. now apply in_map.
      + now apply IH.
  Qed.

  (** *** [incr] / [decr] *)

  Lemma keys_incr k es : keys (incr k es) = keys es.
  Proof.
    induction es as [|a es IH]; cbn [incr keys map]; [reflexivity|].
    destruct (e_key a =? k); cbn [keys map e_key]; [reflexivity|]. f_equal. exact IH.
  Qed.

  Lemma keys_decr k es : keys (decr k es) = keys es.
  Proof.
    induction es as [|a es IH]; cbn [decr keys map]; [reflexivity|].
    destruct (e_key a =? k); cbn [keys map e_key]; [reflexivity|]. f_equal. exact IH.
  Qed.

  Lemma rcl_incr k k' es :
    In k (keys es) -> rcl k' (incr k es) = rcl k' es + (if k' =? k then 1 else 0).
  Proof.
    unfold rcl. induction es as [|a es IH]; cbn [keys map In incr lookup]; [contradiction|].
    intro Hi. destruct (N.eqb_spec (e_key a) k) as [E|E].
    - cbn [lookup e_key]. subst k.
      destruct (N.eqb_spec (e_key a) k') as [E2|E2].
      + subst k'. rewrite N.eqb_refl. cbn [e_ref]. reflexivity.
      + destruct (N.eqb_spec k' (e_key a)); [congruence|]. lia.
    - cbn [lookup]. destruct (N.eqb_spec (e_key a) k') as [E2|E2].
      + destruct (N.eqb_spec k' k); [congruence|]. lia.
      + apply IH. destruct Hi; [contradiction|assumption].
  Qed.

  Lemma rcl_decr k k' es : rcl k' (decr k es) = rcl k' es - (if k' =? k then 1 else 0).
  Proof.
    unfold rcl. induction es as [|a es IH]; cbn [decr lookup].
    - destruct (k' =? k); reflexivity.
    - destruct (N.eqb_spec (e_key a) k) as [E|E].
      + cbn [lookup e_key]. subst k.
        destruct (N.eqb_spec (e_key a) k') as [E2|E2].
        * subst k'. rewrite N.eqb_refl. reflexivity.
        * destruct (N.eqb_spec k' (e_key a)); [congruence|]. lia.
      + cbn [lookup]. destruct (N.eqb_spec (e_key a) k') as [E2|E2].
        * destruct (N.eqb_spec k' k); [congruence|]. lia.
        * exact IH.
  Qed.

  Lemma decr_incr k es : decr k (incr k es) = es.
  Proof.
    induction es as [|a es IH]; cbn [incr decr]; [reflexivity|].
    destruct (N.eqb_spec (e_key a) k) as [E|E]; cbn [decr e_key].
    - destruct (N.eqb_spec (e_key a) k); [|contradiction]. cbn [e_val e_ref].
      rewrite N.add_sub. destruct a as [ak av ar]. reflexivity.
    - destruct (N.eqb_spec (e_key a) k); [contradiction|]. now rewrite IH.
  Qed.

  Lemma nrefl_incr k es : nrefl (incr k es) <= nrefl es + 1.
  Proof.
    unfold nrefl. induction es as [|a es IH]; cbn [incr filter length]; [lia|].
    destruct (e_key a =? k).
    - cbn [filter]. destruct (referenced a), (referenced _); cbn [length]; lia.
    - cbn [filter]. destruct (referenced a); cbn [length]; lia.
  Qed.

  Lemma nrefl_decr k es : nrefl (decr k es) <= nrefl es.
  Proof.
    unfold nrefl. induction es as [|a es IH]; cbn [decr filter length]; [lia|].
    destruct (e_key a =? k).
    - cbn [filter].
      change (referenced (mkEntry (e_key a) (e_val a) (e_ref a - 1))) with (0 <? e_ref a - 1).
      destruct (N.ltb_spec 0 (e_ref a - 1)) as [L|L];
        [|destruct (referenced a); cbn [length]; lia].
      assert (R : referenced a = true) by (unfold referenced; apply N.ltb_lt; lia).
      rewrite R. cbn [length]. lia.
    - cbn [filter]. destruct (referenced a); cbn [length]; lia.
  Qed.

  Lemma Forall_incr (Q : entry C -> Prop) k es :
    (forall e, Q e -> Q (mkEntry (e_key e) (e_val e) (e_ref e + 1))) ->
    Forall Q es -> Forall Q (incr k es).
  Proof.
    intros HQ H. induction H as [|a es Ha H IH]; cbn [incr]; [constructor|].
    destruct (e_key a =? k); constructor; auto.
  Qed.

  Lemma Forall_decr (Q : entry C -> Prop) k es :
    (forall e, Q e -> Q (mkEntry (e_key e) (e_val e) (e_ref e - 1))) ->
    Forall Q es -> Forall Q (decr k es).
  Proof.
    intros HQ H. induction H as [|a es Ha H IH]; cbn [decr]; [constructor|].
    destruct (e_key a =? k); constructor; auto.
  Qed.

  (** *** Replacement *)

  Lemma evict_nil es : evict [] es = filter referenced es.
  Proof.
    induction es as [|a es IH]; cbn [evict filter]; [reflexivity|].
    destruct (referenced a); now rewrite IH.
  Qed.

  Lemma evict_In bits es e : In e (evict bits es) -> In e es.
  Proof.
    revert bits. induction es as [|a es IH]; intro bits; cbn [evict]; [tauto|].
    destruct (referenced a); [intros [H|H]; [now left|right; eauto]|].
    destruct bits as [|[|] bs]; [right; eauto|right; eauto|].
    intros [H|H]; [now left|right; eauto].
  Qed.

  Lemma evict_keys bits es k : In k (keys (evict bits es)) -> In k (keys es).
  Proof.
    unfold keys. rewrite !in_map_iff. intros (e & He & Hi). exists e. split; [exact He|].
    eapply evict_In; eauto.
  Qed.

  Lemma evict_NoDup bits es : NoDup (keys es) -> NoDup (keys (evict bits es)).
  Proof.
    revert bits. induction es as [|a es IH]; intros bits Hn; cbn [evict]; [constructor|].
    cbn [keys map] in Hn. inversion Hn as [|? ? Hna Hnd]; subst.
    assert (Hk : forall b, ~ In (e_key a) (keys (evict b es))).
    { intros b F. apply Hna. eapply evict_keys; eauto. }
    destruct (referenced a); [cbn [keys map]; constructor; [apply Hk|now apply IH]|].
    destruct bits as [|[|] bs]; [now apply IH|now apply IH|].
    cbn [keys map]. constructor; [apply Hk|now apply IH].
  Qed.

  Lemma evict_Forall (Q : entry C -> Prop) bits es : Forall Q es -> Forall Q (evict bits es).
  Proof.
    rewrite !Forall_forall. intros H e He. apply H. eapply evict_In; eauto.
  Qed.

  Lemma evict_held bits es : filter referenced (evict bits es) = filter referenced es.
  Proof.
    revert bits. induction es as [|a es IH]; intro bits; cbn [evict filter]; [reflexivity|].
    destruct (referenced a) eqn:R.
    - cbn [filter]. rewrite R. now rewrite IH.
    - destruct bits as [|[|] bs]; [apply IH|apply IH|].
      cbn [filter]. rewrite R. apply IH.
  Qed.

  Lemma evict_rcl bits es k : NoDup (keys es) -> rcl k (evict bits es) = rcl k es.
  Proof.
    unfold rcl. revert bits. induction es as [|a es IH]; intros bits Hn; cbn [evict lookup];
      [reflexivity|].
    cbn [keys map] in Hn. inversion Hn as [|? ? Hna Hnd]; subst.
    assert (Hdrop : forall b, referenced a = false ->
              match lookup k (evict b es) with Some e => e_ref e | None => 0 end =
              match (if e_key a =? k then Some a else lookup k es) with
              | Some e => e_ref e | None => 0 end).
    { intros b R. destruct (N.eqb_spec (e_key a) k) as [E|E]; [|now apply IH].
      rewrite lookup_none_conv.
      - symmetry. now apply unreferenced_0.
      - intro F. apply Hna. rewrite E. eapply evict_keys; eauto. }
    destruct (referenced a) eqn:R.
    - cbn [lookup]. destruct (e_key a =? k); [reflexivity|now apply IH].
    - destruct bits as [|[|] bs]; [now apply Hdrop|now apply Hdrop|].
      cbn [lookup]. destruct (e_key a =? k); [reflexivity|now apply IH].
  Qed.

  (** *** [store_get], [store_insert], [store_put] on well-formed stores *)

  Definition make_room_ents bits s : list (entry C) := s_ents (make_room bits s).

  Lemma make_room_cap bits s : s_cap (make_room bits s) = s_cap s.
  Proof. reflexivity. Qed.

  Lemma make_room_shape bits s :
    exists b2, s_ents (make_room bits s) = evict b2 (evict bits (s_ents s)) \/
               s_ents (make_room bits s) = evict bits (s_ents s).
  Proof.
    exists []. unfold make_room. cbn [s_ents].
    destruct (_ <=? _); [left; now rewrite evict_nil|now right].
  Qed.

  Lemma make_room_In bits s e : In e (s_ents (make_room bits s)) -> In e (s_ents s).
  Proof.
    destruct (make_room_shape bits s) as (b2 & [E|E]); rewrite E; intro H.
    - eapply evict_In, evict_In; eauto.
    - eapply evict_In; eauto.
  Qed.

  Lemma make_room_NoDup bits s : NoDup (keys (s_ents s)) -> NoDup (keys (s_ents (make_room bits s))).
  Proof.
    intro H. destruct (make_room_shape bits s) as (b2 & [E|E]); rewrite E.
    - now apply evict_NoDup, evict_NoDup.
    - now apply evict_NoDup.
  Qed.

  Lemma make_room_held bits s :
    filter referenced (s_ents (make_room bits s)) = filter referenced (s_ents s).
  Proof.
    destruct (make_room_shape bits s) as (b2 & [E|E]); rewrite E.
    - now rewrite !evict_held.
    - now rewrite evict_held.
  Qed.

  Lemma make_room_rcl bits s k :
    NoDup (keys (s_ents s)) -> rcl k (s_ents (make_room bits s)) = rcl k (s_ents s).
  Proof.
    intro H. destruct (make_room_shape bits s) as (b2 & [E|E]); rewrite E.
    - rewrite evict_rcl by now apply evict_NoDup. now apply evict_rcl.
    - now apply evict_rcl.
  Qed.

  Lemma make_room_absent bits s k :
    ~ In k (keys (s_ents s)) -> ~ In k (keys (s_ents (make_room bits s))).
  Proof.
    intros H F. apply H. unfold keys in *. rewrite in_map_iff in *.
    destruct F as (e & He & Hi). exists e. split; [exact He|]. eapply make_room_In; eauto.
  Qed.

  Lemma rcl_insert k k' c es :
    ~ In k (keys es) ->
    rcl k' (es ++ [mkEntry k c 1]) = rcl k' es + (if k' =? k then 1 else 0).
  Proof.
    unfold rcl. induction es as [|a es IH]; cbn [keys map In app lookup e_key]; intro Hn.
    - rewrite (N.eqb_sym k k'). destruct (k' =? k); reflexivity.
    - destruct (N.eqb_spec (e_key a) k') as [E|E].
      + destruct (N.eqb_spec k' k); [subst; tauto|lia].
      + apply IH. tauto.
  Qed.

  Lemma nrefl_insert k c es : nrefl (es ++ [mkEntry k c 1]) = nrefl es + 1.
  Proof.
    unfold nrefl. rewrite filter_app, app_length. cbn [filter referenced e_ref N.ltb N.compare length].
    lia.
  Qed.

  Lemma keys_app es1 es2 : keys (es1 ++ es2) = keys es1 ++ keys es2.
  Proof. apply map_app. Qed.

  Lemma NoDup_insert k c es : NoDup (keys es) -> ~ In k (keys es) -> NoDup (keys (es ++ [mkEntry k c 1])).
  Proof.
    intros Hn Hk. rewrite keys_app. cbn [keys map e_key].
    apply NoDup_snoc; assumption.
  Qed.

  Lemma rcl_snoc0 k k' c es :
    ~ In k (keys es) -> rcl k' (es ++ [mkEntry k c 0]) = rcl k' es.
  Proof.
    unfold rcl. induction es as [|a es IH]; cbn [keys map In app lookup e_key]; intro Hn.
    - destruct (k =? k'); reflexivity.
    - destruct (N.eqb_spec (e_key a) k') as [E|E]; [reflexivity|]. apply IH. tauto.
  Qed.

  Lemma nrefl_snoc0 k c es : nrefl (es ++ [mkEntry k c 0]) = nrefl es.
  Proof.
    unfold nrefl. rewrite filter_app. cbn [filter referenced e_ref N.ltb N.compare].
    now rewrite app_nil_r.
  Qed.

  Lemma NoDup_snoc_entry k c r es :
    NoDup (keys es) -> ~ In k (keys es) -> NoDup (keys (es ++ [mkEntry k c r])).
  Proof.
    intros Hn Hk. rewrite keys_app. cbn [keys map e_key]. apply NoDup_snoc; assumption.
  Qed.

  (** put after a missed insert of the same key: the new entry is the one released *)
  Lemma decr_insert k c es :
    ~ In k (keys es) -> decr k (es ++ [mkEntry k c 1]) = es ++ [mkEntry k c 0].
  Proof.
    induction es as [|a es IH]; cbn [keys map In app decr e_key]; intro Hn.
    - now rewrite N.eqb_refl.
    - destruct (N.eqb_spec (e_key a) k); [tauto|]. rewrite IH by tauto. reflexivity.
  Qed.

  (** *** The number of referenced entries is determined by the reference counts *)

  Lemma held_keys_NoDup es : NoDup (keys es) -> NoDup (keys (filter referenced es)).
  Proof.
    intro H. rewrite <- evict_nil. now apply evict_NoDup.
  Qed.

  Lemma held_key_iff es k :
    NoDup (keys es) -> (In k (keys (filter referenced es)) <-> 0 < rcl k es).
  Proof.
    intro Hn. unfold keys at 1. rewrite in_map_iff. split.
    - intros (e & <- & Hi). apply filter_In in Hi. destruct Hi as [Hi R].
      unfold rcl. rewrite (lookup_nodup es e Hn Hi). unfold referenced in R.
      now apply N.ltb_lt.
    - unfold rcl. intro H. destruct (lookup k es) as [e|] eqn:L; [|lia].
      apply lookup_some in L. destruct L as [Hi <-]. exists e. split; [reflexivity|].
      apply filter_In. split; [exact Hi|]. unfold referenced. now apply N.ltb_lt.
  Qed.

  Lemma nrefl_ext es1 es2 :
    NoDup (keys es1) -> NoDup (keys es2) ->
    (forall k, rcl k es1 = rcl k es2) -> nrefl es1 = nrefl es2.
  Proof.
    intros H1 H2 E. unfold nrefl. f_equal.
    rewrite <- (map_length e_key (filter referenced es1)), <- (map_length e_key (filter referenced es2)).
    apply Permutation_length. apply NoDup_Permutation.
    - now apply held_keys_NoDup.
    - now apply held_keys_NoDup.
    - intro k. fold (keys (filter referenced es1)) (keys (filter referenced es2)).
      rewrite !held_key_iff by assumption. now rewrite E.
  Qed.
End StoreFacts.

Section Proofs.
  Variables pgshift order : N.

  Notation P := (pgsz pgshift).
  Notation M := (mmapsz pgshift order).

  Lemma P_pos : 0 < P.
  Proof. unfold pgsz. apply N.neq_0_lt_0. apply N.pow_nonzero. discriminate. Qed.

  Lemma M_pow : M = 2 ^ (pgshift + order).
  Proof. unfold mmapsz, pgsz. now rewrite N.shiftl_mul_pow2, N.pow_add_r. Qed.

  Lemma M_mul : M = P * 2 ^ order.
  Proof. unfold mmapsz. now rewrite N.shiftl_mul_pow2. Qed.

  Lemma K_pos : 0 < 2 ^ order.
  Proof. apply N.neq_0_lt_0. apply N.pow_nonzero. discriminate. Qed.

  Lemma M_pos : 0 < M.
  Proof. rewrite M_mul. apply N.mul_pos_pos; [apply P_pos|apply K_pos]. Qed.

  Lemma P_le_M : P <= M.
  Proof.
    rewrite M_mul. pose proof K_pos.
    rewrite <- (N.mul_1_r P) at 1. apply N.mul_le_mono_l. lia.
  Qed.

  Lemma adP a : align_down a P = P * (a / P).
  Proof. unfold pgsz. apply align_down_pow2. Qed.

  Lemma adM a : align_down a M = M * (a / M).
  Proof. rewrite M_pow. apply align_down_pow2. Qed.

  Lemma lbP a : low_bits a P = a mod P.
  Proof. unfold pgsz. apply low_bits_pow2. Qed.

  Lemma lbM a : low_bits a M = a mod M.
  Proof. rewrite M_pow. apply low_bits_pow2. Qed.

  Lemma pceil_eq x : pageceil pgshift x = P * ceilq P x.
  Proof. unfold pageceil. rewrite adP. reflexivity. Qed.

  (** a mapping block is a whole number of pages *)
  Lemma adM_pages a : M * (a / M) = P * (2 ^ order * (a / M)).
  Proof. rewrite M_mul. now rewrite N.mul_assoc. Qed.

  Lemma adM_le_adP a : M * (a / M) <= P * (a / P).
  Proof.
    rewrite adM_pages. apply N.mul_le_mono_l.
    pose proof P_pos. pose proof K_pos.
    rewrite M_mul, <- N.div_div by lia.
    apply N.mul_div_le. lia.
  Qed.

  (** the block of [pos] ends at or after the end of the page of [pos] *)
  Lemma page_end_le_block_end a : P * (a / P) + P <= M * (a / M) + M.
  Proof.
    pose proof P_pos. pose proof K_pos. pose proof M_pos.
    replace (P * (a / P) + P) with (P * (a / P + 1)) by lia.
    replace (M * (a / M) + M) with (P * (2 ^ order * (a / M + 1))) by (rewrite M_mul; lia).
    apply N.mul_le_mono_l.
    assert (a / P < 2 ^ order * (a / M + 1)); [|lia].
    apply N.div_lt_upper_bound; [lia|].
    pose proof (fl_gt M M_pos a). rewrite M_mul in *. lia.
  Qed.

  (** *** The cache keys [blkpos | fidx] *)

  Lemma land_low n q f : f < 2 ^ n -> N.land (2 ^ n * q) f = 0.
  Proof.
    intro H. apply N.bits_inj. intro m. rewrite N.land_spec, N.bits_0.
    rewrite (N.mul_comm (2 ^ n) q), <- N.shiftl_mul_pow2.
    destruct (N.lt_ge_cases m n) as [L|L].
    - now rewrite N.shiftl_spec_low.
    - destruct (N.eq_dec f 0) as [->|Hf]; [now rewrite N.bits_0, Bool.andb_false_r|].
      rewrite (N.bits_above_log2 f m), Bool.andb_false_r; [reflexivity|].
      apply N.log2_lt_pow2; [lia|].
      eapply N.lt_le_trans; [exact H|]. apply N.pow_le_mono_r; lia.
  Qed.

  Lemma lor_low n q f : f < 2 ^ n -> N.lor (2 ^ n * q) f = 2 ^ n * q + f.
  Proof.
    intro H. pose proof (land_low n q f H) as L.
    now rewrite (N.add_nocarry_lxor _ _ L), (N.lxor_lor _ _ L).
  Qed.

  (** the key of a page of file [f]: both parts can be read back *)
  Lemma key_decode_P a f :
    f < P ->
    let k := N.lor (align_down a P) f in
    low_bits k P = f /\ align_down k P = align_down a P.
  Proof.
    intros Hf k. unfold k. rewrite (adP a). unfold pgsz in *. rewrite lor_low by exact Hf.
    rewrite low_bits_pow2, align_down_pow2.
    set (q := a / 2 ^ pgshift). assert (Hp : 2 ^ pgshift <> 0) by lia.
    split.
    - rewrite N.add_comm, N.mul_comm, N.mod_add by exact Hp. now apply N.mod_small.
    - f_equal. rewrite N.add_comm, N.mul_comm, N.div_add by exact Hp.
      rewrite N.div_small by exact Hf. reflexivity.
  Qed.

  (** the key of a mapping block of file [f] *)
  Lemma key_decode_M a f :
    f < P ->
    let k := N.lor (align_down a M) f in
    low_bits k M = f /\ align_down k M = align_down a M.
  Proof.
    intros Hf k. unfold k. rewrite (adM a). pose proof P_le_M as HPM. rewrite M_pow in *.
    assert (Hf' : f < 2 ^ (pgshift + order)) by lia.
    rewrite lor_low by exact Hf'.
    rewrite low_bits_pow2, align_down_pow2.
    set (q := a / 2 ^ (pgshift + order)). assert (Hp : 2 ^ (pgshift + order) <> 0) by lia.
    split.
    - rewrite N.add_comm, N.mul_comm, N.mod_add by exact Hp. now apply N.mod_small.
    - f_equal. rewrite N.add_comm, N.mul_comm, N.div_add by exact Hp.
      rewrite N.div_small by exact Hf'. reflexivity.
  Qed.

  (** the key determines the file and the block: what keeps the files of a set
      apart in the two sub-caches *)
  Lemma fcache_key_injective_P a1 f1 a2 f2 :
    f1 < P -> f2 < P ->
    N.lor (align_down a1 P) f1 = N.lor (align_down a2 P) f2 ->
    f1 = f2 /\ align_down a1 P = align_down a2 P.
  Proof.
    intros H1 H2 E. destruct (key_decode_P a1 f1 H1) as [A1 B1].
    destruct (key_decode_P a2 f2 H2) as [A2 B2]. cbv zeta in *. rewrite E in A1, B1.
    split; congruence.
  Qed.

  Lemma fcache_key_injective_M a1 f1 a2 f2 :
    f1 < P -> f2 < P ->
    N.lor (align_down a1 M) f1 = N.lor (align_down a2 M) f2 ->
    f1 = f2 /\ align_down a1 M = align_down a2 M.
  Proof.
    intros H1 H2 E. destruct (key_decode_M a1 f1 H1) as [A1 B1].
    destruct (key_decode_M a2 f2 H2) as [A2 B2]. cbv zeta in *. rewrite E in A1, B1.
    split; congruence.
  Qed.

  Section OneFile.
  Variable filesz : N.
  Variable file : N -> N.
  Notation sl := (FcacheChunk.sl filesz file).
  Notation slice := (FcacheChunk.slice filesz file).
  Notation pceil := (pageceil pgshift filesz).

  (** *** What [fcache_get_mmap] computes for a page below the EOF page end *)
  Lemma nodata_beyond pos : filesz <= align_down pos P -> pceil <= pos.
  Proof.
    rewrite adP, pceil_eq. intro H.
    pose proof (page_above_ceil P P_pos _ _ H). pose proof (fl_le P P_pos pos). lia.
  Qed.

  Lemma below_ceil pos :
    align_down pos P < filesz -> align_down pos P + P <= pceil /\ pos < pceil.
  Proof.
    rewrite adP, pceil_eq. intro H.
    pose proof (page_below_ceil P P_pos _ _ H). pose proof (fl_gt P P_pos pos). lia.
  Qed.

  Lemma below_ceil_conv pos : pos < pceil -> align_down pos P < filesz.
  Proof.
    intro H. destruct (N.lt_ge_cases (align_down pos P) filesz) as [L|L]; [exact L|].
    apply nodata_beyond in L. lia.
  Qed.

  Definition mmap_len (pos : N) : N :=
    let blkpos := align_down pos M in
    let off := low_bits pos M in
    if filesz - blkpos <? M then align_down (filesz - blkpos + P - 1) P - off else M - off.

  Lemma mmap_len_spec pos :
    align_down pos P < filesz ->
    1 <= mmap_len pos /\ pos + mmap_len pos <= pceil /\
    align_down pos P + P <= pos + mmap_len pos /\
    low_bits pos M + mmap_len pos <= M.
  Proof.
    intro Hb. destruct (below_ceil pos Hb) as [Hpe Hlt].
    unfold mmap_len. rewrite adM, lbM.
    pose proof (fl_mod M M_pos pos) as Hm. pose proof (mod_lt M M_pos pos) as Hr.
    pose proof (adM_le_adP pos) as Hbp. rewrite (adP pos) in *.
    pose proof (page_end_le_block_end pos) as Hpb.
    destruct (N.ltb_spec (filesz - M * (pos / M)) M) as [C|C].
    - (* the mapping extends beyond EOF: clamped to the EOF page *)
      rewrite adP. fold (ceilq P (filesz - M * (pos / M))).
      rewrite adM_pages, ceil_sub by (try apply P_pos; rewrite <- adM_pages; lia).
      rewrite <- adM_pages, <- pceil_eq.
      pose proof (ceil_lt P P_pos filesz) as Hc. rewrite <- pceil_eq in Hc.
      assert (Hce : pceil <= M * (pos / M) + M).
      { rewrite pceil_eq.
        replace (M * (pos / M) + M) with (P * (2 ^ order * (pos / M + 1))) by (rewrite M_mul; lia).
        apply page_above_ceil; [apply P_pos|].
        clear - C. set (q := pos / M) in *. rewrite M_mul in C. lia. }
      lia.
    - pose proof (ceil_ge P P_pos filesz) as Hc. rewrite <- pceil_eq in Hc. lia.
  Qed.

  (** *** Slices *)

  Lemma slice_length p l : length (slice p l) = N.to_nat l.
  Proof. unfold FcacheChunk.slice. now rewrite map_length, offs_length. Qed.

  Lemma slice_app p a b : slice p (a + b) = slice p a ++ slice (p + a) b.
  Proof. unfold FcacheChunk.slice. now rewrite offs_app, map_app. Qed.

  Lemma firstn_slice p l n : l <= n -> firstn (N.to_nat l) (slice p n) = slice p l.
  Proof. intro H. unfold FcacheChunk.slice. now rewrite firstn_map, firstn_offs. Qed.

  Lemma skipn_slice p o n : o <= n -> skipn (N.to_nat o) (slice p n) = slice (p + o) (n - o).
  Proof. intro H. unfold FcacheChunk.slice. now rewrite skipn_map, skipn_offs. Qed.

  (** [pread] + [memset] yields the page's slice *)
  Lemma read_page_slice blk : read_page pgshift filesz file blk = slice blk P.
  Proof.
    unfold read_page. set (rd := N.min P (filesz - blk)).
    replace P with (rd + (P - rd)) at 2 by lia.
    rewrite slice_app. f_equal.
    - unfold FcacheChunk.slice. apply map_ext_in. intros o Ho. apply offs_bounds in Ho.
      unfold FcacheChunk.sl. destruct (N.ltb_spec o filesz); [reflexivity|lia].
    - unfold FcacheChunk.slice.
      assert (G : forall l, (forall o, In o l -> filesz <= o) ->
                            repeat 0 (length l) = map sl l).
      { induction l as [|o l IH]; intro Hl; cbn [length repeat map]; [reflexivity|].
        rewrite IH by (intros; apply Hl; now right). f_equal.
        unfold FcacheChunk.sl. destruct (N.ltb_spec o filesz); [|reflexivity].
        specialize (Hl o (or_introl eq_refl)). lia. }
      rewrite <- (offs_length (blk + rd) (P - rd)). apply G.
      intros o Ho. apply offs_bounds in Ho.
      destruct (N.le_ge_cases P (filesz - blk)); lia.
  Qed.

  (** loads from a mapping below the end of the EOF page yield the slice *)
  Lemma mm_view_slice pos len :
    pos + len <= pceil ->
    map (mm_byte pgshift filesz file) (offs pos len) = map Byte (slice pos len).
  Proof.
    intro H. unfold FcacheChunk.slice. rewrite map_map. apply map_ext_in.
    intros o Ho. apply offs_bounds in Ho. unfold mm_byte, FcacheChunk.sl.
    destruct (N.ltb_spec o filesz); [reflexivity|].
    destruct (N.ltb_spec o pceil); [reflexivity|lia].
  Qed.

  End OneFile.

  (** ** Invariants *)

  (** the file set: [nfiles] files ([fcache_new] refuses more than [pgsz]) *)
  Variable nfiles : N.
  Variable fsz : N -> N.
  Variable fdata : N -> N -> N.

  (** every cached read page holds the slice of the page of the file that its
      key names *)
  Definition fb_ok (s : store (list N)) : Prop :=
    Forall (fun e => e_val e =
                     FcacheChunk.slice (fsz (low_bits (e_key e) P)) (fdata (low_bits (e_key e) P))
                                       (align_down (e_key e) P) P) (s_ents s).

  (** every cached mapping is the mapping of the block of the file that its key names *)
  Definition mm_ok (s : store mcontent) : Prop :=
    Forall (fun e => match e_val e with
                     | MapOk f b => f = low_bits (e_key e) M /\ b = align_down (e_key e) M
                     | MapFailed => True
                     end) (s_ents s).

  Definition wf (st : state) : Prop :=
    NoDup (keys (s_ents (st_mm st))) /\ NoDup (keys (s_ents (st_fb st))) /\
    fb_ok (st_fb st) /\ mm_ok (st_mm st).

  (** no cached MAP_FAILED *)
  Definition mm_clean (st : state) : Prop :=
    Forall (fun e => e_val e <> MapFailed) (s_ents (st_mm st)).

  Definition suffix {A} (l' l : list A) : Prop := exists p, l = p ++ l'.

  Lemma suffix_refl {A} (l : list A) : suffix l l.
  Proof. now exists []. Qed.

  Lemma suffix_trans {A} (a b c : list A) : suffix a b -> suffix b c -> suffix a c.
  Proof. intros [p ->] [q ->]. exists (q ++ p). now rewrite app_assoc. Qed.

  Lemma suffix_tail {A} (x : A) (l : list A) : suffix l (x :: l).
  Proof. now exists [x]. Qed.

  Lemma suffix_In {A} (x : A) (a b : list A) : suffix a b -> In x a -> In x b.
  Proof. intros [p ->] H. apply in_or_app. now right. Qed.

  Definition orc_le (o' o : oracle) : Prop :=
    suffix (o_ev o') (o_ev o) /\ suffix (o_mf o') (o_mf o) /\ suffix (o_rf o') (o_rf o) /\
    suffix (o_adj o') (o_adj o) /\ suffix (o_al o') (o_al o).

  Lemma orc_le_refl o : orc_le o o.
  Proof. repeat split; apply suffix_refl. Qed.

  Lemma orc_le_trans a b c : orc_le a b -> orc_le b c -> orc_le a c.
  Proof.
    intros (A1 & A2 & A3 & A4 & A5) (B1 & B2 & B3 & B4 & B5).
    repeat split; eapply suffix_trans; eauto.
  Qed.

  (** some failure bit of the operation's oracle is set *)
  Definition io_failure (o : oracle) : Prop := In true (o_mf o) \/ In true (o_rf o) \/ In true (o_al o).

  Lemma io_failure_le o' o : orc_le o' o -> io_failure o' -> io_failure o.
  Proof.
    intros (_ & A2 & A3 & _ & A5) [H|[H|H]]; [left|right; left|right; right]; eapply suffix_In; eauto.
  Qed.

  (** what every step of the code preserves *)
  Record frame (st st' : state) : Prop := mkFrame {
    fr_wf : wf st -> wf st';
    fr_capm : s_cap (st_mm st') = s_cap (st_mm st);
    fr_capf : s_cap (st_fb st') = s_cap (st_fb st);
    fr_orc : orc_le (st_orc st') (st_orc st);
    fr_clean : mm_clean st -> mm_clean st' \/ In true (o_mf (st_orc st)) }.

  Lemma frame_refl st : frame st st.
  Proof. constructor; auto using orc_le_refl. Qed.

  Lemma frame_trans a b c : frame a b -> frame b c -> frame a c.
  Proof.
    intros [A1 A2 A3 A4 A5] [B1 B2 B3 B4 B5]. constructor; auto; try congruence.
    - eapply orc_le_trans; eauto.
    - intro H. destruct (A5 H) as [H1|H1]; [|now right].
      destruct (B5 H1) as [H2|H2]; [now left|right].
      destruct A4 as (_ & S & _). eapply suffix_In; eauto.
  Qed.

  (** a run without mmap failures, past or coming *)
  Definition quiet (st : state) : Prop :=
    mm_clean st /\ ~ In true (o_mf (st_orc st)).

  Lemma frame_quiet st st' : frame st st' -> quiet st -> quiet st'.
  Proof.
    intros F [Hc Hn]. split.
    - destruct (fr_clean _ _ F Hc); [assumption|contradiction].
    - intro H. apply Hn. destruct (fr_orc _ _ F) as (_ & S & _). eapply suffix_In; eauto.
  Qed.

  Lemma frame_set_orc st o : orc_le o (st_orc st) -> frame st (set_orc st o).
  Proof. intro H. constructor; cbn; auto. Qed.

  Lemma pop_ev_frame st ev st' : pop_ev st = (ev, st') ->
    frame st st' /\ st_mm st' = st_mm st /\ st_fb st' = st_fb st /\
    st_policy st' = st_policy st /\ st_live st' = st_live st.
  Proof.
    unfold pop_ev. destruct (o_ev (st_orc st)) as [|b t] eqn:E; intro H; injection H as <- <-.
    - split; [apply frame_refl|repeat split; auto].
    - split; [|repeat split; auto]. apply frame_set_orc.
      unfold orc_le. cbn. rewrite E. repeat split; auto using suffix_refl, suffix_tail.
  Qed.

  Lemma pop_mf_frame st b st' : pop_mf st = (b, st') ->
    frame st st' /\ st_mm st' = st_mm st /\ st_fb st' = st_fb st /\
    st_policy st' = st_policy st /\ st_live st' = st_live st /\
    (b = true -> In true (o_mf (st_orc st))).
  Proof.
    unfold pop_mf. destruct (o_mf (st_orc st)) as [|b0 t] eqn:E; intro H; injection H as <- <-.
    - split; [apply frame_refl|repeat split; auto; discriminate].
    - split; [|repeat split; auto; intros ->; now left]. apply frame_set_orc.
      unfold orc_le. cbn. rewrite E. repeat split; auto using suffix_refl, suffix_tail.
  Qed.

  Lemma pop_rf_frame st b st' : pop_rf st = (b, st') ->
    frame st st' /\ st_mm st' = st_mm st /\ st_fb st' = st_fb st /\
    st_policy st' = st_policy st /\ st_live st' = st_live st /\
    (b = true -> In true (o_rf (st_orc st))).
  Proof.
    unfold pop_rf. destruct (o_rf (st_orc st)) as [|b0 t] eqn:E; intro H; injection H as <- <-.
    - split; [apply frame_refl|repeat split; auto; discriminate].
    - split; [|repeat split; auto; intros ->; now left]. apply frame_set_orc.
      unfold orc_le. cbn. rewrite E. repeat split; auto using suffix_refl, suffix_tail.
  Qed.

  Lemma pop_adj_frame st b st' : pop_adj st = (b, st') ->
    frame st st' /\ st_mm st' = st_mm st /\ st_fb st' = st_fb st /\
    st_policy st' = st_policy st /\ st_live st' = st_live st.
  Proof.
    unfold pop_adj. destruct (o_adj (st_orc st)) as [|b0 t] eqn:E; intro H; injection H as <- <-.
    - split; [apply frame_refl|repeat split; auto].
    - split; [|repeat split; auto]. apply frame_set_orc.
      unfold orc_le. cbn. rewrite E. repeat split; auto using suffix_refl, suffix_tail.
  Qed.

  Lemma pop_al_frame st b st' : pop_al st = (b, st') ->
    frame st st' /\ st_mm st' = st_mm st /\ st_fb st' = st_fb st /\
    st_policy st' = st_policy st /\ st_live st' = st_live st /\
    (b = true -> In true (o_al (st_orc st))).
  Proof.
    unfold pop_al. destruct (o_al (st_orc st)) as [|b0 t] eqn:E; intro H; injection H as <- <-.
    - split; [apply frame_refl|repeat split; auto; discriminate].
    - split; [|repeat split; auto; intros ->; now left]. apply frame_set_orc.
      unfold orc_le. cbn. rewrite E. repeat split; auto using suffix_refl, suffix_tail.
  Qed.

  (** ** One [fcache_get], on file [fidx] *)

  Lemma store_get_cases {C} k bits (s : store C) :
    match store_get k bits s with
    | Hit c s' => exists e, lookup k (s_ents s) = Some e /\ c = e_val e /\
                            s' = mkStore (s_cap s) (incr k (s_ents s))
    | Busy => lookup k (s_ents s) = None /\ s_cap s <= nref s
    | Miss s' => lookup k (s_ents s) = None /\ nref s < s_cap s /\ s' = make_room bits s
    end.
  Proof.
    unfold store_get. destruct (lookup k (s_ents s)) as [e|] eqn:L.
    - exists e. auto.
    - destruct (N.leb_spec (s_cap s) (nref s)); auto.
  Qed.

  Lemma wf_set_mm st mm' :
    wf st -> NoDup (keys (s_ents mm')) -> mm_ok mm' -> wf (set_mm st mm').
  Proof. intros (A & B & C & D) H1 H2. repeat split; assumption. Qed.

  Lemma wf_set_fb st fb' :
    wf st -> NoDup (keys (s_ents fb')) -> fb_ok fb' -> wf (set_fb st fb').
  Proof. intros (A & B & C & D) H1 H2. repeat split; assumption. Qed.

  Section OneIdx.
  Variable fidx : N.
  Hypothesis Hfidx : fidx < P.

  Notation filesz := (fsz fidx).
  Notation file := (fdata fidx).
  Notation slice := (FcacheChunk.slice (fsz fidx) (fdata fidx)).
  Notation pceil := (pageceil pgshift (fsz fidx)).
  Notation get_mmap := (fcache_get_mmap pgshift order fsz fdata true fidx).
  Notation get_read := (fcache_get_read pgshift fsz fdata true fidx).
  Notation get := (fcache_get pgshift order fsz fdata true true fidx).

  (** what the caller may rely on for an entry obtained at [pos] *)
  Definition good_fce (pos : N) (f : fce) : Prop :=
    1 <= fc_len f /\
    fc_view f = map Byte (slice pos (fc_len f)) /\
    align_down pos P + P <= pos + fc_len f /\
    (pos < pceil -> pos + fc_len f <= pceil).

  Lemma blk_off pos : align_down pos M + low_bits pos M = pos.
  Proof. rewrite adM, lbM. apply (fl_mod M M_pos). Qed.

  Lemma mmap_found_good pos k full :
    align_down pos P < filesz ->
    good_fce pos (mkFce MM k (mmap_len filesz pos)
                        (map (mm_byte pgshift filesz file)
                             (offs (align_down pos M + low_bits pos M) (mmap_len filesz pos))) full).
  Proof.
    intro H. rewrite blk_off. destruct (mmap_len_spec filesz pos H) as (L1 & L2 & L3 & L4).
    unfold good_fce. cbn [fc_len fc_view]. repeat split; auto.
    now apply mm_view_slice.
  Qed.

  Lemma mm_ok_In s e : mm_ok s -> In e (s_ents s) ->
    match e_val e with
    | MapOk f b => f = low_bits (e_key e) M /\ b = align_down (e_key e) M
    | MapFailed => True
    end.
  Proof. unfold mm_ok. rewrite Forall_forall. intros H Hi. exact (H e Hi). Qed.

  Lemma get_mmap_spec st pos r st' :
    get_mmap st pos = (r, st') -> wf st ->
    frame st st' /\ st_policy st' = st_policy st /\ st_fb st' = st_fb st /\
    st_live st' = st_live st /\
    match r with
    | GOk f =>
      good_fce pos f /\ fc_which f = MM /\
      (forall k, refcount k (st_mm st') =
                 refcount k (st_mm st) + (if k =? fc_key f then 1 else 0)) /\
      nref (st_mm st') <= nref (st_mm st) + 1
    | GErr ERR_NODATA => pceil <= pos /\ st_mm st' = st_mm st
    | GErr ERR_BUSY => s_cap (st_mm st) <= nref (st_mm st) /\ st_mm st' = st_mm st
    | GErr ERR_SYSTEM =>
      (~ mm_clean st \/ In true (o_mf (st_orc st))) /\
      (forall k, refcount k (st_mm st') = refcount k (st_mm st)) /\
      nref (st_mm st') = nref (st_mm st)
    | GErr OK => False
    end.
  Proof.
    unfold fcache_get_mmap. intros H Hwf.
    destruct (N.leb_spec filesz (align_down pos P)) as [Hnd|Hlt].
    { injection H as <- <-. split; [apply frame_refl|]. splits; auto.
      now apply nodata_beyond. }
    cbn [andb] in H. fold (mmap_len filesz pos) in H.
    destruct (key_decode_M pos fidx Hfidx) as [Dk1 Dk2]. cbv zeta in Dk1, Dk2.
    set (blk := align_down pos M) in *.
    set (key := N.lor blk fidx) in *.
    destruct (pop_ev st) as [ev st0] eqn:Epop.
    destruct (pop_ev_frame _ _ _ Epop) as (F0 & Em0 & Ef0 & Ep0 & El0).
    assert (Hwf0 : wf st0) by (apply (fr_wf _ _ F0 Hwf)).
    pose proof (store_get_cases key ev (st_mm st0)) as Hc.
    destruct (store_get key ev (st_mm st0)) as [c mm'| |mm'].
    - (* hit *)
      destruct Hc as (e & Hl & -> & ->).
      destruct (lookup_some _ _ _ Hl) as [Hin Hk].
      assert (Hkeys : In key (keys (s_ents (st_mm st0)))).
      { rewrite <- Hk. unfold keys. now apply in_map. }
      assert (Hw1 : wf (set_mm st0 (mkStore (s_cap (st_mm st0)) (incr key (s_ents (st_mm st0)))))).
      { apply wf_set_mm; [exact Hwf0| |]; sproj.
        - rewrite keys_incr. apply Hwf0.
        - unfold mm_ok. sproj. apply Forall_incr; [auto|apply Hwf0]. }
      pose proof (mm_ok_In _ e (proj2 (proj2 (proj2 Hwf0))) Hin) as Hcont.
      destruct (e_val e) as [mf mblk|] eqn:Ev.
      + rewrite Hk, Dk1, Dk2 in Hcont. destruct Hcont as [-> ->].
        injection H as <- <-. split; [|sproj; splits; auto].
        * apply (frame_trans _ _ _ F0). constructor; sproj; auto using orc_le_refl.
          intro Hcl. left. unfold mm_clean. sproj. apply Forall_incr; auto.
        * now apply mmap_found_good.
        * intro k. rewrite !refcount_rcl. sproj. rewrite <- Em0. now apply rcl_incr.
        * rewrite !nref_nrefl. sproj. rewrite <- Em0. apply nrefl_incr.
      + (* a cached MAP_FAILED: the reference is given back at once *)
        injection H as <- <-.
        assert (Hnc : ~ mm_clean st).
        { intro Hcl. unfold mm_clean in Hcl. rewrite <- Em0, Forall_forall in Hcl.
          specialize (Hcl e Hin). congruence. }
        unfold store_put. sproj. rewrite decr_incr.
        split; [|sproj; splits; auto].
        * apply (frame_trans _ _ _ F0). constructor; sproj; auto using orc_le_refl.
        * intro k. rewrite !refcount_rcl. sproj. now rewrite Em0.
        * rewrite !nref_nrefl. sproj. now rewrite Em0.
    - (* busy *)
      destruct Hc as [Hl Hb]. injection H as <- <-.
      split; [exact F0|]. rewrite <- Em0. splits; auto.
    - (* miss *)
      destruct Hc as (Hl & Hroom & ->).
      destruct (pop_mf st0) as [failed st1] eqn:Epm.
      destruct (pop_mf_frame _ _ _ Epm) as (F1 & Em1 & Ef1 & Ep1 & El1 & Hbit).
      pose proof (lookup_none _ _ Hl) as Habs.
      pose proof (make_room_absent ev _ _ Habs) as Habs'.
      pose proof (make_room_NoDup ev _ (proj1 Hwf0)) as Hnd'.
      assert (Hmk : mm_ok (make_room ev (st_mm st0))).
      { destruct Hwf0 as (_ & _ & _ & Hok). unfold mm_ok in *. rewrite Forall_forall in *.
        intros x Hx. apply Hok. eapply make_room_In; eauto. }
      assert (Hw1 : forall c rf, (c = MapFailed \/ c = MapOk fidx blk) ->
                     wf (set_mm st1 (mkStore (s_cap (st_mm st0))
                     (s_ents (make_room ev (st_mm st0)) ++ [mkEntry key c rf])))).
      { intros c rf Hc. apply wf_set_mm; [apply (fr_wf _ _ F1 Hwf0)| |]; sproj.
        - now apply NoDup_snoc_entry.
        - unfold mm_ok. sproj. apply Forall_app. split; [exact Hmk|].
          constructor; [|constructor]. cbn [e_val e_key].
          destruct Hc as [->| ->]; [exact I|]. now rewrite Dk1, Dk2. }
      assert (Fr : forall c rf, (c = MapFailed /\ failed = true \/ c = MapOk fidx blk) ->
                frame st (set_mm st1 (mkStore (s_cap (st_mm st0))
                     (s_ents (make_room ev (st_mm st0)) ++ [mkEntry key c rf])))).
      { intros c rf Hc. apply (frame_trans _ _ _ F0). constructor; sproj.
        - intros _. apply Hw1. tauto.
        - reflexivity.
        - now rewrite Ef1.
        - apply (fr_orc _ _ F1).
        - intro Hcl. destruct Hc as [[-> Hf]| ->].
          + right. now apply Hbit.
          + left. unfold mm_clean. sproj. apply Forall_app. split.
            * unfold mm_clean in Hcl. rewrite Forall_forall in *.
              intros x Hx. apply Hcl. eapply make_room_In; eauto.
            * constructor; [discriminate|constructor]. }
      destruct failed.
      + (* MAP_FAILED is cached, unreferenced *)
        injection H as <- <-. unfold store_put, store_insert. sproj.
        rewrite decr_insert by exact Habs'.
        split; [apply Fr; auto|].
        sproj. rewrite Ef1, Ep1, El1. splits; auto.
        * right. destruct (fr_orc _ _ F0) as (_ & S & _). eapply suffix_In; [exact S|].
          now apply Hbit.
        * intro k. rewrite !refcount_rcl. sproj. rewrite rcl_snoc0 by exact Habs'.
          rewrite make_room_rcl by apply Hwf0. now rewrite Em0.
        * rewrite !nref_nrefl. sproj. rewrite nrefl_snoc0. unfold nrefl.
          rewrite make_room_held. now rewrite Em0.
      + injection H as <- <-. split; [apply (Fr (MapOk fidx blk) 1); now right|].
        sproj. rewrite Ef1, Ep1, El1. splits; auto.
        * now apply mmap_found_good.
        * intro k. rewrite !refcount_rcl. sproj. rewrite rcl_insert by exact Habs'.
          rewrite make_room_rcl by apply Hwf0. now rewrite Em0.
        * rewrite !nref_nrefl. sproj. rewrite nrefl_insert. unfold nrefl.
          rewrite make_room_held. rewrite Em0. lia.
  Qed.

  Lemma read_found_good pos k :
    good_fce pos (mkFce FB k (P - low_bits pos P)
      (map Byte (firstn (N.to_nat (P - low_bits pos P))
                        (skipn (N.to_nat (low_bits pos P)) (slice (align_down pos P) P)))) true).
  Proof.
    rewrite lbP, adP.
    pose proof (fl_mod P P_pos pos) as Hm. pose proof (mod_lt P P_pos pos) as Hr.
    unfold good_fce. sproj. splits.
    - lia.
    - rewrite skipn_slice by lia. rewrite firstn_slice by lia. now rewrite Hm.
    - rewrite adP. lia.
    - intro Hlt. apply below_ceil_conv in Hlt. apply below_ceil in Hlt. rewrite adP in Hlt. lia.
  Qed.

  Lemma fb_ok_In s e : fb_ok s -> In e (s_ents s) ->
    e_val e = FcacheChunk.slice (fsz (low_bits (e_key e) P)) (fdata (low_bits (e_key e) P))
                                (align_down (e_key e) P) P.
  Proof. unfold fb_ok. rewrite Forall_forall. intros H Hi. exact (H e Hi). Qed.

  Lemma get_read_spec st pos r st' :
    get_read st pos = (r, st') -> wf st ->
    frame st st' /\ st_policy st' = st_policy st /\ st_mm st' = st_mm st /\
    st_live st' = st_live st /\
    match r with
    | GOk f =>
      good_fce pos f /\ fc_which f = FB /\
      (forall k, refcount k (st_fb st') =
                 refcount k (st_fb st) + (if k =? fc_key f then 1 else 0)) /\
      nref (st_fb st') <= nref (st_fb st) + 1
    | GErr ERR_BUSY => s_cap (st_fb st) <= nref (st_fb st) /\ st_fb st' = st_fb st
    | GErr ERR_SYSTEM =>
      In true (o_rf (st_orc st)) /\
      (forall k, refcount k (st_fb st') = refcount k (st_fb st)) /\
      nref (st_fb st') = nref (st_fb st)
    | GErr _ => False
    end.
  Proof.
    unfold fcache_get_read. intros H Hwf.
    destruct (key_decode_P pos fidx Hfidx) as [Dk1 Dk2]. cbv zeta in Dk1, Dk2.
    set (blk := align_down pos P) in *.
    set (key := N.lor blk fidx) in *.
    destruct (pop_ev st) as [ev st0] eqn:Epop.
    destruct (pop_ev_frame _ _ _ Epop) as (F0 & Em0 & Ef0 & Ep0 & El0).
    assert (Hwf0 : wf st0) by (apply (fr_wf _ _ F0 Hwf)).
    pose proof (store_get_cases key ev (st_fb st0)) as Hc.
    destruct (store_get key ev (st_fb st0)) as [c fb'| |fb'].
    - (* hit *)
      destruct Hc as (e & Hl & -> & ->).
      destruct (lookup_some _ _ _ Hl) as [Hin Hk].
      assert (Hkeys : In key (keys (s_ents (st_fb st0)))).
      { rewrite <- Hk. unfold keys. now apply in_map. }
      assert (Hv : e_val e = slice blk P).
      { rewrite (fb_ok_In _ e (proj1 (proj2 (proj2 Hwf0))) Hin). now rewrite Hk, Dk1, Dk2. }
      injection H as <- <-. split; [|sproj; splits; auto].
      + apply (frame_trans _ _ _ F0). constructor; sproj; auto using orc_le_refl.
        intro W. apply wf_set_fb; [exact W| |]; sproj.
        * rewrite keys_incr. apply W.
        * unfold fb_ok. sproj. apply Forall_incr; [auto|apply W].
      + rewrite Hv. apply read_found_good.
      + intro k. rewrite !refcount_rcl. sproj. rewrite <- Ef0. now apply rcl_incr.
      + rewrite !nref_nrefl. sproj. rewrite <- Ef0. apply nrefl_incr.
    - (* busy *)
      destruct Hc as [Hl Hb]. injection H as <- <-.
      split; [exact F0|]. rewrite <- Ef0. splits; auto.
    - (* miss *)
      destruct Hc as (Hl & Hroom & ->).
      destruct (pop_rf st0) as [failed st1] eqn:Epr.
      destruct (pop_rf_frame _ _ _ Epr) as (F1 & Em1 & Ef1 & Ep1 & El1 & Hbit).
      pose proof (lookup_none _ _ Hl) as Habs.
      assert (Hwf1 : wf st1) by (apply (fr_wf _ _ F1 Hwf0)).
      assert (Hok : fb_ok (make_room ev (st_fb st0))).
      { destruct Hwf0 as (_ & _ & Hok & _). unfold fb_ok in *. rewrite Forall_forall in *.
        intros x Hx. apply Hok. eapply make_room_In; eauto. }
      assert (F01 : frame st st1) by (eapply frame_trans; eauto).
      destruct failed.
      + injection H as <- <-. split; [|sproj; rewrite Em1, Ep1, El1; splits; auto].
        * apply (frame_trans _ _ _ F01). constructor; sproj; auto using orc_le_refl.
          -- intro W. apply wf_set_fb; [exact W| |exact Hok].
             apply make_room_NoDup. apply Hwf0.
          -- now rewrite Ef1.
        * destruct (fr_orc _ _ F0) as (_ & _ & S & _). eapply suffix_In; [exact S|]. now apply Hbit.
        * intro k. rewrite !refcount_rcl. rewrite make_room_rcl by apply Hwf0. now rewrite Ef0.
        * rewrite !nref_nrefl. unfold nrefl. rewrite make_room_held. now rewrite Ef0.
      + injection H as <- <-. split; [|sproj; rewrite Em1, Ep1, El1; splits; auto].
        * apply (frame_trans _ _ _ F01). constructor; sproj; auto using orc_le_refl.
          -- intro W. apply wf_set_fb; [exact W| |]; sproj.
             ++ apply NoDup_insert; [apply make_room_NoDup; apply Hwf0|now apply make_room_absent].
             ++ unfold fb_ok. sproj. apply Forall_app. split; [exact Hok|].
                constructor; [|constructor]. cbn [e_val e_key]. rewrite Dk1, Dk2.
                apply read_page_slice.
          -- now rewrite Ef1.
        * rewrite read_page_slice. apply read_found_good.
        * intro k. rewrite !refcount_rcl. sproj. rewrite rcl_insert by now apply make_room_absent.
          rewrite make_room_rcl by apply Hwf0. now rewrite Ef0.
        * rewrite !nref_nrefl. sproj. rewrite nrefl_insert. unfold nrefl.
          rewrite make_room_held. rewrite Ef0. lia.
  Qed.

  (** ** Reference accounting *)

  Definition rc (w : which) (k : N) (st : state) : N :=
    match w with MM => refcount k (st_mm st) | FB => refcount k (st_fb st) end.
  Definition nr (w : which) (st : state) : N :=
    match w with MM => nref (st_mm st) | FB => nref (st_fb st) end.
  Definition capw (w : which) (st : state) : N :=
    match w with MM => s_cap (st_mm st) | FB => s_cap (st_fb st) end.
  Definition same_w (a b : which) : bool :=
    match a, b with MM, MM | FB, FB => true | _, _ => false end.
  (** the reference an entry stands for *)
  Definition delta (f : fce) (w : which) (k : N) : N :=
    if same_w w (fc_which f) && (k =? fc_key f) then 1 else 0.
  Definition dw (f : fce) (w : which) : N := if same_w w (fc_which f) then 1 else 0.

  Lemma put_spec st f :
    frame st (fcache_put st f) /\
    st_policy (fcache_put st f) = st_policy st /\
    st_live (fcache_put st f) = st_live st /\
    st_orc (fcache_put st f) = st_orc st /\
    (forall w k, rc w k (fcache_put st f) = rc w k st - delta f w k) /\
    (forall w, nr w (fcache_put st f) <= nr w st).
  Proof.
    clear Hfidx.
    unfold fcache_put, delta. destruct (fc_which f); sproj; splits; auto.
    - constructor; sproj; auto using orc_le_refl.
      + intro W. apply wf_set_mm; [exact W| |]; sproj.
        * rewrite keys_decr. apply W.
        * unfold mm_ok. sproj. apply Forall_decr; [auto|apply W].
      + intro Hc. left. unfold mm_clean. sproj. apply Forall_decr; auto.
    - intros [|] k; unfold rc; sproj; rewrite ?refcount_rcl; sproj; cbn [same_w andb].
      + apply rcl_decr.
      + lia.
    - intros [|]; unfold nr; sproj; rewrite ?nref_nrefl; sproj; [apply nrefl_decr|lia].
    - constructor; sproj; auto using orc_le_refl.
      intro W. apply wf_set_fb; [exact W| |]; sproj.
      + rewrite keys_decr. apply W.
      + unfold fb_ok. sproj. apply Forall_decr; [auto|apply W].
    - intros [|] k; unfold rc; sproj; rewrite ?refcount_rcl; sproj; cbn [same_w andb].
      + lia.
      + apply rcl_decr.
    - intros [|]; unfold nr; sproj; rewrite ?nref_nrefl; sproj; [lia|apply nrefl_decr].
  Qed.

  Lemma frame_set_policy st p : frame st (set_policy st p).
  Proof. constructor; sproj; auto using orc_le_refl. Qed.

  Definition get_status_ok (st : state) (pos : N) (r : gres) : Prop :=
    match r with
    | GOk f => good_fce pos f
    | GErr OK => False
    | GErr ERR_NODATA => st_policy st = ALWAYS /\ pceil <= pos
    | GErr ERR_SYSTEM =>
      ~ mm_clean st \/ In true (o_mf (st_orc st)) \/ In true (o_rf (st_orc st))
    | GErr ERR_BUSY =>
      s_cap (st_fb st) <= nref (st_fb st) \/
      (st_policy st = ALWAYS /\ s_cap (st_mm st) <= nref (st_mm st))
    end.

  Definition get_refs_ok (st : state) (r : gres) (st' : state) : Prop :=
    forall w,
      (forall k, rc w k st' = rc w k st + match r with GOk f => delta f w k | GErr _ => 0 end) /\
      nr w st' <= nr w st + match r with GOk f => dw f w | GErr _ => 0 end.

  (** the mmap sub-cache holds the same references in both states *)
  Definition mm_same_refs (st1 st : state) : Prop :=
    (forall k, refcount k (st_mm st1) = refcount k (st_mm st)) /\
    nref (st_mm st1) = nref (st_mm st).

  Lemma get_spec st pos r st' :
    get st pos = (r, st') -> wf st ->
    frame st st' /\ st_live st' = st_live st /\
    (st_policy st' = st_policy st \/ st_policy st = TRY_ONCE) /\
    get_status_ok st pos r /\
    get_refs_ok st r st'.
  Proof.
    unfold fcache_get. intros H Hwf.
    assert (Hread : forall st2 r st', get_read st2 pos = (r, st') -> wf st2 ->
              frame st st2 -> st_fb st2 = st_fb st -> st_live st2 = st_live st ->
              frame st st' /\ st_live st' = st_live st /\ st_policy st' = st_policy st2 /\
              (st_policy st <> ALWAYS -> get_status_ok st pos r) /\
              (mm_same_refs st2 st -> get_refs_ok st r st')).
    { clear H r st'. intros st2 r st' H W2 F2 Ef El.
      destruct (get_read_spec _ _ _ _ H W2) as (F & Ep' & Em' & El' & Hr).
      split; [eapply frame_trans; eauto|]. split; [congruence|]. split; [exact Ep'|].
      destruct (fr_orc _ _ F2) as (_ & _ & S & _).
      split.
      - intro Hna. unfold get_status_ok. destruct r as [f|[]]; try tauto.
        + right. right. eapply suffix_In; [exact S|]. apply Hr.
        + left. rewrite <- Ef. apply Hr.
      - intros [Emk Emn] [|]; unfold rc, nr; rewrite ?Em', <- ?Ef.
        + split; [intro k; rewrite Emk|rewrite Emn]; destruct r as [f|s]; try lia.
          destruct Hr as (_ & Hw & _). unfold delta. rewrite Hw. cbn [same_w andb]. lia.
        + split; [intro k|]; destruct r as [f|[]]; try tauto.
          * destruct Hr as (_ & Hw & Hrc & _). unfold delta. rewrite Hw. cbn [same_w andb]. apply Hrc.
          * destruct Hr as (_ & Hrc & _). rewrite Hrc. lia.
          * destruct Hr as (_ & ->). lia.
          * destruct Hr as (_ & Hw & _ & Hn). unfold dw. rewrite Hw. cbn [same_w]. exact Hn.
          * destruct Hr as (_ & _ & ->). lia.
          * destruct Hr as (_ & ->). lia. }
    (* the mmap attempt, for the three policies that make one *)
    assert (Hmm : forall r1 st1, get_mmap st pos = (r1, st1) ->
              frame st st1 /\ st_policy st1 = st_policy st /\ st_fb st1 = st_fb st /\
              st_live st1 = st_live st /\
              match r1 with
              | GOk f => good_fce pos f /\ get_refs_ok st r1 st1
              | GErr s =>
                (s = ERR_NODATA -> pceil <= pos) /\
                (s = ERR_BUSY -> s_cap (st_mm st) <= nref (st_mm st)) /\
                (s = ERR_SYSTEM -> ~ mm_clean st \/ In true (o_mf (st_orc st))) /\
                s <> OK /\
                mm_same_refs st1 st
              end).
    { intros r1 st1 Em.
      destruct (get_mmap_spec _ _ _ _ Em Hwf) as (F & Ep & Ef & El & Hr).
      splits; auto. destruct r1 as [f|s].
      - destruct Hr as (Hg & Hw & Hrc & Hn). split; [exact Hg|].
        intros [|]; unfold rc, nr, delta, dw; rewrite ?Ef, Hw; cbn [same_w andb];
          split; auto; intros; lia.
      - splits.
        + intros ->. apply Hr.
        + intros ->. apply Hr.
        + intros ->. apply Hr.
        + intros ->. exact Hr.
        + unfold mm_same_refs. destruct s; try tauto.
          * destruct Hr as (_ & ->). split; reflexivity.
          * destruct Hr as (_ & ->). split; reflexivity. }
    assert (Hsame : forall s st1, mm_same_refs st1 st -> st_fb st1 = st_fb st ->
                                  get_refs_ok st (GErr s) st1).
    { intros s st1 [Hk Hn] Ef [|]; unfold rc, nr; rewrite ?Ef; split; intros;
        rewrite ?Hk, ?Hn; lia. }
    destruct (st_policy st) eqn:Epol.
    - (* NEVER *)
      destruct (Hread st r st' H Hwf (frame_refl st) eq_refl eq_refl)
        as (F & El & Ep & Hs & Hrf).
      splits; auto; try (left; congruence); try (now right).
      + apply Hs. discriminate.
      + apply Hrf. split; reflexivity.
    - (* ALWAYS *)
      destruct (get_mmap st pos) as [r1 st1] eqn:Em.
      destruct (Hmm _ _ eq_refl) as (F & Ep & Ef & El & Hr).
      assert (E : (r, st') = (r1, st1)) by (destruct r1; now rewrite <- H).
      injection E as -> ->. splits; auto; try (left; congruence); try (now right).
      + unfold get_status_ok. destruct r1 as [f|s]; [apply Hr|].
        destruct Hr as (H1 & H2 & H3 & H4 & _). destruct s; tauto.
      + destruct r1 as [f|s]; [apply Hr|]. apply Hsame; [apply Hr|exact Ef].
    - (* TRY *)
      destruct (get_mmap st pos) as [r1 st1] eqn:Em.
      destruct (Hmm _ _ eq_refl) as (F & Ep & Ef & El & Hr).
      destruct r1 as [f|s].
      + injection H as <- <-. splits; auto; try (left; congruence); apply Hr.
      + destruct (Hread st1 r st' H (fr_wf _ _ F Hwf) F Ef El)
          as (F' & El' & Ep' & Hs & Hrf).
        splits; auto; try (left; congruence); try (now right).
        * apply Hs. discriminate.
        * apply Hrf. apply Hr.
    - (* TRY_ONCE *)
      destruct (get_mmap st pos) as [r1 st1] eqn:Em.
      destruct (Hmm _ _ eq_refl) as (F & Ep & Ef & El & Hr).
      destruct r1 as [f|s].
      + injection H as <- <-. splits; auto; try (left; congruence); try (now right).
        * eapply frame_trans; [exact F|apply frame_set_policy].
        * apply Hr.
        * destruct Hr as [_ Hr]. intros w. specialize (Hr w). exact Hr.
      + assert (F2 : frame st (set_policy st1 NEVER))
          by (eapply frame_trans; [exact F|apply frame_set_policy]).
        destruct (Hread (set_policy st1 NEVER) r st' H (fr_wf _ _ F2 Hwf) F2 Ef El)
          as (F' & El' & Ep' & Hs & Hrf).
        splits; auto; try (left; congruence); try (now right).
        * apply Hs. discriminate.
        * apply Hrf. apply Hr.
  Qed.

  (** ** Operations *)

  Lemma mm_clean_dec st : {mm_clean st} + {~ mm_clean st}.
  Proof.
    unfold mm_clean. apply Forall_dec. intro e.
    destruct (e_val e); [left; discriminate|right; intro H; now apply H].
  Qed.

  (** an error status that is not the file's fault needs an excuse *)
  Definition excuse (st0 : state) : Prop := ~ mm_clean st0 \/ io_failure (st_orc st0).

  (** [st0]: state at the start of the operation (its oracle installed);
      [beyond]: the range leaves the pages of the file;
      [extra]: entries the operation itself may hold when it asks for one more *)
  Definition op_err_ok (st0 : state) (beyond : Prop) (extra : N) (s : status) : Prop :=
    match s with
    | OK => False
    | ERR_NODATA => beyond /\ (st_policy st0 = ALWAYS \/ st_policy st0 = TRY_ONCE)
    | ERR_SYSTEM => excuse st0
    | ERR_BUSY => capw FB st0 <= nr FB st0 + extra \/ capw MM st0 <= nr MM st0 + extra
    end.

  Lemma nr_ext st1 st2 :
    wf st1 -> wf st2 -> (forall w k, rc w k st1 = rc w k st2) -> forall w, nr w st1 = nr w st2.
  Proof.
    intros (A1 & B1 & _) (A2 & B2 & _) E [|]; unfold nr; rewrite !nref_nrefl;
      apply nrefl_ext; auto; intro k.
    - apply (E MM k).
    - apply (E FB k).
  Qed.

  Lemma excuse_of_get st0 st :
    frame st0 st ->
    ~ mm_clean st \/ In true (o_mf (st_orc st)) \/ In true (o_rf (st_orc st)) ->
    excuse st0.
  Proof.
    intros F H. destruct (fr_orc _ _ F) as (_ & S1 & S2 & _). unfold excuse, io_failure.
    destruct H as [H|[H|H]].
    - destruct (mm_clean_dec st0) as [C|C]; [|now left].
      destruct (fr_clean _ _ F C) as [C'|B]; [contradiction|right; now left].
    - right. left. eapply suffix_In; eauto.
    - right. right. left. eapply suffix_In; eauto.
  Qed.

  (** status of a failed [fcache_get] inside an operation started in [st0] *)
  Lemma get_err_ok st0 st pos s (beyond : Prop) extra :
    wf st0 -> wf st -> frame st0 st ->
    (st_policy st = st_policy st0 \/ st_policy st0 = TRY_ONCE) ->
    (pceil <= pos -> beyond) ->
    (forall w, nr w st <= nr w st0 + extra) ->
    get_status_ok st pos (GErr s) -> op_err_ok st0 beyond extra s.
  Proof.
    intros W0 W F Hp Hb Hn H. unfold get_status_ok in H. destruct s; cbn [op_err_ok].
    - exact H.
    - eapply excuse_of_get; eauto.
    - destruct H as [Hpol Hpos]. split; [auto|]. destruct Hp as [Hp|Hp]; [left; congruence|now right].
    - pose proof (fr_capm _ _ F) as Cm. pose proof (fr_capf _ _ F) as Cf.
      destruct H as [H|[_ H]].
      + left. specialize (Hn FB). unfold capw, nr in *. lia.
      + right. specialize (Hn MM). unfold capw, nr in *. lia.
  Qed.

  Notation pread_loop := (pread_loop pgshift order fsz fdata true true fidx).

  Definition pread_result_ok (st0 : state) (pos len : N) (acc : list N) (r : outcome) : Prop :=
    match r with
    | OutData bs g => bs = acc ++ slice pos len /\ g = GEmpty
    | OutErr s => op_err_ok st0 (pceil < pos + len) 0 s
    | _ => False
    end.

  Lemma pread_loop_spec fuel : forall st pos len acc st0 r st',
    wf st0 -> frame st0 st ->
    (st_policy st = st_policy st0 \/ st_policy st0 = TRY_ONCE) ->
    (forall w k, rc w k st = rc w k st0) ->
    (N.to_nat len < fuel)%nat ->
    pread_loop fuel st pos len acc = (r, st') ->
    frame st0 st' /\ st_live st' = st_live st /\
    (st_policy st' = st_policy st0 \/ st_policy st0 = TRY_ONCE) /\
    (forall w k, rc w k st' = rc w k st0) /\
    pread_result_ok st0 pos len acc r.
  Proof.
    induction fuel as [|fuel IH]; intros st pos len acc st0 r st' W0 F Hp Hrc Hfuel H; [lia|].
    cbn [FcacheChunk.pread_loop] in H.
    assert (W : wf st) by (apply (fr_wf _ _ F W0)).
    destruct (N.eqb_spec len 0) as [->|Hlen].
    { injection H as <- <-. splits; auto. cbn. now rewrite app_nil_r. }
    destruct (get st pos) as [g st1] eqn:Eg.
    destruct (get_spec _ _ _ _ Eg W) as (F1 & El1 & Hp1 & Hs & Hq).
    assert (F01 : frame st0 st1) by (eapply frame_trans; eauto).
    assert (Hp01 : st_policy st1 = st_policy st0 \/ st_policy st0 = TRY_ONCE).
    { destruct Hp1 as [E|E]; [rewrite E; exact Hp|]. destruct Hp as [E'|E']; [right; congruence|now right]. }
    destruct g as [f|s].
    - destruct Hs as (L1 & Hv & _ & _).
      set (partlen := N.min (fc_len f) len) in *.
      assert (Hc : collect (firstn (N.to_nat partlen) (fc_view f)) = Some (slice pos partlen)).
      { rewrite Hv, firstn_map, firstn_slice by (unfold partlen; lia). apply collect_Byte. }
      rewrite Hc in H.
      destruct (put_spec st1 f) as (Fp & Pp & Lp & Op & Rp & Np).
      apply IH with (st0 := st0) in H; auto.
      + destruct H as (F' & El' & Hp' & Hrc' & Hres). splits; auto; [congruence|].
        unfold pread_result_ok in *. destruct r; auto.
        * destruct Hres as [-> ->]. split; [|reflexivity].
          rewrite <- app_assoc. f_equal.
          replace len with (partlen + (len - partlen)) at 2 by (unfold partlen; lia).
          now rewrite slice_app.
        * replace (pos + partlen + (len - partlen)) with (pos + len) in Hres
            by (unfold partlen; lia). exact Hres.
      + eapply frame_trans; eauto.
      + now rewrite Pp.
      + intros w k. rewrite Rp.
        destruct (Hq w) as [Hk _]. rewrite Hk, Hrc. lia.
      + unfold partlen. lia.
    - injection H as <- <-. splits; auto.
      + intros w k.
        destruct (Hq w) as [Hk _]. rewrite Hk, Hrc. lia.
      + cbn [pread_result_ok].
        apply get_err_ok with (st := st) (pos := pos); auto.
        * intro. lia.
        * intros w. rewrite N.add_0_r. apply N.eq_le_incl. apply nr_ext; auto.
  Qed.

  (** *** Chunks: auxiliary facts *)

  (** references a list of entries stands for *)
  Fixpoint hc (l : list fce) (w : which) (k : N) : N :=
    match l with [] => 0 | f :: t => delta f w k + hc t w k end.

  Lemma hc_app a b w k : hc (a ++ b) w k = hc a w k + hc b w k.
  Proof. clear Hfidx. induction a as [|f a IH]; cbn [app hc]; [reflexivity|]. rewrite IH. lia. Qed.

  Lemma hc_rev l w k : hc (rev l) w k = hc l w k.
  Proof.
    clear Hfidx.
    induction l as [|f l IH]; cbn [rev hc]; [reflexivity|]. rewrite hc_app, IH. cbn [hc]. lia.
  Qed.

  Lemma fold_put_spec l : forall st,
    let st' := fold_left fcache_put l st in
    frame st st' /\ st_policy st' = st_policy st /\ st_live st' = st_live st /\
    st_orc st' = st_orc st /\
    (forall w k, rc w k st' = rc w k st - hc l w k) /\
    (forall w, nr w st' <= nr w st).
  Proof.
    clear Hfidx.
    induction l as [|f l IH]; intro st; cbn [fold_left hc].
    - splits; auto using frame_refl; intros; lia.
    - destruct (put_spec st f) as (Fp & Pp & Lp & Op & Rp & Np).
      destruct (IH (fcache_put st f)) as (F & Pq & Lq & Oq & Rq & Nq).
      splits; try congruence.
      + eapply frame_trans; eauto.
      + intros w k. rewrite Rq, Rp. lia.
      + intro w. specialize (Nq w). specialize (Np w). lia.
  Qed.

  Lemma put_all_spec st l :
    let st' := put_all st l in
    frame st st' /\ st_policy st' = st_policy st /\ st_live st' = st_live st /\
    st_orc st' = st_orc st /\
    (forall w k, rc w k st' = rc w k st - hc l w k) /\
    (forall w, nr w st' <= nr w st).
  Proof.
    clear Hfidx.
    unfold put_all. destruct (fold_put_spec (rev l) st) as (F & Pq & Lq & Oq & Rq & Nq).
    splits; auto. intros w k. now rewrite Rq, hc_rev.
  Qed.

  Lemma views_app a b : views (a ++ b) = views a ++ views b.
  Proof. unfold views. now rewrite map_app, concat_app. Qed.

  Lemma adP_mono a b : a <= b -> P * (a / P) <= P * (b / P).
  Proof.
    clear Hfidx.
    intro H. apply N.mul_le_mono_l. apply N.div_le_mono; [|exact H].
    pose proof P_pos. lia.
  Qed.

  Lemma adP_lower m x : P * m <= x -> P * m <= P * (x / P).
  Proof.
    clear Hfidx.
    intro H. apply N.mul_le_mono_l. apply N.div_le_lower_bound; [|exact H].
    pose proof P_pos. lia.
  Qed.

  (** the page estimate at the top of [fcache_get_chunk] *)
  Definition est (pos0 len0 : N) : N :=
    (align_down (pos0 + len0 - 1) P - align_down pos0 P) / P + 1.

  Lemma est_bound pos0 len0 pos remain j :
    0 < remain -> pos + remain = pos0 + len0 ->
    align_down pos0 P + P * j <= align_down pos P ->
    j < est pos0 len0.
  Proof.
    clear Hfidx.
    intros Hr Hs Hj. unfold est. rewrite !adP in *.
    assert (Hm : P * (pos / P) <= P * ((pos0 + len0 - 1) / P)) by (apply adP_mono; lia).
    assert (Hd : P * j <= P * ((pos0 + len0 - 1) / P) - P * (pos0 / P)) by lia.
    assert (j <= (P * ((pos0 + len0 - 1) / P) - P * (pos0 / P)) / P); [|lia].
    apply N.div_le_lower_bound; [pose proof P_pos; lia|exact Hd].
  Qed.

  Lemma est_le pos0 len0 : 0 < len0 -> est pos0 len0 <= len0 / P + 2.
  Proof.
    clear Hfidx.
    intro H. unfold est. rewrite !adP.
    pose proof P_pos as HP.
    assert ((P * ((pos0 + len0 - 1) / P) - P * (pos0 / P)) / P <= len0 / P + 1); [|lia].
    pose proof (fl_le P HP (pos0 + len0 - 1)). pose proof (fl_gt P HP pos0).
    assert (E : P * ((pos0 + len0 - 1) / P) - P * (pos0 / P) < len0 + P) by lia.
    apply N.lt_succ_r. rewrite <- N.add_1_r.
    apply N.div_lt_upper_bound; [lia|].
    pose proof (fl_gt P HP len0). lia.
  Qed.

  Lemma same_stores st st' :
    st_mm st' = st_mm st -> st_fb st' = st_fb st ->
    (forall w k, rc w k st' = rc w k st) /\ (forall w, nr w st' = nr w st).
  Proof. intros Em Ef. split; intros [|]; intros; unfold rc, nr; now rewrite ?Em, ?Ef. Qed.

  Lemma set_live_spec st x :
    frame st (set_live st x) /\ st_policy (set_live st x) = st_policy st /\
    st_orc (set_live st x) = st_orc st /\
    (forall w k, rc w k (set_live st x) = rc w k st) /\
    (forall w, nr w (set_live st x) = nr w st).
  Proof.
    splits; auto; try (now intros [|]).
    constructor; sproj; auto using orc_le_refl.
  Qed.

  Lemma release_array_spec arr st :
    frame st (release_array arr st) /\ st_policy (release_array arr st) = st_policy st /\
    st_orc (release_array arr st) = st_orc st /\
    (forall w k, rc w k (release_array arr st) = rc w k st) /\
    (forall w, nr w (release_array arr st) = nr w st) /\
    st_live (release_array arr st) = st_live st - (if arr then 1 else 0).
  Proof.
    unfold release_array, free1. destruct arr.
    - destruct (set_live_spec st (st_live st - 1)) as (A & B & C & D & E). splits; auto.
    - splits; auto using frame_refl. lia.
  Qed.

  (** the entry as [fcache_get_chunk] trims it to the bytes still wanted *)
  Definition trim (f0 : fce) (l : N) : fce :=
    mkFce (fc_which f0) (fc_key f0) l (firstn (N.to_nat l) (fc_view f0)) (fc_full f0).

  Lemma trim_spec pos f0 remain :
    good_fce pos f0 -> 0 < remain ->
    let l := N.min (fc_len f0) remain in
    1 <= l /\ l <= remain /\
    fc_view (trim f0 l) = map Byte (slice pos l) /\
    (forall w k, delta (trim f0 l) w k = delta f0 w k) /\
    (remain - l = 0 \/ P * (pos / P) + P <= P * ((pos + l) / P)).
  Proof.
    intros (L1 & Hv & Ha & _) Hr l. unfold l. splits; try lia.
    - unfold trim. sproj. rewrite Hv, firstn_map, firstn_slice by lia. reflexivity.
    - reflexivity.
    - destruct (N.le_gt_cases (fc_len f0) remain) as [C|C]; [right|left; lia].
      rewrite N.min_l by exact C. rewrite adP in Ha.
      replace (P * (pos / P) + P) with (P * (pos / P + 1)) by lia.
      apply adP_lower. lia.
  Qed.

  Lemma slice_extend pos0 pos l :
    pos0 <= pos -> slice pos0 (pos + l - pos0) = slice pos0 (pos - pos0) ++ slice pos l.
  Proof.
    intro H. replace (pos + l - pos0) with ((pos - pos0) + l) by lia.
    rewrite slice_app. do 2 f_equal. lia.
  Qed.

  Notation chunk_loop := (FcacheChunk.chunk_loop pgshift order fsz fdata true true fidx).

  Section ChunkLoop.
    (** [st0]: state when the loop is entered; [Lpre]: live allocations before the call *)
    Variables (st0 : state) (pos0 len0 Lpre slots : N) (arr : bool).
    Hypothesis W0 : wf st0.
    Hypothesis Hlen0 : 0 < len0.
    Hypothesis Hslots : est pos0 len0 <= slots.
    Hypothesis Harr : arr = false -> slots = MAX_EMBED_FCES.

    Definition mode_inv (st : state) (pos remain : N) (m : cmode) : Prop :=
      match m with
      | NoCopy held =>
        views held = map Byte (slice pos0 (pos - pos0)) /\
        st_live st = Lpre + (if arr then 1 else 0) /\
        ((forall w k, rc w k st = rc w k st0 + hc held w k) /\
         (forall w, nr w st <= nr w st0 + N.of_nat (length held))) /\
        N.of_nat (length held) <= slots /\
        (remain = 0 \/
         align_down pos0 P + P * N.of_nat (length held) <= align_down pos P)
      | Copy buf =>
        buf = slice pos0 (pos - pos0) /\
        st_live st = Lpre + 1 /\
        (forall w k, rc w k st = rc w k st0)
      end.

    Definition geometry_ok (c : chunk) : Prop :=
      match ch_geom c with
      | GEmpty => False
      | Embedded n => n = N.of_nat (length (ch_held c)) /\ n <= MAX_EMBED_FCES
      | Array n => n = N.of_nat (length (ch_held c)) /\ MAX_EMBED_FCES < n
      | Copied => ch_held c = []
      end.

    Definition chunk_result_ok (r : chunk_res) (st' : state) : Prop :=
      frame st0 st' /\
      (st_policy st' = st_policy st0 \/ st_policy st0 = TRY_ONCE) /\
      match r with
      | ChOk c =>
        ch_data c = map Byte (slice pos0 len0) /\ geometry_ok c /\
        st_policy (fcache_put_chunk st' c) = st_policy st' /\
        frame st' (fcache_put_chunk st' c) /\
        (forall w k, rc w k (fcache_put_chunk st' c) = rc w k st0) /\
        st_live (fcache_put_chunk st' c) = Lpre
      | ChErr s =>
        op_err_ok st0 (pceil < pos0 + len0) (slots - 1) s /\
        (forall w k, rc w k st' = rc w k st0) /\
        st_live st' = Lpre
      | _ => False
      end.

    Lemma chunk_loop_spec fuel : forall st pos remain m r st',
      frame st0 st ->
      (st_policy st = st_policy st0 \/ st_policy st0 = TRY_ONCE) ->
      pos0 <= pos -> pos + remain = pos0 + len0 ->
      mode_inv st pos remain m ->
      (N.to_nat remain < fuel)%nat ->
      chunk_loop fuel st pos remain slots arr m = (r, st') ->
      chunk_result_ok r st'.
    Proof.
      induction fuel as [|fuel IH]; intros st pos remain m r st' F Hp Hpos Hsum Hm Hfuel H; [lia|].
      cbn [FcacheChunk.chunk_loop] in H.
      assert (W : wf st) by (apply (fr_wf _ _ F W0)).
      destruct (N.eqb_spec remain 0) as [->|Hrem].
      { (* after the loop *)
        assert (Hdone : pos - pos0 = len0) by lia.
        destruct m as [held|buf]; cbn [mode_inv] in Hm.
        - destruct Hm as (Hv & Hl & Hq & Hsl & _).
          destruct (put_all_spec st held) as (Fp & Pp & Lp & Op & Rp & Np).
          destruct (N.ltb_spec MAX_EMBED_FCES (N.of_nat (length held))) as [Hbig|Hsmall].
          + destruct arr eqn:Ea; [|rewrite Harr in Hsl by reflexivity; lia].
            injection H as <- <-. unfold chunk_result_ok. splits.
            * exact F.
            * exact Hp.
            * cbn [ch_data]. now rewrite Hv, Hdone.
            * unfold geometry_ok. cbn. split; [reflexivity|exact Hbig].
            * cbn [fcache_put_chunk ch_geom ch_held]. unfold free1. sproj. exact Pp.
            * cbn [fcache_put_chunk ch_geom ch_held]. unfold free1.
              eapply frame_trans; [exact Fp|apply set_live_spec].
            * intros w k. cbn [fcache_put_chunk ch_geom ch_held]. unfold free1.
              destruct (set_live_spec (put_all st held) (st_live (put_all st held) - 1))
                as (_ & _ & _ & Hrc & _).
              rewrite Hrc, Rp. destruct Hq as [Hk _]. rewrite Hk. lia.
            * cbn [fcache_put_chunk ch_geom ch_held]. unfold free1. sproj. rewrite Lp, Hl. lia.
          + destruct (release_array_spec arr st) as (Fr & Pr & Or & Rr & Nr & Lr).
            destruct (put_all_spec (release_array arr st) held) as (Fp' & Pp' & Lp' & Op' & Rp' & Np').
            injection H as <- <-. unfold chunk_result_ok. splits.
            * eapply frame_trans; eauto.
            * now rewrite Pr.
            * cbn [ch_data]. now rewrite Hv, Hdone.
            * unfold geometry_ok. cbn. split; [reflexivity|exact Hsmall].
            * cbn [fcache_put_chunk ch_geom ch_held]. exact Pp'.
            * cbn [fcache_put_chunk ch_geom ch_held]. exact Fp'.
            * intros w k. cbn [fcache_put_chunk ch_geom ch_held].
              rewrite Rp', Rr. destruct Hq as [Hk _]. rewrite Hk. lia.
            * cbn [fcache_put_chunk ch_geom ch_held]. rewrite Lp', Lr, Hl. destruct arr; lia.
        - destruct Hm as (-> & Hl & Hq).
          injection H as <- <-. unfold chunk_result_ok. splits.
          + exact F.
          + exact Hp.
          + cbn [ch_data]. now rewrite Hdone.
          + reflexivity.
          + reflexivity.
          + cbn [fcache_put_chunk ch_geom]. apply set_live_spec.
          + intros w k. cbn [fcache_put_chunk ch_geom]. unfold free1.
            destruct (set_live_spec st (st_live st - 1)) as (_ & _ & _ & Hrc & _).
            rewrite Hrc. apply Hq.
          + cbn [fcache_put_chunk ch_geom]. unfold free1. sproj. lia. }
      (* one more entry is needed *)
      assert (Hrem' : 0 < remain) by lia.
      assert (Hguard : (match m with
                        | NoCopy held => slots <=? N.of_nat (length held)
                        | Copy _ => false end) = false).
      { destruct m as [held|buf]; [|reflexivity]. cbn [mode_inv] in Hm.
        destruct Hm as (_ & _ & _ & _ & [Hz|Hj]); [lia|].
        apply N.leb_gt. pose proof (est_bound _ _ _ _ _ Hrem' Hsum Hj). lia. }
      rewrite Hguard in H.
      destruct (get st pos) as [g st1] eqn:Eg.
      destruct (get_spec _ _ _ _ Eg W) as (F1 & El1 & Hp1 & Hs & Hq1).
      assert (F01 : frame st0 st1) by (eapply frame_trans; eauto).
      assert (Hp01 : st_policy st1 = st_policy st0 \/ st_policy st0 = TRY_ONCE).
      { destruct Hp1 as [E|E]; [rewrite E; exact Hp|].
        destruct Hp as [E'|E']; [right; congruence|now right]. }
      destruct g as [f0|s].
      2:{ (* the get failed *)
        assert (Hnr : forall w, nr w st <= nr w st0 + (slots - 1)).
        { intros w. destruct m as [held|buf]; cbn [mode_inv] in Hm.
          - destruct Hm as (_ & _ & Hq & _). destruct Hq as [_ Hn]. specialize (Hn w).
            apply N.leb_gt in Hguard. lia.
          - destruct Hm as (_ & _ & Hq). rewrite (nr_ext st st0 W W0 Hq w). lia. }
        assert (Herr : op_err_ok st0 (pceil < pos0 + len0) (slots - 1) s).
        { apply get_err_ok with (st := st) (pos := pos); auto. intro. lia. }
        destruct m as [held|buf]; cbn [mode_inv] in Hm.
        - destruct Hm as (_ & Hl & Hq & _).
          destruct (put_all_spec st1 held) as (Fp & Pp & Lp & Op & Rp & Np).
          destruct (release_array_spec arr (put_all st1 held)) as (Fr & Pr & Or & Rr & Nr & Lr).
          injection H as <- <-. unfold chunk_result_ok. splits; auto.
          + eapply frame_trans; [exact F01|]. eapply frame_trans; eauto.
          + now rewrite Pr, Pp.
          + intros w k. rewrite Rr, Rp. destruct (Hq1 w) as [Hk _]. rewrite Hk.
            destruct Hq as [Hk0 _]. rewrite Hk0. lia.
          + rewrite Lr, Lp, El1, Hl. destruct arr; lia.
        - destruct Hm as (_ & Hl & Hq).
          injection H as <- <-. unfold chunk_result_ok. splits; auto.
          + eapply frame_trans; [exact F01|apply set_live_spec].
          + intros w k. unfold free1.
            destruct (set_live_spec st1 (st_live st1 - 1)) as (_ & _ & _ & Hrc & _).
            rewrite Hrc. destruct (Hq1 w) as [Hk _]. rewrite Hk, Hq. lia.
          + unfold free1. sproj. rewrite El1, Hl. lia. }
      (* the get succeeded *)
      cbn [get_status_ok] in Hs.
      destruct (trim_spec pos f0 remain Hs Hrem') as (Tl1 & Tl2 & Tv & Td & Tadv).
      fold (trim f0 (N.min (fc_len f0) remain)) in H.
      set (l := N.min (fc_len f0) remain) in *.
      set (f := trim f0 l) in *.
      assert (Hfuel' : (N.to_nat (remain - l) < fuel)%nat) by lia.
      assert (Hsum' : pos + l + (remain - l) = pos0 + len0) by lia.
      assert (Hpos' : pos0 <= pos + l) by lia.
      assert (Hcf : collect (fc_view f) = Some (slice pos l)) by (rewrite Tv; apply collect_Byte).
      destruct (put_spec st1 f) as (Fpf & Ppf & Lpf & Opf & Rpf & Npf).
      destruct m as [held|buf]; cbn [mode_inv] in Hm.
      2:{ (* already copying *)
        destruct Hm as (-> & Hl & Hq). rewrite Hcf in H.
        eapply IH in H; eauto.
        - eapply frame_trans; eauto.
        - now rewrite Ppf.
        - cbn [mode_inv]. splits.
          + now rewrite slice_extend.
          + rewrite Lpf, El1. exact Hl.
          + intros w k. rewrite Rpf, Td. destruct (Hq1 w) as [Hk _].
            rewrite Hk, Hq. lia. }
      destruct Hm as (Hv & Hl & Hq & Hsl & Hj).
      assert (Hslot1 : N.of_nat (length held) < slots) by (apply N.leb_gt in Hguard; exact Hguard).
      assert (Hadv : remain - l = 0 \/
                     align_down pos0 P + P * N.of_nat (length (held ++ [f])) <= align_down (pos + l) P).
      { destruct Tadv as [Z|A]; [now left|right].
        destruct Hj as [Z|Hj]; [lia|].
        rewrite app_length. cbn [length]. rewrite !adP in *. lia. }
      assert (Hnext : forall st2,
                frame st0 st2 -> st_live st2 = st_live st1 ->
                (forall w k, rc w k st2 = rc w k st1) -> (forall w, nr w st2 = nr w st1) ->
                mode_inv st2 (pos + l) (remain - l) (NoCopy (held ++ [f]))).
      { intros st2 F2 L2 R2 N2. cbn [mode_inv]. splits.
        - rewrite views_app, Hv. unfold views. cbn [map concat]. rewrite app_nil_r, Tv.
          rewrite <- map_app. now rewrite slice_extend.
        - rewrite L2, El1. exact Hl.
        - destruct Hq as [Hk Hn].
          intros w k. rewrite R2. destruct (Hq1 w) as [Hk1 _].
          rewrite Hk1, Hk, hc_app. cbn [hc]. rewrite Td. lia.
        - destruct Hq as [Hk Hn].
          intro w. rewrite N2. destruct (Hq1 w) as [_ Hn1].
          specialize (Hn w). rewrite app_length. cbn [length].
          assert (dw f0 w <= 1) by (unfold dw; destruct (same_w _ _); lia). lia.
        - rewrite app_length. cbn [length]. lia.
        - exact Hadv. }
      destruct held as [|h0 ht].
      { (* first entry *)
        eapply IH in H; eauto. }
      remember (h0 :: ht) as held eqn:Eheld.
      destruct (pop_adj st1) as [adj st2] eqn:Epa.
      destruct (pop_adj_frame _ _ _ Epa) as (F2 & Em2 & Ef2 & Ep2 & El2).
      destruct (same_stores _ _ Em2 Ef2) as [R2 N2].
      assert (F02 : frame st0 st2) by (eapply frame_trans; eauto).
      destruct (adj && prev_full held).
      { (* buffers adjacent: keep the entry *)
        eapply IH in H; eauto; try (now rewrite Ep2); try (apply (Hnext st2); now auto). }
      destruct (pop_al st2) as [failed st3] eqn:Eal.
      destruct (pop_al_frame _ _ _ Eal) as (F3 & Em3 & Ef3 & Ep3 & El3 & Hbit).
      destruct (same_stores _ _ Em3 Ef3) as [R3 N3].
      assert (F03 : frame st0 st3) by (eapply frame_trans; eauto).
      destruct failed.
      { (* no memory for the copy *)
        destruct (put_all_spec st3 (held ++ [f])) as (Fp & Pp & Lp & Op & Rp & Np).
        destruct (release_array_spec arr (put_all st3 (held ++ [f]))) as (Fr & Pr & Or & Rr & Nr & Lr).
        injection H as <- <-. unfold chunk_result_ok. splits; auto.
        - eapply frame_trans; [exact F03|]. eapply frame_trans; eauto.
        - rewrite Pr, Pp, Ep3, Ep2. exact Hp01.
        - cbn [op_err_ok]. right. unfold io_failure. right. right.
          destruct (fr_orc _ _ F02) as (_ & _ & _ & _ & S). eapply suffix_In; [exact S|]. now apply Hbit.
        - intros w k. rewrite Rr, Rp, R3, R2. destruct (Hq1 w) as [Hk1 _].
          destruct Hq as [Hk _]. rewrite Hk1, Hk, hc_app. cbn [hc]. rewrite Td. lia.
        - rewrite Lr, Lp, El3, El2, El1, Hl. destruct arr; lia. }
      (* copy out *)
      assert (Hch : collect (views held) = Some (slice pos0 (pos - pos0)))
        by (rewrite Hv; apply collect_Byte).
      rewrite Hch, Hcf in H.
      destruct (set_live_spec st3 (st_live st3 + 1)) as (F4 & P4 & O4 & R4 & N4).
      fold (alloc1 st3) in F4, P4, O4, R4, N4.
      destruct (put_all_spec (alloc1 st3) held) as (Fp & Pp & Lp & Op & Rp & Np).
      destruct (release_array_spec arr (put_all (alloc1 st3) held)) as (Fr & Pr & Or & Rr & Nr & Lr).
      set (st5 := release_array arr (put_all (alloc1 st3) held)) in *.
      destruct (put_spec st5 f) as (Fq & Pq & Lq & Oq & Rq & Nq).
      eapply IH in H; eauto.
      - eapply frame_trans; [exact F03|]. eapply frame_trans; [exact F4|].
        eapply frame_trans; [exact Fp|]. eapply frame_trans; eauto.
      - rewrite Pq, Pr, Pp, P4, Ep3, Ep2. exact Hp01.
      - cbn [mode_inv]. splits.
        + now rewrite slice_extend.
        + rewrite Lq, Lr, Lp. unfold alloc1. sproj. rewrite El3, El2, El1, Hl. destruct arr; lia.
        + intros w k. rewrite Rq, Rr, Rp, R4, R3, R2, Td. destruct (Hq1 w) as [Hk1 _].
          destruct Hq as [Hk _]. rewrite Hk1, Hk. lia.
    Qed.
  End ChunkLoop.

  (** *** [fcache_get_chunk] / [fcache_put_chunk] *)

  Notation get_chunk := (fcache_get_chunk pgshift order fsz fdata true true fidx).

  Lemma put_chunk_frame st c :
    frame st (fcache_put_chunk st c) /\ st_policy (fcache_put_chunk st c) = st_policy st.
  Proof.
    clear Hfidx.
    unfold fcache_put_chunk. destruct (put_all_spec st (ch_held c)) as (Fp & Pp & _).
    destruct (ch_geom c).
    - split; [apply frame_refl|reflexivity].
    - split; assumption.
    - unfold free1. split; [|sproj; exact Pp].
      eapply frame_trans; [exact Fp|apply set_live_spec].
    - unfold free1. split; [apply set_live_spec|reflexivity].
  Qed.

  Lemma op_err_ok_transfer st st0 (beyond : Prop) extra extra' s :
    frame st st0 -> st_mm st0 = st_mm st -> st_fb st0 = st_fb st ->
    st_policy st0 = st_policy st -> extra <= extra' ->
    op_err_ok st0 beyond extra s -> op_err_ok st beyond extra' s.
  Proof.
    intros F Em Ef Ep Hx H. destruct s; cbn [op_err_ok] in *.
    - exact H.
    - unfold excuse in *. destruct H as [H|H].
      + left. unfold mm_clean in *. now rewrite <- Em.
      + right. eapply io_failure_le; [apply (fr_orc _ _ F)|exact H].
    - now rewrite <- Ep.
    - unfold capw, nr in *. rewrite Em, Ef in H. lia.
  Qed.

  Definition TWO63 : N := 2 ^ 63.

  Lemma off_t_guard pos len :
    0 < len ->
    (OFF_T_MAX <? len - 1) || ((0 <? pos) && (OFF_T_MAX - pos <? len - 1)) = true ->
    TWO63 < pos + len.
  Proof.
    unfold OFF_T_MAX. fold TWO63. assert (HT : 0 < TWO63) by reflexivity.
    intros Hl H. apply orb_true_iff in H. destruct H as [H|H].
    - apply N.ltb_lt in H. lia.
    - apply andb_true_iff in H. destruct H as [H1 H2].
      apply N.ltb_lt in H1. apply N.ltb_lt in H2. lia.
  Qed.

  (** what a chunk operation may answer when it does not deliver the data *)
  Definition chunk_err_ok (st : state) (pos len : N) (s : status) : Prop :=
    (s = ERR_NODATA /\ TWO63 < pos + len) \/
    op_err_ok st (pceil < pos + len) (N.max (est pos len) MAX_EMBED_FCES - 1) s.

  Lemma get_chunk_spec st pos len r st' :
    wf st -> get_chunk st pos len = (r, st') ->
    frame st st' /\
    (st_policy st' = st_policy st \/ st_policy st = TRY_ONCE) /\
    match r with
    | ChOk c =>
      ch_data c = map Byte (slice pos len) /\
      (forall w k, rc w k (fcache_put_chunk st' c) = rc w k st) /\
      st_live (fcache_put_chunk st' c) = st_live st
    | ChErr s =>
      chunk_err_ok st pos len s /\
      (forall w k, rc w k st' = rc w k st) /\
      st_live st' = st_live st
    | _ => False
    end.
  Proof.
    intros W H. unfold fcache_get_chunk in H.
    destruct (N.eqb_spec len 0) as [->|Hlen].
    { injection H as <- <-. splits; auto using frame_refl. }
    assert (Hlen' : 0 < len) by lia.
    destruct ((OFF_T_MAX <? len - 1) || ((0 <? pos) && (OFF_T_MAX - pos <? len - 1))) eqn:Eg.
    { injection H as <- <-. splits; auto using frame_refl.
      left. split; [reflexivity|]. now apply off_t_guard. }
    fold (est pos len) in H.
    destruct (N.ltb_spec MAX_EMBED_FCES (est pos len)) as [Hbig|Hsmall].
    - (* array of entries *)
      destruct (pop_al st) as [failed st1] eqn:Eal.
      destruct (pop_al_frame _ _ _ Eal) as (F1 & Em1 & Ef1 & Ep1 & El1 & Hbit).
      destruct (same_stores _ _ Em1 Ef1) as [R1 N1].
      destruct failed.
      { injection H as <- <-. splits; auto.
        right. cbn [op_err_ok]. right. right. right. now apply Hbit. }
      destruct (set_live_spec st1 (st_live st1 + 1)) as (F2 & P2 & O2 & R2 & N2).
      fold (alloc1 st1) in F2, P2, O2, R2, N2.
      assert (F02 : frame st (alloc1 st1)) by (eapply frame_trans; eauto).
      assert (W2 : wf (alloc1 st1)) by (apply (fr_wf _ _ F02 W)).
      assert (L : chunk_result_ok (alloc1 st1) pos len (st_live st) (est pos len) r st').
      { eapply chunk_loop_spec with (arr := true);
          [exact W2|exact Hlen'|apply N.le_refl|discriminate|apply frame_refl|left; reflexivity
          |apply N.le_refl|reflexivity| |apply Nat.lt_succ_diag_r|exact H].
        cbn [mode_inv]. splits.
        - rewrite N.sub_diag. reflexivity.
        - unfold alloc1. sproj. lia.
        - intros; cbn [hc length]; lia.
        - intros; cbn [hc length]; lia.
        - cbn [length]. lia.
        - right. cbn [length]. lia. }
      destruct L as (F' & Hp' & L).
      assert (Ep2 : st_policy (alloc1 st1) = st_policy st) by (rewrite P2; exact Ep1).
      assert (Rc : forall w k, rc w k (alloc1 st1) = rc w k st) by (intros; now rewrite R2, R1).
      split; [eapply frame_trans; eauto|]. split; [now rewrite <- Ep2|].
      destruct r as [c|s| | |]; try contradiction.
      + destruct L as (Hd & _ & _ & _ & Hrc & Hl). splits; auto.
        intros w k. rewrite Hrc. apply Rc.
      + destruct L as (He & Hrc & Hl). splits; auto.
        * right. eapply op_err_ok_transfer; [exact F02| | |exact Ep2| |exact He].
          -- unfold alloc1. sproj. exact Em1.
          -- unfold alloc1. sproj. exact Ef1.
          -- lia.
        * intros w k. rewrite Hrc. apply Rc.
    - (* embedded entries *)
      assert (L : chunk_result_ok st pos len (st_live st) MAX_EMBED_FCES r st').
      { eapply chunk_loop_spec with (arr := false);
          [exact W|exact Hlen'|exact Hsmall|reflexivity|apply frame_refl|left; reflexivity
          |apply N.le_refl|reflexivity| |apply Nat.lt_succ_diag_r|exact H].
        cbn [mode_inv]. splits.
        - rewrite N.sub_diag. reflexivity.
        - lia.
        - intros; cbn [hc length]; lia.
        - intros; cbn [hc length]; lia.
        - cbn [length]. unfold MAX_EMBED_FCES. lia.
        - right. cbn [length]. lia. }
      destruct L as (F' & Hp' & L). split; [exact F'|]. split; [exact Hp'|].
      destruct r as [c|s| | |]; try contradiction.
      + destruct L as (Hd & _ & _ & _ & Hrc & Hl). splits; auto.
      + destruct L as (He & Hrc & Hl). splits; auto.
        right. eapply op_err_ok_transfer; [apply frame_refl| | | | |exact He]; auto. lia.
  Qed.

  (** ** Whole operations and histories *)

  Notation pread := (fcache_pread pgshift order fsz fdata true true fidx).

  Lemma pread_spec st pos len r st' :
    wf st -> pread st pos len = (r, st') ->
    frame st st' /\ st_live st' = st_live st /\
    (forall w k, rc w k st' = rc w k st) /\
    pread_result_ok st pos len [] r.
  Proof.
    intros W H. unfold fcache_pread in H.
    eapply pread_loop_spec with (st0 := st) in H; auto using frame_refl.
    destruct H as (F & L & _ & R & Hr). splits; auto.
  Qed.

  End OneIdx.

  (** [fcache_new] refuses more than [pgsz] files: a file index fits below the
      page-aligned block position in a key *)
  Hypothesis Hnfiles : nfiles <= P.

  Lemma lt_files f : f < nfiles -> f < P.
  Proof. intro H. pose proof Hnfiles. lia. Qed.

  Notation get := (fcache_get pgshift order fsz fdata true true).
  Notation pread := (fcache_pread pgshift order fsz fdata true true).
  Notation get_chunk := (fcache_get_chunk pgshift order fsz fdata true true).
  Notation step := (FcacheChunk.step pgshift order fsz fdata true true).
  Notation run := (FcacheChunk.run pgshift order fsz fdata true true).
  Notation slicef f := (FcacheChunk.slice (fsz f) (fdata f)).
  Notation pceilf f := (pageceil pgshift (fsz f)).

  (** the file index of an operation is one of the set's *)
  Definition op_valid (o : op) : Prop :=
    match o with
    | OpGet f _ _ | OpPread f _ _ _ | OpChunk f _ _ _ | OpChunkHold f _ _ _ => f < nfiles
    | _ => True
    end.

  Lemma wf_init cm cf : wf (init_state cm cf).
  Proof. repeat split; try constructor. Qed.

  Lemma wf_set_orc st o : wf st -> wf (set_orc st o).
  Proof. exact (fun H => H). Qed.

  Definition keeps (st st' : state) : Prop :=
    wf st' /\ forall w, capw w st' = capw w st.

  Lemma frame_keeps st0 st' : frame st0 st' -> wf st0 -> keeps st0 st'.
  Proof.
    intros F W. split; [now apply (fr_wf _ _ F)|].
    intros [|]; unfold capw; [apply (fr_capm _ _ F)|apply (fr_capf _ _ F)].
  Qed.

  Lemma keeps_trans a b c : keeps a b -> keeps b c -> keeps a c.
  Proof. intros [_ C1] [W2 C2]. split; [exact W2|]. intro w. now rewrite C2. Qed.

  Lemma step_keeps m o r m' :
    op_valid o -> wf (m_st m) -> step m o = (r, m') -> keeps (m_st m) (m_st m').
  Proof.
    intros Hv W H. destruct o as [fi pos orc|h|fi pos len orc|fi pos len orc|fi pos len orc|h|p];
      cbn [FcacheChunk.step op_valid] in H, Hv.
    - destruct (get fi (set_orc (m_st m) orc) pos) as [g st1] eqn:Eg.
      destruct (get_spec fi (lt_files _ Hv) _ _ _ _ Eg (wf_set_orc _ orc W)) as (F & _).
      destruct g; injection H as <- <-; cbn [m_st];
        apply (frame_keeps _ _ F (wf_set_orc _ orc W)).
    - destruct (nth_error (m_fces m) h) as [[f|]|]; injection H as <- <-;
        try (split; [exact W|reflexivity]).
      cbn [m_st]. destruct (put_spec (m_st m) f) as (F & _). now apply frame_keeps.
    - destruct (pread fi (set_orc (m_st m) orc) pos len) as [r1 st1] eqn:Ep.
      destruct (pread_spec fi (lt_files _ Hv) _ _ _ _ _ (wf_set_orc _ orc W) Ep) as (F & _).
      injection H as <- <-. cbn [m_st]. apply (frame_keeps _ _ F (wf_set_orc _ orc W)).
    - destruct (get_chunk fi (set_orc (m_st m) orc) pos len) as [c st1] eqn:Ec.
      destruct (get_chunk_spec fi (lt_files _ Hv) _ _ _ _ _ (wf_set_orc _ orc W) Ec) as (F & _).
      pose proof (frame_keeps _ _ F (wf_set_orc _ orc W)) as K1.
      destruct c; injection H as <- <-; cbn [m_st]; auto.
      destruct (put_chunk_frame st1 c) as [Fc _].
      eapply keeps_trans; [exact K1|]. apply (frame_keeps _ _ Fc). apply K1.
    - destruct (get_chunk fi (set_orc (m_st m) orc) pos len) as [c st1] eqn:Ec.
      destruct (get_chunk_spec fi (lt_files _ Hv) _ _ _ _ _ (wf_set_orc _ orc W) Ec) as (F & _).
      pose proof (frame_keeps _ _ F (wf_set_orc _ orc W)) as K1.
      destruct c; injection H as <- <-; cbn [m_st]; auto.
    - destruct (nth_error (m_chunks m) h) as [[c|]|]; injection H as <- <-;
        try (split; [exact W|reflexivity]).
      cbn [m_st]. destruct (put_chunk_frame (m_st m) c) as [Fc _]. now apply frame_keeps.
    - injection H as <- <-. cbn [m_st]. split; [exact W|reflexivity].
  Qed.

  Lemma step_wf m o r m' : op_valid o -> wf (m_st m) -> step m o = (r, m') -> wf (m_st m').
  Proof. intros Hv W H. apply (step_keeps _ _ _ _ Hv W H). Qed.

  Lemma run_keeps h : forall m outs m',
    Forall op_valid h -> wf (m_st m) -> run m h = (outs, m') -> keeps (m_st m) (m_st m').
  Proof.
    induction h as [|o h IH]; intros m outs m' Hh W H; cbn [FcacheChunk.run] in H.
    - injection H as <- <-. split; [exact W|reflexivity].
    - inversion Hh as [|? ? Hv Hh']; subst.
      destruct (step m o) as [r m1] eqn:Es. pose proof (step_keeps _ _ _ _ Hv W Es) as K1.
      destruct (crashed r).
      + injection H as <- <-. exact K1.
      + destruct (run m1 h) as [rs m2] eqn:Er. injection H as <- <-.
        eapply keeps_trans; [exact K1|]. eapply IH; [exact Hh'|apply K1|exact Er].
  Qed.

  Lemma run_wf h m outs m' :
    Forall op_valid h -> wf (m_st m) -> run m h = (outs, m') -> wf (m_st m').
  Proof. intros Hh W H. apply (run_keeps h _ _ _ Hh W H). Qed.

  (** states a history (over the files of the set) can reach from the empty caches *)
  Definition reachable (m : machine) : Prop :=
    exists cap_mm cap_fb h outs,
      Forall op_valid h /\ run (init_machine cap_mm cap_fb) h = (outs, m).

  Lemma reachable_wf m : reachable m -> wf (m_st m).
  Proof.
    intros (cm & cf & h & outs & Hh & H). eapply run_wf; [exact Hh| |exact H]. apply wf_init.
  Qed.

  (** *** The observed call *)

  Definition op_oracle (o : op) : oracle :=
    match o with
    | OpGet _ _ orc | OpPread _ _ _ orc | OpChunk _ _ _ orc | OpChunkHold _ _ _ orc => orc
    | _ => no_oracle
    end.

  (** the range lies within the pages of the file *)
  Definition in_file (o : op) : Prop :=
    match o with
    | OpPread f pos len _ | OpChunk f pos len _ | OpChunkHold f pos len _ =>
      pos + len <= pceilf f
    | OpGet f pos _ => pos < pceilf f
    | _ => False
    end.

  (** What the observed call may answer, whatever was cached and whatever the
      policy: the file's bytes (zeros after EOF), or an error that the caches'
      contents do not explain: BUSY only when a sub-cache has no unreferenced
      slot left (the operation's own entries included), ERR_SYSTEM only with an
      I/O, mmap or allocation failure of this call or a cached MAP_FAILED,
      NODATA only for ranges beyond the file's pages under ALWAYS (or TRY_ONCE
      that latched ALWAYS), or beyond what off_t can address. *)
  Definition outcome_ok (st : state) (o : op) (r : outcome) : Prop :=
    let st0 := set_orc st (op_oracle o) in
    match o with
    | OpPread f pos len _ =>
      match r with
      | OutData bs _ => bs = slicef f pos len
      | OutErr s => op_err_ok st0 (pceilf f < pos + len) 0 s
      | _ => False
      end
    | OpChunk f pos len _ | OpChunkHold f pos len _ =>
      match r with
      | OutData bs _ => bs = slicef f pos len
      | OutErr s => chunk_err_ok f st0 pos len s
      | _ => False
      end
    | OpGet f pos _ =>
      match r with
      | OutData bs _ =>
        let l := N.of_nat (length bs) in
        1 <= l /\ bs = slicef f pos l /\ (pos < pceilf f -> pos + l <= pceilf f)
      | OutErr s => op_err_ok st0 (pceilf f <= pos) 0 s
      | _ => False
      end
    | _ => True
    end.

  Lemma step_outcome_ok m o :
    op_valid o -> wf (m_st m) -> outcome_ok (m_st m) o (fst (step m o)).
  Proof.
    intros Hv W. destruct o as [fi pos orc|h|fi pos len orc|fi pos len orc|fi pos len orc|h|p];
      cbn [outcome_ok op_oracle FcacheChunk.step op_valid] in *; auto.
    - destruct (get fi (set_orc (m_st m) orc) pos) as [g st1] eqn:Eg.
      destruct (get_spec fi (lt_files _ Hv) _ _ _ _ Eg (wf_set_orc _ orc W)) as (F & _ & _ & Hs & _).
      destruct g as [f|s]; cbn [fst].
      + destruct Hs as (L1 & Hvw & _ & Hc). rewrite Hvw, collect_Byte.
        rewrite slice_length, N2Nat.id. splits; auto.
      + apply get_err_ok with (fidx := fi) (st := set_orc (m_st m) orc) (pos := pos);
          auto using frame_refl, lt_files.
        intros w. lia.
    - destruct (pread fi (set_orc (m_st m) orc) pos len) as [r1 st1] eqn:Ep.
      destruct (pread_spec fi (lt_files _ Hv) _ _ _ _ _ (wf_set_orc _ orc W) Ep) as (_ & _ & _ & Hr).
      cbn [fst]. unfold pread_result_ok in Hr. destruct r1; auto. apply Hr.
    - destruct (get_chunk fi (set_orc (m_st m) orc) pos len) as [c st1] eqn:Ec.
      destruct (get_chunk_spec fi (lt_files _ Hv) _ _ _ _ _ (wf_set_orc _ orc W) Ec) as (_ & _ & Hr).
      destruct c as [c|s| | |]; cbn [fst chunk_err]; try contradiction.
      + destruct Hr as (Hd & _). unfold observe_chunk. now rewrite Hd, collect_Byte.
      + apply Hr.
    - destruct (get_chunk fi (set_orc (m_st m) orc) pos len) as [c st1] eqn:Ec.
      destruct (get_chunk_spec fi (lt_files _ Hv) _ _ _ _ _ (wf_set_orc _ orc W) Ec) as (_ & _ & Hr).
      destruct c as [c|s| | |]; cbn [fst chunk_err]; try contradiction.
      + destruct Hr as (Hd & _). unfold observe_chunk. now rewrite Hd, collect_Byte.
      + apply Hr.
  Qed.

  (** **** 2. Any range *)
  Theorem fcache_beyond_eof m o :
    reachable m -> op_valid o -> outcome_ok (m_st m) o (fst (step m o)).
  Proof. intros R Hv. apply step_outcome_ok; [exact Hv|]. now apply reachable_wf. Qed.

  (** **** 1. Ranges within the file's pages: the answer is the file's bytes
      or an excused BUSY / ERR_SYSTEM; never NODATA, never a crash. *)
  Theorem fcache_policy_irrelevant m o :
    reachable m -> op_valid o ->
    (forall f, f < nfiles -> pceilf f <= TWO63) -> in_file o ->
    outcome_ok (m_st m) o (fst (step m o)) /\ fst (step m o) <> OutErr ERR_NODATA.
  Proof.
    intros R Hv Hsz Hin. pose proof (fcache_beyond_eof m o R Hv) as H. split; [exact H|].
    intro E. rewrite E in H.
    destruct o as [fi pos orc|h|fi pos len orc|fi pos len orc|fi pos len orc|h|p];
      cbn [outcome_ok in_file op_valid] in *; try contradiction;
      try (specialize (Hsz fi Hv)).
    - destruct H as [H _]. lia.
    - destruct H as [H _]. lia.
    - destruct H as [[_ H]|[H _]]; lia.
    - destruct H as [[_ H]|[H _]]; lia.
  Qed.

  (** entries the call needs at once in one sub-cache *)
  Definition own_need (o : op) : N :=
    match o with
    | OpChunk _ _ len _ | OpChunkHold _ _ len _ => len / P + 2
    | _ => 1
    end.

  Lemma own_extra_lt pos len : N.max (est pos len) MAX_EMBED_FCES - 1 < len / P + 2.
  Proof.
    unfold MAX_EMBED_FCES. destruct (N.eq_dec len 0) as [->|Hl].
    - unfold est. rewrite N.add_0_r.
      assert (Z : (align_down (pos - 1) P - align_down pos P) / P = 0).
      { rewrite !adP. apply N.div_small.
        pose proof (adP_mono (pos - 1) pos). pose proof P_pos. lia. }
      rewrite Z, N.div_0_l by (pose proof P_pos; lia). reflexivity.
    - assert (Hl' : 0 < len) by lia. pose proof (est_le pos len Hl') as H0.
      revert H0. generalize (est pos len), (len / P). intros a b H0.
      destruct (N.max_spec a 2) as [[? ->]|[? ->]]; lia.
  Qed.

  (** With everything released before the call, no mmap failure around, and
      room for the call's own entries, BUSY cannot happen. *)
  Theorem fcache_never_busy_strong m o :
    reachable m -> op_valid o ->
    (forall w, nr w (m_st m) = 0) ->
    (forall w, own_need o <= capw w (m_st m)) ->
    fst (step m o) <> OutErr ERR_BUSY.
  Proof.
    intros R Hv Hn Hc E. pose proof (fcache_beyond_eof m o R Hv) as H. rewrite E in H.
    pose proof (Hn FB) as N1. pose proof (Hn MM) as N2.
    pose proof (Hc FB) as C1. pose proof (Hc MM) as C2.
    destruct o as [fi pos orc|h|fi pos len orc|fi pos len orc|fi pos len orc|h|p];
      cbn [outcome_ok op_oracle own_need] in *.
    - cbn [op_err_ok] in H. unfold capw, nr in *. sproj. lia.
    - cbn [FcacheChunk.step] in E.
      destruct (nth_error (m_fces m) h) as [[f|]|]; discriminate.
    - cbn [op_err_ok] in H. unfold capw, nr in *. sproj. lia.
    - destruct H as [[H _]|H]; [discriminate|]. cbn [op_err_ok] in H.
      pose proof (own_extra_lt pos len) as Hx.
      unfold capw, nr in *. sproj. lia.
    - destruct H as [[H _]|H]; [discriminate|]. cbn [op_err_ok] in H.
      pose proof (own_extra_lt pos len) as Hx.
      unfold capw, nr in *. sproj. lia.
    - cbn [FcacheChunk.step] in E.
      destruct (nth_error (m_chunks m) h) as [[c|]|]; discriminate.
    - discriminate.
  Qed.

  (** the statement as first given (the [quiet] hypothesis is no longer needed:
      since a failed mmap gives its reference back, see [fcache_never_busy_strong]) *)
  Theorem fcache_never_busy_when_balanced m o :
    reachable m -> op_valid o ->
    quiet (set_orc (m_st m) (op_oracle o)) ->
    (forall w, nr w (m_st m) = 0) ->
    (forall w, own_need o <= capw w (m_st m)) ->
    fst (step m o) <> OutErr ERR_BUSY.
  Proof. intros R Hv _. now apply fcache_never_busy_strong. Qed.

  (** **** 3. Every path gives back the references (and allocations) it took,
      also when an mmap fails (see [fcache_mmap_failure_releases_ref]). *)
  Theorem fcache_refs_balanced_strong m o r m' :
    reachable m -> op_valid o ->
    (match o with OpPread _ _ _ _ | OpChunk _ _ _ _ => True | _ => False end) ->
    step m o = (r, m') ->
    (forall w k, rc w k (m_st m') = rc w k (m_st m)) /\
    st_live (m_st m') = st_live (m_st m) /\
    m_fces m' = m_fces m /\ m_chunks m' = m_chunks m.
  Proof.
    intros R Hv Ho H. pose proof (reachable_wf m R) as W.
    destruct o as [fi pos orc|h|fi pos len orc|fi pos len orc|fi pos len orc|h|p]; try contradiction;
      cbn [FcacheChunk.step op_oracle op_valid] in *.
    - destruct (pread fi (set_orc (m_st m) orc) pos len) as [r1 st1] eqn:Ep.
      destruct (pread_spec fi (lt_files _ Hv) _ _ _ _ _ (wf_set_orc _ orc W) Ep) as (_ & L & Hrc & _).
      injection H as <- <-. cbn [m_st m_fces m_chunks]. splits; auto.
    - destruct (get_chunk fi (set_orc (m_st m) orc) pos len) as [c st1] eqn:Ec.
      destruct (get_chunk_spec fi (lt_files _ Hv) _ _ _ _ _ (wf_set_orc _ orc W) Ec) as (_ & _ & Hr).
      destruct c as [c|s| | |]; try contradiction; injection H as <- <-;
        cbn [m_st m_fces m_chunks]; destruct Hr as (_ & Hrc & L); splits; auto.
  Qed.

  (** the statement as first given (its [quiet] hypothesis, "no mmap failed",
      is not needed any more: [fcache_refs_balanced_strong]) *)
  Theorem fcache_refs_balanced m o r m' :
    reachable m -> op_valid o ->
    (match o with OpPread _ _ _ _ | OpChunk _ _ _ _ => True | _ => False end) ->
    quiet (set_orc (m_st m) (op_oracle o)) ->
    step m o = (r, m') ->
    (forall w k, rc w k (m_st m') = rc w k (m_st m)) /\
    st_live (m_st m') = st_live (m_st m) /\
    m_fces m' = m_fces m /\ m_chunks m' = m_chunks m.
  Proof. intros R Hv Ho _. now apply fcache_refs_balanced_strong. Qed.

  (** ... also when [fcache_get_chunk] fails, whatever failed: nothing is held afterwards *)
  Theorem fcache_failed_get_chunk_balanced fidx st pos len s st' :
    fidx < nfiles -> wf st -> get_chunk fidx st pos len = (ChErr s, st') ->
    (forall w k, rc w k st' = rc w k st) /\ st_live st' = st_live st.
  Proof.
    intros Hf W H.
    destruct (get_chunk_spec fidx (lt_files _ Hf) _ _ _ _ _ W H) as (_ & _ & _ & Hrc & L).
    split; auto.
  Qed.

  (** The loops never exhaust the fuel [len + 1], no entry is written outside
      [embed_fces]/[fces], no byte beyond the EOF page of a mapping is touched:
      part of [fcache_beyond_eof] (the outcome is never [OutFuel], [OutOOB],
      [OutSigbus]); stated on its own for reference. *)
  Corollary fcache_no_crash m o :
    reachable m -> op_valid o ->
    (match o with OpGet _ _ _ | OpPread _ _ _ _ | OpChunk _ _ _ _ | OpChunkHold _ _ _ _ => True
             | _ => False end) ->
    crashed (fst (step m o)) = false.
  Proof.
    intros R Hv Ho. pose proof (fcache_beyond_eof m o R Hv) as H.
    destruct o; try contradiction; cbn [outcome_ok] in H;
      destruct (fst (step _ _)); try contradiction; reflexivity.
  Qed.

  (** NODATA does happen beyond the file's pages when the policy in force is ALWAYS *)
  Lemma fcache_nodata_always fidx st pos len :
    st_policy st = ALWAYS -> pceilf fidx <= pos -> 0 < len ->
    fst (pread fidx st pos len) = OutErr ERR_NODATA.
  Proof.
    intros Hp Hpos Hlen. unfold fcache_pread. cbn [FcacheChunk.pread_loop].
    destruct (N.eqb_spec len 0); [lia|].
    unfold fcache_get. rewrite Hp. unfold fcache_get_mmap.
    destruct (N.leb_spec (fsz fidx) (align_down pos P)) as [L|L]; [reflexivity|].
    apply below_ceil in L. lia.
  Qed.

  (** *** Histories that keep nothing *)

  (** an operation that returns what it takes and meets no mmap failure *)
  Definition self_contained (o : op) : Prop :=
    match o with
    | OpPread f _ _ orc | OpChunk f _ _ orc => f < nfiles /\ ~ In true (o_mf orc)
    | OpPolicy _ => True
    | _ => False
    end.

  Lemma self_contained_valid o : self_contained o -> op_valid o.
  Proof. destruct o; cbn; tauto. Qed.

  Lemma self_contained_step m o r m' :
    wf (m_st m) -> mm_clean (m_st m) -> self_contained o -> step m o = (r, m') ->
    mm_clean (m_st m') /\ (forall w k, rc w k (m_st m') = rc w k (m_st m)).
  Proof.
    intros W C Ho H.
    destruct o as [fi pos orc|h|fi pos len orc|fi pos len orc|fi pos len orc|h|p]; try contradiction;
      cbn [FcacheChunk.step self_contained] in *.
    - destruct Ho as [Hv Ho].
      assert (Q : quiet (set_orc (m_st m) orc)) by (split; [exact C|exact Ho]).
      destruct (pread fi (set_orc (m_st m) orc) pos len) as [r1 st1] eqn:Ep.
      destruct (pread_spec fi (lt_files _ Hv) _ _ _ _ _ (wf_set_orc _ orc W) Ep) as (F & _ & Hrc & _).
      injection H as <- <-. cbn [m_st]. split; [apply (frame_quiet _ _ F Q)|].
      intros w k. now rewrite Hrc.
    - destruct Ho as [Hv Ho].
      assert (Q : quiet (set_orc (m_st m) orc)) by (split; [exact C|exact Ho]).
      destruct (get_chunk fi (set_orc (m_st m) orc) pos len) as [c st1] eqn:Ec.
      destruct (get_chunk_spec fi (lt_files _ Hv) _ _ _ _ _ (wf_set_orc _ orc W) Ec) as (F & _ & Hr).
      pose proof (frame_quiet _ _ F Q) as [C1 _].
      destruct c as [c|s| | |]; try contradiction; injection H as <- <-;
        cbn [m_st]; destruct Hr as (_ & Hrc & _).
      + split; [|intros w k; now rewrite Hrc].
        destruct (put_chunk_frame st1 c) as [Fc _].
        destruct (fr_clean _ _ Fc C1) as [C2|B]; [exact C2|].
        exfalso. destruct (fr_orc _ _ F) as (_ & S & _). apply Ho.
        eapply suffix_In; [exact S|exact B].
      + split; [exact C1|intros w k; now rewrite Hrc].
    - injection H as <- <-. cbn [m_st]. split; [exact C|]. now intros [|].
  Qed.

  Lemma self_contained_run h : forall m outs m',
    wf (m_st m) -> mm_clean (m_st m) -> Forall self_contained h -> run m h = (outs, m') ->
    mm_clean (m_st m') /\ (forall w k, rc w k (m_st m') = rc w k (m_st m)).
  Proof.
    induction h as [|o h IH]; intros m outs m' W C Hh H; cbn [FcacheChunk.run] in H.
    - injection H as <- <-. auto.
    - inversion Hh as [|? ? Ho Hh']; subst.
      destruct (step m o) as [r m1] eqn:Es.
      destruct (self_contained_step _ _ _ _ W C Ho Es) as [C1 R1].
      pose proof (step_wf _ _ _ _ (self_contained_valid _ Ho) W Es) as W1.
      destruct (crashed r).
      + injection H as <- <-. auto.
      + destruct (run m1 h) as [rs m2] eqn:Er. injection H as <- <-.
        destruct (IH _ _ _ W1 C1 Hh' Er) as [C2 R2]. split; [exact C2|].
        intros w k. now rewrite R2.
  Qed.

  (** operations that keep nothing: whatever their oracles say (mmap failures
      included) the reference counts are what they were *)
  Definition keeps_nothing (o : op) : Prop :=
    match o with
    | OpPread f _ _ _ | OpChunk f _ _ _ => f < nfiles
    | OpPolicy _ => True
    | _ => False
    end.

  Lemma keeps_nothing_valid o : keeps_nothing o -> op_valid o.
  Proof. destruct o; cbn; tauto. Qed.

  Lemma keeps_nothing_run h : forall m outs m',
    wf (m_st m) -> Forall keeps_nothing h -> run m h = (outs, m') ->
    forall w k, rc w k (m_st m') = rc w k (m_st m).
  Proof.
    induction h as [|o h IH]; intros m outs m' W Hh H; cbn [FcacheChunk.run] in H.
    - injection H as <- <-. auto.
    - inversion Hh as [|? ? Ho Hh']; subst.
      destruct (step m o) as [r m1] eqn:Es.
      pose proof (step_wf _ _ _ _ (keeps_nothing_valid _ Ho) W Es) as W1.
      assert (R1 : forall w k, rc w k (m_st m1) = rc w k (m_st m)).
      { destruct o as [fi pos orc|hd|fi pos len orc|fi pos len orc|fi pos len orc|hd|p]; try contradiction;
          cbn [FcacheChunk.step keeps_nothing] in Es, Ho; rename Ho into Hv.
        - destruct (pread fi (set_orc (m_st m) orc) pos len) as [r1 st1] eqn:Ep.
          destruct (pread_spec fi (lt_files _ Hv) _ _ _ _ _ (wf_set_orc _ orc W) Ep) as (_ & _ & Hrc & _).
          injection Es as <- <-. exact Hrc.
        - destruct (get_chunk fi (set_orc (m_st m) orc) pos len) as [c st1] eqn:Ec.
          destruct (get_chunk_spec fi (lt_files _ Hv) _ _ _ _ _ (wf_set_orc _ orc W) Ec) as (_ & _ & Hr).
          destruct c as [c|s| | |]; try contradiction; injection Es as <- <-;
            cbn [m_st]; apply Hr.
        - injection Es as <- <-. now intros [|]. }
      destruct (crashed r).
      + injection H as <- <-. exact R1.
      + destruct (run m1 h) as [rs m2] eqn:Er. injection H as <- <-.
        intros w k. rewrite (IH _ _ _ W1 Hh' Er). apply R1.
  Qed.

  Lemma Forall_valid (Q : op -> Prop) h :
    (forall o, Q o -> op_valid o) -> Forall Q h -> Forall op_valid h.
  Proof. intros HQ H. induction H; constructor; auto. Qed.

  (** after such a history nothing is referenced, whatever failed on the way *)
  Corollary fcache_balanced_history_strong cap_mm cap_fb h outs m :
    Forall keeps_nothing h -> run (init_machine cap_mm cap_fb) h = (outs, m) ->
    (forall w, nr w (m_st m) = 0) /\
    capw MM (m_st m) = cap_mm /\ capw FB (m_st m) = cap_fb.
  Proof.
    intros Hh H.
    assert (W0 : wf (m_st (init_machine cap_mm cap_fb))) by apply wf_init.
    pose proof (keeps_nothing_run h _ _ _ W0 Hh H) as R.
    destruct (run_keeps h _ _ _ (Forall_valid _ h keeps_nothing_valid Hh) W0 H) as [W K]. split.
    - intro w. rewrite (nr_ext _ _ W W0 R w). now destruct w.
    - split; [apply (K MM)|apply (K FB)].
  Qed.

  (** after a history of self-contained operations nothing is referenced, so
      [fcache_never_busy_when_balanced] applies to whatever call comes next *)
  Corollary fcache_balanced_history cap_mm cap_fb h outs m :
    Forall self_contained h -> run (init_machine cap_mm cap_fb) h = (outs, m) ->
    mm_clean (m_st m) /\ (forall w, nr w (m_st m) = 0) /\
    capw MM (m_st m) = cap_mm /\ capw FB (m_st m) = cap_fb.
  Proof.
    intros Hh H.
    assert (W0 : wf (m_st (init_machine cap_mm cap_fb))) by apply wf_init.
    assert (C0 : mm_clean (m_st (init_machine cap_mm cap_fb))) by constructor.
    destruct (self_contained_run h _ _ _ W0 C0 Hh H) as [C R].
    destruct (run_keeps h _ _ _ (Forall_valid _ h self_contained_valid Hh) W0 H) as [W K].
    split; [exact C|]. split.
    - intro w. rewrite (nr_ext _ _ W W0 R w). now destruct w.
    - split; [apply (K MM)|apply (K FB)].
  Qed.
End Proofs.

(** ** Concrete witnesses (16-byte pages) *)

Definition ex_file (o : N) : N := (o * 31 + 5) mod 256.
(** a set of files with different contents *)
Definition ex_files (f o : N) : N := (o * 31 + 5 + 101 * f) mod 256.

(** 4. The unrepaired [fcache_get_mmap] ([clamp_eof = false]: an mmap'ed entry
    reports [mmapsz - off] bytes regardless of EOF): a 10-byte file, 64-byte
    mappings, default policy; reading 20 bytes from offset 0 touches the page
    after the EOF page. *)
Example fcache_unrepaired_sigbus :
  exists filesz pos len pol,
    pos < filesz /\ (pol = ALWAYS \/ pol = TRY) /\
    fst (step 4 2 (fun _ => filesz) (fun _ => ex_file) false true
              (mkMachine (set_policy (init_state 2 2) pol) [] [])
              (OpPread 0 pos len no_oracle)) = OutSigbus.
Proof.
  exists 10, 0, 20, TRY. split; [reflexivity|]. split; [now right|]. vm_compute. reflexivity.
Qed.

(** ... the repaired code answers the same call with the file's bytes and zeros *)
Example fcache_repaired_same_call :
  fst (step 4 2 (fun _ => 10) (fun _ => ex_file) true true (init_machine 2 2)
            (OpPread 0 0 20 no_oracle)) =
  OutData (slice 10 ex_file 0 20) GEmpty.
Proof. vm_compute. reflexivity. Qed.

(** The file index is part of the key of the read-fallback cache for a reason:
    the variant of [fcache_get_read] that forgets it ([fb_key_has_fidx = false])
    answers a read of file 1 with the bytes of file 0 once the page at the same
    offset of file 0 is cached (policy NEVER, two 16-byte files); the code as it
    is reads file 1.  [fcache_key_injective_P] / [key_decode_P] is what fails. *)
Example fcache_fb_key_without_fidx_refuted :
  let fsz := fun _ : N => 16 in
  let h := [OpPolicy NEVER; OpPread 0 0 4 no_oracle] in
  let obs := OpPread 1 0 4 no_oracle in
  let answer key := fst (step 4 0 fsz ex_files true key
                              (snd (run 4 0 fsz ex_files true key (init_machine 2 2) h)) obs) in
  answer false = OutData (slice 16 (ex_files 0) 0 4) GEmpty /\
  answer true = OutData (slice 16 (ex_files 1) 0 4) GEmpty /\
  slice 16 (ex_files 0) 0 4 <> slice 16 (ex_files 1) 0 4.
Proof. vm_compute. repeat split; try reflexivity. discriminate. Qed.

(** 2. Beyond the file's pages the answer does depend on the history, through
    the latch of TRY_ONCE: the same call after two histories that differ only
    in where the first read went. *)
Example fcache_try_once_latch_visible_beyond_eof :
  let obs := OpPread 0 16 1 no_oracle in
  let after h := snd (run 4 0 (fun _ => 16) (fun _ => ex_file) true true (init_machine 2 2) h) in
  let m1 := after [OpPolicy TRY_ONCE; OpPread 0 0 1 no_oracle] in
  let m2 := after [OpPolicy TRY_ONCE; OpPread 0 16 1 no_oracle] in
  fst (step 4 0 (fun _ => 16) (fun _ => ex_file) true true m1 obs) = OutErr ERR_NODATA /\
  fst (step 4 0 (fun _ => 16) (fun _ => ex_file) true true m2 obs) = OutData [0] GEmpty.
Proof. vm_compute. split; reflexivity. Qed.

(** 3. When mmap fails, [fcache_get_mmap] caches MAP_FAILED and gives its
    reference back at once (it used to keep it for good).  Here the read
    succeeds through the fallback and nothing stays referenced. *)
Example fcache_mmap_failure_releases_ref :
  let orc := mkOracle [] [true] [] [] [] in
  let '(r, m1) := step 4 0 (fun _ => 16) (fun _ => ex_file) true true (init_machine 2 2)
                       (OpPread 0 0 1 orc) in
  r = OutData [ex_file 0] GEmpty /\ m_fces m1 = [] /\ m_chunks m1 = [] /\
  refcount 0 (st_mm (m_st m1)) = 0 /\ refsum (st_mm (m_st m1)) = 0 /\
  lookup 0 (s_ents (st_mm (m_st m1))) = Some (mkEntry 0 MapFailed 0).
Proof. vm_compute. repeat split; reflexivity. Qed.

(** The cached MAP_FAILED still answers: under ALWAYS a later call without any
    failure of its own gets ERR_SYSTEM (the [~ mm_clean] case of [excuse]) as
    long as the replacement keeps the entry -- and once the replacement has
    dropped it (a miss on another block with the oracle "drop"), the same call
    reads the file. *)
Example fcache_mmap_failure_is_sticky :
  let fail := mkOracle [] [true] [] [] [] in
  let stp := step 4 0 (fun _ => 32) (fun _ => ex_file) true true in
  let rn := run 4 0 (fun _ => 32) (fun _ => ex_file) true true in
  let m := snd (rn (init_machine 2 2) [OpPolicy ALWAYS; OpPread 0 0 1 fail]) in
  let m' := snd (rn m [OpPread 0 16 1 (mkOracle [[true]] [] [] [] [])]) in
  fst (stp m (OpPread 0 0 1 no_oracle)) = OutErr ERR_SYSTEM /\
  fst (stp m' (OpPread 0 0 1 no_oracle)) = OutData [ex_file 0] GEmpty.
Proof. vm_compute. split; reflexivity. Qed.

(** a history over two files with held entries, a policy change, the same block
    offsets in both files and a multi-page chunk: the hypotheses of the theorems
    are met by non-trivial states *)
Example fcache_nonvacuous :
  let fsz := fun f : N => if f =? 0 then 50 else 40 in
  let h := [OpGet 0 3 no_oracle; OpPolicy NEVER; OpPread 1 10 30 no_oracle;
            OpPread 0 10 30 no_oracle;
            OpChunkHold 0 0 40 (mkOracle [] [] [] [true; true] []); OpPut 0] in
  let m := snd (run 4 1 fsz ex_files true true (init_machine 6 6) h) in
  reachable 4 1 2 fsz ex_files m /\
  op_valid 2 (OpChunk 1 5 40 no_oracle) /\
  in_file 4 fsz (OpChunk 1 5 40 no_oracle) /\
  fst (step 4 1 fsz ex_files true true m (OpChunk 1 5 40 no_oracle)) =
  OutData (slice 40 (ex_files 1) 5 40) Copied /\
  nref (st_fb (m_st m)) = 3.
Proof.
  split; [|vm_compute; repeat split; try reflexivity; discriminate].
  exists 6, 6. eexists. eexists. split; [|apply surjective_pairing].
  repeat (apply Forall_cons || apply Forall_nil); cbn; try reflexivity; exact I.
Qed.

Print Assumptions fcache_policy_irrelevant.
Print Assumptions fcache_beyond_eof.
Print Assumptions fcache_never_busy_when_balanced.
Print Assumptions fcache_balanced_history.
Print Assumptions fcache_refs_balanced.
Print Assumptions fcache_failed_get_chunk_balanced.
Print Assumptions fcache_no_crash.
Print Assumptions fcache_unrepaired_sigbus.
Print Assumptions fcache_mmap_failure_releases_ref.
Print Assumptions fcache_refs_balanced_strong.
Print Assumptions fcache_never_busy_strong.
Print Assumptions fcache_balanced_history_strong.
Print Assumptions fcache_key_injective_P.
Print Assumptions fcache_key_injective_M.
Print Assumptions fcache_fb_key_without_fidx_refuted.
