(** Model of the ELF segment lookups with their "last hit" shortcuts:
    src/kdumpfile/elfdump.c [find_closest_mem_load], [find_closest_file_load],
    [find_closest_mem_vload], [find_closest_file_vload].

    [load_sorted] (sorted by [phys]) and [load_vsorted] (sorted by [virt]) are
    two arrays; a [struct load_segment *] is a pair (array of origin, index).
    [last_load] and [last_vload] are such pointers (or NULL).  With
    [repaired = true] the virtual lookups store their hit into [last_vload]
    (the code as repaired, defect 7); with [repaired = false] they store it
    into [last_load], as the unrepaired code does, so that a later physical
    lookup dereferences a pointer into the virtually sorted array.
    The reject test is the repaired one ([pls->phys - paddr >= dist], defect
    32).  All address arithmetic is unsigned 64-bit.

    No proofs in this file. *)
From Coq Require Import NArith List Bool.
From KdV Require Import Base.Wrap64.
Import ListNotations.
Local Open Scope N_scope.

Record segment := { phys : N; virt : N; filesz : N; memsz : N; file_offset : N }.

Record elf := { load_sorted : list segment; load_vsorted : list segment }.

Inductive arr := AP | AV.          (* load_sorted | load_vsorted *)
Definition sptr := (arr * nat)%type.

Record shortcut := { last_load : option sptr; last_vload : option sptr }.
Definition no_shortcut : shortcut := {| last_load := None; last_vload := None |}.

Definition arr_of (e : elf) (a : arr) : list segment :=
  match a with AP => load_sorted e | AV => load_vsorted e end.

Definition deref (e : elf) (p : sptr) : option segment :=
  nth_error (arr_of e (fst p)) (snd p).

(** result of a lookup: a segment pointer, NULL, or a dereference of a
    pointer that designates no array element *)
Inductive res := Found (p : sptr) | NotFound | BadPtr.

(* last && addr >= last->key && addr - last->key < last->size *)
Definition last_hits (key sz : segment -> N) (s : segment) (a : N) : bool :=
  (key s <=? a) && (wsub a (key s) <? sz s).

(* for (i = 0; i < num; i++) { pls = &array[i];
     if (pls->size && addr <= pls->key + pls->size - 1) {
       if (addr < pls->key && pls->key - addr >= dist) break;
       return last = pls; } }
   return NULL; *)
Fixpoint scan (key sz : segment -> N) (l : list segment) (i : nat) (a dist : N)
  : option nat :=
  match l with
  | [] => None
  | s :: l' =>
      if negb (sz s =? 0) && (a <=? wsub (wadd (key s) (sz s)) 1) then
        if (a <? key s) && (dist <=? wsub (key s) a) then None else Some i
      else scan key sz l' (S i) a dist
  end.

(** the common shape of the four functions: [which] is the array searched,
    [last] the shortcut consulted, [store] puts the hit into the shortcut *)
Definition find_closest (e : elf) (which : arr) (key sz : segment -> N)
           (last : option sptr) (store : sptr -> shortcut) (st : shortcut)
           (a dist : N) : res * shortcut :=
  let slow :=
    match scan key sz (arr_of e which) 0 a dist with
    | Some i => (Found (which, i), store (which, i))
    | None => (NotFound, st)
    end in
  match last with
  | None => slow
  | Some p =>
      match deref e p with
      | None => (BadPtr, st)
      | Some s => if last_hits key sz s a then (Found p, st) else slow
      end
  end.

Definition set_last_load (st : shortcut) (p : sptr) : shortcut :=
  {| last_load := Some p; last_vload := last_vload st |}.
Definition set_last_vload (st : shortcut) (p : sptr) : shortcut :=
  {| last_load := last_load st; last_vload := Some p |}.

Definition find_closest_mem_load (e : elf) (st : shortcut) (paddr dist : N) :=
  find_closest e AP phys memsz (last_load st) (set_last_load st) st paddr dist.

Definition find_closest_file_load (e : elf) (st : shortcut) (paddr dist : N) :=
  find_closest e AP phys filesz (last_load st) (set_last_load st) st paddr dist.

Definition find_closest_mem_vload (repaired : bool) (e : elf) (st : shortcut) (vaddr dist : N) :=
  find_closest e AV virt memsz (last_vload st)
    (if repaired then set_last_vload st else set_last_load st) st vaddr dist.

Definition find_closest_file_vload (repaired : bool) (e : elf) (st : shortcut) (vaddr dist : N) :=
  find_closest e AV virt filesz (last_vload st)
    (if repaired then set_last_vload st else set_last_load st) st vaddr dist.

Inductive fn := MemLoad | FileLoad | MemVload | FileVload.

Definition lookup (repaired : bool) (e : elf) (st : shortcut) (f : fn) (a dist : N)
  : res * shortcut :=
  match f with
  | MemLoad => find_closest_mem_load e st a dist
  | FileLoad => find_closest_file_load e st a dist
  | MemVload => find_closest_mem_vload repaired e st a dist
  | FileVload => find_closest_file_vload repaired e st a dist
  end.

(** a history of lookups: the answers, in order *)
Fixpoint run (repaired : bool) (e : elf) (st : shortcut) (ops : list (fn * N * N))
  : list res :=
  match ops with
  | [] => []
  | (f, a, dist) :: ops' =>
      let '(r, st') := lookup repaired e st f a dist in
      r :: run repaired e st' ops'
  end.

(** the shortcut-less implementation *)
Definition lookup_plain (e : elf) (f : fn) (a dist : N) : res :=
  fst (lookup true e no_shortcut f a dist).
