(** Block level of the LKCD incremental PFN index: src/kdumpfile/lkcd.c
    [struct pfn_block], [realloc_pfn_offs], [alloc_tail_pfn_block],
    [split_pfn_block], and the reading side [lookup_pfn_block], [idx_is_gap]
    and the offset computation of [get_page_desc].

    A block describes the pages with level-3 indices [idx3 .. idx3 + n]: page
    [idx3] has its descriptor at [filepos], page [idx3 + i + 1] (0 <= i < n) at
    [filepos + offs[i]]; [offs[i] = 0] means "not known yet (gap)".
    [search_page_desc] calls [split_pfn_block(ctx, block, idx)] with
    [idx = pfn_idx3(curpfn) - block->idx3] when the page being scanned lies
    more than UINT32_MAX bytes after [block->filepos]; afterwards it allocates
    a new block for the scanned page itself.

    [block] here is the content of one [struct pfn_block]: [offs] is the list
    of its [n] entries ([alloc] is not observable: [realloc_pfn_offs(block, k)]
    is truncation / zero extension of the list to [k] entries, which is exact
    because the code keeps [offs[n .. alloc)] zero).  Pointers: the [next] link
    is the list order; the result of a split is the list of blocks that
    replaces [block] in its chain.

    The C types are modelled as they are: [unsigned short] arithmetic is taken
    mod 2^16 (so [block->n = idx - 1] for [idx = 0] is 65535), [uint32_t] mod
    2^32 (the re-based offsets of the tail), [off_t] additions that leave
    [0, 2^63) are the outcome [SplitUB], reads outside [offs] are [SplitOOB],
    a failing allocation is an oracle bit.

    A [variant] selects the code that is modelled:
    - [copy_literal]: [true] = the copy loop of the library
      ([block->offs[++nextidx]]), [false] = the seeded change C04-a2
      ([block->offs[nextidx + idx]]);
    - [keep_gaps]: [true] = the repaired loop (fix 83: an entry 0 of the tail
      stays 0), [false] = the pinned code ([0 - blockoff] mod 2^32, not 0);
    - [free_on_zero]: [true] = the repaired [realloc_pfn_offs] (fix 82:
      [alloc = 0] frees the array), [false] = the pinned code, which calls
      [realloc(ptr, 0)]: glibc frees [ptr] and returns NULL, the function
      reports a failure that [split_pfn_block] ignores, and [block->offs]
      keeps the freed pointer (outcome [SplitFreed]);
    - [cut_runs]: [true] = the proposed repair fixes/84 of [alloc_tail_pfn_block]: a known
      entry that is not above [blockoff] ends the new block and starts another one
      (recursive call); [false] = the code without it.  With [cut_runs] the copy loop is
      the library's ([copy_literal] is not consulted).

    No proofs in this file. *)
From Coq Require Import NArith List Bool.
Import ListNotations.
Local Open Scope N_scope.

Definition U16 : N := 65536.
Definition U32 : N := 4294967296.
Definition OFF_LIMIT : N := 9223372036854775808.      (* 2^63: off_t is int64_t *)
Definition PFN_IDX3_SIZE : N := 4096.
Definition MAX_PFN_GAP : N := 15.

Record block := { filepos : N; idx3 : N; offs : list N }.

(* block->n *)
Definition blk_n (b : block) : N := N.of_nat (length (offs b)).

(* array read offs[i]; None = outside the array *)
Definition rd (l : list N) (i : N) : option N := nth_error l (N.to_nat i).

Definition u16 (x : N) : N := x mod U16.
(* (unsigned short)(x - 1) *)
Definition u16_dec (x : N) : N := (x mod U16 + U16 - 1) mod U16.
(* (uint32_t)(a - b) *)
Definition u32_sub (a b : N) : N := (a mod U32 + U32 - b mod U32) mod U32.

Record variant := { copy_literal : bool; keep_gaps : bool; free_on_zero : bool; cut_runs : bool }.
Definition repaired : variant :=          (* /repo HEAD + fixes 82, 83 *)
  {| copy_literal := true; keep_gaps := true; free_on_zero := true; cut_runs := false |}.
Definition pinned : variant :=            (* /repo HEAD *)
  {| copy_literal := true; keep_gaps := false; free_on_zero := false; cut_runs := false |}.
Definition seeded : variant :=            (* repaired + seeded change C04-a2 *)
  {| copy_literal := false; keep_gaps := true; free_on_zero := true; cut_runs := false |}.
Definition repaired84 : variant :=        (* /repo HEAD + fixes 82, 83, 84 *)
  {| copy_literal := true; keep_gaps := true; free_on_zero := true; cut_runs := true |}.

(* which allocation calls fail (each bit is consulted only if the call is made) *)
Record oracle := { fail_malloc : bool;    (* ctx_malloc of the (first) tail block *)
                   fail_tail : bool;      (* realloc of the (first) tail's offs *)
                   fail_head : bool;      (* realloc of the head's offs *)
                   fail_malloc2 : bool;   (* [cut_runs]: ctx_malloc of a further tail block *)
                   fail_tail2 : bool }.   (* [cut_runs]: realloc of a further tail's offs *)
Definition no_failure : oracle :=
  {| fail_malloc := false; fail_tail := false; fail_head := false;
     fail_malloc2 := false; fail_tail2 := false |}.

(** * realloc_pfn_offs on a list whose length is [alloc] *)

(* first k entries, zero-extended *)
Fixpoint resize (k : nat) (l : list N) : list N :=
  match k with
  | O => []
  | S k' => match l with
            | [] => 0 :: resize k' []
            | x :: r => x :: resize k' r
            end
  end.

Inductive realloc_res :=
  | ROk (l : list N)        (* KDUMP_OK, the new content *)
  | RFail                   (* KDUMP_ERR_SYSTEM, nothing changed *)
  | RFreed.                 (* pinned code, alloc = 0: freed, pointer kept, "failure" *)

(*  if (block->alloc == alloc) return KDUMP_OK;
    [fix 82: if (!alloc) { free(block->offs); offs = NULL; alloc = 0; return KDUMP_OK; }]
    newoffs = realloc(block->offs, alloc * sizeof(uint32_t));
    if (!newoffs) return KDUMP_ERR_SYSTEM;
    if (alloc > block->alloc) memset(newoffs + block->alloc, 0, ...);  *)
Definition realloc_pfn_offs (v : variant) (fails : bool) (l : list N) (alloc : N) : realloc_res :=
  if alloc =? N.of_nat (length l) then ROk l
  else if alloc =? 0 then (if free_on_zero v then ROk [] else RFreed)
  else if fails then RFail
  else ROk (resize (N.to_nat alloc) l).

(** * alloc_tail_pfn_block *)

(*  for (idx = 0; idx < next->n; ++idx)
        next->offs[idx] = block->offs[++nextidx] - blockoff;
    (fix 83: off = block->offs[++nextidx]; next->offs[idx] = off ? off - blockoff : 0;
     seeded change: block->offs[nextidx + idx], nextidx not incremented)
    [cnt] = iterations left; None = a read outside block->offs *)
Definition tail_entry (v : variant) (blockoff off : N) : N :=
  if keep_gaps v && (off =? 0) then 0 else u32_sub off blockoff.

Fixpoint copy_loop (v : variant) (src : list N) (blockoff : N) (cnt : nat) (idx nextidx : N)
  : option (list N) :=
  match cnt with
  | O => Some []
  | S c =>
      let nextidx' := if copy_literal v then u16 (nextidx + 1) else nextidx in
      let pos := if copy_literal v then nextidx' else nextidx + idx in
      match rd src pos with
      | None => None
      | Some off =>
          match copy_loop v src blockoff c (u16 (idx + 1)) nextidx' with
          | None => None
          | Some r => Some (tail_entry v blockoff off :: r)
          end
      end
  end.

Inductive tail_res :=
  | TOk (next : block)
  | TErr                    (* KDUMP_ERR_SYSTEM; nothing linked, nothing changed *)
  | TOOB
  | TUB.

Definition alloc_tail_pfn_block (v : variant) (o : oracle) (b : block) (idx nextidx : N) : tail_res :=
  (* next = ctx_malloc(sizeof(struct pfn_block), ctx, "PFN block"); *)
  if fail_malloc o then TErr else
  (* next->idx3 = block->idx3 + nextidx + 1;   (uint32_t) *)
  let nidx3 := (idx3 b + nextidx + 1) mod U32 in
  (* next->n = block->n - nextidx - 1;         (int arithmetic, stored in unsigned short) *)
  let nn := (blk_n b mod U16 + 2 * U16 - nextidx mod U16 - 1) mod U16 in
  (* next->alloc = 0; next->offs = NULL; res = realloc_pfn_offs(next, next->n);
     if (res != KDUMP_OK) { free(next); return error_pfn_offs(ctx, res); } *)
  match realloc_pfn_offs v (fail_tail o) [] nn with
  | RFail | RFreed => TErr
  | ROk _ =>
      (* blockoff = block->offs[nextidx]; *)
      match rd (offs b) nextidx with
      | None => TOOB
      | Some blockoff =>
          (* next->filepos = block->filepos + blockoff;   (off_t) *)
          let nfilepos := filepos b + blockoff in
          if OFF_LIMIT <=? nfilepos then TUB else
          match copy_loop v (offs b) blockoff (N.to_nat nn) 0 nextidx with
          | None => TOOB
          | Some r => TOk {| filepos := nfilepos; idx3 := nidx3; offs := r |}
          end
      end
  end.

(** * alloc_tail_pfn_block with fixes/84 *)

(*  for (idx = 0; idx < next->n; ++idx) {
        uint32_t off = block->offs[++nextidx];
        if (off && off <= blockoff) { ...recursive call...; next->n = idx; ...; break; }
        next->offs[idx] = off ? off - blockoff : 0;
    }
    [CCut r q]: the loop met the entry at position [q] after having written [r] *)
Inductive copy_res :=
  | CDone (r : list N)
  | CCut (r : list N) (q : N)
  | COOB.

Fixpoint copy_cut (v : variant) (src : list N) (blockoff : N) (cnt : nat) (nextidx : N) : copy_res :=
  match cnt with
  | O => CDone []
  | S c =>
      let nextidx' := u16 (nextidx + 1) in
      match rd src nextidx' with
      | None => COOB
      | Some off =>
          if negb (off =? 0) && (off <=? blockoff) then CCut [] nextidx'
          else match copy_cut v src blockoff c nextidx' with
               | CDone r => CDone (tail_entry v blockoff off :: r)
               | CCut r q => CCut (tail_entry v blockoff off :: r) q
               | COOB => COOB
               end
      end
  end.

Inductive tails_res :=
  | TsOk (tails : list block)   (* the new blocks, in list order *)
  | TsErr                       (* KDUMP_ERR_SYSTEM; everything freed, nothing linked *)
  | TsOOB
  | TsUB.

(* [first] = this is the call made by split_pfn_block (selects the oracle bits);
   [fuel] bounds the recursion depth (one level per block, at most block->n levels) *)
Fixpoint alloc_tail_runs (fuel : nat) (v : variant) (o : oracle) (first : bool) (b : block)
  (nextidx : N) : tails_res :=
  match fuel with
  | O => TsOOB
  | S f =>
      if (if first then fail_malloc o else fail_malloc2 o) then TsErr else
      let nidx3 := (idx3 b + nextidx + 1) mod U32 in
      let nn := (blk_n b mod U16 + 2 * U16 - nextidx mod U16 - 1) mod U16 in
      match realloc_pfn_offs v (if first then fail_tail o else fail_tail2 o) [] nn with
      | RFail | RFreed => TsErr
      | ROk _ =>
          match rd (offs b) nextidx with
          | None => TsOOB
          | Some blockoff =>
              let nfilepos := filepos b + blockoff in
              if OFF_LIMIT <=? nfilepos then TsUB else
              match copy_cut v (offs b) blockoff (N.to_nat nn) nextidx with
              | COOB => TsOOB
              | CDone r => TsOk [ {| filepos := nfilepos; idx3 := nidx3; offs := r |} ]
              | CCut r q =>
                  (* res = alloc_tail_pfn_block(ctx, block, idx, nextidx);
                     if (res != KDUMP_OK) { free(next->offs); free(next); return res; }
                     next->n = idx; realloc_pfn_offs(next, next->n);   (shrinks; status ignored) *)
                  match alloc_tail_runs f v o false b q with
                  | TsOk later => TsOk ({| filepos := nfilepos; idx3 := nidx3; offs := r |} :: later)
                  | e => e
                  end
              end
          end
      end
  end.

(** * split_pfn_block *)

(*  nextidx = idx;
    while (nextidx < block->n && block->offs[nextidx] == 0) ++nextidx;
    None = a read outside block->offs *)
Fixpoint scan_gap (fuel : nat) (l : list N) (n nextidx : N) : option N :=
  match fuel with
  | O => Some nextidx
  | S f =>
      if nextidx <? n then
        match rd l nextidx with
        | None => None
        | Some off => if off =? 0 then scan_gap f l n (u16 (nextidx + 1)) else Some nextidx
        end
      else Some nextidx
  end.

Inductive split_res :=
  | SplitOk (chain : list block)      (* KDUMP_OK: the blocks that replace [block] *)
  | SplitErr                          (* KDUMP_ERR_SYSTEM: the chain is unchanged *)
  | SplitOOB                          (* read outside block->offs *)
  | SplitUB                           (* off_t overflow *)
  | SplitFreed (chain : list block)   (* KDUMP_OK, but the head's offs were freed by
                                         realloc(ptr, 0) and block->offs / alloc still
                                         refer to them (pinned code, idx = 1, n > 0) *)
  | SplitStale (n : N) (chain : list block).
                                      (* KDUMP_OK, but the realloc of the head failed and the
                                         status is ignored: block->n = n while the head (first
                                         of [chain]) still has its old array *)

Definition split_pfn_block (v : variant) (o : oracle) (b : block) (idx : N) : split_res :=
  let n := blk_n b in
  match scan_gap (S (length (offs b))) (offs b) n (u16 idx) with
  | None => SplitOOB
  | Some nextidx =>
      (* if (nextidx < block->n) { res = alloc_tail_pfn_block(ctx, block, idx, nextidx);
                                    if (res != KDUMP_OK) return res; } *)
      let tl := if nextidx <? n then
                  (if cut_runs v then alloc_tail_runs (S (length (offs b))) v o true b nextidx
                   else match alloc_tail_pfn_block v o b idx nextidx with
                        | TOk t => TsOk [t] | TErr => TsErr | TOOB => TsOOB | TUB => TsUB
                        end)
                else TsOk [] in
      match tl with
      | TsErr => SplitErr
      | TsOOB => SplitOOB
      | TsUB => SplitUB
      | TsOk tails =>
          (* block->n = idx - 1;  realloc_pfn_offs(block, block->n);  return KDUMP_OK; *)
          let hn := u16_dec idx in
          match realloc_pfn_offs v (fail_head o) (offs b) hn with
          | ROk l => SplitOk ({| filepos := filepos b; idx3 := idx3 b; offs := l |} :: tails)
          | RFail => SplitStale hn (b :: tails)
          | RFreed => SplitFreed ({| filepos := filepos b; idx3 := idx3 b; offs := [] |} :: tails)
          end
      end
  end.

(** * The reading side *)

(*  while (block) {
        if (block->idx3 > idx) break;
        if (idx <= block->idx3 + block->n + tolerance &&
            !(block->next && block->next->idx3 <= idx)) return block;
        block = block->next;
    }
    return NULL;                                  (uint32_t arithmetic) *)
Definition next_le (rest : list block) (idx : N) : bool :=
  match rest with
  | nb :: _ => idx3 nb <=? idx
  | [] => false
  end.

Fixpoint lookup_pfn_block (chain : list block) (idx tolerance : N) : option block :=
  match chain with
  | [] => None
  | b :: rest =>
      if idx <? idx3 b then None
      else if (idx <=? (idx3 b + blk_n b + tolerance) mod U32) && negb (next_le rest idx)
      then Some b
      else lookup_pfn_block rest idx tolerance
  end.

Inductive lk_res :=
  | LkOff (off : N)         (* the descriptor of the page is at [off] *)
  | LkNone                  (* not indexed / gap: get_page_desc scans on *)
  | LkOOB.                  (* read outside block->offs *)

(*  idx_is_gap: if (idx <= block->idx3) return 0; return block->offs[idx - block->idx3 - 1] == 0;
    get_page_desc: off = block->filepos; if (idx > block->idx3) off += block->offs[idx - block->idx3 - 1];
    ([off] is exact as long as it is below 2^63, see [wf_block]) *)
Definition block_off (b : block) (idx : N) : lk_res :=
  if idx <=? idx3 b then LkOff (filepos b)
  else match rd (offs b) (idx - idx3 b - 1) with
       | None => LkOOB
       | Some off => if off =? 0 then LkNone else LkOff (filepos b + off)
       end.

(* get_page_desc: block = lookup_pfn_block(ctx, pfn, 0); ... *)
Definition chain_lookup (chain : list block) (idx : N) : lk_res :=
  match lookup_pfn_block chain idx 0 with
  | None => LkNone
  | Some b => block_off b idx
  end.

(** * Specification: the finite map a chain stands for *)

(* (index, offset) pairs of the entries [l], the first of which belongs to index [i] *)
Fixpoint offs_pairs (i base : N) (l : list N) : list (N * N) :=
  match l with
  | [] => []
  | off :: r => (if off =? 0 then [] else [(i, base + off)]) ++ offs_pairs (i + 1) base r
  end.

Definition block_pairs (b : block) : list (N * N) :=
  (idx3 b, filepos b) :: offs_pairs (idx3 b + 1) (filepos b) (offs b).

Fixpoint assoc (j : N) (l : list (N * N)) : option N :=
  match l with
  | [] => None
  | (i, off) :: r => if i =? j then Some off else assoc j r
  end.

(* level-3 index |-> file offset of its page descriptor *)
Definition denote (chain : list block) (j : N) : option N :=
  assoc j (flat_map block_pairs chain).

Definition lk_of_option (o : option N) : lk_res :=
  match o with Some off => LkOff off | None => LkNone end.

(** * Invariants *)

(* what search_page_desc maintains for every block: the indices stay inside one
   level-3 table, entries are 32-bit, file offsets are off_t values *)
Definition wf_block (b : block) : Prop :=
  idx3 b + blk_n b < PFN_IDX3_SIZE /\
  filepos b < OFF_LIMIT /\
  Forall (fun off => off < U32 /\ filepos b + off < OFF_LIMIT) (offs b).

Definition wf_blockb (b : block) : bool :=
  (idx3 b + blk_n b <? PFN_IDX3_SIZE) && (filepos b <? OFF_LIMIT) &&
  forallb (fun off => (off <? U32) && (filepos b + off <? OFF_LIMIT)) (offs b).

(* sorted by idx3, ranges do not overlap *)
Fixpoint chain_sorted (c : list block) : Prop :=
  match c with
  | [] => True
  | b1 :: r => match r with
               | [] => True
               | b2 :: _ => idx3 b1 + blk_n b1 < idx3 b2
               end /\ chain_sorted r
  end.

Fixpoint chain_sortedb (c : list block) : bool :=
  match c with
  | [] => true
  | b1 :: r => match r with
               | [] => true
               | b2 :: _ => idx3 b1 + blk_n b1 <? idx3 b2
               end && chain_sortedb r
  end.

(* what lookup_pfn_block(curpfn, MAX_PFN_GAP) / idx_fits_block guarantee about the block
   that follows the one being split: it starts above the block and above the scanned page *)
Definition follows (b : block) (idx : N) (post : list block) : Prop :=
  match post with
  | [] => True
  | nb :: _ => idx3 b + blk_n b < idx3 nb /\ idx3 b + idx < idx3 nb
  end.

(* Position of the first known entry at or after position [pos0] ([l] = the entries
   from position [pos0] on). *)
Fixpoint first_known_from (l : list N) (pos0 : N) : option N :=
  match l with
  | [] => None
  | off :: r => if off =? 0 then first_known_from r (pos0 + 1) else Some pos0
  end.
Definition first_known (l : list N) (idx : N) : option N :=
  first_known_from (skipn (N.to_nat idx) l) idx.

(* The known pages behind the first page of the tail lie behind it in the file as well
   (pages enter a block in stream order, so this is NOT an invariant of the code). *)
Definition tail_ordered (b : block) (idx : N) : Prop :=
  forall p vp k vk,
    first_known (offs b) idx = Some p -> rd (offs b) p = Some vp ->
    p < k -> rd (offs b) k = Some vk -> vk <> 0 -> vp < vk.

Definition tail_orderedb (b : block) (idx : N) : bool :=
  match first_known (offs b) idx with
  | None => true
  | Some p =>
      match rd (offs b) p with
      | None => true
      | Some vp => forallb (fun vk => (vk =? 0) || (vp <? vk)) (skipn (S (N.to_nat p)) (offs b))
      end
  end.
