(** Model of addrxlat's 4-slot read cache: src/addrxlat/ctx.c [init_cache],
    [cleanup_cache], [touch_cache_slot], [get_cache_buf], [bury_cache_buffer]
    and the observation [do_read32]/[do_read64] (struct: addrxlat-priv.h
    [struct read_cache], [struct read_cache_slot]).

    Pointers to the four slots are the indices [I0..I3]; the MRU ring is kept
    exactly as the C code keeps it: a [next] and a [prev] index per slot and
    the [mru] index.  [touch_ring] and [bury_ring] repeat the C assignments one
    by one (each assignment reads the ring as modified by the previous ones).

    The get-page callback is the section variable [get_page] (a pure function
    of the requested address).  A miss is split into [miss_begin] (everything
    [get_cache_buf] does before calling the callback) and [miss_end] (what it
    does with the callback's answer), so that calls made re-entrantly *by the
    callback* can be placed in between: an operation carries the list [inner]
    of operations its callback performs before answering (run only when the
    operation misses; histories are therefore well bracketed by construction).
    In this model the callback writes [addr], [size], [ptr] only when it
    returns ([miss_end]); between [miss_begin] and [miss_end] the slot has the
    requested address, [ptr = None] and its OLD [size], and its [put_page]
    pointer is [def_put_page_cb], so a [Put] event whose buffer has
    [ptr = None] is a call of that no-op default.

    No proofs in this file. *)
From Coq Require Import NArith List Bool.
From KdV Require Import Base.Wrap64.
Import ListNotations.
Local Open Scope N_scope.

Definition byte := N.

(** * Slot indices and 4-element arrays *)
Inductive ix := I0 | I1 | I2 | I3.

Definition ix_eqb (a b : ix) : bool :=
  match a, b with
  | I0, I0 | I1, I1 | I2, I2 | I3, I3 => true
  | _, _ => false
  end.

Definition ix_to_N (i : ix) : N :=
  match i with I0 => 0 | I1 => 1 | I2 => 2 | I3 => 3 end.

Record quad (A : Type) := Q { q0 : A; q1 : A; q2 : A; q3 : A }.
Arguments Q {A}. Arguments q0 {A}. Arguments q1 {A}. Arguments q2 {A}. Arguments q3 {A}.

Definition qget {A} (q : quad A) (i : ix) : A :=
  match i with I0 => q0 q | I1 => q1 q | I2 => q2 q | I3 => q3 q end.

Definition qset {A} (q : quad A) (i : ix) (v : A) : quad A :=
  match i with
  | I0 => Q v (q1 q) (q2 q) (q3 q)
  | I1 => Q (q0 q) v (q2 q) (q3 q)
  | I2 => Q (q0 q) (q1 q) v (q3 q)
  | I3 => Q (q0 q) (q1 q) (q2 q) v
  end.

(** * The MRU ring *)
Record ring := { nxt : quad ix; prv : quad ix; mru : ix }.

Definition set_next (r : ring) (i v : ix) : ring :=
  {| nxt := qset (nxt r) i v; prv := prv r; mru := mru r |}.
Definition set_prev (r : ring) (i v : ix) : ring :=
  {| nxt := nxt r; prv := qset (prv r) i v; mru := mru r |}.
Definition set_mru (r : ring) (v : ix) : ring :=
  {| nxt := nxt r; prv := prv r; mru := v |}.
Definition next (r : ring) (i : ix) : ix := qget (nxt r) i.
Definition prev (r : ring) (i : ix) : ix := qget (prv r) i.

(* init_cache: cache->mru = slot0;
   do { slot->next = slot + 1 < end ? slot + 1 : &slot[0];
        slot->next->prev = slot; } while (++slot < end);
   (the links are uninitialised before; they are all overwritten) *)
Definition init_step (r : ring) (slot nx : ix) : ring :=
  let r := set_next r slot nx in
  set_prev r (next r slot) slot.

Definition init_ring : ring :=
  let r := {| nxt := Q I0 I0 I0 I0; prv := Q I0 I0 I0 I0; mru := I0 |} in
  let r := init_step r I0 I1 in
  let r := init_step r I1 I2 in
  let r := init_step r I2 I3 in
  init_step r I3 I0.

(* the five assignments shared by touch_cache_slot and bury_cache_buffer:
     slot->prev->next = slot->next;
     slot->next->prev = slot->prev;
     slot->next = cache->mru;
     slot->prev = cache->mru->prev;
     slot->prev->next = slot->next->prev = slot;     *)
Definition relink_before_mru (r : ring) (slot : ix) : ring :=
  let r := set_next r (prev r slot) (next r slot) in
  let r := set_prev r (next r slot) (prev r slot) in
  let r := set_next r slot (mru r) in
  let r := set_prev r slot (prev r (mru r)) in
  let r := set_prev r (next r slot) slot in
  set_next r (prev r slot) slot.

(* touch_cache_slot *)
Definition touch_ring (r : ring) (slot : ix) : ring :=
  if ix_eqb slot (mru r) then r                       (* already marked *)
  else
    let r := if negb (ix_eqb (next r slot) (mru r))
             then relink_before_mru r slot else r in
    set_mru r slot.                                   (* move the MRU pointer *)

(* the ring part of bury_cache_buffer once the slot is FOUND *)
Definition bury_ring (r : ring) (slot : ix) : ring :=
  if ix_eqb (next r slot) (mru r) then r              (* already marked *)
  else if negb (ix_eqb slot (mru r)) then relink_before_mru r slot
  else set_mru r (next r slot).

(** the ring read from [mru] following [next]: most recently used first *)
Definition ring_list (r : ring) : list ix :=
  let a := mru r in let b := next r a in let c := next r b in let d := next r c in
  [a; b; c; d].

(** * Slots and the cache *)
Record slot := { as_ : N; addr : N; size : N; ptr : option (list byte) }.

Record cache := { slots : quad slot; rg : ring }.

Definition empty_slot : slot := {| as_ := 0; addr := 0; size := 0; ptr := None |}.
Definition init_cache : cache :=
  {| slots := Q empty_slot empty_slot empty_slot empty_slot; rg := init_ring |}.

Definition set_slot (c : cache) (i : ix) (s : slot) : cache :=
  {| slots := qset (slots c) i s; rg := rg c |}.
Definition get_slot (c : cache) (i : ix) : slot := qget (slots c) i.

(* buf->size > addr->addr - buf->addr.addr && buf->addr.as == addr->as
   (unsigned 64-bit subtraction) *)
Definition hit_test (s : slot) (a_as a_addr : N) : bool :=
  (wsub a_addr (addr s) <? size s) && (as_ s =? a_as).

(* slot = &slot[0]; do { if (hit) goto out; } while (++slot < end); *)
Definition find_slot (c : cache) (a_as a_addr : N) : option ix :=
  if hit_test (get_slot c I0) a_as a_addr then Some I0
  else if hit_test (get_slot c I1) a_as a_addr then Some I1
  else if hit_test (get_slot c I2) a_as a_addr then Some I2
  else if hit_test (get_slot c I3) a_as a_addr then Some I3
  else None.

(** a buffer as the callbacks see it *)
Definition page := (N * N * N * option (list byte))%type.   (* as, addr, size, ptr *)
Definition page_of (s : slot) : page := (as_ s, addr s, size s, ptr s).

Inductive gres := GOk (s : ix) | GFail | GRecursion.
Inductive rres := RBytes (l : list byte) | RFail | RRecursion | ROOB.

Inductive event :=
| Got (p : page)           (* get_page returned ADDRXLAT_OK with this buffer *)
| Put (p : page)           (* slot->buffer.put_page(&slot->buffer) *)
| RetG (r : gres)          (* a get_cache_buf made by a callback returned *)
| RetR (r : rres).         (* a do_read made by a callback returned *)

(* out: if (!slot->buffer.ptr) return ERR_NODATA "Infinite read recursion";
        *pbuf = &slot->buffer; touch_cache_slot(cache, slot); return OK; *)
Definition finish (c : cache) (s : ix) : cache * gres :=
  match ptr (get_slot c s) with
  | None => (c, GRecursion)
  | Some _ => ({| slots := slots c; rg := touch_ring (rg c) s |}, GOk s)
  end.

(* slot = cache.mru->prev;
   if (slot->buffer.size) slot->buffer.put_page(&slot->buffer);
   slot->buffer.addr = *addr; slot->buffer.ptr = NULL;
   slot->buffer.put_page = def_put_page_cb;          -- size is not touched *)
Definition miss_begin (c : cache) (a_as a_addr : N) : cache * list event * ix :=
  let s := prev (rg c) (mru (rg c)) in
  let old := get_slot c s in
  let ev := if size old =? 0 then [] else [Put (page_of old)] in
  (set_slot c s {| as_ := a_as; addr := a_addr; size := size old; ptr := None |}, ev, s).

(* status = cb->get_page(cb, &slot->buffer);
   if (status != OK) { slot->buffer.size = 0; return status; }
   out: ...
   On success the callback has stored the region's start, its size and the
   data pointer into the buffer it was given (it does not write [addr.as]). *)
Definition miss_end (c : cache) (s : ix) (res : option (N * N * list byte))
  : cache * list event * gres :=
  let cur := get_slot c s in
  match res with
  | None =>
      (set_slot c s {| as_ := as_ cur; addr := addr cur; size := 0; ptr := ptr cur |},
       [], GFail)
  | Some (b, sz, d) =>
      let new := {| as_ := as_ cur; addr := b; size := sz; ptr := Some d |} in
      let '(c', r) := finish (set_slot c s new) s in
      (c', [Got (page_of new)], r)
  end.

(* bury_cache_buffer: same scan, then the ring surgery *)
Definition bury (c : cache) (a_as a_addr : N) : cache :=
  match find_slot c a_as a_addr with
  | Some s => {| slots := slots c; rg := bury_ring (rg c) s |}
  | None => c
  end.

(* cleanup_cache: every slot with size != 0 is put, in index order *)
Definition cleanup_events (c : cache) : list event :=
  flat_map (fun i => let s := get_slot c i in
                     if size s =? 0 then [] else [Put (page_of s)])
           [I0; I1; I2; I3].

(* ptr = buf->ptr + (addr->addr - buf->addr.addr); *val = *ptr  (n bytes) *)
Definition cut (d : list byte) (off n : N) : rres :=
  if N.of_nat (length d) <? off + n then ROOB
  else RBytes (firstn (N.to_nat n) (skipn (N.to_nat off) d)).

Definition read_slot (s : slot) (a_addr n : N) : rres :=
  match ptr s with
  | None => RRecursion           (* not reachable after GOk *)
  | Some d =>
      if size s <? wsub a_addr (addr s) + n then ROOB
      else cut d (wsub a_addr (addr s)) n
  end.

(** * Operations and histories *)
Inductive op :=
| OGet (a_as a_addr : N) (inner : list op)       (* get_cache_buf *)
| ORead (a_as a_addr n : N) (inner : list op)    (* do_read32 / do_read64 *)
| OBury (a_as a_addr : N).                       (* bury_cache_buffer *)

Inductive outcome := OutG (r : gres) | OutR (r : rres) | OutB.

Section WithCallback.

Variable get_page : N -> N -> option (N * N * list byte).

(** get_cache_buf whose callback (if it is called) first performs [inner] *)
Section Get.
Variable run_inner : cache -> list op -> cache * list event.

Definition get_cache_buf_re (c : cache) (a_as a_addr : N) (inner : list op)
  : cache * list event * gres :=
  match find_slot c a_as a_addr with
  | Some s => let '(c', r) := finish c s in (c', [], r)
  | None =>
      let '(c1, ev1, s) := miss_begin c a_as a_addr in
      let '(c2, ev2) := run_inner c1 inner in
      let '(c3, ev3, r) := miss_end c2 s (get_page a_as a_addr) in
      (c3, ev1 ++ ev2 ++ ev3, r)
  end.
End Get.

Definition gres_to_rres (c : cache) (r : gres) (a_addr n : N) : rres :=
  match r with
  | GOk s => read_slot (get_slot c s) a_addr n
  | GFail => RFail
  | GRecursion => RRecursion
  end.

Fixpoint run_op (c : cache) (o : op) {struct o} : cache * list event * outcome :=
  let run_inner :=
    (fix run_inner (c : cache) (l : list op) {struct l} : cache * list event :=
       match l with
       | [] => (c, [])
       | o :: l' =>
           let '(c1, ev1, out) := run_op c o in
           let ret := match out with
                      | OutG r => [RetG r] | OutR r => [RetR r] | OutB => []
                      end in
           let '(c2, ev2) := run_inner c1 l' in
           (c2, ev1 ++ ret ++ ev2)
       end) in
  match o with
  | OGet a_as a_addr inner =>
      let '(c', ev, r) := get_cache_buf_re run_inner c a_as a_addr inner in
      (c', ev, OutG r)
  | ORead a_as a_addr n inner =>
      let '(c', ev, r) := get_cache_buf_re run_inner c a_as a_addr inner in
      (c', ev, OutR (gres_to_rres c' r a_addr n))
  | OBury a_as a_addr => (bury c a_as a_addr, [], OutB)
  end.

(** the operations a callback performs (the same function as the local
    [run_inner] of [run_op]; [ReadCacheProofs.run_op_get] shows it) *)
Fixpoint run_list (c : cache) (l : list op) {struct l} : cache * list event :=
  match l with
  | [] => (c, [])
  | o :: l' =>
      let '(c1, ev1, out) := run_op c o in
      let ret := match out with
                 | OutG r => [RetG r] | OutR r => [RetR r] | OutB => []
                 end in
      let '(c2, ev2) := run_list c1 l' in
      (c2, ev1 ++ ret ++ ev2)
  end.

(** a top-level history: per operation its outcome and the cache after it *)
Fixpoint run (c : cache) (ops : list op) : list (outcome * cache) * list event :=
  match ops with
  | [] => ([], [])
  | o :: ops' =>
      let '(c1, ev1, out) := run_op c o in
      let '(tr, ev2) := run c1 ops' in
      ((out, c1) :: tr, ev1 ++ ev2)
  end.

Definition final (c : cache) (ops : list op) : cache :=
  fold_left (fun c o => fst (fst (run_op c o))) ops c.

(** non-re-entrant entry points *)
Definition get_cache_buf (c : cache) (a_as a_addr : N) : cache * list event * gres :=
  get_cache_buf_re (fun c _ => (c, [])) c a_as a_addr [].

Definition read (c : cache) (a_as a_addr n : N) : cache * list event * rres :=
  let '(c', ev, r) := get_cache_buf c a_as a_addr in
  (c', ev, gres_to_rres c' r a_addr n).

(** the cache-less computation *)
Definition direct (a_as a_addr n : N) : rres :=
  match get_page a_as a_addr with
  | None => RFail
  | Some (b, sz, d) =>
      if sz <? (a_addr - b) + n then ROOB else cut d (a_addr - b) n
  end.

End WithCallback.

(** * The same code with the in-buffer offset computed in [off_bits] bits

    [off_bits = 64] is the code ([addr->addr - buf->addr.addr] is a 64-bit
    difference); [off_bits = k < 64] is the code with the difference passed
    through a k-bit unsigned type, e.g. a helper
    [static inline unsigned buf_offset(buf, addr) { return addr - buf->addr.addr; }]
    used for the hit test in [get_cache_buf] / [bury_cache_buffer] and for the
    data pointer in [do_read32] / [do_read64].  Everything else is shared with
    the definitions above ([ReadCacheProofs.run_op_w_64]: at 64 bits this IS
    [run_op]). *)
Definition buf_offset (off_bits : N) (s : slot) (a_addr : N) : N :=
  wsub a_addr (addr s) mod 2 ^ off_bits.

Definition hit_test_w (off_bits : N) (s : slot) (a_as a_addr : N) : bool :=
  (buf_offset off_bits s a_addr <? size s) && (as_ s =? a_as).

Definition find_slot_w (off_bits : N) (c : cache) (a_as a_addr : N) : option ix :=
  if hit_test_w off_bits (get_slot c I0) a_as a_addr then Some I0
  else if hit_test_w off_bits (get_slot c I1) a_as a_addr then Some I1
  else if hit_test_w off_bits (get_slot c I2) a_as a_addr then Some I2
  else if hit_test_w off_bits (get_slot c I3) a_as a_addr then Some I3
  else None.

Definition bury_w (off_bits : N) (c : cache) (a_as a_addr : N) : cache :=
  match find_slot_w off_bits c a_as a_addr with
  | Some s => {| slots := slots c; rg := bury_ring (rg c) s |}
  | None => c
  end.

Definition read_slot_w (off_bits : N) (s : slot) (a_addr n : N) : rres :=
  match ptr s with
  | None => RRecursion
  | Some d =>
      if size s <? buf_offset off_bits s a_addr + n then ROOB
      else cut d (buf_offset off_bits s a_addr) n
  end.

Section WithCallbackW.

Variable get_page : N -> N -> option (N * N * list byte).
Variable off_bits : N.

Definition get_cache_buf_re_w (run_inner : cache -> list op -> cache * list event)
           (c : cache) (a_as a_addr : N) (inner : list op)
  : cache * list event * gres :=
  match find_slot_w off_bits c a_as a_addr with
  | Some s => let '(c', r) := finish c s in (c', [], r)
  | None =>
      let '(c1, ev1, s) := miss_begin c a_as a_addr in
      let '(c2, ev2) := run_inner c1 inner in
      let '(c3, ev3, r) := miss_end c2 s (get_page a_as a_addr) in
      (c3, ev1 ++ ev2 ++ ev3, r)
  end.

Definition gres_to_rres_w (c : cache) (r : gres) (a_addr n : N) : rres :=
  match r with
  | GOk s => read_slot_w off_bits (get_slot c s) a_addr n
  | GFail => RFail
  | GRecursion => RRecursion
  end.

Fixpoint run_op_w (c : cache) (o : op) {struct o} : cache * list event * outcome :=
  let run_inner :=
    (fix run_inner (c : cache) (l : list op) {struct l} : cache * list event :=
       match l with
       | [] => (c, [])
       | o :: l' =>
           let '(c1, ev1, out) := run_op_w c o in
           let ret := match out with
                      | OutG r => [RetG r] | OutR r => [RetR r] | OutB => []
                      end in
           let '(c2, ev2) := run_inner c1 l' in
           (c2, ev1 ++ ret ++ ev2)
       end) in
  match o with
  | OGet a_as a_addr inner =>
      let '(c', ev, r) := get_cache_buf_re_w run_inner c a_as a_addr inner in
      (c', ev, OutG r)
  | ORead a_as a_addr n inner =>
      let '(c', ev, r) := get_cache_buf_re_w run_inner c a_as a_addr inner in
      (c', ev, OutR (gres_to_rres_w c' r a_addr n))
  | OBury a_as a_addr => (bury_w off_bits c a_as a_addr, [], OutB)
  end.

Fixpoint run_list_w (c : cache) (l : list op) {struct l} : cache * list event :=
  match l with
  | [] => (c, [])
  | o :: l' =>
      let '(c1, ev1, out) := run_op_w c o in
      let ret := match out with
                 | OutG r => [RetG r] | OutR r => [RetR r] | OutB => []
                 end in
      let '(c2, ev2) := run_list_w c1 l' in
      (c2, ev1 ++ ret ++ ev2)
  end.

Fixpoint run_w (c : cache) (ops : list op) : list (outcome * cache) * list event :=
  match ops with
  | [] => ([], [])
  | o :: ops' =>
      let '(c1, ev1, out) := run_op_w c o in
      let '(tr, ev2) := run_w c1 ops' in
      ((out, c1) :: tr, ev1 ++ ev2)
  end.

End WithCallbackW.

Definition flat_op (o : op) : bool :=
  match o with
  | OGet _ _ [] | ORead _ _ _ [] | OBury _ _ => true
  | _ => false
  end.

Definition op_in_range (o : op) : Prop :=
  match o with
  | OGet _ a _ | ORead _ a _ _ | OBury _ a => a < W
  end.

(** * A concrete callback (the one harness/rcache_drv.c installs)

    The layout depends on the low 16 bits of the address only, so that every
    region has look-alikes 2^16, 2^31, 2^32, ... away: bit 15 clear: 0x1000-byte
    pages, bit 15 set: 0x100-byte regions (the last one ends exactly at 2^64).
    Page number mod 8 = 5 / small-region number mod 8 = 3 fails.  The bytes
    depend on the whole address: the byte at [a] of space [as] is
      (a*13 + as*3 + 1 + (a>>16)*7 + (a>>31)*5 + (a>>32)*11 + (a>>63)*17) & 0xff
    (within a region consecutive bytes differ by 13). *)
Definition synth_byte (a_as a : N) : byte :=
  (a * 13 + a_as * 3 + 1 + (a / 2 ^ 16) * 7 + (a / 2 ^ 31) * 5 + (a / 2 ^ 32) * 11
   + (a / 2 ^ 63) * 17) mod 256.

(* consecutive bytes differ by 13 (mod 256); [v] is the first byte *)
Fixpoint synth_bytes (v : byte) (n : nat) : list byte :=
  match n with
  | O => []
  | S n' => v :: synth_bytes ((v + 13) mod 256) n'
  end.

Definition synth_get_page (a_as a : N) : option (N * N * list byte) :=
  if W <=? a then None
  else if (a / 0x8000) mod 2 =? 0 then
    let blk := a / 0x1000 in
    if blk mod 8 =? 5 then None
    else Some (blk * 0x1000, 0x1000, synth_bytes (synth_byte a_as (blk * 0x1000)) (N.to_nat 0x1000))
  else
    let blk := a / 0x100 in
    if blk mod 8 =? 3 then None
    else Some (blk * 0x100, 0x100, synth_bytes (synth_byte a_as (blk * 0x100)) (N.to_nat 0x100)).
