(** Proofs about the model of addrxlat's read cache (Hist/ReadCache.v).

    Part 1: the pointer ring abstracts to a list (MRU first); [touch] is
            move-to-front, [bury] is move-to-back.  The ring state space is
            finite (4^9 rings, 24 well formed), so these lemmas are checked
            exhaustively by [vm_compute] through a reflection lemma.
    Part 2: invariants and transparency for non-re-entrant histories.
    Part 3: page accounting (every gotten page is put exactly once).
    Part 4: LRU order.
    Part 5: the recursion guard and what re-entrant callbacks do to the cache.
    Part 6: the synthetic callback of the tie satisfies the hypotheses. *)
From Coq Require Import NArith ZArith List Bool Lia ZifyBool ZifyNat ZifyN.
From KdV Require Import Base.Wrap64 Hist.ReadCache.
Import ListNotations.
Local Open Scope N_scope.

(** * Part 1: the ring *)

Definition all_ix (P : ix -> bool) : bool :=
  if P I0 then if P I1 then if P I2 then P I3 else false else false else false.

Lemma all_ix_spec P : all_ix P = true -> forall i, P i = true.
Proof.
  unfold all_ix.
  destruct (P I0) eqn:H0, (P I1) eqn:H1, (P I2) eqn:H2; try discriminate.
  intros H3 i. destruct i; assumption.
Qed.

Definition all_quad (P : quad ix -> bool) : bool :=
  all_ix (fun a => all_ix (fun b => all_ix (fun c => all_ix (fun d => P (Q a b c d))))).

Lemma all_quad_spec P : all_quad P = true -> forall q, P q = true.
Proof.
  intros H [a b c d]. unfold all_quad in H.
  exact (all_ix_spec _ (all_ix_spec _ (all_ix_spec _ (all_ix_spec _ H a) b) c) d).
Qed.

Definition all_ring (P : ring -> bool) : bool :=
  all_quad (fun n => all_quad (fun p =>
    all_ix (fun m => P {| nxt := n; prv := p; mru := m |}))).

Lemma all_ring_spec P : all_ring P = true -> forall r, P r = true.
Proof.
  intros H [n p m]. unfold all_ring in H.
  exact (all_ix_spec _ (all_quad_spec _ (all_quad_spec _ H n) p) m).
Qed.

Lemma ix_eqb_eq a b : ix_eqb a b = true <-> a = b.
Proof. destruct a, b; cbn; split; intro H; try reflexivity; discriminate. Qed.

Lemma ix_eqb_refl a : ix_eqb a a = true.
Proof. destruct a; reflexivity. Qed.

Fixpoint list_ix_eqb (a b : list ix) : bool :=
  match a, b with
  | [], [] => true
  | x :: a', y :: b' => if ix_eqb x y then list_ix_eqb a' b' else false
  | _, _ => false
  end.

Lemma list_ix_eqb_eq a : forall b, list_ix_eqb a b = true -> a = b.
Proof.
  induction a as [|x a IH]; intros [|y b] H; cbn in H; try discriminate; [reflexivity|].
  destruct (ix_eqb x y) eqn:E; [|discriminate].
  apply ix_eqb_eq in E. subst y. f_equal. now apply IH.
Qed.

(** the list abstraction *)
Definition remove_ix (s : ix) (l : list ix) : list ix :=
  filter (fun x => negb (ix_eqb x s)) l.
Definition to_front (s : ix) (l : list ix) : list ix := s :: remove_ix s l.
Definition to_back (s : ix) (l : list ix) : list ix := remove_ix s l ++ [s].
Definition lru (l : list ix) : ix := last l I0.

Fixpoint nodupb (l : list ix) : bool :=
  match l with
  | [] => true
  | x :: l' => if existsb (ix_eqb x) l' then false else nodupb l'
  end.

(** well-formed ring: following [next] from [mru] visits four different
    slots, and [prev] undoes [next] *)
Definition wfb (r : ring) : bool :=
  if nodupb (ring_list r) then all_ix (fun i => ix_eqb (prev r (next r i)) i) else false.
Definition wf_ring (r : ring) : Prop := wfb r = true.

Definition imp (a b : bool) : bool := if a then b else true.

Lemma imp_spec a b : imp a b = true -> a = true -> b = true.
Proof. intros H Ha. subst a. exact H. Qed.

Definition chk_touch (r : ring) : bool :=
  imp (wfb r) (all_ix (fun s =>
    if wfb (touch_ring r s)
    then list_ix_eqb (ring_list (touch_ring r s)) (to_front s (ring_list r))
    else false)).

Definition chk_bury (r : ring) : bool :=
  imp (wfb r) (all_ix (fun s =>
    if wfb (bury_ring r s)
    then list_ix_eqb (ring_list (bury_ring r s)) (to_back s (ring_list r))
    else false)).

Definition chk_perm (r : ring) : bool :=
  imp (wfb r)
    (if ix_eqb (prev r (mru r)) (lru (ring_list r))
     then if all_ix (fun i => existsb (ix_eqb i) (ring_list r))
          then all_ix (fun i => ix_eqb (next r (prev r i)) i)
          else false
     else false).

Lemma chk_touch_all : all_ring chk_touch = true.
Proof. vm_compute. reflexivity. Qed.
Lemma chk_bury_all : all_ring chk_bury = true.
Proof. vm_compute. reflexivity. Qed.
Lemma chk_perm_all : all_ring chk_perm = true.
Proof. vm_compute. reflexivity. Qed.

Lemma if_true (a b : bool) : (if a then b else false) = true -> a = true /\ b = true.
Proof. destruct a; [auto|discriminate]. Qed.

Lemma touch_ring_abs r s :
  wf_ring r ->
  wf_ring (touch_ring r s) /\ ring_list (touch_ring r s) = to_front s (ring_list r).
Proof.
  intro Hwf.
  pose proof (imp_spec _ _ (all_ring_spec _ chk_touch_all r) Hwf) as H.
  apply all_ix_spec with (i := s) in H. apply if_true in H as [H1 H2].
  split; [exact H1|now apply list_ix_eqb_eq].
Qed.

Lemma bury_ring_abs r s :
  wf_ring r ->
  wf_ring (bury_ring r s) /\ ring_list (bury_ring r s) = to_back s (ring_list r).
Proof.
  intro Hwf.
  pose proof (imp_spec _ _ (all_ring_spec _ chk_bury_all r) Hwf) as H.
  apply all_ix_spec with (i := s) in H. apply if_true in H as [H1 H2].
  split; [exact H1|now apply list_ix_eqb_eq].
Qed.

Lemma nodupb_NoDup l : nodupb l = true -> NoDup l.
Proof.
  induction l as [|x l IH]; intro H; [constructor|].
  cbn in H. destruct (existsb (ix_eqb x) l) eqn:E; [discriminate|].
  constructor; [|now apply IH].
  intro Hin. assert (Ht : existsb (ix_eqb x) l = true).
  { apply existsb_exists. exists x. split; [exact Hin|apply ix_eqb_refl]. }
  congruence.
Qed.

(** a well-formed ring is a permutation of the four slots, its victim
    [mru->prev] is the last element of the list, [prev] and [next] are
    inverse to each other *)
Lemma wf_ring_perm r :
  wf_ring r ->
  NoDup (ring_list r) /\ length (ring_list r) = 4%nat /\
  (forall i, In i (ring_list r)) /\
  prev r (mru r) = lru (ring_list r) /\
  (forall i, prev r (next r i) = i) /\ (forall i, next r (prev r i) = i).
Proof.
  intro Hwf.
  pose proof (imp_spec _ _ (all_ring_spec _ chk_perm_all r) Hwf) as H.
  apply if_true in H as [H1 H]. apply if_true in H as [H2 H3].
  unfold wf_ring, wfb in Hwf. apply if_true in Hwf as [H4 H5].
  split; [now apply nodupb_NoDup|]. split; [reflexivity|].
  split.
  { intro i. apply all_ix_spec with (i := i) in H2.
    apply existsb_exists in H2 as [x [Hin Hx]]. apply ix_eqb_eq in Hx. now subst x. }
  split; [now apply ix_eqb_eq|].
  split; intro i.
  - apply ix_eqb_eq. now apply all_ix_spec with (i := i) in H5.
  - apply ix_eqb_eq. now apply all_ix_spec with (i := i) in H3.
Qed.

Lemma init_ring_wf : wf_ring init_ring /\ ring_list init_ring = [I0; I1; I2; I3].
Proof. split; reflexivity. Qed.

Lemma lru_to_back s l : lru (to_back s l) = s.
Proof. unfold lru, to_back. apply last_last. Qed.

(** * 4-element arrays *)

Lemma qget_qset {A} (q : quad A) i j v :
  qget (qset q i v) j = if ix_eqb i j then v else qget q j.
Proof. destruct i, j; reflexivity. Qed.

Lemma get_set_slot c i j s :
  get_slot (set_slot c i s) j = if ix_eqb i j then s else get_slot c j.
Proof. unfold get_slot, set_slot. cbn [slots]. apply qget_qset. Qed.

Lemma get_set_same c i s : get_slot (set_slot c i s) i = s.
Proof. rewrite get_set_slot, ix_eqb_refl. reflexivity. Qed.

(** * 64-bit subtraction *)

Lemma wsub_wrap a b : a < W -> b < W -> a < b -> wsub a b = a + W - b.
Proof.
  intros Ha Hb Hlt. unfold wsub, w.
  rewrite (N.mod_small b) by exact Hb.
  apply N.mod_small. pose proof W_pos. lia.
Qed.

(** * Multiset sums (a weight function summed over a list) *)

Fixpoint msum {A} (f : A -> nat) (l : list A) : nat :=
  match l with [] => 0%nat | x :: l' => (f x + msum f l')%nat end.

Lemma msum_app {A} (f : A -> nat) l1 l2 : msum f (l1 ++ l2) = (msum f l1 + msum f l2)%nat.
Proof. induction l1 as [|x l1 IH]; cbn; [reflexivity|]. rewrite IH. lia. Qed.

Fixpoint gots (ev : list event) : list page :=
  match ev with
  | [] => []
  | Got p :: ev' => p :: gots ev'
  | _ :: ev' => gots ev'
  end.

Fixpoint puts (ev : list event) : list page :=
  match ev with
  | [] => []
  | Put p :: ev' => p :: puts ev'
  | _ :: ev' => puts ev'
  end.

Lemma gots_app e1 e2 : gots (e1 ++ e2) = gots e1 ++ gots e2.
Proof. induction e1 as [|[p|p|r|r] e1 IH]; cbn; rewrite ?IH; reflexivity. Qed.

Lemma puts_app e1 e2 : puts (e1 ++ e2) = puts e1 ++ puts e2.
Proof. induction e1 as [|[p|p|r|r] e1 IH]; cbn; rewrite ?IH; reflexivity. Qed.

(** the pages a cache holds: the buffers of the slots with [size != 0] *)
Definition live_slot (s : slot) : list page :=
  if size s =? 0 then [] else [page_of s].

Definition live (c : cache) : list page :=
  live_slot (get_slot c I0) ++ live_slot (get_slot c I1) ++
  live_slot (get_slot c I2) ++ live_slot (get_slot c I3).

Lemma live_set_slot (f : page -> nat) c v new :
  (msum f (live (set_slot c v new)) + msum f (live_slot (get_slot c v)) =
   msum f (live c) + msum f (live_slot new))%nat.
Proof.
  unfold live. rewrite !get_set_slot, !msum_app.
  destruct v; cbn [ix_eqb]; lia.
Qed.

Definition puts_of_slot (s : slot) : list event :=
  if size s =? 0 then [] else [Put (page_of s)].

Lemma cleanup_puts_live c : puts (cleanup_events c) = live c.
Proof.
  unfold cleanup_events, live, live_slot. cbn [flat_map].
  rewrite !puts_app, app_nil_r.
  destruct (size (get_slot c I0) =? 0), (size (get_slot c I1) =? 0),
           (size (get_slot c I2) =? 0), (size (get_slot c I3) =? 0); reflexivity.
Qed.

(** * Flat (non-re-entrant) operations reduce to the plain entry points *)

Section Proofs.

Variable get_page : N -> N -> option (N * N * list byte).

(** the callback answers with a region that contains the requested address,
    whose data has the advertised length, and which does not wrap *)
Hypothesis gp_ok : forall a_as a b s d,
  get_page a_as a = Some (b, s, d) ->
  b <= a < b + s /\ N.of_nat (length d) = s /\ b + s <= W.

(** ... and it is a function of the region: asking for any other address of
    the region gives the same answer *)
Hypothesis gp_region : forall a_as a b s d a',
  get_page a_as a = Some (b, s, d) -> b <= a' < b + s ->
  get_page a_as a' = Some (b, s, d).

Notation get_cache_buf := (get_cache_buf get_page).
Notation run_op := (run_op get_page).
Notation run := (run get_page).
Notation final := (final get_page).
Notation read := (read get_page).
Notation direct := (direct get_page).

Lemma run_op_flat_get c a_as a :
  run_op c (OGet a_as a []) =
  let '(c', ev, r) := get_cache_buf c a_as a in (c', ev, OutG r).
Proof.
  cbn [ReadCache.run_op]. unfold ReadCache.get_cache_buf, get_cache_buf_re.
  destruct (find_slot c a_as a); [reflexivity|].
  destruct (miss_begin c a_as a) as [[c1 ev1] s]. reflexivity.
Qed.

Lemma run_op_flat_read c a_as a n :
  run_op c (ORead a_as a n []) =
  let '(c', ev, r) := read c a_as a n in (c', ev, OutR r).
Proof.
  cbn [ReadCache.run_op]. unfold ReadCache.read, ReadCache.get_cache_buf, get_cache_buf_re.
  destruct (find_slot c a_as a).
  - destruct (finish c i) as [c' r]. reflexivity.
  - destruct (miss_begin c a_as a) as [[c1 ev1] s]. cbn.
    destruct (miss_end c1 s (get_page a_as a)) as [[c3 ev3] r]. reflexivity.
Qed.

Lemma final_cons c o ops : final c (o :: ops) = final (fst (fst (run_op c o))) ops.
Proof. reflexivity. Qed.

Lemma run_cons c o ops :
  run c (o :: ops) =
  let '(c1, ev1, out) := run_op c o in
  let '(tr, ev2) := run c1 ops in ((out, c1) :: tr, ev1 ++ ev2).
Proof. reflexivity. Qed.

(** * Part 2: invariant and transparency *)

Definition slot_ok (s : slot) : Prop :=
  addr s < W /\
  (size s = 0 \/
   exists d, ptr s = Some d /\ get_page (as_ s) (addr s) = Some (addr s, size s, d)).

Definition inv (c : cache) : Prop :=
  wf_ring (rg c) /\ forall i, slot_ok (get_slot c i).

Lemma inv_init : inv init_cache.
Proof.
  split; [exact (proj1 init_ring_wf)|].
  intro i. split; [destruct i; cbn; exact W_pos|].
  left. destruct i; reflexivity.
Qed.

Lemma hit_sound s a_as a :
  slot_ok s -> a < W -> hit_test s a_as a = true ->
  exists d, ptr s = Some d /\ as_ s = a_as /\
            get_page a_as a = Some (addr s, size s, d).
Proof.
  intros [Haddr Hs] Ha Hhit. unfold hit_test in Hhit.
  apply andb_true_iff in Hhit as [H1 H2].
  apply N.ltb_lt in H1. apply N.eqb_eq in H2.
  destruct Hs as [Hz | [d [Hp Hg]]]; [rewrite Hz in H1; lia|].
  exists d. split; [exact Hp|]. split; [exact H2|].
  destruct (gp_ok _ _ _ _ _ Hg) as [Hb [Hl Hw]].
  subst a_as. apply gp_region with (a := addr s); [exact Hg|].
  destruct (N.lt_ge_cases a (addr s)) as [Hlt|Hge].
  - rewrite wsub_wrap in H1 by assumption. lia.
  - rewrite wsub_le in H1 by assumption. lia.
Qed.

Lemma find_slot_sound c a_as a i :
  find_slot c a_as a = Some i -> hit_test (get_slot c i) a_as a = true.
Proof.
  unfold find_slot.
  destruct (hit_test (get_slot c I0) a_as a) eqn:H0; [intro H; now inversion H; subst|].
  destruct (hit_test (get_slot c I1) a_as a) eqn:H1; [intro H; now inversion H; subst|].
  destruct (hit_test (get_slot c I2) a_as a) eqn:H2; [intro H; now inversion H; subst|].
  destruct (hit_test (get_slot c I3) a_as a) eqn:H3; [intro H; now inversion H; subst|].
  discriminate.
Qed.

Lemma find_slot_none c a_as a :
  find_slot c a_as a = None -> forall i, hit_test (get_slot c i) a_as a = false.
Proof.
  unfold find_slot.
  destruct (hit_test (get_slot c I0) a_as a) eqn:H0; [discriminate|].
  destruct (hit_test (get_slot c I1) a_as a) eqn:H1; [discriminate|].
  destruct (hit_test (get_slot c I2) a_as a) eqn:H2; [discriminate|].
  destruct (hit_test (get_slot c I3) a_as a) eqn:H3; [discriminate|].
  intros _ i. destruct i; assumption.
Qed.

(** what a successful [get_cache_buf] hands out *)
Definition gcb_post (a_as a : N) (c' : cache) (r : gres) : Prop :=
  match get_page a_as a with
  | None => r = GFail
  | Some (b, s, d) =>
      exists i, r = GOk i /\
        get_slot c' i = {| as_ := a_as; addr := b; size := s; ptr := Some d |}
  end.

Lemma slot_ok_new a_as a b s d :
  get_page a_as a = Some (b, s, d) ->
  slot_ok {| as_ := a_as; addr := b; size := s; ptr := Some d |}.
Proof.
  intro Hg. destruct (gp_ok _ _ _ _ _ Hg) as [Hb [Hl Hw]].
  split; cbn; [lia|]. right. exists d. split; [reflexivity|].
  apply gp_region with (a := a); [exact Hg|lia].
Qed.

Lemma ix_eqb_neq a b : ix_eqb a b = false <-> a <> b.
Proof.
  split.
  - intros H E. subst b. rewrite ix_eqb_refl in H. discriminate.
  - intro H. destruct (ix_eqb a b) eqn:E; [|reflexivity]. apply ix_eqb_eq in E. contradiction.
Qed.

(** the state while the callback of a miss on slot [v] runs *)
Definition in_progress (c : cache) (v : ix) : Prop :=
  wf_ring (rg c) /\ (forall j, j <> v -> slot_ok (get_slot c j)) /\
  addr (get_slot c v) < W.

Lemma miss_begin_ok c a_as a :
  inv c -> a < W ->
  let '(c1, ev1, v) := miss_begin c a_as a in
  in_progress c1 v /\ v = prev (rg c) (mru (rg c)) /\
  get_slot c1 v = {| as_ := a_as; addr := a; size := size (get_slot c v); ptr := None |} /\
  ev1 = puts_of_slot (get_slot c v) /\ rg c1 = rg c.
Proof.
  intros [Hwf Hsl] Ha. unfold miss_begin. cbn beta iota zeta.
  set (v := prev (rg c) (mru (rg c))).
  split; [|split; [reflexivity|split; [apply get_set_same|split; reflexivity]]].
  split; [exact Hwf|]. split.
  - intros j Hj. rewrite get_set_slot.
    destruct (ix_eqb v j) eqn:E; [apply ix_eqb_eq in E; congruence|apply Hsl].
  - rewrite get_set_same. exact Ha.
Qed.

Lemma miss_end_ok c2 v a_as a c' ev r :
  in_progress c2 v -> as_ (get_slot c2 v) = a_as ->
  miss_end c2 v (get_page a_as a) = (c', ev, r) ->
  inv c' /\ gcb_post a_as a c' r /\
  ev = match get_page a_as a with
       | Some (b, s, d) => [Got (a_as, b, s, Some d)]
       | None => []
       end.
Proof.
  intros [Hwf [Hsl Hav]] Has. unfold miss_end, gcb_post.
  destruct (get_page a_as a) as [[[b s] d]|] eqn:Hg.
  - unfold finish. rewrite get_set_same. cbn [ptr].
    intro H. inversion H; subst c' ev r; clear H. rewrite Has.
    split; [|split; [|reflexivity]].
    + split; [exact (proj1 (touch_ring_abs _ v Hwf))|].
      intro j.
      change (slot_ok (get_slot (set_slot c2 v
                {| as_ := a_as; addr := b; size := s; ptr := Some d |}) j)).
      rewrite get_set_slot. destruct (ix_eqb v j) eqn:E.
      * now apply slot_ok_new with (a := a).
      * apply Hsl. apply ix_eqb_neq in E. congruence.
    + exists v. split; [reflexivity|].
      change (get_slot (set_slot c2 v
                {| as_ := a_as; addr := b; size := s; ptr := Some d |}) v = 
              {| as_ := a_as; addr := b; size := s; ptr := Some d |}).
      apply get_set_same.
  - intro H. inversion H; subst c' ev r; clear H.
    split; [|split; reflexivity].
    split; [exact Hwf|].
    intro j. rewrite get_set_slot. destruct (ix_eqb v j) eqn:E.
    + split; cbn; [exact Hav|now left].
    + apply Hsl. apply ix_eqb_neq in E. congruence.
Qed.

Lemma hit_ok c a_as a i :
  wf_ring (rg c) -> slot_ok (get_slot c i) -> a < W ->
  hit_test (get_slot c i) a_as a = true ->
  exists d, finish c i = ({| slots := slots c; rg := touch_ring (rg c) i |}, GOk i) /\
    get_page a_as a = Some (addr (get_slot c i), size (get_slot c i), d) /\
    get_slot c i = {| as_ := a_as; addr := addr (get_slot c i);
                      size := size (get_slot c i); ptr := Some d |}.
Proof.
  intros Hwf Hs Ha Hh.
  destruct (hit_sound _ _ _ Hs Ha Hh) as [d [Hp [Has Hg]]].
  exists d. unfold finish. rewrite Hp. split; [reflexivity|]. split; [exact Hg|].
  destruct (get_slot c i) as [sa sb ss sp]. cbn in *. now subst.
Qed.

Lemma gcb_ok c a_as a c' ev r :
  inv c -> a < W -> get_cache_buf c a_as a = (c', ev, r) ->
  inv c' /\ gcb_post a_as a c' r.
Proof.
  intros Hinv Ha. unfold ReadCache.get_cache_buf, get_cache_buf_re.
  destruct (find_slot c a_as a) as [i|] eqn:Hf.
  - (* hit *)
    destruct Hinv as [Hwf Hsl].
    apply find_slot_sound in Hf.
    destruct (hit_ok c a_as a i Hwf (Hsl i) Ha Hf) as [d [Hfin [Hg Hsi]]].
    rewrite Hfin. intro H. inversion H; subst c' ev r; clear H.
    split.
    + split; [exact (proj1 (touch_ring_abs _ i Hwf))|exact Hsl].
    + unfold gcb_post. rewrite Hg. exists i. split; [reflexivity|]. exact Hsi.
  - (* miss *)
    pose proof (miss_begin_ok c a_as a Hinv Ha) as Hb.
    destruct (miss_begin c a_as a) as [[c1 ev1] v].
    destruct Hb as [Hprog [_ [Hv _]]].
    destruct (miss_end c1 v (get_page a_as a)) as [[c3 ev3] r3] eqn:He.
    intro H. inversion H; subst c' ev r; clear H.
    apply miss_end_ok in He; [|exact Hprog|rewrite Hv; reflexivity].
    split; [exact (proj1 He)|exact (proj1 (proj2 He))].
Qed.

Lemma read_ok c a_as a n c' ev r :
  inv c -> a < W -> read c a_as a n = (c', ev, r) ->
  inv c' /\ r = direct a_as a n.
Proof.
  intros Hinv Ha. unfold ReadCache.read.
  destruct (get_cache_buf c a_as a) as [[c1 ev1] r1] eqn:Hg.
  intro H. inversion H; subst c' ev r; clear H.
  destruct (gcb_ok _ _ _ _ _ _ Hinv Ha Hg) as [Hinv1 Hpost].
  split; [exact Hinv1|].
  unfold gcb_post in Hpost. unfold ReadCache.direct.
  destruct (get_page a_as a) as [[[b s] d]|] eqn:Hgp.
  - destruct Hpost as [i [Hr Hs]]. subst r1. cbn [gres_to_rres].
    rewrite Hs. unfold read_slot. cbn [ptr size addr].
    destruct (gp_ok _ _ _ _ _ Hgp) as [Hb _].
    rewrite wsub_le by lia. reflexivity.
  - subst r1. reflexivity.
Qed.

Lemma bury_ok c a_as a : inv c -> inv (bury c a_as a).
Proof.
  intros [Hwf Hsl]. unfold bury. destruct (find_slot c a_as a) as [i|]; [|now split].
  split; [exact (proj1 (bury_ring_abs _ i Hwf))|exact Hsl].
Qed.

(** what each operation of a history must answer: the cache-less answer *)
Definition out_ok (o : op) (out : outcome) (c' : cache) : Prop :=
  match o with
  | OGet a_as a _ => exists r, out = OutG r /\ gcb_post a_as a c' r
  | ORead a_as a n _ => out = OutR (direct a_as a n)
  | OBury _ _ => out = OutB
  end.

Lemma run_op_flat_ok c o c' ev out :
  inv c -> flat_op o = true -> op_in_range o -> run_op c o = (c', ev, out) ->
  inv c' /\ out_ok o out c'.
Proof.
  intros Hinv Hflat Hr.
  destruct o as [a_as a [|? ?]|a_as a n [|? ?]|a_as a]; try discriminate; cbn in Hr.
  - rewrite run_op_flat_get.
    destruct (get_cache_buf c a_as a) as [[c1 ev1] r1] eqn:Hg.
    intro H. inversion H; subst c' ev out; clear H.
    destruct (gcb_ok _ _ _ _ _ _ Hinv Hr Hg) as [H1 H2].
    split; [exact H1|]. exists r1. split; [reflexivity|exact H2].
  - rewrite run_op_flat_read.
    destruct (read c a_as a n) as [[c1 ev1] r1] eqn:Hg.
    intro H. inversion H; subst c' ev out; clear H.
    destruct (read_ok _ _ _ _ _ _ _ Hinv Hr Hg) as [H1 H2].
    split; [exact H1|]. cbn. now subst r1.
  - cbn [ReadCache.run_op]. intro H. inversion H; subst c' ev out; clear H.
    split; [now apply bury_ok|reflexivity].
Qed.

Lemma run_flat_ok ops : forall c,
  inv c -> forallb flat_op ops = true -> Forall op_in_range ops ->
  inv (final c ops) /\
  Forall2 (fun o oc => out_ok o (fst oc) (snd oc)) ops (fst (run c ops)).
Proof.
  induction ops as [|o ops IH]; intros c Hinv Hflat Hr.
  - split; [exact Hinv|constructor].
  - cbn [forallb] in Hflat. apply andb_true_iff in Hflat as [Hf1 Hf2].
    inversion Hr as [|? ? Hr1 Hr2]; subst.
    rewrite final_cons, run_cons.
    destruct (run_op c o) as [[c1 ev1] out] eqn:Ho. cbn [fst].
    destruct (run_op_flat_ok _ _ _ _ _ Hinv Hf1 Hr1 Ho) as [Hinv1 Hout].
    destruct (IH c1 Hinv1 Hf2 Hr2) as [IH1 IH2].
    destruct (run c1 ops) as [tr ev2]. cbn [fst] in *.
    split; [exact IH1|]. constructor; [exact Hout|exact IH2].
Qed.

(** ** Theorem 1.  For every history of non-re-entrant operations from the
    initial cache: the invariant holds at the end (ring = permutation of the
    four slots, every slot with [size != 0] holds exactly [get_page] of its
    own address), every operation of the history answered what the
    cache-less computation answers, and so does any observed read after it. *)
Theorem readcache_transparent : forall ops,
  forallb flat_op ops = true -> Forall op_in_range ops ->
  let c := final init_cache ops in
  inv c /\
  Forall2 (fun o oc => out_ok o (fst oc) (snd oc)) ops (fst (run init_cache ops)) /\
  forall a_as a n, a < W -> snd (read c a_as a n) = direct a_as a n.
Proof.
  intros ops Hflat Hr c.
  destruct (run_flat_ok ops init_cache inv_init Hflat Hr) as [H1 H2].
  split; [exact H1|]. split; [exact H2|].
  intros a_as a n Ha.
  destruct (read c a_as a n) as [[c1 ev1] r1] eqn:Hg.
  exact (proj2 (read_ok _ _ _ _ _ _ _ H1 Ha Hg)).
Qed.

(** the invariant, unfolded: what it says about the ring and the slots *)
Lemma inv_meaning c : inv c ->
  (NoDup (ring_list (rg c)) /\ forall i, In i (ring_list (rg c))) /\
  forall i, size (get_slot c i) <> 0 ->
    exists d, ptr (get_slot c i) = Some d /\
      get_page (as_ (get_slot c i)) (addr (get_slot c i)) =
        Some (addr (get_slot c i), size (get_slot c i), d).
Proof.
  intros [Hwf Hsl]. destruct (wf_ring_perm _ Hwf) as [H1 [_ [H2 _]]].
  split; [split; assumption|].
  intros i Hnz. destruct (Hsl i) as [_ [Hz|H]]; [contradiction|exact H].
Qed.

(** * Part 3: page accounting *)

Lemma puts_puts_of_slot s : puts (puts_of_slot s) = live_slot s.
Proof. unfold puts_of_slot, live_slot. destruct (size s =? 0); reflexivity. Qed.

Lemma gots_puts_of_slot s : gots (puts_of_slot s) = [].
Proof. unfold puts_of_slot. destruct (size s =? 0); reflexivity. Qed.

(** the events of one [get_cache_buf]: nothing on a hit; on a miss the old
    page of the victim slot is put (if it has one) and the new one gotten *)
Lemma gcb_events c a_as a c' ev r :
  get_cache_buf c a_as a = (c', ev, r) ->
  ev = match find_slot c a_as a with
       | Some _ => []
       | None =>
           puts_of_slot (get_slot c (prev (rg c) (mru (rg c)))) ++
           match get_page a_as a with
           | Some (b, s, d) => [Got (a_as, b, s, Some d)]
           | None => []
           end
       end.
Proof.
  unfold ReadCache.get_cache_buf, get_cache_buf_re.
  destruct (find_slot c a_as a) as [i|].
  - unfold finish. destruct (ptr (get_slot c i)); intro H; now inversion H.
  - unfold miss_begin. cbn beta iota zeta.
    unfold miss_end. rewrite get_set_same. cbn [as_ addr ptr size].
    destruct (get_page a_as a) as [[[b s] d]|].
    + unfold finish. rewrite get_set_same. cbn [ptr].
      intro H. inversion H. reflexivity.
    + intro H. inversion H. reflexivity.
Qed.

Lemma gcb_balance c a_as a c' ev r :
  get_cache_buf c a_as a = (c', ev, r) ->
  forall f : page -> nat,
  (msum f (live c) + msum f (gots ev) = msum f (puts ev) + msum f (live c'))%nat.
Proof.
  intros Hg f. revert Hg. unfold ReadCache.get_cache_buf, get_cache_buf_re.
  destruct (find_slot c a_as a) as [i|].
  - unfold finish.
    destruct (ptr (get_slot c i)); intro H; inversion H; subst;
      unfold live, get_slot; cbn [slots gots puts msum]; lia.
  - unfold miss_begin. cbn beta iota zeta.
    fold (puts_of_slot (get_slot c (prev (rg c) (mru (rg c))))).
    set (v := prev (rg c) (mru (rg c))) in *.
    set (s1 := {| as_ := a_as; addr := a; size := size (get_slot c v); ptr := None |}).
    unfold miss_end. rewrite get_set_same. cbn [as_ addr ptr size s1].
    pose proof (live_set_slot f c v s1) as L1.
    assert (Hs1 : live_slot s1 = [] \/ size (get_slot c v) <> 0).
    { unfold live_slot. cbn [size s1]. destruct (size (get_slot c v) =? 0) eqn:E; [now left|right; lia]. }
    destruct (get_page a_as a) as [[[b s] d]|] eqn:Hgp.
    + unfold finish. rewrite get_set_same. cbn [ptr].
      set (new := {| as_ := a_as; addr := b; size := s; ptr := Some d |}).
      intro H. injection H as Hc Hev Hr. subst c' ev r.
      pose proof (live_set_slot f (set_slot c v s1) v new) as L2.
      rewrite get_set_same in L2.
      match goal with |- context [live ?x] =>
        change (live x) with (live (set_slot (set_slot c v s1) v new)) end.
      rewrite !gots_app, !puts_app, !msum_app, puts_puts_of_slot, gots_puts_of_slot.
      destruct (gp_ok _ _ _ _ _ Hgp) as [Hb _].
      assert (Hnew : live_slot new = [page_of new]).
      { unfold live_slot. cbn [size new]. destruct (s =? 0) eqn:E; [lia|reflexivity]. }
      rewrite Hnew in L2. cbn [gots puts msum app] in *.
      revert L1 L2. unfold live_slot at 2 4. cbn [size s1].
      unfold live_slot. change (size s1) with (size (get_slot c v)).
      destruct (size (get_slot c v) =? 0); cbn [msum]; lia.
    + set (new := {| as_ := a_as; addr := a; size := 0; ptr := None |}).
      intro H. injection H as Hc Hev Hr. subst c' ev r.
      pose proof (live_set_slot f (set_slot c v s1) v new) as L2.
      rewrite get_set_same in L2.
      rewrite !gots_app, !puts_app, !msum_app, puts_puts_of_slot, gots_puts_of_slot.
      cbn [gots puts msum app] in *.
      revert L1 L2. unfold live_slot at 2 4 5. cbn [size s1 new N.eqb].
      unfold live_slot. change (size s1) with (size (get_slot c v)).
      destruct (size (get_slot c v) =? 0); cbn [msum]; lia.
Qed.

Lemma run_op_flat_balance c o c' ev out :
  flat_op o = true -> run_op c o = (c', ev, out) ->
  forall f : page -> nat,
  (msum f (live c) + msum f (gots ev) = msum f (puts ev) + msum f (live c'))%nat.
Proof.
  intros Hflat.
  destruct o as [a_as a [|? ?]|a_as a n [|? ?]|a_as a]; try discriminate.
  - rewrite run_op_flat_get.
    destruct (get_cache_buf c a_as a) as [[c1 ev1] r1] eqn:Hg.
    intro H. inversion H; subst c' ev out; clear H.
    now apply gcb_balance with (a_as := a_as) (a := a) (r := r1).
  - rewrite run_op_flat_read. unfold ReadCache.read.
    destruct (get_cache_buf c a_as a) as [[c1 ev1] r1] eqn:Hg.
    intro H. inversion H; subst c' ev out; clear H.
    now apply gcb_balance with (a_as := a_as) (a := a) (r := r1).
  - cbn [ReadCache.run_op]. intro H. inversion H; subst c' ev out; clear H.
    intro f. unfold bury. destruct (find_slot c a_as a); cbn [gots puts msum];
      unfold live, get_slot; cbn [slots]; lia.
Qed.

Lemma run_flat_balance ops : forall c,
  forallb flat_op ops = true ->
  forall f : page -> nat,
  (msum f (live c) + msum f (gots (snd (run c ops))) =
   msum f (puts (snd (run c ops))) + msum f (live (final c ops)))%nat.
Proof.
  induction ops as [|o ops IH]; intros c Hflat f.
  - cbn. lia.
  - cbn [forallb] in Hflat. apply andb_true_iff in Hflat as [Hf1 Hf2].
    rewrite final_cons, run_cons.
    destruct (run_op c o) as [[c1 ev1] out] eqn:Ho. cbn [fst].
    pose proof (run_op_flat_balance _ _ _ _ _ Hf1 Ho f) as H1.
    pose proof (IH c1 Hf2 f) as H2.
    destruct (run c1 ops) as [tr ev2]. cbn [snd] in *.
    rewrite gots_app, puts_app, !msum_app. lia.
Qed.

(** ** Theorem 2.  Along every non-re-entrant history from the initial cache
    the multiset of gotten pages equals the multiset of put pages plus the
    pages the slots hold (for every weight function [f] on pages, so in
    particular for the indicator function of any single page: a page is put
    at most as often as it was gotten, and it is held iff gotten once more
    than put); [cleanup_cache] puts exactly the held pages, after which
    gets and puts balance; puts happen only for the victim of a miss
    ([gcb_events]: a hit has no events, a miss puts at most the victim's old
    page and gets at most the new one; [bury] has no events at all). *)
Theorem readcache_pages_balanced : forall ops,
  forallb flat_op ops = true ->
  let c := final init_cache ops in
  let ev := snd (run init_cache ops) in
  (forall f : page -> nat,
     msum f (gots ev) = (msum f (puts ev) + msum f (live c))%nat) /\
  (forall f : page -> nat,
     msum f (gots (ev ++ cleanup_events c)) = msum f (puts (ev ++ cleanup_events c))) /\
  (forall c a_as a c' ev r, get_cache_buf c a_as a = (c', ev, r) ->
     ev = match find_slot c a_as a with
          | Some _ => []
          | None =>
              puts_of_slot (get_slot c (prev (rg c) (mru (rg c)))) ++
              match get_page a_as a with
              | Some (b, s, d) => [Got (a_as, b, s, Some d)]
              | None => []
              end
          end).
Proof.
  intros ops Hflat c ev.
  assert (H : forall f : page -> nat,
            msum f (gots ev) = (msum f (puts ev) + msum f (live c))%nat).
  { intro f. pose proof (run_flat_balance ops init_cache Hflat f) as H.
    change (live init_cache) with (@nil page) in H. cbn [msum] in H. exact H. }
  split; [exact H|]. split; [|exact gcb_events].
  intro f. rewrite gots_app, puts_app, !msum_app, cleanup_puts_live.
  assert (Hg : gots (cleanup_events c) = []).
  { unfold cleanup_events. cbn [flat_map]. rewrite !gots_app.
    destruct (size (get_slot c I0) =? 0), (size (get_slot c I1) =? 0),
             (size (get_slot c I2) =? 0), (size (get_slot c I3) =? 0); reflexivity. }
  rewrite Hg, H. cbn [msum]. lia.
Qed.

(** * Part 4: LRU order *)

(** ** Theorem 3, over the list abstraction [ring_list] (MRU first): the
    victim of a miss is the last element; a successful call moves its slot to
    the front (a failed one leaves the order alone, so its victim remains the
    next victim); [bury] moves the found slot to the back, which makes it the
    next victim. *)
Theorem readcache_lru_order : forall c a_as a,
  inv c -> a < W ->
  let l := ring_list (rg c) in
  (forall c' ev r, get_cache_buf c a_as a = (c', ev, r) ->
     match r with
     | GOk s => ring_list (rg c') = to_front s l /\
                (find_slot c a_as a = None -> s = lru l)
     | _ => ring_list (rg c') = l
     end) /\
  (ring_list (rg (bury c a_as a)) =
     match find_slot c a_as a with Some s => to_back s l | None => l end) /\
  (forall s, find_slot c a_as a = Some s -> lru (ring_list (rg (bury c a_as a))) = s) /\
  slots (bury c a_as a) = slots c.
Proof.
  intros c a_as a Hinv Ha l. destruct Hinv as [Hwf Hsl]. split; [|split; [|split]].
  - intros c' ev r. unfold ReadCache.get_cache_buf, get_cache_buf_re.
    destruct (find_slot c a_as a) as [i|] eqn:Hf.
    + apply find_slot_sound in Hf.
      destruct (hit_ok c a_as a i Hwf (Hsl i) Ha Hf) as [d [Hfin _]].
      rewrite Hfin. intro H. inversion H; subst c' ev r; clear H. cbn [rg].
      split; [exact (proj2 (touch_ring_abs _ i Hwf))|discriminate].
    + unfold miss_begin. cbn beta iota zeta.
      set (v := prev (rg c) (mru (rg c))).
      unfold miss_end. rewrite get_set_same.
      destruct (get_page a_as a) as [[[b s] d]|].
      * unfold finish. rewrite get_set_same. cbn [ptr].
        intro H. inversion H; subst c' ev r; clear H. cbn [rg set_slot].
        split; [exact (proj2 (touch_ring_abs _ v Hwf))|].
        intros _. destruct (wf_ring_perm _ Hwf) as [_ [_ [_ [Hv _]]]]. exact Hv.
      * intro H. inversion H; subst c' ev r; clear H. reflexivity.
  - unfold bury. destruct (find_slot c a_as a) as [i|]; [|reflexivity].
    cbn [rg]. exact (proj2 (bury_ring_abs _ i Hwf)).
  - intros s Hs. unfold bury. rewrite Hs. cbn [rg].
    rewrite (proj2 (bury_ring_abs _ s Hwf)). apply lru_to_back.
  - unfold bury. destruct (find_slot c a_as a); reflexivity.
Qed.

(** * Part 5: the recursion guard *)

Lemma find_slot_first c a_as a v :
  hit_test (get_slot c v) a_as a = true ->
  (forall j, ix_to_N j < ix_to_N v -> hit_test (get_slot c j) a_as a = false) ->
  find_slot c a_as a = Some v.
Proof.
  intros Hv Hlow. unfold find_slot.
  destruct v; cbn in Hlow;
    rewrite ?(Hlow I0) by reflexivity; rewrite ?(Hlow I1) by reflexivity;
    rewrite ?(Hlow I2) by reflexivity; rewrite Hv; reflexivity.
Qed.

(** the stale range of an in-progress slot, arithmetically *)
Lemma stale_range_hits s a_as a :
  as_ s = a_as -> addr s + size s <= W -> addr s <= a < addr s + size s ->
  hit_test s a_as a = true.
Proof.
  intros Has Hw Hr. unfold hit_test. apply andb_true_iff. split.
  - apply N.ltb_lt. rewrite wsub_le by lia. lia.
  - apply N.eqb_eq. exact Has.
Qed.

(** ** Theorem 4.  A call (from inside a callback) whose address is claimed
    by a slot whose own callback is still running -- [ptr = NULL], which with
    [size != 0] is the stale range [newaddr, newaddr + oldsize) -- and by no
    slot of lower index returns "Infinite read recursion" and changes
    nothing, whatever the callback of that call would have done. *)
Theorem readcache_recursion_guard : forall run_inner c a_as a inner v,
  ptr (get_slot c v) = None ->
  hit_test (get_slot c v) a_as a = true ->
  (forall j, ix_to_N j < ix_to_N v -> hit_test (get_slot c j) a_as a = false) ->
  get_cache_buf_re get_page run_inner c a_as a inner = (c, [], GRecursion).
Proof.
  intros run_inner c a_as a inner v Hp Hv Hlow.
  unfold get_cache_buf_re. rewrite (find_slot_first _ _ _ _ Hv Hlow).
  unfold finish. rewrite Hp. reflexivity.
Qed.

End Proofs.

(** * Part 6: the synthetic callback satisfies the hypotheses *)

Ltac Zify.zify_post_hook ::= Z.div_mod_to_equations.

Lemma synth_bytes_length v n : length (synth_bytes v n) = n.
Proof. revert v. induction n as [|n IH]; intro v; cbn [synth_bytes length]; [reflexivity|]. now rewrite IH. Qed.

Lemma some_triple_inj {A B C} (a a' : A) (b b' : B) (c c' : C) :
  Some (a, b, c) = Some (a', b', c') -> a = a' /\ b = b' /\ c = c'.
Proof. intro H. injection H. auto. Qed.

Lemma synth_cases a_as a b s d :
  synth_get_page a_as a = Some (b, s, d) ->
  a < W /\
  (((a / 0x8000) mod 2 = 0 /\ (a / 0x1000) mod 8 <> 5 /\
     b = a / 0x1000 * 0x1000 /\ s = 0x1000 /\ d = synth_bytes (synth_byte a_as b) (N.to_nat 0x1000)) \/
   ((a / 0x8000) mod 2 <> 0 /\ (a / 0x100) mod 8 <> 3 /\
     b = a / 0x100 * 0x100 /\ s = 0x100 /\ d = synth_bytes (synth_byte a_as b) (N.to_nat 0x100))).
Proof.
  unfold synth_get_page.
  destruct (W <=? a) eqn:EW; [discriminate|]. apply N.leb_gt in EW.
  destruct ((a / 0x8000) mod 2 =? 0) eqn:EC.
  - destruct ((a / 0x1000) mod 8 =? 5) eqn:EB; [discriminate|].
    intro H. apply some_triple_inj in H as [Hb [Hs Hd]]. subst b s d. split; [exact EW|]. left.
    apply N.eqb_neq in EB. apply N.eqb_eq in EC.
    split; [exact EC|split; [exact EB|split; [reflexivity|split; reflexivity]]].
  - destruct ((a / 0x100) mod 8 =? 3) eqn:EB; [discriminate|].
    intro H. apply some_triple_inj in H as [Hb [Hs Hd]]. subst b s d. split; [exact EW|]. right.
    apply N.eqb_neq in EB. apply N.eqb_neq in EC.
    split; [exact EC|split; [exact EB|split; [reflexivity|split; reflexivity]]].
Qed.

Lemma synth_gp_ok a_as a b s d :
  synth_get_page a_as a = Some (b, s, d) ->
  b <= a < b + s /\ N.of_nat (length d) = s /\ b + s <= W.
Proof.
  intro H. apply synth_cases in H as [Ha [[Hc [Hb [Eb [Es Ed]]]]|[Hc [Hb [Eb [Es Ed]]]]]];
    subst s d; rewrite synth_bytes_length, N2Nat.id; rewrite W_val in *;
    (split; [lia|split; [reflexivity|lia]]).
Qed.

Lemma synth_gp_region a_as a b s d a' :
  synth_get_page a_as a = Some (b, s, d) -> b <= a' < b + s ->
  synth_get_page a_as a' = Some (b, s, d).
Proof.
  intros H Hr. pose proof (synth_gp_ok _ _ _ _ _ H) as [_ [_ Hw]].
  apply synth_cases in H as [Ha [[Hc [Hb [Eb [Es Ed]]]]|[Hc [Hb [Eb [Es Ed]]]]]].
  - assert (Hd : a' / 0x1000 = a / 0x1000) by (subst b s; lia).
    assert (Hc' : (a' / 0x8000) mod 2 = 0) by (subst b s; lia).
    unfold synth_get_page.
    assert (EW : (W <=? a') = false) by (apply N.leb_gt; lia). rewrite EW.
    apply N.eqb_eq in Hc'. rewrite Hc', Hd. apply N.eqb_neq in Hb. rewrite Hb.
    subst b s d. reflexivity.
  - assert (Hd : a' / 0x100 = a / 0x100) by (subst b s; lia).
    assert (Hc' : (a' / 0x8000) mod 2 <> 0) by (subst b s; lia).
    unfold synth_get_page.
    assert (EW : (W <=? a') = false) by (apply N.leb_gt; lia). rewrite EW.
    apply N.eqb_neq in Hc'. rewrite Hc', Hd. apply N.eqb_neq in Hb. rewrite Hb.
    subst b s d. reflexivity.
Qed.

(** * Part 5 continued: re-entrant callbacks *)

Section Reentrant.

Variable get_page : N -> N -> option (N * N * list byte).
Hypothesis gp_ok : forall a_as a b s d,
  get_page a_as a = Some (b, s, d) ->
  b <= a < b + s /\ N.of_nat (length d) = s /\ b + s <= W.
Hypothesis gp_region : forall a_as a b s d a',
  get_page a_as a = Some (b, s, d) -> b <= a' < b + s ->
  get_page a_as a' = Some (b, s, d).

Notation run_op := (run_op get_page).
Notation run_list := (run_list get_page).
Notation inv := (inv get_page).
Notation slot_ok := (slot_ok get_page).
Notation in_progress := (in_progress get_page).
Notation gcb_post := (gcb_post get_page).
Notation direct := (direct get_page).

Lemma run_op_get c a_as a inner :
  run_op c (OGet a_as a inner) =
  let '(c', ev, r) := get_cache_buf_re get_page run_list c a_as a inner in
  (c', ev, OutG r).
Proof. reflexivity. Qed.

Lemma run_op_read c a_as a n inner :
  run_op c (ORead a_as a n inner) =
  let '(c', ev, r) := get_cache_buf_re get_page run_list c a_as a inner in
  (c', ev, OutR (gres_to_rres c' r a n)).
Proof. reflexivity. Qed.

Lemma gres_direct a_as a n c' r :
  gcb_post a_as a c' r -> gres_to_rres c' r a n = direct a_as a n.
Proof.
  unfold ReadCacheProofs.gcb_post, ReadCache.direct.
  destruct (get_page a_as a) as [[[b s] d]|] eqn:Hgp.
  - intros [i [Hr Hs]]. subst r. cbn [gres_to_rres].
    rewrite Hs. unfold read_slot. cbn [ptr size addr].
    destruct (gp_ok _ _ _ _ _ Hgp) as [Hb [_ Hw]].
    rewrite wsub_le by lia. reflexivity.
  - intro Hr. subst r. reflexivity.
Qed.

(** the state of the cache while the callback for a miss on slot [v]
    (requested in address space [as0]) is running *)
Definition prog (c : cache) (v : ix) (as0 : N) : Prop :=
  in_progress c v /\ ptr (get_slot c v) = None /\ as_ (get_slot c v) = as0.

Lemma prog_slots c c' v as0 :
  slots c' = slots c -> wf_ring (rg c') -> prog c v as0 -> prog c' v as0.
Proof.
  intros Hs Hwf [[_ [Hsl Hav]] [Hp Has]]. unfold prog, ReadCacheProofs.in_progress, get_slot in *.
  rewrite Hs. split; [split; [exact Hwf|split; [exact Hsl|exact Hav]]|split; [exact Hp|exact Has]].
Qed.

(** a call made by the callback that finds a slot: either that slot is the
    one in progress (guard) or it is a proper hit *)
Lemma gcb_nested_hit c v as0 a_as a i :
  prog c v as0 -> a < W -> find_slot c a_as a = Some i ->
  exists c' r,
    (let '(c1, r1) := finish c i in (c1, @nil event, r1)) = (c', [], r) /\
    slots c' = slots c /\ wf_ring (rg c') /\
    (r = GRecursion \/ gcb_post a_as a c' r).
Proof.
  intros [[Hwf [Hsl Hav]] [Hp Has]] Ha Hf.
  apply find_slot_sound in Hf.
  destruct (ptr (get_slot c i)) as [d0|] eqn:Hpi.
  - assert (Hiv : i <> v) by (intro E; subst i; congruence).
    destruct (hit_ok get_page gp_ok gp_region c a_as a i Hwf (Hsl i Hiv) Ha Hf)
      as [d [Hfin [Hg Hsi]]].
    rewrite Hfin. eexists _, _. split; [reflexivity|]. cbn [slots rg].
    split; [reflexivity|]. split; [exact (proj1 (touch_ring_abs _ i Hwf))|].
    right. unfold ReadCacheProofs.gcb_post. rewrite Hg. exists i. split; [reflexivity|exact Hsi].
  - unfold finish. rewrite Hpi. eexists _, _. split; [reflexivity|].
    split; [reflexivity|]. split; [exact Hwf|]. now left.
Qed.

Definition op_hits (c : cache) (o : op) : bool :=
  match o with
  | OGet a_as a _ | ORead a_as a _ _ =>
      match find_slot c a_as a with Some _ => true | None => false end
  | OBury _ _ => true
  end.

(** every operation of the list is non-re-entrant and finds a slot *)
Fixpoint all_hit (c : cache) (l : list op) : bool :=
  match l with
  | [] => true
  | o :: l' => flat_op o && op_hits c o && all_hit (fst (fst (run_op c o))) l'
  end.

Definition nested_ok (o : op) (out : outcome) (c' : cache) : Prop :=
  match o with
  | OGet a_as a _ =>
      out = OutG GRecursion \/ exists r, out = OutG r /\ gcb_post a_as a c' r
  | ORead a_as a n _ => out = OutR RRecursion \/ out = OutR (direct a_as a n)
  | OBury _ _ => out = OutB
  end.

Lemma nested_step c v as0 o c' ev out :
  prog c v as0 -> flat_op o = true -> op_in_range o -> op_hits c o = true ->
  run_op c o = (c', ev, out) ->
  prog c' v as0 /\ slots c' = slots c /\ ev = [] /\ nested_ok o out c'.
Proof.
  intros Hprog Hflat Hr Hh.
  destruct o as [a_as a [|? ?]|a_as a n [|? ?]|a_as a]; try discriminate; cbn in Hr, Hh.
  - rewrite run_op_get. unfold get_cache_buf_re.
    destruct (find_slot c a_as a) as [i|] eqn:Hf; [|discriminate].
    destruct (gcb_nested_hit c v as0 a_as a i Hprog Hr Hf) as [c1 [r1 [E [Hs [Hwf Hres]]]]].
    rewrite E. intro H. inversion H; subst c' ev out; clear H.
    split; [now apply prog_slots with (c := c)|]. split; [exact Hs|]. split; [reflexivity|].
    destruct Hres as [Hres|Hres]; [left; now subst r1|right; now exists r1].
  - rewrite run_op_read. unfold get_cache_buf_re.
    destruct (find_slot c a_as a) as [i|] eqn:Hf; [|discriminate].
    destruct (gcb_nested_hit c v as0 a_as a i Hprog Hr Hf) as [c1 [r1 [E [Hs [Hwf Hres]]]]].
    rewrite E. intro H. inversion H; subst c' ev out; clear H.
    split; [now apply prog_slots with (c := c)|]. split; [exact Hs|]. split; [reflexivity|].
    destruct Hres as [Hres|Hres]; [left; now subst r1|right].
    cbn. f_equal. now apply gres_direct.
  - cbn [ReadCache.run_op]. intro H. inversion H; subst c' ev out; clear H.
    assert (Hs : slots (bury c a_as a) = slots c)
      by (unfold bury; destruct (find_slot c a_as a); reflexivity).
    split; [|split; [exact Hs|split; reflexivity]].
    apply prog_slots with (c := c); [exact Hs| |exact Hprog].
    destruct Hprog as [[Hwf _] _]. unfold bury.
    destruct (find_slot c a_as a) as [i|]; [|exact Hwf].
    exact (proj1 (bury_ring_abs _ i Hwf)).
Qed.

Lemma nested_list l : forall c v as0 c' ev,
  prog c v as0 -> all_hit c l = true -> Forall op_in_range l ->
  run_list c l = (c', ev) ->
  prog c' v as0 /\ slots c' = slots c /\ gots ev = [] /\ puts ev = [].
Proof.
  induction l as [|o l IH]; intros c v as0 c' ev Hprog Hh Hr.
  - cbn. intro H. inversion H; subst. split; [exact Hprog|split; [reflexivity|split; reflexivity]].
  - cbn [all_hit] in Hh. apply andb_true_iff in Hh as [Hh Hh3].
    apply andb_true_iff in Hh as [Hh1 Hh2].
    inversion Hr as [|? ? Hr1 Hr2]; subst.
    cbn [ReadCache.run_list].
    destruct (run_op c o) as [[c1 ev1] out] eqn:Ho. cbn [fst] in Hh3.
    destruct (nested_step _ _ _ _ _ _ _ Hprog Hh1 Hr1 Hh2 Ho) as [Hp1 [Hs1 [He1 _]]].
    destruct (run_list c1 l) as [c2 ev2] eqn:Hl.
    destruct (IH _ _ _ _ _ Hp1 Hh3 Hr2 Hl) as [Hp2 [Hs2 [Hg2 Hu2]]].
    intro H. inversion H; subst c' ev; clear H.
    split; [exact Hp2|]. split; [congruence|].
    rewrite !gots_app, !puts_app, Hg2, Hu2. subst ev1.
    destruct out as [r|r|]; split; reflexivity.
Qed.

(** ** Theorem 4b (partial).  A read whose callback re-enters the cache is
    still answered like the cache-less computation, and the invariant is
    restored, PROVIDED every call the callback makes is itself non-re-entrant
    and finds a slot (a proper hit, or the slot in progress, where the guard
    answers "recursion" and changes nothing).
    Missing for the full statement, and refuted below: callbacks whose calls
    miss ([readcache_reentrant_refuted], [readcache_reentrant_leak]); not
    covered: nesting deeper than one level, page accounting. *)
Theorem readcache_transparent_reentrant_partial :
  forall c a_as a n inner c' ev out,
  inv c -> a < W -> Forall op_in_range inner ->
  all_hit (fst (fst (miss_begin c a_as a))) inner = true ->
  run_op c (ORead a_as a n inner) = (c', ev, out) ->
  inv c' /\ out = OutR (direct a_as a n).
Proof.
  intros c a_as a n inner c' ev out Hinv Ha Hr Hh.
  rewrite run_op_read. unfold get_cache_buf_re.
  destruct (find_slot c a_as a) as [i|] eqn:Hf.
  - destruct Hinv as [Hwf Hsl]. apply find_slot_sound in Hf.
    destruct (hit_ok get_page gp_ok gp_region c a_as a i Hwf (Hsl i) Ha Hf)
      as [d [Hfin [Hg Hsi]]].
    rewrite Hfin. intro H. inversion H; subst c' ev out; clear H.
    split.
    + split; [exact (proj1 (touch_ring_abs _ i Hwf))|exact Hsl].
    + f_equal. refine (gres_direct a_as a n _ (GOk i) _).
      unfold ReadCacheProofs.gcb_post. rewrite Hg.
      exists i. split; [reflexivity|exact Hsi].
  - pose proof (miss_begin_ok get_page c a_as a Hinv Ha) as Hb.
    destruct (miss_begin c a_as a) as [[c1 ev1] v]. cbn [fst] in Hh.
    destruct Hb as [Hprog [_ [Hv _]]].
    assert (Hp1 : prog c1 v a_as) by (split; [exact Hprog|rewrite Hv; split; reflexivity]).
    destruct (run_list c1 inner) as [c2 ev2] eqn:Hl.
    destruct (nested_list _ _ _ _ _ _ Hp1 Hh Hr Hl) as [[Hprog2 [_ Has2]] _].
    destruct (miss_end c2 v (get_page a_as a)) as [[c3 ev3] r3] eqn:He.
    intro H. inversion H; subst c' ev out; clear H.
    destruct (miss_end_ok get_page gp_ok gp_region _ _ _ _ _ _ _ Hprog2 Has2 He) as [Hi3 [Hpost _]].
    split; [exact Hi3|]. f_equal. now apply gres_direct.
Qed.

End Reentrant.

(** * Concrete runs with the synthetic callback ([vm_compute]) *)

(** printable digests: a page as (as, addr, size, 0 = NULL | 1 + first byte) *)
Definition pkey (p : page) : N * N * N * N :=
  let '(a, b, s, d) := p in (a, b, s, match d with None => 0 | Some l => 1 + hd 0 l end).

Inductive evd := DGot (k : N * N * N * N) | DPut (k : N * N * N * N) | DRetG (r : gres) | DRetR.

Definition ev_digest (e : event) : evd :=
  match e with
  | Got p => DGot (pkey p) | Put p => DPut (pkey p)
  | RetG r => DRetG r | RetR _ => DRetR
  end.

Definition cache_digest (c : cache) : list (ix * (N * N * N * N)) :=
  map (fun i => (i, pkey (page_of (get_slot c i)))) (ring_list (rg c)).

Definition run_digest (ops : list op) :=
  let '(tr, ev) := run synth_get_page init_cache ops in
  (map (fun oc => match fst oc with
                  | OutG r => Some r | _ => None end) tr,
   cache_digest (final synth_get_page init_cache ops), map ev_digest ev).

(** non-vacuity of the hypotheses and a non-trivial non-re-entrant history:
    five pages through four slots (one put), a failing address, the last
    region of the address space, a bury *)
Example readcache_nonvacuous :
  (forall a_as a b s d, synth_get_page a_as a = Some (b, s, d) ->
     b <= a < b + s /\ N.of_nat (length d) = s /\ b + s <= W) /\
  run_digest [OGet 0 0x1008 []; OGet 0 0x2000 []; OGet 1 0x28010 []; OGet 0 0x5000 [];
              OGet 0 0xfffffffffffffff8 []; OBury 1 0x28020; OGet 0 0x3000 []; OGet 0 0x1ff8 []] =
  ([Some (GOk I3); Some (GOk I2); Some (GOk I1); Some GFail; Some (GOk I0); None;
    Some (GOk I1); Some (GOk I3)],
   [(I3, (0, 0x1000, 0x1000, 2)); (I1, (0, 0x3000, 0x1000, 2));
    (I0, (0, 0xffffffffffffff00, 0x100, 252)); (I2, (0, 0x2000, 0x1000, 2))],
   [DGot (0, 0x1000, 0x1000, 2); DGot (0, 0x2000, 0x1000, 2); DGot (1, 0x28000, 0x100, 19);
    DGot (0, 0xffffffffffffff00, 0x100, 252); DPut (1, 0x28000, 0x100, 19);
    DGot (0, 0x3000, 0x1000, 2)]).
Proof. split; [exact synth_gp_ok|vm_compute; reflexivity]. Qed.

(** the recursion guard with a FRESH slot ([oldsize = 0]): the stale range is
    empty, the nested call misses and takes [mru->prev] -- which is still the
    slot in progress.  It fills it with its own page (0x38000) and returns OK;
    then the outer callback stores its page (0x28000) over it.  The nested
    page is never put (no [DPut]) and is in no slot: it is lost. *)
Example readcache_recursion_fresh_slot :
  run_digest [OGet 0 0x28000 [OGet 0 0x38000 []]] =
  ([Some (GOk I3)],
   [(I3, (0, 0x28000, 0x100, 16)); (I0, (0, 0, 0, 0)); (I1, (0, 0, 0, 0)); (I2, (0, 0, 0, 0))],
   [DGot (0, 0x38000, 0x100, 23); DRetG (GOk I3); DGot (0, 0x28000, 0x100, 16)]).
Proof. vm_compute. reflexivity. Qed.

(** the same with a warm cache (old page 0x1000 of size 0x1000 in the victim
    slot, outer request 0x28010): nested calls to 0x28020 (same region: a
    true recursion), to 0x29000 (another region, but inside the stale range
    [0x28010, 0x29010)) and to 0x28010 all answer "recursion"; nothing else
    happens *)
Example readcache_recursion_stale_range :
  run_digest [OGet 0 0x1000 []; OGet 0 0x2000 []; OGet 0 0x3000 []; OGet 0 0x4000 [];
              OGet 0 0x28010 [OGet 0 0x28020 []; OGet 0 0x29000 []; OGet 0 0x28010 []]] =
  ([Some (GOk I3); Some (GOk I2); Some (GOk I1); Some (GOk I0); Some (GOk I3)],
   [(I3, (0, 0x28000, 0x100, 16)); (I0, (0, 0x4000, 0x1000, 2));
    (I1, (0, 0x3000, 0x1000, 2)); (I2, (0, 0x2000, 0x1000, 2))],
   [DGot (0, 0x1000, 0x1000, 2); DGot (0, 0x2000, 0x1000, 2); DGot (0, 0x3000, 0x1000, 2);
    DGot (0, 0x4000, 0x1000, 2); DPut (0, 0x1000, 0x1000, 2);
    DRetG GRecursion; DRetG GRecursion; DRetG GRecursion; DGot (0, 0x28000, 0x100, 16)]).
Proof. vm_compute. reflexivity. Qed.

(** re-entrant histories are NOT transparent in general: a callback for
    (as 1, 0x20000) that reads (as 2, 0x30000) leaves slot 3 labelled with
    address space 2 but holding the data of address space 1; a later read of
    (as 2, 0x20008) is served from it *)
Theorem readcache_reentrant_refuted :
  exists ops a_as a n,
    Forall op_in_range ops /\ a < W /\
    snd (read synth_get_page (final synth_get_page init_cache ops) a_as a n)
      <> direct synth_get_page a_as a n.
Proof.
  exists [OGet 1 0x20000 [OGet 2 0x30000 []]], 2, 0x20008, 8.
  split; [repeat constructor|]. split; [reflexivity|].
  vm_compute. discriminate.
Qed.

(** ... and pages are lost: the page gotten by a nested miss is neither put
    nor held by a slot afterwards (even after [cleanup_cache]) *)
Theorem readcache_reentrant_leak :
  exists ops (f : page -> nat),
    let c := final synth_get_page init_cache ops in
    let ev := snd (run synth_get_page init_cache ops) ++ cleanup_events c in
    msum f (gots ev) <> msum f (puts ev).
Proof.
  exists [OGet 0 0x20000 [OGet 0 0x30000 []]], (fun _ => 1%nat).
  vm_compute. discriminate.
Qed.

(** * Part 7: a slot answers exactly for its own region -- and would not if
    the in-buffer offset were computed in fewer than 64 bits *)

(** [s] is responsible for address [a] of space [a_as] *)
Definition owns (s : slot) (a_as a : N) : Prop :=
  a_as = as_ s /\ addr s <= a < addr s + size s.

(** ** the hit test of the code, for ALL 64-bit addresses: a slot whose
    region does not wrap answers for the addresses of its own region in its own
    address space and for no other address *)
Theorem readcache_hit_exact : forall s a_as a,
  addr s + size s <= W -> a < W ->
  (hit_test s a_as a = true <-> a_as = as_ s /\ addr s <= a < addr s + size s).
Proof.
  intros s a_as a Hw Ha. unfold hit_test. rewrite andb_true_iff, N.ltb_lt, N.eqb_eq.
  destruct (N.eq_dec (size s) 0) as [Hz|Hz].
  - rewrite Hz. split; [intros [H _]; lia|intros [_ H]; lia].
  - assert (Hb : addr s < W) by lia.
    destruct (N.lt_ge_cases a (addr s)) as [Hlt|Hge].
    + rewrite wsub_wrap by assumption. split; [intros [H _]; lia|intros [_ H]; lia].
    + rewrite wsub_le by assumption.
      split; [intros [H E]; split; [now symmetry|lia]|intros [E H]; split; [lia|now symmetry]].
Qed.

(** the invariant's slots do not wrap *)
Lemma slot_ok_nowrap get_page :
  (forall a_as a b s d, get_page a_as a = Some (b, s, d) ->
     b <= a < b + s /\ N.of_nat (length d) = s /\ b + s <= W) ->
  forall s, slot_ok get_page s -> addr s + size s <= W.
Proof.
  intros gp_ok s [Ha [Hz|[d [_ Hg]]]]; [rewrite Hz; lia|].
  now destruct (gp_ok _ _ _ _ _ Hg) as [_ [_ Hw]].
Qed.

Definition nowrap (c : cache) : Prop :=
  forall i, addr (get_slot c i) + size (get_slot c i) <= W.

Lemma hit_false_iff s a_as a :
  addr s + size s <= W -> a < W -> (hit_test s a_as a = false <-> ~ owns s a_as a).
Proof.
  intros Hw Ha. pose proof (readcache_hit_exact s a_as a Hw Ha) as H. unfold owns.
  destruct (hit_test s a_as a); split; intro G; try discriminate; try reflexivity.
  - exfalso. apply G. now apply H.
  - intro O. apply H in O. discriminate.
Qed.

(** ** the scan of [get_cache_buf] and [bury_cache_buffer]: the slot found is
    the first one responsible for the address; none is found iff no slot is
    responsible, and then [get_cache_buf] misses and [bury] does nothing;
    [bury] moves only a slot that is responsible for the address *)
Theorem readcache_find_slot_exact : forall c a_as a,
  nowrap c -> a < W ->
  (forall i, find_slot c a_as a = Some i ->
     owns (get_slot c i) a_as a /\
     forall j, ix_to_N j < ix_to_N i -> ~ owns (get_slot c j) a_as a) /\
  (find_slot c a_as a = None <-> forall i, ~ owns (get_slot c i) a_as a) /\
  ((forall i, ~ owns (get_slot c i) a_as a) -> bury c a_as a = c) /\
  (forall i, find_slot c a_as a = Some i ->
     bury c a_as a = {| slots := slots c; rg := bury_ring (rg c) i |}).
Proof.
  intros c a_as a Hnw Ha.
  assert (Hf : forall i, hit_test (get_slot c i) a_as a = false <-> ~ owns (get_slot c i) a_as a)
    by (intro i; apply hit_false_iff; [apply Hnw|exact Ha]).
  assert (Ht : forall i, hit_test (get_slot c i) a_as a = true -> owns (get_slot c i) a_as a)
    by (intros i H; apply (readcache_hit_exact _ _ _ (Hnw i) Ha); exact H).
  assert (Hnone : find_slot c a_as a = None <-> forall i, ~ owns (get_slot c i) a_as a).
  { split.
    - intros H i. apply Hf. revert H i. unfold find_slot.
      destruct (hit_test (get_slot c I0) a_as a) eqn:H0; [discriminate|].
      destruct (hit_test (get_slot c I1) a_as a) eqn:H1; [discriminate|].
      destruct (hit_test (get_slot c I2) a_as a) eqn:H2; [discriminate|].
      destruct (hit_test (get_slot c I3) a_as a) eqn:H3; [discriminate|].
      intros _ i. destruct i; assumption.
    - intro H. unfold find_slot.
      rewrite (proj2 (Hf I0) (H I0)), (proj2 (Hf I1) (H I1)),
              (proj2 (Hf I2) (H I2)), (proj2 (Hf I3) (H I3)). reflexivity. }
  split; [|split; [exact Hnone|split]].
  - intros i. unfold find_slot.
    destruct (hit_test (get_slot c I0) a_as a) eqn:H0;
      [intro E; inversion E; subst i; split; [now apply Ht|intros j Hj; destruct j; cbn in Hj; lia]|].
    destruct (hit_test (get_slot c I1) a_as a) eqn:H1;
      [intro E; inversion E; subst i; split; [now apply Ht|
        intros j Hj; destruct j; cbn in Hj; try lia; now apply Hf]|].
    destruct (hit_test (get_slot c I2) a_as a) eqn:H2;
      [intro E; inversion E; subst i; split; [now apply Ht|
        intros j Hj; destruct j; cbn in Hj; try lia; now apply Hf]|].
    destruct (hit_test (get_slot c I3) a_as a) eqn:H3;
      [intro E; inversion E; subst i; split; [now apply Ht|
        intros j Hj; destruct j; cbn in Hj; try lia; now apply Hf]|].
    discriminate.
  - intro H. unfold bury. now rewrite (proj2 Hnone H).
  - intros i H. unfold bury. now rewrite H.
Qed.

(** ** the [off_bits] family at 64 bits is the code *)

Lemma pow64 : 2 ^ 64 = W.
Proof. rewrite W_val. reflexivity. Qed.

Lemma buf_offset_64 s a : buf_offset 64 s a = wsub a (addr s).
Proof. unfold buf_offset. rewrite pow64. apply N.mod_small. apply wsub_lt. Qed.

Lemma hit_test_w_64 s a_as a : hit_test_w 64 s a_as a = hit_test s a_as a.
Proof. unfold hit_test_w, hit_test. now rewrite buf_offset_64. Qed.

Lemma find_slot_w_64 c a_as a : find_slot_w 64 c a_as a = find_slot c a_as a.
Proof. unfold find_slot_w, find_slot. now rewrite !hit_test_w_64. Qed.

Lemma read_slot_w_64 s a n : read_slot_w 64 s a n = read_slot s a n.
Proof. unfold read_slot_w, read_slot. now rewrite buf_offset_64. Qed.

Section OpInd.
Variable P : op -> Prop.
Hypothesis HG : forall a_as a l, Forall P l -> P (OGet a_as a l).
Hypothesis HR : forall a_as a n l, Forall P l -> P (ORead a_as a n l).
Hypothesis HB : forall a_as a, P (OBury a_as a).

Fixpoint op_ind_nested (o : op) : P o :=
  match o with
  | OGet a_as a l =>
      HG a_as a l ((fix go (l : list op) : Forall P l :=
                      match l with
                      | [] => Forall_nil P
                      | x :: l' => Forall_cons x (op_ind_nested x) (go l')
                      end) l)
  | ORead a_as a n l =>
      HR a_as a n l ((fix go (l : list op) : Forall P l :=
                        match l with
                        | [] => Forall_nil P
                        | x :: l' => Forall_cons x (op_ind_nested x) (go l')
                        end) l)
  | OBury a_as a => HB a_as a
  end.
End OpInd.

Lemma run_op_get_w gp k c a_as a inner :
  run_op_w gp k c (OGet a_as a inner) =
  let '(c', ev, r) := get_cache_buf_re_w gp k (run_list_w gp k) c a_as a inner in
  (c', ev, OutG r).
Proof. reflexivity. Qed.

Lemma run_op_read_w gp k c a_as a n inner :
  run_op_w gp k c (ORead a_as a n inner) =
  let '(c', ev, r) := get_cache_buf_re_w gp k (run_list_w gp k) c a_as a inner in
  (c', ev, OutR (gres_to_rres_w k c' r a n)).
Proof. reflexivity. Qed.

Lemma run_list_w_64 gp l :
  Forall (fun o => forall c, run_op_w gp 64 c o = run_op gp c o) l ->
  forall c, run_list_w gp 64 c l = run_list gp c l.
Proof.
  induction 1 as [|o l Ho Hl IH]; intro c; [reflexivity|].
  cbn [run_list_w run_list]. rewrite Ho.
  destruct (run_op gp c o) as [[c1 ev1] out]. now rewrite IH.
Qed.

Lemma get_cache_buf_re_w_64 gp l c a_as a :
  (forall c, run_list_w gp 64 c l = run_list gp c l) ->
  get_cache_buf_re_w gp 64 (run_list_w gp 64) c a_as a l =
  get_cache_buf_re gp (run_list gp) c a_as a l.
Proof.
  intro H. unfold get_cache_buf_re_w, get_cache_buf_re. rewrite find_slot_w_64.
  destruct (find_slot c a_as a); [reflexivity|].
  destruct (miss_begin c a_as a) as [[c1 ev1] s]. now rewrite H.
Qed.

Theorem run_op_w_64 gp o : forall c, run_op_w gp 64 c o = run_op gp c o.
Proof.
  induction o as [a_as a l Hl|a_as a n l Hl|a_as a] using op_ind_nested; intro c.
  - rewrite run_op_get_w, run_op_get.
    now rewrite (get_cache_buf_re_w_64 gp l c a_as a (run_list_w_64 gp l Hl)).
  - rewrite run_op_read_w, run_op_read.
    rewrite (get_cache_buf_re_w_64 gp l c a_as a (run_list_w_64 gp l Hl)).
    destruct (get_cache_buf_re gp (run_list gp) c a_as a l) as [[c' ev] r].
    do 2 f_equal. destruct r; cbn [gres_to_rres_w gres_to_rres]; [apply read_slot_w_64|reflexivity|reflexivity].
  - cbn [run_op_w ReadCache.run_op]. unfold bury_w, bury. now rewrite find_slot_w_64.
Qed.

Theorem run_w_64 gp ops : forall c, run_w gp 64 c ops = run gp c ops.
Proof.
  induction ops as [|o ops IH]; intro c; [reflexivity|].
  cbn [run_w run]. rewrite run_op_w_64.
  destruct (run_op gp c o) as [[c1 ev1] out]. now rewrite IH.
Qed.

(** ** fewer than 64 bits: refuted.  (1) For EVERY width k < 64 a one-byte
    slot at address 0 answers for address 2^k, which the code's test rejects.
    (2) On the synthetic callback, for k = 16, 31, 32, 63: read 8 bytes at
    0x1000, then at 0x1000 + 2^k -- the k-bit variant serves the second read
    from the first region's slot (its bytes), the cache-less answer is
    different, and the 64-bit code returns the cache-less answer. *)
Definition trunc_history (k : N) : list op :=
  [ORead 0 0x1000 8 []; ORead 0 (0x1000 + 2 ^ k) 8 []].

Definition trunc_witness (k : N) : Prop :=
  forallb flat_op (trunc_history k) = true /\ 0x1000 + 2 ^ k < W /\
  map fst (fst (run_w synth_get_page k init_cache (trunc_history k))) =
    [OutR (direct synth_get_page 0 0x1000 8); OutR (direct synth_get_page 0 0x1000 8)] /\
  direct synth_get_page 0 (0x1000 + 2 ^ k) 8 <> direct synth_get_page 0 0x1000 8 /\
  map fst (fst (run synth_get_page init_cache (trunc_history k))) =
    [OutR (direct synth_get_page 0 0x1000 8); OutR (direct synth_get_page 0 (0x1000 + 2 ^ k) 8)].

Theorem readcache_hit_truncated_refuted :
  (forall k, k < 64 ->
     let s := {| as_ := 0; addr := 0; size := 1; ptr := None |} in
     2 ^ k < W /\ ~ (addr s <= 2 ^ k < addr s + size s) /\
     hit_test_w k s 0 (2 ^ k) = true /\ hit_test s 0 (2 ^ k) = false) /\
  Forall trunc_witness [16; 31; 32; 63].
Proof.
  split.
  - intros k Hk s.
    assert (Hlt : 2 ^ k < W) by (rewrite <- pow64; apply N.pow_lt_mono_r; lia).
    assert (Hpos : 2 ^ k <> 0) by (apply N.pow_nonzero; lia).
    split; [exact Hlt|]. split; [cbn [addr size s]; lia|].
    unfold hit_test_w, hit_test, buf_offset. cbn [addr size as_ s].
    rewrite wsub_le by lia. rewrite N.sub_0_r, N.mod_same by exact Hpos.
    split; [reflexivity|].
    destruct (2 ^ k <? 1) eqn:E; [apply N.ltb_lt in E; lia|reflexivity].
  - repeat apply Forall_cons; try apply Forall_nil; unfold trunc_witness;
      (split; [|split; [|split; [|split]]]); vm_compute; try reflexivity; discriminate.
Qed.

(** ** a failed fill is not cached: when [get_cache_buf] misses and the
    callback fails, the call returns the callback's status, the chosen (LRU)
    slot is left with [size = 0], so it answers for no address of any space and
    no later scan returns it -- the next request for that page misses again and
    calls [get_page] again; the other slots and the MRU order are untouched.
    (Whatever the failing callback wrote into [addr] is dead state.) *)
Theorem readcache_failed_fill_not_cached : forall get_page c a_as a c' ev r,
  find_slot c a_as a = None -> get_page a_as a = None ->
  get_cache_buf get_page c a_as a = (c', ev, r) ->
  let v := prev (rg c) (mru (rg c)) in
  r = GFail /\ size (get_slot c' v) = 0 /\
  (forall b_as b, hit_test (get_slot c' v) b_as b = false) /\
  (forall b_as b, find_slot c' b_as b <> Some v) /\
  (forall j, j <> v -> get_slot c' j = get_slot c j) /\ rg c' = rg c.
Proof.
  intros get_page c a_as a c' ev r Hf Hg. unfold get_cache_buf, get_cache_buf_re.
  rewrite Hf. unfold miss_begin. cbn beta iota zeta.
  unfold miss_end. rewrite Hg, get_set_same. cbn [as_ addr ptr size].
  intros H. set (v := prev (rg c) (mru (rg c))) in *. injection H as Hc Hev Hr. subst c' ev r.
  assert (Hsz : size (get_slot (set_slot (set_slot c v
            {| as_ := a_as; addr := a; size := size (get_slot c v); ptr := None |}) v
            {| as_ := a_as; addr := a; size := 0; ptr := None |}) v) = 0)
    by (rewrite get_set_same; reflexivity).
  assert (Hh : forall b_as b, hit_test (get_slot (set_slot (set_slot c v
            {| as_ := a_as; addr := a; size := size (get_slot c v); ptr := None |}) v
            {| as_ := a_as; addr := a; size := 0; ptr := None |}) v) b_as b = false).
  { intros b_as b. unfold hit_test. rewrite Hsz.
    destruct (wsub b _ <? 0) eqn:E; [apply N.ltb_lt in E; lia|reflexivity]. }
  split; [reflexivity|]. split; [exact Hsz|]. split; [exact Hh|]. split; [|split].
  - intros b_as b E. apply find_slot_sound in E. rewrite Hh in E. discriminate.
  - intros j Hj. rewrite !get_set_slot.
    destruct (ix_eqb v j) eqn:E; [apply ix_eqb_eq in E; congruence|reflexivity].
  - reflexivity.
Qed.
