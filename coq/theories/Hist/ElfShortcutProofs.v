(** Proofs about the ELF segment lookups (Hist/ElfShortcut.v): the scan
    computes "containing segment, else first segment starting less than
    [dist] above, else none", and the last-hit shortcuts never change an
    answer when each of them points into its own array. *)
From Coq Require Import NArith List Bool Lia ZifyBool ZifyNat ZifyN.
From KdV Require Import Base.Wrap64 Hist.ElfShortcut.
Import ListNotations.
Local Open Scope N_scope.

(** * Specification of the scan, written without reference to the loop *)

Definition contains (key sz : segment -> N) (a : N) (s : segment) : bool :=
  negb (sz s =? 0) && (key s <=? a) && (a <? key s + sz s).

Definition above (key sz : segment -> N) (a : N) (s : segment) : bool :=
  negb (sz s =? 0) && (a <? key s).

Fixpoint find_first (P : segment -> bool) (l : list segment) (i : nat)
  : option (nat * segment) :=
  match l with
  | [] => None
  | s :: l' => if P s then Some (i, s) else find_first P l' (S i)
  end.

(** the segment that contains [a]; else the first non-empty segment that
    starts above [a], if it starts less than [dist] above; else none *)
Definition closest_spec (key sz : segment -> N) (l : list segment) (i : nat)
           (a dist : N) : option nat :=
  match find_first (contains key sz a) l i with
  | Some (j, _) => Some j
  | None =>
      match find_first (above key sz a) l i with
      | Some (j, s) => if key s - a <? dist then Some j else None
      | None => None
      end
  end.

(** * Well-formed segment arrays: sorted by start, pairwise disjoint in
    [start, start + memsz), [filesz <= memsz], no wrap *)
Inductive chain (key : segment -> N) : list segment -> Prop :=
| chain_nil : chain key []
| chain_cons s l :
    key s + memsz s <= W -> filesz s <= memsz s ->
    Forall (fun s' => key s + memsz s <= key s') l ->
    chain key l -> chain key (s :: l).

Definition elf_ok (e : elf) : Prop :=
  chain phys (load_sorted e) /\ chain virt (load_vsorted e).

(** a shortcut is NULL or points at an element of its own array *)
Definition ptr_ok (e : elf) (which : arr) (p : option sptr) : Prop :=
  p = None \/ exists i, p = Some (which, i) /\ (i < length (arr_of e which))%nat.

Definition st_ok (e : elf) (st : shortcut) : Prop :=
  ptr_ok e AP (last_load st) /\ ptr_ok e AV (last_vload st).

(** * 64-bit arithmetic *)

Lemma wsub_wrap a b : a < W -> b < W -> a < b -> wsub a b = a + W - b.
Proof.
  intros Ha Hb Hlt. unfold wsub, w.
  rewrite (N.mod_small b) by exact Hb.
  apply N.mod_small. pose proof W_pos. lia.
Qed.

Lemma end_nowrap k z : 0 < z -> k + z <= W -> wsub (wadd k z) 1 = k + z - 1.
Proof.
  intros Hz Hw. pose proof W_val as HW.
  destruct (N.eq_dec (k + z) W) as [E|E].
  - rewrite (wadd_W _ _ E). rewrite wsub_wrap by lia. lia.
  - rewrite wadd_small by lia. rewrite wsub_le by lia. reflexivity.
Qed.

Lemma scan_bound key sz l : forall i a dist j,
  scan key sz l i a dist = Some j -> (i <= j < i + length l)%nat.
Proof.
  induction l as [|s l IH]; intros i a dist j; cbn [scan length]; [discriminate|].
  destruct (negb (sz s =? 0) && (a <=? wsub (wadd (key s) (sz s)) 1)).
  - destruct ((a <? key s) && (dist <=? wsub (key s) a)); [discriminate|].
    intro H. inversion H. lia.
  - intro H. apply IH in H. lia.
Qed.

Section Scan.

Variables key sz : segment -> N.
Hypothesis sz_le : forall s, sz s <= memsz s.

Lemma scan_step_true s a :
  key s + memsz s <= W -> a < W ->
  (negb (sz s =? 0) && (a <=? wsub (wadd (key s) (sz s)) 1)) =
  (negb (sz s =? 0) && (a <? key s + sz s)).
Proof.
  intros Hw Ha. pose proof (sz_le s) as Hle.
  destruct (sz s =? 0) eqn:E; [reflexivity|]. apply N.eqb_neq in E. cbn [negb andb].
  rewrite end_nowrap by lia.
  destruct (a <=? key s + sz s - 1) eqn:E1, (a <? key s + sz s) eqn:E2; try reflexivity; lia.
Qed.

Lemma find_first_none_above l : forall i a k,
  Forall (fun s' => k <= key s') l -> a < k ->
  find_first (contains key sz a) l i = None.
Proof.
  induction l as [|s l IH]; intros i a k Hall Hak; [reflexivity|].
  inversion Hall as [|? ? Hs Hl]; subst. cbn [find_first].
  assert (E : contains key sz a s = false).
  { unfold contains. destruct (key s <=? a) eqn:E1; [lia|]. now rewrite andb_false_r. }
  rewrite E. now apply IH with (k := k).
Qed.

(** ** the scan computes the specification *)
Lemma scan_is_spec l : forall i a dist,
  chain key l -> a < W ->
  scan key sz l i a dist = closest_spec key sz l i a dist.
Proof.
  induction l as [|s l IH]; intros i a dist Hch Ha; [reflexivity|].
  inversion Hch as [|? ? Hw Hf Hall Hch']; subst.
  pose proof (sz_le s) as Hle.
  cbn [scan]. rewrite scan_step_true by assumption.
  unfold closest_spec. cbn [find_first].
  destruct (sz s =? 0) eqn:Ez.
  - (* empty segment: skipped by the loop, invisible to the spec *)
    cbn [negb andb]. unfold contains at 1, above at 1. rewrite Ez. cbn [negb andb].
    apply IH; assumption.
  - apply N.eqb_neq in Ez. cbn [negb andb].
    destruct (a <? key s + sz s) eqn:Eend.
    + destruct (a <? key s) eqn:Ebelow.
      * (* [a] lies below this segment: nothing can contain it *)
        assert (Hc : contains key sz a s = false).
        { unfold contains. destruct (key s <=? a) eqn:E1; [lia|]. now rewrite andb_false_r. }
        assert (Hn : find_first (contains key sz a) l (S i) = None).
        { apply find_first_none_above with (k := key s + memsz s); [exact Hall|lia]. }
        assert (Hab : above key sz a s = true).
        { unfold above. apply andb_true_iff. split; [|exact Ebelow].
          apply negb_true_iff. now apply N.eqb_neq. }
        rewrite Hc, Hn, Hab. cbn [andb].
        rewrite wsub_le by lia.
        destruct (dist <=? key s - a) eqn:E1, (key s - a <? dist) eqn:E2; try reflexivity; lia.
      * (* [a] lies inside this segment *)
        assert (Hc : contains key sz a s = true).
        { unfold contains. apply andb_true_iff. split; [apply andb_true_iff; split|exact Eend].
          - apply negb_true_iff. now apply N.eqb_neq.
          - apply N.leb_le. lia. }
        rewrite Hc. reflexivity.
    + (* [a] lies at or above the end of this segment *)
      assert (Hc : contains key sz a s = false).
      { unfold contains. rewrite Eend. now rewrite andb_false_r. }
      assert (Hab : above key sz a s = false).
      { unfold above. destruct (a <? key s) eqn:E1; [lia|]. now rewrite andb_false_r. }
      rewrite Hc, Hab. apply IH; assumption.
Qed.

(** a segment that passes the shortcut test is the one the scan returns *)
Lemma scan_finds_container l : forall i j s a dist,
  chain key l -> a < W -> nth_error l j = Some s -> last_hits key sz s a = true ->
  scan key sz l i a dist = Some (i + j)%nat.
Proof.
  induction l as [|h l IH]; intros i j s a dist Hch Ha Hn Hh; [destruct j; discriminate|].
  inversion Hch as [|? ? Hw Hf Hall Hch']; subst.
  unfold last_hits in Hh. apply andb_true_iff in Hh as [H1 H2].
  apply N.leb_le in H1. apply N.ltb_lt in H2. rewrite wsub_le in H2 by assumption.
  cbn [scan]. rewrite scan_step_true by assumption.
  destruct j as [|j]; cbn [nth_error] in Hn.
  - inversion Hn; subst h.
    assert (E0 : (sz s =? 0) = false) by (apply N.eqb_neq; lia).
    assert (E1 : (a <? key s + sz s) = true) by (apply N.ltb_lt; lia).
    assert (E2 : (a <? key s) = false) by (apply N.ltb_ge; lia).
    rewrite E0, E1, E2. cbn [negb andb]. f_equal. lia.
  - assert (Hs : key h + memsz h <= key s).
    { apply nth_error_In in Hn. rewrite Forall_forall in Hall. now apply Hall. }
    pose proof (sz_le h) as Hle.
    assert (E1 : (a <? key h + sz h) = false) by (apply N.ltb_ge; lia).
    rewrite E1, andb_false_r.
    rewrite (IH (S i) j s a dist Hch' Ha Hn).
    + f_equal. lia.
    + unfold last_hits. apply andb_true_iff. split; [now apply N.leb_le|].
      apply N.ltb_lt. rewrite wsub_le by assumption. exact H2.
Qed.

(** ** one lookup: the shortcut does not change the answer *)
Lemma find_closest_irrelevant e which last store store' st st' a dist :
  chain key (arr_of e which) -> ptr_ok e which last -> a < W ->
  fst (find_closest e which key sz last store st a dist) =
  fst (find_closest e which key sz None store' st' a dist).
Proof.
  intros Hch Hp Ha. unfold find_closest.
  assert (Hslow : forall (f : sptr -> shortcut) (s0 : shortcut) (f' : sptr -> shortcut) (s0' : shortcut),
    fst (match scan key sz (arr_of e which) 0 a dist with
         | Some i => (Found (which, i), f (which, i)) | None => (NotFound, s0) end) =
    fst (match scan key sz (arr_of e which) 0 a dist with
         | Some i => (Found (which, i), f' (which, i)) | None => (NotFound, s0') end)).
  { intros. destruct (scan key sz (arr_of e which) 0 a dist); reflexivity. }
  destruct Hp as [Hp|[i [Hp Hi]]]; subst last; [apply Hslow|].
  unfold deref. cbn [fst snd].
  destruct (nth_error (arr_of e which) i) as [s|] eqn:Hn.
  - destruct (last_hits key sz s a) eqn:Hh; [|apply Hslow].
    rewrite (scan_finds_container _ 0%nat i s a dist Hch Ha Hn Hh). reflexivity.
  - apply nth_error_None in Hn. lia.
Qed.

End Scan.

Lemma filesz_le_chain key l s : chain key l -> In s l -> filesz s <= memsz s.
Proof.
  induction 1 as [|h l Hw Hf Hall Hch IH]; intro Hin; [contradiction|].
  destruct Hin as [E|Hin]; [now subst h|now apply IH].
Qed.

(** [filesz <= memsz] is only known for the segments of the array; the scan
    lemmas want it for the size selector as a function, so the file variants
    go through a selector that is clipped to [memsz] and agrees with [filesz]
    on the array *)
Definition fsz (s : segment) : N := N.min (filesz s) (memsz s).

Lemma fsz_le s : fsz s <= memsz s.
Proof. unfold fsz. lia. Qed.

Lemma scan_ext key sz sz' l : forall i a dist,
  (forall s, In s l -> sz s = sz' s) ->
  scan key sz l i a dist = scan key sz' l i a dist.
Proof.
  induction l as [|s l IH]; intros i a dist H; [reflexivity|].
  cbn [scan]. rewrite (H s) by now left.
  rewrite IH by (intros s' Hs'; apply H; now right). reflexivity.
Qed.

Lemma fsz_on_chain key l s : chain key l -> In s l -> filesz s = fsz s.
Proof. intros Hch Hin. pose proof (filesz_le_chain _ _ _ Hch Hin). unfold fsz. lia. Qed.

Lemma find_closest_ext e which key sz sz' last store st a dist :
  (forall s, In s (arr_of e which) -> sz s = sz' s) ->
  ptr_ok e which last ->
  find_closest e which key sz last store st a dist =
  find_closest e which key sz' last store st a dist.
Proof.
  intros H Hp. unfold find_closest. rewrite (scan_ext key sz sz') by exact H.
  destruct Hp as [Hp|[i [Hp Hi]]]; subst last; [reflexivity|].
  unfold deref. cbn [fst snd].
  destruct (nth_error (arr_of e which) i) as [s|] eqn:Hn; [|reflexivity].
  unfold last_hits. rewrite (H s) by (eapply nth_error_In; exact Hn). reflexivity.
Qed.

Lemma memsz_le s : memsz s <= memsz s.
Proof. lia. Qed.

(** * The theorems *)

Lemma find_first_ext P P' l : forall i,
  (forall s, In s l -> P s = P' s) -> find_first P l i = find_first P' l i.
Proof.
  induction l as [|s l IH]; intros i H; [reflexivity|].
  cbn [find_first]. rewrite (H s) by now left.
  rewrite IH by (intros s' Hs'; apply H; now right). reflexivity.
Qed.

Lemma closest_spec_ext key sz sz' l i a dist :
  (forall s, In s l -> sz s = sz' s) ->
  closest_spec key sz l i a dist = closest_spec key sz' l i a dist.
Proof.
  intro H. unfold closest_spec.
  rewrite (find_first_ext (contains key sz a) (contains key sz' a))
    by (intros s Hs; unfold contains; now rewrite (H s Hs)).
  rewrite (find_first_ext (above key sz a) (above key sz' a))
    by (intros s Hs; unfold above; now rewrite (H s Hs)).
  reflexivity.
Qed.

(** ** [elf_closest_spec]: each of the four scans (the loop, without the
    shortcut) returns the segment that contains the address, else the first
    non-empty segment above it provided it starts LESS than [dist] above
    (a segment exactly [dist] above is not returned), else nothing. *)
Theorem elf_closest_spec : forall e a dist,
  elf_ok e -> a < W ->
  scan phys memsz (load_sorted e) 0 a dist = closest_spec phys memsz (load_sorted e) 0 a dist /\
  scan phys filesz (load_sorted e) 0 a dist = closest_spec phys filesz (load_sorted e) 0 a dist /\
  scan virt memsz (load_vsorted e) 0 a dist = closest_spec virt memsz (load_vsorted e) 0 a dist /\
  scan virt filesz (load_vsorted e) 0 a dist = closest_spec virt filesz (load_vsorted e) 0 a dist.
Proof.
  intros e a dist [Hp Hv] Ha.
  assert (HfP : forall s, In s (load_sorted e) -> filesz s = fsz s)
    by (intros s Hs; now apply fsz_on_chain with (key := phys) (l := load_sorted e)).
  assert (HfV : forall s, In s (load_vsorted e) -> filesz s = fsz s)
    by (intros s Hs; now apply fsz_on_chain with (key := virt) (l := load_vsorted e)).
  split; [apply scan_is_spec; [exact memsz_le|exact Hp|exact Ha]|].
  split; [rewrite (scan_ext phys filesz fsz) by exact HfP;
          rewrite (closest_spec_ext phys filesz fsz) by exact HfP;
          apply scan_is_spec; [exact fsz_le|exact Hp|exact Ha]|].
  split; [apply scan_is_spec; [exact memsz_le|exact Hv|exact Ha]|].
  rewrite (scan_ext virt filesz fsz) by exact HfV.
  rewrite (closest_spec_ext virt filesz fsz) by exact HfV.
  apply scan_is_spec; [exact fsz_le|exact Hv|exact Ha].
Qed.

Lemma lookup_result_irrelevant e st f a dist :
  elf_ok e -> st_ok e st -> a < W ->
  fst (lookup true e st f a dist) = lookup_plain e f a dist.
Proof.
  intros [Hp Hv] [Hl Hvl] Ha. unfold lookup_plain, lookup.
  assert (HfP : forall s, In s (arr_of e AP) -> filesz s = fsz s)
    by (intros s Hs; now apply fsz_on_chain with (key := phys) (l := load_sorted e)).
  assert (HfV : forall s, In s (arr_of e AV) -> filesz s = fsz s)
    by (intros s Hs; now apply fsz_on_chain with (key := virt) (l := load_vsorted e)).
  assert (Hnone : forall w, ptr_ok e w None) by (intro w; now left).
  destruct f;
    unfold find_closest_mem_load, find_closest_file_load,
           find_closest_mem_vload, find_closest_file_vload; cbn [last_load last_vload no_shortcut].
  - apply find_closest_irrelevant; [exact memsz_le|exact Hp|exact Hl|exact Ha].
  - rewrite (find_closest_ext e AP phys filesz fsz (last_load st) _ _ _ _ HfP Hl).
    rewrite (find_closest_ext e AP phys filesz fsz None _ _ _ _ HfP (Hnone AP)).
    apply find_closest_irrelevant; [exact fsz_le|exact Hp|exact Hl|exact Ha].
  - apply find_closest_irrelevant; [exact memsz_le|exact Hv|exact Hvl|exact Ha].
  - rewrite (find_closest_ext e AV virt filesz fsz (last_vload st) _ _ _ _ HfV Hvl).
    rewrite (find_closest_ext e AV virt filesz fsz None _ _ _ _ HfV (Hnone AV)).
    apply find_closest_irrelevant; [exact fsz_le|exact Hv|exact Hvl|exact Ha].
Qed.

Lemma find_closest_st e which key sz last store st a dist :
  (forall p, (snd p < length (arr_of e which))%nat -> fst p = which -> st_ok e (store p)) ->
  st_ok e st ->
  st_ok e (snd (find_closest e which key sz last store st a dist)).
Proof.
  intros Hstore Hst. unfold find_closest.
  assert (Hslow : st_ok e (snd (match scan key sz (arr_of e which) 0 a dist with
         | Some i => (Found (which, i), store (which, i)) | None => (NotFound, st) end))).
  { destruct (scan key sz (arr_of e which) 0 a dist) as [i|] eqn:Hs; [|exact Hst].
    cbn [snd]. apply Hstore; [|reflexivity]. cbn [snd]. apply scan_bound in Hs. lia. }
  destruct last as [q|]; [|exact Hslow].
  destruct (deref e q) as [s|]; [|exact Hst].
  destruct (last_hits key sz s a); [exact Hst|exact Hslow].
Qed.

Lemma lookup_st_ok e st f a dist :
  st_ok e st -> st_ok e (snd (lookup true e st f a dist)).
Proof.
  intros Hst. destruct Hst as [Hl Hvl]. unfold lookup.
  destruct f;
    unfold find_closest_mem_load, find_closest_file_load,
           find_closest_mem_vload, find_closest_file_vload;
    apply find_closest_st; try (split; assumption);
    intros [w i] Hi Hw; cbn [fst snd] in *; subst w;
    (split; cbn [set_last_load set_last_vload last_load last_vload]; [|]);
    try assumption; right; exists i; (split; [reflexivity|exact Hi]).
Qed.

(** ** [elf_shortcut_irrelevant]: for well-formed segment arrays, every
    shortcut state whose pointers are NULL or designate an element of their
    own array, every address and every [dist], each of the four lookups of the
    repaired code returns what it returns with both shortcuts NULL (and leaves
    such a shortcut state behind); hence along every history of lookups, from
    every such state, all answers are those of the shortcut-less code. *)
Theorem elf_shortcut_irrelevant :
  forall e, elf_ok e ->
  (forall st f a dist, st_ok e st -> a < W ->
     fst (lookup true e st f a dist) = lookup_plain e f a dist /\
     st_ok e (snd (lookup true e st f a dist))) /\
  (forall ops st, st_ok e st -> Forall (fun q => snd (fst q) < W) ops ->
     run true e st ops = map (fun q => lookup_plain e (fst (fst q)) (snd (fst q)) (snd q)) ops).
Proof.
  intros e He. split.
  - intros st f a dist Hst Ha.
    split; [now apply lookup_result_irrelevant|now apply lookup_st_ok].
  - induction ops as [|[[f a] dist] ops IH]; intros st Hst Hr; [reflexivity|].
    inversion Hr as [|? ? Ha Hr']; subst. cbn [fst snd] in Ha.
    cbn [run map fst snd].
    pose proof (lookup_result_irrelevant e st f a dist He Hst Ha) as H1.
    pose proof (lookup_st_ok e st f a dist Hst) as H2.
    destruct (lookup true e st f a dist) as [r st']. cbn [fst snd] in H1, H2.
    rewrite H1. f_equal. now apply IH.
Qed.

(** ** the unrepaired code (defect 7): two segments whose virtual order is
    the reverse of their physical order; one virtual lookup, then one
    physical lookup.  The physical lookup returns a pointer into the
    virtually sorted array ([AV], index 1) where the shortcut-less code
    returns element 0 of [load_sorted]. *)
Definition seg_a : segment :=
  {| phys := 0x1000; virt := 0x9000; filesz := 0x1000; memsz := 0x1000; file_offset := 0x1000 |}.
Definition seg_b : segment :=
  {| phys := 0x2000; virt := 0x8000; filesz := 0x1000; memsz := 0x1000; file_offset := 0x2000 |}.
Definition elf_ab : elf := {| load_sorted := [seg_a; seg_b]; load_vsorted := [seg_b; seg_a] |}.

Lemma elf_ab_ok : elf_ok elf_ab.
Proof.
  pose proof W_val as HW.
  split; cbn [elf_ab load_sorted load_vsorted];
    repeat (first [apply chain_nil | apply Forall_nil | apply chain_cons | apply Forall_cons];
            cbn; try lia).
Qed.

Theorem elf_shortcut_unrepaired_refuted :
  exists e ops, elf_ok e /\ Forall (fun q => snd (fst q) < W) ops /\
    run false e no_shortcut ops <>
    map (fun q => lookup_plain e (fst (fst q)) (snd (fst q)) (snd q)) ops /\
    run true e no_shortcut ops =
    map (fun q => lookup_plain e (fst (fst q)) (snd (fst q)) (snd q)) ops.
Proof.
  exists elf_ab, [(MemVload, 0x9000, 0x1000); (MemLoad, 0x1000, 0x1000)].
  split; [exact elf_ab_ok|]. split; [repeat constructor|].
  split; [vm_compute; discriminate|vm_compute; reflexivity].
Qed.

(** non-vacuity / strictness of [dist]: a segment starting exactly [dist]
    above the address is not returned, one starting [dist - 1] above is *)
Example elf_closest_strict :
  run true elf_ab no_shortcut
    [(MemLoad, 0x0, 0x1000); (MemLoad, 0x1, 0x1000); (MemLoad, 0x1fff, 0); (MemLoad, 0x3000, 0x1000);
     (FileVload, 0x7fff, 2); (MemVload, 0x9fff, 0)] =
  [NotFound; Found (AP, 0%nat); Found (AP, 0%nat); NotFound; Found (AV, 0%nat); Found (AV, 1%nat)].
Proof. vm_compute. reflexivity. Qed.
