(** * File cache (src/kdumpfile/fcache.c): model and specification.

    Executable Gallina only; the proofs are in [FcacheProofs.v].

    Modelled statement by statement, for a set of files ([fidx] indexes
    [fc->info[]]; the keys of both sub-caches are [blkpos | fidx]):
    [fcache_get_mmap], [fcache_get_read], [fcache_get], [fcache_pread],
    [fcache_get_chunk], [fcache_put_chunk] and [fcache_put]
    (kdumpfile-priv.h).  The modelled source is the pinned tree with the
    repairs #8 (EOF clamp of an mmap'ed entry's length; the unrepaired code
    is [clamp_eof = false]), #41 ([free(data)] when a get fails after the
    copy-out), #72 (off_t guard at the top of [fcache_get_chunk]) and #47
    ([fcache_get_mmap] gives the reference on a MAP_FAILED entry back before
    it returns ERR_SYSTEM; the entry stays cached, unreferenced, and answers
    ERR_SYSTEM again until the replacement drops it).

    Modelled, not verified (the environment):
    - [pread(fd, buf, pgsz, blkpos)] returns [min pgsz (filesz - blkpos)]
      bytes of the file, or fails (one oracle bit per call);
    - [mmap] of a block yields [mmapsz] addresses; the byte at file offset
      [o] is [file o] below EOF, [0] up to the end of the page that
      contains EOF, and a fault (SIGBUS) from there on; [mmap] may fail
      (one oracle bit per call);
    - [malloc] may fail (one oracle bit per call);
    - the two sub-caches [fc->cache] and [fc->fbcache] are abstract keyed
      stores (cache.c's replacement policy is an oracle: any unreferenced
      entries may be dropped at a miss; referenced ones never are);
    - whether the buffers of two consecutive entries of a chunk happen to
      be adjacent in memory (the pointer test [curfce->data != curdata])
      is an oracle bit per boundary.

    Numbers are [N]; [off_t]/[size_t] overflow is not modelled: callers
    keep [pos + len <= 2^63] (the guard #72 is modelled). *)
Require Import NArith List Bool.
Import ListNotations.
Open Scope N_scope.

(** ** Status codes, bytes *)

Inductive status := OK | ERR_SYSTEM | ERR_NODATA | ERR_BUSY.

Definition status_code (s : status) : N :=
  match s with OK => 0 | ERR_SYSTEM => 1 | ERR_NODATA => 3 | ERR_BUSY => 8 end.

(** [kdump_mmap_policy_t] *)
Inductive policy := NEVER | ALWAYS | TRY | TRY_ONCE.

Definition policy_code (p : policy) : N :=
  match p with NEVER => 0 | ALWAYS => 1 | TRY => 2 | TRY_ONCE => 3 end.

(** What a load from a cached buffer yields: a byte, or SIGBUS. *)
Inductive mbyte := Byte (b : N) | Fault.

(** [memcpy] out of a buffer: all bytes, or the process is killed. *)
Fixpoint collect (l : list mbyte) : option (list N) :=
  match l with
  | [] => Some []
  | Fault :: _ => None
  | Byte b :: t => match collect t with Some r => Some (b :: r) | None => None end
  end.

(** offsets [pos, pos+1, ..., pos+len-1] *)
Fixpoint offs_from (pos : N) (n : nat) : list N :=
  match n with O => [] | S n' => pos :: offs_from (pos + 1) n' end.
Definition offs (pos len : N) : list N := offs_from pos (N.to_nat len).

(** [a & ~(sz - 1)] and [a & (sz - 1)] *)
Definition align_down (a sz : N) : N := N.ldiff a (sz - 1).
Definition low_bits (a sz : N) : N := N.land a (sz - 1).

(** ** The abstract keyed store standing for [struct cache] *)

Record entry (C : Type) := mkEntry { e_key : N; e_val : C; e_ref : N }.
Arguments mkEntry {C}. Arguments e_key {C}. Arguments e_val {C}. Arguments e_ref {C}.

Record store (C : Type) := mkStore { s_cap : N; s_ents : list (entry C) }.
Arguments mkStore {C}. Arguments s_cap {C}. Arguments s_ents {C}.

Section Store.
  Context {C : Type}.

  Definition referenced (e : entry C) : bool := 0 <? e_ref e.

  (** number of entries somebody holds *)
  Definition nref (s : store C) : N :=
    N.of_nat (length (filter referenced (s_ents s))).

  Fixpoint lookup (k : N) (es : list (entry C)) : option (entry C) :=
    match es with
    | [] => None
    | e :: t => if e_key e =? k then Some e else lookup k t
    end.

  Fixpoint incr (k : N) (es : list (entry C)) : list (entry C) :=
    match es with
    | [] => []
    | e :: t => if e_key e =? k then mkEntry (e_key e) (e_val e) (e_ref e + 1) :: t
                else e :: incr k t
    end.

  (** [cache_put_entry]: [--refcnt].  Callers only put what they hold. *)
  Fixpoint decr (k : N) (es : list (entry C)) : list (entry C) :=
    match es with
    | [] => []
    | e :: t => if e_key e =? k then mkEntry (e_key e) (e_val e) (e_ref e - 1) :: t
                else e :: decr k t
    end.

  (** The replacement oracle: one bit per unreferenced entry, in order
      ([true] = dropped now; a missing bit means dropped). *)
  Fixpoint evict (bits : list bool) (es : list (entry C)) : list (entry C) :=
    match es with
    | [] => []
    | e :: t =>
      if referenced e then e :: evict bits t
      else match bits with
           | [] => evict [] t
           | true :: bs => evict bs t
           | false :: bs => e :: evict bs t
           end
    end.

  (** If the oracle left no free slot, every unreferenced entry goes. *)
  Definition make_room (bits : list bool) (s : store C) : store C :=
    let es := evict bits (s_ents s) in
    mkStore (s_cap s)
            (if s_cap s <=? N.of_nat (length es) then filter referenced es else es).

  Inductive get_res :=
  | Hit (c : C) (s : store C)     (* valid entry, reference taken *)
  | Busy                          (* cache_get_entry() == NULL *)
  | Miss (s : store C).           (* room made; caller fills, then inserts or discards *)

  (** [cache_get_entry] *)
  Definition store_get (k : N) (bits : list bool) (s : store C) : get_res :=
    match lookup k (s_ents s) with
    | Some e => Hit (e_val e) (mkStore (s_cap s) (incr k (s_ents s)))
    | None => if s_cap s <=? nref s then Busy else Miss (make_room bits s)
    end.

  (** [cache_insert] after a miss: the entry becomes valid, the caller's
      reference stays ([cache_discard] = not calling this). *)
  Definition store_insert (k : N) (c : C) (s : store C) : store C :=
    mkStore (s_cap s) (s_ents s ++ [mkEntry k c 1]).

  Definition store_put (k : N) (s : store C) : store C :=
    mkStore (s_cap s) (decr k (s_ents s)).

  (** reference count held on key [k] *)
  Definition refcount (k : N) (s : store C) : N :=
    match lookup k (s_ents s) with Some e => e_ref e | None => 0 end.
End Store.

(** ** State *)

(** content of an entry of [fc->cache]: the mapping of block [blkpos] of file [fidx]
    (recorded when [mmap] is called), or MAP_FAILED *)
Inductive mcontent := MapOk (fidx blkpos : N) | MapFailed.

Inductive which := MM | FB.

(** [struct fcache_entry]: [cache]/[ce] = ([fc_which], [fc_key]);
    [data[0..len)] = [fc_view] (buffers of referenced entries do not change,
    so the view is taken when the entry is obtained);
    [fc_full]: [data + len] is the end of the underlying buffer. *)
Record fce := mkFce {
  fc_which : which; fc_key : N; fc_len : N; fc_view : list mbyte; fc_full : bool }.

(** The environment's choices for one operation. *)
Record oracle := mkOracle {
  o_ev : list (list bool);   (* per cache_get_entry call: replacement choice *)
  o_mf : list bool;          (* per mmap call: true = MAP_FAILED *)
  o_rf : list bool;          (* per pread call: true = -1 *)
  o_adj : list bool;         (* per chunk boundary: true = buffers adjacent *)
  o_al : list bool }.        (* per malloc call: true = NULL *)

Definition no_oracle : oracle := mkOracle [] [] [] [] [].

Record state := mkState {
  st_mm : store mcontent;       (* fc->cache, key = blkpos | fidx *)
  st_fb : store (list N);       (* fc->fbcache, key = blkpos | fidx *)
  st_policy : policy;           (* fc->mmap_policy *)
  st_live : N;                  (* malloc'ed blocks owned by chunks *)
  st_orc : oracle }.            (* remaining choices of the current operation *)

Definition set_mm (st : state) (x : store mcontent) : state :=
  mkState x (st_fb st) (st_policy st) (st_live st) (st_orc st).
Definition set_fb (st : state) (x : store (list N)) : state :=
  mkState (st_mm st) x (st_policy st) (st_live st) (st_orc st).
Definition set_policy (st : state) (x : policy) : state :=
  mkState (st_mm st) (st_fb st) x (st_live st) (st_orc st).
Definition set_live (st : state) (x : N) : state :=
  mkState (st_mm st) (st_fb st) (st_policy st) x (st_orc st).
Definition set_orc (st : state) (x : oracle) : state :=
  mkState (st_mm st) (st_fb st) (st_policy st) (st_live st) x.

Definition init_state (cap_mm cap_fb : N) : state :=
  mkState (mkStore cap_mm []) (mkStore cap_fb []) TRY 0 no_oracle.

Definition pop_ev (st : state) : list bool * state :=
  let o := st_orc st in
  match o_ev o with
  | [] => ([], st)
  | b :: t => (b, set_orc st (mkOracle t (o_mf o) (o_rf o) (o_adj o) (o_al o)))
  end.
Definition pop_mf (st : state) : bool * state :=
  let o := st_orc st in
  match o_mf o with
  | [] => (false, st)
  | b :: t => (b, set_orc st (mkOracle (o_ev o) t (o_rf o) (o_adj o) (o_al o)))
  end.
Definition pop_rf (st : state) : bool * state :=
  let o := st_orc st in
  match o_rf o with
  | [] => (false, st)
  | b :: t => (b, set_orc st (mkOracle (o_ev o) (o_mf o) t (o_adj o) (o_al o)))
  end.
Definition pop_adj (st : state) : bool * state :=
  let o := st_orc st in
  match o_adj o with
  | [] => (false, st)
  | b :: t => (b, set_orc st (mkOracle (o_ev o) (o_mf o) (o_rf o) t (o_al o)))
  end.
Definition pop_al (st : state) : bool * state :=
  let o := st_orc st in
  match o_al o with
  | [] => (false, st)
  | b :: t => (b, set_orc st (mkOracle (o_ev o) (o_mf o) (o_rf o) (o_adj o) t))
  end.

Definition alloc1 (st : state) : state := set_live st (st_live st + 1).
Definition free1 (st : state) : state := set_live st (st_live st - 1).

Definition MAX_EMBED_FCES : N := 2.
Definition OFF_T_MAX : N := 2 ^ 63 - 1.

Inductive gres := GOk (f : fce) | GErr (s : status).

Inductive geometry :=
| GEmpty              (* len = 0: data = NULL, nent = 0 *)
| Embedded (n : N)    (* 1 <= nent <= MAX_EMBED_FCES: embed_fces *)
| Array (n : N)       (* nent > MAX_EMBED_FCES: malloc'ed fces *)
| Copied.             (* nent = 0, data malloc'ed *)

(** [struct fcache_chunk] after a successful [fcache_get_chunk]:
    [ch_data] = what [data[0..len)] yields when read. *)
Record chunk := mkChunk { ch_data : list mbyte; ch_geom : geometry; ch_held : list fce }.

Inductive chunk_res :=
| ChOk (c : chunk)
| ChErr (s : status)
| ChSigbus       (* a memcpy touched a page beyond the EOF page of a mapping *)
| ChOOB          (* an entry written past embed_fces[]/fces[] *)
| ChFuel.        (* the model's loop bound was too small (never: proved) *)

Inductive outcome :=
| OutData (bytes : list N) (g : geometry)   (* OK; the caller has read all [len] bytes *)
| OutErr (s : status)
| OutDone                                   (* put / policy change *)
| OutSigbus | OutOOB | OutFuel.

Section Fcache.
  (** [fc->pgsz = 2^pgshift], [fc->mmapsz = fc->pgsz << order] *)
  Variable pgshift order : N.

  Definition pgsz : N := 2 ^ pgshift.
  Definition mmapsz : N := N.shiftl pgsz order.

  Section OneFile.
  (** one file of the set: its size and its bytes *)
  Variable filesz : N.
  Variable file : N -> N.

  (** ** Specification (from the meaning: a file is its bytes, zeros after EOF) *)

  Definition sl (o : N) : N := if o <? filesz then file o else 0.
  Definition slice (pos len : N) : list N := map sl (offs pos len).
  (** end of the page that contains the last byte of the file *)
  Definition pageceil (x : N) : N := align_down (x + pgsz - 1) pgsz.

  (** ** The kernel *)

  (** a load from a MAP_SHARED mapping at file offset [o] *)
  Definition mm_byte (o : N) : mbyte :=
    if o <? filesz then Byte (file o)
    else if o <? pageceil filesz then Byte 0
    else Fault.

  (** [pread(fd, buf, pgsz, blkpos)] followed by the [memset] of the tail *)
  Definition read_page (blkpos : N) : list N :=
    let rd := N.min pgsz (filesz - blkpos) in
    map file (offs blkpos rd) ++ repeat 0 (N.to_nat (pgsz - rd)).
  End OneFile.

  (** The file set: [fc->info[fidx].filesz] and the bytes of file [fidx]
      ([fcache_new] refuses more than [pgsz] files, so [fidx < pgsz]). *)
  Variable fsz : N -> N.
  Variable fdata : N -> N -> N.
  (** [true]: the repaired source (#8); [false]: the unrepaired one *)
  Variable clamp_eof : bool.
  (** [true]: the code ([fbcache] key = [blkpos | fidx]); [false]: a variant
      that forgets the file index in [fcache_get_read], to show what the
      key's injectivity is needed for *)
  Variable fb_key_has_fidx : bool.

  (** ** fcache_get_mmap *)
  Definition fcache_get_mmap (fidx : N) (st : state) (pos : N) : gres * state :=
    let filesz := fsz fidx in
    let blkpos := align_down pos pgsz in
    if filesz <=? blkpos then (GErr ERR_NODATA, st) else
    let blkpos := align_down pos mmapsz in
    (* [ce->data]: the mapping made when the entry was filled *)
    let found (mfidx mblk : N) (st' : state) : gres * state :=
      let off := low_bits pos mmapsz in
      let len := mmapsz - off in
      let len := if clamp_eof && (filesz - blkpos <? mmapsz)
                 then align_down (filesz - blkpos + pgsz - 1) pgsz - off
                 else len in
      (GOk (mkFce MM (N.lor blkpos fidx) len
                  (map (mm_byte (fsz mfidx) (fdata mfidx)) (offs (mblk + off) len))
                  (off + len =? mmapsz)), st') in
    let key := N.lor blkpos fidx in                        (* blkpos | fidx *)
    let '(ev, st0) := pop_ev st in
    match store_get key ev (st_mm st0) with
    | Busy => (GErr ERR_BUSY, st0)
    | Hit (MapOk mfidx mblk) mm' => found mfidx mblk (set_mm st0 mm')
    | Hit MapFailed mm' =>                       (* cache_put_entry, then ERR_SYSTEM (repair 47) *)
      (GErr ERR_SYSTEM, set_mm st0 (store_put key mm'))
    | Miss mm' =>
      let '(failed, st1) := pop_mf st0 in
      if failed
      then (GErr ERR_SYSTEM, set_mm st1 (store_put key (store_insert key MapFailed mm')))
      else found fidx blkpos (set_mm st1 (store_insert key (MapOk fidx blkpos) mm'))
    end.

  (** ** fcache_get_read *)
  Definition fcache_get_read (fidx : N) (st : state) (pos : N) : gres * state :=
    let blkpos := align_down pos pgsz in
    let key := if fb_key_has_fidx then N.lor blkpos fidx else blkpos in   (* blkpos | fidx *)
    let found (content : list N) (st' : state) : gres * state :=
      let off := low_bits pos pgsz in
      let len := pgsz - off in
      (GOk (mkFce FB key len
                  (map Byte (firstn (N.to_nat len) (skipn (N.to_nat off) content))) true), st') in
    let '(ev, st0) := pop_ev st in
    match store_get key ev (st_fb st0) with
    | Busy => (GErr ERR_BUSY, st0)
    | Hit c fb' => found c (set_fb st0 fb')
    | Miss fb' =>
      let '(failed, st1) := pop_rf st0 in
      if failed
      then (GErr ERR_SYSTEM, set_fb st1 fb')                   (* cache_discard *)
      else let c := read_page (fsz fidx) (fdata fidx) blkpos in
           found c (set_fb st1 (store_insert key c fb'))
    end.

  (** ** fcache_get *)
  Definition fcache_get (fidx : N) (st : state) (pos : N) : gres * state :=
    let pol := st_policy st in
    match pol with
    | NEVER => fcache_get_read fidx st pos
    | _ =>
      let '(r, st1) := fcache_get_mmap fidx st pos in
      let st2 := match pol with
                 | TRY_ONCE => set_policy st1 (match r with GOk _ => ALWAYS | GErr _ => NEVER end)
                 | _ => st1
                 end in
      match r, pol with
      | GOk _, _ => (r, st2)
      | _, ALWAYS => (r, st2)
      | _, _ => fcache_get_read fidx st2 pos
      end
    end.

  (** ** fcache_put *)
  Definition fcache_put (st : state) (f : fce) : state :=
    match fc_which f with
    | MM => set_mm st (store_put (fc_key f) (st_mm st))
    | FB => set_fb st (store_put (fc_key f) (st_fb st))
    end.

  (** [put_fces]: [while (n--) fcache_put(&fces[n])] *)
  Definition put_all (st : state) (l : list fce) : state :=
    fold_left fcache_put (rev l) st.

  (** ** fcache_pread: [while (len)] with fuel [len + 1] *)
  Fixpoint pread_loop (fidx : N) (fuel : nat) (st : state) (pos len : N) (acc : list N)
    : outcome * state :=
    match fuel with
    | O => (OutFuel, st)
    | S fuel' =>
      if len =? 0 then (OutData acc GEmpty, st) else
      match fcache_get fidx st pos with
      | (GErr s, st1) => (OutErr s, st1)
      | (GOk f, st1) =>
        let partlen := N.min (fc_len f) len in
        match collect (firstn (N.to_nat partlen) (fc_view f)) with     (* memcpy *)
        | None => (OutSigbus, st1)
        | Some bs =>
          pread_loop fidx fuel' (fcache_put st1 f) (pos + partlen) (len - partlen) (acc ++ bs)
        end
      end
    end.

  Definition fcache_pread (fidx : N) (st : state) (pos len : N) : outcome * state :=
    pread_loop fidx (S (N.to_nat len)) st pos len [].

  (** ** fcache_get_chunk *)

  Inductive cmode :=
  | NoCopy (held : list fce)   (* data == NULL; curfce - nent .. curfce - 1 *)
  | Copy (buf : list N).       (* data != NULL: bytes copied so far; curfce == &fce *)

  Definition views (l : list fce) : list mbyte := concat (map fc_view l).

  Definition prev_full (held : list fce) : bool := last (map fc_full held) false.

  Definition release_array (arr : bool) (st : state) : state :=
    if arr then free1 st else st.

  (** The [while (remain)] loop.  [slots]: size of the array [curfce] walks
      over; [arr]: [fces != NULL]. *)
  Fixpoint chunk_loop (fidx : N) (fuel : nat) (st : state) (pos remain : N) (slots : N) (arr : bool)
           (m : cmode) : chunk_res * state :=
    match fuel with
    | O => (ChFuel, st)
    | S fuel' =>
      if remain =? 0 then
        match m with
        | Copy buf => (ChOk (mkChunk (map Byte buf) Copied []), st)
        | NoCopy held =>
          let nent := N.of_nat (length held) in
          if MAX_EMBED_FCES <? nent
          then (if arr then (ChOk (mkChunk (views held) (Array nent) held), st)
                else (ChOOB, st))
          else (ChOk (mkChunk (views held) (Embedded nent) held), release_array arr st)
        end
      else
      if (match m with NoCopy held => slots <=? N.of_nat (length held) | Copy _ => false end)
      then (ChOOB, st) else
      match fcache_get fidx st pos with
      | (GErr s, st1) =>
        match m with
        | Copy _ => (ChErr s, free1 st1)                                  (* #41 *)
        | NoCopy held => (ChErr s, release_array arr (put_all st1 held))
        end
      | (GOk f0, st1) =>
        let l := N.min (fc_len f0) remain in
        let f := mkFce (fc_which f0) (fc_key f0) l
                       (firstn (N.to_nat l) (fc_view f0)) (fc_full f0) in
        match m with
        | Copy buf =>
          match collect (fc_view f) with
          | None => (ChSigbus, st1)
          | Some bs => chunk_loop fidx fuel' (fcache_put st1 f) (pos + l) (remain - l)
                                  slots arr (Copy (buf ++ bs))
          end
        | NoCopy [] => chunk_loop fidx fuel' st1 (pos + l) (remain - l) slots arr (NoCopy [f])
        | NoCopy held =>
          let '(adj, st2) := pop_adj st1 in
          if adj && prev_full held
          then chunk_loop fidx fuel' st2 (pos + l) (remain - l) slots arr (NoCopy (held ++ [f]))
          else
            let '(failed, st3) := pop_al st2 in
            if failed
            then (ChErr ERR_SYSTEM, release_array arr (put_all st3 (held ++ [f])))
            else
              let st4 := alloc1 st3 in
              match collect (views held) with                   (* copy_data *)
              | None => (ChSigbus, st4)
              | Some b0 =>
                let st5 := release_array arr (put_all st4 held) in
                match collect (fc_view f) with
                | None => (ChSigbus, st5)
                | Some b1 => chunk_loop fidx fuel' (fcache_put st5 f) (pos + l) (remain - l)
                                        slots arr (Copy (b0 ++ b1))
                end
              end
        end
      end
    end.

  Definition fcache_get_chunk (fidx : N) (st : state) (pos len : N) : chunk_res * state :=
    if len =? 0 then (ChOk (mkChunk [] GEmpty []), st) else
    if (OFF_T_MAX <? len - 1) || ((0 <? pos) && (OFF_T_MAX - pos <? len - 1))
    then (ChErr ERR_NODATA, st) else                                        (* #72 *)
    let first := align_down pos pgsz in
    let last := align_down (pos + len - 1) pgsz in
    let nent := (last - first) / pgsz + 1 in
    if MAX_EMBED_FCES <? nent then
      let '(failed, st1) := pop_al st in
      if failed then (ChErr ERR_SYSTEM, st1)
      else chunk_loop fidx (S (N.to_nat len)) (alloc1 st1) pos len nent true (NoCopy [])
    else chunk_loop fidx (S (N.to_nat len)) st pos len MAX_EMBED_FCES false (NoCopy []).

  (** ** fcache_put_chunk *)
  Definition fcache_put_chunk (st : state) (c : chunk) : state :=
    match ch_geom c with
    | Array _ => free1 (put_all st (ch_held c))      (* free_fces *)
    | Embedded _ => put_all st (ch_held c)
    | Copied => free1 st                              (* free(fch->data) *)
    | GEmpty => st                                    (* free(NULL) *)
    end.

  (** ** Histories *)

  Inductive op :=
  | OpGet (fidx pos : N) (o : oracle)          (* fcache_get; the entry is kept in a handle *)
  | OpPut (h : nat)                           (* fcache_put of handle h *)
  | OpPread (fidx pos len : N) (o : oracle)
  | OpChunk (fidx pos len : N) (o : oracle)   (* get_chunk, read the data, put_chunk *)
  | OpChunkHold (fidx pos len : N) (o : oracle)
  | OpChunkPut (h : nat)
  | OpPolicy (p : policy).

  Record machine := mkMachine {
    m_st : state;
    m_fces : list (option fce);        (* handles of OpGet, [None] once put *)
    m_chunks : list (option chunk) }.  (* handles of OpChunkHold *)

  Definition init_machine (cap_mm cap_fb : N) : machine :=
    mkMachine (init_state cap_mm cap_fb) [] [].

  Fixpoint clear_nth {A} (n : nat) (l : list (option A)) : list (option A) :=
    match l, n with
    | [], _ => []
    | _ :: t, O => None :: t
    | x :: t, S n' => x :: clear_nth n' t
    end.

  (** reading [data[0..len)] of a chunk *)
  Definition observe_chunk (c : chunk) : outcome :=
    match collect (ch_data c) with
    | Some bs => OutData bs (ch_geom c)
    | None => OutSigbus
    end.

  Definition chunk_err (r : chunk_res) : outcome :=
    match r with
    | ChOk c => observe_chunk c
    | ChErr s => OutErr s
    | ChSigbus => OutSigbus
    | ChOOB => OutOOB
    | ChFuel => OutFuel
    end.

  Definition step (m : machine) (o : op) : outcome * machine :=
    match o with
    | OpGet fidx pos orc =>
      match fcache_get fidx (set_orc (m_st m) orc) pos with
      | (GOk f, st1) =>
        (match collect (fc_view f) with Some bs => OutData bs GEmpty | None => OutSigbus end,
         mkMachine st1 (m_fces m ++ [Some f]) (m_chunks m))
      | (GErr s, st1) => (OutErr s, mkMachine st1 (m_fces m) (m_chunks m))
      end
    | OpPut h =>
      match nth_error (m_fces m) h with
      | Some (Some f) =>
        (OutDone, mkMachine (fcache_put (m_st m) f) (clear_nth h (m_fces m)) (m_chunks m))
      | _ => (OutDone, m)
      end
    | OpPread fidx pos len orc =>
      let '(r, st1) := fcache_pread fidx (set_orc (m_st m) orc) pos len in
      (r, mkMachine st1 (m_fces m) (m_chunks m))
    | OpChunk fidx pos len orc =>
      match fcache_get_chunk fidx (set_orc (m_st m) orc) pos len with
      | (ChOk c, st1) =>
        (observe_chunk c, mkMachine (fcache_put_chunk st1 c) (m_fces m) (m_chunks m))
      | (r, st1) => (chunk_err r, mkMachine st1 (m_fces m) (m_chunks m))
      end
    | OpChunkHold fidx pos len orc =>
      match fcache_get_chunk fidx (set_orc (m_st m) orc) pos len with
      | (ChOk c, st1) =>
        (observe_chunk c, mkMachine st1 (m_fces m) (m_chunks m ++ [Some c]))
      | (r, st1) => (chunk_err r, mkMachine st1 (m_fces m) (m_chunks m))
      end
    | OpChunkPut h =>
      match nth_error (m_chunks m) h with
      | Some (Some c) =>
        (OutDone, mkMachine (fcache_put_chunk (m_st m) c) (m_fces m) (clear_nth h (m_chunks m)))
      | _ => (OutDone, m)
      end
    | OpPolicy p =>
      (OutDone, mkMachine (set_policy (m_st m) p) (m_fces m) (m_chunks m))
    end.

  Definition crashed (o : outcome) : bool :=
    match o with OutSigbus | OutOOB | OutFuel => true | _ => false end.

  (** The process does not survive a crash: the history ends there. *)
  Fixpoint run (m : machine) (h : list op) : list outcome * machine :=
    match h with
    | [] => ([], m)
    | o :: t =>
      let '(r, m1) := step m o in
      if crashed r then ([r], m1)
      else let '(rs, m2) := run m1 t in (r :: rs, m2)
    end.

  (** sum of the reference counts of a sub-cache (what verif_cache_refsum reports) *)
  Definition refsum {C} (s : store C) : N :=
    fold_right (fun e a => e_ref e + a) 0 (s_ents s).
End Fcache.
