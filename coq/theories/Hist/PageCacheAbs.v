(** C04, page cache layer, over an ABSTRACT cache interface.

    The client is read.c [cache_get_page] + [put_page] with a pure fill
    function.  Any cache that satisfies the interface below ("a hit returns
    what was inserted; eviction only forgets") is invisible to that client:
    every read of key [k] returns [fill k], or BUSY.  The interface is meant
    to be instantiated with the list-level model of cache.c; a small
    association-list cache at the end shows the hypotheses are satisfiable. *)
From Coq Require Import NArith List Bool Lia.
Import ListNotations.

Inductive got (H D : Type) := Hit (h : H) (d : D) | Miss (h : H) | Busy.
Arguments Hit {H D}. Arguments Miss {H D}. Arguments Busy {H D}.
Inductive rd (D : Type) := ROk (d : D) | RErr | RBusy.
Arguments ROk {D}. Arguments RErr {D}. Arguments RBusy {D}.

Section PageCacheAbs.

Variables (C H K D : Type).
Variable init : C.
Variable get : C -> K -> C * got H D.          (* cache_get_entry + cache_entry_valid *)
Variable insert : C -> H -> D -> C.            (* fill succeeded: cache_insert *)
Variable discard : C -> H -> C.                (* fill failed: cache_discard *)
Variable put : C -> H -> C.                    (* put_page *)

Variable Inv : C -> Prop.
Variable committed : C -> K -> option D.       (* ghost: what a hit would return *)
Variable pending : C -> H -> K -> Prop.        (* ghost: [h] is an unfilled entry for [k] *)
Variable held : C -> H -> Prop.                (* ghost: [h] is a referenced valid entry *)

(** committed values are never altered, only forgotten *)
Definition shrinks (c c' : C) : Prop :=
  forall k, committed c' k = committed c k \/ committed c' k = None.

Hypothesis init_inv : Inv init.
Hypothesis init_empty : forall k, committed init k = None.
Hypothesis get_ok : forall c k c' g, Inv c -> get c k = (c', g) ->
  Inv c' /\ shrinks c c' /\
  match g with
  | Hit h d => committed c k = Some d /\ held c' h
  | Miss h => pending c' h k
  | Busy => True
  end.
Hypothesis insert_ok : forall c h k d, Inv c -> pending c h k ->
  Inv (insert c h d) /\ held (insert c h d) h /\
  committed (insert c h d) k = Some d /\
  forall k', k' <> k -> committed (insert c h d) k' = committed c k' \/
                        committed (insert c h d) k' = None.
Hypothesis discard_ok : forall c h k, Inv c -> pending c h k ->
  Inv (discard c h) /\ shrinks c (discard c h).
Hypothesis put_ok : forall c h, Inv c -> held c h ->
  Inv (put c h) /\ shrinks c (put c h).

Variable fill : K -> option D.                 (* the format's read_page: pure *)
Hypothesis K_dec : forall a b : K, {a = b} + {a <> b}.

(** read.c: cache_get_page followed by the caller's put_page *)
Definition read (c : C) (k : K) : C * rd D :=
  let '(c1, g) := get c k in
  match g with
  | Hit h d => (put c1 h, ROk d)
  | Miss h =>
      match fill k with
      | Some d => (put (insert c1 h d) h, ROk d)
      | None => (discard c1 h, RErr)
      end
  | Busy => (c1, RBusy)
  end.

Fixpoint run (c : C) (ks : list K) : list (rd D) * C :=
  match ks with
  | [] => ([], c)
  | k :: ks' => let '(c1, r) := read c k in
                let '(rs, c2) := run c1 ks' in (r :: rs, c2)
  end.

Definition pure_answer (k : K) : rd D :=
  match fill k with Some d => ROk d | None => RErr end.

(** every committed value is [fill] of its key *)
Definition Good (c : C) : Prop :=
  Inv c /\ forall k d, committed c k = Some d -> fill k = Some d.

Lemma good_shrinks c c' : Inv c' -> shrinks c c' -> Good c -> Good c'.
Proof.
  intros Hi Hs [_ Hg]. split; [exact Hi|]. intros k d Hc.
  destruct (Hs k) as [E|E]; rewrite E in Hc; [now apply Hg|discriminate].
Qed.

Lemma read_ok c k c' r : Good c -> read c k = (c', r) ->
  Good c' /\ (r = RBusy \/ r = pure_answer k).
Proof.
  intros Hgood. unfold read. destruct (get c k) as [c1 g] eqn:Hget.
  destruct (get_ok _ _ _ _ (proj1 Hgood) Hget) as [Hi1 [Hs1 Hg]].
  pose proof (good_shrinks _ _ Hi1 Hs1 Hgood) as Hgood1.
  destruct g as [h d|h|].
  - destruct Hg as [Hc Hh]. intro E. inversion E; subst c' r; clear E.
    destruct (put_ok _ _ Hi1 Hh) as [Hi2 Hs2].
    split; [now apply good_shrinks with (c := c1)|]. right.
    unfold pure_answer. now rewrite (proj2 Hgood _ _ Hc).
  - unfold pure_answer. destruct (fill k) as [d|] eqn:Hf; intro E; inversion E; subst c' r; clear E.
    + destruct (insert_ok _ _ _ d Hi1 Hg) as [Hi2 [Hh2 [Hck Hoth]]].
      destruct (put_ok _ _ Hi2 Hh2) as [Hi3 Hs3].
      split; [|now right]. apply good_shrinks with (c := insert c1 h d); [exact Hi3|exact Hs3|].
      split; [exact Hi2|]. intros k' d' Hc'. destruct (K_dec k' k) as [E|E].
      * subst k'. congruence.
      * destruct (Hoth k' E) as [E'|E']; rewrite E' in Hc'; [now apply (proj2 Hgood1)|discriminate].
    + destruct (discard_ok _ _ _ Hi1 Hg) as [Hi2 Hs2].
      split; [now apply good_shrinks with (c := c1)|now right].
  - intro E. inversion E; subst c' r; clear E. split; [exact Hgood1|now left].
Qed.

(** ** the theorem: for every history of reads from the initial cache, every
    read answers [fill] of its key (or BUSY), and all committed values are
    [fill] of their keys at the end (hence, by prefixes, throughout) *)
Theorem pagecache_transparent : forall ks,
  Forall2 (fun k r => r = RBusy \/ r = pure_answer k) ks (fst (run init ks)) /\
  Good (snd (run init ks)).
Proof.
  assert (Hgen : forall ks c, Good c ->
    Forall2 (fun k r => r = RBusy \/ r = pure_answer k) ks (fst (run c ks)) /\
    Good (snd (run c ks))).
  { induction ks as [|k ks IH]; intros c Hg; [split; [constructor|exact Hg]|].
    cbn [run]. destruct (read c k) as [c1 r] eqn:Hr.
    destruct (read_ok _ _ _ _ Hg Hr) as [Hg1 Hres].
    destruct (IH c1 Hg1) as [H1 H2]. destruct (run c1 ks) as [rs c2]. cbn [fst snd] in *.
    split; [constructor; assumption|exact H2]. }
  intro ks. apply Hgen. split; [exact init_inv|]. intros k d Hc.
  rewrite init_empty in Hc. discriminate.
Qed.

End PageCacheAbs.

(** * A trivial instance: an association list of at most [cap] pages; on a
    miss with a full list an arbitrary policy [keep] chooses what survives
    (nothing is referenced between two reads of this client) *)
Section Instance.

Variable cap : nat.
Variable keep : list (N * N) -> N -> bool.      (* eviction policy: any function *)

Definition ac := list (N * N).
Fixpoint lookup (c : ac) (k : N) : option N :=
  match c with [] => None | (k0, d) :: c' => if N.eqb k0 k then Some d else lookup c' k end.

Definition a_get (c : ac) (k : N) : ac * got N N :=
  match lookup c k with
  | Some d => (c, Hit k d)
  | None =>
      if Nat.eqb cap 0 then (c, Busy)
      else if Nat.ltb (length c) cap then (c, Miss k)
      else (filter (fun kv => keep c (fst kv)) (tl c), Miss k)
  end.
Definition a_insert (c : ac) (h d : N) : ac := (h, d) :: c.
Definition a_inv (c : ac) : Prop := NoDup (map fst c).
Definition a_pending (c : ac) (h k : N) : Prop := h = k /\ lookup c k = None.

Lemma lookup_notin c k : ~ In k (map fst c) -> lookup c k = None.
Proof.
  induction c as [|[k0 d] c IH]; intro H; [reflexivity|]. cbn in *.
  destruct (N.eqb_spec k0 k); [exfalso; apply H; now left|apply IH; tauto].
Qed.

Lemma filter_keys (f : N * N -> bool) c : incl (map fst (filter f c)) (map fst c).
Proof.
  induction c as [|x c IH]; [easy|]. cbn. destruct (f x); cbn.
  - intros y [E|Hy]; [now left|right; now apply IH].
  - intros y Hy. right. now apply IH.
Qed.

Lemma lookup_filter (f : N -> bool) c k : a_inv c ->
  lookup (filter (fun kv => f (fst kv)) c) k = lookup c k \/
  lookup (filter (fun kv => f (fst kv)) c) k = None.
Proof.
  induction c as [|[k0 d] c IH]; intro Hnd; [now left|].
  inversion Hnd as [|? ? Hni Hnd']; subst. cbn [filter fst].
  destruct (f k0); cbn [lookup]; destruct (N.eqb_spec k0 k) as [E|E]; auto.
  subst k0. right. apply lookup_notin. intro Hin. apply Hni. exact (filter_keys _ c _ Hin).
Qed.

Lemma filter_nodup (f : N * N -> bool) c : a_inv c -> a_inv (filter f c).
Proof.
  unfold a_inv. induction c as [|x c IH]; intro H; [constructor|].
  inversion H as [|? ? Hni Hnd]; subst. cbn. destruct (f x); cbn; [|now apply IH].
  constructor; [|now apply IH]. intro Hin. apply Hni. exact (filter_keys f c _ Hin).
Qed.

Theorem instance_transparent (fill : N -> option N) : forall ks,
  Forall2 (fun k r => r = RBusy \/ r = pure_answer _ _ fill k) ks
    (fst (run _ _ _ _ a_get a_insert (fun c _ => c) (fun c _ => c) fill [] ks)).
Proof.
  intro ks.
  refine (proj1 (pagecache_transparent ac N N N [] a_get a_insert (fun c _ => c) (fun c _ => c)
            a_inv lookup a_pending (fun _ _ => True) _ _ _ _ _ _ fill N.eq_dec ks)).
  - constructor.
  - reflexivity.
  - intros c k c' g Hi. unfold a_get. destruct (lookup c k) as [d|] eqn:Hl.
    + intro E. inversion E; subst. repeat split; auto. intro; now left.
    + destruct (Nat.eqb cap 0); [intro E; inversion E; subst; repeat split; auto; intro; now left|].
      destruct (Nat.ltb (length c) cap); intro E; inversion E; subst.
      * repeat split; auto. intro; now left.
      * destruct c as [|[k0 d0] c]; [repeat split; auto; intro; now left|]. cbn [tl].
        inversion Hi as [|? ? Hni Hnd]; subst. fold (a_inv c) in Hnd.
        split; [now apply filter_nodup|]. cbn [lookup] in Hl.
        destruct (N.eqb_spec k0 k) as [E1|E1]; [discriminate|].
        split; [|split; [reflexivity|]].
        -- intro k'. destruct (lookup_filter (keep ((k0, d0) :: c)) c k' Hnd) as [E2|E2]; [|now right].
           cbn [lookup]. destruct (N.eqb_spec k0 k') as [E3|E3]; [right|now left].
           subst k'. apply lookup_notin. intro Hin. apply Hni. exact (filter_keys _ c _ Hin).
        -- destruct (lookup_filter (keep ((k0, d0) :: c)) c k Hnd) as [E2|E2]; congruence.
  - intros c h k d Hi [Eh Hl]. subst h. unfold a_insert. split; [|split; [exact I|split]].
    + constructor; [|exact Hi]. intro Hin. apply in_map_iff in Hin as [[k1 d1] [E Hin]].
      cbn in E. subst k1. clear Hi. induction c as [|[k2 d2] c IH]; [easy|]. cbn in Hl.
      destruct (N.eqb_spec k2 k); [discriminate|]. destruct Hin as [E|Hin]; [congruence|auto].
    + cbn. now rewrite N.eqb_refl.
    + intros k' Hk. left. cbn. destruct (N.eqb_spec k k'); [congruence|reflexivity].
  - intros c h k Hi _. split; [exact Hi|intro; now left].
  - intros c h Hi _. split; [exact Hi|intro; now left].
Qed.

End Instance.

(** capacity 2, policy "forget everything": keys 1 2 3 1, key 3 unreadable *)
Example instance_run :
  fst (run _ _ _ _ (a_get 2 (fun _ _ => false)) a_insert (fun c _ => c) (fun c _ => c)
         (fun k => if N.eqb k 3 then None else Some (k * 16)%N) [] [1; 2; 1; 3; 4; 1]%N)
  = [ROk 16; ROk 32; ROk 16; RErr; ROk 64; ROk 16]%N.
Proof. vm_compute. reflexivity. Qed.

(** * The same interface with a relational ghost (added for the C06 instance)

    [holds c k d]: "some buffer of the cache is known to contain the data [d]
    inserted for key [k]".  A function [committed] as above is the special
    case [holds c k d := committed c k = Some d]; the relational form does
    not ask the instance to prove that at most one buffer is labelled with a
    key.  The client, [read], [run] and [pure_answer] are the ones above.

    A second ghost, [idle] / [sole], states the reference discipline of a
    single-threaded reader: between two reads no reference is outstanding,
    inside a read exactly one.  Under it a lookup is never refused. *)
Section PageCacheRel.

Variables (C H K D : Type).
Variable init : C.
Variable get : C -> K -> C * got H D.
Variable insert : C -> H -> D -> C.
Variable discard : C -> H -> C.
Variable put : C -> H -> C.

Variable Inv : C -> Prop.
Variable holds : C -> K -> D -> Prop.
Variable pending : C -> H -> K -> Prop.
Variable held : C -> H -> Prop.

(** known contents are never altered, only forgotten *)
Definition forgets (c c' : C) : Prop := forall k d, holds c' k d -> holds c k d.

Hypothesis init_inv : Inv init.
Hypothesis init_empty : forall k d, ~ holds init k d.
Hypothesis get_ok : forall c k c' g, Inv c -> get c k = (c', g) ->
  Inv c' /\ forgets c c' /\
  match g with
  | Hit h d => holds c k d /\ held c' h
  | Miss h => pending c' h k
  | Busy => True
  end.
Hypothesis insert_ok : forall c h k d, Inv c -> pending c h k ->
  Inv (insert c h d) /\ held (insert c h d) h /\
  forall k' d', holds (insert c h d) k' d' -> (k' = k /\ d' = d) \/ holds c k' d'.
Hypothesis discard_ok : forall c h k, Inv c -> pending c h k ->
  Inv (discard c h) /\ forgets c (discard c h).
Hypothesis put_ok : forall c h, Inv c -> held c h ->
  Inv (put c h) /\ forgets c (put c h).

Variable fill : K -> option D.

Definition GoodR (c : C) : Prop :=
  Inv c /\ forall k d, holds c k d -> fill k = Some d.

Lemma goodr_forgets c c' : Inv c' -> forgets c c' -> GoodR c -> GoodR c'.
Proof. intros Hi Hf [_ Hg]. split; [exact Hi|]. intros k d Hh. apply Hg, Hf, Hh. Qed.

Lemma read_ok_rel c k c' r : GoodR c -> read C H K D get insert discard put fill c k = (c', r) ->
  GoodR c' /\ (r = RBusy \/ r = pure_answer K D fill k).
Proof.
  intros Hgood. unfold read. destruct (get c k) as [c1 g] eqn:Hget.
  destruct (get_ok _ _ _ _ (proj1 Hgood) Hget) as [Hi1 [Hs1 Hg]].
  pose proof (goodr_forgets _ _ Hi1 Hs1 Hgood) as Hgood1.
  destruct g as [h d|h|].
  - destruct Hg as [Hc Hh]. intro E. inversion E; subst c' r; clear E.
    destruct (put_ok _ _ Hi1 Hh) as [Hi2 Hs2].
    split; [now apply goodr_forgets with (c := c1)|]. right.
    unfold pure_answer. now rewrite (proj2 Hgood _ _ Hc).
  - unfold pure_answer. destruct (fill k) as [d|] eqn:Hf; intro E; inversion E; subst c' r; clear E.
    + destruct (insert_ok _ _ _ d Hi1 Hg) as [Hi2 [Hh2 Hoth]].
      destruct (put_ok _ _ Hi2 Hh2) as [Hi3 Hs3].
      split; [|now right]. apply goodr_forgets with (c := insert c1 h d); [exact Hi3|exact Hs3|].
      split; [exact Hi2|]. intros k' d' Hc'.
      destruct (Hoth k' d' Hc') as [[-> ->]|Hold]; [exact Hf|now apply (proj2 Hgood1)].
    + destruct (discard_ok _ _ _ Hi1 Hg) as [Hi2 Hs2].
      split; [now apply goodr_forgets with (c := c1)|now right].
  - intro E. inversion E; subst c' r; clear E. split; [exact Hgood1|now left].
Qed.

Theorem pagecache_transparent_rel : forall ks,
  Forall2 (fun k r => r = RBusy \/ r = pure_answer K D fill k) ks
          (fst (run C H K D get insert discard put fill init ks)) /\
  GoodR (snd (run C H K D get insert discard put fill init ks)).
Proof.
  assert (Hgen : forall ks c, GoodR c ->
    Forall2 (fun k r => r = RBusy \/ r = pure_answer K D fill k) ks
            (fst (run C H K D get insert discard put fill c ks)) /\
    GoodR (snd (run C H K D get insert discard put fill c ks))).
  { induction ks as [|k ks IH]; intros c Hg; [split; [constructor|exact Hg]|].
    cbn [run]. destruct (read C H K D get insert discard put fill c k) as [c1 r] eqn:Hr.
    destruct (read_ok_rel _ _ _ _ Hg Hr) as [Hg1 Hres].
    destruct (IH c1 Hg1) as [H1 H2].
    destruct (run C H K D get insert discard put fill c1 ks) as [rs c2]. cbn [fst snd] in *.
    split; [constructor; assumption|exact H2]. }
  intro ks. apply Hgen. split; [exact init_inv|]. intros k d Hc. exfalso. exact (init_empty k d Hc).
Qed.

(** ** the single-threaded reference discipline: never BUSY *)
Variable idle : C -> Prop.                     (* no reference outstanding *)
Variable sole : C -> H -> Prop.                (* [h] is the only reference outstanding *)

Hypothesis init_idle : idle init.
Hypothesis get_idle : forall c k c' g, Inv c -> idle c -> get c k = (c', g) ->
  match g with
  | Hit h _ => sole c' h
  | Miss h => sole c' h
  | Busy => False
  end.
Hypothesis insert_sole : forall c h k d, Inv c -> pending c h k -> sole c h -> sole (insert c h d) h.
Hypothesis discard_idle : forall c h k, Inv c -> pending c h k -> sole c h -> idle (discard c h).
Hypothesis put_idle : forall c h, Inv c -> held c h -> sole c h -> idle (put c h).

Lemma read_idle c k c' r : GoodR c -> idle c ->
  read C H K D get insert discard put fill c k = (c', r) ->
  GoodR c' /\ idle c' /\ r = pure_answer K D fill k.
Proof.
  intros Hgood Hidle Hr. destruct (read_ok_rel _ _ _ _ Hgood Hr) as [Hg' Hres].
  unfold read in Hr. destruct (get c k) as [c1 g] eqn:Hget.
  destruct (get_ok _ _ _ _ (proj1 Hgood) Hget) as [Hi1 [_ Hg]].
  pose proof (get_idle _ _ _ _ (proj1 Hgood) Hidle Hget) as Hso.
  destruct g as [h d|h|]; [| |contradiction].
  - destruct Hg as [Hc Hh]. inversion Hr; subst c' r; clear Hr.
    split; [exact Hg'|]. split; [now apply put_idle|].
    unfold pure_answer. now rewrite (proj2 Hgood _ _ Hc).
  - unfold pure_answer in *. destruct (fill k) as [d|] eqn:Hf; inversion Hr; subst c' r; clear Hr.
    + destruct (insert_ok _ _ _ d Hi1 Hg) as [Hi2 [Hh2 _]].
      split; [exact Hg'|]. split; [|reflexivity].
      apply put_idle; [exact Hi2|exact Hh2|]. now apply insert_sole with (k := k).
    + split; [exact Hg'|]. split; [|reflexivity]. now apply discard_idle with (k := k).
Qed.

Theorem pagecache_never_busy : forall ks,
  Forall2 (fun k r => r = pure_answer K D fill k) ks
          (fst (run C H K D get insert discard put fill init ks)).
Proof.
  assert (Hgen : forall ks c, GoodR c -> idle c ->
    Forall2 (fun k r => r = pure_answer K D fill k) ks
            (fst (run C H K D get insert discard put fill c ks))).
  { induction ks as [|k ks IH]; intros c Hg Hid; [constructor|].
    cbn [run]. destruct (read C H K D get insert discard put fill c k) as [c1 r] eqn:Hr.
    destruct (read_idle _ _ _ _ Hg Hid Hr) as [Hg1 [Hid1 Hres]].
    pose proof (IH c1 Hg1 Hid1) as H1.
    destruct (run C H K D get insert discard put fill c1 ks) as [rs c2]. cbn [fst] in *.
    constructor; assumption. }
  intro ks. apply Hgen; [|exact init_idle]. split; [exact init_inv|].
  intros k d Hc. exfalso. exact (init_empty k d Hc).
Qed.

End PageCacheRel.
