(** Proofs about the block split of the LKCD PFN index ([Hist/LkcdSplit.v]).

    Code without fixes/84 ([cut_runs v = false], the library's copy loop):
    - [lkcd_split_lookup_exact]   every lookup after a successful split, as a function of the
                                  original block ([lookup_after_split]); the scanned page is free
    - [lkcd_split_lookup_iff]     a lookup survives iff its slot is a kept gap or lies behind the
                                  tail's first page in the file ([slot_ok]): the strongest true
                                  statement, valid for /repo HEAD ([pinned]) and the repaired code
    - [lkcd_split_preserves_lookup]  main theorem, repaired code (82 + 83), hypothesis
                                  [tail_ordered]; [lkcd_split_preserves_denote] the same for the
                                  finite map [denote] (via [chain_lookup_denote])
    - [lkcd_split_wellformed], [lkcd_split_total]
    - [lkcd_split_preserves_lookup_refuted] (/repo HEAD: gap of the tail),
      [lkcd_split_unordered_tail_refuted] (repaired code without [tail_ordered]),
      [lkcd_split_seeded_change_refuted] (seeded change C04-a2), [lkcd_split_nonvacuous]
    - boundaries: [lkcd_split_pinned_idx1_never_ok] / [lkcd_split_pinned_idx1_frees] (idx = 1,
      realloc(ptr, 0)), [lkcd_split_idx0_count] (idx = 0: n = 65535),
      [lkcd_split_head_realloc_failure]
    Code with the proposed fixes/84 ([cut_runs v = true]):
    - [lkcd_split84_preserves_lookup] (no ordering hypothesis; also sortedness and
      well-formedness of the result), [lkcd_split84_total]. *)
From Coq Require Import Arith NArith List Bool Lia.
From KdV Require Import Hist.LkcdSplit.
Import ListNotations.
Local Open Scope N_scope.

(** * Lists *)

Lemma length_resize : forall k l, length (resize k l) = k.
Proof.
  induction k as [|k IH]; intros l; cbn [resize]; [reflexivity|].
  destruct l; cbn [length]; now rewrite IH.
Qed.

Lemma nth_error_nil : forall (A : Type) i, nth_error (@nil A) i = None.
Proof. intros A i; now destruct i. Qed.

Lemma nth_error_resize : forall k l i,
  nth_error (resize k l) i = if (i <? k)%nat then Some (nth i l 0) else None.
Proof.
  induction k as [|k IH]; intros l i; cbn [resize].
  - now rewrite nth_error_nil.
  - destruct l as [|x r]; destruct i as [|i]; cbn [nth_error nth]; try reflexivity.
    + rewrite IH. change (S i <? S k)%nat with (i <? k)%nat.
      destruct (i <? k)%nat; [|reflexivity]. now destruct i.
    + rewrite IH. reflexivity.
Qed.

Lemma resize_same : forall l, resize (length l) l = l.
Proof. induction l as [|x r IH]; cbn [length resize]; [reflexivity|now rewrite IH]. Qed.

Lemma nth_error_skipn_add : forall (A : Type) s (l : list A) i,
  nth_error (skipn s l) i = nth_error l (s + i).
Proof.
  induction s as [|s IH]; intros l i; [reflexivity|].
  destruct l as [|x r]; cbn [skipn plus nth_error]; [now rewrite nth_error_nil|apply IH].
Qed.

Lemma skipn_nth_cons : forall (A : Type) k (l : list A) x,
  nth_error l k = Some x -> skipn k l = x :: skipn (S k) l.
Proof.
  induction k as [|k IH]; intros l x H; destruct l as [|y r]; cbn [nth_error] in H; try discriminate.
  - now inversion H.
  - cbn [skipn]. now apply IH.
Qed.

Lemma nth_error_nth_some : forall (l : list N) i v, nth_error l i = Some v -> nth i l 0 = v.
Proof.
  induction l as [|x r IH]; intros i v H; destruct i; cbn in *; try discriminate.
  - now inversion H.
  - now apply IH.
Qed.

Lemma nth_overflow0 : forall (l : list N) i, (length l <= i)%nat -> nth i l 0 = 0.
Proof. intros l i H; now apply nth_overflow. Qed.

(** * Array reads *)

Lemma rd_some_lt : forall l i v, rd l i = Some v -> i < N.of_nat (length l).
Proof.
  intros l i v H. unfold rd in H.
  assert (Hn : nth_error l (N.to_nat i) <> None) by (rewrite H; discriminate).
  apply nth_error_Some in Hn. lia.
Qed.

Lemma rd_lt_some : forall l i, i < N.of_nat (length l) -> exists v, rd l i = Some v.
Proof.
  intros l i H. unfold rd. destruct (nth_error l (N.to_nat i)) eqn:E; [now eexists|].
  apply nth_error_None in E. lia.
Qed.

Lemma rd_resize : forall k l i,
  rd (resize k l) i = if i <? N.of_nat k then Some (nth (N.to_nat i) l 0) else None.
Proof.
  intros k l i. unfold rd. rewrite nth_error_resize.
  destruct (N.ltb_spec i (N.of_nat k)); destruct (Nat.ltb_spec (N.to_nat i) k); try reflexivity; lia.
Qed.

Lemma rd_map_skipn : forall (f : N -> N) s l i,
  rd (map f (skipn s l)) i = option_map f (rd l (N.of_nat s + i)).
Proof.
  intros f s l i. unfold rd. rewrite nth_error_map, nth_error_skipn_add.
  replace (N.to_nat (N.of_nat s + i)) with (s + N.to_nat i)%nat by lia. reflexivity.
Qed.

(** * The scan over the gap behind the split point *)

Lemma u16_small : forall x, x < U16 -> u16 x = x.
Proof. intros x H. unfold u16. now apply N.mod_small. Qed.

Lemma scan_gap_spec : forall fuel l i,
  N.of_nat (length l) < U16 ->
  N.of_nat (length l) < i + N.of_nat fuel ->
  exists p, scan_gap fuel l (N.of_nat (length l)) i = Some p /\ i <= p /\
    (forall q, i <= q -> q < p -> rd l q = Some 0) /\
    (p < N.of_nat (length l) -> exists v, rd l p = Some v /\ v <> 0) /\
    (N.of_nat (length l) <= p -> N.of_nat (length l) <= i -> p = i).
Proof.
  induction fuel as [|f IH]; intros l i Hn Hf; cbn [scan_gap].
  - exists i. repeat split; try lia; intros; lia.
  - destruct (N.ltb_spec i (N.of_nat (length l))) as [Hlt|Hge].
    + destruct (rd_lt_some l i Hlt) as [v Hv]. rewrite Hv.
      destruct (N.eqb_spec v 0) as [Hz|Hnz].
      * rewrite u16_small by (unfold U16 in *; lia).
        destruct (IH l (i + 1) Hn) as [p [Hp [Hle [Hzero [Hk Hend]]]]]; [lia|].
        exists p. split; [exact Hp|]. split; [lia|]. split; [|split; [exact Hk|lia]].
        intros q H1 H2. destruct (N.eq_dec q i) as [->|Hne]; [now subst v|]. apply Hzero; lia.
      * exists i. split; [reflexivity|]. split; [lia|]. split; [intros q H1 H2; lia|].
        split; [intros _; now exists v|lia].
    + exists i. repeat split; try lia; intros; lia.
Qed.

Lemma first_known_from_some : forall d l pos0 v,
  (forall q, (q < d)%nat -> nth_error l q = Some 0) ->
  nth_error l d = Some v -> v <> 0 ->
  first_known_from l pos0 = Some (pos0 + N.of_nat d).
Proof.
  induction d as [|d IH]; intros l pos0 v Hz Hd Hv; destruct l as [|x r]; cbn [nth_error] in Hd; try discriminate.
  - inversion Hd; subst x. cbn [first_known_from]. destruct (N.eqb_spec v 0); [contradiction|].
    f_equal. lia.
  - cbn [first_known_from]. assert (Hx : x = 0).
    { specialize (Hz O ltac:(lia)). cbn in Hz. now inversion Hz. }
    subst x. cbn [N.eqb]. rewrite (IH r (pos0 + 1) v); [f_equal; lia| |exact Hd|exact Hv].
    intros q Hq. apply (Hz (S q)). lia.
Qed.

Lemma first_known_from_none : forall l pos0,
  (forall q v, nth_error l q = Some v -> v = 0) -> first_known_from l pos0 = None.
Proof.
  induction l as [|x r IH]; intros pos0 Hz; cbn [first_known_from]; [reflexivity|].
  rewrite (Hz O x eq_refl). cbn [N.eqb]. apply IH. intros q v Hq. now apply (Hz (S q)).
Qed.

Lemma first_known_some : forall l i p v,
  i <= p -> (forall q, i <= q -> q < p -> rd l q = Some 0) -> rd l p = Some v -> v <> 0 ->
  first_known l i = Some p.
Proof.
  intros l i p v Hle Hz Hp Hv. unfold first_known.
  rewrite (first_known_from_some (N.to_nat (p - i)) _ i v); [f_equal; lia| | |exact Hv].
  - intros q Hq. rewrite nth_error_skipn_add.
    specialize (Hz (i + N.of_nat q) ltac:(lia) ltac:(lia)). unfold rd in Hz.
    replace (N.to_nat (i + N.of_nat q)) with (N.to_nat i + q)%nat in Hz by lia. exact Hz.
  - rewrite nth_error_skipn_add. unfold rd in Hp.
    replace (N.to_nat i + N.to_nat (p - i))%nat with (N.to_nat p) by lia. exact Hp.
Qed.

Lemma first_known_none : forall l i,
  (forall q, i <= q -> q < N.of_nat (length l) -> rd l q = Some 0) -> first_known l i = None.
Proof.
  intros l i Hz. unfold first_known. apply first_known_from_none.
  intros q v Hq. rewrite nth_error_skipn_add in Hq.
  assert (Hlt : (N.to_nat i + q < length l)%nat).
  { apply nth_error_Some. rewrite Hq. discriminate. }
  specialize (Hz (i + N.of_nat q) ltac:(lia) ltac:(lia)). unfold rd in Hz.
  replace (N.to_nat (i + N.of_nat q)) with (N.to_nat i + q)%nat in Hz by lia.
  rewrite Hz in Hq. now inversion Hq.
Qed.

(** * The copy loop of the library *)

Lemma copy_loop_literal : forall v src bo cnt i p,
  copy_literal v = true ->
  N.of_nat (length src) < U16 ->
  (N.to_nat p + cnt < length src)%nat ->
  copy_loop v src bo cnt i p =
  Some (map (tail_entry v bo) (firstn cnt (skipn (S (N.to_nat p)) src))).
Proof.
  intros v src bo cnt. induction cnt as [|c IH]; intros i p Hlit Hn Hlen; cbn [copy_loop].
  - reflexivity.
  - rewrite Hlit. rewrite u16_small by (unfold U16 in *; lia).
    destruct (rd_lt_some src (p + 1) ltac:(lia)) as [x Hx]. rewrite Hx.
    rewrite (IH _ (p + 1) Hlit Hn) by lia.
    unfold rd in Hx. replace (N.to_nat (p + 1)) with (S (N.to_nat p)) in * by lia.
    rewrite (skipn_nth_cons _ _ _ _ Hx). reflexivity.
Qed.

(** * What a successful split produces *)

Definition head_of (b : block) (idx : N) : block :=
  {| filepos := filepos b; idx3 := idx3 b; offs := resize (N.to_nat (idx - 1)) (offs b) |}.

Definition tail_of (v : variant) (b : block) (p bo : N) : block :=
  {| filepos := filepos b + bo; idx3 := idx3 b + p + 1;
     offs := map (tail_entry v bo) (skipn (S (N.to_nat p)) (offs b)) |}.

Lemma wf_rd : forall b k x, wf_block b -> rd (offs b) k = Some x ->
  x < U32 /\ filepos b + x < OFF_LIMIT.
Proof.
  intros b k x [_ [_ Hall]] Hk. rewrite Forall_forall in Hall.
  apply Hall. unfold rd in Hk. eapply nth_error_In; eassumption.
Qed.

Lemma realloc_ok_resize : forall v f l k l',
  realloc_pfn_offs v f l k = ROk l' -> l' = resize (N.to_nat k) l.
Proof.
  intros v f l k l' H. unfold realloc_pfn_offs in H.
  destruct (N.eqb_spec k (N.of_nat (length l))) as [He|_].
  - inversion H; subst l'. subst k. rewrite Nat2N.id. symmetry; apply resize_same.
  - destruct (N.eqb_spec k 0) as [Hz|_].
    + destruct (free_on_zero v); [|discriminate]. inversion H; subst. reflexivity.
    + destruct f; [discriminate|]. now inversion H.
Qed.

Lemma u16_dec_small : forall x, 1 <= x -> x < U16 -> u16_dec x = x - 1.
Proof.
  intros x H1 H2. unfold u16_dec. rewrite (N.mod_small x) by exact H2.
  replace (x + U16 - 1) with ((x - 1) + 1 * U16) by lia.
  rewrite N.mod_add by (unfold U16; lia). apply N.mod_small. lia.
Qed.

Lemma split_shape : forall v o b idx ch,
  copy_literal v = true -> cut_runs v = false ->
  wf_block b -> 1 <= idx -> idx3 b + idx < PFN_IDX3_SIZE ->
  split_pfn_block v o b idx = SplitOk ch ->
  exists p, idx <= p /\ (forall q, idx <= q -> q < p -> rd (offs b) q = Some 0) /\
    ((blk_n b <= p /\ (forall q, idx <= q -> q < blk_n b -> rd (offs b) q = Some 0) /\
      ch = [head_of b idx]) \/
     (exists bo, p < blk_n b /\ rd (offs b) p = Some bo /\ bo <> 0 /\
                 ch = [head_of b idx; tail_of v b p bo])).
Proof.
  intros v o b idx ch Hlit Hcut Hwf H1 Hidx H.
  pose proof Hwf as [Hn [Hfp Hall]].
  unfold PFN_IDX3_SIZE in *. unfold blk_n in *.
  assert (Hn16 : N.of_nat (length (offs b)) < U16) by (unfold U16; lia).
  unfold split_pfn_block in H. unfold blk_n in H. rewrite Hcut in H.
  rewrite u16_small in H by (unfold U16; lia).
  destruct (scan_gap_spec (S (length (offs b))) (offs b) idx Hn16 ltac:(lia))
    as [p [Hp [Hle [Hzero [Hk Hend]]]]].
  rewrite Hp in H. exists p. split; [exact Hle|]. split; [exact Hzero|].
  rewrite u16_dec_small in H by (unfold U16; lia).
  destruct (N.ltb_spec p (N.of_nat (length (offs b)))) as [Hlt|Hge].
  - right. destruct (Hk Hlt) as [bo [Hbo Hnz]]. exists bo.
    unfold alloc_tail_pfn_block in H. unfold blk_n in H.
    destruct (fail_malloc o); [discriminate|].
    rewrite (N.mod_small (N.of_nat (length (offs b)))) in H by exact Hn16.
    rewrite (N.mod_small p) in H by lia.
    replace ((N.of_nat (length (offs b)) + 2 * U16 - p - 1) mod U16)
      with (N.of_nat (length (offs b)) - p - 1) in H.
    2:{ replace (N.of_nat (length (offs b)) + 2 * U16 - p - 1)
          with ((N.of_nat (length (offs b)) - p - 1) + 2 * U16) by lia.
        rewrite N.mod_add by (unfold U16; lia). symmetry; apply N.mod_small. lia. }
    destruct (realloc_pfn_offs v (fail_tail o) [] (N.of_nat (length (offs b)) - p - 1));
      try discriminate.
    rewrite Hbo in H.
    destruct (wf_rd b p bo Hwf Hbo) as [Hbo32 Hbofp].
    destruct (N.leb_spec OFF_LIMIT (filepos b + bo)); [lia|].
    rewrite (copy_loop_literal v (offs b) bo _ 0 p Hlit Hn16) in H by lia.
    destruct (realloc_pfn_offs v (fail_head o) (offs b) (idx - 1)) eqn:Hh; try discriminate.
    apply realloc_ok_resize in Hh. inversion H; subst ch.
    repeat split; try assumption.
    unfold head_of, tail_of. subst l0. f_equal. f_equal. f_equal.
    + unfold U32. apply N.mod_small. lia.
    + f_equal. apply firstn_all2. rewrite skipn_length. lia.
  - left. split; [exact Hge|]. split.
    + intros q Hq1 Hq2. apply Hzero; lia.
    + destruct (realloc_pfn_offs v (fail_head o) (offs b) (idx - 1)) eqn:Hh; try discriminate.
      apply realloc_ok_resize in Hh. inversion H; subst ch. subst l. reflexivity.
Qed.

(** * Lookups in a chain *)

Lemma chain_lookup_below : forall c rest j,
  j < idx3 c -> chain_lookup (c :: rest) j = LkNone.
Proof.
  intros c rest j H. unfold chain_lookup. cbn [lookup_pfn_block].
  destruct (N.ltb_spec j (idx3 c)); [reflexivity|lia].
Qed.

Lemma chain_lookup_here : forall c rest j,
  idx3 c <= j -> j <= idx3 c + blk_n c -> idx3 c + blk_n c < U32 -> next_le rest j = false ->
  chain_lookup (c :: rest) j = block_off c j.
Proof.
  intros c rest j H1 H2 H3 H4. unfold chain_lookup. cbn [lookup_pfn_block].
  destruct (N.ltb_spec j (idx3 c)); [lia|].
  rewrite N.add_0_r, (N.mod_small _ _ H3), H4.
  destruct (N.leb_spec j (idx3 c + blk_n c)); [reflexivity|lia].
Qed.

Lemma chain_lookup_skip : forall c rest j,
  idx3 c <= j -> idx3 c + blk_n c < U32 -> idx3 c + blk_n c < j \/ next_le rest j = true ->
  chain_lookup (c :: rest) j = chain_lookup rest j.
Proof.
  intros c rest j H1 H3 H4. unfold chain_lookup. cbn [lookup_pfn_block].
  destruct (N.ltb_spec j (idx3 c)); [lia|].
  rewrite N.add_0_r, (N.mod_small _ _ H3).
  destruct H4 as [H4|H4].
  - destruct (N.leb_spec j (idx3 c + blk_n c)); [lia|reflexivity].
  - rewrite H4. now rewrite andb_false_r.
Qed.

Lemma chain_lookup_before : forall post j,
  match post with [] => True | nb :: _ => j < idx3 nb end -> chain_lookup post j = LkNone.
Proof.
  intros [|nb r] j H; [reflexivity|]. now apply chain_lookup_below.
Qed.

Lemma next_le_false : forall post j,
  match post with [] => True | nb :: _ => j < idx3 nb end -> next_le post j = false.
Proof.
  intros [|nb r] j H; cbn [next_le]; [reflexivity|]. destruct (N.leb_spec (idx3 nb) j); [lia|reflexivity].
Qed.

(* blocks in front of the one that is split: only the idx3 of the block that follows them
   enters their part of the walk *)
Lemma chain_lookup_prefix : forall pre x xs y ys j,
  idx3 x = idx3 y ->
  chain_lookup (x :: xs) j = chain_lookup (y :: ys) j ->
  chain_lookup (pre ++ x :: xs) j = chain_lookup (pre ++ y :: ys) j.
Proof.
  induction pre as [|c pre IH]; intros x xs y ys j Hi H; [exact H|].
  specialize (IH x xs y ys j Hi H).
  assert (Hnl : next_le (pre ++ x :: xs) j = next_le (pre ++ y :: ys) j).
  { destruct pre; cbn [app next_le]; [now rewrite Hi|reflexivity]. }
  unfold chain_lookup in *. cbn [app lookup_pfn_block]. rewrite Hnl.
  destruct (j <? idx3 c); [reflexivity|].
  destruct ((j <=? (idx3 c + blk_n c + 0) mod U32) && negb (next_le (pre ++ y :: ys) j));
    [reflexivity|exact IH].
Qed.

(** * The value of every lookup after a split *)

Lemma blk_n_head_of : forall b idx, blk_n (head_of b idx) = idx - 1.
Proof. intros. unfold blk_n, head_of. cbn [offs]. rewrite length_resize. lia. Qed.

Lemma blk_n_tail_of : forall v b p bo, p < blk_n b -> blk_n (tail_of v b p bo) = blk_n b - p - 1.
Proof.
  intros. unfold blk_n, tail_of in *. cbn [offs]. rewrite map_length, skipn_length. lia.
Qed.

Lemma block_off_head : forall b idx j,
  idx3 b <= j -> j < idx3 b + idx ->
  block_off (head_of b idx) j =
  if j <=? idx3 b + blk_n b then block_off b j else LkNone.
Proof.
  intros b idx j H1 H2. unfold block_off, head_of. cbn [idx3 filepos offs].
  destruct (N.leb_spec j (idx3 b)) as [Hle|Hgt].
  - destruct (N.leb_spec j (idx3 b + blk_n b)); [reflexivity|lia].
  - rewrite rd_resize. destruct (N.ltb_spec (j - idx3 b - 1) (N.of_nat (N.to_nat (idx - 1)))); [|lia].
    unfold blk_n. destruct (N.leb_spec j (idx3 b + N.of_nat (length (offs b)))) as [Hin|Hout].
    + destruct (rd_lt_some (offs b) (j - idx3 b - 1) ltac:(lia)) as [x Hx]. rewrite Hx.
      unfold rd in Hx. now rewrite (nth_error_nth_some _ _ _ Hx).
    + rewrite nth_overflow0 by lia. reflexivity.
Qed.

Definition tail_slot_value (v : variant) (b : block) (p j : N) : lk_res :=
  match rd (offs b) p, rd (offs b) (j - idx3 b - 1) with
  | Some bo, Some vk =>
      let e := tail_entry v bo vk in
      if e =? 0 then LkNone else LkOff (filepos b + bo + e)
  | _, _ => LkOOB
  end.

Lemma block_off_tail : forall v b p bo j,
  rd (offs b) p = Some bo -> idx3 b + p + 1 < j -> j <= idx3 b + blk_n b ->
  block_off (tail_of v b p bo) j = tail_slot_value v b p j.
Proof.
  intros v b p bo j Hbo H1 H2. unfold block_off, tail_of, tail_slot_value. cbn [idx3 filepos offs].
  destruct (N.leb_spec j (idx3 b + p + 1)); [lia|].
  rewrite rd_map_skipn, Hbo.
  replace (N.of_nat (S (N.to_nat p)) + (j - (idx3 b + p + 1) - 1)) with (j - idx3 b - 1) by lia.
  unfold blk_n in H2.
  destruct (rd_lt_some (offs b) (j - idx3 b - 1) ltac:(lia)) as [x Hx]. rewrite Hx. reflexivity.
Qed.

(* the lookups after the split, as a function of the original block *)
Definition lookup_after_split (v : variant) (b : block) (idx : N) (post : list block) (j : N) : lk_res :=
  match first_known (offs b) idx with
  | Some p => if (idx3 b + p + 1 <? j) && (j <=? idx3 b + blk_n b)
              then tail_slot_value v b p j
              else chain_lookup (b :: post) j
  | None => chain_lookup (b :: post) j
  end.

Lemma follows_lt : forall b idx post j,
  follows b idx post -> j <= idx3 b + blk_n b \/ j <= idx3 b + idx ->
  match post with [] => True | nb :: _ => j < idx3 nb end.
Proof. intros b idx [|nb r] j H Hj; [exact I|]. cbn [follows] in H. lia. Qed.

Theorem lkcd_split_lookup_exact : forall v o b post idx ch,
  copy_literal v = true -> cut_runs v = false ->
  wf_block b -> 1 <= idx -> idx3 b + idx < PFN_IDX3_SIZE -> follows b idx post ->
  split_pfn_block v o b idx = SplitOk ch ->
  chain_lookup (ch ++ post) (idx3 b + idx) = LkNone /\
  forall j, j <> idx3 b + idx ->
    chain_lookup (ch ++ post) j = lookup_after_split v b idx post j.
Proof.
  intros v o b post idx ch Hlit Hcut Hwf H1 Hidx Hfol H.
  destruct (split_shape v o b idx ch Hlit Hcut Hwf H1 Hidx H) as [p [Hle [Hzero Hcases]]].
  pose proof Hwf as [Hn [Hfp Hall]]. unfold PFN_IDX3_SIZE in *.
  assert (HU : forall x, x < 4096 -> x < U32) by (unfold U32; lia).
  pose proof (blk_n_head_of b idx) as Hhn.
  assert (Hhead : forall rest j, idx3 b <= j -> j < idx3 b + idx -> next_le rest j = false ->
            chain_lookup (head_of b idx :: rest) j = chain_lookup (b :: post) j).
  { intros rest j Hj1 Hj2 Hnl.
    rewrite chain_lookup_here; [|exact Hj1|rewrite Hhn; cbn [head_of idx3]; lia
                                |rewrite Hhn; cbn [head_of idx3]; apply HU; lia|exact Hnl].
    rewrite block_off_head by assumption.
    destruct (N.leb_spec j (idx3 b + blk_n b)) as [Hin|Hout].
    - rewrite chain_lookup_here; [reflexivity|exact Hj1|exact Hin|apply HU; lia|].
      apply next_le_false. eapply follows_lt; [exact Hfol|lia].
    - rewrite chain_lookup_skip; [|exact Hj1|apply HU; lia|left; lia].
      symmetry. apply chain_lookup_before. eapply follows_lt; [exact Hfol|lia]. }
  assert (Horig_gap : forall j, idx3 b + idx < j -> j <= idx3 b + blk_n b -> j - idx3 b - 1 < p ->
            chain_lookup (b :: post) j = LkNone).
  { intros j Hj1 Hj2 Hj3.
    rewrite chain_lookup_here; [|lia|exact Hj2|apply HU; lia|].
    2:{ apply next_le_false. eapply follows_lt; [exact Hfol|lia]. }
    unfold block_off. destruct (N.leb_spec j (idx3 b)); [lia|].
    rewrite (Hzero (j - idx3 b - 1)) by lia. reflexivity. }
  destruct Hcases as [[Hge [Hzn Hch]]|[bo [Hlt [Hbo [Hnz Hch]]]]]; subst ch.
  - (* no tail *)
    assert (Hfk : first_known (offs b) idx = None) by (apply first_known_none; exact Hzn).
    unfold lookup_after_split. rewrite Hfk. cbn [app]. split.
    + rewrite chain_lookup_skip; [|cbn [head_of idx3]; lia
                                  |rewrite Hhn; cbn [head_of idx3]; apply HU; lia
                                  |left; rewrite Hhn; cbn [head_of idx3]; lia].
      apply chain_lookup_before. eapply follows_lt; [exact Hfol|lia].
    + intros j Hj.
      destruct (N.lt_ge_cases j (idx3 b)) as [Hb|Ha].
      { rewrite !chain_lookup_below; [reflexivity|exact Hb|exact Hb]. }
      destruct (N.lt_ge_cases j (idx3 b + idx)) as [Hh|Hh].
      { apply Hhead; [exact Ha|exact Hh|]. apply next_le_false. eapply follows_lt; [exact Hfol|lia]. }
      rewrite chain_lookup_skip; [|cbn [head_of idx3]; lia
                                  |rewrite Hhn; cbn [head_of idx3]; apply HU; lia
                                  |left; rewrite Hhn; cbn [head_of idx3]; lia].
      destruct (N.le_gt_cases j (idx3 b + blk_n b)) as [Hin|Hout].
      * rewrite Horig_gap; [|lia|exact Hin|lia].
        apply chain_lookup_before. eapply follows_lt; [exact Hfol|lia].
      * rewrite (chain_lookup_skip b); [reflexivity|exact Ha|apply HU; lia|left; lia].
  - (* a tail block *)
    assert (Hfk : first_known (offs b) idx = Some p)
      by (eapply first_known_some; eassumption).
    pose proof (blk_n_tail_of v b p bo Hlt) as Htn.
    unfold lookup_after_split. rewrite Hfk. cbn [app].
    assert (Hnlt : forall j, j < idx3 b + p + 1 -> next_le (tail_of v b p bo :: post) j = false).
    { intros j Hj. cbn [next_le tail_of idx3]. destruct (N.leb_spec (idx3 b + p + 1) j); [lia|reflexivity]. }
    assert (Hskip_head : forall j, idx3 b + idx <= j ->
              chain_lookup (head_of b idx :: tail_of v b p bo :: post) j =
              chain_lookup (tail_of v b p bo :: post) j).
    { intros j Hj. apply chain_lookup_skip; [cbn [head_of idx3]; lia
        |rewrite Hhn; cbn [head_of idx3]; apply HU; lia|left; rewrite Hhn; cbn [head_of idx3]; lia]. }
    split.
    + rewrite Hskip_head by lia. apply chain_lookup_below. cbn [tail_of idx3]. lia.
    + intros j Hj.
      destruct (N.lt_ge_cases j (idx3 b)) as [Hb|Ha].
      { assert (Hc : (idx3 b + p + 1 <? j) && (j <=? idx3 b + blk_n b) = false).
        { destruct (N.ltb_spec (idx3 b + p + 1) j); [lia|reflexivity]. }
        rewrite Hc. rewrite !chain_lookup_below; [reflexivity|exact Hb|exact Hb]. }
      destruct (N.lt_ge_cases j (idx3 b + idx)) as [Hh|Hh].
      { assert (Hc : (idx3 b + p + 1 <? j) && (j <=? idx3 b + blk_n b) = false).
        { destruct (N.ltb_spec (idx3 b + p + 1) j); [lia|reflexivity]. }
        rewrite Hc. apply Hhead; [exact Ha|exact Hh|apply Hnlt; lia]. }
      rewrite Hskip_head by exact Hh.
      destruct (N.lt_ge_cases j (idx3 b + p + 1)) as [Hg|Hg].
      { (* the gap between the scanned page and the tail *)
        assert (Hc : (idx3 b + p + 1 <? j) && (j <=? idx3 b + blk_n b) = false).
        { destruct (N.ltb_spec (idx3 b + p + 1) j); [lia|reflexivity]. }
        rewrite Hc. rewrite chain_lookup_below by (cbn [tail_of idx3]; lia).
        symmetry. apply Horig_gap; lia. }
      destruct (N.le_gt_cases j (idx3 b + blk_n b)) as [Hin|Hout].
      * assert (Hnl : next_le post j = false).
        { apply next_le_false. eapply follows_lt; [exact Hfol|lia]. }
        rewrite chain_lookup_here; [|cbn [tail_of idx3]; lia|rewrite Htn; cbn [tail_of idx3]; lia
                                    |rewrite Htn; cbn [tail_of idx3]; apply HU; lia|exact Hnl].
        destruct (N.eq_dec j (idx3 b + p + 1)) as [He|Hne].
        -- (* the first page of the tail *)
           assert (Hc : (idx3 b + p + 1 <? j) && (j <=? idx3 b + blk_n b) = false).
           { destruct (N.ltb_spec (idx3 b + p + 1) j); [lia|reflexivity]. }
           rewrite Hc. rewrite chain_lookup_here; [|lia|exact Hin|apply HU; lia|exact Hnl].
           unfold block_off. cbn [tail_of idx3 filepos].
           destruct (N.leb_spec j (idx3 b + p + 1)); [|lia].
           destruct (N.leb_spec j (idx3 b)); [lia|].
           replace (j - idx3 b - 1) with p by lia. rewrite Hbo.
           destruct (N.eqb_spec bo 0); [contradiction|reflexivity].
        -- assert (Hc : (idx3 b + p + 1 <? j) && (j <=? idx3 b + blk_n b) = true).
           { destruct (N.ltb_spec (idx3 b + p + 1) j); [|lia].
             destruct (N.leb_spec j (idx3 b + blk_n b)); [reflexivity|lia]. }
           rewrite Hc. apply block_off_tail; [exact Hbo|lia|exact Hin].
      * assert (Hc : (idx3 b + p + 1 <? j) && (j <=? idx3 b + blk_n b) = false).
        { destruct (N.leb_spec j (idx3 b + blk_n b)); [lia|]. now rewrite andb_false_r. }
        rewrite Hc.
        rewrite chain_lookup_skip; [|cbn [tail_of idx3]; lia|rewrite Htn; cbn [tail_of idx3]; apply HU; lia
                                    |left; rewrite Htn; cbn [tail_of idx3]; lia].
        rewrite (chain_lookup_skip b); [reflexivity|exact Ha|apply HU; lia|left; lia].
Qed.

(** * When a lookup survives the split *)

Lemma first_known_from_inv : forall l pos0 p,
  first_known_from l pos0 = Some p ->
  exists d v, p = pos0 + N.of_nat d /\ nth_error l d = Some v /\ v <> 0.
Proof.
  induction l as [|x r IH]; intros pos0 p H; cbn [first_known_from] in H; [discriminate|].
  destruct (N.eqb_spec x 0) as [Hz|Hnz].
  - destruct (IH _ _ H) as [d [v [Hp [Hd Hv]]]]. exists (S d), v. repeat split; [lia|exact Hd|exact Hv].
  - inversion H; subst p. exists O, x. repeat split; [lia|exact Hnz].
Qed.

Lemma first_known_inv : forall l i p,
  first_known l i = Some p -> i <= p /\ exists v, rd l p = Some v /\ v <> 0.
Proof.
  intros l i p H. unfold first_known in H.
  destruct (first_known_from_inv _ _ _ H) as [d [v [Hp [Hd Hv]]]].
  split; [lia|]. exists v. split; [|exact Hv].
  rewrite nth_error_skipn_add in Hd. unfold rd.
  replace (N.to_nat p) with (N.to_nat i + d)%nat by lia. exact Hd.
Qed.

Lemma u32_sub_gt : forall a b, b < a -> a < U32 -> u32_sub a b = a - b.
Proof.
  intros a b H1 H2. unfold u32_sub. rewrite (N.mod_small a), (N.mod_small b) by lia.
  replace (a + U32 - b) with ((a - b) + 1 * U32) by lia.
  rewrite N.mod_add by (unfold U32; lia). apply N.mod_small. lia.
Qed.

Lemma u32_sub_lt : forall a b, a < b -> b < U32 -> u32_sub a b = a + U32 - b.
Proof.
  intros a b H1 H2. unfold u32_sub. rewrite (N.mod_small a), (N.mod_small b) by lia.
  apply N.mod_small. lia.
Qed.

Lemma u32_sub_same : forall a, a < U32 -> u32_sub a a = 0.
Proof.
  intros a H. unfold u32_sub. rewrite (N.mod_small a) by lia.
  replace (a + U32 - a) with (0 + 1 * U32) by lia.
  rewrite N.mod_add by (unfold U32; lia). reflexivity.
Qed.

(* the entry of slot [j - idx3 - 1] can be expressed relative to the first page of the tail *)
Definition slot_ok (v : variant) (b : block) (idx j : N) : Prop :=
  forall p bo vk,
    first_known (offs b) idx = Some p -> rd (offs b) p = Some bo ->
    idx3 b + p + 1 < j -> rd (offs b) (j - idx3 b - 1) = Some vk ->
    (keep_gaps v = true /\ vk = 0) \/ bo < vk.

Lemma lookup_after_split_iff : forall v b idx post j,
  wf_block b -> follows b idx post ->
  (lookup_after_split v b idx post j = chain_lookup (b :: post) j <-> slot_ok v b idx j).
Proof.
  intros v b idx post j Hwf Hfol. unfold lookup_after_split, slot_ok.
  pose proof Hwf as [Hn [Hfp Hall]]. unfold PFN_IDX3_SIZE in Hn.
  destruct (first_known (offs b) idx) as [p|] eqn:Hfk; [|split; [intros _ p bo vk Hp; discriminate|reflexivity]].
  destruct (first_known_inv _ _ _ Hfk) as [Hle [bo [Hbo Hnz]]].
  destruct (wf_rd b p bo Hwf Hbo) as [Hbo32 _].
  destruct (N.ltb_spec (idx3 b + p + 1) j) as [Hj1|Hj1]; cbn [andb].
  2:{ split; [|reflexivity]. intros _ p' bo' vk Hp'. inversion Hp'; subst p'. lia. }
  destruct (N.leb_spec j (idx3 b + blk_n b)) as [Hj2|Hj2].
  2:{ split; [|reflexivity]. intros _ p' bo' vk Hp' _ _ Hvk.
      apply rd_some_lt in Hvk. unfold blk_n in Hj2. lia. }
  assert (Horig : chain_lookup (b :: post) j = block_off b j).
  { apply chain_lookup_here; [lia|exact Hj2|unfold U32; lia|].
    apply next_le_false. eapply follows_lt; [exact Hfol|lia]. }
  rewrite Horig. unfold tail_slot_value, block_off. rewrite Hbo.
  destruct (N.leb_spec j (idx3 b)); [lia|].
  unfold blk_n in Hj2.
  destruct (rd_lt_some (offs b) (j - idx3 b - 1) ltac:(lia)) as [vk Hvk]. rewrite Hvk.
  destruct (wf_rd b _ vk Hwf Hvk) as [Hvk32 _].
  cbv zeta. unfold tail_entry. split.
  - intros Heq p' bo' vk' Hp' Hbo' _ Hvk'.
    inversion Hp'; subst p'. rewrite ?Hbo in Hbo'; inversion Hbo'; subst bo'.
    rewrite ?Hvk in Hvk'; inversion Hvk'; subst vk'. clear Hp' Hbo' Hvk'.
    destruct (N.eqb_spec vk 0) as [Hz|Hvnz].
    + destruct (keep_gaps v); [left; now split|]. cbn [andb] in Heq.
      rewrite u32_sub_lt in Heq by lia.
      destruct (N.eqb_spec (vk + U32 - bo) 0); [lia|discriminate].
    + rewrite andb_false_r in Heq.
      destruct (N.lt_ge_cases bo vk) as [Hlt|Hge]; [now right|].
      destruct (N.eq_dec vk bo) as [He|Hne].
      { subst vk. rewrite u32_sub_same in Heq by lia. cbn [N.eqb] in Heq. discriminate. }
      rewrite u32_sub_lt in Heq by lia.
      destruct (N.eqb_spec (vk + U32 - bo) 0); [discriminate|].
      inversion Heq. unfold U32 in *. lia.
  - intros Hok. destruct (Hok p bo vk eq_refl Hbo Hj1 eq_refl) as [[Hkg Hz]|Hlt].
    + subst vk. rewrite Hkg. reflexivity.
    + destruct (N.eqb_spec vk 0) as [Hz|Hvnz]; [lia|]. rewrite andb_false_r.
      rewrite u32_sub_gt by assumption.
      destruct (N.eqb_spec (vk - bo) 0); [lia|]. f_equal. lia.
Qed.

(** The strongest true statement about the literal code (any variant with the library's
    copy loop): a lookup other than that of the scanned page survives the split iff its
    slot is a gap that stays a gap, or lies behind the tail's first page in the file. *)
Theorem lkcd_split_lookup_iff : forall v o b post idx ch,
  copy_literal v = true -> cut_runs v = false ->
  wf_block b -> 1 <= idx -> idx3 b + idx < PFN_IDX3_SIZE -> follows b idx post ->
  split_pfn_block v o b idx = SplitOk ch ->
  forall j, j <> idx3 b + idx ->
    (chain_lookup (ch ++ post) j = chain_lookup (b :: post) j <-> slot_ok v b idx j).
Proof.
  intros v o b post idx ch Hlit Hcut Hwf H1 Hidx Hfol H j Hj.
  destruct (lkcd_split_lookup_exact v o b post idx ch Hlit Hcut Hwf H1 Hidx Hfol H) as [_ Hex].
  rewrite (Hex j Hj). now apply lookup_after_split_iff.
Qed.

Lemma tail_ordered_slot_ok : forall v b idx j,
  keep_gaps v = true -> tail_ordered b idx -> slot_ok v b idx j.
Proof.
  intros v b idx j Hkg Hord p bo vk Hp Hbo Hj Hvk.
  destruct (N.eq_dec vk 0) as [Hz|Hnz]; [left; now split|right].
  eapply Hord; try eassumption. lia.
Qed.

(** Main theorem: the repaired code (the library's copy loop, gaps kept), a well-formed
    block anywhere in a chain, a split point the caller can produce, a tail whose known
    pages lie behind its first page in the file: every lookup except that of the scanned
    page itself is unchanged, and the scanned page is not indexed afterwards. *)
Theorem lkcd_split_preserves_lookup : forall v o pre b post idx ch,
  copy_literal v = true -> cut_runs v = false -> keep_gaps v = true ->
  wf_block b -> 1 <= idx -> idx3 b + idx < PFN_IDX3_SIZE -> follows b idx post ->
  tail_ordered b idx ->
  split_pfn_block v o b idx = SplitOk ch ->
  forall j, j <> idx3 b + idx ->
    chain_lookup (pre ++ ch ++ post) j = chain_lookup (pre ++ b :: post) j.
Proof.
  intros v o pre b post idx ch Hlit Hcut Hkg Hwf H1 Hidx Hfol Hord H j Hj.
  assert (Heq : chain_lookup (ch ++ post) j = chain_lookup (b :: post) j).
  { apply (lkcd_split_lookup_iff v o b post idx ch Hlit Hcut Hwf H1 Hidx Hfol H j Hj).
    now apply tail_ordered_slot_ok. }
  destruct (split_shape v o b idx ch Hlit Hcut Hwf H1 Hidx H) as [p [_ [_ Hc]]].
  destruct Hc as [[_ [_ Hch]]|[bo [_ [_ [_ Hch]]]]]; subst ch; cbn [app] in *;
    apply chain_lookup_prefix; try exact Heq; reflexivity.
Qed.

Theorem lkcd_split_scanned_page_free : forall v o b post idx ch,
  copy_literal v = true -> cut_runs v = false ->
  wf_block b -> 1 <= idx -> idx3 b + idx < PFN_IDX3_SIZE -> follows b idx post ->
  split_pfn_block v o b idx = SplitOk ch ->
  chain_lookup (ch ++ post) (idx3 b + idx) = LkNone.
Proof.
  intros v o b post idx ch Hlit Hcut Hwf H1 Hidx Hfol H.
  now destruct (lkcd_split_lookup_exact v o b post idx ch Hlit Hcut Hwf H1 Hidx Hfol H).
Qed.

(** * The result is well formed *)

(* everything [wf_block] says except that the 64-bit sums stay below 2^63 *)
Definition wf_block_weak (b : block) : Prop :=
  idx3 b + blk_n b < PFN_IDX3_SIZE /\ filepos b < OFF_LIMIT /\ Forall (fun off => off < U32) (offs b).

Lemma Forall_resize : forall (P : N -> Prop) k l, P 0 -> Forall P l -> Forall P (resize k l).
Proof.
  intros P. induction k as [|k IH]; intros l H0 Hl; cbn [resize]; [constructor|].
  destruct l as [|x r].
  - constructor; [exact H0|apply IH; [exact H0|constructor]].
  - inversion Hl; subst. constructor; [assumption|now apply IH].
Qed.

Lemma tail_entry_lt : forall v bo x, tail_entry v bo x < U32.
Proof.
  intros v bo x. unfold tail_entry. destruct (keep_gaps v && (x =? 0)); [unfold U32; lia|].
  unfold u32_sub. apply N.mod_lt. unfold U32; lia.
Qed.

Lemma in_map_skipn : forall (f : N -> N) s l y,
  In y (map f (skipn s l)) -> exists k x, N.of_nat s <= k /\ rd l k = Some x /\ y = f x.
Proof.
  intros f s l y H. apply In_nth_error in H. destruct H as [i Hi].
  rewrite nth_error_map, nth_error_skipn_add in Hi.
  destruct (nth_error l (s + i)) as [x|] eqn:Hx; [|discriminate]. cbn in Hi. inversion Hi; subst y.
  exists (N.of_nat (s + i)), x. split; [lia|]. split; [|reflexivity].
  unfold rd. now rewrite Nat2N.id.
Qed.

Theorem lkcd_split_wellformed : forall v o b post idx ch,
  copy_literal v = true -> cut_runs v = false ->
  wf_block b -> 1 <= idx -> idx3 b + idx < PFN_IDX3_SIZE ->
  follows b idx post -> chain_sorted post ->
  split_pfn_block v o b idx = SplitOk ch ->
  chain_sorted (ch ++ post) /\
  exists h tl, ch = h :: tl /\
    idx3 h = idx3 b /\ filepos h = filepos b /\ blk_n h = idx - 1 /\ wf_block h /\
    (tl = [] \/
     exists t, tl = [t] /\ idx3 b + idx < idx3 t /\ idx3 t + blk_n t = idx3 b + blk_n b /\
               wf_block_weak t /\
               (keep_gaps v = true -> tail_ordered b idx -> wf_block t)).
Proof.
  intros v o b post idx ch Hlit Hcut Hwf H1 Hidx Hfol Hpost H.
  destruct (split_shape v o b idx ch Hlit Hcut Hwf H1 Hidx H) as [p [Hle [Hzero Hcases]]].
  pose proof Hwf as [Hn [Hfp Hall]]. unfold PFN_IDX3_SIZE in *.
  pose proof (blk_n_head_of b idx) as Hhn.
  assert (Hwfh : wf_block (head_of b idx)).
  { split; [rewrite Hhn; cbn [head_of idx3]; unfold PFN_IDX3_SIZE; lia|].
    split; [exact Hfp|]. cbn [head_of offs filepos]. apply Forall_resize; [|exact Hall].
    unfold U32. lia. }
  destruct Hcases as [[Hge [Hzn Hch]]|[bo [Hlt [Hbo [Hnz Hch]]]]]; subst ch.
  - split.
    + cbn [app chain_sorted]. split; [|exact Hpost].
      destruct post as [|nb r]; [exact I|]. cbn [follows] in Hfol. rewrite Hhn. cbn [head_of idx3]. lia.
    + exists (head_of b idx), []. split; [reflexivity|]. split; [reflexivity|]. split; [reflexivity|].
      split; [exact Hhn|]. split; [exact Hwfh|]. now left.
  - pose proof (blk_n_tail_of v b p bo Hlt) as Htn.
    destruct (wf_rd b p bo Hwf Hbo) as [Hbo32 Hbofp].
    split.
    + cbn [app chain_sorted]. split; [rewrite Hhn; cbn [head_of tail_of idx3]; lia|].
      split; [|exact Hpost].
      destruct post as [|nb r]; [exact I|]. cbn [follows] in Hfol. rewrite Htn. cbn [tail_of idx3]. lia.
    + exists (head_of b idx), [tail_of v b p bo].
      split; [reflexivity|]. split; [reflexivity|]. split; [reflexivity|].
      split; [exact Hhn|]. split; [exact Hwfh|].
      right. exists (tail_of v b p bo). split; [reflexivity|].
      split; [cbn [tail_of idx3]; lia|]. split; [rewrite Htn; cbn [tail_of idx3]; lia|].
      split.
      * split; [rewrite Htn; cbn [tail_of idx3]; unfold PFN_IDX3_SIZE; lia|].
        split; [cbn [tail_of filepos]; exact Hbofp|].
        cbn [tail_of offs]. apply Forall_forall. intros y Hy.
        apply in_map_iff in Hy. destruct Hy as [x [<- _]]. apply tail_entry_lt.
      * intros Hkg Hord.
        split; [rewrite Htn; cbn [tail_of idx3]; unfold PFN_IDX3_SIZE; lia|].
        split; [cbn [tail_of filepos]; exact Hbofp|].
        cbn [tail_of offs filepos]. apply Forall_forall. intros y Hy.
        apply in_map_skipn in Hy. destruct Hy as [k [x [Hk [Hx ->]]]].
        split; [apply tail_entry_lt|].
        destruct (wf_rd b k x Hwf Hx) as [Hx32 Hxfp].
        unfold tail_entry. rewrite Hkg. cbn [andb].
        destruct (N.eqb_spec x 0) as [Hz|Hxnz]; [lia|].
        assert (Hfk : first_known (offs b) idx = Some p) by (eapply first_known_some; eassumption).
        assert (Hlt' : bo < x) by (eapply (Hord p bo k x); try eassumption; lia).
        rewrite u32_sub_gt by assumption. lia.
Qed.

(** * The split succeeds, and never leaves the array *)

Theorem lkcd_split_total : forall v o b idx,
  copy_literal v = true -> cut_runs v = false ->
  wf_block b -> 1 <= idx -> idx3 b + idx < PFN_IDX3_SIZE ->
  split_pfn_block v o b idx <> SplitOOB /\ split_pfn_block v o b idx <> SplitUB /\
  (free_on_zero v = true -> forall ch, split_pfn_block v o b idx <> SplitFreed ch) /\
  (free_on_zero v = true -> o = no_failure -> exists ch, split_pfn_block v o b idx = SplitOk ch).
Proof.
  intros v o b idx Hlit Hcut Hwf H1 Hidx.
  pose proof Hwf as [Hn [Hfp Hall]]. unfold PFN_IDX3_SIZE in *. unfold blk_n in *.
  assert (Hn16 : N.of_nat (length (offs b)) < U16) by (unfold U16; lia).
  unfold split_pfn_block, blk_n. rewrite Hcut.
  rewrite u16_small by (unfold U16; lia).
  destruct (scan_gap_spec (S (length (offs b))) (offs b) idx Hn16 ltac:(lia))
    as [p [Hp [Hle [Hzero [Hk Hend]]]]].
  rewrite Hp. rewrite u16_dec_small by (unfold U16; lia).
  assert (Hhead : forall tails,
     match realloc_pfn_offs v (fail_head o) (offs b) (idx - 1) with
     | ROk l => SplitOk ({| filepos := filepos b; idx3 := idx3 b; offs := l |} :: tails)
     | RFail => SplitStale (idx - 1) (b :: tails)
     | RFreed => SplitFreed ({| filepos := filepos b; idx3 := idx3 b; offs := [] |} :: tails)
     end <> SplitOOB /\
     match realloc_pfn_offs v (fail_head o) (offs b) (idx - 1) with
     | ROk l => SplitOk ({| filepos := filepos b; idx3 := idx3 b; offs := l |} :: tails)
     | RFail => SplitStale (idx - 1) (b :: tails)
     | RFreed => SplitFreed ({| filepos := filepos b; idx3 := idx3 b; offs := [] |} :: tails)
     end <> SplitUB /\
     (free_on_zero v = true -> forall ch,
     match realloc_pfn_offs v (fail_head o) (offs b) (idx - 1) with
     | ROk l => SplitOk ({| filepos := filepos b; idx3 := idx3 b; offs := l |} :: tails)
     | RFail => SplitStale (idx - 1) (b :: tails)
     | RFreed => SplitFreed ({| filepos := filepos b; idx3 := idx3 b; offs := [] |} :: tails)
     end <> SplitFreed ch) /\
     (free_on_zero v = true -> o = no_failure -> exists ch,
     match realloc_pfn_offs v (fail_head o) (offs b) (idx - 1) with
     | ROk l => SplitOk ({| filepos := filepos b; idx3 := idx3 b; offs := l |} :: tails)
     | RFail => SplitStale (idx - 1) (b :: tails)
     | RFreed => SplitFreed ({| filepos := filepos b; idx3 := idx3 b; offs := [] |} :: tails)
     end = SplitOk ch)).
  { intros tails. unfold realloc_pfn_offs.
    destruct (idx - 1 =? N.of_nat (length (offs b))).
    { repeat split; try discriminate. intros _ _. now eexists. }
    destruct (idx - 1 =? 0).
    { destruct (free_on_zero v); repeat split; try discriminate.
      intros _ _. now eexists. }
    destruct (fail_head o) eqn:Hfh; repeat split; try discriminate.
    - intros _ ->. discriminate.
    - intros _ _. now eexists. }
  destruct (N.ltb_spec p (N.of_nat (length (offs b)))) as [Hlt|Hge]; [|apply Hhead].
  destruct (Hk Hlt) as [bo [Hbo Hnz]].
  unfold alloc_tail_pfn_block, blk_n.
  destruct (fail_malloc o) eqn:Hfm.
  { repeat split; try discriminate. intros _ ->. discriminate. }
  rewrite (N.mod_small (N.of_nat (length (offs b)))) by exact Hn16.
  rewrite (N.mod_small p) by lia.
  replace ((N.of_nat (length (offs b)) + 2 * U16 - p - 1) mod U16)
    with (N.of_nat (length (offs b)) - p - 1).
  2:{ replace (N.of_nat (length (offs b)) + 2 * U16 - p - 1)
        with ((N.of_nat (length (offs b)) - p - 1) + 2 * U16) by lia.
      rewrite N.mod_add by (unfold U16; lia). symmetry; apply N.mod_small. lia. }
  assert (Htl : realloc_pfn_offs v (fail_tail o) [] (N.of_nat (length (offs b)) - p - 1) = RFail \/
                exists l, realloc_pfn_offs v (fail_tail o) [] (N.of_nat (length (offs b)) - p - 1) = ROk l).
  { unfold realloc_pfn_offs. cbn [length N.of_nat].
    destruct (N.of_nat (length (offs b)) - p - 1 =? 0); [right; now eexists|].
    destruct (fail_tail o); [now left|right; now eexists]. }
  assert (Htl' : o = no_failure ->
                exists l, realloc_pfn_offs v (fail_tail o) [] (N.of_nat (length (offs b)) - p - 1) = ROk l).
  { intros ->. unfold realloc_pfn_offs. cbn [length N.of_nat no_failure fail_tail].
    destruct (N.of_nat (length (offs b)) - p - 1 =? 0); now eexists. }
  destruct Htl as [Htl|[l Htl]]; rewrite Htl.
  { repeat split; try discriminate. intros _ Ho. destruct (Htl' Ho) as [l Hl]. congruence. }
  rewrite Hbo. destruct (wf_rd b p bo Hwf Hbo) as [Hbo32 Hbofp].
  destruct (N.leb_spec OFF_LIMIT (filepos b + bo)); [lia|].
  rewrite (copy_loop_literal v (offs b) bo _ 0 p Hlit Hn16) by lia.
  apply Hhead.
Qed.

(** * The reading side implements the finite map [denote] *)

Lemma assoc_app : forall j l1 l2,
  assoc j (l1 ++ l2) = match assoc j l1 with Some x => Some x | None => assoc j l2 end.
Proof.
  intros j. induction l1 as [|[i off] r IH]; intros l2; cbn [app assoc]; [reflexivity|].
  destruct (i =? j); [reflexivity|apply IH].
Qed.

Lemma assoc_offs_pairs : forall l i base j,
  assoc j (offs_pairs i base l) =
  if j <? i then None
  else match nth_error l (N.to_nat (j - i)) with
       | Some off => if off =? 0 then None else Some (base + off)
       | None => None
       end.
Proof.
  induction l as [|off r IH]; intros i base j; cbn [offs_pairs].
  - cbn [assoc]. rewrite nth_error_nil. now destruct (j <? i).
  - rewrite assoc_app, IH.
    destruct (N.ltb_spec j i) as [Hlt|Hge].
    + destruct (N.ltb_spec j (i + 1)); [|lia].
      destruct (off =? 0); cbn [assoc]; [reflexivity|].
      destruct (N.eqb_spec i j); [lia|reflexivity].
    + destruct (N.eq_dec j i) as [->|Hne].
      * replace (N.to_nat (i - i)) with O by lia. cbn [nth_error].
        destruct (N.ltb_spec i (i + 1)); [|lia].
        destruct (off =? 0); cbn [assoc]; [reflexivity|]. now rewrite N.eqb_refl.
      * destruct (N.ltb_spec j (i + 1)); [lia|].
        replace (N.to_nat (j - i)) with (S (N.to_nat (j - (i + 1)))) by lia. cbn [nth_error].
        destruct (off =? 0); cbn [assoc]; [reflexivity|].
        destruct (N.eqb_spec i j); [lia|reflexivity].
Qed.

Lemma assoc_block_pairs : forall b j,
  assoc j (block_pairs b) =
  if j <? idx3 b then None
  else if j =? idx3 b then Some (filepos b)
  else match rd (offs b) (j - idx3 b - 1) with
       | Some off => if off =? 0 then None else Some (filepos b + off)
       | None => None
       end.
Proof.
  intros b j. unfold block_pairs. cbn [assoc]. rewrite assoc_offs_pairs. unfold rd.
  destruct (N.eqb_spec (idx3 b) j) as [He|Hne].
  - subst j. rewrite N.ltb_irrefl, N.eqb_refl. reflexivity.
  - destruct (N.ltb_spec j (idx3 b)) as [Hlt|Hge].
    + destruct (N.ltb_spec j (idx3 b + 1)); [reflexivity|lia].
    + destruct (N.ltb_spec j (idx3 b + 1)); [lia|].
      destruct (N.eqb_spec j (idx3 b)); [lia|].
      replace (j - (idx3 b + 1)) with (j - idx3 b - 1) by lia. reflexivity.
Qed.

Lemma denote_cons : forall b r j,
  denote (b :: r) j = match assoc j (block_pairs b) with Some x => Some x | None => denote r j end.
Proof. intros. unfold denote. cbn [flat_map]. apply assoc_app. Qed.

Lemma denote_below : forall r j,
  chain_sorted r -> match r with [] => True | h :: _ => j < idx3 h end -> denote r j = None.
Proof.
  induction r as [|h r IH]; intros j Hs Hj; [reflexivity|].
  rewrite denote_cons, assoc_block_pairs.
  destruct (N.ltb_spec j (idx3 h)); [|lia].
  cbn [chain_sorted] in Hs. destruct Hs as [Hh Hr]. apply IH; [exact Hr|].
  destruct r as [|h2 r2]; [exact I|lia].
Qed.

Theorem chain_lookup_denote : forall c j,
  chain_sorted c -> Forall (fun b => idx3 b + blk_n b < U32) c ->
  chain_lookup c j = lk_of_option (denote c j).
Proof.
  induction c as [|b r IH]; intros j Hs Hall; [reflexivity|].
  cbn [chain_sorted] in Hs. destruct Hs as [Hh Hr].
  inversion Hall as [|? ? Hb Hall']; subst.
  assert (Hbelow : j <= idx3 b + blk_n b -> denote r j = None).
  { intros Hj. apply denote_below; [exact Hr|]. destruct r as [|h2 r2]; [exact I|lia]. }
  rewrite denote_cons, assoc_block_pairs.
  destruct (N.ltb_spec j (idx3 b)) as [Hlt|Hge].
  - rewrite chain_lookup_below by exact Hlt. rewrite Hbelow by lia. reflexivity.
  - destruct (N.le_gt_cases j (idx3 b + blk_n b)) as [Hin|Hout].
    + rewrite chain_lookup_here; [|exact Hge|exact Hin|exact Hb|].
      2:{ apply next_le_false. destruct r as [|h2 r2]; [exact I|lia]. }
      unfold block_off.
      destruct (N.eqb_spec j (idx3 b)) as [He|Hne].
      * destruct (N.leb_spec j (idx3 b)); [reflexivity|lia].
      * destruct (N.leb_spec j (idx3 b)); [lia|].
        unfold blk_n in Hin.
        destruct (rd_lt_some (offs b) (j - idx3 b - 1) ltac:(lia)) as [x Hx]. rewrite Hx.
        destruct (x =? 0); [|reflexivity]. rewrite Hbelow by (unfold blk_n; lia). reflexivity.
    + rewrite chain_lookup_skip; [|exact Hge|exact Hb|left; exact Hout].
      destruct (N.eqb_spec j (idx3 b)); [lia|].
      destruct (rd (offs b) (j - idx3 b - 1)) as [x|] eqn:Hx.
      { apply rd_some_lt in Hx. unfold blk_n in Hout. lia. }
      apply IH; assumption.
Qed.

Lemma lk_of_option_inj : forall a b, lk_of_option a = lk_of_option b -> a = b.
Proof. intros [x|] [y|] H; cbn in H; try discriminate; [now inversion H|reflexivity]. Qed.

(** The same in terms of the finite map: the split changes [denote] only at the scanned page. *)
Theorem lkcd_split_preserves_denote : forall v o b post idx ch,
  copy_literal v = true -> cut_runs v = false -> keep_gaps v = true ->
  wf_block b -> 1 <= idx -> idx3 b + idx < PFN_IDX3_SIZE -> follows b idx post ->
  chain_sorted post -> Forall (fun b => idx3 b + blk_n b < U32) post ->
  tail_ordered b idx ->
  split_pfn_block v o b idx = SplitOk ch ->
  denote (ch ++ post) (idx3 b + idx) = None /\
  forall j, j <> idx3 b + idx -> denote (ch ++ post) j = denote (b :: post) j.
Proof.
  intros v o b post idx ch Hlit Hcut Hkg Hwf H1 Hidx Hfol Hpost Hallp Hord H.
  destruct (lkcd_split_wellformed v o b post idx ch Hlit Hcut Hwf H1 Hidx Hfol Hpost H)
    as [Hsorted [h [tl [Hch [Hh3 [_ [Hhn [Hwfh Htl]]]]]]]].
  assert (HU : forall x, x < PFN_IDX3_SIZE -> x < U32) by (unfold PFN_IDX3_SIZE, U32; lia).
  assert (Hall : Forall (fun b => idx3 b + blk_n b < U32) (ch ++ post)).
  { apply Forall_app. split; [|exact Hallp]. subst ch. constructor.
    - apply HU. now destruct Hwfh.
    - destruct Htl as [->|[t [-> [_ [_ [[Ht _] _]]]]]]; constructor; [now apply HU|constructor]. }
  assert (Hsorted0 : chain_sorted (b :: post)).
  { cbn [chain_sorted]. split; [|exact Hpost]. destruct post as [|nb r]; [exact I|]. cbn [follows] in Hfol. lia. }
  assert (Hall0 : Forall (fun b => idx3 b + blk_n b < U32) (b :: post)).
  { constructor; [|exact Hallp]. apply HU. now destruct Hwf. }
  split.
  - apply lk_of_option_inj. rewrite <- chain_lookup_denote by assumption.
    eapply lkcd_split_scanned_page_free; eassumption.
  - intros j Hj. apply lk_of_option_inj.
    rewrite <- !chain_lookup_denote by assumption.
    apply (lkcd_split_preserves_lookup v o [] b post idx ch); assumption.
Qed.

(** * Decision procedures for the hypotheses (used by the examples and by the tie) *)

Lemma wf_blockb_sound : forall b, wf_blockb b = true -> wf_block b.
Proof.
  intros b H. unfold wf_blockb in H.
  apply andb_true_iff in H. destruct H as [H Hall].
  apply andb_true_iff in H. destruct H as [Hn Hfp].
  apply N.ltb_lt in Hn. apply N.ltb_lt in Hfp.
  split; [exact Hn|]. split; [exact Hfp|].
  apply Forall_forall. intros x Hx. rewrite forallb_forall in Hall. specialize (Hall x Hx).
  apply andb_true_iff in Hall. destruct Hall as [Ha Hb].
  apply N.ltb_lt in Ha. apply N.ltb_lt in Hb. now split.
Qed.

Lemma tail_orderedb_sound : forall b idx, tail_orderedb b idx = true -> tail_ordered b idx.
Proof.
  intros b idx H p vp k vk Hfk Hp Hk Hvk Hnz. unfold tail_orderedb in H.
  rewrite Hfk, Hp in H. rewrite forallb_forall in H.
  assert (Hin : In vk (skipn (S (N.to_nat p)) (offs b))).
  { apply (nth_error_In _ (N.to_nat k - S (N.to_nat p))). rewrite nth_error_skipn_add.
    unfold rd in Hvk. replace (S (N.to_nat p) + (N.to_nat k - S (N.to_nat p)))%nat with (N.to_nat k) by lia.
    exact Hvk. }
  specialize (H vk Hin). apply orb_true_iff in H. destruct H as [H|H].
  - apply N.eqb_eq in H. contradiction.
  - now apply N.ltb_lt in H.
Qed.

(** * Examples and counterexamples *)

(* the demo layout: pages with level-3 indices 0 1 3 4 5 6 in one block (index 2 is a gap) *)
Definition demo_block : block :=
  {| filepos := 0x10000; idx3 := 0; offs := [0x100; 0; 0x300; 0x400; 0x500; 0x600] |}.

Example lkcd_split_nonvacuous :
  wf_block demo_block /\ tail_ordered demo_block 2 /\ 1 <= 2 /\ idx3 demo_block + 2 < PFN_IDX3_SIZE /\
  split_pfn_block repaired no_failure demo_block 2 =
    SplitOk [ {| filepos := 0x10000; idx3 := 0; offs := [0x100] |};
              {| filepos := 0x10300; idx3 := 3; offs := [0x100; 0x200; 0x300] |} ] /\
  map (chain_lookup [demo_block]) [0; 1; 2; 3; 4; 5; 6; 7] =
    [LkOff 0x10000; LkOff 0x10100; LkNone; LkOff 0x10300; LkOff 0x10400; LkOff 0x10500;
     LkOff 0x10600; LkNone] /\
  map (chain_lookup [ {| filepos := 0x10000; idx3 := 0; offs := [0x100] |};
                      {| filepos := 0x10300; idx3 := 3; offs := [0x100; 0x200; 0x300] |} ])
      [0; 1; 2; 3; 4; 5; 6; 7] =
    [LkOff 0x10000; LkOff 0x10100; LkNone; LkOff 0x10300; LkOff 0x10400; LkOff 0x10500;
     LkOff 0x10600; LkNone].
Proof.
  split; [apply wf_blockb_sound; vm_compute; reflexivity|].
  split; [apply tail_orderedb_sound; vm_compute; reflexivity|].
  repeat split; vm_compute; try reflexivity; discriminate.
Qed.

(** /repo HEAD (variant [pinned]): a gap of the tail becomes the bogus entry
    [0 - blockoff mod 2^32]; the page, which has not been seen yet, then looks up at
    [filepos + 2^32].  (Fix 83; the tie reports it on an unrepaired tree as
    "lookup changed".) *)
Theorem lkcd_split_preserves_lookup_refuted :
  exists b idx ch j,
    wf_block b /\ 1 <= idx /\ idx3 b + idx < PFN_IDX3_SIZE /\ tail_ordered b idx /\
    split_pfn_block pinned no_failure b idx = SplitOk ch /\
    j <> idx3 b + idx /\
    chain_lookup [b] j = LkNone /\ chain_lookup ch j = LkOff 0x100001000.
Proof.
  exists {| filepos := 0x1000; idx3 := 0; offs := [0x10; 0; 0x30; 0; 0x50] |}, 2.
  eexists. exists 4.
  split; [apply wf_blockb_sound; vm_compute; reflexivity|].
  split; [vm_compute; discriminate|].
  split; [vm_compute; reflexivity|].
  split; [apply tail_orderedb_sound; vm_compute; reflexivity|].
  split; [vm_compute; reflexivity|].
  split; [vm_compute; discriminate|].
  split; vm_compute; reflexivity.
Qed.

(** The repaired code without the hypothesis [tail_ordered]: page 5 was seen before
    page 3, the tail starts at page 3, and the 32-bit difference wraps: page 5 looks up
    2^32 bytes too far.  The block format cannot express a page in front of the block's
    first page (open finding "unordered-tail"). *)
Theorem lkcd_split_unordered_tail_refuted :
  exists b idx ch j,
    wf_block b /\ 1 <= idx /\ idx3 b + idx < PFN_IDX3_SIZE /\
    split_pfn_block repaired no_failure b idx = SplitOk ch /\
    j <> idx3 b + idx /\
    chain_lookup [b] j = LkOff 0x1030 /\ chain_lookup ch j = LkOff 0x100001030.
Proof.
  exists {| filepos := 0x1000; idx3 := 0; offs := [0x10; 0; 0x50; 0; 0x30] |}, 2.
  eexists. exists 5.
  split; [apply wf_blockb_sound; vm_compute; reflexivity|].
  split; [vm_compute; discriminate|].
  split; [vm_compute; reflexivity|].
  split; [vm_compute; reflexivity|].
  split; [vm_compute; discriminate|].
  split; vm_compute; reflexivity.
Qed.

(** The seeded change C04-a2 ([block->offs[nextidx + idx]] instead of
    [block->offs[++nextidx]]) on the demo block, whose tail has four known pages: the
    second page of the tail becomes a gap, the later ones get the offset of their
    predecessor. *)
Theorem lkcd_split_seeded_change_refuted :
  exists ch,
    wf_block demo_block /\ tail_ordered demo_block 2 /\
    split_pfn_block seeded no_failure demo_block 2 = SplitOk ch /\
    map (chain_lookup [demo_block]) [4; 5; 6] = [LkOff 0x10400; LkOff 0x10500; LkOff 0x10600] /\
    map (chain_lookup ch) [4; 5; 6] = [LkNone; LkOff 0x10400; LkOff 0x10500].
Proof.
  eexists.
  split; [apply wf_blockb_sound; vm_compute; reflexivity|].
  split; [apply tail_orderedb_sound; vm_compute; reflexivity|].
  split; [vm_compute; reflexivity|].
  split; vm_compute; reflexivity.
Qed.

(** * The boundaries of the literal code *)

(** idx = 1 on /repo HEAD (the scanned page is the direct successor of the block's first
    page and the block has entries): [block->n = 0; realloc_pfn_offs(block, 0)] calls
    [realloc(ptr, 0)]; the split never ends in a sound state.  (Fix 82.) *)
Theorem lkcd_split_pinned_idx1_never_ok : forall o b ch,
  offs b <> [] -> split_pfn_block pinned o b 1 <> SplitOk ch.
Proof.
  intros o b ch Hne H. unfold split_pfn_block in H.
  change (u16_dec 1) with 0 in H.
  assert (Hr : realloc_pfn_offs pinned (fail_head o) (offs b) 0 = RFreed).
  { unfold realloc_pfn_offs. destruct (offs b) as [|x r]; [contradiction|].
    cbn [length]. destruct (N.eqb_spec 0 (N.of_nat (S (length r)))); [lia|reflexivity]. }
  rewrite Hr in H.
  destruct (scan_gap _ _ _ _); [|discriminate].
  match type of H with
  | match ?t with TsOk _ => _ | TsErr => _ | TsOOB => _ | TsUB => _ end = _ => destruct t; discriminate
  end.
Qed.

Example lkcd_split_pinned_idx1_frees :
  split_pfn_block pinned no_failure {| filepos := 0x1000; idx3 := 0; offs := [0x10; 0x20; 0x30] |} 1 =
  SplitFreed [ {| filepos := 0x1000; idx3 := 0; offs := [] |};
               {| filepos := 0x1020; idx3 := 2; offs := [0x10] |} ] /\
  split_pfn_block repaired no_failure {| filepos := 0x1000; idx3 := 0; offs := [0x10; 0x20; 0x30] |} 1 =
  SplitOk [ {| filepos := 0x1000; idx3 := 0; offs := [] |};
            {| filepos := 0x1020; idx3 := 2; offs := [0x10] |} ].
Proof. split; vm_compute; reflexivity. Qed.

(** idx = 0 (the scanned page has the index of the block's FIRST page, i.e. the dump
    repeats a PFN more than 4 GiB later): [block->n = idx - 1] wraps to 65535; the head
    then claims 65535 entries and is not a well-formed block (any variant). *)
Theorem lkcd_split_idx0_count : forall v o b ch,
  blk_n b <> 65535 -> split_pfn_block v o b 0 = SplitOk ch ->
  exists h tl, ch = h :: tl /\ blk_n h = 65535 /\ ~ wf_block h.
Proof.
  intros v o b ch Hn H. unfold split_pfn_block in H.
  change (u16_dec 0) with 65535 in H.
  destruct (scan_gap _ _ _ _); [|discriminate].
  match type of H with
  | match ?t with TsOk _ => _ | TsErr => _ | TsOOB => _ | TsUB => _ end = _ =>
      destruct t as [tails| | |]; try discriminate
  end.
  destruct (realloc_pfn_offs v (fail_head o) (offs b) 65535) eqn:Hr; try discriminate.
  apply realloc_ok_resize in Hr. inversion H; subst ch. eexists; eexists. split; [reflexivity|].
  assert (Hc : blk_n {| filepos := filepos b; idx3 := idx3 b; offs := l |} = 65535).
  { unfold blk_n. cbn [offs]. subst l. rewrite length_resize. now rewrite N2Nat.id. }
  split; [exact Hc|]. intros [Hw _]. rewrite Hc in Hw. unfold PFN_IDX3_SIZE in Hw. lia.
Qed.

(** A failing allocation of the tail block leaves the chain as it was ([SplitErr] carries
    no new chain); a failing realloc of the HEAD is ignored by [split_pfn_block]: when the
    head has to grow (idx - 1 > n, the scanned page lies two or more behind the block's
    end) the block is left with a count above its array. *)
Example lkcd_split_head_realloc_failure :
  split_pfn_block repaired {| fail_malloc := false; fail_tail := false; fail_head := true;
                              fail_malloc2 := false; fail_tail2 := false |}
    {| filepos := 0x1000; idx3 := 0; offs := [0x10; 0x20; 0x30] |} 6 =
  SplitStale 5 [ {| filepos := 0x1000; idx3 := 0; offs := [0x10; 0x20; 0x30] |} ].
Proof. vm_compute. reflexivity. Qed.

(** * The proposed repair fixes/84 ([cut_runs]): no hypothesis about the order of the tail *)

Lemma nth_error_firstn_lt : forall (A : Type) m (l : list A) i,
  (i < m)%nat -> nth_error (firstn m l) i = nth_error l i.
Proof.
  induction m as [|m IH]; intros l i H; [lia|].
  destruct l as [|x r]; [reflexivity|]. destruct i as [|i]; [reflexivity|].
  cbn [firstn nth_error]. apply IH. lia.
Qed.

Definition entry_fits (bo x : N) : Prop := x = 0 \/ bo < x.

Lemma copy_cut_spec : forall v src bo cnt p,
  N.of_nat (length src) < U16 -> (N.to_nat p + cnt < length src)%nat ->
  (exists r, copy_cut v src bo cnt p = CDone r /\
     r = map (tail_entry v bo) (firstn cnt (skipn (S (N.to_nat p)) src)) /\
     (forall k x, p < k -> k <= p + N.of_nat cnt -> rd src k = Some x -> entry_fits bo x)) \/
  (exists r q x, copy_cut v src bo cnt p = CCut r q /\ p < q /\ q <= p + N.of_nat cnt /\
     r = map (tail_entry v bo) (firstn (N.to_nat (q - p - 1)) (skipn (S (N.to_nat p)) src)) /\
     (forall k y, p < k -> k < q -> rd src k = Some y -> entry_fits bo y) /\
     rd src q = Some x /\ x <> 0 /\ x <= bo).
Proof.
  intros v src bo cnt. induction cnt as [|c IH]; intros p Hn Hlen; cbn [copy_cut].
  - left. exists []. split; [reflexivity|]. split; [reflexivity|]. intros k x H1 H2. lia.
  - rewrite u16_small by (unfold U16 in *; lia).
    destruct (rd_lt_some src (p + 1) ltac:(lia)) as [off Hoff]. rewrite Hoff.
    assert (Hsk : skipn (S (N.to_nat p)) src = off :: skipn (S (S (N.to_nat p))) src).
    { apply skipn_nth_cons. unfold rd in Hoff. now replace (N.to_nat (p + 1)) with (S (N.to_nat p)) in Hoff by lia. }
    destruct (N.eqb_spec off 0) as [Hz|Hnz]; cbn [negb andb].
    + (* a gap: copied *)
      destruct (IH (p + 1) Hn ltac:(lia)) as [[r [Hr [Hrv Hfit]]]|[r [q [x [Hr [Hq1 [Hq2 [Hrv [Hfit [Hx [Hxnz Hxle]]]]]]]]]]];
        rewrite Hr.
      * left. eexists. split; [reflexivity|]. split.
        { rewrite Hsk. cbn [firstn map]. f_equal. rewrite Hrv.
          now replace (N.to_nat (p + 1)) with (S (N.to_nat p)) by lia. }
        intros k y H1 H2 Hy. destruct (N.eq_dec k (p + 1)) as [->|Hne].
        { rewrite Hoff in Hy. inversion Hy; subst. now left. }
        apply (Hfit k y); [lia|lia|exact Hy].
      * right. exists (tail_entry v bo off :: r), q, x. split; [reflexivity|].
        split; [lia|]. split; [lia|]. split.
        { rewrite Hsk. replace (N.to_nat (q - p - 1)) with (S (N.to_nat (q - (p + 1) - 1))) by lia.
          cbn [firstn map]. f_equal. rewrite Hrv.
          now replace (N.to_nat (p + 1)) with (S (N.to_nat p)) by lia. }
        split; [|now repeat split].
        intros k y H1 H2 Hy. destruct (N.eq_dec k (p + 1)) as [->|Hne].
        { rewrite Hoff in Hy. inversion Hy; subst. now left. }
        apply (Hfit k y); [lia|lia|exact Hy].
    + destruct (N.leb_spec off bo) as [Hle|Hgt].
      * (* the cut *)
        right. exists [], (p + 1), off. split; [reflexivity|]. split; [lia|]. split; [lia|].
        split; [now replace (N.to_nat (p + 1 - p - 1)) with O by lia|].
        split; [intros k y H1 H2; lia|]. now repeat split.
      * destruct (IH (p + 1) Hn ltac:(lia)) as [[r [Hr [Hrv Hfit]]]|[r [q [x [Hr [Hq1 [Hq2 [Hrv [Hfit [Hx [Hxnz Hxle]]]]]]]]]]];
          rewrite Hr.
        -- left. eexists. split; [reflexivity|]. split.
           { rewrite Hsk. cbn [firstn map]. f_equal. rewrite Hrv.
             now replace (N.to_nat (p + 1)) with (S (N.to_nat p)) by lia. }
           intros k y H1 H2 Hy. destruct (N.eq_dec k (p + 1)) as [->|Hne].
           { rewrite Hoff in Hy. inversion Hy; subst. now right. }
           apply (Hfit k y); [lia|lia|exact Hy].
        -- right. exists (tail_entry v bo off :: r), q, x. split; [reflexivity|].
           split; [lia|]. split; [lia|]. split.
           { rewrite Hsk. replace (N.to_nat (q - p - 1)) with (S (N.to_nat (q - (p + 1) - 1))) by lia.
             cbn [firstn map]. f_equal. rewrite Hrv.
             now replace (N.to_nat (p + 1)) with (S (N.to_nat p)) by lia. }
           split; [|now repeat split].
           intros k y H1 H2 Hy. destruct (N.eq_dec k (p + 1)) as [->|Hne].
           { rewrite Hoff in Hy. inversion Hy; subst. now right. }
           apply (Hfit k y); [lia|lia|exact Hy].
Qed.

(* a block for the entries of positions p (first page) and p+1 .. p+len *)
Definition run_of (v : variant) (b : block) (p bo : N) (len : nat) : block :=
  {| filepos := filepos b + bo; idx3 := idx3 b + p + 1;
     offs := map (tail_entry v bo) (firstn len (skipn (S (N.to_nat p)) (offs b))) |}.

Lemma blk_n_run_of : forall v b p bo len,
  (S (N.to_nat p) + len <= length (offs b))%nat -> blk_n (run_of v b p bo len) = N.of_nat len.
Proof.
  intros. unfold blk_n, run_of. cbn [offs]. rewrite map_length, firstn_length, skipn_length. lia.
Qed.

Lemma block_off_run : forall v b p bo len j,
  keep_gaps v = true -> wf_block b ->
  rd (offs b) p = Some bo -> bo <> 0 ->
  (S (N.to_nat p) + len <= length (offs b))%nat ->
  (forall k x, p < k -> k <= p + N.of_nat len -> rd (offs b) k = Some x -> entry_fits bo x) ->
  idx3 b + p + 1 <= j -> j <= idx3 b + p + 1 + N.of_nat len ->
  block_off (run_of v b p bo len) j = block_off b j.
Proof.
  intros v b p bo len j Hkg Hwf Hbo Hnz Hlen Hfit Hj1 Hj2.
  unfold block_off, run_of. cbn [idx3 filepos offs].
  destruct (N.leb_spec j (idx3 b)); [lia|].
  destruct (N.leb_spec j (idx3 b + p + 1)) as [Hfirst|Hlater].
  - replace (j - idx3 b - 1) with p by lia. rewrite Hbo.
    destruct (N.eqb_spec bo 0); [contradiction|reflexivity].
  - unfold rd. rewrite nth_error_map, nth_error_firstn_lt by lia. rewrite nth_error_skipn_add.
    replace (S (N.to_nat p) + N.to_nat (j - (idx3 b + p + 1) - 1))%nat
      with (N.to_nat (j - idx3 b - 1)) by lia.
    destruct (rd_lt_some (offs b) (j - idx3 b - 1) ltac:(lia)) as [x Hx].
    unfold rd in Hx. rewrite Hx. cbn [option_map].
    destruct (wf_rd b _ x Hwf Hx) as [Hx32 _].
    unfold tail_entry. rewrite Hkg. cbn [andb].
    destruct (Hfit (j - idx3 b - 1) x ltac:(lia) ltac:(lia) Hx) as [Hz|Hgt].
    + subst x. reflexivity.
    + destruct (N.eqb_spec x 0); [lia|].
      rewrite u32_sub_gt by assumption.
      destruct (N.eqb_spec (x - bo) 0); [lia|]. f_equal. lia.
Qed.

Lemma wf_run_of : forall v b p bo len,
  keep_gaps v = true -> wf_block b -> rd (offs b) p = Some bo ->
  (S (N.to_nat p) + len <= length (offs b))%nat ->
  (forall k x, p < k -> k <= p + N.of_nat len -> rd (offs b) k = Some x -> entry_fits bo x) ->
  wf_block (run_of v b p bo len).
Proof.
  intros v b p bo len Hkg Hwf Hbo Hlen Hfit.
  pose proof Hwf as [Hn [Hfp Hall]]. unfold PFN_IDX3_SIZE in *.
  destruct (wf_rd b p bo Hwf Hbo) as [Hbo32 Hbofp].
  split; [rewrite blk_n_run_of by exact Hlen; cbn [run_of idx3]; unfold blk_n in Hn; unfold PFN_IDX3_SIZE; lia|].
  split; [exact Hbofp|].
  cbn [run_of offs filepos]. apply Forall_forall. intros y Hy.
  apply In_nth_error in Hy. destruct Hy as [i Hi].
  assert (Hil : (i < len)%nat).
  { assert (Hlt : (i < length (map (tail_entry v bo) (firstn len (skipn (S (N.to_nat p)) (offs b)))))%nat)
      by (apply nth_error_Some; rewrite Hi; discriminate).
    rewrite map_length, firstn_length in Hlt. lia. }
  rewrite nth_error_map, nth_error_firstn_lt, nth_error_skipn_add in Hi by exact Hil.
  destruct (nth_error (offs b) (S (N.to_nat p) + i)) as [x|] eqn:Hx; [|discriminate].
  cbn in Hi. inversion Hi; subst y. split; [apply tail_entry_lt|].
  assert (Hrd : rd (offs b) (N.of_nat (S (N.to_nat p) + i)) = Some x) by (unfold rd; now rewrite Nat2N.id).
  destruct (wf_rd b _ x Hwf Hrd) as [Hx32 Hxfp].
  unfold tail_entry. rewrite Hkg. cbn [andb].
  destruct (Hfit (N.of_nat (S (N.to_nat p) + i)) x ltac:(lia) ltac:(lia) Hrd) as [Hz|Hgt].
  - subst x. cbn [N.eqb]. lia.
  - destruct (N.eqb_spec x 0); [lia|]. rewrite u32_sub_gt by assumption. lia.
Qed.

Definition after_block (b : block) (post : list block) : Prop :=
  match post with [] => True | nb :: _ => idx3 b + blk_n b < idx3 nb end.

Lemma runs_lookup : forall v o b post fuel first p bo tls,
  keep_gaps v = true -> wf_block b -> after_block b post -> chain_sorted post ->
  p < blk_n b -> rd (offs b) p = Some bo -> bo <> 0 -> blk_n b - p <= N.of_nat fuel ->
  alloc_tail_runs fuel v o first b p = TsOk tls ->
  exists t rest, tls = t :: rest /\ idx3 t = idx3 b + p + 1 /\
    (forall j, idx3 b + p < j -> chain_lookup (tls ++ post) j = chain_lookup (b :: post) j) /\
    chain_sorted (tls ++ post) /\
    Forall (fun t => wf_block t /\ idx3 b + p < idx3 t /\ idx3 t + blk_n t <= idx3 b + blk_n b) tls.
Proof.
  intros v o b post fuel. induction fuel as [|f IH];
    intros first p bo tls Hkg Hwf Hafter Hpost Hp Hbo Hnz Hfuel H.
  { cbn [alloc_tail_runs] in H. discriminate. }
  pose proof Hwf as [Hn [Hfp Hall]]. unfold PFN_IDX3_SIZE in Hn.
  assert (HU : forall x, x < 4096 -> x < U32) by (unfold U32; lia).
  assert (Hn16 : N.of_nat (length (offs b)) < U16) by (unfold blk_n in Hn; unfold U16; lia).
  cbn [alloc_tail_runs] in H.
  destruct (if first then fail_malloc o else fail_malloc2 o); [discriminate|].
  unfold blk_n in H, Hp.
  rewrite (N.mod_small (N.of_nat (length (offs b)))) in H by exact Hn16.
  rewrite (N.mod_small p) in H by lia.
  replace ((N.of_nat (length (offs b)) + 2 * U16 - p - 1) mod U16)
    with (N.of_nat (length (offs b)) - p - 1) in H.
  2:{ replace (N.of_nat (length (offs b)) + 2 * U16 - p - 1)
        with ((N.of_nat (length (offs b)) - p - 1) + 2 * U16) by lia.
      rewrite N.mod_add by (unfold U16; lia). symmetry; apply N.mod_small. lia. }
  destruct (realloc_pfn_offs v _ [] (N.of_nat (length (offs b)) - p - 1)); try discriminate.
  rewrite Hbo in H.
  destruct (wf_rd b p bo Hwf Hbo) as [Hbo32 Hbofp].
  destruct (N.leb_spec OFF_LIMIT (filepos b + bo)); [lia|].
  rewrite (N.mod_small (idx3 b + p + 1)) in H by (apply HU; unfold blk_n in Hn; lia).
  assert (Horig : forall j, idx3 b + p < j -> j <= idx3 b + blk_n b ->
            chain_lookup (b :: post) j = block_off b j).
  { intros j Hj1 Hj2. apply chain_lookup_here; [lia|exact Hj2|apply HU; lia|].
    apply next_le_false. destruct post as [|nb r]; [exact I|]. cbn [after_block] in Hafter. lia. }
  assert (Hbeyond : forall j, idx3 b + blk_n b < j ->
            chain_lookup (b :: post) j = chain_lookup post j).
  { intros j Hj. apply chain_lookup_skip; [lia|apply HU; lia|left; exact Hj]. }
  destruct (copy_cut_spec v (offs b) bo (N.to_nat (N.of_nat (length (offs b)) - p - 1)) p Hn16 ltac:(lia))
    as [[r [Hr [Hrv Hfit]]]|[r [q [x [Hr [Hq1 [Hq2 [Hrv [Hfit [Hx [Hxnz Hxle]]]]]]]]]]];
    rewrite Hr in H.
  - (* one block up to the end *)
    set (len := N.to_nat (N.of_nat (length (offs b)) - p - 1)) in *.
    assert (Hlen : (S (N.to_nat p) + len <= length (offs b))%nat) by (subst len; lia).
    assert (Ht : tls = [run_of v b p bo len]).
    { inversion H. unfold run_of. now rewrite Hrv. }
    pose proof (blk_n_run_of v b p bo len Hlen) as Hbn.
    assert (Hwfr : wf_block (run_of v b p bo len)) by (apply wf_run_of; assumption).
    exists (run_of v b p bo len), []. split; [exact Ht|]. split; [reflexivity|]. subst tls.
    split; [|split].
    + intros j Hj. cbn [app].
      destruct (N.le_gt_cases j (idx3 b + blk_n b)) as [Hin|Hout].
      * rewrite chain_lookup_here; [|cbn [run_of idx3]; lia|rewrite Hbn; cbn [run_of idx3]; unfold blk_n in Hin; subst len; lia
                                    |rewrite Hbn; cbn [run_of idx3]; apply HU; unfold blk_n in Hn; subst len; lia|].
        2:{ apply next_le_false. destruct post as [|nb r']; [exact I|]. cbn [after_block] in Hafter. lia. }
        rewrite Horig by assumption.
        apply block_off_run; try assumption; [lia|unfold blk_n in Hin; subst len; lia].
      * rewrite chain_lookup_skip; [|cbn [run_of idx3]; lia
                                    |rewrite Hbn; cbn [run_of idx3]; apply HU; unfold blk_n in Hn; subst len; lia
                                    |left; rewrite Hbn; cbn [run_of idx3]; unfold blk_n in Hout; subst len; lia].
        symmetry. now apply Hbeyond.
    + cbn [app chain_sorted]. split; [|exact Hpost].
      destruct post as [|nb r']; [exact I|]. cbn [after_block] in Hafter.
      rewrite Hbn. cbn [run_of idx3]. unfold blk_n in Hafter. subst len. lia.
    + constructor; [|constructor]. split; [exact Hwfr|].
      rewrite Hbn. cbn [run_of idx3]. unfold blk_n. subst len. lia.
  - (* the block ends in front of position q; the rest comes from the recursive call *)
    destruct (alloc_tail_runs f v o false b q) as [later| | |] eqn:Hrec; try discriminate.
    set (len := N.to_nat (q - p - 1)) in *.
    assert (Hlen : (S (N.to_nat p) + len <= length (offs b))%nat) by (subst len; lia).
    assert (Hfit' : forall k y, p < k -> k <= p + N.of_nat len -> rd (offs b) k = Some y -> entry_fits bo y).
    { intros k y H1 H2 Hy. apply (Hfit k y); [exact H1|subst len; lia|exact Hy]. }
    assert (Ht : tls = run_of v b p bo len :: later).
    { inversion H. unfold run_of. now rewrite Hrv. }
    pose proof (blk_n_run_of v b p bo len Hlen) as Hbn.
    assert (Hwfr : wf_block (run_of v b p bo len)) by (apply wf_run_of; assumption).
    destruct (IH false q x later Hkg Hwf Hafter Hpost ltac:(unfold blk_n; lia) Hx Hxnz
                 ltac:(unfold blk_n in *; lia) Hrec)
      as [t2 [rest2 [Hl [Ht2 [Hlook [Hsorted Hall2]]]]]].
    exists (run_of v b p bo len), later. split; [exact Ht|]. split; [reflexivity|]. subst tls.
    split; [|split].
    + intros j Hj. cbn [app].
      destruct (N.le_gt_cases j (idx3 b + q)) as [Hin|Hout].
      * rewrite chain_lookup_here; [|cbn [run_of idx3]; lia|rewrite Hbn; cbn [run_of idx3]; subst len; lia
                                    |rewrite Hbn; cbn [run_of idx3]; apply HU; unfold blk_n in Hn; subst len; lia|].
        2:{ subst later. cbn [app next_le]. rewrite Ht2.
            destruct (N.leb_spec (idx3 b + q + 1) j); [lia|reflexivity]. }
        rewrite Horig by (unfold blk_n; lia).
        apply block_off_run; try assumption; [lia|subst len; lia].
      * rewrite chain_lookup_skip; [|cbn [run_of idx3]; lia
                                    |rewrite Hbn; cbn [run_of idx3]; apply HU; unfold blk_n in Hn; subst len; lia
                                    |left; rewrite Hbn; cbn [run_of idx3]; subst len; lia].
        apply Hlook. lia.
    + cbn [app chain_sorted]. split; [|exact Hsorted].
      subst later. cbn [app]. rewrite Hbn, Ht2. cbn [run_of idx3]. subst len. lia.
    + constructor.
      * split; [exact Hwfr|]. rewrite Hbn. cbn [run_of idx3]. unfold blk_n. subst len. lia.
      * eapply Forall_impl; [|exact Hall2]. cbn beta. intros a [Ha1 [Ha2 Ha3]].
        split; [exact Ha1|]. split; [lia|exact Ha3].
Qed.

Lemma split_chain_generic : forall b idx post p tls,
  wf_block b -> 1 <= idx -> idx3 b + idx < PFN_IDX3_SIZE -> follows b idx post ->
  idx <= p -> (forall q, idx <= q -> q < p -> rd (offs b) q = Some 0) ->
  ((blk_n b <= p /\ tls = []) \/
   (p < blk_n b /\ exists t rest, tls = t :: rest /\ idx3 t = idx3 b + p + 1 /\
      forall j, idx3 b + p < j -> chain_lookup (tls ++ post) j = chain_lookup (b :: post) j)) ->
  chain_lookup (head_of b idx :: tls ++ post) (idx3 b + idx) = LkNone /\
  forall j, j <> idx3 b + idx ->
    chain_lookup (head_of b idx :: tls ++ post) j = chain_lookup (b :: post) j.
Proof.
  intros b idx post p tls Hwf H1 Hidx Hfol Hle Hzero Hcases.
  pose proof Hwf as [Hn [Hfp Hall]]. unfold PFN_IDX3_SIZE in *.
  assert (HU : forall x, x < 4096 -> x < U32) by (unfold U32; lia).
  pose proof (blk_n_head_of b idx) as Hhn.
  assert (Hhead : forall rest j, idx3 b <= j -> j < idx3 b + idx -> next_le rest j = false ->
            chain_lookup (head_of b idx :: rest) j = chain_lookup (b :: post) j).
  { intros rest j Hj1 Hj2 Hnl.
    rewrite chain_lookup_here; [|exact Hj1|rewrite Hhn; cbn [head_of idx3]; lia
                                |rewrite Hhn; cbn [head_of idx3]; apply HU; lia|exact Hnl].
    rewrite block_off_head by assumption.
    destruct (N.leb_spec j (idx3 b + blk_n b)) as [Hin|Hout].
    - rewrite chain_lookup_here; [reflexivity|exact Hj1|exact Hin|apply HU; lia|].
      apply next_le_false. eapply follows_lt; [exact Hfol|lia].
    - rewrite chain_lookup_skip; [|exact Hj1|apply HU; lia|left; lia].
      symmetry. apply chain_lookup_before. eapply follows_lt; [exact Hfol|lia]. }
  assert (Horig_gap : forall j, idx3 b + idx < j -> j <= idx3 b + blk_n b -> j - idx3 b - 1 < p ->
            chain_lookup (b :: post) j = LkNone).
  { intros j Hj1 Hj2 Hj3.
    rewrite chain_lookup_here; [|lia|exact Hj2|apply HU; lia|].
    2:{ apply next_le_false. eapply follows_lt; [exact Hfol|lia]. }
    unfold block_off. destruct (N.leb_spec j (idx3 b)); [lia|].
    rewrite (Hzero (j - idx3 b - 1)) by lia. reflexivity. }
  assert (Hskip_head : forall j, idx3 b + idx <= j ->
            chain_lookup (head_of b idx :: tls ++ post) j = chain_lookup (tls ++ post) j).
  { intros j Hj. apply chain_lookup_skip; [cbn [head_of idx3]; lia
      |rewrite Hhn; cbn [head_of idx3]; apply HU; lia|left; rewrite Hhn; cbn [head_of idx3]; lia]. }
  destruct Hcases as [[Hge ->]|[Hlt [t [rest [-> [Ht Hlook]]]]]].
  - cbn [app] in *. split.
    + rewrite Hskip_head by lia. apply chain_lookup_before. eapply follows_lt; [exact Hfol|lia].
    + intros j Hj.
      destruct (N.lt_ge_cases j (idx3 b)) as [Hb|Ha].
      { rewrite !chain_lookup_below; [reflexivity|exact Hb|exact Hb]. }
      destruct (N.lt_ge_cases j (idx3 b + idx)) as [Hh|Hh].
      { apply Hhead; [exact Ha|exact Hh|]. apply next_le_false. eapply follows_lt; [exact Hfol|lia]. }
      rewrite Hskip_head by exact Hh.
      destruct (N.le_gt_cases j (idx3 b + blk_n b)) as [Hin|Hout].
      * rewrite Horig_gap; [|lia|exact Hin|lia].
        apply chain_lookup_before. eapply follows_lt; [exact Hfol|lia].
      * rewrite (chain_lookup_skip b); [reflexivity|exact Ha|apply HU; lia|left; lia].
  - split.
    + rewrite Hskip_head by lia. cbn [app]. apply chain_lookup_below. lia.
    + intros j Hj.
      destruct (N.lt_ge_cases j (idx3 b)) as [Hb|Ha].
      { rewrite !chain_lookup_below; [reflexivity|exact Hb|exact Hb]. }
      destruct (N.lt_ge_cases j (idx3 b + idx)) as [Hh|Hh].
      { apply Hhead; [exact Ha|exact Hh|]. cbn [app next_le]. rewrite Ht.
        destruct (N.leb_spec (idx3 b + p + 1) j); [lia|reflexivity]. }
      rewrite Hskip_head by exact Hh.
      destruct (N.le_gt_cases j (idx3 b + p)) as [Hg|Hg].
      * cbn [app]. rewrite chain_lookup_below by lia. symmetry. apply Horig_gap; lia.
      * now apply Hlook.
Qed.

(** The proposed repair (fixes 82 + 83 + 84): every well-formed block, every split point the
    caller can produce, no hypothesis about the order of the pages in the file. *)
Theorem lkcd_split84_preserves_lookup : forall v o pre b post idx ch,
  cut_runs v = true -> keep_gaps v = true ->
  wf_block b -> 1 <= idx -> idx3 b + idx < PFN_IDX3_SIZE -> follows b idx post ->
  chain_sorted post ->
  split_pfn_block v o b idx = SplitOk ch ->
  (forall j, j <> idx3 b + idx ->
     chain_lookup (pre ++ ch ++ post) j = chain_lookup (pre ++ b :: post) j) /\
  chain_lookup (ch ++ post) (idx3 b + idx) = LkNone /\
  chain_sorted (ch ++ post) /\ Forall wf_block ch.
Proof.
  intros v o pre b post idx ch Hcut Hkg Hwf H1 Hidx Hfol Hpost H.
  pose proof Hwf as [Hn [Hfp Hall]]. unfold PFN_IDX3_SIZE in *.
  assert (Hn16 : N.of_nat (length (offs b)) < U16) by (unfold blk_n in Hn; unfold U16; lia).
  assert (Hafter : after_block b post).
  { destruct post as [|nb r]; [exact I|]. cbn [follows] in Hfol. cbn [after_block]. lia. }
  unfold split_pfn_block in H. rewrite Hcut in H. unfold blk_n in H.
  rewrite u16_small in H by (unfold U16; lia).
  destruct (scan_gap_spec (S (length (offs b))) (offs b) idx Hn16 ltac:(lia))
    as [p [Hp [Hle [Hzero [Hk Hend]]]]].
  rewrite Hp in H. rewrite u16_dec_small in H by (unfold U16; lia).
  pose proof (blk_n_head_of b idx) as Hhn.
  assert (Hwfh : wf_block (head_of b idx)).
  { split; [rewrite Hhn; cbn [head_of idx3]; unfold PFN_IDX3_SIZE; lia|].
    split; [exact Hfp|]. cbn [head_of offs filepos]. apply Forall_resize; [|exact Hall].
    unfold U32. lia. }
  assert (Hfinish : forall tls,
     match realloc_pfn_offs v (fail_head o) (offs b) (idx - 1) with
     | ROk l => SplitOk ({| filepos := filepos b; idx3 := idx3 b; offs := l |} :: tls)
     | RFail => SplitStale (idx - 1) (b :: tls)
     | RFreed => SplitFreed ({| filepos := filepos b; idx3 := idx3 b; offs := [] |} :: tls)
     end = SplitOk ch -> ch = head_of b idx :: tls).
  { intros tls Hm. destruct (realloc_pfn_offs v (fail_head o) (offs b) (idx - 1)) eqn:Hh; try discriminate.
    apply realloc_ok_resize in Hh. inversion Hm. subst l. reflexivity. }
  destruct (N.ltb_spec p (N.of_nat (length (offs b)))) as [Hlt|Hge].
  - destruct (Hk Hlt) as [bo [Hbo Hnz]].
    destruct (alloc_tail_runs (S (length (offs b))) v o true b p) as [tls| | |] eqn:Hruns; try discriminate.
    apply Hfinish in H. subst ch.
    destruct (runs_lookup v o b post (S (length (offs b))) true p bo tls Hkg Hwf Hafter Hpost ltac:(unfold blk_n; lia) Hbo Hnz
                ltac:(unfold blk_n; lia) Hruns)
      as [t [rest [Htls [Ht [Hlook [Hsorted Hall2]]]]]].
    destruct (split_chain_generic b idx post p tls Hwf H1 ltac:(unfold PFN_IDX3_SIZE; lia) Hfol Hle Hzero)
      as [Hscanned Hothers].
    { right. split; [unfold blk_n; lia|]. exists t, rest. now repeat split. }
    split; [|split; [exact Hscanned|split]].
    + intros j Hj. cbn [app]. apply chain_lookup_prefix; [reflexivity|]. now apply Hothers.
    + cbn [app chain_sorted]. split; [|exact Hsorted].
      subst tls. cbn [app]. rewrite Hhn, Ht. cbn [head_of idx3]. lia.
    + constructor; [exact Hwfh|]. eapply Forall_impl; [|exact Hall2]. cbn beta. now intros a [Ha _].
  - apply Hfinish in H. subst ch.
    destruct (split_chain_generic b idx post p [] Hwf H1 ltac:(unfold PFN_IDX3_SIZE; lia) Hfol Hle Hzero)
      as [Hscanned Hothers].
    { left. split; [unfold blk_n; lia|reflexivity]. }
    split; [|split; [exact Hscanned|split]].
    + intros j Hj. cbn [app]. apply chain_lookup_prefix; [reflexivity|]. now apply Hothers.
    + cbn [app chain_sorted]. split; [|exact Hpost].
      destruct post as [|nb r]; [exact I|]. cbn [follows] in Hfol. rewrite Hhn. cbn [head_of idx3]. lia.
    + constructor; [exact Hwfh|constructor].
Qed.

(* the unordered block of [lkcd_split_unordered_tail_refuted] under the proposed repair *)
Example lkcd_split84_unordered_example :
  split_pfn_block repaired84 no_failure
    {| filepos := 0x1000; idx3 := 0; offs := [0x10; 0; 0x50; 0; 0x30] |} 2 =
  SplitOk [ {| filepos := 0x1000; idx3 := 0; offs := [0x10] |};
            {| filepos := 0x1050; idx3 := 3; offs := [0] |};
            {| filepos := 0x1030; idx3 := 5; offs := [] |} ].
Proof. vm_compute. reflexivity. Qed.

Lemma realloc_nil : forall v f k,
  realloc_pfn_offs v f [] k =
  if k =? 0 then ROk [] else if f then RFail else ROk (resize (N.to_nat k) []).
Proof.
  intros v f k. unfold realloc_pfn_offs. cbn [length N.of_nat].
  destruct (k =? 0); reflexivity.
Qed.

Lemma runs_total : forall v o b fuel first p,
  wf_block b -> p < blk_n b -> blk_n b - p <= N.of_nat fuel ->
  (exists tls, alloc_tail_runs fuel v o first b p = TsOk tls) \/
  (alloc_tail_runs fuel v o first b p = TsErr /\ o <> no_failure).
Proof.
  intros v o b fuel. induction fuel as [|f IH]; intros first p Hwf Hp Hfuel; [lia|].
  pose proof Hwf as [Hn [Hfp Hall]]. unfold PFN_IDX3_SIZE in Hn.
  assert (Hn16 : N.of_nat (length (offs b)) < U16) by (unfold blk_n in Hn; unfold U16; lia).
  cbn [alloc_tail_runs].
  destruct (if first then fail_malloc o else fail_malloc2 o) eqn:Hfm.
  { right. split; [reflexivity|]. intros ->. destruct first; discriminate. }
  unfold blk_n in *.
  rewrite (N.mod_small (N.of_nat (length (offs b)))) by exact Hn16.
  rewrite (N.mod_small p) by lia.
  replace ((N.of_nat (length (offs b)) + 2 * U16 - p - 1) mod U16)
    with (N.of_nat (length (offs b)) - p - 1).
  2:{ replace (N.of_nat (length (offs b)) + 2 * U16 - p - 1)
        with ((N.of_nat (length (offs b)) - p - 1) + 2 * U16) by lia.
      rewrite N.mod_add by (unfold U16; lia). symmetry; apply N.mod_small. lia. }
  rewrite realloc_nil.
  destruct (N.of_nat (length (offs b)) - p - 1 =? 0) eqn:Hnn.
  2:{ destruct (if first then fail_tail o else fail_tail2 o) eqn:Hft.
      { right. split; [reflexivity|]. intros ->. destruct first; discriminate. }
      destruct (rd_lt_some (offs b) p Hp) as [bo Hbo]. rewrite Hbo.
      destruct (wf_rd b p bo Hwf Hbo) as [Hbo32 Hbofp].
      destruct (N.leb_spec OFF_LIMIT (filepos b + bo)); [lia|].
      destruct (copy_cut_spec v (offs b) bo (N.to_nat (N.of_nat (length (offs b)) - p - 1)) p Hn16 ltac:(lia))
        as [[r [Hr _]]|[r [q [x [Hr [Hq1 [Hq2 _]]]]]]]; rewrite Hr.
      - left. now eexists.
      - destruct (IH false q Hwf ltac:(lia) ltac:(lia)) as [[later Hl]|[He Ho]]; rewrite ?Hl, ?He.
        + left. now eexists.
        + right. now split. }
  destruct (rd_lt_some (offs b) p Hp) as [bo Hbo]. rewrite Hbo.
  destruct (wf_rd b p bo Hwf Hbo) as [Hbo32 Hbofp].
  destruct (N.leb_spec OFF_LIMIT (filepos b + bo)); [lia|].
  apply N.eqb_eq in Hnn. rewrite Hnn. cbn [N.to_nat copy_cut]. left. now eexists.
Qed.

Theorem lkcd_split84_total : forall v o b idx,
  cut_runs v = true ->
  wf_block b -> 1 <= idx -> idx3 b + idx < PFN_IDX3_SIZE ->
  split_pfn_block v o b idx <> SplitOOB /\ split_pfn_block v o b idx <> SplitUB /\
  (free_on_zero v = true -> forall ch, split_pfn_block v o b idx <> SplitFreed ch) /\
  (free_on_zero v = true -> o = no_failure -> exists ch, split_pfn_block v o b idx = SplitOk ch).
Proof.
  intros v o b idx Hcut Hwf H1 Hidx.
  pose proof Hwf as [Hn [Hfp Hall]]. unfold PFN_IDX3_SIZE in *. unfold blk_n in *.
  assert (Hn16 : N.of_nat (length (offs b)) < U16) by (unfold U16; lia).
  unfold split_pfn_block, blk_n. rewrite Hcut.
  rewrite u16_small by (unfold U16; lia).
  destruct (scan_gap_spec (S (length (offs b))) (offs b) idx Hn16 ltac:(lia))
    as [p [Hp [Hle [Hzero [Hk Hend]]]]].
  rewrite Hp. rewrite u16_dec_small by (unfold U16; lia).
  assert (Hhead : forall tails,
     let r := match realloc_pfn_offs v (fail_head o) (offs b) (idx - 1) with
     | ROk l => SplitOk ({| filepos := filepos b; idx3 := idx3 b; offs := l |} :: tails)
     | RFail => SplitStale (idx - 1) (b :: tails)
     | RFreed => SplitFreed ({| filepos := filepos b; idx3 := idx3 b; offs := [] |} :: tails)
     end in
     r <> SplitOOB /\ r <> SplitUB /\
     (free_on_zero v = true -> forall ch, r <> SplitFreed ch) /\
     (free_on_zero v = true -> o = no_failure -> exists ch, r = SplitOk ch)).
  { intros tails. cbv zeta. unfold realloc_pfn_offs.
    destruct (idx - 1 =? N.of_nat (length (offs b))).
    { repeat split; try discriminate. intros _ _. now eexists. }
    destruct (idx - 1 =? 0).
    { destruct (free_on_zero v); repeat split; try discriminate.
      intros _ _. now eexists. }
    destruct (fail_head o) eqn:Hfh; repeat split; try discriminate.
    - intros _ ->. discriminate.
    - intros _ _. now eexists. }
  destruct (N.ltb_spec p (N.of_nat (length (offs b)))) as [Hlt|Hge]; [|apply Hhead].
  destruct (runs_total v o b (S (length (offs b))) true p Hwf ltac:(unfold blk_n; lia)
              ltac:(unfold blk_n; lia)) as [[tls Ht]|[He Ho]].
  - rewrite Ht. apply Hhead.
  - rewrite He. repeat split; try discriminate. intros _ Hno. contradiction.
Qed.
