(** Proofs that the model of map.c refines the total-function specification. *)
From Coq Require Import NArith ZArith List Bool Lia.
From KdV Require Import Base.Wrap64 Map.MapModel Map.MapSpec.
Import ListNotations.
Local Open Scope N_scope.

(** * Basic facts about [total] and [denote_from] *)

Lemma total_app a b : total (a ++ b) = total a + total b.
Proof. induction a as [|r a IH]; cbn [app total]; lia. Qed.

Lemma total_rev l : total (rev l) = total l.
Proof.
  induction l as [|r l IH]; cbn [rev total]; [reflexivity|].
  rewrite total_app. cbn [total]. lia.
Qed.

Lemma total_0_nil m : total m = 0 -> m = [].
Proof. destruct m as [|r m]; cbn [total]; [reflexivity|lia]. Qed.

Lemma denote_app_l l1 l2 base x :
  base <= x -> x < base + total l1 ->
  denote_from base (l1 ++ l2) x = denote_from base l1 x.
Proof.
  revert base. induction l1 as [|r l1 IH]; intros base Hb H; cbn [total] in H.
  - lia.
  - cbn [app denote_from].
    destruct (N.leb_spec x (base + endoff r)); [reflexivity|].
    apply IH; lia.
Qed.

Lemma denote_app_r l1 l2 base x :
  base + total l1 <= x ->
  denote_from base (l1 ++ l2) x = denote_from (base + total l1) l2 x.
Proof.
  revert base. induction l1 as [|r l1 IH]; intros base H; cbn [total] in *.
  - cbn [app]. now rewrite N.add_0_r.
  - cbn [app denote_from].
    destruct (N.leb_spec x (base + endoff r)); [lia|].
    rewrite IH by lia. f_equal. lia.
Qed.

(** Below the start, the first range answers (the C code never asks). *)
Lemma denote_from_past base m x :
  base + total m <= x -> denote_from base m x = NONE.
Proof.
  revert base. induction m as [|r m IH]; intros base H; cbn [total denote_from] in *;
    [reflexivity|].
  destruct (N.leb_spec x (base + endoff r)); [lia|]. apply IH. lia.
Qed.

(** * [map_search] computes [denote] *)

Lemma search_from_denote m : forall raddr addr,
  raddr + total m <= W -> addr < W ->
  map_search_from m raddr addr = denote_from raddr m addr.
Proof.
  induction m as [|r m IH]; intros raddr addr Ht Ha; cbn [map_search_from denote_from];
    [reflexivity|].
  cbn [total] in Ht.
  rewrite (wadd_small raddr (endoff r)) by lia.
  destruct (N.leb_spec addr (raddr + endoff r)); [reflexivity|].
  rewrite (wadd_small (endoff r) 1) by lia.
  rewrite wadd_small by lia.
  rewrite IH by lia. f_equal. lia.
Qed.

Theorem search_is_denote m addr :
  tiles m -> addr < W -> map_search m addr = denote m addr.
Proof.
  intros [->|Ht] Ha; [reflexivity|].
  unfold map_search, denote. apply search_from_denote; lia.
Qed.

(** * The two scanning loops *)

Lemma find_first_spec rs : forall pre raddr addr,
  raddr = total pre -> total pre + total rs = W -> addr < W -> total pre <= addr ->
  exists pre' fr rest0,
    find_first pre rs raddr addr = (pre', fr :: rest0, total pre') /\
    rev pre' ++ fr :: rest0 = rev pre ++ rs /\
    total pre' <= addr /\ addr <= total pre' + endoff fr.
Proof.
  induction rs as [|r rs IH]; intros pre raddr addr -> Ht Ha Hp.
  - cbn [total] in Ht. lia.
  - cbn [find_first]. cbn [total] in Ht.
    rewrite (wadd_small (total pre) (endoff r)) by lia.
    destruct (N.leb_spec addr (total pre + endoff r)) as [Hle|Hgt].
    + exists pre, r, rs. repeat split; assumption.
    + rewrite (wadd_small (endoff r) 1) by lia.
      rewrite wadd_small by lia.
      destruct (IH (r :: pre) (total pre + (endoff r + 1)) addr) as (pre' & fr & rest0 & Hf & Hl & H1 & H2).
      * cbn [total]. lia.
      * cbn [total]. lia.
      * exact Ha.
      * cbn [total]. lia.
      * exists pre', fr, rest0. repeat split; try assumption.
        rewrite Hl. cbn [rev]. now rewrite <- app_assoc.
Qed.

Definition hd_block (cov : list range) (lr : range) : range :=
  match cov with [] => lr | c :: _ => c end.

Lemma find_last_spec rest : forall lr s rend end_ delta,
  rend = s + endoff lr -> s + total (lr :: rest) = W -> end_ < W -> s <= end_ + 1 ->
  exists cov lr' rest',
    find_last lr rest rend end_ delta
      = Ok (lr', rest', s + total cov + endoff lr', (delta - Z.of_nat (length cov))%Z) /\
    lr :: rest = cov ++ lr' :: rest' /\
    hd_block cov lr' = lr /\
    s + total cov <= end_ + 1 /\ end_ <= s + total cov + endoff lr'.
Proof.
  induction rest as [|r rest IH]; intros lr s rend end_ delta -> Ht He Hs;
    cbn [find_last]; cbn [total] in Ht.
  - destruct (N.leb_spec end_ (s + endoff lr)) as [Hle|Hgt]; [|lia].
    exists [], lr, []. cbn [total length app hd_block]. rewrite N.add_0_r, Z.sub_0_r.
    repeat split; try reflexivity; lia.
  - destruct (N.leb_spec end_ (s + endoff lr)) as [Hle|Hgt].
    + exists [], lr, (r :: rest). cbn [total length app hd_block].
      rewrite N.add_0_r, Z.sub_0_r. repeat split; try reflexivity; lia.
    + rewrite (wadd_small (endoff r) 1) by lia.
      rewrite wadd_small by lia.
      destruct (IH r (s + endoff lr + 1) (s + endoff lr + (endoff r + 1)) end_ (delta - 1)%Z)
        as (cov & lr' & rest' & Hf & Hl & Hh & H1 & H2).
      * lia.
      * cbn [total]. lia.
      * exact He.
      * lia.
      * exists (lr :: cov), lr', rest'. cbn [total length app hd_block].
        rewrite Hf. repeat split.
        -- f_equal. f_equal; [f_equal; lia|lia].
        -- now rewrite Hl.
        -- lia.
        -- lia.
Qed.

(** * The replaced block *)

(** What the block [cov ++ [lr]] starting at [raddr] denotes at its two ends. *)
Lemma block_low cov lr raddr x tl :
  x <= raddr + endoff (hd_block cov lr) ->
  denote_from raddr (cov ++ lr :: tl) x = meth (hd_block cov lr).
Proof.
  intro H. destruct cov as [|c cov]; cbn [app denote_from hd_block] in *.
  - destruct (N.leb_spec x (raddr + endoff lr)); [reflexivity|lia].
  - destruct (N.leb_spec x (raddr + endoff c)); [reflexivity|lia].
Qed.

Lemma block_high cov lr raddr x tl :
  raddr + total cov <= x -> x <= raddr + total cov + endoff lr ->
  denote_from raddr (cov ++ lr :: tl) x = meth lr.
Proof.
  intros H1 H2. rewrite denote_app_r by exact H1.
  cbn [denote_from]. destruct (N.leb_spec x (raddr + total cov + endoff lr)); [reflexivity|lia].
Qed.

(** The new block: optional shrunk first, new range, optional shrunk last. *)
Definition new_block (fr lr : range) (raddr rend addr end_ extend : N) (r : range) : map :=
  (if raddr =? addr then []
   else [ {| endoff := wsub (wsub addr raddr) 1; meth := meth fr |} ])
  ++ [ {| endoff := wadd (endoff r) extend; meth := meth r |} ]
  ++ (if rend =? end_ then []
      else [ {| endoff := wsub (wsub rend end_) 1; meth := meth lr |} ]).

Lemma assemble_new_block pre fr lr rest raddr rend addr end_ extend r :
  assemble pre fr lr rest raddr rend addr end_ extend r
  = rev pre ++ new_block fr lr raddr rend addr end_ extend r ++ rest.
Proof. unfold assemble, new_block. now rewrite <- !app_assoc. Qed.

Lemma Zeqb_eq a b : Zeqb a b = true -> a = b.
Proof. apply Z.eqb_eq. Qed.

(** After "merge up/down": total and pointwise meaning of the new block.
    [raddr0, rend0] are the bounds of the old block. *)
Lemma new_block_spec fr lr raddr0 rend0 addr end_ r :
  raddr0 <= addr -> addr <= end_ -> end_ <= rend0 -> rend0 < W ->
  endoff r = end_ - addr ->
  let '(extend, raddr, rend) := merge_ud fr lr raddr0 rend0 addr end_ r in
  let nb := new_block fr lr raddr rend addr end_ extend r in
  total nb = rend0 - raddr0 + 1 /\
  (forall x, raddr0 <= x -> x <= rend0 ->
     denote_from raddr0 nb x =
       if (addr <=? x) && (x <=? end_) then meth r
       else if x <? addr then meth fr else meth lr) /\
  Z.of_nat (length nb) = (adj_delta 2 raddr rend addr end_ + 1)%Z.
Proof.
  intros H1 H2 H3 H4 He. pose proof W_pos as HW.
  unfold merge_ud, new_block, adj_delta.
  destruct (Zeqb (meth fr) (meth r)) eqn:Eu; destruct (Zeqb (meth lr) (meth r)) eqn:Ed;
    try apply Zeqb_eq in Eu; try apply Zeqb_eq in Ed.
  - (* merged both ways: one range *)
    rewrite !N.eqb_refl. cbn [app total length denote_from endoff meth].
    rewrite (wsub_le addr raddr0), (wsub_le rend0 end_) by lia.
    rewrite (wadd_small (addr - raddr0)), wadd_small by lia.
    split; [lia | split; [ | reflexivity]].
    intros x Hx1 Hx2.
    destruct (N.leb_spec x (raddr0 + (endoff r + (addr - raddr0 + (rend0 - end_))))); [|lia].
    destruct (N.leb_spec addr x); destruct (N.leb_spec x end_); cbn [andb]; try reflexivity;
      destruct (N.ltb_spec x addr); congruence.
  - (* merged up only *)
    rewrite N.eqb_refl. rewrite (wsub_le addr raddr0) by lia.
    rewrite wadd_small by lia.
    destruct (N.eqb_spec rend0 end_) as [->|Hne].
    + cbn [app total length denote_from endoff meth]. split; [lia | split; [ | reflexivity]].
      intros x Hx1 Hx2.
      destruct (N.leb_spec x (raddr0 + (endoff r + (addr - raddr0)))); [|lia].
      destruct (N.leb_spec addr x); destruct (N.leb_spec x end_); cbn [andb]; try reflexivity; try lia.
      destruct (N.ltb_spec x addr); [congruence|lia].
    + rewrite (wsub_le rend0 end_) by lia. rewrite wsub_le by lia.
      cbn [app total length denote_from endoff meth]. split; [lia | split; [ | reflexivity]].
      intros x Hx1 Hx2.
      destruct (N.leb_spec x (raddr0 + (endoff r + (addr - raddr0)))).
      * destruct (N.leb_spec addr x); destruct (N.leb_spec x end_); cbn [andb]; try reflexivity; try lia.
        destruct (N.ltb_spec x addr); [congruence|lia].
      * destruct (N.leb_spec x (raddr0 + (endoff r + (addr - raddr0)) + 1 + (rend0 - end_ - 1))); [|lia].
        destruct (N.leb_spec addr x); destruct (N.leb_spec x end_); cbn [andb]; try lia.
        destruct (N.ltb_spec x addr); [lia|reflexivity].
  - (* merged down only *)
    rewrite (N.eqb_refl end_). rewrite (wsub_le rend0 end_) by lia.
    rewrite (wadd_small 0), wadd_small by lia.
    rewrite (N.eqb_sym addr raddr0).
    destruct (N.eqb_spec raddr0 addr) as [->|Hne].
    + cbn [app total length denote_from endoff meth]. split; [lia | split; [ | reflexivity]].
      intros x Hx1 Hx2.
      destruct (N.leb_spec x (addr + (endoff r + (0 + (rend0 - end_))))); [|lia].
      destruct (N.leb_spec addr x); destruct (N.leb_spec x end_); cbn [andb]; try reflexivity; try lia.
      destruct (N.ltb_spec x addr); [lia|congruence].
    + rewrite (wsub_le addr raddr0) by lia. rewrite wsub_le by lia.
      cbn [app total length denote_from endoff meth]. split; [lia | split; [ | reflexivity]].
      intros x Hx1 Hx2.
      destruct (N.leb_spec x (raddr0 + (addr - raddr0 - 1))).
      * destruct (N.leb_spec addr x); destruct (N.leb_spec x end_); cbn [andb]; try lia.
        destruct (N.ltb_spec x addr); [reflexivity|lia].
      * destruct (N.leb_spec x (raddr0 + (addr - raddr0 - 1) + 1 + (endoff r + (0 + (rend0 - end_))))); [|lia].
        destruct (N.leb_spec addr x); destruct (N.leb_spec x end_); cbn [andb]; try reflexivity; try lia.
        destruct (N.ltb_spec x addr); [lia|congruence].
  - (* no merge *)
    rewrite wadd_small by lia.
    rewrite (N.eqb_sym addr raddr0).
    destruct (N.eqb_spec raddr0 addr) as [->|Hn1]; destruct (N.eqb_spec rend0 end_) as [->|Hn2];
      rewrite ?(wsub_le addr raddr0), ?(wsub_le rend0 end_) by lia;
      rewrite ?wsub_le by lia;
      cbn [app total length denote_from endoff meth]; (split; [lia | split; [ | reflexivity]]);
      intros x Hx1 Hx2.
    + destruct (N.leb_spec x (addr + (endoff r + 0))); [|lia].
      destruct (N.leb_spec addr x); destruct (N.leb_spec x end_); cbn [andb]; try reflexivity; lia.
    + destruct (N.leb_spec x (addr + (endoff r + 0))).
      * destruct (N.leb_spec addr x); destruct (N.leb_spec x end_); cbn [andb]; try reflexivity; lia.
      * destruct (N.leb_spec x (addr + (endoff r + 0) + 1 + (rend0 - end_ - 1))); [|lia].
        destruct (N.leb_spec addr x); destruct (N.leb_spec x end_); cbn [andb]; try lia.
        destruct (N.ltb_spec x addr); [lia|reflexivity].
    + destruct (N.leb_spec x (raddr0 + (addr - raddr0 - 1))).
      * destruct (N.leb_spec addr x); destruct (N.leb_spec x end_); cbn [andb]; try lia.
        destruct (N.ltb_spec x addr); [reflexivity|lia].
      * destruct (N.leb_spec x (raddr0 + (addr - raddr0 - 1) + 1 + (endoff r + 0))); [|lia].
        destruct (N.leb_spec addr x); destruct (N.leb_spec x end_); cbn [andb]; try reflexivity; lia.
    + destruct (N.leb_spec x (raddr0 + (addr - raddr0 - 1))).
      * destruct (N.leb_spec addr x); destruct (N.leb_spec x end_); cbn [andb]; try lia.
        destruct (N.ltb_spec x addr); [reflexivity|lia].
      * destruct (N.leb_spec x (raddr0 + (addr - raddr0 - 1) + 1 + (endoff r + 0))).
        -- destruct (N.leb_spec addr x); destruct (N.leb_spec x end_); cbn [andb]; try reflexivity; lia.
        -- destruct (N.leb_spec x (raddr0 + (addr - raddr0 - 1) + 1 + (endoff r + 0) + 1 + (rend0 - end_ - 1))); [|lia].
           destruct (N.leb_spec addr x); destruct (N.leb_spec x end_); cbn [andb]; try lia.
           destruct (N.ltb_spec x addr); [lia|reflexivity].
Qed.

(** * From the zipper to the plan *)

Lemma hd_block_snoc cov lr nx : hd_block (cov ++ [lr]) nx = hd_block cov lr.
Proof. destruct cov; reflexivity. Qed.

Lemma plan_tail_spec pre fr rest0 addr end_ r m :
  m = rev pre ++ fr :: rest0 -> total m = W ->
  total pre <= addr -> addr <= total pre + endoff fr + 1 -> addr <= end_ -> end_ < W ->
  exists cov lr rest,
    m = rev pre ++ cov ++ lr :: rest /\ hd_block cov lr = fr /\
    total pre + total cov <= end_ + 1 /\ end_ <= total pre + total cov + endoff lr /\
    total pre + total cov + endoff lr < W /\
    plan_tail pre (fr :: rest0) (total pre) addr end_ r =
      let '(extend, raddr, rend) :=
        merge_ud fr lr (total pre) (total pre + total cov + endoff lr) addr end_ r in
      Ok (pre, fr, lr, rest, raddr, rend, extend,
          adj_delta (2 - Z.of_nat (length cov)) raddr rend addr end_).
Proof.
  intros Hm Ht Hp Ha Hae He. pose proof W_pos as HW.
  assert (Htot : total pre + total (fr :: rest0) = W).
  { rewrite <- Ht, Hm, total_app, total_rev. reflexivity. }
  unfold plan_tail.
  rewrite (wadd_small (total pre) (endoff fr)) by (cbn [total] in Htot; lia).
  destruct (find_last_spec rest0 fr (total pre) (total pre + endoff fr) end_ 2%Z)
    as (cov & lr & rest & Hf & Hl & Hh & H1 & H2); [reflexivity|exact Htot|exact He|lia|].
  rewrite Hf.
  assert (Htot2 : total pre + total cov + (endoff lr + 1) + total rest = W).
  { rewrite Hl in Htot. rewrite total_app in Htot. cbn [total] in Htot. lia. }
  unfold merge_next.
  destruct rest as [|nx rest'].
  - exists cov, lr, []. rewrite Hm, Hl. cbn [total] in Htot2.
    repeat split; try assumption; try lia.
  - cbn [total] in Htot2.
    destruct ((total pre + total cov + endoff lr =? end_) && Zeqb (meth nx) (meth r)) eqn:E.
    + apply andb_prop in E. destruct E as [E1 E2]. apply N.eqb_eq in E1.
      exists (cov ++ [lr]), nx, rest'.
      rewrite hd_block_snoc, total_app, app_length. cbn [total length].
      rewrite (wadd_small (endoff nx) 1) by lia. rewrite wadd_small by lia.
      repeat split; try assumption; try lia.
      * rewrite Hm, Hl. now rewrite <- app_assoc.
      * replace (total pre + total cov + endoff lr + (endoff nx + 1))
          with (total pre + (total cov + (endoff lr + 1 + 0)) + endoff nx) by lia.
        destruct (merge_ud _ _ _ _ _ _ _) as [[? ?] ?].
        replace (2 - Z.of_nat (length cov + 1))%Z with (2 - Z.of_nat (length cov) - 1)%Z by lia.
        reflexivity.
    + exists cov, lr, (nx :: rest'). rewrite Hm, Hl.
      repeat split; try assumption; try lia.
Qed.

Definition plan_result (pre : list range) (fr lr : range) (rest cov : list range)
           (addr end_ : N) (r : range) :=
  let '(extend, raddr, rend) :=
    merge_ud fr lr (total pre) (total pre + total cov + endoff lr) addr end_ r in
  Ok (pre, fr, lr, rest, raddr, rend, extend,
      adj_delta (2 - Z.of_nat (length cov)) raddr rend addr end_).

Lemma set_plan_spec m addr r :
  total m = W -> addr + endoff r < W ->
  exists pre fr cov lr rest,
    m = rev pre ++ cov ++ lr :: rest /\ hd_block cov lr = fr /\
    total pre <= addr /\ addr <= total pre + endoff fr + 1 /\
    total pre + total cov <= addr + endoff r + 1 /\
    addr + endoff r <= total pre + total cov + endoff lr /\
    total pre + total cov + endoff lr < W /\
    set_plan m addr r = plan_result pre fr lr rest cov addr (addr + endoff r) r.
Proof.
  intros Ht Hr. pose proof W_pos as HW.
  destruct m as [|r0 m0]; [cbn [total] in Ht; lia|].
  unfold set_plan. rewrite (wadd_small addr (endoff r)) by exact Hr.
  destruct (find_first_spec (r0 :: m0) [] 0 addr) as (pre1 & fr1 & rest1 & Hf & Hl & H1 & H2);
    [reflexivity|cbn [total] in *; lia|lia|cbn [total]; lia|].
  rewrite Hf. cbn [rev app] in Hl.
  assert (Hmain : forall pre fr rest0,
    r0 :: m0 = rev pre ++ fr :: rest0 -> total pre <= addr -> addr <= total pre + endoff fr + 1 ->
    exists pre' fr' cov lr rest,
      r0 :: m0 = rev pre' ++ cov ++ lr :: rest /\ hd_block cov lr = fr' /\
      total pre' <= addr /\ addr <= total pre' + endoff fr' + 1 /\
      total pre' + total cov <= addr + endoff r + 1 /\
      addr + endoff r <= total pre' + total cov + endoff lr /\
      total pre' + total cov + endoff lr < W /\
      plan_tail pre (fr :: rest0) (total pre) addr (addr + endoff r) r
        = plan_result pre' fr' lr rest cov addr (addr + endoff r) r).
  { intros pre fr rest0 Hm Hp Ha.
    destruct (plan_tail_spec pre fr rest0 addr (addr + endoff r) r (r0 :: m0))
      as (cov & lr & rest & Q1 & Q2 & Q3 & Q4 & Q5 & Q6); try assumption; try lia.
    exists pre, fr, cov, lr, rest. repeat split; assumption. }
  unfold merge_prev.
  destruct (negb (total pre1 =? 0) && (total pre1 =? addr)) eqn:E.
  - apply andb_prop in E. destruct E as [E1 E2].
    apply negb_true_iff, N.eqb_neq in E1. apply N.eqb_eq in E2.
    destruct pre1 as [|p pre1']; [cbn [total] in E1; lia|].
    cbn [total] in *.
    destruct (Zeqb (meth p) (meth r)) eqn:Em.
    + rewrite (wadd_small (endoff p) 1) by lia. rewrite wsub_le by lia.
      replace (endoff p + 1 + total pre1' - (endoff p + 1)) with (total pre1') by lia.
      apply Hmain; [|lia|lia].
      rewrite <- Hl. cbn [rev]. now rewrite <- app_assoc.
    + change (endoff p + 1 + total pre1') with (total (p :: pre1')).
      apply Hmain; [now rewrite Hl|cbn [total]; lia|cbn [total]; lia].
  - apply Hmain; [now rewrite Hl|lia|lia].
Qed.

(** * Main results for one [map_set] *)

Lemma adj_delta_shift d k raddr rend addr end_ :
  adj_delta (d - k) raddr rend addr end_ = (adj_delta d raddr rend addr end_ - k)%Z.
Proof. unfold adj_delta. destruct (addr =? raddr); destruct (rend =? end_); lia. Qed.

Definition set_post (m : map) (addr : N) (r : range) (m' : map) (delta : Z) : Prop :=
  total m' = W /\
  (forall x, denote m' x = set_spec (denote m) addr (endoff r) (meth r) x) /\
  Z.of_nat (length m') = (Z.of_nat (length m) + delta)%Z.

Lemma set_spec_out f addr e mm x : x < addr \/ addr + e < x -> set_spec f addr e mm x = f x.
Proof.
  intro H. unfold set_spec.
  destruct (N.leb_spec addr x); destruct (N.leb_spec x (addr + e)); cbn [andb]; try reflexivity; lia.
Qed.

Lemma set_spec_in f addr e mm x : addr <= x -> x <= addr + e -> set_spec f addr e mm x = mm.
Proof.
  intros H1 H2. unfold set_spec.
  destruct (N.leb_spec addr x); destruct (N.leb_spec x (addr + e)); cbn [andb]; try reflexivity; lia.
Qed.

Lemma set_nonempty m addr r :
  total m = W -> addr + endoff r < W ->
  exists m' delta,
    set_delta m addr r = Some delta /\
    (forall ok, map_set m addr r ok = if (0 <? delta)%Z && negb ok then NoMem else Ok m') /\
    set_post m addr r m' delta.
Proof.
  intros Ht Hr. pose proof W_pos as HW.
  destruct (set_plan_spec m addr r Ht Hr)
    as (pre & fr & cov & lr & rest & Hm & Hh & P1 & P2 & P3 & P4 & P5 & Hplan).
  unfold plan_result in Hplan.
  pose proof (new_block_spec fr lr (total pre) (total pre + total cov + endoff lr) addr
                (addr + endoff r) r) as Hnb.
  destruct (merge_ud fr lr (total pre) (total pre + total cov + endoff lr) addr (addr + endoff r) r)
    as [[extend raddr] rend] eqn:Emu.
  destruct Hnb as (N1 & N2 & N3); try lia.
  set (nb := new_block fr lr raddr rend addr (addr + endoff r) extend r) in *.
  exists (rev pre ++ nb ++ rest), (adj_delta (2 - Z.of_nat (length cov)) raddr rend addr (addr + endoff r)).
  split; [unfold set_delta; now rewrite Hplan|].
  split.
  { intro ok. unfold map_set. rewrite Hplan.
    rewrite (wadd_small addr (endoff r)) by exact Hr.
    rewrite assemble_new_block. reflexivity. }
  unfold set_post. split; [|split].
  - rewrite !total_app, total_rev, N1.
    rewrite Hm in Ht. rewrite !total_app, total_rev in Ht. cbn [total] in Ht. lia.
  - intro x. unfold denote, set_spec. rewrite Hm.
    destruct (N.ltb_spec x (total pre)) as [Hlo|Hlo].
    + destruct (N.leb_spec addr x); [lia|]. cbn [andb].
      rewrite !denote_app_l by (rewrite ?total_rev; lia). reflexivity.
    + rewrite !(denote_app_r (rev pre)) by (rewrite total_rev; lia).
      rewrite total_rev. cbn [N.add].
      destruct (N.leb_spec x (total pre + total cov + endoff lr)) as [Hhi|Hhi].
      * rewrite denote_app_l by lia.
        rewrite N2 by lia.
        destruct (N.leb_spec addr x) as [Ha|Ha]; destruct (N.leb_spec x (addr + endoff r)) as [He|He];
          cbn [andb].
        -- reflexivity.
        -- destruct (N.ltb_spec x addr); [lia|].
           symmetry. apply block_high; lia.
        -- destruct (N.ltb_spec x addr); [|lia].
           rewrite <- Hh. symmetry. apply block_low. rewrite Hh. lia.
        -- lia.
      * destruct (N.leb_spec x (addr + endoff r)); [lia|]. rewrite andb_false_r.
        rewrite denote_app_r by lia.
        replace (cov ++ lr :: rest) with ((cov ++ [lr]) ++ rest) by now rewrite <- app_assoc.
        rewrite (denote_app_r (cov ++ [lr])) by (rewrite total_app; cbn [total]; lia).
        f_equal. rewrite total_app. cbn [total]. lia.
  - rewrite adj_delta_shift. rewrite Hm. rewrite !app_length, !rev_length. cbn [length].
    rewrite !Nat2Z.inj_add. rewrite N3. cbn [length]. lia.
Qed.

Definition fullnone : range := {| endoff := MAXA; meth := NONE |}.

Lemma denote_nil x : denote [] x = NONE.
Proof. reflexivity. Qed.

Lemma set_empty addr r :
  addr + endoff r < W ->
  exists m' delta,
    set_delta [] addr r = Some delta /\ (0 < delta)%Z /\
    (forall ok, map_set [] addr r ok = if negb ok then NoMem else Ok m') /\
    set_post [] addr r m' delta.
Proof.
  intro Hr. pose proof W_pos as HW.
  assert (HM : MAXA + 1 = W) by (unfold MAXA; lia).
  pose proof (new_block_spec fullnone fullnone 0 MAXA addr (addr + endoff r) r) as Hnb.
  assert (Hmu : merge_ud fullnone fullnone 0 MAXA addr (addr + endoff r) r =
                if Zeqb (meth r) NONE
                then (wsub MAXA (wsub (addr + endoff r) addr), addr, addr + endoff r)
                else (0, 0, MAXA)).
  { unfold merge_ud, fullnone. cbn [meth]. unfold Zeqb. rewrite (Z.eqb_sym NONE).
    destruct (Z.eqb (meth r) NONE); [|reflexivity].
    rewrite (wsub_le addr 0), (wsub_le MAXA), (wsub_le (addr + endoff r) addr) by lia.
    rewrite wadd_small by lia. rewrite wsub_le by lia.
    f_equal. f_equal. lia. }
  rewrite Hmu in Hnb.
  unfold set_delta, map_set, set_plan. rewrite (wadd_small addr (endoff r)) by exact Hr.
  fold fullnone.
  destruct (if Zeqb (meth r) NONE
            then (wsub MAXA (wsub (addr + endoff r) addr), addr, addr + endoff r)
            else (0, 0, MAXA)) as [[extend raddr] rend] eqn:E.
  destruct Hnb as (N1 & N2 & N3); try lia.
  set (nb := new_block fullnone fullnone raddr rend addr (addr + endoff r) extend r) in *.
  exists nb, (adj_delta 3 raddr rend addr (addr + endoff r)).
  assert (Hd : adj_delta 3 raddr rend addr (addr + endoff r)
               = (adj_delta 2 raddr rend addr (addr + endoff r) + 1)%Z).
  { replace 3%Z with (2 - (-1))%Z by reflexivity. rewrite adj_delta_shift. lia. }
  assert (Hpos : (0 <= adj_delta 2 raddr rend addr (addr + endoff r))%Z).
  { unfold adj_delta. destruct (addr =? raddr); destruct (rend =? addr + endoff r); lia. }
  split; [reflexivity|]. split; [lia|]. split.
  { intro ok. replace (0 <? adj_delta 3 raddr rend addr (addr + endoff r))%Z with true
      by (symmetry; apply Z.ltb_lt; lia).
    cbn [andb]. rewrite assemble_new_block. cbn [rev app]. now rewrite app_nil_r. }
  unfold set_post. split; [|split].
  - rewrite N1. lia.
  - intro x. unfold denote, set_spec. cbn [denote_from].
    destruct (N.leb_spec x MAXA) as [Hx|Hx].
    + rewrite N2 by lia. unfold fullnone. cbn [meth].
      destruct ((addr <=? x) && (x <=? addr + endoff r)); [reflexivity|].
      now destruct (x <? addr).
    + destruct (N.leb_spec x (addr + endoff r)); [lia|]. rewrite andb_false_r.
      apply denote_from_past. lia.
  - cbn [length]. rewrite Hd, N3. lia.
Qed.

(** * Theorems exported to [Properties_C10] *)

Theorem set_pointwise m addr r :
  tiles m -> addr + endoff r < W ->
  exists m', map_set m addr r true = Ok m' /\
    forall x, denote m' x = set_spec (denote m) addr (endoff r) (meth r) x.
Proof.
  intros [->|Ht] Hr.
  - destruct (set_empty addr r Hr) as (m' & d & _ & _ & Hs & (_ & Hp & _)).
    exists m'. split; [apply (Hs true)|exact Hp].
  - destruct (set_nonempty m addr r Ht Hr) as (m' & d & _ & Hs & (_ & Hp & _)).
    exists m'. split; [|exact Hp]. rewrite Hs. cbn [negb]. now rewrite andb_false_r.
Qed.

Theorem set_tiles m addr r ok m' :
  tiles m -> addr + endoff r < W -> map_set m addr r ok = Ok m' ->
  total m' = W /\ m' <> [] /\ Forall (fun q => endoff q < W) m'.
Proof.
  intros Hti Hr Hs. pose proof W_pos as HW.
  assert (Htot : total m' = W).
  { destruct Hti as [->|Ht].
    - destruct (set_empty addr r Hr) as (m1 & d & _ & _ & Hs1 & (Hp & _)).
      rewrite Hs1 in Hs. destruct (negb ok); [discriminate|]. now injection Hs as <-.
    - destruct (set_nonempty m addr r Ht Hr) as (m1 & d & _ & Hs1 & (Hp & _)).
      rewrite Hs1 in Hs. destruct ((0 <? d)%Z && negb ok); [discriminate|]. now injection Hs as <-. }
  split; [exact Htot|]. split.
  - intros ->. cbn [total] in Htot. lia.
  - clear -Htot HW. revert Htot. generalize W. induction m' as [|q m' IH]; intros B HB; constructor.
    + cbn [total] in HB. lia.
    + cbn [total] in HB. eapply Forall_impl; [|apply (IH (total m') eq_refl)].
      intros a Ha. cbn beta in *. lia.
Qed.

Theorem set_no_oob m addr r ok :
  tiles m -> addr + endoff r < W -> map_set m addr r ok <> OOB.
Proof.
  intros [->|Ht] Hr.
  - destruct (set_empty addr r Hr) as (m1 & d & _ & _ & Hs1 & _).
    rewrite Hs1. destruct (negb ok); discriminate.
  - destruct (set_nonempty m addr r Ht Hr) as (m1 & d & _ & Hs1 & _).
    rewrite Hs1. destruct ((0 <? d)%Z && negb ok); discriminate.
Qed.

(** The C variable [delta] is the change of the array length, so the
    realloc'ed size [n + delta] is exactly what the stores need; [realloc] is
    called iff the array grows; if it fails nothing was stored. *)
Theorem set_length m addr r m' :
  tiles m -> addr + endoff r < W -> map_set m addr r true = Ok m' ->
  exists delta, set_delta m addr r = Some delta /\
    Z.of_nat (length m') = (Z.of_nat (length m) + delta)%Z.
Proof.
  intros [->|Ht] Hr Hs.
  - destruct (set_empty addr r Hr) as (m1 & d & Hd & _ & Hs1 & (_ & _ & Hl)).
    rewrite Hs1 in Hs. cbn [negb] in Hs. injection Hs as <-. now exists d.
  - destruct (set_nonempty m addr r Ht Hr) as (m1 & d & Hd & Hs1 & (_ & _ & Hl)).
    rewrite Hs1 in Hs. cbn [negb] in Hs. rewrite andb_false_r in Hs. injection Hs as <-. now exists d.
Qed.

Theorem set_nomem_iff_grow m addr r :
  tiles m -> addr + endoff r < W ->
  exists delta, set_delta m addr r = Some delta /\
    (map_set m addr r false = NoMem <-> (0 < delta)%Z).
Proof.
  intros [->|Ht] Hr.
  - destruct (set_empty addr r Hr) as (m1 & d & Hd & Hpos & Hs1 & _).
    exists d. split; [exact Hd|]. rewrite Hs1. cbn [negb]. tauto.
  - destruct (set_nonempty m addr r Ht Hr) as (m1 & d & Hd & Hs1 & _).
    exists d. split; [exact Hd|]. rewrite Hs1. cbn [negb]. rewrite andb_true_r.
    destruct (Z.ltb_spec 0 d); split; intro; try lia; try discriminate; reflexivity.
Qed.

(** * Copy *)

Lemma map_copy_eq m : map_copy m true true = Some m.
Proof.
  unfold map_copy. cbn [andb]. f_equal.
  induction m as [|[e mm] m IH]; cbn [List.map endoff meth]; [reflexivity|]. now rewrite IH.
Qed.

Lemma map_copy_fail m a1 a2 : a1 && a2 = false -> map_copy m a1 a2 = None.
Proof. intro H. unfold map_copy. now rewrite H. Qed.

(** * Histories *)

Definition op_ok (o : op) : Prop :=
  match o with
  | OpSet a e _ _ => a + e < W
  | OpSearch a => a < W
  | OpCopy _ _ => True
  end.

(** What one operation must do, in terms of the denoted function only. *)
Definition step_post (m : map) (o : op) (m' : map) (x : out) : Prop :=
  match o, x with
  | OpSet a e mm ok, OutSet 0 =>
      forall y, denote m' y = set_spec (denote m) a e mm y
  | OpSet a e mm ok, OutSet 4 => ok = false /\ m' = m
  | OpSearch a, OutSearch z => z = denote m a /\ m' = m
  | OpCopy a1 a2, OutCopy b => b = (a1 && a2) /\ m' = m
  | _, _ => False
  end.

Lemma tiles_of_total m : total m = W -> tiles m.
Proof. now right. Qed.

Theorem step_refines m o :
  tiles m -> op_ok o ->
  tiles (fst (step m o)) /\ step_post m o (fst (step m o)) (snd (step m o)).
Proof.
  intros Ht Hok. destruct o as [a e mm ok|a|a1 a2]; cbn [step op_ok] in *.
  - pose proof (set_tiles m a {| endoff := e; meth := mm |} ok) as Hti.
    pose proof (set_no_oob m a {| endoff := e; meth := mm |} ok Ht Hok) as Hno.
    destruct (map_set m a {| endoff := e; meth := mm |} ok) as [m'| |] eqn:E; cbn [fst snd step_post].
    + split; [right; now apply (Hti m' Ht Hok eq_refl)|].
      destruct (set_pointwise m a {| endoff := e; meth := mm |} Ht Hok) as (m1 & Hs & Hp).
      destruct ok.
      * rewrite Hs in E. injection E as <-. exact Hp.
      * (* the allocation was not needed: same result as with a successful one *)
        destruct Ht as [->|Ht'].
        -- destruct (set_empty a {| endoff := e; meth := mm |} Hok) as (m2 & d & _ & _ & Hs2 & _).
           rewrite Hs2 in E. discriminate.
        -- destruct (set_nonempty m a {| endoff := e; meth := mm |} Ht' Hok) as (m2 & d & _ & Hs2 & _).
           rewrite Hs2 in E, Hs. cbn [negb] in *. rewrite andb_false_r in Hs. rewrite andb_true_r in E.
           destruct (0 <? d)%Z; [discriminate|]. injection E as <-. injection Hs as <-. exact Hp.
    + split; [exact Ht|]. split; [|reflexivity].
      destruct ok; [|reflexivity].
      destruct (set_pointwise m a {| endoff := e; meth := mm |} Ht Hok) as (m1 & Hs & _). congruence.
    + now elim Hno.
  - split; [exact Ht|]. split; [|reflexivity]. now apply search_is_denote.
  - destruct a1, a2; cbn [andb].
    + rewrite map_copy_eq. cbn [fst snd step_post]. auto.
    + rewrite map_copy_fail by reflexivity. cbn. auto.
    + rewrite map_copy_fail by reflexivity. cbn. auto.
    + rewrite map_copy_fail by reflexivity. cbn. auto.
Qed.

(** Every state reached by any history of in-range operations from any tiled
    map tiles the address space, and every step did what the spec says. *)
Fixpoint run_post (m : map) (ops : list op) (tr : list (out * map)) : Prop :=
  match ops, tr with
  | [], [] => True
  | o :: ops', (x, m') :: tr' => tiles m' /\ step_post m o m' x /\ run_post m' ops' tr'
  | _, _ => False
  end.

Theorem history_refines ops : forall m,
  tiles m -> Forall op_ok ops -> run_post m ops (run m ops).
Proof.
  induction ops as [|o ops IH]; intros m Ht Hok; cbn [run run_post]; [exact I|].
  inversion Hok as [|? ? Ho Hops]; subst.
  destruct (step_refines m o Ht Ho) as [H1 H2].
  destruct (step m o) as [m' x]. cbn [fst snd] in *.
  split; [exact H1|]. split; [exact H2|]. now apply IH.
Qed.

Lemma tiles_nil : tiles []. Proof. now left. Qed.
