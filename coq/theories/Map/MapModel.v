(** Model of src/addrxlat/map.c: [addrxlat_map_set], [addrxlat_map_search],
    [addrxlat_map_copy].

    The range array is a [list range]; the C pointers [first] and [last] are a
    zipper: [pre] is the reversed prefix before [first], [fr] / [lr] are the
    elements the two pointers designate, [rest] the elements after [last].
    The two scanning loops, the merge tests, the [extend] / [delta]
    arithmetic, the order "realloc before any mutation" and all address
    arithmetic (mod 2^64) follow the C text statement by statement.  An array
    access outside the array ([first[-1]] with nothing before, [first->endoff]
    or [++last] past the end) is the outcome [OOB].

    The final array is written out as
      prefix ++ [shrunk first]? ++ [new range] ++ [shrunk last]? ++ rest,
    which is what [memmove(last + delta, last, left)] followed by the three
    stores produces (the moved block lands on the slot after the new range
    when the end is split and on the new range's own slot otherwise; the
    slot of [first] is never inside the moved block when the begin is split).
    [set_delta] exposes the C variable [delta]; [MapProofs.set_length] proves
    it equals the change of length, i.e. that the realloc'ed size is right. *)
From Coq Require Import NArith ZArith List Bool.
From KdV Require Import Base.Wrap64.
Import ListNotations.
Local Open Scope N_scope.

Record range := { endoff : N; meth : Z }.
Definition NONE : Z := (-1)%Z.
Definition map := list range.

Inductive res (A : Type) := Ok (a : A) | NoMem | OOB.
Arguments Ok {A}. Arguments NoMem {A}. Arguments OOB {A}.

(* while (left > 0) { if (raddr + first->endoff >= addr) break;
                      raddr += first->endoff + 1; ++first, --left; } *)
Fixpoint find_first (pre rs : list range) (raddr addr : N)
  : list range * list range * N :=
  match rs with
  | [] => (pre, [], raddr)
  | r :: rs' =>
      if addr <=? wadd raddr (endoff r) then (pre, rs, raddr)
      else find_first (r :: pre) rs' (wadd raddr (wadd (endoff r) 1)) addr
  end.

(* while (left > 0) { if (rend >= end) break;
                      --delta; ++last, --left; rend += last->endoff + 1; } *)
Fixpoint find_last (lr : range) (rest : list range) (rend end_ : N) (delta : Z)
  {struct rest} : res (range * list range * N * Z) :=
  if end_ <=? rend then Ok (lr, rest, rend, delta)
  else match rest with
       | [] => OOB                       (* ++last steps past the array *)
       | r :: rest' =>
           find_last r rest' (wadd rend (wadd (endoff r) 1)) end_ (delta - 1)%Z
       end.

Definition Zeqb := Z.eqb.

(* "resize adjacent regions" + the three stores, as a list *)
Definition assemble (pre : list range) (fr lr : range) (rest : list range)
           (raddr rend addr end_ extend : N) (r : range) : map :=
  rev pre
  ++ (if raddr =? addr then []
      else [ {| endoff := wsub (wsub addr raddr) 1; meth := meth fr |} ])
  ++ [ {| endoff := wadd (endoff r) extend; meth := meth r |} ]
  ++ (if rend =? end_ then []
      else [ {| endoff := wsub (wsub rend end_) 1; meth := meth lr |} ])
  ++ rest.

(* merge up and/or down:
     if (first->meth == range->meth) { extend += addr - raddr; raddr = addr; }
     if (last->meth == range->meth)  { extend += rend - end;   rend = end; } *)
Definition merge_ud (fr lr : range) (raddr rend addr end_ : N) (r : range)
  : N * N * N :=
  let '(extend, raddr) :=
    if Zeqb (meth fr) (meth r) then (wsub addr raddr, addr) else (0, raddr) in
  let '(extend, rend) :=
    if Zeqb (meth lr) (meth r) then (wadd extend (wsub rend end_), end_)
    else (extend, rend) in
  (extend, raddr, rend).

(* split begin and/or end: if (addr == raddr) --delta; if (rend == end) --delta; *)
Definition adj_delta (delta : Z) (raddr rend addr end_ : N) : Z :=
  let delta := if addr =? raddr then (delta - 1)%Z else delta in
  if rend =? end_ then (delta - 1)%Z else delta.

(* include the previous region if it can be merged:
     if (raddr && raddr == addr && first[-1].meth == range->meth) {
             --first, ++left; raddr -= first->endoff + 1; } *)
Definition merge_prev (pre rs : list range) (raddr addr : N) (r : range)
  : res (list range * list range * N) :=
  if negb (raddr =? 0) && (raddr =? addr) then
    match pre with
    | [] => OOB                                  (* first[-1] *)
    | p :: pre' =>
        if Zeqb (meth p) (meth r)
        then Ok (pre', p :: rs, wsub raddr (wadd (endoff p) 1))
        else Ok (pre, rs, raddr)
    end
  else Ok (pre, rs, raddr).

(* include the following region if it can be merged:
     if (left > 1 && rend == end && last[1].meth == range->meth) {
             --delta; ++last, --left; rend += last->endoff + 1; } *)
Definition merge_next (lr : range) (rest : list range) (rend : N) (delta : Z)
           (end_ : N) (r : range) : range * list range * N * Z :=
  match rest with
  | nx :: rest' =>                          (* left > 1 *)
      if (rend =? end_) && Zeqb (meth nx) (meth r)
      then (nx, rest', wadd rend (wadd (endoff nx) 1), (delta - 1)%Z)
      else (lr, rest, rend, delta)
  | [] => (lr, rest, rend, delta)
  end.

(* from "last = first" to the realloc decision *)
Definition plan_tail (pre rs : list range) (raddr addr end_ : N) (r : range)
  : res (list range * range * range * list range * N * N * N * Z) :=
  match rs with
  | [] => OOB                                    (* first->endoff *)
  | fr :: rest0 =>
      match find_last fr rest0 (wadd raddr (endoff fr)) end_ 2%Z with
      | OOB => OOB | NoMem => NoMem
      | Ok (lr, rest, rend, delta) =>
          let '(lr, rest, rend, delta) := merge_next lr rest rend delta end_ r in
          let '(extend, raddr, rend) := merge_ud fr lr raddr rend addr end_ r in
          let delta := adj_delta delta raddr rend addr end_ in
          Ok (pre, fr, lr, rest, raddr, rend, extend, delta)
      end
  end.

(* Everything up to and including the realloc decision.  Result:
   (pre, fr, lr, rest, raddr, rend, extend, delta). *)
Definition set_plan (m : map) (addr : N) (r : range)
  : res (list range * range * range * list range * N * N * N * Z) :=
  let end_ := wadd addr (endoff r) in
  match m with
  | [] =>
      (* delta = 3; first = last = NULL *)
      let fullnone := {| endoff := MAXA; meth := NONE |} in
      let '(extend, raddr, rend) :=
        if Zeqb (meth r) NONE
        then (wsub MAXA (wsub end_ addr), addr, end_)
        else (0, 0, MAXA) in
      let delta := adj_delta 3%Z raddr rend addr end_ in
      Ok ([], fullnone, fullnone, [], raddr, rend, extend, delta)
  | _ =>
      let '(pre, rs, raddr) := find_first [] m 0 addr in
      match merge_prev pre rs raddr addr r with
      | OOB => OOB | NoMem => NoMem
      | Ok (pre, rs, raddr) => plan_tail pre rs raddr addr end_ r
      end
  end.

Definition set_delta (m : map) (addr : N) (r : range) : option Z :=
  match set_plan m addr r with
  | Ok (_, _, _, _, _, _, _, delta) => Some delta
  | _ => None
  end.

(** [alloc_ok] is the answer [realloc] gives if it is called (it is called
    iff [delta > 0]); on failure the C function returns before any store. *)
Definition map_set (m : map) (addr : N) (r : range) (alloc_ok : bool) : res map :=
  match set_plan m addr r with
  | OOB => OOB | NoMem => NoMem
  | Ok (pre, fr, lr, rest, raddr, rend, extend, delta) =>
      if (0 <? delta)%Z && negb alloc_ok then NoMem
      else Ok (assemble pre fr lr rest raddr rend addr (wadd addr (endoff r)) extend r)
  end.

Fixpoint map_search_from (m : map) (raddr addr : N) : Z :=
  match m with
  | [] => NONE
  | r :: m' =>
      if addr <=? wadd raddr (endoff r) then meth r
      else map_search_from m' (wadd raddr (wadd (endoff r) 1)) addr
  end.
Definition map_search (m : map) (addr : N) : Z := map_search_from m 0 addr.

(** [addrxlat_map_copy]: two allocations (the map object, the range array),
    then an element-wise copy. *)
Definition map_copy (m : map) (alloc1 alloc2 : bool) : option map :=
  if alloc1 && alloc2 then Some (List.map (fun r => {| endoff := endoff r; meth := meth r |}) m)
  else None.

(** Operation histories (what the correspondence driver replays). *)
Inductive op :=
| OpSet (addr : N) (endoff : N) (meth : Z) (alloc_ok : bool)
| OpSearch (addr : N)
| OpCopy (alloc1 alloc2 : bool).   (* continue on the copy when it succeeds *)

Inductive out :=
| OutSet (status : N)             (* 0 = OK, 4 = NOMEM, 99 = OOB *)
| OutSearch (m : Z)
| OutCopy (ok : bool).

Definition step (m : map) (o : op) : map * out :=
  match o with
  | OpSet a e mm ok =>
      match map_set m a {| endoff := e; meth := mm |} ok with
      | Ok m' => (m', OutSet 0)
      | NoMem => (m, OutSet 4)
      | OOB => (m, OutSet 99)
      end
  | OpSearch a => (m, OutSearch (map_search m a))
  | OpCopy a1 a2 =>
      match map_copy m a1 a2 with
      | Some m' => (m', OutCopy true)
      | None => (m, OutCopy false)
      end
  end.

Fixpoint run (m : map) (ops : list op) : list (out * map) :=
  match ops with
  | [] => []
  | o :: ops' => let '(m', x) := step m o in (x, m') :: run m' ops'
  end.
