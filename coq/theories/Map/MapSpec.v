(** Specification of a translation map: a total function from the 64-bit
    address space to method indices, written without reference to map.c.
    Plain (unbounded) [N] arithmetic; no wrap-around anywhere. *)
From Coq Require Import NArith ZArith List Bool.
From KdV Require Import Base.Wrap64 Map.MapModel.
Import ListNotations.
Local Open Scope N_scope.

(** Number of addresses covered by a range list. *)
Fixpoint total (m : map) : N :=
  match m with
  | [] => 0
  | r :: m' => (endoff r + 1) + total m'
  end.

(** The function a range list denotes when its first range starts at [base]. *)
Fixpoint denote_from (base : N) (m : map) (x : N) : Z :=
  match m with
  | [] => NONE
  | r :: m' =>
      if x <=? base + endoff r then meth r
      else denote_from (base + endoff r + 1) m' x
  end.
Definition denote (m : map) (x : N) : Z := denote_from 0 m x.

(** The exposed range list tiles [0, 2^64) exactly: the lengths
    ([endoff + 1 >= 1], so no range is empty) add up to 2^64.  A map that was
    never assigned is empty and denotes "no method" everywhere. *)
Definition tiles (m : map) : Prop := m = [] \/ total m = W.
Definition tilesb (m : map) : bool :=
  match m with [] => true | _ => total m =? W end.

(** What [set] must do, pointwise. *)
Definition set_spec (f : N -> Z) (addr endo : N) (mm : Z) (x : N) : Z :=
  if (addr <=? x) && (x <=? addr + endo) then mm else f x.
