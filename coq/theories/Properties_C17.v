(** C17 — stacking a callback layer that overrides nothing changes nothing.
    Statements only; every proof is [exact <lemma>].

    Model: Cb/CbModel.v (the seven [next_*_cb] defaults of src/addrxlat/ctx.c
    with the argument each of them passes, [addrxlat_ctx_add_cb],
    [addrxlat_ctx_del_cb], the library's [ctx->cb->hook(ctx->cb, ...)]);
    [repaired = true] is the code after fixes/03-next-cb-pass-next.patch.
    Spec: Cb/CbSpec.v.  Private data, hook arguments and hook results are
    arbitrary types; an implementation is an arbitrary function of the private
    data of the record it is called with and of the arguments. *)
From Coq Require Import List Bool Arith.
From Coq Require Import NArith.
From KdV Require Import Cb.CbModel Cb.CbSpec Cb.CbProofs Cb.CbCache Cb.CbCacheProofs Hist.ReadCache Hist.ReadCacheProofs.
Import ListNotations.

Section C17.
Variables P A R : Type.

(** all seven hooks, any depth of stacking, every subset of overridden hooks
    per layer, every argument: the invocation terminates (fuel = depth + 1
    suffices) and yields what the first implementation at or below the top
    yields when it is given its own record *)
Theorem C17_passthrough_all_hooks : forall (s : stack P A R) h arg fuel,
  base_complete P A R s -> length s < fuel ->
  exists r, invoke P A R true s h arg fuel = Done R r /\ invoke_spec P A R s h arg = Some r.
Proof. exact (passthrough P A R). Qed.

(** a layer that leaves a hook untouched — whatever else it overrides and
    whatever its private data — changes nothing for that hook *)
Theorem C17_untouched_hook_changes_nothing : forall (s : stack P A R) (l : layer P A R) h arg fuel,
  l_hook P A R l h = None -> base_complete P A R s -> length s < fuel ->
  invoke P A R true (l :: s) h arg (S fuel) = invoke P A R true s h arg fuel /\
  invoke_spec P A R (l :: s) h arg = invoke_spec P A R s h arg.
Proof. exact (untouched_hook_changes_nothing P A R). Qed.

(** in particular the layer addrxlat_ctx_add_cb creates *)
Theorem C17_add_cb_changes_nothing : forall (s : stack P A R) null h arg fuel,
  base_complete P A R s -> length s < fuel ->
  invoke P A R true (add_cb P A R null s) h arg (S fuel) = invoke P A R true s h arg fuel.
Proof. exact (add_cb_changes_nothing P A R). Qed.

(** removing the layer restores the previous state, wherever it sits *)
Theorem C17_add_del_restores : forall (s : stack P A R) null,
  del_cb P A R 0 (add_cb P A R null s) = s.
Proof. exact (add_del_restores P A R). Qed.

Theorem C17_del_restores_anywhere : forall (upper lower : stack P A R) (l : layer P A R),
  del_cb P A R (length upper) (upper ++ l :: lower) = upper ++ lower.
Proof. exact (del_cb_middle P A R). Qed.

(** get_page and read_caps were already right in the pinned tree *)
Theorem C17_pinned_get_page_read_caps : forall (s : stack P A R) h arg fuel,
  h = HGetPage \/ h = HReadCaps ->
  base_complete P A R s -> length s < fuel ->
  exists r, invoke P A R false s h arg fuel = Done R r /\ invoke_spec P A R s h arg = Some r.
Proof. exact (passthrough_pinned_ok P A R). Qed.

(** the in-library invocation sites (CbModel.library_sites, transcribed from
    the sources and compared with a scan of the sources on every check) all
    call the top record's function with that same record ... *)
Theorem C17_library_sites_pass_top_record :
  Forall (fun hs => snd hs = PassSame) library_sites.
Proof. exact library_sites_pass_same. Qed.

(** ... so stacking any number of layers that override nothing, with any
    private data, on a context — in particular on the one a dump object hands
    out — does not change what any call site obtains: the first implementation
    below, called with its own record *)
Theorem C17_empty_layers_change_nothing_at_call_sites :
  forall (privs : list P) (s : stack P A R) h arg fuel,
  base_complete P A R s -> length s < fuel ->
  invoke_site P A R true (map (empty_layer P A R) privs ++ s) h arg (length privs + fuel) PassSame
  = invoke_site P A R true s h arg fuel PassSame /\
  exists r, invoke_site P A R true s h arg fuel PassSame = Done R r /\
            invoke_spec P A R s h arg = Some r.
Proof. exact (empty_layers_change_nothing P A R). Qed.

End C17.

Print Assumptions C17_passthrough_all_hooks.
Print Assumptions C17_untouched_hook_changes_nothing.
Print Assumptions C17_add_cb_changes_nothing.
Print Assumptions C17_add_del_restores.
Print Assumptions C17_del_restores_anywhere.
Print Assumptions C17_pinned_get_page_read_caps.
Print Assumptions C17_library_sites_pass_top_record.
Print Assumptions C17_empty_layers_change_nothing_at_call_sites.

(** ** Layers and the read cache (Cb/CbCache.v over Hist/ReadCache.v)

    [addrxlat_ctx_add_cb] / [addrxlat_ctx_del_cb] change the record list only.
    A history that interleaves reads through the context's read cache with
    additions and deletions of layers that override nothing (at any time, in
    particular while the cache is warm) has exactly the page events, the read
    results and the final cache of the same history without the layer
    operations over the base stack alone ... *)
Theorem C17_layers_do_not_disturb_read_cache :
  forall (P : Type) (s0 : lstack P), base_complete P PA PR s0 ->
  forall ops privs c,
  dels_ok P (caps P s0) (length privs) ops = true ->
  let '(st', ev, rs) :=
    hrun P {| h_stack := map (empty_layer P PA PR) privs ++ s0; h_cache := c |} ops in
  h_cache P st' = final (gp P s0) c (erase P (caps P s0) ops) /\
  ev = snd (run (gp P s0) c (erase P (caps P s0) ops)) /\
  map (fun r => OutR r) rs =
    filter (fun o => match o with OutR _ => true | _ => false end)
           (map fst (fst (run (gp P s0) c (erase P (caps P s0) ops)))).
Proof. exact hrun_erase. Qed.
Print Assumptions C17_layers_do_not_disturb_read_cache.

(** ... and every page obtained from the base layer is given back exactly
    once: gotten = put + held by the slots at every point, and the final
    [cleanup_cache] of context destruction puts exactly the held ones *)
Theorem C17_pages_put_exactly_once :
  forall (P : Type) (s0 : lstack P) ops,
  base_complete P PA PR s0 -> regions_ok (gp P s0) -> dels_ok P (caps P s0) 0 ops = true ->
  let '(st', ev, _) := hrun P {| h_stack := s0; h_cache := init_cache |} ops in
  forall f : page -> nat,
    msum f (gots ev) = (msum f (puts ev) + msum f (live (h_cache P st')))%nat /\
    msum f (gots (ev ++ cleanup_events (h_cache P st'))) =
    msum f (puts (ev ++ cleanup_events (h_cache P st'))).
Proof. exact layers_pages_balanced. Qed.
Print Assumptions C17_pages_put_exactly_once.

(** the read capabilities are consulted for every single read, through the
    top of the chain as it is at that moment: a read is direct or converted
    according to the first read_caps implementation at or below the top *)
Theorem C17_read_caps_consulted_per_read :
  forall (P : Type) (st : hstate P) a_as a n,
  base_complete P PA PR (h_stack P st) ->
  hstep P st (HRead P a_as a n) =
  match eff_as (match invoke_spec P PA PR (h_stack P st) HReadCaps (0%N, 0%N) with
                | Some (HCaps m) => m | _ => 0%N end) a_as with
  | None => (st, [], Some RFail)
  | Some as' =>
      let '(c', ev, r) := read (gp P (h_stack P st)) (h_cache P st) as' a n in
      ({| h_stack := h_stack P st; h_cache := c' |}, ev, Some r)
  end.
Proof. exact read_uses_current_caps. Qed.
Print Assumptions C17_read_caps_consulted_per_read.

(** a layer that overrides read_caps is in charge while it is installed, and
    removing it restores the previous state *)
Theorem C17_read_caps_layer_in_charge_then_restored :
  forall (P : Type) (st : hstate P) p m,
  caps P (caps_layer P p m :: h_stack P st) = m /\
  fst (fst (hstep P (fst (fst (hstep P st (HAddCaps P p m)))) (HDel P 0))) = st.
Proof. exact (fun P st p m => conj (caps_layer_in_charge P (h_stack P st) p m) (caps_layer_add_del P st p m)). Qed.
Print Assumptions C17_read_caps_layer_in_charge_then_restored.

(** defect 3 of the pinned tree: with one pass-through layer the lower
    implementation of reg_value is handed the upper layer's private data ... *)
Theorem C17_pinned_wrong_priv_refuted :
  invoke nat unit (nat * nat) false [demo_empty 2; demo_impl 1; demo_base] HRegValue tt 8
    = Done _ (1, 2) /\
  invoke_spec nat unit (nat * nat) [demo_empty 2; demo_impl 1; demo_base] HRegValue tt
    = Some (1, 1).
Proof. exact pinned_wrong_priv. Qed.
Print Assumptions C17_pinned_wrong_priv_refuted.

(** ... and with two pass-through layers the default hook calls itself forever *)
Theorem C17_pinned_diverges_refuted : forall fuel,
  invoke nat unit (nat * nat) false [demo_empty 3; demo_empty 2; demo_impl 1; demo_base]
         HSymValue tt fuel = OutOfFuel _.
Proof. exact pinned_diverges. Qed.
Print Assumptions C17_pinned_diverges_refuted.

(** a call site that passes another record than the one whose function it
    calls (e.g. the dump object's own record under an added layer) is wrong
    even with the repaired defaults: the dump object's implementation is
    skipped *)
Theorem C17_site_passing_other_record_refuted :
  invoke_site nat unit (nat * nat) true [demo_empty 2; demo_impl 1; demo_base] HSymValue tt 8
              (PassOther 1) = Done _ (0, 0) /\
  invoke_site nat unit (nat * nat) true [demo_impl 1; demo_base] HSymValue tt 8 (PassOther 0)
    = Done _ (1, 1).
Proof. exact site_other_record_wrong. Qed.
Print Assumptions C17_site_passing_other_record_refuted.

(** non-vacuity: a concrete three-deep stack over a complete base; every hook
    answers with the right layer and that layer's own private data *)
Example C17_nonvacuous :
  base_complete nat unit (nat * nat) ([demo_empty 3; demo_empty 2; demo_impl 1] ++ [demo_base]) /\
  List.map (fun h => invoke nat unit (nat * nat) true
                       [demo_empty 3; demo_empty 2; demo_impl 1; demo_base] h tt 5) all_hooks
  = List.map (fun _ => Done _ (1, 1)) all_hooks.
Proof. split; [exact (demo_base_complete _)|vm_compute; reflexivity]. Qed.
