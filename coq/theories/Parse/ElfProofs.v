(** C03 (b) — the ELF probe model never reads outside a chunk, never reaches
    any other forbidden outcome and never runs out of fuel, for every file
    content and every allocation limit. *)
From Coq Require Import NArith ZArith List Bool Lia ZifyBool ZifyNat ZifyN.
From KdV Require Import Parse.Bounded Parse.BoundedProofs Parse.NotesModel Parse.NotesProofs
     Parse.PElfModel.
Import ListNotations.
Local Open Scope N_scope.
#[local] Hint Resolve good_ok good_noprobe : core.
#[local] Hint Extern 1 (good (Err _ _)) => (apply good_err; [reflexivity|discriminate]) : core.

Lemma hdr_chunk_cases alim f sect idx entsz off :
  (exists c, hdr_chunk alim f sect idx entsz off = Ok c /\ clen c = entsz) \/
  (exists st stg, hdr_chunk alim f sect idx entsz off = Err st stg /\ (st = KNODATA \/ st = KSYSTEM)).
Proof.
  unfold hdr_chunk.
  destruct (get_chunk_cases alim f entsz off) as [[c [H [Hl _]]]|[st [H Hs]]]; rewrite H; eauto.
Qed.

(** ** program headers *)
Lemma phdr_loop alim f be is64 phnum entsz :
  sizeof_phdr is64 <= entsz ->
  forall n s, ph_i s + N.of_nat n <= phnum -> ph_nl s <= ph_i s -> ph_nn s <= ph_i s ->
  match loop_nat (phdr_body alim f be is64 phnum entsz) n s with
  | inl _ => True
  | inr r => good r
  end.
Proof.
  intros Hsz n s H1 H2 H3.
  pose proof (loop_nat_inv (phdr_body alim f be is64 phnum entsz)
    (fun n s => ph_i s + N.of_nat n <= phnum /\ ph_nl s <= ph_i s /\ ph_nn s <= ph_i s)
    (fun r => good r)) as Hinv.
  assert (Hstep : forall n s,
    ph_i s + N.of_nat (S n) <= phnum /\ ph_nl s <= ph_i s /\ ph_nn s <= ph_i s ->
    match phdr_body alim f be is64 phnum entsz s with
    | inl s' => ph_i s' + N.of_nat n <= phnum /\ ph_nl s' <= ph_i s' /\ ph_nn s' <= ph_i s'
    | inr r => good r
    end).
  { clear Hinv H1 H2 H3 n s. intros n s [Ha [Hb Hc]]. unfold phdr_body.
    destruct (hdr_chunk_cases alim f false (ph_i s) entsz (ph_off s)) as [[c [Hc1 Hc2]]|[st [stg [Hc1 Hs]]]];
      rewrite Hc1; [|now apply good_chunk_err].
    assert (Hf : exists sg,
      match coff be is64 c 4 8, coff be is64 c 16 32,
            cword be is64 c 12 24, cword be is64 c 20 40, cword be is64 c 8 16 with
      | Ok poff, Ok pfilesz, Ok ppaddr, Ok pmemsz, Ok pvaddr =>
        Some {| sg_off := poff; sg_filesz := pfilesz;
                sg_phys := if ppaddr =? (if is64 then 18446744073709551615 else 4294967295)
                           then ADDR_MAX else ppaddr;
                sg_memsz := pmemsz; sg_virt := pvaddr |}
      | _, _, _, _, _ => None
      end = Some sg).
    { unfold coff, cword, sizeof_phdr in *. destruct is64; repeat rd; cbn [bind]; eauto. }
    destruct Hf as [sg Hf]. cbv beta. rewrite Hf.
    assert (4 <= entsz) by (unfold sizeof_phdr in Hsz; destruct is64; lia). rd.
    destruct (v =? PT_LOAD).
    - destruct (ph_nl s <? phnum) eqn:E; [cbn; lia|]. apply N.ltb_ge in E. lia.
    - destruct (v =? PT_NOTE).
      + destruct (ph_nn s <? phnum) eqn:E; [cbn; lia|]. apply N.ltb_ge in E. lia.
      + cbn. lia. }
  specialize (Hinv Hstep n s (conj H1 (conj H2 H3))).
  destruct (loop_nat _ n s); [exact I|exact Hinv].
Qed.

Lemma read_phdrs_good alim f be is64 phnum entsz off :
  sizeof_phdr is64 <= entsz -> good (read_phdrs alim f be is64 phnum entsz off).
Proof.
  intros Hsz. unfold read_phdrs. rewrite loopN_nat.
  pose proof (phdr_loop alim f be is64 phnum entsz Hsz (N.to_nat phnum)
    {| ph_i := 0; ph_off := off; ph_nl := 0; ph_nn := 0; ph_loads := []; ph_notes := [] |}) as H.
  cbn [ph_i ph_nl ph_nn] in H.
  specialize (H ltac:(lia) ltac:(lia) ltac:(lia)).
  destruct (loop_nat _ _ _); [auto|exact H].
Qed.

(** ** section headers *)
Lemma shdr_loop alim f be is64 shnum entsz :
  sizeof_shdr is64 <= entsz ->
  forall n s, sh_i s + N.of_nat n <= shnum -> sh_n s <= sh_i s ->
  match loop_nat (shdr_body alim f be is64 shnum entsz) n s with
  | inl s' => N.of_nat (length (sh_acc s')) = N.of_nat (length (sh_acc s)) + N.of_nat n
  | inr r => good r /\ forall l, r <> Ok l
  end.
Proof.
  intros Hsz.
  induction n as [|n IH]; intros s H1 H2; cbn [loop_nat]; [lia|].
  unfold shdr_body at 1.
  destruct (hdr_chunk_cases alim f true (sh_i s) entsz (sh_off s)) as [[c [Hc1 Hc2]]|[st [stg [Hc1 Hs]]]];
    rewrite Hc1; [|split; [now apply good_chunk_err|discriminate]].
  unfold coff, cword, sizeof_shdr in *.
  destruct is64; repeat rd; cbn [bind].
  - destruct (sh_n s <? shnum) eqn:E; [|apply N.ltb_ge in E; lia].
    match goal with |- match loop_nat _ n ?s' with _ => _ end =>
      specialize (IH s'); cbn [sh_i sh_n sh_acc length] in IH;
      specialize (IH ltac:(lia) ltac:(lia)); destruct (loop_nat _ n s'); [lia|exact IH] end.
  - destruct (sh_n s <? shnum) eqn:E; [|apply N.ltb_ge in E; lia].
    match goal with |- match loop_nat _ n ?s' with _ => _ end =>
      specialize (IH s'); cbn [sh_i sh_n sh_acc length] in IH;
      specialize (IH ltac:(lia) ltac:(lia)); destruct (loop_nat _ n s'); [lia|exact IH] end.
Qed.

Lemma read_shdrs_good alim f be is64 shnum entsz off :
  sizeof_shdr is64 <= entsz ->
  good (read_shdrs alim f be is64 shnum entsz off) /\
  forall l, read_shdrs alim f be is64 shnum entsz off = Ok l -> N.of_nat (length l) = shnum.
Proof.
  intros Hsz. unfold read_shdrs. rewrite loopN_nat.
  pose proof (shdr_loop alim f be is64 shnum entsz Hsz (N.to_nat shnum)
    {| sh_i := 0; sh_off := off; sh_n := 0; sh_acc := [] |}) as H.
  cbn [sh_i sh_n sh_acc length] in H.
  specialize (H ltac:(lia) ltac:(lia)).
  destruct (loop_nat _ _ _) as [s'|r].
  - split; [auto|]. intros l Hl. injection Hl as <-. rewrite rev_append_rev, app_nil_r, rev_length. lia.
  - destruct H as [H H']. split; [exact H|]. intros l Hl. now apply H' in Hl.
Qed.

(** ** string table *)
Lemma init_strtab_good alim f flen sects idx :
  good (init_strtab alim f flen (N.of_nat (length sects)) sects idx).
Proof.
  unfold init_strtab.
  destruct ((idx =? 0) || (N.of_nat (length sects) <=? idx)) eqn:E; [auto|].
  apply orb_false_iff in E. destruct E as [_ E]. apply N.leb_gt in E.
  destruct (nth_error sects (N.to_nat idx)) as [ps|] eqn:En.
  2:{ apply nth_error_None in En. lia. }
  destruct (negb (extent_ok flen (sc_off ps) (sc_size ps))); [auto|].
  destruct (SIZE_MAX <=? sc_size ps); [auto|].
  destruct (negb (alloc alim (sc_size ps + 1))); [auto|].
  destruct (pread_cases f (sc_size ps) (sc_off ps)) as [[c [H _]]|[st [H ->]]]; rewrite H; auto.
Qed.

Lemma read_phdrs_zero alim f be is64 entsz off : good (read_phdrs alim f be is64 0 entsz off).
Proof. unfold read_phdrs. cbn. auto. Qed.

Lemma read_shdrs_zero alim f be is64 entsz off : good (read_shdrs alim f be is64 0 entsz off).
Proof. unfold read_shdrs. cbn. auto. Qed.

(** ** init_elf *)
Lemma init_elf_good alim f flen be is64 eh : clen eh = 64 -> good (init_elf alim f flen be is64 eh).
Proof.
  intros Heh. unfold init_elf.
  unfold coff, cword.
  destruct is64; repeat rd; cbn [bind].
  all: apply good_bind.
  1,3: (destruct (negb _ && _); [|solve [auto]]).
  1,2: (match goal with |- good (if ?v <? ?sz then _ else _) =>
         destruct (v <? sz) eqn:E; [solve [auto]|apply N.ltb_ge in E] end).
  1,2: (match goal with |- good (bind (hdr_chunk ?a1 ?a2 ?a3 ?a4 ?a5 ?a6) _) =>
         destruct (hdr_chunk_cases a1 a2 a3 a4 a5 a6) as [[hc [Hc Hl]]|[? [? [Hc Hs]]]]; rewrite Hc; cbn [bind];
         [|solve [now apply good_chunk_err]] end).
  1,2: (unfold sizeof_shdr in E; repeat rd; cbn [bind]; solve [auto]).
  all: intros [shnum phnum] _.
  all: apply good_bind; [repeat match goal with |- good (if ?b then _ else _) => destruct b end; auto|intros _ _].
  all: apply good_bind; [repeat match goal with |- good (if ?b then _ else _) => destruct b end; auto|intros _ _].
  all: apply good_bind.
  all: try match goal with
  | |- good (if negb (?n =? 0) && (?v <? ?sz) then _ else if ?c2 then _ else read_phdrs _ _ _ _ _ _ _) =>
    let E := fresh "E" in
    destruct (negb (n =? 0) && (v <? sz)) eqn:E; [solve [auto]|];
    destruct c2; [solve [auto]|];
    apply andb_false_iff in E; destruct E as [E|E];
    [apply negb_false_iff, N.eqb_eq in E; subst; apply read_phdrs_zero
    |apply N.ltb_ge in E; apply read_phdrs_good; exact E]
  end.
  all: intros segs _.
  all: apply good_bind.
  all: try match goal with
  | |- good (if negb (?n =? 0) && (?v <? ?sz) then _ else if ?c2 then _ else read_shdrs _ _ _ _ _ _ _) =>
    let E := fresh "E" in
    destruct (negb (n =? 0) && (v <? sz)) eqn:E; [solve [auto]|];
    destruct c2; [solve [auto]|];
    apply andb_false_iff in E; destruct E as [E|E];
    [apply negb_false_iff, N.eqb_eq in E; subst; apply read_shdrs_zero
    |apply N.ltb_ge in E; apply read_shdrs_good; exact E]
  end.
  all: intros sects Hs.
  all: assert (Hlen : N.of_nat (length sects) = shnum) by
    (match type of Hs with
     | (if negb (?n =? 0) && (?v <? ?sz) then _ else if ?c2 then _ else read_shdrs ?a ?b ?c ?d ?e ?g ?h) = Ok _ =>
       let E := fresh "E" in
       destruct (negb (n =? 0) && (v <? sz)) eqn:E; [discriminate|];
       destruct c2; [discriminate|];
       apply andb_false_iff in E; destruct E as [E|E];
       [apply negb_false_iff, N.eqb_eq in E; subst; unfold read_shdrs in Hs; cbn in Hs;
        injection Hs as <-; reflexivity
       |apply N.ltb_ge in E; exact (proj2 (read_shdrs_good a b c d e g h E) sects Hs)]
     end).
  all: rewrite <- Hlen.
  all: apply good_bind; [apply init_strtab_good|intros; auto].
Qed.

(** ** do_probe, the note walk, elf_probe *)
Lemma do_probe_good alim f flen eh : clen eh = 64 -> good (do_probe alim f flen eh).
Proof.
  intros Heh. unfold do_probe.
  destruct (cbytes_in eh 0 4) as [mag Hm]; [lia|]. rewrite Hm. cbn [bind].
  destruct (negb _); [auto|].
  repeat rd. cbn [bind].
  destruct (v =? 1); [|destruct (v =? 2)]; cbn [bind]; auto.
  all: repeat rd; cbn [bind].
  all: repeat match goal with |- good (if ?b then _ else _) => destruct b end; auto.
  all: apply init_elf_good; exact Heh.
Qed.

Lemma walk_notes_good alim f flen be : forall segs, good (walk_notes alim f flen be segs).
Proof.
  induction segs as [|sg rest IH]; cbn [walk_notes]; [auto|].
  destruct (negb _); [auto|].
  destruct (get_chunk_cases alim f (of_off (sg_filesz sg)) (sg_off sg)) as [[c [H _]]|[st [H Hs]]];
    rewrite H; [|now apply good_chunk_err].
  destruct (do_notes_in_bounds be c) as [l [Hl _]]. rewrite Hl. cbn [bind].
  apply good_bind; [exact IH|auto].
Qed.

Theorem elf_probe_good : forall alim f flen, good (elf_probe alim f flen).
Proof.
  intros alim f flen. unfold elf_probe.
  destruct (get_chunk_cases alim f 64 0) as [[eh [H [Hl _]]]|[st [H Hs]]]; rewrite H; cbn [bind];
    [|now apply good_chunk_err].
  apply good_bind; [apply do_probe_good; exact Hl|].
  intros t _. destruct (_ && _); [auto|].
  apply good_bind; [apply walk_notes_good|auto].
Qed.

(** the statuses the modelled part of the probe can return: an error status
    of the documented set, or the internal KDUMP_NOPROBE for a wrong signature *)
Theorem elf_probe_status : forall alim f flen st stg,
  elf_probe alim f flen = Err st stg ->
  is_error st = true /\ (st = KNOPROBE -> stg = StSignature).
Proof. intros alim f flen st stg H. exact (proj2 (proj2 (elf_probe_good alim f flen)) st stg H). Qed.

(** ** the table loops are linear in the file length (fix 94) *)
Lemma hdr_table_ok_bound flen off num entsz hdrsz :
  hdrsz <= entsz -> num <> 0 -> hdr_table_ok flen off num entsz hdrsz = true -> num * hdrsz <= flen.
Proof.
  intros Hsz Hn H. unfold hdr_table_ok, extent_ok in H.
  apply andb_true_iff in H. destruct H as [_ H].
  apply andb_true_iff in H. destruct H as [_ H]. apply N.leb_le in H.
  assert (Hm : (num - 1) * hdrsz <= (num - 1) * entsz) by (apply N.mul_le_mono_l; exact Hsz).
  replace (num * hdrsz) with ((num - 1) * hdrsz + hdrsz).
  - lia.
  - replace num with (num - 1 + 1) at 2 by lia. lia.
Qed.

Ltac inv_bind H :=
  match type of H with
  | bind ?r _ = Ok _ =>
    let a := fresh "a" in let E := fresh "E" in
    destruct r as [a| | | | | |] eqn:E; cbn [bind] in H; try discriminate
  end.

Theorem init_elf_counts : forall alim f flen be is64 eh t,
  init_elf alim f flen be is64 eh = Ok t ->
  et_phnum t * sizeof_phdr is64 <= flen /\ et_shnum t * sizeof_shdr is64 <= flen.
Proof.
  intros alim f flen be is64 eh t H. unfold init_elf in H.
  repeat inv_bind H.
  destruct a7 as [shnum phnum].
  repeat inv_bind H.
  injection H as <-. cbn [et_phnum et_shnum].
  split.
  - match type of E10 with (if ?c1 then _ else if ?c2 then _ else _) = _ =>
      destruct c1 eqn:C1; [discriminate|]; destruct c2 eqn:C2; [discriminate|] end.
    destruct (phnum =? 0) eqn:Ez; [apply N.eqb_eq in Ez; subst; lia|].
    cbn [negb andb] in C1, C2. apply N.ltb_ge in C1. apply negb_false_iff in C2.
    apply N.eqb_neq in Ez. eapply hdr_table_ok_bound; eassumption.
  - match type of E11 with (if ?c1 then _ else if ?c2 then _ else _) = _ =>
      destruct c1 eqn:C1; [discriminate|]; destruct c2 eqn:C2; [discriminate|] end.
    destruct (shnum =? 0) eqn:Ez; [apply N.eqb_eq in Ez; subst; lia|].
    cbn [negb andb] in C1, C2. apply N.ltb_ge in C1. apply negb_false_iff in C2.
    apply N.eqb_neq in Ez. eapply hdr_table_ok_bound; eassumption.
Qed.

Theorem elf_probe_counts : forall alim f flen r,
  elf_probe alim f flen = Ok r ->
  et_phnum (er_tables r) * 32 <= flen /\ et_shnum (er_tables r) * 40 <= flen.
Proof.
  intros alim f flen r H. unfold elf_probe in H.
  inv_bind H. inv_bind H.
  destruct (_ && _); [discriminate|]. inv_bind H. injection H as <-. cbn [er_tables].
  unfold do_probe in E0.
  repeat inv_bind E0.
  destruct (negb _); [discriminate|].
  repeat inv_bind E0.
  destruct (_ && _ && _).
  - destruct (init_elf_counts _ _ _ _ _ _ _ E0) as [H1 H2]. cbn [sizeof_phdr sizeof_shdr] in *. lia.
  - destruct (_ && _ && _); [|discriminate].
    destruct (init_elf_counts _ _ _ _ _ _ _ E0) as [H1 H2]. cbn [sizeof_phdr sizeof_shdr] in *. lia.
Qed.
