(** C03 — common vocabulary of the parser models: bytes, statuses, outcomes
    with explicit undefined-behaviour constructors, *checked* accessors over
    a chunk of file data, the file-cache read function, and bounded loops.

    A model never gets a byte it did not ask the chunk for, and a chunk never
    answers outside its own length: [cget] returns [None] there and the caller
    turns that into the outcome [OOB].  Likewise [DivZero], [BadShift] and
    [NullCall] are produced by [checked_div], [checked_shr]/[checked_shl] and
    [call_opt].  The theorems say these outcomes are unreachable.
    Definitions only; lemmas are in BoundedProofs.v. *)
From Coq Require Import NArith ZArith List Bool.
Import ListNotations.
Local Open Scope N_scope.

(** kdump_status, plus the internal KDUMP_NOPROBE *)
Inductive status :=
| KOK | KSYSTEM | KNOTIMPL | KNODATA | KCORRUPT | KINVALID | KNOKEY | KEOF | KBUSY | KADDRXLAT
| KNOPROBE.

Definition documented (s : status) : bool :=
  match s with KNOPROBE => false | _ => true end.

Definition status_eqb (a b : status) : bool :=
  match a, b with
  | KOK, KOK | KSYSTEM, KSYSTEM | KNOTIMPL, KNOTIMPL | KNODATA, KNODATA | KCORRUPT, KCORRUPT
  | KINVALID, KINVALID | KNOKEY, KNOKEY | KEOF, KEOF | KBUSY, KBUSY | KADDRXLAT, KADDRXLAT
  | KNOPROBE, KNOPROBE => true
  | _, _ => false
  end.

(** where a parser gave up (so that the tie can compare the message, too) *)
Inductive stage :=
| StNone
| StSignature | StDataFmt | StClass          (* ELF probe *)
| StHdrSize (section : bool) (entsz : N)       (* "Invalid ELF %s header entry size" *)
| StHdrRead (section : bool) (idx : N) (off : N) (* "Cannot read ELF %s header #%u at %llu" *)
| StHdrExtent (section : bool) (num : N) (off : N) (* "Invalid ELF %s header table (%u entries at %llu)" *)
| StTooMany (section : bool) (n : N)
| StAlloc
| StNoContent
| StNotesRead (off : N)
| StNotesExtent
| StStrtab
| StFlatRead (pos : N) | StFlatOffset (pos : N) | StFlatSize (pos : N) | StFlatType | StFlatVersion
| StPageSize (v : N)
| StBitmapSmall
| StSubHdr
| StLkcdSize (v : N) | StLkcdPage (v : N) | StLkcdType (v : N)
| StOther (n : N).

Inductive res (A : Type) :=
| Ok (a : A)
| Err (st : status) (stg : stage)
| OOB            (* an access outside the chunk / buffer it was aimed at *)
| DivZero        (* [/] or [%] by zero *)
| BadShift       (* shift count negative or >= width *)
| NullCall       (* call through a NULL function pointer *)
| OutOfFuel.
Arguments Ok {A} a.
Arguments Err {A} st stg.
Arguments OOB {A}.
Arguments DivZero {A}.
Arguments BadShift {A}.
Arguments NullCall {A}.
Arguments OutOfFuel {A}.

Definition bind {A B} (r : res A) (f : A -> res B) : res B :=
  match r with
  | Ok a => f a
  | Err s w => Err s w
  | OOB => OOB | DivZero => DivZero | BadShift => BadShift | NullCall => NullCall
  | OutOfFuel => OutOfFuel
  end.
Notation "'do' x <- r ; k" := (bind r (fun x => k)) (at level 200, x pattern, r at level 100, k at level 200).

(** an outcome that the property forbids *)
Definition is_ub {A} (r : res A) : bool :=
  match r with OOB | DivZero | BadShift | NullCall => true | _ => false end.

Definition of_opt {A} (o : option A) : res A :=
  match o with Some a => Ok a | None => OOB end.

(** ** Bytes and chunks *)

(** The contents of a file: the byte at every offset.  Offsets beyond the end
    of a regular file read as zero (the file cache zero-fills: fcache_get_read;
    after fix 08 also on the mmap path), so a finite byte string is the
    function that is zero from its length on; the theorems quantify over all
    functions, which covers every byte string (and endless devices). *)
Definition file := N -> N.

Definition fbyte (f : file) (pos : N) : N := f pos.

(** A chunk as handed out by [fcache_get_chunk]/[flatmap_get_chunk]/[fcache_pread]:
    [clen] bytes of file [cfile] starting at [cpos].  A chunk of length 0 is
    the NULL pointer of the C code. *)
Record chunk := { cfile : file; cpos : N; clen : N }.

(** the only way to look into a chunk *)
Definition cget (c : chunk) (off : N) : option N :=
  if off <? clen c then Some (fbyte (cfile c) (cpos c + off)) else None.

Fixpoint cget_le (c : chunk) (off : N) (n : nat) : option N :=
  match n with
  | O => Some 0
  | S n' => match cget c off, cget_le c (off + 1) n' with
            | Some b, Some r => Some (b + 256 * r)
            | _, _ => None
            end
  end.

Fixpoint cget_be (c : chunk) (off : N) (n : nat) (acc : N) : option N :=
  match n with
  | O => Some acc
  | S n' => match cget c off with
            | Some b => cget_be c (off + 1) n' (acc * 256 + b)
            | None => None
            end
  end.

(** [dump16toh]/[dump32toh]/[dump64toh] of the field at [off] *)
Definition cuint (be : bool) (c : chunk) (off : N) (bytes : nat) : res N :=
  of_opt (if be then cget_be c off bytes 0 else cget_le c off bytes).
Definition cu8 (c : chunk) (off : N) : res N := of_opt (cget c off).
Definition cu16 be c off := cuint be c off 2.
Definition cu32 be c off := cuint be c off 4.
Definition cu64 be c off := cuint be c off 8.

(** the bytes [off, off+len) of a chunk, as a sub-chunk ([None]: not inside) *)
Definition csub (c : chunk) (off len : N) : option chunk :=
  if off + len <=? clen c then Some {| cfile := cfile c; cpos := cpos c + off; clen := len |}
  else None.

(** materialise (only used on short pieces: names, small blobs) *)
Fixpoint cbytes_from (c : chunk) (off : N) (n : nat) : option (list N) :=
  match n with
  | O => Some []
  | S n' => match cget c off, cbytes_from c (off + 1) n' with
            | Some b, Some r => Some (b :: r)
            | _, _ => None
            end
  end.
Definition cbytes (c : chunk) (off len : N) : res (list N) :=
  of_opt (cbytes_from c off (N.to_nat len)).

(** ** C integer conversions *)
Definition W64 : N := 18446744073709551616.
Definition OFF_MAX : Z := 9223372036854775807.
(** uint64_t -> off_t (two's complement) *)
Definition to_off (x : N) : Z :=
  let x := x mod W64 in
  if x <? 9223372036854775808 then Z.of_N x else (Z.of_N x - Z.of_N W64)%Z.
(** off_t -> unsigned long long (for messages) *)
Definition of_off (z : Z) : N := Z.to_N (z mod Z.of_N W64)%Z.
(** off_t + size_t, computed in unsigned arithmetic and converted back *)
Definition off_add (z : Z) (n : N) : Z := to_off (of_off z + n).

Definition checked_div (a b : N) : res N := if b =? 0 then DivZero else Ok (a / b).
Definition checked_mod (a b : N) : res N := if b =? 0 then DivZero else Ok (a mod b).
Definition checked_shr (width a k : N) : res N := if k <? width then Ok (N.shiftr a k) else BadShift.
Definition checked_shl (width a k : N) : res N :=
  if k <? width then Ok ((N.shiftl a k) mod 2 ^ width) else BadShift.
Definition call_opt {A B} (fn : option (A -> res B)) (a : A) : res B :=
  match fn with Some f => f a | None => NullCall end.

(** ** The file cache (fcache.c, repaired: fixes 08 and 72)

    [get_chunk alim f len pos]: [len] contiguous bytes at file offset [pos].
    - [len = 0]: the NULL chunk;
    - a chunk whose last byte has no representable offset: KDUMP_ERR_NODATA (fix 72);
    - negative offset: mmap and pread fail with EINVAL: KDUMP_ERR_SYSTEM;
    - beyond EOF the data is zero-filled; a chunk that crosses EOF is copied
      out into a [malloc(len)] buffer, which fails above the allocation limit. *)
Definition get_chunk (alim : N) (f : file) (len : N) (pos : Z) : res chunk :=
  if len =? 0 then Ok {| cfile := f; cpos := 0; clen := 0 |}
  else if (OFF_MAX <? Z.of_N (len - 1))%Z then Err KNODATA StNone
  else if ((0 <? pos) && (OFF_MAX - pos <? Z.of_N (len - 1)))%Z then Err KNODATA StNone
  else if (pos <? 0)%Z then Err KSYSTEM StNone
  else if (alim <? len) then Err KSYSTEM StNone
  else Ok {| cfile := f; cpos := Z.to_N pos; clen := len |}.

(** [fcache_pread] into a caller-supplied buffer of exactly [len] bytes: same
    data, no allocation. *)
Definition pread (f : file) (len : N) (pos : Z) : res chunk :=
  if len =? 0 then Ok {| cfile := f; cpos := 0; clen := 0 |}
  else if (pos <? 0)%Z then Err KSYSTEM StNone
  else if (OFF_MAX - pos <? Z.of_N (len - 1))%Z then Err KSYSTEM StNone
  else Ok {| cfile := f; cpos := Z.to_N pos; clen := len |}.

(** [check_file_extent] (util.c, fixes 78, 79, 92) for a file that is not
    flattened: [size] bytes at [off] lie within the [flen] bytes of the file *)
Definition extent_ok (flen : N) (off : Z) (size : N) : bool :=
  ((0 <=? off) && (off <=? Z.of_N flen))%Z && (size <=? flen - Z.to_N off).

(** ** Bounded loops

    [body s] either continues with a new state or stops with a result.
    [loop_nat n] is the reference (unary fuel); [loopN n] does the same with
    binary fuel so that counters taken from a file (up to 2^64) do not have to
    be converted to unary numbers; they agree ([BoundedProofs.loopN_nat]). *)
Section Loop.
  Context {S R : Type}.
  Variable body : S -> S + R.

  Fixpoint loop_nat (n : nat) (s : S) : S + R :=
    match n with
    | O => inl s
    | Datatypes.S n' => match body s with inl s' => loop_nat n' s' | inr r => inr r end
    end.

  Fixpoint loop_pos (p : positive) (s : S) : S + R :=
    match p with
    | xH => body s
    | xO p' => match loop_pos p' s with inl s' => loop_pos p' s' | inr r => inr r end
    | xI p' => match body s with
               | inl s1 => match loop_pos p' s1 with inl s2 => loop_pos p' s2 | inr r => inr r end
               | inr r => inr r
               end
    end.

  Definition loopN (n : N) (s : S) : S + R :=
    match n with N0 => inl s | Npos p => loop_pos p s end.
End Loop.
