(** C03 — the format probing chain of [open_dump] (src/kdumpfile/open.c,
    repaired by fix 70) over the modelled probe functions, with the rule that
    KDUMP_NOPROBE stays internal: a probe answering NOPROBE hands over to the
    next format, any other error ends the open, and if no format is left the
    answer is KDUMP_ERR_NOTIMPL.  Also the header-level parts of the diskdump,
    LKCD and S390 probes and the magic-number-only stubs (todo.c).
    No proofs in this file. *)
From Coq Require Import NArith ZArith List Bool.
From KdV Require Import Parse.Bounded Parse.NotesModel Parse.PElfModel Parse.FlatInit Parse.SizesModel.
Import ListNotations.
Local Open Scope N_scope.

Definition bytes_eqb (a b : list N) : bool := if list_eq_dec N.eq_dec a b then true else false.

(** what a successful (modelled part of a) probe established *)
Inductive probe_ok :=
| PoElf (r : elf_result)
| PoDiskdump (is64 be : bool) (l : dd_layout)
| PoLkcd (version ps : N)
| PoS390 (ps : N)
| PoBeyond.                       (* a format whose probe is not modelled took over *)

(** ** stubs: magic number only (todo.c) *)
Definition magic_stub (magic : list N) (f : file) : res probe_ok :=
  do h <- pread f (N.of_nat (length magic)) 0;
  do b <- cbytes h 0 (N.of_nat (length magic));
  if bytes_eqb b magic then Err KNOTIMPL (StOther 10) else Err KNOPROBE StSignature.

(** [xc_core_probe] compares a plain (signed) [char] with 0xed / 0xee, which
    never holds, so the probe always answers NOPROBE *)
Definition xc_core_probe (f : file) : res probe_ok :=
  do h <- pread f 4 0;
  do _ <- cbytes h 0 4;
  Err KNOPROBE StSignature.

(** ** diskdump: up to the choice of the header layout *)
Definition diskdump_probe (repaired : bool) (f : file) : res probe_ok :=
  do h <- pread f 464 0;                                  (* sizeof(struct disk_dump_header_64) *)
  do sig <- cbytes h 0 8;
  if negb (bytes_eqb sig DISKDUMP_SIG || bytes_eqb sig KDUMP_SIG) then Err KNOPROBE StSignature
  else
    do r <- dd_choose repaired h;
    let '(is64, be, l) := r in
    Ok (PoDiskdump is64 be l).

(** ** LKCD: magic, page size, version *)
Definition LKCD_MAGIC_LE : list N := [237;35;143;97;115;1;25;168].
Definition LKCD_MAGIC_BE : list N := [168;25;1;115;97;143;35;237].
Definition DEFAULT_CACHE_SIZE : N := 1024.

Definition lkcd_probe (repaired : bool) (alim : N) (f : file) : res probe_ok :=
  do h <- pread f 742 0;                                  (* sizeof(struct dump_header_v8) *)
  do m <- cbytes h 0 8;
  do be <- (if bytes_eqb m LKCD_MAGIC_LE then Ok false
            else if bytes_eqb m LKCD_MAGIC_BE then Ok true else Err KNOPROBE StSignature);
  do rawver <- cu32 be h 8;
  let version := N.land rawver 1073741823 in               (* ~(MCLX_V0|MCLX_V1) *)
  do rawps <- cu32 be h 20;
  do pss <- set_page_size repaired rawps;
  (* post-set hooks: buffer for compressed data, then the page cache *)
  if (alim <? fst pss) || (alim <? DEFAULT_CACHE_SIZE * fst pss) then Err KSYSTEM StAlloc
  else if existsb (N.eqb version) [1;2;3;5;6;7;8;9;10] then Ok (PoLkcd version (fst pss))
  else Err KNOTIMPL (StOther 11).

(** ** S390 *)
Definition S390_END : list N := [68;85;77;80;95;69;78;68].    (* "DUMP_END" *)

Definition s390_probe (repaired : bool) (alim : N) (f : file) : res probe_ok :=
  do h <- get_chunk alim f 4096 0;                         (* sizeof(struct dump_header) *)
  do magic <- cu64 true h 0;
  if negb (magic =? 12112714267859297277) then Err KNOPROBE StSignature
  else
    do hdr_size <- cu32 true h 12;
    do mem_size <- cu64 true h 24;
    let pos := to_off (hdr_size + mem_size) in
    match get_chunk alim f 16 pos with
    | Ok m =>
      do str <- cbytes m 0 8;
      do mtod <- cu64 true m 8;
      do tod <- cu64 true h 56;
      if negb (bytes_eqb str S390_END) || (mtod <? tod) then Err KCORRUPT (StOther 20)
      else
        do rawps <- cu32 true h 20;
        do pss <- set_page_size repaired rawps;
        if alim <? DEFAULT_CACHE_SIZE * fst pss then Err KSYSTEM StAlloc
        else
          do arch <- cu32 true h 72;
          if (arch =? 1) || (arch =? 2) then Ok (PoS390 (fst pss)) else Err KNOTIMPL (StOther 21)
    | Err st _ => Err st (StOther 22)
    | OOB => OOB | DivZero => DivZero | BadShift => BadShift | NullCall => NullCall
    | OutOfFuel => OutOfFuel
    end.

(** ** the probe loop of [open_dump] *)
Definition probe_fn := file -> res probe_ok.

Fixpoint probe_loop (probes : list probe_fn) (f : file) : res probe_ok :=
  match probes with
  | [] => Err KNOTIMPL (StOther 0)                          (* "Unknown file format" *)
  | p :: rest =>
    match p f with
    | Err KNOPROBE _ => probe_loop rest f                   (* cleanup, clear_error, next format *)
    | r => r
    end
  end.

(** the formats in the order of [formats[]]; SADUMP and /dev/mem are not modelled *)
Definition probes (repaired : bool) (alim flen : N) : list probe_fn :=
  [ fun f => do r <- elf_probe alim f flen; Ok (PoElf r);
    magic_stub [81;69;86;77];                                                  (* "QEVM" *)
    magic_stub [76;105;98;118];                                                (* "Libv" *)
    magic_stub [76;105;110;117;120;71;117;101;115;116;82;101;99;111;114;100];  (* "LinuxGuestRecord" *)
    xc_core_probe;
    diskdump_probe repaired;
    lkcd_probe repaired alim;
    magic_stub [221;204;139;154];                                              (* mclxcd *)
    s390_probe repaired alim;
    fun _ => Ok PoBeyond ].

(** [open_dump]: the flattened-file map first, then the probes *)
Inductive open_info :=
| OiFlat (segs : list flatseg)       (* a flattened file: the probes see the rearranged view (not modelled) *)
| OiProbe (p : probe_ok).

Definition open_dump (repaired : bool) (alim : N) (f : file) (flen : N) : res open_info :=
  do fm <- flatmap_init alim f flen;
  match fm with
  | Some segs => Ok (OiFlat segs)
  | None => do p <- probe_loop (probes repaired alim flen) f; Ok (OiProbe p)
  end.
