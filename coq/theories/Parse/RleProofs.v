(** C03 (a) — proofs about the model of [uncompress_rle]. *)
From Coq Require Import NArith List Bool Arith Lia.
From KdV Require Import Parse.RleModel Parse.RleSpec.
Import ListNotations.
Local Open Scope N_scope.

Lemma repeat_snoc (v : N) n : repeat v n ++ [v] = v :: repeat v n.
Proof. induction n as [|n IH]; cbn; [reflexivity|]. now rewrite IH. Qed.

Lemma rev_repeat (v : N) n : rev (repeat v n) = repeat v n.
Proof. induction n as [|n IH]; cbn; [reflexivity|]. rewrite IH. apply repeat_snoc. Qed.

Lemma repeatN_nat_spec v n acc : repeatN_nat v n acc = repeat v n ++ acc.
Proof.
  revert acc; induction n as [|n IH]; intros acc; cbn; [reflexivity|].
  rewrite IH. change (v :: acc) with ([v] ++ acc). rewrite app_assoc.
  now rewrite repeat_snoc.
Qed.

Lemma rev_push_run v c out : rev (push_run v c out) = rev out ++ repeat v (N.to_nat c).
Proof.
  unfold push_run. rewrite repeatN_nat_spec, rev_app_distr. now rewrite rev_repeat.
Qed.

Lemma nth_skipn (src : list N) i :
  (i < length src)%nat ->
  exists x, nth_error src i = Some x /\ skipn i src = x :: skipn (S i) src.
Proof.
  revert i; induction src as [|a src IH]; intros i Hi; cbn in Hi; [lia|].
  destruct i as [|i].
  - exists a. split; reflexivity.
  - destruct (IH i) as [x [H1 H2]]; [lia|]. exists x. split; [exact H1|].
    cbn [skipn]. exact H2.
Qed.

Lemma skipn_all_nil (src : list N) i : (length src <= i)%nat -> skipn i src = [].
Proof. intros H. apply skipn_all2. exact H. Qed.

Lemma rle_loop_eq fuel src len cap i remain wr out :
  rle_loop fuel src len cap i remain wr out =
  if negb (i <? len)%nat then RleDone (rev out)
  else match fuel with
  | O => RleFuel
  | S fuel' =>
    match nth_error src i with
    | None => RleOOBRead
    | Some byte =>
      let i1 := S i in
      if byte =? 0 then
        if (len <=? i1)%nat then RleErr (rev out)
        else match nth_error src i1 with
        | None => RleOOBRead
        | Some cnt =>
          let i2 := S i1 in
          if negb (cnt =? 0) then
            if remain <? cnt then RleErr (rev out)
            else if (len <=? i2)%nat then RleErr (rev out)
            else match nth_error src i2 with
            | None => RleOOBRead
            | Some v =>
              if cap <? wr + cnt then RleOOBWrite
              else rle_loop fuel' src len cap (S i2) (remain - cnt) (wr + cnt) (push_run v cnt out)
            end
          else
            rle_literal cap remain wr byte out (rle_loop fuel' src len cap i2)
        end
      else
        rle_literal cap remain wr byte out (rle_loop fuel' src len cap i1)
    end
  end.
Proof. destruct fuel; reflexivity. Qed.

(** The state of the loop at index [i] with [remain] bytes of room is
    determined by the decoding of the rest of the input. *)
Definition loop_post (o : option (list N)) (remain : N) (out : list N) (r : rle_res) : Prop :=
  match o with
  | Some o => if N.of_nat (length o) <=? remain then r = RleDone (rev out ++ o)
              else exists e, r = RleErr e
  | None => exists e, r = RleErr e
  end.

Lemma loop_post_nil remain out : loop_post (Some []) remain out (RleDone (rev out)).
Proof.
  unfold loop_post. cbn [length N.of_nat].
  replace (0 <=? remain) with true by (symmetry; apply N.leb_le; lia).
  now rewrite app_nil_r.
Qed.

Lemma loop_post_cons_lit b o remain out r :
  remain <> 0 ->
  loop_post o (remain - 1) (b :: out) r ->
  loop_post (option_map (cons b) o) remain out r.
Proof.
  intros Hr H. destruct o as [o|]; cbn in *; [|exact H].
  replace (N.of_nat (length o) <=? remain - 1) with (N.pos (Pos.of_succ_nat (length o)) <=? remain) in H.
  - destruct (N.pos (Pos.of_succ_nat (length o)) <=? remain); [|exact H].
    rewrite H. now rewrite <- app_assoc.
  - apply eq_true_iff_eq. rewrite !N.leb_le. lia.
Qed.

Lemma loop_correct src cap : forall fuel i remain wr out,
  (i <= length src)%nat -> wr + remain = cap -> (length src - i <= fuel)%nat ->
  loop_post (rle_decode (skipn i src)) remain out
            (rle_loop fuel src (length src) cap i remain wr out).
Proof.
  induction fuel as [|fuel IH]; intros i remain wr out Hi Hcap Hfuel; rewrite rle_loop_eq.
  - assert (i = length src) by lia. subst i.
    rewrite Nat.ltb_irrefl. cbn [negb]. rewrite skipn_all_nil by lia. cbn [rle_decode].
    apply loop_post_nil.
  - destruct (i <? length src)%nat eqn:Hlt; cbn [negb].
    2:{ apply Nat.ltb_ge in Hlt. rewrite skipn_all_nil by lia. cbn [rle_decode]. apply loop_post_nil. }
    apply Nat.ltb_lt in Hlt.
    destruct (nth_skipn src i Hlt) as [b [Hb Hs]]. rewrite Hb, Hs. cbn zeta.
    cbn [rle_decode].
    destruct (b =? 0) eqn:Hb0.
    + (* zero byte *)
      apply N.eqb_eq in Hb0. subst b.
      destruct (length src <=? S i)%nat eqn:Hl1.
      { apply Nat.leb_le in Hl1. rewrite skipn_all_nil by lia. cbn. eauto. }
      apply Nat.leb_gt in Hl1.
      destruct (nth_skipn src (S i) Hl1) as [c [Hc Hs1]]. rewrite Hc, Hs1.
      destruct (c =? 0) eqn:Hc0; cbn [negb].
      * (* 0 0 : literal zero *)
        unfold rle_literal.
        destruct (remain =? 0) eqn:Hr0.
        { apply N.eqb_eq in Hr0. subst remain.
          destruct (rle_decode (skipn (S (S i)) src)) as [o|]; cbn; eauto.
        }
        apply N.eqb_neq in Hr0.
        assert (Hw : cap <? wr + 1 = false) by (apply N.ltb_ge; lia). rewrite Hw.
        apply loop_post_cons_lit; [exact Hr0|].
        apply IH; lia.
      * (* run *)
        apply N.eqb_neq in Hc0.
        destruct (remain <? c) eqn:Hrc.
        { apply N.ltb_lt in Hrc.
          destruct (skipn (S (S i)) src) as [|v rest]; cbn; eauto.
          destruct (rle_decode rest) as [o|]; cbn; eauto.
          rewrite app_length, repeat_length.
          destruct (N.of_nat (N.to_nat c + length o) <=? remain) eqn:E; eauto.
          apply N.leb_le in E. lia. }
        apply N.ltb_ge in Hrc.
        destruct (length src <=? S (S i))%nat eqn:Hl2.
        { apply Nat.leb_le in Hl2. rewrite skipn_all_nil by lia. cbn. eauto. }
        apply Nat.leb_gt in Hl2.
        destruct (nth_skipn src (S (S i)) Hl2) as [v [Hv Hs2]]. rewrite Hv, Hs2.
        assert (Hw : cap <? wr + c = false) by (apply N.ltb_ge; lia). rewrite Hw.
        specialize (IH (S (S (S i))) (remain - c) (wr + c) (push_run v c out)).
        assert (H1 : (S (S (S i)) <= length src)%nat) by lia.
        assert (H2 : wr + c + (remain - c) = cap) by lia.
        assert (H3 : (length src - S (S (S i)) <= fuel)%nat) by lia.
        specialize (IH H1 H2 H3).
        destruct (rle_decode (skipn (S (S (S i))) src)) as [o|]; cbn in *; [|exact IH].
        rewrite app_length, repeat_length.
        replace (N.of_nat (N.to_nat c + length o) <=? remain)
          with (N.of_nat (length o) <=? remain - c)
          by (apply eq_true_iff_eq; rewrite !N.leb_le; lia).
        destruct (N.of_nat (length o) <=? remain - c); [|exact IH].
        rewrite IH, rev_push_run. now rewrite <- app_assoc.
    + (* literal *)
      unfold rle_literal.
      destruct (remain =? 0) eqn:Hr0.
      { apply N.eqb_eq in Hr0. subst remain.
        destruct (rle_decode (skipn (S i) src)) as [o|]; cbn; eauto.
      }
      apply N.eqb_neq in Hr0.
      assert (Hw : cap <? wr + 1 = false) by (apply N.ltb_ge; lia). rewrite Hw.
      apply loop_post_cons_lit; [exact Hr0|].
      apply IH; lia.
Qed.

(** ** The theorems *)

Theorem rle_refines_spec : forall src cap,
  match rle_spec src cap with
  | Some out => uncompress_rle src cap = RleDone out
  | None => exists e, uncompress_rle src cap = RleErr e
  end.
Proof.
  intros src cap. unfold uncompress_rle, rle_spec.
  pose proof (loop_correct src cap (length src) 0%nat cap 0 []) as H.
  cbn [skipn rev app] in H.
  assert (H' := H (Nat.le_0_l _) (N.add_0_l _) ltac:(lia)). clear H.
  unfold loop_post in H'.
  destruct (rle_decode src) as [o|]; [|exact H'].
  destruct (N.of_nat (length o) <=? cap); exact H'.
Qed.

Theorem rle_in_bounds : forall src cap,
  uncompress_rle src cap <> RleOOBRead /\
  uncompress_rle src cap <> RleOOBWrite /\
  uncompress_rle src cap <> RleFuel.
Proof.
  intros src cap. pose proof (rle_refines_spec src cap) as H.
  destruct (rle_spec src cap).
  - rewrite H. repeat split; discriminate.
  - destruct H as [e H]. rewrite H. repeat split; discriminate.
Qed.

(** error or exact length: on success the reported length is the number of
    bytes written and never exceeds the buffer; on error the length is left
    alone and what was written stays inside the buffer *)
Lemma loop_written src cap : forall fuel i remain wr out e,
  wr + remain = cap -> N.of_nat (length out) = wr ->
  rle_loop fuel src (length src) cap i remain wr out = RleErr e ->
  N.of_nat (length e) <= cap.
Proof.
  induction fuel as [|fuel IH]; intros i remain wr out e Hcap Hout; rewrite rle_loop_eq.
  - destruct (negb (i <? length src)%nat); discriminate.
  - destruct (negb (i <? length src)%nat); [discriminate|].
    assert (Hrev : forall e', RleErr (rev out) = RleErr e' -> N.of_nat (length e') <= cap).
    { intros e' H. injection H as <-. rewrite rev_length. lia. }
    assert (Hlit : forall b k, (forall r w o, w + r = cap -> N.of_nat (length o) = w ->
                                  k r w o = RleErr e -> N.of_nat (length e) <= cap) ->
                    rle_literal cap remain wr b out k = RleErr e -> N.of_nat (length e) <= cap).
    { intros b k Hk. unfold rle_literal.
      destruct (remain =? 0) eqn:E0; [apply Hrev|]. apply N.eqb_neq in E0.
      destruct (cap <? wr + 1); [discriminate|].
      apply Hk; [lia|]. cbn [length]. lia. }
    destruct (nth_error src i) as [b|]; [|discriminate]. cbn zeta.
    destruct (b =? 0).
    + destruct (length src <=? S i)%nat; [apply Hrev|].
      destruct (nth_error src (S i)) as [c|]; [|discriminate].
      destruct (negb (c =? 0)).
      * destruct (remain <? c) eqn:Hrc; [apply Hrev|]. apply N.ltb_ge in Hrc.
        destruct (length src <=? S (S i))%nat; [apply Hrev|].
        destruct (nth_error src (S (S i))) as [v|]; [|discriminate].
        destruct (cap <? wr + c); [discriminate|].
        apply IH; [lia|].
        unfold push_run. rewrite repeatN_nat_spec, app_length, repeat_length. lia.
      * apply Hlit. intros r w o H1 H2. now apply IH.
    + apply Hlit. intros r w o H1 H2. now apply IH.
Qed.

Theorem rle_error_or_exact_length : forall src cap,
  (exists out, uncompress_rle src cap = RleDone out /\
               rle_retlen cap (uncompress_rle src cap) = Some (true, N.of_nat (length out)) /\
               N.of_nat (length out) <= cap /\ rle_decode src = Some out)
  \/
  (exists e, uncompress_rle src cap = RleErr e /\
             rle_retlen cap (uncompress_rle src cap) = Some (false, cap) /\
             N.of_nat (length e) <= cap).
Proof.
  intros src cap. pose proof (rle_refines_spec src cap) as H.
  unfold rle_spec in H.
  destruct (rle_decode src) as [o|] eqn:Hd.
  - destruct (N.of_nat (length o) <=? cap) eqn:Hle.
    + left. exists o. rewrite H. cbn. apply N.leb_le in Hle. auto.
    + right. destruct H as [e H]. exists e. rewrite H. cbn. split; [reflexivity|]. split; [reflexivity|].
      unfold uncompress_rle in H.
      eapply (loop_written src cap (length src) 0%nat cap 0 [] e); [lia|reflexivity|exact H].
  - right. destruct H as [e H]. exists e. rewrite H. cbn. split; [reflexivity|]. split; [reflexivity|].
    unfold uncompress_rle in H.
    eapply (loop_written src cap (length src) 0%nat cap 0 [] e); [lia|reflexivity|exact H].
Qed.
