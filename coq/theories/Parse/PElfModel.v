(** C03 (b) — model of the ELF probe: [do_probe], [init_elf32]/[init_elf64]
    (program/section header table walking with file-controlled entry sizes and
    counts, extended numbering, string table index), the first checks of
    [open_common] and the first walk over the PT_NOTE segments
    (src/kdumpfile/elfdump.c, repaired by fixes 15, 74, 75, 79, 93, 94).

    Every header field is read through the checked accessors of a chunk that
    is exactly as long as the C code asked the file cache for: [e_phentsize]
    resp. [e_shentsize] bytes per table entry.  A field beyond that length is
    the outcome [OOB].  No proofs in this file. *)
From Coq Require Import NArith ZArith List Bool.
From KdV Require Import Parse.Bounded Parse.NotesModel.
Import ListNotations.
Local Open Scope N_scope.

Record segment := { sg_off : Z; sg_filesz : Z; sg_phys : N; sg_memsz : N; sg_virt : N }.
Record section := { sc_off : Z; sc_size : N; sc_name : N }.

Record elf_tables := {
  et_be : bool; et_is64 : bool; et_machine : N;
  et_phnum : N; et_shnum : N;
  et_loads : list segment;      (* edp->load_segments[0..num_load_segments) *)
  et_notes : list segment;      (* edp->note_segments[0..num_note_segments) *)
  et_sects : list section;      (* edp->sections[0..num_sections) *)
  et_strtab : option chunk      (* edp->strtab (strtab_size bytes) *)
}.

Definition PT_LOAD : N := 1.
Definition PT_NOTE : N := 4.
Definition PN_XNUM : N := 65535.
Definition ET_CORE : N := 4.
Definition ADDR_MAX : N := 18446744073709551615.
Definition SIZE_MAX : N := 18446744073709551615.

Definition sizeof_phdr (is64 : bool) : N := if is64 then 56 else 32.
Definition sizeof_shdr (is64 : bool) : N := if is64 then 64 else 40.
Definition SIZEOF_LOAD_SEGMENT : N := 40.
Definition SIZEOF_SECTION : N := 24.

(** a file offset field: 32-bit fields are zero-extended, 64-bit fields are
    converted to the signed [off_t] *)
Definition coff (be is64 : bool) (c : chunk) (o32 o64 : N) : res Z :=
  if is64 then do v <- cu64 be c o64; Ok (to_off v)
  else do v <- cu32 be c o32; Ok (Z.of_N v).
(** a 32/64-bit unsigned field *)
Definition cword (be is64 : bool) (c : chunk) (o32 o64 : N) : res N :=
  if is64 then cu64 be c o64 else cu32 be c o32.

(** [flatmap_get_chunk] of one table entry; a failure is reported by
    [set_hdr_error] with the entry index and offset *)
Definition hdr_chunk (alim : N) (f : file) (sect : bool) (idx : N) (entsz : N) (off : Z) : res chunk :=
  match get_chunk alim f entsz off with
  | Err st _ => Err st (StHdrRead sect idx (of_off off))
  | r => r
  end.

(** [check_hdr_table] (fix 94): a non-empty table must lie within the file;
    of the last entry only the header structure ([hdrsz] bytes) *)
Definition hdr_table_ok (flen : N) (off : Z) (num entsz hdrsz : N) : bool :=
  negb ((18446744073709551615 - hdrsz) / entsz <? num - 1) &&
  extent_ok flen off ((num - 1) * entsz + hdrsz).

(** malloc(n): fails above the allocation limit *)
Definition alloc (alim n : N) : bool := n <=? alim.

(** ** program headers *)
(** [ph_nl]/[ph_nn] are [num_load_segments]/[num_note_segments]: the next free slot
    of the two [phnum]-element arrays *)
Record phstate := { ph_i : N; ph_off : Z; ph_nl : N; ph_nn : N;
                    ph_loads : list segment; ph_notes : list segment }.

Definition phdr_body (alim : N) (f : file) (be is64 : bool) (phnum entsz : N)
           (s : phstate) : phstate + res (list segment * list segment) :=
  match hdr_chunk alim f false (ph_i s) entsz (ph_off s) with
  | Ok c =>
    let next := fun nl nn l n => {| ph_i := ph_i s + 1; ph_off := off_add (ph_off s) entsz;
                                    ph_nl := nl; ph_nn := nn; ph_loads := l; ph_notes := n |} in
    (* the other fields are only looked at [if (pls)] *)
    let fields := fun _ : unit =>
      match coff be is64 c 4 8, coff be is64 c 16 32,
            cword be is64 c 12 24, cword be is64 c 20 40, cword be is64 c 8 16 with
      | Ok poff, Ok pfilesz, Ok ppaddr, Ok pmemsz, Ok pvaddr =>
        let phys := if ppaddr =? (if is64 then 18446744073709551615 else 4294967295)
                    then ADDR_MAX else ppaddr in
        Some {| sg_off := poff; sg_filesz := pfilesz; sg_phys := phys;
                sg_memsz := pmemsz; sg_virt := pvaddr |}
      | _, _, _, _, _ => None
      end in
    match cu32 be c 0 with
    | Ok ptype =>
      (* next_phdr(): both arrays have [phnum] slots *)
      if ptype =? PT_LOAD then
        if ph_nl s <? phnum then
          match fields tt with
          | Some sg => inl (next (ph_nl s + 1) (ph_nn s) (sg :: ph_loads s) (ph_notes s))
          | None => inr OOB
          end
        else inr OOB
      else if ptype =? PT_NOTE then
        if ph_nn s <? phnum then
          match fields tt with
          | Some sg => inl (next (ph_nl s) (ph_nn s + 1) (ph_loads s) (sg :: ph_notes s))
          | None => inr OOB
          end
        else inr OOB
      else inl (next (ph_nl s) (ph_nn s) (ph_loads s) (ph_notes s))
    | _ => inr OOB
    end
  | Err st w => inr (Err st w)
  | OOB => inr OOB | DivZero => inr DivZero | BadShift => inr BadShift
  | NullCall => inr NullCall | OutOfFuel => inr OutOfFuel
  end.

Definition read_phdrs (alim : N) (f : file) (be is64 : bool) (phnum entsz : N) (off : Z)
  : res (list segment * list segment) :=
  match loopN (phdr_body alim f be is64 phnum entsz) phnum
              {| ph_i := 0; ph_off := off; ph_nl := 0; ph_nn := 0; ph_loads := []; ph_notes := [] |} with
  | inl s => Ok (rev_append (ph_loads s) [], rev_append (ph_notes s) [])
  | inr r => r
  end.

(** ** section headers *)
(** [sh_n] is [num_sections] *)
Record shstate := { sh_i : N; sh_off : Z; sh_n : N; sh_acc : list section }.

Definition shdr_body (alim : N) (f : file) (be is64 : bool) (shnum entsz : N)
           (s : shstate) : shstate + res (list section) :=
  match hdr_chunk alim f true (sh_i s) entsz (sh_off s) with
  | Ok c =>
    match coff be is64 c 16 24, cword be is64 c 20 32, cu32 be c 0 with
    | Ok soff, Ok ssize, Ok sname =>
      (* store_sect(): the array has [shnum] slots *)
      if sh_n s <? shnum then
        inl {| sh_i := sh_i s + 1; sh_off := off_add (sh_off s) entsz; sh_n := sh_n s + 1;
               sh_acc := {| sc_off := soff; sc_size := ssize; sc_name := sname |} :: sh_acc s |}
      else inr OOB
    | _, _, _ => inr OOB
    end
  | Err st w => inr (Err st w)
  | OOB => inr OOB | DivZero => inr DivZero | BadShift => inr BadShift
  | NullCall => inr NullCall | OutOfFuel => inr OutOfFuel
  end.

Definition read_shdrs (alim : N) (f : file) (be is64 : bool) (shnum entsz : N) (off : Z)
  : res (list section) :=
  match loopN (shdr_body alim f be is64 shnum entsz) shnum
              {| sh_i := 0; sh_off := off; sh_n := 0; sh_acc := [] |} with
  | inl s => Ok (rev_append (sh_acc s) [])
  | inr r => r
  end.

(** ** init_strtab *)
Definition init_strtab (alim : N) (f : file) (flen : N) (nsects : N) (sects : list section) (idx : N)
  : res (option chunk) :=
  (* [nsects] is [edp->num_sections], the number of elements of [sects] *)
  if (idx =? 0) || (nsects <=? idx) then Ok None
  else
    match nth_error sects (N.to_nat idx) with
    | None => OOB
    | Some ps =>
      if negb (extent_ok flen (sc_off ps) (sc_size ps)) then Err KCORRUPT StStrtab   (* fix 93 *)
      else if SIZE_MAX <=? sc_size ps then Err KCORRUPT StStrtab
      else if negb (alloc alim (sc_size ps + 1)) then Err KSYSTEM StAlloc
      else match pread f (sc_size ps) (sc_off ps) with
           | Ok c => Ok (Some c)
           | Err st _ => Err st StStrtab
           | OOB => OOB | DivZero => DivZero | BadShift => BadShift
           | NullCall => NullCall | OutOfFuel => OutOfFuel
           end
    end.

(** ** init_elf32 / init_elf64 *)
Definition init_elf (alim : N) (f : file) (flen : N) (be is64 : bool) (eh : chunk) : res elf_tables :=
  do machine <- cu16 be eh 18;
  do shnum0 <- cu16 be eh (if is64 then 60 else 48);
  do phnum0 <- cu16 be eh (if is64 then 56 else 44);
  do shoff <- coff be is64 eh 32 40;
  do shentsize <- cu16 be eh (if is64 then 58 else 46);
  do phentsize <- cu16 be eh (if is64 then 54 else 42);
  do phoff <- coff be is64 eh 28 32;
  do shstrndx <- cu16 be eh (if is64 then 62 else 50);
  (* extended numbering *)
  do nums <-
    (if negb (shoff =? 0)%Z && ((shnum0 =? 0) || (phnum0 =? PN_XNUM)) then
       if shentsize <? sizeof_shdr is64 then Err KCORRUPT (StHdrSize true shentsize)
       else
         do c <- hdr_chunk alim f true 0 shentsize shoff;
         do shsize <- cword be is64 c 20 32;
         do shinfo <- cu32 be c (if is64 then 44 else 28);
         let shnum := if shnum0 =? 0 then shsize else shnum0 in
         let phnum := if (0 <? shnum) && (phnum0 =? PN_XNUM) then shinfo else phnum0 in
         Ok (shnum, phnum)
     else Ok (shnum0, phnum0));
  let '(shnum, phnum) := nums in
  (* init_segments *)
  do _ <- (if phnum =? 0 then Ok tt
           else if SIZE_MAX / 2 / SIZEOF_LOAD_SEGMENT <? phnum then Err KSYSTEM (StTooMany false phnum)
           else if alloc alim (2 * phnum * SIZEOF_LOAD_SEGMENT) then Ok tt else Err KSYSTEM StAlloc);
  (* init_sections *)
  do _ <- (if shnum =? 0 then Ok tt
           else if SIZE_MAX / SIZEOF_SECTION <? shnum then Err KSYSTEM (StTooMany true shnum)
           else if alloc alim (shnum * SIZEOF_SECTION) then Ok tt else Err KSYSTEM StAlloc);
  do segs <- (if negb (phnum =? 0) && (phentsize <? sizeof_phdr is64)
              then Err KCORRUPT (StHdrSize false phentsize)
              else if negb (phnum =? 0) && negb (hdr_table_ok flen phoff phnum phentsize (sizeof_phdr is64))
              then Err KCORRUPT (StHdrExtent false phnum (of_off phoff))
              else read_phdrs alim f be is64 phnum phentsize phoff);
  do sects <- (if negb (shnum =? 0) && (shentsize <? sizeof_shdr is64)
               then Err KCORRUPT (StHdrSize true shentsize)
               else if negb (shnum =? 0) && negb (hdr_table_ok flen shoff shnum shentsize (sizeof_shdr is64))
               then Err KCORRUPT (StHdrExtent true shnum (of_off shoff))
               else read_shdrs alim f be is64 shnum shentsize shoff);
  do strtab <- init_strtab alim f flen shnum sects shstrndx;
  Ok {| et_be := be; et_is64 := is64; et_machine := machine;
        et_phnum := phnum; et_shnum := shnum;
        et_loads := fst segs; et_notes := snd segs; et_sects := sects; et_strtab := strtab |}.

(** ** do_probe *)
Definition ELFMAG : list N := [127; 69; 76; 70].

Definition do_probe (alim : N) (f : file) (flen : N) (eh : chunk) : res elf_tables :=
  do mag <- cbytes eh 0 4;
  if negb (if list_eq_dec N.eq_dec mag ELFMAG then true else false) then Err KNOPROBE StSignature
  else
    do eidata <- cu8 eh 5;
    do be <- (if eidata =? 1 then Ok false else if eidata =? 2 then Ok true
              else Err KNOTIMPL StDataFmt);
    do eiclass <- cu8 eh 4;
    do etype <- cu16 be eh 16;
    do eversion <- cu32 be eh 20;
    if (eiclass =? 1) && (etype =? ET_CORE) && (eversion =? 1) then init_elf alim f flen be false eh
    else if (eiclass =? 2) && (etype =? ET_CORE) && (eversion =? 1) then init_elf alim f flen be true eh
    else Err KNOTIMPL StClass.

(** ** elf_probe up to and including the first note walk of open_common *)
Record elf_result := { er_tables : elf_tables; er_notes : list note }.

(** [check_file_extent] (fix 79, [Bounded.extent_ok]): the note data must lie
    within the [flen] bytes of the file *)

Fixpoint walk_notes (alim : N) (f : file) (flen : N) (be : bool) (segs : list segment)
  : res (list note) :=
  match segs with
  | [] => Ok []
  | sg :: rest =>
    if negb (extent_ok flen (sg_off sg) (of_off (sg_filesz sg))) then Err KCORRUPT StNotesExtent
    else
    match get_chunk alim f (of_off (sg_filesz sg)) (sg_off sg) with
    | Ok c =>
      do ns <- do_notes be c;
      do more <- walk_notes alim f flen be rest;
      Ok (rev_append (rev_append ns []) more)
    | Err st _ => Err st (StNotesRead (of_off (sg_off sg)))
    | OOB => OOB | DivZero => DivZero | BadShift => BadShift
    | NullCall => NullCall | OutOfFuel => OutOfFuel
    end
  end.

Definition elf_probe (alim : N) (f : file) (flen : N) : res elf_result :=
  do eh <- get_chunk alim f 64 0;
  do t <- do_probe alim f flen eh;
  (* [!edp->num_load_segments && !edp->num_sections] *)
  if (match et_loads t with [] => true | _ => false end) && (et_shnum t =? 0)
  then Err KNOTIMPL StNoContent
  else
    do ns <- walk_notes alim f flen (et_be t) (et_notes t);
    Ok {| er_tables := t; er_notes := ns |}.
