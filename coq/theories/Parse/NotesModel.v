(** C03 (c) — model of [do_notes] (src/kdumpfile/notes.c): the iteration
    arithmetic over a buffer of ELF notes with file-controlled [n_namesz] /
    [n_descsz], and of the [note_equal] name comparison.

    The note header is copied out of the buffer (fix 74), so alignment does not
    matter; every byte is obtained through the checked accessors of
    [Bounded].  The callback is represented by the list of notes it would be
    called with (name and descriptor as sub-chunks: exactly the [namesz] and
    [descsz] bytes the callback may look at).  No proofs in this file. *)
From Coq Require Import NArith ZArith List Bool.
From KdV Require Import Parse.Bounded.
Import ListNotations.
Local Open Scope N_scope.

Record note := { n_type : N; n_name : chunk; n_desc : chunk }.

(** [roundup_size(sz)] = [((size_t)(sz)+3) & ~(size_t)3]; [sz] is a 32-bit
    value, so the 64-bit sum cannot wrap *)
Definition roundup4 (x : N) : N := ((x + 3) / 4) * 4.

Definition NHDR : N := 12.   (* sizeof(Elf32_Nhdr) *)

(** loop state: offset of [hdr] in the buffer, remaining [size], notes so far *)
Definition nstate := (N * N * list note)%type.

(** Arithmetic widths as in the C source: [namesz], [descsz], [type] are
    [Elf32_Word]; [descoff] is a [size_t], so [descoff + descsz] is a 64-bit
    sum of a value below 2^32+16 and a value below 2^32 and cannot wrap: it is
    modelled without reduction.  [narrow = true] is the variant in which
    [descoff] is declared as an [Elf32_Word] as well (both the offset and the
    sum of the bounds check are reduced modulo 2^32); it is *not* the code and
    exists so that the difference is expressible ([C03_notes_narrow_descoff_refuted]). *)
Definition wrap32 (narrow : bool) (x : N) : N := if narrow then x mod 4294967296 else x.

Definition notes_body_w (narrow be : bool) (c : chunk) (s : nstate) : nstate + res (list note) :=
  let '(o, size, acc) := s in
  if size <? NHDR then inr (Ok (rev_append acc []))                      (* while (size >= sizeof(Elf32_Nhdr)) *)
  else
    match cu32 be c o, cu32 be c (o + 4), cu32 be c (o + 8) with
    | Ok namesz, Ok descsz, Ok type =>
      let descoff := wrap32 narrow (NHDR + roundup4 namesz) in
      if size <? wrap32 narrow (descoff + descsz) then inr (Ok (rev_append acc []))       (* break *)
      else
        match csub c (o + NHDR) namesz, csub c (o + descoff) descsz with
        | Some name, Some desc =>
          let size1 := size - descoff in
          let o' := o + descoff + roundup4 descsz in
          let size' := if roundup4 descsz <=? size1 then size1 - roundup4 descsz else 0 in
          inl (o', size', {| n_type := type; n_name := name; n_desc := desc |} :: acc)
        | _, _ => inr OOB
        end
    | _, _, _ => inr OOB
    end.

(** the code: [size_t descoff] *)
Definition notes_body := notes_body_w false.

(** fuel: every iteration consumes at least the 12 header bytes *)
Definition notes_fuel (size : N) : N := size / NHDR + 1.

(** [do_notes(ctx, data, size, do_note)] where [data] is the chunk [c] and
    [size = clen c] (as all callers pass) *)
Definition do_notes_w (narrow be : bool) (c : chunk) : res (list note) :=
  match loopN (notes_body_w narrow be c) (notes_fuel (clen c)) (0, clen c, []) with
  | inr r => r
  | inl _ => OutOfFuel
  end.

Definition do_notes := do_notes_w false.

(** [note_equal(name, notename, notenamesz)]: [lit] is the C string literal
    without its terminating NUL *)
Definition note_equal (lit : list N) (n : note) : res bool :=
  let namelen := N.of_nat (length lit) in
  let sz := clen (n_name n) in
  if (namelen <=? sz) && (sz <=? namelen + 1) then
    do bs <- cbytes (n_name n) 0 sz;
    Ok (if list_eq_dec N.eq_dec bs (firstn (N.to_nat sz) (lit ++ [0])) then true else false)
  else Ok false.

Definition ascii (s : list N) := s.
Definition VMCOREINFO : list N := [86;77;67;79;82;69;73;78;70;79].
Definition VMCOREINFO_XEN : list N := [86;77;67;79;82;69;73;78;70;79;95;88;69;78].
Definition ERASEINFO : list N := [69;82;65;83;69;73;78;70;79].

(** what [do_noarch_note] does with one note: which blob attribute it sets *)
Inductive noarch_action := NaVmcoreinfo | NaVmcoreinfoXen | NaEraseinfo | NaNone.

Definition noarch_note (n : note) : res noarch_action :=
  do a <- note_equal VMCOREINFO n;
  if a then Ok NaVmcoreinfo else
  do b <- note_equal VMCOREINFO_XEN n;
  if b then Ok NaVmcoreinfoXen else
  do c <- note_equal ERASEINFO n;
  if c then Ok NaEraseinfo else Ok NaNone.
