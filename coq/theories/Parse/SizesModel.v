(** C03 (e)(f)(g) — file-controlled sizes that end up as divisors, shift
    counts or copy lengths:

    (g) [page_size_pre_hook] / [page_shift_post_hook] (util.c; repaired by
        attr's fixes 10 and 50) and the [%] and [>>] of the read path
        (read.c; repaired by fix 33);
    (e) diskdump [try_header] and the page descriptor [size] against the page
        buffer (diskdump.c);
    (f) LKCD [dp_size] against the per-context buffer (lkcd.c; repaired by
        fix 09), composed with the RLE model.

    [repaired = false] gives the pinned tree's logic, so that the defects are
    visible as outcomes of the model ([Properties_C03]: [_refuted] witnesses).
    No proofs in this file. *)
From Coq Require Import NArith ZArith List Bool.
From KdV Require Import Parse.Bounded Parse.RleModel.
Import ListNotations.
Local Open Scope N_scope.

(** ** (g) page size and shift *)

(** [x & ~(x - 1)] isolates the lowest set bit of [x] (0 for 0) *)
Fixpoint lowbit_pos (p : positive) : positive :=
  match p with xO q => xO (lowbit_pos q) | _ => xH end.
Definition lowbit (v : N) : N := match v with N0 => 0 | Npos p => Npos (lowbit_pos p) end.

(** [ffsl(x) - 1] as the C code passes it on: the index of the lowest set bit;
    [ffsl(0) - 1 = -1], which becomes 2^64-1 as a [kdump_num_t] *)
Fixpoint ctz_pos (p : positive) : N :=
  match p with xO q => 1 + ctz_pos q | _ => 0 end.
Definition ffsl_minus1 (v : N) : N := match v with N0 => 18446744073709551615 | Npos p => ctz_pos p end.

Definition page_size_pre_hook (repaired : bool) (v : N) : res N :=
  if repaired && (v =? 0) then Err KCORRUPT (StPageSize v)
  else if negb (v =? lowbit v) then Err KCORRUPT (StPageSize v)
  else Ok (ffsl_minus1 v).

(** [set_page_size(ctx, (size_t)1 << shift)] *)
Definition page_shift_hooks (repaired : bool) (shift : N) : res N :=
  if repaired && (64 <=? shift) then Err KCORRUPT (StPageSize shift)
  else checked_shl 64 1 shift.

(** what [set_page_size(ctx, v)] establishes: (arch.page_size, arch.page_shift) *)
Definition set_page_size (repaired : bool) (v : N) : res (N * N) :=
  do shift <- page_size_pre_hook repaired v;
  do ps <- page_shift_hooks repaired shift;
  Ok (ps, shift).

(** [read_locked]: [off = addr % page_size], [pfn = addr >> page_shift];
    [ps = 0] is "arch.page_size not set" *)
Definition read_split (repaired : bool) (ps shift addr : N) : res (N * N) :=
  if repaired && (ps =? 0) then Err KNODATA (StPageSize 0)
  else
    do off <- checked_mod addr ps;
    do pfn <- checked_shr 64 addr shift;
    Ok (pfn, off).

(** ** (e) diskdump *)
Definition MIN_PAGE_SIZE : N := 4096.
Definition MAX_PAGE_SIZE : N := 262144.

(** [try_header(ctx, block_size, bitmap_blocks, max_mapnr)]; [block_size] is
    the 32-bit field as read (an [int32_t] compared after conversion to
    [unsigned long], i.e. a negative value is a huge one) *)
Definition try_header (repaired : bool) (block_size bitmap_blocks max_mapnr : N) : res (N * N) :=
  let bs := if block_size <? 2147483648 then block_size
            else block_size + 18446744069414584320 (* sign extension to 64 bits *) in
  if (bs <? MIN_PAGE_SIZE) || (MAX_PAGE_SIZE <? bs) then Err KCORRUPT (StPageSize block_size)
  else
    let maxcovered := (8 * bitmap_blocks * block_size) mod W64 in
    if maxcovered <? max_mapnr then Err KCORRUPT StBitmapSmall
    else set_page_size repaired block_size.

(** a destination buffer of [cap] bytes receiving [n] bytes *)
Definition copy_into (cap n : N) : res unit := if n <=? cap then Ok tt else OOB.

Definition DUMP_DH_COMPRESSED : N := 39.   (* zlib | lzo | snappy | zstd *)

(** [diskdump_read_page] after the descriptor has been read: where the page
    data goes.  Compressed data stays in the file cache chunk ([pd.size] bytes,
    no copy) and the decompressor is given the page buffer with its size;
    raw data is read straight into the page buffer. *)
Inductive dd_action := DdDecompress (srclen dstcap : N) | DdRaw.

(** [slot] is the size of the destination: a page cache slot, i.e. the
    *current* [arch.page_size] (VMCOREINFO read after the header may have
    changed it and re-allocated the cache).  [chk] is what a raw page's size is
    compared with; the code compares with [get_page_size(ctx)], i.e. [chk =
    slot] ([dd_page]).  Comparing with the header's block size instead is a
    different program ([C03_diskdump_raw_page_block_size_refuted]). *)
Definition dd_page_gen (alim : N) (f : file) (flen chk slot flags size : N) (off : Z) : res dd_action :=
  if negb (extent_ok flen off size) then Err KCORRUPT (StOther 30)     (* fix 92: "Page data extends beyond end of file" *)
  else if negb (N.land flags DUMP_DH_COMPRESSED =? 0) then
    do _ <- get_chunk alim f size off;
    Ok (DdDecompress size slot)
  else if negb (size =? chk) then Err KCORRUPT (StPageSize size)
  else
    do _ <- pread f size off;
    do _ <- copy_into slot size;
    Ok DdRaw.

Definition dd_page (alim : N) (f : file) (flen ps flags size : N) (off : Z) : res dd_action :=
  dd_page_gen alim f flen ps ps flags size off.

(** ** (f) LKCD *)
Definition DUMP_COMPRESSED : N := 2.
Definition DUMP_RAW : N := 1.
Definition DUMP_COMPRESS_RLE : N := 1.
Definition DUMP_COMPRESS_GZIP : N := 2.

(** [lkcd_read_page] after [get_page_desc]: the per-context buffer for
    compressed data has [ps] bytes ([lkcd_realloc_compressed]).
    Result: the page bytes for RLE, [None] when gzip (external) produced them. *)
Definition lkcd_page (repaired : bool) (f : file) (ps compression dp_size dp_flags : N) (off : Z)
  : res (option (list N)) :=
  let type := N.land dp_flags 3 in
  if type =? DUMP_COMPRESSED then
    if (if repaired then ps else MAX_PAGE_SIZE) <? dp_size then Err KCORRUPT (StLkcdSize dp_size)
    else
      do c <- pread f dp_size off;
      do _ <- copy_into ps dp_size;                         (* into ctx->data[cbuf_slot] *)
      if compression =? DUMP_COMPRESS_RLE then
        do src <- cbytes c 0 dp_size;
        match uncompress_rle src ps with
        | RleDone out => if N.of_nat (length out) =? ps then Ok (Some out)
                         else Err KCORRUPT (StLkcdPage (N.of_nat (length out)))
        | RleErr _ => Err KCORRUPT (StLkcdPage 0)
        | RleOOBRead | RleOOBWrite => OOB
        | RleFuel => OutOfFuel
        end
      else if compression =? DUMP_COMPRESS_GZIP then Ok None
      else Err KNOTIMPL (StLkcdType compression)
  else if type =? DUMP_RAW then
    if negb (dp_size =? ps) then Err KCORRUPT (StLkcdPage dp_size)
    else
      do c <- pread f dp_size off;
      do _ <- copy_into ps dp_size;                         (* into pio->chunk.data *)
      do bs <- cbytes c 0 dp_size;
      Ok (Some bs)
  else Err KNOTIMPL (StLkcdType type).

(** ** (e) the diskdump header walk up to the bitmap read

    [diskdump_probe] -> [open_common]: the header is tried as 32-bit
    little/big endian, then 64-bit little/big endian; KDUMP_ERR_CORRUPT from
    [try_header] means "try the next layout". *)
Record dd_layout := { dl_bs : N; dl_sub : N; dl_bmp : N; dl_mapnr : N; dl_ver : N }.

Definition dd_fields (be is64 : bool) (h : chunk) : res dd_layout :=
  let o := if is64 then 428 else 416 in
  do ver <- cu32 be h 8;
  do bs <- cu32 be h o;
  do sub <- cu32 be h (o + 4);
  do bmp <- cu32 be h (o + 8);
  do mapnr <- cu32 be h (o + 12);
  Ok {| dl_bs := bs; dl_sub := sub; dl_bmp := bmp; dl_mapnr := mapnr; dl_ver := ver |}.

Definition KDUMP_SIG : list N := [75;68;85;77;80;32;32;32].
Definition DISKDUMP_SIG : list N := [68;73;83;75;68;85;77;80].

(** [do_header_32/64] as far as modelled: the sub-header size (fix 73) *)
Definition dd_do_header (is64 be : bool) (l : dd_layout) : res (bool * bool * dd_layout) :=
  if 2147483648 <=? dl_sub l then Err KCORRUPT StSubHdr else Ok (is64, be, l).

(** [try_header_32] / [try_header_64]: little endian first; only a CORRUPT
    answer of [try_header] itself leads to the big-endian attempt *)
Definition dd_try (repaired : bool) (is64 : bool) (h : chunk) : res (bool * bool * dd_layout) :=
  do l <- dd_fields false is64 h;
  match try_header repaired (dl_bs l) (dl_bmp l) (dl_mapnr l) with
  | Ok _ => dd_do_header is64 false l
  | Err KCORRUPT _ =>
    do l' <- dd_fields true is64 h;
    match try_header repaired (dl_bs l') (dl_bmp l') (dl_mapnr l') with
    | Ok _ => dd_do_header is64 true l'
    | Err st w => Err st w
    | OOB => OOB | DivZero => DivZero | BadShift => BadShift | NullCall => NullCall
    | OutOfFuel => OutOfFuel
    end
  | Err st w => Err st w
  | OOB => OOB | DivZero => DivZero | BadShift => BadShift | NullCall => NullCall
  | OutOfFuel => OutOfFuel
  end.

(** [open_common]: KDUMP_ERR_CORRUPT from the 32-bit attempt (wherever it
    arose) means "try the 64-bit layout"; from the 64-bit attempt it becomes
    KDUMP_ERR_NOTIMPL "Invalid diskdump header content" *)
Definition dd_choose (repaired : bool) (h : chunk) : res (bool * bool * dd_layout) :=
  match dd_try repaired false h with
  | Err KCORRUPT _ =>
    match dd_try repaired true h with
    | Err KCORRUPT _ => Err KNOTIMPL (StOther 1)
    | r => r
    end
  | r => r
  end.

(** sizes handed to [flatmap_get_chunk] by [read_bitmap] (diskdump.c, repaired
    by fix 73): (offset of the bitmap, its size in bytes, offset of the page
    descriptors).  [sub_hdr_size] and [bitmap_blocks] are [int32_t]. *)
Definition sext32 (v : N) : Z := if v <? 2147483648 then Z.of_N v else (Z.of_N v - 4294967296)%Z.

Definition dd_bitmap_geometry (ps sub bmp max_pfn : N) : Z * N * Z :=
  let sz := fun (blocks : Z) => of_off (blocks * Z.of_N ps) in   (* int32 * size_t, in size_t *)
  let off0 := to_off (sz (1 + sext32 sub)%Z) in
  let descoff := to_off (of_off off0 + sz (sext32 bmp)) in
  let bitmapsize := sz (sext32 bmp) in
  let max_bitmap_pfn := (bitmapsize * 8) mod W64 in
  if max_pfn <=? max_bitmap_pfn / 2 then
    let bitmapsize2 := sz (Z.quot (sext32 bmp) 2) in
    (to_off (of_off off0 + bitmapsize2), bitmapsize2, descoff)
  else (off0, bitmapsize, descoff).
