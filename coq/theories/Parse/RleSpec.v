(** C03 (a) — what LKCD run-length decoding means, written from the format
    description (a zero byte introduces a run [0 cnt val]; [0 0] is a literal
    zero; anything else is a literal), by structural recursion on the input. *)
From Coq Require Import NArith List Bool.
Import ListNotations.
Local Open Scope N_scope.

Fixpoint rle_decode (src : list N) : option (list N) :=
  match src with
  | [] => Some []
  | b :: rest =>
    if b =? 0 then
      match rest with
      | [] => None
      | c :: rest' =>
        if c =? 0 then option_map (cons 0) (rle_decode rest')
        else match rest' with
             | [] => None
             | v :: rest'' => option_map (app (repeat v (N.to_nat c))) (rle_decode rest'')
             end
      end
    else option_map (cons b) (rle_decode rest)
  end.

(** the answer a caller with a [cap]-byte buffer is entitled to *)
Definition rle_spec (src : list N) (cap : N) : option (list N) :=
  match rle_decode src with
  | Some out => if N.of_nat (length out) <=? cap then Some out else None
  | None => None
  end.
