(** C03 (d) — [flatmap_init]: the array write [flatoffs[segidx]] is always
    inside the allocated array, no other forbidden outcome is reachable, and
    for a file of [flen] bytes the walk ends within [flen/17 + 2] records. *)
From Coq Require Import NArith ZArith List Bool Lia ZifyBool ZifyNat ZifyN.
From KdV Require Import Parse.Bounded Parse.BoundedProofs Parse.FlatInit.
Import ListNotations.
Local Open Scope N_scope.
Ltac Zify.zify_post_hook ::= Z.div_mod_to_equations.
#[local] Hint Resolve good_ok good_noprobe : core.
#[local] Hint Extern 1 (good (Err _ _)) => (apply good_err; [reflexivity|discriminate]) : core.

(** the array always has room up to the next multiple of 32 *)
Definition alloc_inv (s : flatstate) : Prop := fl_alloc s = 32 * ((fl_idx s + 31) / 32).

Lemma pread_shape f len pos c :
  pread f len pos = Ok c -> len <> 0 ->
  cfile c = f /\ cpos c = Z.to_N pos /\ clen c = len /\ (0 <= pos)%Z.
Proof.
  unfold pread. intros H Hl. apply N.eqb_neq in Hl. rewrite Hl in H.
  destruct (pos <? 0)%Z eqn:E; [discriminate|].
  destruct (OFF_MAX - pos <? Z.of_N (len - 1))%Z; [discriminate|].
  injection H as <-. cbn. repeat split. lia.
Qed.

(** one step: stays inside the array, advances by at least 17 bytes *)
Lemma flat_step alim f s :
  alloc_inv s ->
  match flat_body alim f s with
  | inl s' => alloc_inv s' /\ (fl_pos s + 17 <= fl_pos s')%Z /\ (0 <= fl_pos s)%Z
  | inr r => good r
  end.
Proof.
  intros Hinv. unfold flat_body.
  destruct (pread_cases f 16 (fl_pos s)) as [[hdr [H Hl]]|[st [H ->]]]; rewrite H; [|auto].
  destruct (pread_shape _ _ _ _ H ltac:(lia)) as [_ [_ [_ Hpos]]].
  destruct (cu64_in true hdr 0) as [rawpos E1]; [lia|]. rewrite E1.
  destruct (cu64_in true hdr 8) as [rawsize E2]; [lia|]. rewrite E2.
  destruct (to_off rawpos =? -1)%Z; [auto|].
  destruct (to_off rawpos <? 0)%Z; [auto|].
  destruct ((to_off rawsize <=? 0) || (OFF_MAX - fl_pos s - 16 <? to_off rawsize))%Z eqn:Esz; [auto|].
  apply orb_false_iff in Esz. destruct Esz as [Es1 Es2].
  apply Z.leb_gt in Es1. apply Z.ltb_ge in Es2.
  unfold alloc_inv in Hinv. unfold ALLOC_INC.
  destruct (fl_idx s mod 32 =? 0) eqn:Eg; cbn [andb].
  - apply N.eqb_eq in Eg.
    destruct (alim <? 8 * (fl_idx s + 32)); [auto|].
    assert (Hlt : fl_idx s <? fl_idx s + 32 = true) by (apply N.ltb_lt; lia). rewrite Hlt.
    unfold alloc_inv. cbn [fl_alloc fl_idx fl_pos]. repeat split; lia.
  - apply N.eqb_neq in Eg.
    assert (Hlt : fl_idx s <? fl_alloc s = true) by (apply N.ltb_lt; lia). rewrite Hlt.
    unfold alloc_inv. cbn [fl_alloc fl_idx fl_pos]. repeat split; lia.
Qed.

(** beyond the end of the file everything reads as zero, and a zero record is
    rejected *)
Lemma cget_zero f flen c off :
  (forall p, flen <= p -> f p = 0) -> cfile c = f -> flen <= cpos c -> off < clen c ->
  cget c off = Some 0.
Proof.
  intros Hz Hf Hp Ho. rewrite cget_in by exact Ho. rewrite Hf. unfold fbyte. rewrite Hz by lia. reflexivity.
Qed.

Lemma cget_be_zero f flen c :
  (forall p, flen <= p -> f p = 0) -> cfile c = f -> flen <= cpos c ->
  forall n off, off + N.of_nat n <= clen c -> cget_be c off n 0 = Some 0.
Proof.
  intros Hz Hf Hp. induction n as [|n IH]; intros off H; cbn [cget_be]; [reflexivity|].
  rewrite (cget_zero f flen) by (auto; lia). cbn. apply IH. lia.
Qed.

Lemma flat_stops_beyond_eof alim f flen s :
  (forall p, flen <= p -> f p = 0) -> (Z.of_N flen <= fl_pos s)%Z ->
  exists r, flat_body alim f s = inr r.
Proof.
  intros Hz Hp. unfold flat_body.
  destruct (pread_cases f 16 (fl_pos s)) as [[hdr [H Hl]]|[st [H ->]]]; rewrite H; [|eauto].
  destruct (pread_shape _ _ _ _ H ltac:(lia)) as [Hf [Hc [_ Hpos]]].
  unfold cu64, cuint.
  rewrite (cget_be_zero f flen hdr Hz Hf ltac:(lia) 8 0) by (cbn; lia).
  rewrite (cget_be_zero f flen hdr Hz Hf ltac:(lia) 8 8) by (cbn; lia).
  cbn [of_opt]. change (to_off 0) with 0%Z. cbn. eauto.
Qed.

Lemma flat_loop alim f flen :
  (forall p, flen <= p -> f p = 0) ->
  forall n s, alloc_inv s ->
    (Z.of_N flen <= fl_pos s + 17 * (Z.of_nat n - 1))%Z -> (1 <= n)%nat ->
    exists r, loop_nat (flat_body alim f) n s = inr r /\ good r.
Proof.
  intros Hz. induction n as [|n IH]; intros s Hinv Hb Hn; [lia|].
  cbn [loop_nat].
  pose proof (flat_step alim f s Hinv) as Hstep.
  destruct (flat_body alim f s) as [s'|r] eqn:Eb; [|eauto].
  destruct Hstep as [Hinv' [Hadv Hpos]].
  destruct n as [|n'].
  - exfalso. destruct (flat_stops_beyond_eof alim f flen s Hz ltac:(lia)) as [r Hr]. congruence.
  - apply IH; [exact Hinv'|lia|lia].
Qed.

Theorem flatmap_file_init_good : forall alim f flen,
  (forall p, flen <= p -> f p = 0) -> good (flatmap_file_init alim f flen).
Proof.
  intros alim f flen Hz. unfold flatmap_file_init. rewrite loopN_nat.
  destruct (flat_loop alim f flen Hz (N.to_nat (flat_fuel flen))
              {| fl_pos := MDF_HEADER_SIZE; fl_idx := 0; fl_alloc := 0; fl_acc := [] |}) as [r [Hr Hg]].
  - unfold alloc_inv. cbn. reflexivity.
  - unfold flat_fuel, MDF_HEADER_SIZE. cbn [fl_pos]. lia.
  - unfold flat_fuel. lia.
  - rewrite Hr. exact Hg.
Qed.

(** without any assumption on the file: nothing forbidden, whatever the fuel *)
Lemma flat_loop_noub alim f : forall n s, alloc_inv s ->
  match loop_nat (flat_body alim f) n s with inl _ => True | inr r => good r end.
Proof.
  induction n as [|n IH]; intros s Hinv; cbn [loop_nat]; [exact I|].
  pose proof (flat_step alim f s Hinv) as Hstep.
  destruct (flat_body alim f s) as [s'|r]; [apply IH; tauto|exact Hstep].
Qed.

Theorem flatmap_file_init_in_bounds : forall alim f fuel,
  is_ub (flatmap_file_init alim f fuel) = false.
Proof.
  intros alim f fuel. unfold flatmap_file_init. rewrite loopN_nat.
  pose proof (flat_loop_noub alim f (N.to_nat (flat_fuel fuel))
    {| fl_pos := MDF_HEADER_SIZE; fl_idx := 0; fl_alloc := 0; fl_acc := [] |}) as H.
  destruct (loop_nat _ _ _); [reflexivity|].
  apply H. unfold alloc_inv. reflexivity.
Qed.

Theorem flatmap_init_good : forall alim f flen,
  (forall p, flen <= p -> f p = 0) -> good (flatmap_init alim f flen).
Proof.
  intros alim f flen Hz. unfold flatmap_init.
  destruct (pread_cases f 32 0) as [[hdr [H Hl]]|[st [H ->]]]; rewrite H; cbn [bind]; [|auto].
  destruct (cbytes_in hdr 0 16) as [sig Hs]; [lia|]. rewrite Hs. cbn [bind].
  destruct (negb _); [auto|].
  repeat rd. cbn [bind].
  destruct (negb (v =? 1)); [auto|]. destruct (negb (v0 =? 1)); [auto|].
  apply good_bind; [apply flatmap_file_init_good; exact Hz|auto].
Qed.
