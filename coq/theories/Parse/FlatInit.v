(** C03 (d) — model of [flatmap_init] / [flatmap_file_init]
    (src/kdumpfile/flatmap.c, repaired by flat's fix 62): the walk over the
    segment headers of a flattened (makedumpfile -F) file, with file-controlled
    offsets and sizes, the growth of the [flatoffs] array in steps of 32 and the
    write [flatoffs[segidx]].  No proofs in this file. *)
From Coq Require Import NArith ZArith List Bool.
From KdV Require Import Parse.Bounded.
Import ListNotations.
Local Open Scope N_scope.

Definition MDF_HEADER_SIZE : Z := 4096.
Definition ALLOC_INC : N := 32.
Definition MDF_SIG : list N := [109;97;107;101;100;117;109;112;102;105;108;101;0;0;0;0]. (* "makedumpfile" *)

(** one rearranged segment: logical position, length, and the value stored in
    [flatoffs[segidx]] (file position minus logical position) *)
Record flatseg := { fs_pos : Z; fs_size : Z; fs_off : Z }.

(** [flat_alloc]: number of elements the [flatoffs] array currently has *)
Record flatstate := { fl_pos : Z; fl_idx : N; fl_alloc : N; fl_acc : list flatseg }.

Definition flat_body (alim : N) (f : file) (s : flatstate) : flatstate + res (list flatseg) :=
  match pread f 16 (fl_pos s) with
  | Ok hdr =>
    match cu64 true hdr 0, cu64 true hdr 8 with
    | Ok rawpos, Ok rawsize =>
      let pos := to_off rawpos in
      if (pos =? -1)%Z then inr (Ok (rev_append (fl_acc s) []))          (* MDF_OFFSET_END_FLAG *)
      else if (pos <? 0)%Z then inr (Err KCORRUPT (StFlatOffset (of_off (fl_pos s))))
      else
        let size := to_off rawsize in
        if ((size <=? 0) || (OFF_MAX - fl_pos s - 16 <? size))%Z
        then inr (Err KCORRUPT (StFlatSize (of_off (fl_pos s))))
        else
          (* if ((segidx % ALLOC_INC) == 0) flatoffs = realloc(flatoffs, 8 * (segidx + 32)) *)
          let grow := (fl_idx s) mod ALLOC_INC =? 0 in
          if grow && (alim <? 8 * (fl_idx s + ALLOC_INC)) then inr (Err KSYSTEM StAlloc)
          else
            let nalloc := if grow then fl_idx s + ALLOC_INC else fl_alloc s in
            (* flatoffs[segidx] = flatpos - pos *)
            if fl_idx s <? nalloc then
              let flatpos := (fl_pos s + 16)%Z in
              inl {| fl_pos := (flatpos + size)%Z; fl_idx := fl_idx s + 1; fl_alloc := nalloc;
                     fl_acc := {| fs_pos := pos; fs_size := size; fs_off := (flatpos - pos)%Z |} :: fl_acc s |}
            else inr OOB
    | _, _ => inr OOB
    end
  | Err st _ => inr (Err st (StFlatRead (of_off (fl_pos s))))
  | OOB => inr OOB | DivZero => inr DivZero | BadShift => inr BadShift
  | NullCall => inr NullCall | OutOfFuel => inr OutOfFuel
  end.

(** every record takes at least 17 bytes of the file; beyond [flen] the file
    reads as zero, which is rejected ("segment size 0") *)
Definition flat_fuel (flen : N) : N := flen / 17 + 2.

Definition flatmap_file_init (alim : N) (f : file) (flen : N) : res (list flatseg) :=
  match loopN (flat_body alim f) (flat_fuel flen)
              {| fl_pos := MDF_HEADER_SIZE; fl_idx := 0; fl_alloc := 0; fl_acc := [] |} with
  | inr r => r
  | inl _ => OutOfFuel
  end.

(** [flatmap_init] for one file: [None] = not flattened *)
Definition flatmap_init (alim : N) (f : file) (flen : N) : res (option (list flatseg)) :=
  do hdr <- pread f 32 0;
  do sig <- cbytes hdr 0 16;
  if negb (if list_eq_dec N.eq_dec sig MDF_SIG then true else false) then Ok None
  else
    do type <- cu64 true hdr 16;
    do version <- cu64 true hdr 24;
    if negb (type =? 1) then Err KNOTIMPL StFlatType
    else if negb (version =? 1) then Err KNOTIMPL StFlatVersion
    else
      do segs <- flatmap_file_init alim f flen;
      Ok (Some segs).
