(** C03 (a) — model of [uncompress_rle] (src/kdumpfile/util.c).

    The C function walks [src] with a pointer and writes through [dst]; here
    the source pointer is an index [i] into the byte list and every read is
    [nth_error] (⇒ [RleOOBRead] when the index is outside the list), the
    destination pointer is the count [wr] of bytes written so far and every
    write of [n] bytes is checked against the real capacity [cap] of the
    buffer (⇒ [RleOOBWrite]).  [remain] is the C variable of the same name:
    the code trusts *it*, the model checks the *buffer*; that the two agree is
    what the theorems show.  No proofs in this file. *)
From Coq Require Import NArith List Bool Arith.
Import ListNotations.
Local Open Scope N_scope.

Inductive rle_res :=
| RleDone (out : list N)      (* return 0; [*pdstlen] = number of bytes written *)
| RleErr (out : list N)       (* return -1; the bytes written before giving up *)
| RleOOBRead                  (* a read outside [src, src+srclen) *)
| RleOOBWrite                 (* a write outside [dst, dst+cap) *)
| RleFuel.

Fixpoint repeatN_nat (v : N) (n : nat) (acc : list N) : list N :=
  match n with O => acc | S n' => repeatN_nat v n' (v :: acc) end.
(** [cnt] copies of [v] pushed on the reversed output ([memset]) *)
Definition push_run (v cnt : N) (acc : list N) : list N := repeatN_nat v (N.to_nat cnt) acc.

(** one literal byte: [if (!remain) return -1; *dst++ = byte; --remain;] *)
Definition rle_literal (cap remain wr byte : N) (out : list N)
           (k : N -> N -> list N -> rle_res) : rle_res :=
  if remain =? 0 then RleErr (rev out)
  else if cap <? wr + 1 then RleOOBWrite
  else k (remain - 1) (wr + 1) (byte :: out).

Fixpoint rle_loop (fuel : nat) (src : list N) (len : nat) (cap : N)
         (i : nat) (remain wr : N) (out : list N) : rle_res :=
  if negb (i <? len)%nat then RleDone (rev out)            (* while (src < srcend) *)
  else match fuel with
  | O => RleFuel
  | S fuel' =>
    match nth_error src i with                               (* byte = *src++ *)
    | None => RleOOBRead
    | Some byte =>
      let i1 := S i in
      if byte =? 0 then
        if (len <=? i1)%nat then RleErr (rev out)            (* if (src >= srcend) return -1 *)
        else match nth_error src i1 with                     (* cnt = *src++ *)
        | None => RleOOBRead
        | Some cnt =>
          let i2 := S i1 in
          if negb (cnt =? 0) then
            if remain <? cnt then RleErr (rev out)
            else if (len <=? i2)%nat then RleErr (rev out)
            else match nth_error src i2 with                 (* memset(dst, *src++, cnt) *)
            | None => RleOOBRead
            | Some v =>
              if cap <? wr + cnt then RleOOBWrite
              else rle_loop fuel' src len cap (S i2) (remain - cnt) (wr + cnt) (push_run v cnt out)
            end
          else
            rle_literal cap remain wr byte out (rle_loop fuel' src len cap i2)
        end
      else
        rle_literal cap remain wr byte out (rle_loop fuel' src len cap i1)
    end
  end.

(** [uncompress_rle(dst, &cap, src, srclen)] with fuel = input length *)
Definition uncompress_rle (src : list N) (cap : N) : rle_res :=
  rle_loop (length src) src (length src) cap 0%nat cap 0 [].

(** what the caller sees: (return value is 0?, new [*pdstlen], buffer contents) *)
Definition rle_retlen (cap : N) (r : rle_res) : option (bool * N) :=
  match r with
  | RleDone out => Some (true, N.of_nat (length out))
  | RleErr _ => Some (false, cap)
  | _ => None
  end.
